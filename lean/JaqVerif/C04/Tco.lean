/-
  C04 — the tail-call decision logic of jaq's compiler (`jaq-core/src/compile.rs`).

  Impl-model, function by function:
    `Locals.call`      ↔ `Locals::call`        (classification Inline / Throw / CatchOne / CatchAll)
    `Locals.pushParent/pushSibling/pushArg` ↔ `Locals::push_parent/push_sibling/push_arg`
    `term` / `itermArgs` ↔ `Compiler::term` / `iterm` / `iterm_tr` (which sub-terms inherit `tr`,
                          and in which order look-up-table slots are allocated and patched)
    `openDef`          ↔ `Compiler::def` + `open_def`
    `compileModule`    ↔ `Compiler::module`;  `callMod` ↔ `Compiler::call_mod_id`
    `compileMain`      ↔ the tail of `Compiler::compile`

  The source AST `Tm` is `parse::Term` restricted to what matters for the decision: every
  construct that compiles all its sub-terms with `iterm` (empty `tr`) is one of `un/bin/tryc`.
  `MapVec` (a map from keys to stacks) is rendered as an association list searched from the
  head; push = cons, pop = leaving the scope of the functional recursion.
  `Tr` (a `BTreeSet<TermId>`) is a list used only through membership.
  Every table entry carries the `Tr` the compiler computed for it (ghost; erased by `showTable`).
-/
namespace Jaq.C04

inductive CallType where
  | inline | throw | catchOne | catchAll
  deriving DecidableEq, Repr, Inhabited

/-- a formal parameter: `$x` (variable, `isVar = true`) or `f` (filter) -/
structure Param where
  isVar : Bool
  name : Nat
  deriving DecidableEq, Repr, Inhabited

mutual
/-- source terms; names are numbers (interned strings) -/
inductive Tm where
  /-- `.`, `..`, literals: no sub-terms, no table slot of their own -/
  | leaf
  /-- `$x` -/
  | var (x : Nat)
  /-- `break $x` -/
  | brk (x : Nat)
  /-- `label $x | t` -/
  | label (x : Nat) (t : Tm)
  /-- `name(args)` -/
  | call (name : Nat) (args : Args)
  /-- a construct whose sub-terms are all compiled with `iterm`, in order (`t[i]`, `t[a:b]`, …) -/
  | nary (args : Args)
  /-- `[t]`, `-t` -/
  | un (t : Tm)
  /-- `try t catch c` -/
  | tryc (t c : Tm)
  /-- `l + r`, `l == r`, `l and r`, `l = r`, `l |= r`, … (neither side is a tail position) -/
  | bin (l r : Tm)
  /-- `l | r` (`pat = none`) or `l as $x… | r` (`pat = some [x…]`) -/
  | pipe (l : Tm) (pat : Option (List Nat)) (r : Tm)
  | comma (l r : Tm)
  | alt (l r : Tm)
  /-- `if c then t else e end` (a missing `else` is `.`, an `elif` chain nests in `e`) -/
  | ite (c t e : Tm)
  /-- `reduce xs as $x… (init; upd)` -/
  | reduce (xs : Tm) (pat : List Nat) (init upd : Tm)
  /-- `foreach xs as $x… (init; upd)` -/
  | foreach2 (xs : Tm) (pat : List Nat) (init upd : Tm)
  /-- `foreach xs as $x… (init; upd; proj)` -/
  | foreach3 (xs : Tm) (pat : List Nat) (init upd proj : Tm)
  /-- `def name(params): body; rest` (`def a; def b; t` = `def a; (def b; t)`: same compilation) -/
  | defIn (name : Nat) (params : List Param) (body rest : Tm)
inductive Args where
  | nil
  | cons (a : Tm) (as : Args)
end

def Args.length : Args → Nat
  | .nil => 0
  | .cons _ as => as.length + 1

abbrev Tr := List Nat

/-- `a.is_subset(b)` -/
def subB (a b : Tr) : Bool := a.all fun x => b.contains x

/-- `tr.remove(id)` (the set afterwards) -/
def Tr.remove (tr : Tr) (id : Nat) : Tr := tr.filter fun x => x != id

/-- argument of a compiled call -/
inductive CArg where
  | var (t : Nat) | fn (t : Nat)
  deriving DecidableEq, Repr

def CArg.id : CArg → Nat
  | .var t => t
  | .fn t => t

/-- compiled terms (`compile::Term<TermId>`); children are table indices -/
inductive CT where
  | leaf
  | var (i : Nat)
  | callDef (id : Nat) (args : List CArg) (skip : Nat) (typ : CallType)
  /-- a call that is not resolved among the local definitions and modules: native or undefined -/
  | native (args : List Nat)
  | label (a : Nat)
  | nary (args : List Nat)
  | un (a : Nat)
  | tryc (a b : Nat)
  | bin (a b : Nat)
  | pipe (l : Nat) (bound : Bool) (r : Nat)
  | comma (l r : Nat)
  | alt (l r : Nat)
  | ite (c t e : Nat)
  | reduce (xs init upd : Nat)
  | foreach2 (xs init upd : Nat)
  | foreach3 (xs init upd proj : Nat)
  deriving DecidableEq, Repr, Inhabited

inductive Bind where
  | var (x : Nat) | label (x : Nat) | fn (x : Nat)
  deriving DecidableEq, Repr

inductive Fun where
  | arg
  | parent (params : List Param) (id : Nat)
  /-- `tr`: which tail calls the sibling can return -/
  | sibling (params : List Param) (id : Nat) (tr : Tr)
  deriving Repr

structure FunEntry where
  name : Nat
  arity : Nat
  f : Fun
  /-- number of bound variables recorded at the push -/
  vars : Nat
  deriving Repr

/-- `Locals`: `funs` head = last pushed; `vars` head = last bound (`vars.total = vars.length`) -/
structure Locals where
  funs : List FunEntry := []
  vars : List Bind := []
  deriving Repr

def Locals.total (L : Locals) : Nat := L.vars.length

def Locals.pushVars (L : Locals) (xs : List Nat) : Locals :=
  { L with vars := (xs.map Bind.var).reverse ++ L.vars }

def Locals.pushLabel (L : Locals) (x : Nat) : Locals := { L with vars := .label x :: L.vars }

/-- `push_arg` -/
def Locals.pushArg (L : Locals) (x : Nat) : Locals :=
  { funs := ⟨x, 0, .arg, L.total + 1⟩ :: L.funs, vars := .fn x :: L.vars }

def Locals.pushParams (L : Locals) : List Param → Locals
  | [] => L
  | p :: ps => (if p.isVar then L.pushVars [p.name] else L.pushArg p.name).pushParams ps

/-- `push_parent`: arguments first, then the parent entry with the *old* total -/
def Locals.pushParent (L : Locals) (name : Nat) (params : List Param) (id : Nat) : Locals :=
  let L' := L.pushParams params
  { L' with funs := ⟨name, params.length, .parent params id, L.total⟩ :: L'.funs }

/-- `push_sibling` -/
def Locals.pushSibling (L : Locals) (name : Nat) (params : List Param) (id : Nat) (tr : Tr) : Locals :=
  { L with funs := ⟨name, params.length, .sibling params id tr, L.total⟩ :: L.funs }

def lookupFun (fs : List FunEntry) (name arity : Nat) : Option FunEntry :=
  fs.find? fun e => e.name == name && e.arity == arity

/-- index of the innermost binder satisfying `p` (`total - v`) -/
def bindIdx (p : Bind → Bool) : List Bind → Option Nat
  | [] => none
  | b :: bs => if p b then some 0 else (bindIdx p bs).map (· + 1)

/-- `binds(args_, args)` -/
def binds : List Param → List Nat → List CArg
  | p :: ps, a :: as => (if p.isVar then CArg.var a else CArg.fn a) :: binds ps as
  | _, _ => []

/-- `Locals::call`: call `name(args)`, allowing tail-recursive calls to `tr` -/
def Locals.call (L : Locals) (name : Nat) (args : List Nat) (tr : Tr) : Option (CT × Tr) :=
  match lookupFun L.funs name args.length with
  | none => none
  | some e =>
    match e.f with
    | .arg => some (.var (L.total - e.vars), [])
    | .sibling params id tr_ =>
      -- does the sibling return tail-recursive calls to itself?
      let recu := tr_.contains id
      let tr_ := Tr.remove tr_ id
      -- are all remaining tail-recursive calls from the sibling permitted?
      if subB tr_ tr then
        some (.callDef id (binds params args) (L.total - e.vars) (if recu then .catchOne else .inline), tr_)
      else
        some (.callDef id (binds params args) (L.total - e.vars) .catchAll, [])
    | .parent params id =>
      if tr.contains id then
        some (.callDef id (binds params args) (L.total - e.vars) .throw, [id])
      else
        some (.callDef id (binds params args) (L.total - e.vars) .catchAll, [])

/-- a compiled module-level definition (`Def<S> = (Sig, TermId, Tr)`) -/
structure ModDef where
  name : Nat
  params : List Param
  id : Nat
  tr : Tr
  deriving Repr

/-- `call_mod_id` on the included module; `M` head = last definition of the module -/
def callMod (M : List ModDef) (total : Nat) (name : Nat) (args : List Nat) : Option CT :=
  match M.find? fun d => d.name == name && d.params.length == args.length with
  | none => none
  | some d => some (.callDef d.id (binds d.params args) total (if d.tr.contains d.id then .catchOne else .inline))

/-- `Compiler::call` -/
def resolve (M : List ModDef) (L : Locals) (name : Nat) (args : List Nat) (tr : Tr) : CT × Tr :=
  match L.call name args tr with
  | some r => r
  | none =>
    match callMod M L.total name args with
    | some c => (c, [])
    | none => (.native args, [])

structure Entry where
  id : Nat
  ct : CT
  /-- ghost: the `Tr` the compiler returned for this term -/
  tr : Tr
  deriving Repr

/-- the look-up table under construction: `next = lut.terms.len()`, `out` = the patched slots -/
structure St where
  next : Nat := 0
  out : List Entry := []
  deriving Repr

def St.bump (s : St) : St := { s with next := s.next + 1 }
def St.emit (s : St) (id : Nat) (c : CT) (tr : Tr) : St := { s with out := ⟨id, c, tr⟩ :: s.out }
/-- `insert_term(t)` of a finished term -/
def St.insert (s : St) (c : CT) (tr : Tr) : St := { next := s.next + 1, out := ⟨s.next, c, tr⟩ :: s.out }

/-- result of `term` -/
structure R where
  ct : CT
  tr : Tr
  st : St

/-- result of `iterm_tr` -/
structure RI where
  id : Nat
  tr : Tr
  st : St

/-- `iterm_tr` around an already computed `term` result: the placeholder slot `id` was reserved
before the sub-term was compiled and is patched afterwards -/
def wrapI (id : Nat) (r : R) : RI := ⟨id, r.tr, r.st.emit id r.ct r.tr⟩

mutual
/-- `Compiler::term`: compile a term that may call any function in `tr` tail-recursively;
returns which of them it actually calls that way -/
def term (M : List ModDef) : Tm → Tr → Locals → St → R
  | .leaf, _, _, s => ⟨.leaf, [], s⟩
  | .var x, _, L, s =>
    ⟨match bindIdx (· == .var x) L.vars with | some i => .var i | none => .leaf, [], s⟩
  | .brk x, _, L, s =>
    ⟨match bindIdx (· == .label x) L.vars with | some i => .var i | none => .leaf, [], s⟩
  | .label x t, _, L, s =>
    let a := wrapI s.next (term M t [] (L.pushLabel x) s.bump)
    ⟨.label a.id, [], a.st⟩
  | .call name args, tr, L, s =>
    let a := itermArgs M args L s
    let c := resolve M L name a.1 tr
    ⟨c.1, c.2, a.2⟩
  | .nary args, _, L, s =>
    let a := itermArgs M args L s
    ⟨.nary a.1, [], a.2⟩
  | .un t, _, L, s =>
    let a := wrapI s.next (term M t [] L s.bump)
    ⟨.un a.id, [], a.st⟩
  | .tryc t c, _, L, s =>
    let a := wrapI s.next (term M t [] L s.bump)
    let b := wrapI a.st.next (term M c [] L a.st.bump)
    ⟨.tryc a.id b.id, [], b.st⟩
  | .bin l r, _, L, s =>
    let a := wrapI s.next (term M l [] L s.bump)
    let b := wrapI a.st.next (term M r [] L a.st.bump)
    ⟨.bin a.id b.id, [], b.st⟩
  | .pipe l pat r, tr, L, s =>
    let a := wrapI s.next (term M l [] L s.bump)
    let b := wrapI a.st.next (term M r tr (L.pushVars (pat.getD [])) a.st.bump)
    ⟨.pipe a.id pat.isSome b.id, b.tr, b.st⟩
  | .comma l r, tr, L, s =>
    let a := wrapI s.next (term M l tr L s.bump)
    let b := wrapI a.st.next (term M r tr L a.st.bump)
    ⟨.comma a.id b.id, a.tr ++ b.tr, b.st⟩
  | .alt l r, tr, L, s =>
    let a := wrapI s.next (term M l [] L s.bump)
    let b := wrapI a.st.next (term M r tr L a.st.bump)
    ⟨.alt a.id b.id, b.tr, b.st⟩
  | .ite c t e, tr, L, s =>
    let a := wrapI s.next (term M c [] L s.bump)
    let b := wrapI a.st.next (term M t tr L a.st.bump)
    -- the `else` branch is compiled by `term` and gets its slot only afterwards
    let e' := term M e tr L b.st
    ⟨.ite a.id b.id e'.st.next, b.tr ++ e'.tr, e'.st.insert e'.ct e'.tr⟩
  | .reduce xs pat init upd, _, L, s =>
    let a := wrapI s.next (term M xs [] L s.bump)
    let b := wrapI a.st.next (term M init [] L a.st.bump)
    let c := wrapI b.st.next (term M upd [] (L.pushVars pat) b.st.bump)
    ⟨.reduce a.id b.id c.id, [], c.st⟩
  | .foreach2 xs pat init upd, _, L, s =>
    let a := wrapI s.next (term M xs [] L s.bump)
    let b := wrapI a.st.next (term M init [] L a.st.bump)
    let c := wrapI b.st.next (term M upd [] (L.pushVars pat) b.st.bump)
    ⟨.foreach2 a.id b.id c.id, [], c.st⟩
  | .foreach3 xs pat init upd proj, tr, L, s =>
    let a := wrapI s.next (term M xs [] L s.bump)
    let b := wrapI a.st.next (term M init [] L a.st.bump)
    let c := wrapI b.st.next (term M upd [] (L.pushVars pat) b.st.bump)
    let d := wrapI c.st.next (term M proj tr (L.pushVars pat) c.st.bump)
    ⟨.foreach3 a.id b.id c.id d.id, d.tr, d.st⟩
  | .defIn name params body rest, tr, L, s =>
    -- `Compiler::def`: placeholder, `push_parent`, body with `tr ∪ {id}`, patch, `push_sibling`
    let id := s.next
    let b := term M body (id :: tr) (L.pushParent name params id) s.bump
    term M rest tr (L.pushSibling name params id b.tr) (b.st.emit id b.ct b.tr)
/-- arguments of a call: each compiled with `iterm` before the call is resolved -/
def itermArgs (M : List ModDef) : Args → Locals → St → List Nat × St
  | .nil, _, s => ([], s)
  | .cons a as, L, s =>
    let x := wrapI s.next (term M a [] L s.bump)
    let r := itermArgs M as L x.st
    (x.id :: r.1, r.2)
end

/-- a top-level definition of a module -/
structure DefS where
  name : Nat
  params : List Param
  body : Tm

/-- `open_def` for one definition: returns the extended locals, the `ModDef` and the table -/
def openDef (M : List ModDef) (d : DefS) (tr : Tr) (L : Locals) (s : St) : Locals × ModDef × St :=
  let id := s.next
  let b := term M d.body (id :: tr) (L.pushParent d.name d.params id) s.bump
  (L.pushSibling d.name d.params id b.tr, ⟨d.name, d.params, id, b.tr⟩, b.st.emit id b.ct b.tr)

/-- `Compiler::module`: all definitions with `tr = ∅`, earlier ones visible as siblings.
Result: `ModDef`s, last definition first. -/
def compileModule : List DefS → Locals → List ModDef → St → List ModDef × St
  | [], _, acc, s => (acc, s)
  | d :: ds, L, acc, s =>
    let o := openDef [] d [] L s
    compileModule ds o.1 (o.2.1 :: acc) o.2.2

/-- `Compiler::compile` for one included prelude module and a main term: the table and the
entry point -/
def compileMain (prelude : List DefS) (main : Tm) : Nat × St :=
  let ms := compileModule prelude {} [] {}
  let r := wrapI ms.2.next (term ms.1 main [] {} ms.2.bump)
  (r.id, r.st)

/-! ### Printing (canonical text compared with the real table by the check) -/

def CallType.show : CallType → String
  | .inline => "Inline" | .throw => "Throw" | .catchOne => "CatchOne" | .catchAll => "CatchAll"

def CArg.show : CArg → String
  | .var t => s!"v{t}"
  | .fn t => s!"f{t}"

def CT.show : CT → String
  | .leaf => "L"
  | .var i => s!"V{i}"
  | .callDef id args skip typ => s!"C{id}({",".intercalate (args.map CArg.show)}){skip}{typ.show}"
  | .native args => s!"N({",".intercalate (args.map toString)})"
  | .label a => s!"Lb{a}"
  | .nary args => s!"X({",".intercalate (args.map toString)})"
  | .un a => s!"U{a}"
  | .tryc a b => s!"T{a},{b}"
  | .bin a b => s!"B{a},{b}"
  | .pipe l bound r => s!"P{if bound then 1 else 0}:{l},{r}"
  | .comma l r => s!"M{l},{r}"
  | .alt l r => s!"A{l},{r}"
  | .ite c t e => s!"I{c},{t},{e}"
  | .reduce a b c => s!"R{a},{b},{c}"
  | .foreach2 a b c => s!"F{a},{b},{c}"
  | .foreach3 a b c d => s!"G{a},{b},{c},{d}"

def St.lookup (s : St) (id : Nat) : Option Entry := s.out.find? fun e => e.id == id

/-- the table in index order, entries separated by `;` (`?` = a slot that was never patched) -/
def St.showTable (s : St) : String :=
  ";".intercalate ((List.range s.next).map fun i =>
    match s.lookup i with
    | some e => e.ct.show
    | none => "?")

end Jaq.C04
