/-
  C01 — outcomes of the L1 big-step semantics (DESIGN §2): the values delivered so far plus the
  way the stream ended.  `fuel` means "the evaluator ran out of fuel here": the values before it
  are kept, which makes "the first k outputs exist although the rest diverges" expressible.
-/
import JaqVerif.Val.Arith

namespace Jaq.Core
open Jaq

/-- how a stream ends: normally, with a run-time error (`Exn::Err`), with `break` to the label
numbered `l` (`Exn::Break`), with `halt` (`Exn::Halt`), or because the evaluator's fuel ran out -/
inductive Stop where
  | done
  | err (e : Err)
  | brk (l : Nat)
  | halt (c : Int)
  | fuel
  deriving Inhabited

structure OutG (α : Type) where
  vals : List α
  stop : Stop
  deriving Inhabited

abbrev Out := OutG Val

namespace OutG
variable {α β : Type}

def done (vs : List α) : OutG α := ⟨vs, .done⟩
def fuel : OutG α := ⟨[], .fuel⟩
def err (e : Err) : OutG α := ⟨[], .err e⟩

/-- `a` followed by `b` (which is only evaluated when `a` ended normally) -/
def append (a : OutG α) (b : Unit → OutG α) : OutG α :=
  match a.stop with
  | .done => let b := b (); ⟨a.vals ++ b.vals, b.stop⟩
  | _ => a

/-- run `f` on each value of `⟨vs, s⟩` in order; stop at the first result that does not end
with `done` -/
def bind (vs : List α) (s : Stop) (f : α → OutG β) : OutG β :=
  match vs with
  | [] => ⟨[], s⟩
  | v :: vs =>
    let r := f v
    match r.stop with
    | .done => let r' := bind vs s f; ⟨r.vals ++ r'.vals, r'.stop⟩
    | _ => r

def ofExcept : Except Err α → OutG α
  | .ok v => .done [v]
  | .error e => .err e

/-- map a fallible function over the values; the first failure ends the stream -/
def mapM (o : OutG α) (f : α → Except Err β) : OutG β :=
  bind o.vals o.stop (fun v => ofExcept (f v))

end OutG

def Stop.isDone : Stop → Bool | .done => true | _ => false
def Stop.isFuel : Stop → Bool | .fuel => true | _ => false

end Jaq.Core
