/-
  C01 — impl-model of jaq's compiler, `/repo/jaq-core/src/compile.rs`, function by function:
  `MapVec`, `MapVecLen`, `Locals::{push_sibling, push_parent, push_arg, call}`,
  `Compiler::{term, iterm, iterm_tr, def, open_def, module, pattern, call, call_mod_id, var,
  break_, obj_entry, sum_or, compile}`, `Tr`, `CallType`, the look-up table of terms with its
  insertion order (placeholders are `Term::default() = Id`, filled in place).

  Reading conventions:
  * The Rust compiler keeps `locals` as mutable state and restores it with `pop_*` after a
    sub-term (the pops `assert` that they remove exactly what was pushed).  Here `Locals` is
    passed *down* (reader style): `with_vars vars f` is `f (pushVars loc vars)`.
  * Only what `compile` of the main module with the prelude module 0 needs is modelled:
    no imported modules / global variables (`call_mod` and the two tail loops of `var` fail).
  * `St` is the growing table (`lut.terms`) plus the list of compile errors (`errs`).
-/
import JaqVerif.Val.Num
import JaqVerif.Core.Ast

namespace Jaq.Core

abbrev TermId := Nat

inductive CallType where
  | inline | throw | catchOne | catchAll
  deriving Repr, DecidableEq, Inhabited

/-- `Bind<V, L, F>` restricted to arguments (`Bind as Arg`): variable or filter -/
inductive ArgK (α : Type) where
  | var (a : α)
  | fn (a : α)
  deriving Repr, DecidableEq, Inhabited

def ArgK.get {α : Type} : ArgK α → α | .var a => a | .fn a => a
def ArgK.isVar {α : Type} : ArgK α → Bool | .var _ => true | .fn _ => false
def ArgK.setTo {α β : Type} (b : β) : ArgK α → ArgK β | .var _ => .var b | .fn _ => .fn b

/-- `compile::Pattern<TermId>` -/
inductive CPat where
  | var
  | idx (ps : List (TermId × CPat))
  deriving Inhabited

/-- `compile::Fold<TermId>` -/
inductive CFold where
  | reduce
  | foreach (proj : Option TermId)
  deriving Inhabited

/-- `path::Part<TermId>` -/
inductive CPart where
  | index (i : TermId)
  | range (a b : Option TermId)
  deriving Inhabited

/-- `compile::Term<TermId>` -/
inductive CTerm where
  | id | recurse | toString
  | int (i : Int) | num (s : String) | str (s : String)
  | arr (f : TermId) | objEmpty | objSingle (k v : TermId)
  | var (i : Nat)
  | callDef (id : TermId) (args : List (ArgK TermId)) (skip : Nat) (ct : CallType)
  | native (nid : Nat) (args : List (ArgK TermId))
  | label (f : TermId) | neg (f : TermId)
  | pipe (l : TermId) (pat : Option CPat) (r : TermId)
  | comma (l r : TermId)
  | assign (l r : TermId) | update (l r : TermId) | updateMath (l : TermId) (op : MathOp) (r : TermId)
  | updateAlt (l r : TermId)
  | logic (l : TermId) (stop : Bool) (r : TermId)
  | math (l : TermId) (op : MathOp) (r : TermId)
  | cmp (l : TermId) (op : CmpOp) (r : TermId)
  | alt (l r : TermId) | tryCatch (l r : TermId) | ite (c t e : TermId)
  | fold (xs : TermId) (pat : CPat) (init update : TermId) (kind : CFold)
  | path (f : TermId) (parts : List (CPart × Opt))
  deriving Inhabited

/-! ### `Tr`: sets of term ids (`BTreeSet<TermId>`) -/
abbrev Tr := List TermId

def Tr.insert (s : Tr) (x : TermId) : Tr := if x ∈ s then s else x :: s
def Tr.union (a b : Tr) : Tr := a ++ b.filter (fun x => !(a.contains x))
def Tr.remove (s : Tr) (x : TermId) : Tr := s.filter (· != x)
def Tr.subset (a b : Tr) : Bool := a.all (b.contains ·)

/-! ### `MapVec`, `MapVecLen`, `Locals` -/

/-- `MapVec<K, V>(BTreeMap<K, Vec<V>>)`; only `push` and `get_last` are needed (reader style) -/
abbrev MapVec (κ ν : Type) := List (κ × List ν)

def MapVec.push {κ ν : Type} [DecidableEq κ] : MapVec κ ν → κ → ν → MapVec κ ν
  | [], k, v => [(k, [v])]
  | (k', vs) :: m, k, v => if k' = k then (k', vs ++ [v]) :: m else (k', vs) :: MapVec.push m k v

def MapVec.getLast {κ ν : Type} [DecidableEq κ] : MapVec κ ν → κ → Option ν
  | [], _ => none
  | (k', vs) :: m, k => if k' = k then vs.getLast? else MapVec.getLast m k

/-- keys of `MapVecLen<Bind<S>>` -/
inductive BindK where
  | var (x : String) | label (x : String) | fn (x : String)
  deriving Repr, DecidableEq, Inhabited

/-- `enum Fun` -/
inductive FunE where
  | arg
  | parent (sig : List (ArgK String)) (id : TermId)
  | sibling (sig : List (ArgK String)) (id : TermId) (tr : Tr)
  deriving Inhabited

structure Locals where
  /-- `funs: MapVec<(S, Arity), (Fun<S>, usize)>` -/
  funs : MapVec (String × Nat) (FunE × Nat) := []
  /-- `vars.bound: MapVec<Bind<S>, usize>` -/
  bound : MapVec BindK Nat := []
  /-- `vars.total` -/
  total : Nat := 0
  deriving Inhabited

namespace Locals

/-- `MapVecLen::push` -/
def pushBind (l : Locals) (k : BindK) : Locals :=
  { l with total := l.total + 1, bound := l.bound.push k (l.total + 1) }

/-- `with_vars` (push part) -/
def pushVars (l : Locals) (xs : List String) : Locals := xs.foldl (fun l x => l.pushBind (.var x)) l

/-- `with_label` (push part) -/
def pushLabel (l : Locals) (x : String) : Locals := l.pushBind (.label x)

/-- `push_arg` -/
def pushArg (l : Locals) (name : String) : Locals :=
  let l := l.pushBind (.fn name)
  { l with funs := l.funs.push (name, 0) (.arg, l.total) }

/-- `push_sibling` -/
def pushSibling (l : Locals) (name : String) (sig : List (ArgK String)) (id : TermId) (tr : Tr) : Locals :=
  { l with funs := l.funs.push (name, sig.length) (.sibling sig id tr, l.total) }

/-- `push_parent`: the arguments in order, then the parent entry recorded at the *old* total -/
def pushParent (l : Locals) (name : String) (sig : List (ArgK String)) (id : TermId) : Locals :=
  let vars := l.total
  let l := sig.foldl (fun l a => match a with
    | .var v => l.pushBind (.var v)
    | .fn f => l.pushArg f) l
  { l with funs := l.funs.push (name, sig.length) (.parent sig id, vars) }

/-- `binds(sig, args)` -/
def binds {α : Type} (sig : List (ArgK α)) (args : List TermId) : List (ArgK TermId) :=
  (sig.zip args).map fun (b, a) => b.setTo a

/-- `Locals::call` -/
def call (l : Locals) (name : String) (args : List TermId) (tr : Tr) : Option (CTerm × Tr) :=
  match l.funs.getLast (name, args.length) with
  | none => none
  | some (.arg, vars) => some (.var (l.total - vars), [])
  | some (.sibling sig id tr0, vars) =>
    let rec_ := tr0.contains id
    let tr1 := tr0.remove id
    if tr1.subset tr then
      some (.callDef id (binds sig args) (l.total - vars) (if rec_ then .catchOne else .inline), tr1)
    else
      some (.callDef id (binds sig args) (l.total - vars) .catchAll, [])
  | some (.parent sig id, vars) =>
    if tr.contains id then some (.callDef id (binds sig args) (l.total - vars) .throw, [id])
    else some (.callDef id (binds sig args) (l.total - vars) .catchAll, [])

end Locals

/-! ### compiler state and context -/

structure St where
  terms : List CTerm := []
  errs : List String := []
  deriving Inhabited

/-- `lut.insert_term` -/
def St.insert (st : St) (c : CTerm) : TermId × St :=
  (st.terms.length, { st with terms := st.terms ++ [c] })

/-- `self.lut.terms[id] = c` -/
def St.set (st : St) (id : TermId) (c : CTerm) : St := { st with terms := st.terms.set id c }

/-- `fail`: record the error; the caller uses `Term::default()` -/
def St.fail (st : St) (name : String) : St := { st with errs := st.errs ++ [name] }

/-- entry of `mod_map[mid]`: `(Sig, TermId, Tr)` -/
structure MDef where
  name : String
  sig : List (ArgK Unit)
  id : TermId
  tr : Tr
  deriving Inhabited

/-- what `Compiler` holds besides `lut`, `locals`, `errs` -/
structure Cx where
  modMap : List (List MDef) := []
  included : List Nat := []
  /-- native signatures, in `lut.funs` order -/
  natives : List (String × List (ArgK Unit)) := []
  deriving Inhabited

def sigOf (params : List String) : List (ArgK String) :=
  params.map fun a => if isVarName a then .var a else .fn a

/-- `call_mod_id` -/
def callModId (cx : Cx) (loc : Locals) (mid : Nat) (name : String) (args : List TermId) : Option CTerm :=
  match (cx.modMap.getD mid []).reverse.find? (fun d => d.name == name && d.sig.length == args.length) with
  | none => none
  | some d =>
    some (.callDef d.id (Locals.binds d.sig args) loc.total (if d.tr.contains d.id then .catchOne else .inline))

def findNative (nat : List (String × List (ArgK Unit))) (name : String) (n : Nat) (i : Nat) :
    Option (Nat × List (ArgK Unit)) :=
  match nat with
  | [] => none
  | (nm, sig) :: rest => if nm == name && sig.length == n then some (i, sig) else findNative rest name n (i+1)

/-- `Compiler::call` -/
def callC (cx : Cx) (loc : Locals) (name : String) (args : List TermId) (tr : Tr) (st : St) : CTerm × Tr × St :=
  match loc.call name args tr with
  | some (c, tr') => (c, tr', st)
  | none =>
    match cx.included.reverse.findSome? (fun mid => callModId cx loc mid name args) with
    | some c => (c, [], st)
    | none =>
      match findNative cx.natives name args.length 0 with
      | some (nid, sig) => (.native nid (Locals.binds sig args), [], st)
      | none => (.id, [], st.fail name)

/-- `Compiler::var` (no imported / global variables) -/
def varC (loc : Locals) (x : String) (st : St) : CTerm × St :=
  match loc.bound.getLast (.var x) with
  | some v => (.var (loc.total - v), st)
  | none => (.id, st.fail x)

/-- `Compiler::break_` -/
def breakC (loc : Locals) (x : String) (st : St) : CTerm × St :=
  match loc.bound.getLast (.label x) with
  | some l => (.var (loc.total - l), st)
  | none => (.id, st.fail x)

/-- literal: `n.parse::<isize>()` → `Int`, else `Num(text)` (which `V::from_num` reads at run
time with `Num::from_str`).  Stated through the shared reader `Num.ofLiteral`: the literal is a
machine integer exactly when that reader delivers `Num.int`. -/
def numC (s : String) : CTerm :=
  match Jaq.Num.ofLiteral s with
  | .int i => .int i
  | _ => .num s

/-- `sum_or`: right-nested `Math(insert x, Add, insert acc)` -/
def sumOr (zero : CTerm) (terms : List CTerm) (st : St) : CTerm × St :=
  match terms.reverse with
  | [] => (zero, st)
  | last :: rest =>
    rest.foldl (fun (acc : CTerm × St) x =>
      let (ix, st1) := acc.2.insert x
      let (ia, st2) := st1.insert acc.1
      (.math ix .add ia, st2)) (last, st)

/-- end of `iterm_tr`: the placeholder `id` receives the compiled term -/
def finishI (id : TermId) (r : CTerm × Tr × St) : TermId × Tr × St := (id, r.2.1, r.2.2.set id r.1)

/-- `iterm(Call("!empty", []))` -/
def itermEmpty (cx : Cx) (loc : Locals) (st : St) : TermId × St :=
  let (id, st) := st.insert .id
  let (c, _, st) := callC cx loc "!empty" [] [] st
  (id, st.set id c)

mutual
  /-- `Compiler::term` -/
  def term (cx : Cx) (loc : Locals) (tr : Tr) : Term → St → CTerm × Tr × St
    | .id, st => (.id, [], st)
    | .recurse, st => (.recurse, [], st)
    | .arr none, st => let (i, st) := itermEmpty cx loc st; (.arr i, [], st)
    | .arr (some t), st =>
      let (i, _, st) := finishI st.terms.length (term cx loc [] t (st.insert .id).2)
      (.arr i, [], st)
    | .neg t, st =>
      let (i, _, st) := finishI st.terms.length (term cx loc [] t (st.insert .id).2)
      (.neg i, [], st)
    | .label x t, st =>
      let (i, _, st) := finishI st.terms.length (term cx (loc.pushLabel x) [] t (st.insert .id).2)
      (.label i, [], st)
    | .brk x, st => let (c, st) := breakC loc x st; (c, [], st)
    | .ite its els, st =>
      let (cits, st) := compileIts cx loc tr its st
      let (ce, tre, st) : CTerm × Tr × St := match els with
        | none => (.id, [], st)
        | some e => term cx loc tr e st
      cits.reverse.foldl (fun (acc : CTerm × Tr × St) (it : TermId × TermId × Tr) =>
        let (ie, st) := acc.2.2.insert acc.1
        (.ite it.1 it.2.1 ie, Tr.union it.2.2 acc.2.1, st)) (ce, tre, st)
    | .var x, st => let (c, st) := varC loc x st; (c, [], st)
    | .call name args, st =>
      let (ids, st) := itermList cx loc args st
      if isQualified name then (.id, [], st.fail name) else callC cx loc name ids tr st
    | .defs ds t, st =>
      let (loc', st) := compileDefs cx loc tr ds st
      term cx loc' tr t st
    | .num s, st => (numC s, [], st)
    | .tryCatch t c, st =>
      let (it, _, st) := finishI st.terms.length (term cx loc [] t (st.insert .id).2)
      let (ic, st) : TermId × St := match c with
        | none => itermEmpty cx loc st
        | some c => let r := finishI st.terms.length (term cx loc [] c (st.insert .id).2); (r.1, r.2.2)
      (.tryCatch it ic, [], st)
    | .fold name xs pat args, st =>
      match args with
      | init :: update :: rest =>
        let vars := pat.vars
        let (ixs, _, st) := finishI st.terms.length (term cx loc [] xs (st.insert .id).2)
        let (cpat, st) := pattern cx loc pat st
        let (iinit, _, st) := finishI st.terms.length (term cx loc [] init (st.insert .id).2)
        let (iupd, _, st) := finishI st.terms.length (term cx (loc.pushVars vars) [] update (st.insert .id).2)
        match rest with
        | [] =>
          if name = "reduce" then (.fold ixs cpat iinit iupd .reduce, [], st)
          else if name = "foreach" then (.fold ixs cpat iinit iupd (.foreach none), [], st)
          else (.id, [], st.fail name)
        | [proj] =>
          if name = "foreach" then
            let (iproj, trp, st) := finishI st.terms.length (term cx (loc.pushVars vars) tr proj (st.insert .id).2)
            (.fold ixs cpat iinit iupd (.foreach (some iproj)), trp, st)
          else (.id, [], st.fail name)
        | _ => (.id, [], st.fail name)
      | _ => (.id, [], st.fail name)
    | .binop l .comma r, st =>
      let (il, trl, st) := finishI st.terms.length (term cx loc tr l (st.insert .id).2)
      let (ir, trr, st) := finishI st.terms.length (term cx loc tr r (st.insert .id).2)
      (.comma il ir, Tr.union trl trr, st)
    | .binop l .alt r, st =>
      let (il, _, st) := finishI st.terms.length (term cx loc [] l (st.insert .id).2)
      let (ir, trr, st) := finishI st.terms.length (term cx loc tr r (st.insert .id).2)
      (.alt il ir, trr, st)
    | .binop l op r, st =>
      let (il, _, st) := finishI st.terms.length (term cx loc [] l (st.insert .id).2)
      let (ir, _, st) := finishI st.terms.length (term cx loc [] r (st.insert .id).2)
      let c : CTerm := match op with
        | .math o => .math il o ir
        | .assign => .assign il ir
        | .update => .update il ir
        | .updateMath o => .updateMath il o ir
        | .cmp o => .cmp il o ir
        | .or => .logic il true ir
        | .and => .logic il false ir
        | .updateAlt => .updateAlt il ir
        | .comma => .comma il ir
        | .alt => .alt il ir
      (c, [], st)
    | .pipe l pat r, st =>
      let (il, _, st) := finishI st.terms.length (term cx loc [] l (st.insert .id).2)
      let vars := match pat with | none => [] | some p => p.vars
      let (ir, trr, st) := finishI st.terms.length (term cx (loc.pushVars vars) tr r (st.insert .id).2)
      match pat with
      | none => (.pipe il none ir, trr, st)
      | some p => let (cp, st) := pattern cx loc p st; (.pipe il (some cp) ir, trr, st)
    | .path t parts, st =>
      let (it, _, st) := finishI st.terms.length (term cx loc [] t (st.insert .id).2)
      let (cparts, st) := compileParts cx loc parts st
      (.path it cparts, [], st)
    | .str fmt parts, st =>
      let (ifmt, st) : TermId × St := match fmt with
        | some f =>
          let (id, st) := st.insert .id
          let (c, _, st) := callC cx loc f [] [] st
          (id, st.set id c)
        | none => st.insert .toString
      let (cs, st) := compileStrParts cx loc ifmt parts st
      let (c, st) := sumOr (.str "") cs st
      (c, [], st)
    | .obj kvs, st =>
      let (cs, st) := compileEntries cx loc kvs st
      let (c, st) := sumOr .objEmpty cs st
      (c, [], st)

  /-- `args.into_iter().map(|t| self.iterm(t))` -/
  def itermList (cx : Cx) (loc : Locals) : List Term → St → List TermId × St
    | [], st => ([], st)
    | t :: ts, st =>
      let (i, _, st) := finishI st.terms.length (term cx loc [] t (st.insert .id).2)
      let (is, st) := itermList cx loc ts st
      (i :: is, st)

  /-- the `if_thens` of `IfThenElse`: `(iterm(if_), iterm_tr(then_, tr))` in order -/
  def compileIts (cx : Cx) (loc : Locals) (tr : Tr) : List (Term × Term) → St → List (TermId × TermId × Tr) × St
    | [], st => ([], st)
    | (c, t) :: rest, st =>
      let (ic, _, st) := finishI st.terms.length (term cx loc [] c (st.insert .id).2)
      let (it, trt, st) := finishI st.terms.length (term cx loc tr t (st.insert .id).2)
      let (r, st) := compileIts cx loc tr rest st
      ((ic, it, trt) :: r, st)

  /-- `defs.into_iter().map(|def| self.open_def(def, tr))`: `def` then `push_sibling` -/
  def compileDefs (cx : Cx) (loc : Locals) (tr : Tr) : List Def → St → Locals × St
    | [], st => (loc, st)
    | .mk name params body :: ds, st =>
      let sig := sigOf params
      let id := st.terms.length
      let (cb, trb, st) := term cx (loc.pushParent name sig id) (Tr.insert tr id) body (st.insert .id).2
      let st := st.set id cb
      compileDefs cx (loc.pushSibling name sig id trb) tr ds st

  /-- `Compiler::pattern` -/
  def pattern (cx : Cx) (loc : Locals) : Pattern → St → CPat × St
    | .var _, st => (.var, st)
    | .arr ps, st => let (r, st) := patternArr cx loc ps 0 st; (.idx r, st)
    | .obj kps, st => let (r, st) := patternObj cx loc kps st; (.idx r, st)
  def patternArr (cx : Cx) (loc : Locals) : List Pattern → Nat → St → List (TermId × CPat) × St
    | [], _, st => ([], st)
    | p :: ps, i, st =>
      let (ii, st) := st.insert (.int i)
      let (cp, st) := pattern cx loc p st
      let (r, st) := patternArr cx loc ps (i+1) st
      ((ii, cp) :: r, st)
  def patternObj (cx : Cx) (loc : Locals) : List (Term × Pattern) → St → List (TermId × CPat) × St
    | [], st => ([], st)
    | (k, p) :: kps, st =>
      let (ik, _, st) := finishI st.terms.length (term cx loc [] k (st.insert .id).2)
      let (cp, st) := pattern cx loc p st
      let (r, st) := patternObj cx loc kps st
      ((ik, cp) :: r, st)

  /-- the parts of `Path(t, path)` -/
  def compileParts (cx : Cx) (loc : Locals) : List (Part × Opt) → St → List (CPart × Opt) × St
    | [], st => ([], st)
    | (.index i, o) :: rest, st =>
      let (ii, _, st) := finishI st.terms.length (term cx loc [] i (st.insert .id).2)
      let (r, st) := compileParts cx loc rest st
      ((.index ii, o) :: r, st)
    | (.range a b, o) :: rest, st =>
      let (ia, st) : Option TermId × St := match a with
        | none => (none, st)
        | some a => let r := finishI st.terms.length (term cx loc [] a (st.insert .id).2); (some r.1, r.2.2)
      let (ib, st) : Option TermId × St := match b with
        | none => (none, st)
        | some b => let r := finishI st.terms.length (term cx loc [] b (st.insert .id).2); (some r.1, r.2.2)
      let (r, st) := compileParts cx loc rest st
      ((.range ia ib, o) :: r, st)

  /-- the parts of `Str(fmt, parts)` -/
  def compileStrParts (cx : Cx) (loc : Locals) (ifmt : TermId) : List StrPart → St → List CTerm × St
    | [], st => ([], st)
    | .lit s :: rest, st =>
      let (r, st) := compileStrParts cx loc ifmt rest st
      (.str s :: r, st)
    | .interp f :: rest, st =>
      let (i, _, st) := finishI st.terms.length (term cx loc [] f (st.insert .id).2)
      let (r, st) := compileStrParts cx loc ifmt rest st
      (.pipe i none ifmt :: r, st)

  /-- `o.into_iter().map(|(k, v)| self.obj_entry(k, v))` -/
  def compileEntries (cx : Cx) (loc : Locals) : List (Term × Option Term) → St → List CTerm × St
    | [], st => ([], st)
    | (.var x, none) :: rest, st =>
      let (ik, st) := st.insert (.str (x.drop 1).toString)
      let (iv, st) := st.insert .id
      let (cv, st) := varC loc x st
      let st := st.set iv cv
      let (r, st) := compileEntries cx loc rest st
      (.objSingle ik iv :: r, st)
    | (k, none) :: rest, st =>
      let (ik, _, st) := finishI st.terms.length (term cx loc [] k (st.insert .id).2)
      let (iid, st) := st.insert .id
      let (ip, st) := st.insert (.path iid [(.index ik, .essential)])
      let (r, st) := compileEntries cx loc rest st
      (.objSingle ik ip :: r, st)
    | (k, some v) :: rest, st =>
      let (ik, _, st) := finishI st.terms.length (term cx loc [] k (st.insert .id).2)
      let (iv, _, st) := finishI st.terms.length (term cx loc [] v (st.insert .id).2)
      let (r, st) := compileEntries cx loc rest st
      (.objSingle ik iv :: r, st)
end

/-- `iterm` -/
def iterm (cx : Cx) (loc : Locals) (t : Term) (st : St) : TermId × St :=
  let r := finishI st.terms.length (term cx loc [] t (st.insert .id).2)
  (r.1, r.2.2)

/-- `Compiler::module` for one module: open every definition in order, then read the
siblings back as `(Sig, TermId, Tr)` -/
def moduleC (cx : Cx) : Locals → List Def → St → List MDef × St
  | _, [], st => ([], st)
  | loc, .mk name params body :: ds, st =>
    let sig := sigOf params
    let id := st.terms.length
    let (cb, trb, st) := term cx (loc.pushParent name sig id) (Tr.insert [] id) body (st.insert .id).2
    let st := st.set id cb
    let (r, st) := moduleC cx (loc.pushSibling name sig id trb) ds st
    ({ name := name, sig := sig.map (ArgK.setTo ()), id := id, tr := trb } :: r, st)

/-- a compiled program: `Filter { lut, id }` plus the compile errors -/
structure Compiled where
  terms : List CTerm
  id : TermId
  errs : List String
  deriving Inhabited

/-- `Compiler::compile` for the prelude module 0 (included by the main module) and `main` -/
def compile (natives : List (String × List (ArgK Unit))) (prelude : List Def) (main : Term) : Compiled :=
  let cx0 : Cx := { natives := natives }
  let (defs, st) := moduleC cx0 {} prelude {}
  let cx : Cx := { modMap := [defs], included := [0], natives := natives }
  let (id, st) := iterm cx {} main st
  { terms := st.terms, id := id, errs := st.errs }

end Jaq.Core
