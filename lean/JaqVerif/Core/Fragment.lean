/-
  C01 — the fragment of the core language for which the refinement theorem
  `run_refines_eval_partial` (Props/C01.lean) is proved (stage A of DESIGN §6 C01, "binder core").
  A decidable predicate, so that the check can *measure* how many generated programs lie inside.
-/
import JaqVerif.Core.Ast

namespace Jaq.Core

/-- operators of `binop` inside the fragment: `,` `//` `or` `and`, arithmetic, comparison -/
def Bop.inFragment : Bop → Bool
  | .comma | .alt | .or | .and | .math _ | .cmp _ => true
  | _ => false

mutual
  /-- inside: `.`, number and plain string literals, `[f]`, `-f`, `l | r`, `l as $x | r`,
  `,` `//` `and` `or` math comparison, `label $x | f`, `break $x`, `try f catch g`,
  `if c then t [else e] end`, `def … ; …` (any number of definitions and parameters),
  calls (any arity), `$x`, `reduce`/`foreach` with a variable pattern.
  outside: `..`, interpolated / formatted strings, `[]`, `try f` without `catch`, objects,
  destructuring patterns, paths, `elif` chains, updates, names containing `::`. -/
  def inFragment : Term → Bool
    | .id => true
    | .num _ => true
    | .str none [.lit _] => true
    | .arr (some f) => inFragment f
    | .neg f => inFragment f
    | .pipe l none r => inFragment l && inFragment r
    | .pipe l (some (.var _)) r => inFragment l && inFragment r
    | .binop l op r => op.inFragment && inFragment l && inFragment r
    | .label _ f => inFragment f
    | .brk _ => true
    | .fold _ xs (.var _) args => inFragment xs && inFragmentList args
    | .tryCatch f (some c) => inFragment f && inFragment c
    | .ite [(c, t)] none => inFragment c && inFragment t
    | .ite [(c, t)] (some e) => inFragment c && inFragment t && inFragment e
    | .defs ds f => inFragmentDefs ds && inFragment f
    | .call name args => !isQualified name && inFragmentList args
    | .var _ => true
    | _ => false
  def inFragmentList : List Term → Bool
    | [] => true
    | t :: ts => inFragment t && inFragmentList ts
  def inFragmentDefs : List Def → Bool
    | [] => true
    | .mk _ _ body :: ds => inFragment body && inFragmentDefs ds
end

end Jaq.Core
