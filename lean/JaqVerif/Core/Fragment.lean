/-
  C01 — the fragment of the core language for which the refinement theorem
  `run_refines_eval_partial` (Props/C01.lean) is proved (stages A and B of DESIGN §6 C01).
  A decidable predicate, so that the check can *measure* how many generated programs lie inside.

  `pe` ("prelude has `!empty`"): `[]` and `try f` (without `catch`) are compiled to a call of the
  prelude definition `def !empty: {}[];`; they are inside the fragment exactly when the program is
  compiled together with that definition (`pe = true`, theorem `run_refines_eval_partial`); with
  the empty prelude (`pe = false`, theorem `run_refines_eval_noprelude_partial`) they are outside.
-/
import JaqVerif.Core.Ast

namespace Jaq.Core

/-- operators of `binop` inside the fragment: `,` `//` `or` `and`, arithmetic, comparison -/
def Bop.inFragment : Bop → Bool
  | .comma | .alt | .or | .and | .math _ | .cmp _ => true
  | _ => false

/-- the name of the prelude definition that `[]` and `try f` are compiled to; the lexer cannot
produce it as an identifier (`!` is not an identifier character) -/
def emptyName : String := "!empty"

mutual
  /-- inside: `.`, `..`, number literals, strings with interpolation (no `@format`), `[f]`, `[]`*,
  `{…}` (all entry forms), `-f`, `l | r`, `l as PATTERN | r` (variable, array and object patterns,
  computed keys, nested), `,` `//` `and` `or` math comparison, `label $x | f`, `break $x`,
  `try f catch g`, `try f`*, `if … then … (elif … then …)* [else …] end`,
  `def … ; …` (any number of definitions and parameters), calls (any arity), `$x`,
  `reduce`/`foreach` with any pattern, paths `f[x]`, `f[x:y]`, `f[]`, `.a`, with and without `?`.
  (* = only with the prelude definition `!empty`, `pe = true`.)
  outside: `@format` strings, updates (`|=`, `=`, `+=`, `//=`), names containing `::`,
  the (unwritable) name `!empty` as a user-level identifier. -/
  def inFragment (pe : Bool) : Term → Bool
    | .id => true
    | .recurse => true
    | .num _ => true
    | .str none parts => inFragmentParts pe parts
    | .str (some _) _ => false
    | .arr none => pe
    | .arr (some f) => inFragment pe f
    | .obj kvs => inFragmentEntries pe kvs
    | .neg f => inFragment pe f
    | .pipe l none r => inFragment pe l && inFragment pe r
    | .pipe l (some p) r => inFragment pe l && inFragmentPat pe p && inFragment pe r
    | .binop l op r => op.inFragment && inFragment pe l && inFragment pe r
    | .label _ f => inFragment pe f
    | .brk _ => true
    | .fold _ xs p args => inFragment pe xs && inFragmentPat pe p && inFragmentList pe args
    | .tryCatch f none => pe && inFragment pe f
    | .tryCatch f (some c) => inFragment pe f && inFragment pe c
    | .ite its none => inFragmentIts pe its
    | .ite its (some e) => inFragmentIts pe its && inFragment pe e
    | .defs ds f => inFragmentDefs pe ds && inFragment pe f
    | .call name args => !isQualified name && name != emptyName && inFragmentList pe args
    | .var _ => true
    | .path f parts => inFragment pe f && inFragmentPath pe parts
  def inFragmentList (pe : Bool) : List Term → Bool
    | [] => true
    | t :: ts => inFragment pe t && inFragmentList pe ts
  def inFragmentDefs (pe : Bool) : List Def → Bool
    | [] => true
    | .mk name params body :: ds =>
      name != emptyName && params.all (· != emptyName) && inFragment pe body && inFragmentDefs pe ds
  def inFragmentParts (pe : Bool) : List StrPart → Bool
    | [] => true
    | .lit _ :: ps => inFragmentParts pe ps
    | .interp f :: ps => inFragment pe f && inFragmentParts pe ps
  def inFragmentEntries (pe : Bool) : List (Term × Option Term) → Bool
    | [] => true
    | (k, none) :: es => inFragment pe k && inFragmentEntries pe es
    | (k, some w) :: es => inFragment pe k && inFragment pe w && inFragmentEntries pe es
  def inFragmentIts (pe : Bool) : List (Term × Term) → Bool
    | [] => true
    | (c, t) :: its => inFragment pe c && inFragment pe t && inFragmentIts pe its
  def inFragmentPat (pe : Bool) : Pattern → Bool
    | .var _ => true
    | .arr ps => inFragmentPats pe ps
    | .obj kps => inFragmentKPats pe kps
  def inFragmentPats (pe : Bool) : List Pattern → Bool
    | [] => true
    | p :: ps => inFragmentPat pe p && inFragmentPats pe ps
  def inFragmentKPats (pe : Bool) : List (Term × Pattern) → Bool
    | [] => true
    | (k, p) :: kps => inFragment pe k && inFragmentPat pe p && inFragmentKPats pe kps
  def inFragmentPath (pe : Bool) : List (Part × Opt) → Bool
    | [] => true
    | (.index i, _) :: ps => inFragment pe i && inFragmentPath pe ps
    | (.range none none, _) :: ps => inFragmentPath pe ps
    | (.range (some a) none, _) :: ps => inFragment pe a && inFragmentPath pe ps
    | (.range none (some b), _) :: ps => inFragment pe b && inFragmentPath pe ps
    | (.range (some a) (some b), _) :: ps => inFragment pe a && inFragment pe b && inFragmentPath pe ps
end

end Jaq.Core
