/-
  C01 — the definitional semantics of the jq core language (specification side), written from
  `/repo/docs/corelang.dj` and `/repo/docs/advanced.dj` (section Patterns).

  * One *named* scope list `ρ : List Scope`; a definition and a filter argument carry the scope
    of the place where they were written (ordinary closures).  Lookup = first match = lexically
    nearest binding; variables, labels and callables (name/arity) are separate name spaces.
  * Left-to-right, big-step, prefix-preserving: `eval n L ρ t v : Out` with fuel `n`
    (decremented at every recursive call; the outputs computed before the fuel ran out are kept).
  * The manual's equations are the clauses: `f + g` is evaluated as
    `f as $x | g as $y | $x + $y`; `{(k): v}` as `k as $k | v as $v | {$k: $v}`;
    `f[x][y:z]` as `f as $f | x as $x | y as $y | z as $z | $f | .[$x] | .[$y:$z]`;
    `"a\(f)b"` as `"a" + (f|tostring) + "b"`; `reduce`/`foreach` as the nested-pipe expansion;
    `def f($x): b` as `def f(x): x as $x | b`; `[]` as `[empty]`; `try f` as `try f catch empty`;
    `if .. elif .. end` as nested conditionals, a missing `else` as `else .`.
  * `L` is the number of labels bound on the dynamic path; `label` binds the fresh number `L+1`
    (any supply of fresh numbers gives the same outcomes: a `break` can only be caught by the
    `label` whose body is being evaluated, and nested bodies have strictly larger numbers).
  * Ill-scoped programs (an undefined variable, label or filter; `reduce`/`foreach` with the wrong
    number of arguments) are rejected by the compiler; their meaning here is a don't-care and is
    chosen as `.` (what `Term::default()` does), so that the refinement needs no side condition.
  * A call binds the parameters on top of the definition's scope and then the definition itself
    (for recursion) — the order of `push_parent`; names of parameters (arity 0) and of a definition
    with parameters (arity ≥ 1) cannot clash, so the order is immaterial.
  Updates (`|=`, `=`, `+=`, `//=`) and `@fmt` strings are outside this file (C02 / correspondence).
-/
import JaqVerif.Core.Out
import JaqVerif.Core.ValOps

namespace Jaq.Core
open Jaq

inductive Scope where
  | var (x : String) (v : Val)
  | label (x : String) (n : Nat)
  /-- filter argument `p` of a definition, bound to the term `t` written in scope `ρ` -/
  | arg (p : String) (t : Term) (ρ : List Scope)
  /-- definition `d` written in scope `ρ` (`ρ` does not contain `d` itself) -/
  | defn (d : Def) (ρ : List Scope)

abbrev Env := List Scope

def findVar : Env → String → Option Val
  | [], _ => none
  | .var y v :: ρ, x => if x = y then some v else findVar ρ x
  | _ :: ρ, x => findVar ρ x

def findLabel : Env → String → Option Nat
  | [], _ => none
  | .label y i :: ρ, x => if x = y then some i else findLabel ρ x
  | _ :: ρ, x => findLabel ρ x

inductive Callee where
  | arg (t : Term) (ρ : Env)
  | defn (d : Def) (ρ : Env)

/-- nearest callable with this name and arity -/
def findCall : Env → String → Nat → Option Callee
  | [], _, _ => none
  | .var _ _ :: ρ, f, n => findCall ρ f n
  | .label _ _ :: ρ, f, n => findCall ρ f n
  | .arg p t ρ' :: ρ, f, n => if p = f ∧ n = 0 then some (.arg t ρ') else findCall ρ f n
  | .defn d ρ' :: ρ, f, n => if d.name = f ∧ n = d.arity then some (.defn d ρ') else findCall ρ f n

/-- the natives the core language is run with in C01 (`jaq_core::funs`, restricted):
`error_empty/0` raises its input as an error -/
def nativeSem (name : String) (arity : Nat) (v : Val) : Option Out :=
  if name = "error_empty" ∧ arity = 0 then some (.err (.val v)) else none

/-- `[f]`: all outputs in one array; any abnormal end of `f` is the end of `[f]` -/
def collect (o : Out) : Out :=
  match o.stop with
  | .done => .done [.arr o.vals]
  | s => ⟨[], s⟩

/-- `f // g` given the outcome of `f` -/
def altOut (o : Out) (g : Unit → Out) : Out :=
  match o.vals.filter truthy, o.stop with
  | [], .done => g ()
  | tv, s => ⟨tv, s⟩

/-- `try f catch g` given the outcome of `f`: only errors are caught -/
def tryOut (o : Out) (h : Val → Out) : Out :=
  match o.stop with
  | .err e => let r := h (errToVal e); ⟨o.vals ++ r.vals, r.stop⟩
  | _ => o

/-- `label` with number `l` given the outcome of its body -/
def labelOut (l : Nat) (o : Out) : Out :=
  match o.stop with
  | .brk i => if i = l then ⟨o.vals, .done⟩ else o
  | _ => o

/-- `$x op $y` for every `x` of `l` (outer loop) and `y` of `r` (inner loop) -/
def cartSem (ol : Out) (r : Unit → Out) (f : Val → Val → Except Err Val) : Out :=
  OutG.bind ol.vals ol.stop fun a =>
    let o' := r ()
    OutG.bind o'.vals o'.stop fun b => OutG.ofExcept (f a b)

/-- `l and r` (`stop = false`) / `l or r` (`stop = true`) -/
def logicSem (ol : Out) (stop : Bool) (r : Unit → Out) : Out :=
  OutG.bind ol.vals ol.stop fun a =>
    if truthy a == stop then .done [.bool stop]
    else let o' := r (); OutG.bind o'.vals o'.stop fun b => .done [.bool (truthy b)]

/-- right-nested sum `p₁ + (p₂ + (… + pₙ))` of string parts / object entries -/
def sumSem (zero : Val) : List (Unit → Out) → Out
  | [] => .done [zero]
  | [p] => p ()
  | p :: ps => cartSem (p ()) (fun _ => sumSem zero ps) Val.add

/-- `if c₁ then t₁ elif … else e end` -/
def iteSem (ev : Term → Val → Out) (v : Val) : List (Term × Term) → Option Term → Out
  | [], none => .done [v]
  | [], some e => ev e v
  | (c, t) :: rest, els =>
    let o := ev c v
    OutG.bind o.vals o.stop fun b => if truthy b then ev t v else iteSem ev v rest els

mutual
  /-- destructuring: all ways to match `pat` against `w`, each extending `acc`.  Key filters
  are run by `ev0` (the scope *outside* the pattern) on the value matched by the parent
  object pattern; a missing position binds `null`; a position of the wrong type is an error. -/
  def bindPat (ev0 : Term → Val → Out) : Pattern → Val → Env → OutG Env
    | .var x, w, acc => .done [.var x w :: acc]
    | .arr ps, w, acc => bindArr ev0 ps 0 w acc
    | .obj kps, w, acc => bindObj ev0 kps w acc
  def bindArr (ev0 : Term → Val → Out) : List Pattern → Nat → Val → Env → OutG Env
    | [], _, _, acc => .done [acc]
    | p :: ps, i, w, acc =>
      match indexV w (.num (.int i)) with
      | .error e => .err e
      | .ok wi =>
        let o := bindPat ev0 p wi acc
        OutG.bind o.vals o.stop fun acc' => bindArr ev0 ps (i+1) w acc'
  def bindObj (ev0 : Term → Val → Out) : List (Term × Pattern) → Val → Env → OutG Env
    | [], _, acc => .done [acc]
    | (k, p) :: kps, w, acc =>
      let ko := ev0 k w
      OutG.bind ko.vals ko.stop fun i =>
        match indexV w i with
        | .error e => .err e
        | .ok wi =>
          let o := bindPat ev0 p wi acc
          OutG.bind o.vals o.stop fun acc' => bindObj ev0 kps w acc'
end

/-- arguments of a call, then the continuation `k` on the extended scope: `$`-parameters are
bound to each output of the argument (first argument = outermost loop), filter parameters to
the argument term with the caller's scope `ρc` -/
def bindArgs (evc : Term → Val → Out) (ρc : Env) (v : Val) (k : Env → Out) : List String → List Term → Env → Out
  | p :: ps, a :: as, acc =>
    if isVarName p then
      let o := evc a v
      OutG.bind o.vals o.stop fun w => bindArgs evc ρc v k ps as (.var p w :: acc)
    else bindArgs evc ρc v k ps as (.arg p a ρc :: acc)
  | _, _, acc => k acc

/-- `reduce` (`proj = none`, `isReduce`) and `foreach` over the bindings `ρx` of the outputs of `xs` -/
def foldSem (upd : Env → Val → Out) (proj : Env → Val → Out) (isReduce : Bool) :
    List Env → Stop → Val → Out
  | [], .done, acc => if isReduce then .done [acc] else .done []
  | [], s, _ => ⟨[], s⟩
  | ρx :: rest, s, acc =>
    let o := upd ρx acc
    OutG.bind o.vals o.stop fun y =>
      if isReduce then foldSem upd proj isReduce rest s y
      else (proj ρx y).append fun _ => foldSem upd proj isReduce rest s y

/-- an evaluated path part -/
inductive VPart where
  | index (i : Val)
  | range (a b : Option Val)
  | iter

/-- one path part applied to one value -/
def VPart.run (p : VPart) (o : Opt) (y : Val) : Out :=
  let r : Out := match p with
    | .index i => OutG.ofExcept (indexV y i)
    | .range a b => OutG.ofExcept (rangeV y a b)
    | .iter => match valuesV y with
      | .ok vs => .done vs
      | .error e => .err e
  match o, r.stop with
  | .optional, .err _ => ⟨r.vals, .done⟩
  | _, _ => r

def runParts : List (VPart × Opt) → Val → Out
  | [], y => .done [y]
  | (p, o) :: rest, y => let r := p.run o y; OutG.bind r.vals r.stop fun w => runParts rest w

/-- all evaluated paths: the index filters are run on the original input, first part = outermost loop -/
def explodeSem (ev : Term → Out) : List (Part × Opt) → List (VPart × Opt) → OutG (List (VPart × Opt))
  | [], acc => .done [acc.reverse]
  | (.index i, o) :: rest, acc =>
    let oi := ev i
    OutG.bind oi.vals oi.stop fun iv => explodeSem ev rest ((.index iv, o) :: acc)
  | (.range none none, o) :: rest, acc => explodeSem ev rest ((.iter, o) :: acc)
  | (.range (some a) none, o) :: rest, acc =>
    let oa := ev a
    OutG.bind oa.vals oa.stop fun av => explodeSem ev rest ((.range (some av) none, o) :: acc)
  | (.range none (some b), o) :: rest, acc =>
    let ob := ev b
    OutG.bind ob.vals ob.stop fun bv => explodeSem ev rest ((.range none (some bv), o) :: acc)
  | (.range (some a) (some b), o) :: rest, acc =>
    let oa := ev a
    OutG.bind oa.vals oa.stop fun av =>
      let ob := ev b
      OutG.bind ob.vals ob.stop fun bv => explodeSem ev rest ((.range (some av) (some bv), o) :: acc)

/-- object construction entries as producers of one-entry objects -/
def objEntrySem (ev : Term → Val → Out) (lookup : String → Option Val) (v : Val) :
    Term × Option Term → Out
  | (.var x, none) =>
    -- an unbound `$x` is a compile error; as everywhere, the ill-scoped name then means `.`
    match lookup x with
    | some w => .done [.obj [(strVal (x.drop 1).toString, w)]]
    | none => .done [.obj [(strVal (x.drop 1).toString, v)]]
  | (k, none) =>
    -- `{k}` is `{k: .[k]}`
    cartSem (ev k v) (fun _ => let ok := ev k v; OutG.bind ok.vals ok.stop fun i => OutG.ofExcept (indexV v i))
      (fun kk vv => .ok (.obj [(kk, vv)]))
  | (k, some w) => cartSem (ev k v) (fun _ => ev w v) (fun kk vv => .ok (.obj [(kk, vv)]))

/-- the definitional interpreter -/
def eval : Nat → Nat → Env → Term → Val → Out
  | 0, _, _, _, _ => .fuel
  | n+1, L, ρ, t, v =>
    let ev := eval n L
    match t with
    | .id => .done [v]
    | .recurse => .done (recurseV v)
    | .num s => .done [numLit s]
    | .str fmt parts =>
      sumSem (strVal "") (parts.map fun
        | .lit s => fun _ => .done [strVal s]
        | .interp f => fun _ =>
          match fmt with
          | none => let o := ev ρ f v; OutG.bind o.vals o.stop fun w => .done [intoString w]
          | some g => ev ρ (.pipe f none (.call g [])) v)
    | .arr none => .done [.arr []]
    | .arr (some f) => collect (ev ρ f v)
    | .obj kvs => sumSem (.obj []) (kvs.map fun kv => fun _ => objEntrySem (ev ρ) (findVar ρ) v kv)
    | .neg f => (ev ρ f v).mapM Val.neg
    | .pipe l none r => let o := ev ρ l v; OutG.bind o.vals o.stop fun w => ev ρ r w
    | .pipe l (some pat) r =>
      let o := ev ρ l v
      OutG.bind o.vals o.stop fun w =>
        let b := bindPat (ev ρ) pat w ρ
        OutG.bind b.vals b.stop fun ρ' => ev ρ' r v
    | .binop l .comma r => (ev ρ l v).append fun _ => ev ρ r v
    | .binop l .alt r => altOut (ev ρ l v) fun _ => ev ρ r v
    | .binop l .or r => logicSem (ev ρ l v) true fun _ => ev ρ r v
    | .binop l .and r => logicSem (ev ρ l v) false fun _ => ev ρ r v
    | .binop l (.math op) r => cartSem (ev ρ l v) (fun _ => ev ρ r v) (mathOp op)
    | .binop l (.cmp op) r => cartSem (ev ρ l v) (fun _ => ev ρ r v) (fun a b => .ok (cmpOp op a b))
    | .binop _ _ _ => .err (.str "!unsupported")
    | .label x f => labelOut (L+1) (eval n (L+1) (.label x (L+1) :: ρ) f v)
    | .brk x => match findLabel ρ x with | some i => ⟨[], .brk i⟩ | none => .done [v]
    | .fold name xs pat args =>
      let go (isReduce : Bool) (init update : Term) (proj : Option Term) : Out :=
        let ox := ev ρ xs v
        let bs := OutG.bind ox.vals ox.stop fun w => bindPat (ev ρ) pat w ρ
        let oi := ev ρ init v
        OutG.bind oi.vals oi.stop fun i =>
          foldSem (fun ρx acc => ev ρx update acc)
            (fun ρx y => match proj with | none => .done [y] | some p => ev ρx p y)
            isReduce bs.vals bs.stop i
      match args with
      | [init, update] =>
        if name = "reduce" then go true init update none
        else if name = "foreach" then go false init update none else .done [v]
      | [init, update, proj] => if name = "foreach" then go false init update (some proj) else .done [v]
      | _ => .done [v]
    | .tryCatch f c =>
      tryOut (ev ρ f v) fun e => match c with | some c => ev ρ c e | none => .done []
    | .ite its els => iteSem (ev ρ) v its els
    | .defs ds f => ev (ds.foldl (fun ρ d => .defn d ρ :: ρ) ρ) f v
    | .call name args =>
      match findCall ρ name args.length with
      | some (.arg t ρ') => ev ρ' t v
      | some (.defn d ρ') =>
        bindArgs (ev ρ) ρ v (fun ρb => ev (.defn d ρ' :: ρb) d.body v) d.params args ρ'
      | none =>
        match nativeSem name args.length v with
        | some o => o
        | none => .done [v]
    | .var x => match findVar ρ x with | some w => .done [w] | none => .done [v]
    | .path f parts =>
      let o := ev ρ f v
      OutG.bind o.vals o.stop fun y =>
        let ps := explodeSem (fun i => ev ρ i v) parts []
        OutG.bind ps.vals ps.stop fun p => runParts p y

/-- scope of the prelude definitions (module 0), oldest first in the list `ds` -/
def preludeEnv (ds : List Def) : Env := ds.foldl (fun ρ d => .defn d ρ :: ρ) []

end Jaq.Core
