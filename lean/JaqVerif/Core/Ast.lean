/-
  C01 — abstract syntax of the jq core language, mirroring `jaq_core::load::parse::Term`
  (`/repo/jaq-core/src/load/parse.rs`) constructor by constructor, with *named* variables.

  Differences from the Rust type, all of them only of presentation (the harness prints the real
  parser's tree in this shape, see `harness/src/props/c01.rs`):
  * `BinOp(l, Pipe(pat), r)` is the constructor `pipe l pat r` (so that `Bop` is a plain
    enumeration and does not have to be mutual with `Pattern`);
  * `StrPart::Char(c)` is printed as `StrPart.lit` of the one-character string (the compiler
    turns both into `Term::Str`);
  * names are kept exactly as the parser delivers them: variables, labels and `$`-parameters
    include the leading `$`.
  No Mathlib import (linked into the driver).
-/
namespace Jaq.Core

inductive MathOp where
  | add | sub | mul | div | rem
  deriving Repr, DecidableEq, Inhabited

inductive CmpOp where
  | lt | le | gt | ge | eq | ne
  deriving Repr, DecidableEq, Inhabited

/-- `parse::BinaryOp` without `Pipe` -/
inductive Bop where
  | comma | alt | or | and
  | math (op : MathOp) | cmp (op : CmpOp)
  | assign | update | updateMath (op : MathOp) | updateAlt
  deriving Repr, DecidableEq, Inhabited

/-- `path::Opt` -/
inductive Opt where
  | optional | essential
  deriving Repr, DecidableEq, Inhabited

mutual
  /-- `parse::Term<&str>` -/
  inductive Term where
    | id
    | recurse
    | num (s : String)
    | str (fmt : Option String) (parts : List StrPart)
    | arr (t : Option Term)
    | obj (kvs : List (Term × Option Term))
    | neg (t : Term)
    | pipe (l : Term) (pat : Option Pattern) (r : Term)
    | binop (l : Term) (op : Bop) (r : Term)
    | label (x : String) (t : Term)
    | brk (x : String)
    | fold (name : String) (xs : Term) (pat : Pattern) (args : List Term)
    | tryCatch (t : Term) (c : Option Term)
    | ite (its : List (Term × Term)) (els : Option Term)
    | defs (ds : List Def) (t : Term)
    | call (name : String) (args : List Term)
    | var (x : String)
    | path (t : Term) (parts : List (Part × Opt))
  /-- `lex::StrPart` -/
  inductive StrPart where
    | lit (s : String)
    | interp (t : Term)
  /-- `parse::Pattern` -/
  inductive Pattern where
    | var (x : String)
    | arr (ps : List Pattern)
    | obj (kps : List (Term × Pattern))
  /-- `parse::Def` -/
  inductive Def where
    | mk (name : String) (params : List String) (body : Term)
  /-- `path::Part` -/
  inductive Part where
    | index (i : Term)
    | range (a : Option Term) (b : Option Term)
end

instance : Inhabited Term := ⟨.id⟩

def Def.name : Def → String | .mk n _ _ => n
def Def.params : Def → List String | .mk _ p _ => p
def Def.body : Def → Term | .mk _ _ b => b
def Def.arity (d : Def) : Nat := d.params.length

/-- does the name contain `::` (`name.split_once("::")` succeeds: a module-qualified call)?
Written over the character list so that it evaluates in the kernel on literals. -/
def hasModSep : List Char → Bool
  | ':' :: ':' :: _ => true
  | _ :: cs => hasModSep cs
  | [] => false

def isQualified (name : String) : Bool := hasModSep name.toList

/-- a parameter / argument name denotes a variable iff it starts with `$` (`bind_from`) -/
def isVarName (s : String) : Bool := s.front == '$'

mutual
  /-- variables bound by a pattern, in the order of `Pattern::vars` (depth-first, left to right) -/
  def Pattern.vars : Pattern → List String
    | .var x => [x]
    | .arr ps => Pattern.varsList ps
    | .obj kps => Pattern.varsObj kps
  def Pattern.varsList : List Pattern → List String
    | [] => []
    | p :: ps => p.vars ++ Pattern.varsList ps
  def Pattern.varsObj : List (Term × Pattern) → List String
    | [] => []
    | (_, p) :: kps => p.vars ++ Pattern.varsObj kps
end

end Jaq.Core
