/-
  C01 — the value-level operations the interpreter calls (`ValT` methods of jaq-json), kept
  behind small functions of this file so that the shared models of C09 (arithmetic), C08
  (order/equality) are used where they exist and the position model of C10 can replace
  `index` / `range` / `values` later.  Mirrors `/repo/jaq-json/src/lib.rs`:
  `as_bool`, `into_string` (+ the compact writer of `write.rs` for the values the correspondence
  uses), `Error::into_val` (`/repo/jaq-core/src/exn.rs`), `index_opt`, `range`, `values`,
  `ops::Math::run`, `ops::Cmp::run`.
-/
import JaqVerif.Val.Arith
import JaqVerif.Core.Ast

namespace Jaq.Core
open Jaq

/-- `ValT::as_bool` -/
def truthy : Val → Bool
  | .null => false
  | .bool false => false
  | _ => true

def strVal (s : String) : Val := .tstr s.toUTF8.toList

def hex2 (n : Nat) : List UInt8 :=
  [(hexDigit (n / 16)).toNat.toUInt8, (hexDigit (n % 16)).toNat.toUInt8]

/-- `write_byte!` inside a text string (`write_utf8!`): specials are escaped, everything else raw -/
def escText (b : UInt8) : List UInt8 :=
  let n := b.toNat
  if n == 0x22 then "\\\"".toUTF8.toList
  else if n == 0x5C then "\\\\".toUTF8.toList
  else if n == 0x0A then "\\n".toUTF8.toList
  else if n == 0x09 then "\\t".toUTF8.toList
  else if n == 0x0D then "\\r".toUTF8.toList
  else if n == 0x08 then "\\b".toUTF8.toList
  else if n == 0x0C then "\\f".toUTF8.toList
  else if n < 0x20 || n == 0x7F then "\\u00".toUTF8.toList ++ hex2 n
  else [b]

/-- `write_bytes!`: non-ASCII and control bytes as `\xXX` -/
def escBytes (b : UInt8) : List UInt8 :=
  let n := b.toNat
  if n == 0x22 then "\\\"".toUTF8.toList
  else if n == 0x5C then "\\\\".toUTF8.toList
  else if n == 0x0A then "\\n".toUTF8.toList
  else if n == 0x09 then "\\t".toUTF8.toList
  else if n == 0x0D then "\\r".toUTF8.toList
  else if n == 0x08 then "\\b".toUTF8.toList
  else if n == 0x0C then "\\f".toUTF8.toList
  else if n < 0x20 || n ≥ 0x7F then "\\x".toUTF8.toList ++ hex2 n
  else [b]

/-- `Display for Num` — integers exactly; floats are not rendered by this model (the
correspondence of C01 keeps floats out of messages; C07 owns the number writer) -/
def numText : Num → List UInt8
  | .int i => (toString i).toUTF8.toList
  | .big i => (toString i).toUTF8.toList
  | .float _ => "<float>".toUTF8.toList
  | .dec s => s.toUTF8.toList

mutual
  /-- `Val::to_json` / `Display for Val` with the default (compact) pretty printer -/
  def toJson : Val → List UInt8
    | .null => "null".toUTF8.toList
    | .bool true => "true".toUTF8.toList
    | .bool false => "false".toUTF8.toList
    | .num n => numText n
    | .bstr b => "b\"".toUTF8.toList ++ b.flatMap escBytes ++ "\"".toUTF8.toList
    | .tstr b => "\"".toUTF8.toList ++ b.flatMap escText ++ "\"".toUTF8.toList
    | .arr a => "[".toUTF8.toList ++ toJsonList a ++ "]".toUTF8.toList
    | .obj o => "{".toUTF8.toList ++ toJsonEntries o ++ "}".toUTF8.toList
  def toJsonList : List Val → List UInt8
    | [] => []
    | [v] => toJson v
    | v :: vs => toJson v ++ ",".toUTF8.toList ++ toJsonList vs
  def toJsonEntries : List (Val × Val) → List UInt8
    | [] => []
    | [(k, v)] => toJson k ++ ":".toUTF8.toList ++ toJson v
    | (k, v) :: es => toJson k ++ ":".toUTF8.toList ++ toJson v ++ ",".toUTF8.toList ++ toJsonEntries es
end

/-- `ValT::into_string` (the `ToString` term, string interpolation) -/
def intoString : Val → Val
  | .bstr b => .tstr b
  | .tstr b => .tstr b
  | v => .tstr (toJson v)

/-- `Error::into_val`: what a `catch` handler receives -/
def errToVal : Err → Val
  | .val v => v
  | .str s => strVal s
  | .typ v ty => .tstr ("cannot use ".toUTF8.toList ++ toJson v ++ " as ".toUTF8.toList ++ ty.toUTF8.toList)
  | .math l op r => .tstr ("cannot calculate ".toUTF8.toList ++ toJson l ++ " ".toUTF8.toList ++ op.toUTF8.toList
      ++ " ".toUTF8.toList ++ toJson r)
  | .index l r => .tstr ("cannot index ".toUTF8.toList ++ toJson l ++ " with ".toUTF8.toList ++ toJson r)
  | .pathExpr v => .tstr ("invalid path expression with input ".toUTF8.toList ++ toJson v)

/-- `ops::Math::run` on values -/
def mathOp : MathOp → Val → Val → Except Err Val
  | .add => Val.add
  | .sub => Val.sub
  | .mul => Val.mul
  | .div => Val.div
  | .rem => Val.rem

/-- `ops::Cmp::run` (through `PartialOrd` / `PartialEq` of `Val`) -/
def cmpOp (op : CmpOp) (l r : Val) : Val :=
  .bool (match op with
    | .lt => Val.cmp l r == .lt
    | .le => Val.cmp l r != .gt
    | .gt => Val.cmp l r == .gt
    | .ge => Val.cmp l r != .lt
    | .eq => Val.eq l r
    | .ne => !Val.eq l r)

/-- value of a number literal at run time: `Term::Int` or `V::from_num` -/
def numLit (s : String) : Val := .num (Num.ofLiteral s)

/-! ### positions (to be replaced by the C10 model) -/

/-- `Val::as_pos_usize` -/
def asPosUsize (v : Val) : Except Err (Bool × Nat) :=
  match v with
  | .num n => match Num.asPosUsize n with
    | some p => .ok p
    | none => .error (.typ v "integer")
  | _ => .error (.typ v "integer")

/-- `PosUsize::wrap` -/
def wrapPos (p : Bool × Nat) (len : Nat) : Option Nat :=
  if p.1 then some p.2 else if p.2 ≤ len then some (len - p.2) else none

/-- `abs_index` -/
def absIndex (p : Bool × Nat) (len : Nat) : Option Nat :=
  match wrapPos p len with
  | some i => if i < len then some i else none
  | none => none

/-- `abs_bound` -/
def absBound (p : Option (Bool × Nat)) (len dflt : Nat) : Nat :=
  match p with
  | none => dflt
  | some p => min ((wrapPos p len).getD 0) len

/-- `skip_take` -/
def skipTake (a b : Option (Bool × Nat)) (len : Nat) : Nat × Nat :=
  let from_ := absBound a len 0
  let upto := absBound b len len
  (from_, upto - from_)

/-- one bound of `Val::range_int` -/
def rangeBound : Option Val → Except Err (Option (Bool × Nat))
  | none => .ok none
  | some .null => .ok none
  | some v => (asPosUsize v).map some

/-- `skip_take_chars`: character positions to byte positions -/
def charByteIndex (b : List UInt8) (p : Bool × Nat) : Nat :=
  let st := Utf8.starts b
  if p.1 then st.getD p.2 b.length else st.reverse.getD (p.2 - 1) 0

/-- `ValT::range` -/
def rangeV (v : Val) (a b : Option Val) : Except Err Val :=
  match v with
  | .arr xs => do
    let a ← rangeBound a; let b ← rangeBound b
    let (s, t) := skipTake a b xs.length
    pure (.arr ((xs.drop s).take t))
  | .bstr bs => do
    let a ← rangeBound a; let b ← rangeBound b
    let (s, t) := skipTake a b bs.length
    pure (.bstr ((bs.drop s).take t))
  | .tstr bs => do
    let a ← rangeBound a; let b ← rangeBound b
    let fromB := match a with | none => 0 | some p => charByteIndex bs p
    let uptoB := match b with | none => bs.length | some p => charByteIndex bs p
    pure (.tstr ((bs.drop fromB).take (uptoB - fromB)))
  | _ => .error (.typ v "rangeable (array or string)")

def isIntNum : Num → Bool
  | .int _ => true
  | .big _ => true
  | _ => false

/-- windows of `x` of length `n` that equal `y` (`indices`) -/
def indicesF (y : List Val) : Nat → Nat → List Val → List Val
  | 0, _, _ => []
  | fuel+1, i, x =>
    if x.length < y.length then [] else
    let here := (x.take y.length).zip y |>.all fun (a, b) => Val.eq a b
    let rest := indicesF y fuel (i+1) (x.drop 1)
    if here then .num (Num.ofInt i) :: rest else rest

/-- `Val::index_opt` then `unwrap_or(Null)` = `ValT::index` -/
def indexV (v i : Val) : Except Err Val :=
  match v, i with
  | .null, _ => .ok .null
  | .bstr a, .num n =>
    if isIntNum n then
      .ok (match (Num.asPosUsize n).bind (absIndex · a.length) with
        | some k => .num (.int (a.getD k 0).toNat)
        | none => .null)
    else .error (.index v i)
  | .arr a, .num n =>
    if isIntNum n then
      .ok (match (Num.asPosUsize n).bind (absIndex · a.length) with
        | some k => a.getD k .null
        | none => .null)
    else .error (.index v i)
  | .arr x, .arr y =>
    if y.isEmpty then .ok (.arr []) else .ok (.arr (indicesF y (x.length + 1) 0 x))
  | .obj o, k => .ok ((Obj.get o k).getD .null)
  | .bstr _, .obj o => rangeV v (Obj.get o (strVal "start")) (Obj.get o (strVal "end"))
  | .tstr _, .obj o => rangeV v (Obj.get o (strVal "start")) (Obj.get o (strVal "end"))
  | .arr _, .obj o => rangeV v (Obj.get o (strVal "start")) (Obj.get o (strVal "end"))
  | _, _ => .error (.index v i)

/-- `ValT::values` as a finished stream: the elements, or one error -/
def valuesV (v : Val) : Except Err (List Val) :=
  match v with
  | .arr a => .ok a
  | .obj o => .ok (o.map (·.2))
  | _ => .error (.typ v "iterable (array or object)")

/-- `recurse_run(v, |v| v.values())`: the value, then (pre-order) everything below it; errors
of `values` on scalars are dropped by `flatten` -/
def recurseF : Nat → Val → List Val
  | 0, v => [v]
  | n+1, v => v :: ((valuesV v).toOption.getD []).flatMap (recurseF n)

def recurseV (v : Val) : List Val := recurseF v.size v

end Jaq.Core
