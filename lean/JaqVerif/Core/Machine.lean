/-
  C01 — impl-model of the interpreter, `/repo/jaq-core/src/filter.rs` `Id::run` with its helpers
  `bind_vars`, `bind_pat(s)`, `run_and_bind`, `bind_run`, `label_run`, `try_catch_run`,
  `fold_run` (+ `fold.rs`), `pipe`, `cartesian`, `def_run`, and `path.rs`
  `Path::{explode, combinations, run}`, `Part::{run, into_iter}`, at layer L1 (big-step,
  prefix-preserving outcomes; the lazy iterator structure is the subject of C03).

  Run-time environment = `Vars`: a list of `Bind::{Var(v), Label(n), Fun((id, vars))}`
  addressed by relative index; `Ctx.labels` is the argument `L`.
  * `CallDef(id, args, skip, typ)`: arguments are bound by `bind_vars` in the *caller's*
    context on the original input onto `ctx.skip_vars(skip)`, then the body `id` runs.
    All four `CallType`s are executed inline here (stage C of DESIGN §6 C01: a thrown tail
    call is always caught by the matching `Stack` and replaced by the very same run).
  * `cfg.cartDropsErr` selects between the behaviour of `cartesian` / `Path::combinations` as
    written (`true`: an `Err` item of the left/outer stream is paired with every item of the
    right/inner stream, hence *dropped* when that stream is empty) and the behaviour the
    manual's equation `f as $x | g as $y | …` prescribes (`false`, what `design/fixes/
    C01-cartesian-left-error.diff` makes the code do).  Theorems are about `false`.
-/
import JaqVerif.Core.Out
import JaqVerif.Core.ValOps
import JaqVerif.Core.Compile
import JaqVerif.Core.Sem

namespace Jaq.Core
open Jaq

/-- `Bind<V, usize, (Id, Vars)>` -/
inductive MB where
  | val (v : Val)
  | lbl (n : Nat)
  | fn (id : TermId) (env : List MB)

abbrev MEnv := List MB

structure MCfg where
  /-- `cartesian` (math, comparison, object entries) as written -/
  cartDropsErr : Bool := false
  /-- `Path::combinations` (index filters of a compound path) as written -/
  pathDropsErr : Bool := false

/-- what the right/inner stream contributes when the left/outer stream has ended abnormally
with `s` (an `Err` item): as written, the item is paired with every item of the inner stream. -/
def cartTail (cfg : MCfg) (s : Stop) (inner : Unit → Out) : Out :=
  match s with
  | .done => ⟨[], .done⟩
  | .fuel => ⟨[], .fuel⟩
  | s =>
    if cfg.cartDropsErr then
      let o := inner ()
      match o.vals, o.stop with
      | [], .done => ⟨[], .done⟩     -- no partner: the error item disappears
      | [], .fuel => ⟨[], .fuel⟩
      | _, _ => ⟨[], s⟩
    else ⟨[], s⟩

/-- `cartesian(l, r, cv).map(|(x, y)| f(x?, y?))` -/
def cartM (cfg : MCfg) (ol : Out) (r : Unit → Out) (f : Val → Val → Except Err Val) : Out :=
  (OutG.bind ol.vals .done fun a =>
    let o' := r ()
    OutG.bind o'.vals o'.stop fun b => OutG.ofExcept (f a b)).append fun _ => cartTail cfg ol.stop r

/-- `bind_vars`, then the continuation `k` on the extended environment -/
def bindVars (rnc : TermId → Val → Out) (ec : MEnv) (v : Val) (k : MEnv → Out) : List (ArgK TermId) → MEnv → Out
  | [], acc => k acc
  | .var a :: rest, acc =>
    let o := rnc a v
    OutG.bind o.vals o.stop fun w => bindVars rnc ec v k rest (.val w :: acc)
  | .fn a :: rest, acc => bindVars rnc ec v k rest (.fn a ec :: acc)

mutual
  /-- `bind_pat` with the index stream already applied: pattern against the value `w` -/
  def bindPatM (rn0 : TermId → Val → Out) : CPat → Val → MEnv → OutG MEnv
    | .var, w, acc => .done [.val w :: acc]
    | .idx ps, w, acc => bindPatsM rn0 ps w acc
  /-- `bind_pats` -/
  def bindPatsM (rn0 : TermId → Val → Out) : List (TermId × CPat) → Val → MEnv → OutG MEnv
    | [], _, acc => .done [acc]
    | (k, p) :: kps, w, acc =>
      let ko := rn0 k w
      OutG.bind ko.vals ko.stop fun i =>
        match indexV w i with
        | .error e => .err e
        | .ok wi =>
          let o := bindPatM rn0 p wi acc
          OutG.bind o.vals o.stop fun acc' => bindPatsM rn0 kps w acc'
end

/-- `fold` (fold.rs) as used by `fold_run`: `Reduce` emits at exhaustion of `xs`,
`Foreach` emits (the projection of) every intermediate state before descending -/
def foldM (upd : MEnv → Val → Out) (proj : MEnv → Val → Out) (isReduce : Bool) :
    List MEnv → Stop → Val → Out
  | [], .done, acc => if isReduce then .done [acc] else .done []
  | [], s, _ => ⟨[], s⟩
  | ex :: rest, s, acc =>
    let o := upd ex acc
    OutG.bind o.vals o.stop fun y =>
      if isReduce then foldM upd proj isReduce rest s y
      else (proj ex y).append fun _ => foldM upd proj isReduce rest s y

/-- `Path::explode` on the collected index streams (`Path::combinations`, first part outermost) -/
def explodeM (cfg : MCfg) (rn : TermId → Out) : List (CPart × Opt) → List (VPart × Opt) → OutG (List (VPart × Opt))
  | [], acc => .done [acc.reverse]
  | (.index i, o) :: rest, acc =>
    let oi := rn i
    (OutG.bind oi.vals .done fun iv => explodeM cfg rn rest ((.index iv, o) :: acc)).append fun _ =>
      exTail cfg oi.stop (explodeM cfg rn rest ((.iter, o) :: acc))
  | (.range none none, o) :: rest, acc => explodeM cfg rn rest ((.iter, o) :: acc)
  | (.range (some a) none, o) :: rest, acc =>
    let oa := rn a
    (OutG.bind oa.vals .done fun av => explodeM cfg rn rest ((.range (some av) none, o) :: acc)).append fun _ =>
      exTail cfg oa.stop (explodeM cfg rn rest ((.iter, o) :: acc))
  | (.range none (some b), o) :: rest, acc =>
    let ob := rn b
    (OutG.bind ob.vals .done fun bv => explodeM cfg rn rest ((.range none (some bv), o) :: acc)).append fun _ =>
      exTail cfg ob.stop (explodeM cfg rn rest ((.iter, o) :: acc))
  | (.range (some a) (some b), o) :: rest, acc =>
    let oa := rn a
    let ob := rn b
    let restO := explodeM cfg rn rest ((.iter, o) :: acc)
    (OutG.bind oa.vals .done fun av =>
      (OutG.bind ob.vals .done fun bv => explodeM cfg rn rest ((.range (some av) (some bv), o) :: acc)).append fun _ =>
        exTail cfg ob.stop restO).append fun _ =>
      -- an error item of `from` is paired with every item of `upto` (an error item of `upto`
      -- included), each pair then with the rest
      exTail cfg oa.stop (match ob.vals, ob.stop with
        | [], .done => ⟨[], .done⟩
        | [], .fuel => ⟨[], .fuel⟩
        | _, _ => restO)
where
  /-- an error item of this part's stream survives iff the combinations of the remaining
  parts are not empty (they are independent of the item) -/
  exTail (cfg : MCfg) (s : Stop) (restO : OutG (List (VPart × Opt))) : OutG (List (VPart × Opt)) :=
    match s with
    | .done => ⟨[], .done⟩
    | .fuel => ⟨[], .fuel⟩
    | s =>
      if cfg.pathDropsErr then
        match restO.vals, restO.stop with
        | [], .done => ⟨[], .done⟩
        | [], .fuel => ⟨[], .fuel⟩
        | _, _ => ⟨[], s⟩
      else ⟨[], s⟩

/-- the natives of `nativeSem`, by index in `natives` -/
def nativeM (nid : Nat) (_e : MEnv) (v : Val) : Out :=
  if nid = 0 then .err (.val v) else .err (.str "!unknown-native")

/-- native signatures in `lut.funs` order (what the harness passes to `with_funs`) -/
def c01Natives : List (String × List (ArgK Unit)) := [("error_empty", [])]

/-- one arm of `Id::run`: the term `c` in environment `e` on input `v`, sub-terms being run by `r`
(`r L' e' id v'`) -/
def step (cfg : MCfg) (r : Nat → MEnv → TermId → Val → Out) (L : Nat) (e : MEnv) (c : CTerm) (v : Val) : Out :=
  let rn := r L
  match c with
  | .id => .done [v]
  | .recurse => .done (recurseV v)
  | .toString => .done [intoString v]
  | .int i => .done [.num (.int i)]
  | .num s => .done [numLit s]
  | .str s => .done [strVal s]
  | .arr f => collect (rn e f v)
  | .objEmpty => .done [.obj []]
  | .objSingle k w => cartM cfg (rn e k v) (fun _ => rn e w v) (fun kk vv => .ok (.obj [(kk, vv)]))
  | .tryCatch f c => tryOut (rn e f v) fun x => rn e c x
  | .neg f => (rn e f v).mapM Val.neg
  | .pipe l none r => let o := rn e l v; OutG.bind o.vals o.stop fun w => rn e r w
  | .pipe l (some pat) r =>
    let o := rn e l v
    OutG.bind o.vals o.stop fun w =>
      let b := bindPatM (rn e) pat w e
      OutG.bind b.vals b.stop fun e' => rn e' r v
  | .comma l r => (rn e l v).append fun _ => rn e r v
  | .alt l r => altOut (rn e l v) fun _ => rn e r v
  | .ite c t f =>
    let o := rn e c v
    OutG.bind o.vals o.stop fun b => if truthy b then rn e t v else rn e f v
  | .path f parts =>
    let o := rn e f v
    OutG.bind o.vals o.stop fun y =>
      let ps := explodeM cfg (fun i => rn e i v) parts []
      OutG.bind ps.vals ps.stop fun p => runParts p y
  | .update _ _ | .updateMath _ _ _ | .updateAlt _ _ | .assign _ _ => .err (.str "!unsupported")
  | .logic l stop r => logicSem (rn e l v) stop fun _ => rn e r v
  | .math l op r => cartM cfg (rn e l v) (fun _ => rn e r v) (mathOp op)
  | .cmp l op r => cartM cfg (rn e l v) (fun _ => rn e r v) (fun a b => .ok (cmpOp op a b))
  | .fold xs pat init update kind =>
    let ox := rn e xs v
    let bs := OutG.bind ox.vals ox.stop fun w => bindPatM (rn e) pat w e
    let oi := rn e init v
    OutG.bind oi.vals oi.stop fun i =>
      foldM (fun ex acc => rn ex update acc)
        (fun ex y => match kind with
          | .foreach (some p) => rn ex p y
          | _ => .done [y])
        (match kind with | .reduce => true | _ => false) bs.vals bs.stop i
  | .var i =>
    match e[i]? with
    | some (.val w) => .done [w]
    | some (.fn id' e') => rn e' id' v
    | some (.lbl l) => ⟨[], .brk l⟩
    | none => .err (.str "!var-out-of-range")
  | .callDef id' args skip _ => bindVars (rn e) e v (fun e' => rn e' id' v) args (e.drop skip)
  | .native nid args => bindVars (rn e) e v (fun e' => nativeM nid e' v) args []
  | .label f => labelOut (L+1) (r (L+1) (.lbl (L+1) :: e) f v)

/-- `Id::run`: look the term up in the table and run it -/
def run (cfg : MCfg) (tab : List CTerm) : Nat → Nat → MEnv → TermId → Val → Out
  | 0, _, _, _, _ => .fuel
  | n+1, L, e, id, v =>
    match tab[id]? with
    | none => .err (.str "!term-id-out-of-range")
    | some c => step cfg (run cfg tab n) L e c v

/-- run a compiled program from the initial context (`Ctx::new(data, Vars::new([]))`) -/
def runProg (cfg : MCfg) (p : Compiled) (fuel : Nat) (v : Val) : Out :=
  run cfg p.terms fuel 0 [] p.id v

end Jaq.Core
