/-
  C09 (round 2) — impl-models of the *integer consumers* of jaq, i.e. of what each of them does
  with a number that is an integer, function by function after the Rust code of the tree as it
  is now (including the repairs e4bf705 `as_pos_usize` saturates, 496d12c `implode` uses
  `checked_neg`, 18a519c `big_float_cmp`):

    jaq-json/src/num.rs  : `Num::as_pos_usize`, `PosUsize::wrap`, `impl Ord for Num` + `big_float_cmp`
    jaq-json/src/lib.rs  : `abs_index`, `abs_bound`, `skip_take`, `skip_take_chars`, `range_int`,
                           `index_opt` (array / byte-string arms), `ValT::range` (array / string arms)
    jaq-json/src/funs.rs : `Val::to_bytes`
    jaq-core/src/funs.rs : `limit!`, `skip!`, `while_gtz!`, `range` (the `range/3` loop)
    jaq-core/src/defs.jq : `join`
    jaq-std/src/lib.rs   : `implode`, `try_as_isize`, `try_as_i32` (exponent of `ldexp/scalb/scalbln`)
    jaq-json/src/num.rs  : `impl Display for Num` on integers (= `C07.intText`, shared with C07)

  String repetition (`bigint_to_int_saturated`) and object keys (`IndexMap` look-up = hash feed +
  `==`) are in the shared `Val/Arith.lean` (`Val.repCount`, `Val.mul`) and `Val/Order.lean`
  (`Obj.get`).  No Mathlib: linked into `jaqmodel`.
-/
import JaqVerif.Val.Arith
import JaqVerif.C07.Write

namespace Jaq.C09
open Jaq

/-- a number is an integer with exact value `x` (any representation) -/
def IsInt (n : Num) (x : Int) : Prop := n.intVal? = some x

/-- two well-formed integer representations of the same value -/
def SameInt (a b : Num) : Prop :=
  ∃ x : Int, IsInt a x ∧ IsInt b x ∧ a.wf = true ∧ b.wf = true

/-- error classes of the consumers (what `err_cls` of the harness distinguishes) -/
inductive CErr where
  | typInt      -- "cannot use v as integer"
  | character   -- "cannot use i as character"
  | index       -- "cannot index v with i"
  | other       -- `Error::str(..)`: `TryFromIntError`, "cannot convert v to bytes"
  deriving DecidableEq, Repr

def CErr.cls : CErr → String
  | .typInt => "typ:integer"
  | .character => "other"        -- built with `Error::str`, like the next
  | .index => "index"
  | .other => "other"

/-! ## positions: `as_pos_usize`, `wrap`, `abs_index`, `abs_bound`, `skip_take` -/

/-- `PosUsize(bool, usize)`: (is non-negative, magnitude) -/
abbrev PosUsize := Bool × Nat

def usizeMaxNat : Nat := 18446744073709551615

/-- `Num::as_pos_usize` (since e4bf705 the magnitude of a big integer saturates at `usize::MAX`) -/
def asPosUsize : Num → Option PosUsize
  | .int i => some (decide (0 ≤ i), i.natAbs)
  | .big i => some (!decide (i < 0), min i.natAbs usizeMaxNat)
  | _ => none

/-- `PosUsize::wrap`: `self.0.then_some(self.1).or_else(|| len.checked_sub(self.1))` -/
def wrap (p : PosUsize) (len : Nat) : Option Nat :=
  if p.1 then some p.2 else if p.2 ≤ len then some (len - p.2) else none

/-- `abs_index`: `i.wrap(len).filter(|i| *i < len)` -/
def absIndex (p : PosUsize) (len : Nat) : Option Nat :=
  (wrap p len).filter fun j => decide (j < len)

/-- `abs_bound`: `i.map_or(default, |i| min(i.wrap(len).unwrap_or(0), len))` -/
def absBound (p : Option PosUsize) (len dflt : Nat) : Nat :=
  match p with
  | none => dflt
  | some p => min ((wrap p len).getD 0) len

/-- `skip_take` -/
def skipTake (r : Option PosUsize × Option PosUsize) (len : Nat) : Nat × Nat :=
  (absBound r.1 len 0, absBound r.2 len len - absBound r.1 len 0)

/-- the closure `byte_index` of `skip_take_chars` on the characters `cs` of the string -/
def byteIndex (cs : List (List UInt8)) (p : PosUsize) : Nat :=
  if p.1 then (cs.take p.2).flatten.length else (cs.take (cs.length - p.2)).flatten.length

/-- `skip_take_chars` -/
def skipTakeChars (r : Option PosUsize × Option PosUsize) (b : List UInt8) : Nat × Nat :=
  let cs := Utf8.chars b
  let frm := match r.1 with | none => 0 | some p => byteIndex cs p
  let upto := match r.2 with | none => b.length | some p => byteIndex cs p
  (frm, upto - frm)

/-- one bound of `range_int`: absent / `null` = open, an integer = a position, else an error -/
def rangeBound : Val → Except CErr (Option PosUsize)
  | .null => .ok none
  | .num n =>
    match asPosUsize n with
    | some p => .ok (some p)
    | none => .error .typInt
  | _ => .error .typInt

/-- `range_int` (start is converted first) -/
def rangeInt (lo hi : Val) : Except CErr (Option PosUsize × Option PosUsize) :=
  match rangeBound lo with
  | .error e => .error e
  | .ok l =>
    match rangeBound hi with
    | .error e => .error e
    | .ok h => .ok (l, h)

/-- `index_opt`, arm `(Arr(a), Num(Int | BigInt))`; every other index that is not an array or an
object is "cannot index" -/
def indexArr (a : List Val) (i : Val) : Except CErr (Option Val) :=
  match i with
  | .num n =>
    if n.isInt then .ok (((asPosUsize n).bind fun p => absIndex p a.length).bind fun j => a[j]?)
    else .error .index
  | _ => .error .index

/-- `index_opt`, arm `(BStr(a), Num(Int | BigInt))` -/
def indexBytes (b : List UInt8) (i : Val) : Except CErr (Option Val) :=
  match i with
  | .num n =>
    if n.isInt then
      .ok ((((asPosUsize n).bind fun p => absIndex p b.length).bind fun j => b[j]?).map
        fun x => Val.num (.int (Int.ofNat x.toNat)))
    else .error .index
  | _ => .error .index

/-- `ValT::range`, array arm -/
def sliceArr (a : List Val) (lo hi : Val) : Except CErr (List Val) :=
  match rangeInt lo hi with
  | .error e => .error e
  | .ok r => .ok ((a.drop (skipTake r a.length).1).take (skipTake r a.length).2)

/-- `ValT::range`, byte-string arm -/
def sliceBytes (b : List UInt8) (lo hi : Val) : Except CErr (List UInt8) :=
  match rangeInt lo hi with
  | .error e => .error e
  | .ok r => .ok ((b.drop (skipTake r b.length).1).take (skipTake r b.length).2)

/-- `ValT::range`, text-string arm (positions count characters) -/
def sliceText (b : List UInt8) (lo hi : Val) : Except CErr (List UInt8) :=
  match rangeInt lo hi with
  | .error e => .error e
  | .ok r => .ok ((b.drop (skipTakeChars r b).1).take (skipTakeChars r b).2)

/-! ## comparison as it is in the tree -/

/-- `big_float_cmp` (fix 18a519c): every integer lies strictly between the infinities -/
def bigFloatCmp (i : Int) (f : UInt64) : Ordering :=
  if f == F64.posInf then .lt
  else if f == F64.negInf then .gt
  else F64.cmp (F64.ofInt i) f

/-- `impl Ord for Num` -/
def numCmp (a b : Num) : Ordering :=
  match Num.undec a, Num.undec b with
  | .big i, .float f => bigFloatCmp i f
  | .float f, .big i => (bigFloatCmp i f).swap
  | x, y => Num.cmp x y

/-! ## counters: `limit`, `skip` (`while_gtz!`), `range/3` -/

/-- `*i > 0.into()` -/
def gtZero (n : Num) : Bool := numCmp n (.int 0) == .gt

/-- `i - 1.into()` -/
def pred (n : Num) : Num := Num.sub n (.int 1)

/-- `limit!`: the items pulled from the outputs `xs` of `f` while the counter is positive; the
counter is decremented with the value arithmetic (`i - 1`), so it may be an integer in either
representation or a float.  (The initial `n <= 0` test is the same test as the first round.) -/
def limitGo {α : Type} : Nat → Num → List α → List α
  | 0, _, _ => []
  | f + 1, n, xs =>
    if gtZero n then
      match xs with
      | [] => []
      | x :: r => x :: limitGo f (pred n) r
    else []

def limit {α : Type} (n : Num) (xs : List α) : List α := limitGo (xs.length + 1) n xs

/-- `skip!`: while the counter is positive an item is dropped, except that an error item is
passed on; afterwards the rest of `f`'s outputs -/
def skipGo {α : Type} (isErr : α → Bool) : Nat → Num → List α → List α
  | 0, _, _ => []
  | f + 1, n, xs =>
    if gtZero n then
      match xs with
      | [] => []
      | x :: r => if isErr x then x :: skipGo isErr f (pred n) r else skipGo isErr f (pred n) r
    else xs

def skip {α : Type} (isErr : α → Bool) (n : Num) (xs : List α) : List α :=
  skipGo isErr (xs.length + 1) n xs

/-- the loop condition of `range`: `x < to`, `x > to`, `x != to` according to the sign of `by` -/
def rangeCond (c : Ordering) (x to : Num) : Bool :=
  match c with
  | .gt => numCmp x to == .lt
  | .lt => numCmp x to == .gt
  | .eq => !(Num.eq x to)

/-- the first `fuel` outputs of the `range/3` loop on numbers (`from = x + by` each round) -/
def rangeGo : Nat → Num → Num → Num → Ordering → List Num
  | 0, _, _, _, _ => []
  | f + 1, x, to, stp, c =>
    if rangeCond c x to then x :: rangeGo f (Num.add x stp) to stp c else []

/-- `range($from; $to; $by)` on numbers, at most `fuel` outputs -/
def range (fuel : Nat) (frm to stp : Num) : List Num :=
  rangeGo fuel frm to stp (numCmp stp (.int 0))

/-! ## bytes and code points -/

/-- number arm of `Val::to_bytes`: `as_isize().and_then(|i| u8::try_from(i).ok())` -/
def byteOfNum (n : Num) : Option UInt8 :=
  match Num.asIsize n with
  | some i => if 0 ≤ i ∧ i ≤ 255 then some (UInt8.ofNat i.toNat) else none
  | none => none

/-- `Val::to_bytes` (`none` = "cannot convert … to bytes") -/
def toBytesF : Nat → Val → Option (List UInt8)
  | 0, _ => none
  | _ + 1, .num n => (byteOfNum n).map fun b => [b]
  | _ + 1, .bstr b => some b
  | _ + 1, .tstr b => some b
  | f + 1, .arr a => (a.mapM (toBytesF f)).map List.flatten
  | _ + 1, _ => none

def toBytes (v : Val) : Option (List UInt8) := toBytesF v.size v

/-- `try_as_isize` -/
def tryAsIsize : Val → Except CErr Int
  | .num n =>
    match Num.asIsize n with
    | some i => .ok i
    | none => .error .typInt
  | _ => .error .typInt

/-- one element of `implode` (since 496d12c with `checked_neg`): `-255 ..= 0` is a raw byte,
a Unicode scalar value is encoded, everything else "cannot use i as character" -/
def implode1 (v : Val) : Except CErr (List UInt8) :=
  match tryAsIsize v with
  | .error e => .error e
  | .ok i =>
    if -255 ≤ i ∧ i ≤ 0 then .ok [UInt8.ofNat (-i).toNat]
    else if 0 ≤ i ∧ i < 4294967296 ∧ Utf8.isScalar i.toNat = true then .ok (Utf8.encode i.toNat)
    else .error .character

/-- `implode` on the elements of an array (the first failing element decides) -/
def implode : List Val → Except CErr (List UInt8)
  | [] => .ok []
  | v :: vs =>
    match implode1 v with
    | .error e => .error e
    | .ok b =>
      match implode vs with
      | .error e => .error e
      | .ok r => .ok (b ++ r)

/-- `try_as_i32`: the exponent argument of `ldexp`, `scalb`, `scalbln` -/
def tryAsI32 (v : Val) : Except CErr Int :=
  match tryAsIsize v with
  | .error e => .error e
  | .ok i => if -2147483648 ≤ i ∧ i ≤ 2147483647 then .ok i else .error .other

/-! ## decimal rendering (`tostring`, `tojson`, `@text`, `@json` of an integer) -/

/-- `impl Display for Num` on integers -/
def renderInt : Num → Option (List UInt8)
  | .int i => some (C07.intText i)
  | .big i => some (C07.intText i)
  | _ => none

/-! ## `join` (jaq-core/src/defs.jq) on an array of text strings -/

/-- `def join($s): .[] |= tostring | .[:-1][] += $s | reduce .[] as $x (""; . + $x)` -/
def joinBytes (sep : List UInt8) (parts : List (List UInt8)) : List UInt8 :=
  ((parts.dropLast.map (· ++ sep)) ++ (parts.drop (parts.length - 1))).foldl (· ++ ·) []

end Jaq.C09
