/-
C18 — `--in-place` replaces a file atomically and only after complete success.

Model: `JaqVerif/C18/InPlace.lean` (abstract file system, the operation sequence `protocol jobs`
of the `if cli.in_place` block, `step`/`exec`, scenario well-formedness `WF`, automaton `accepts`).
A scenario `jobs : List Job` is ANY list of files with ANY outputs (chunked into write calls in any
way) and ANY fault (filter error on value i after k outputs, parse error at value i, failure of
the n-th write call, failing temp creation / stat / rename / chmod).  A kill point is ANY `n`:
the run killed before its (n+1)-th operation has performed `(protocol jobs).take n`.
Hypothesis `WF fs0 jobs`: distinct targets that exist, temp names unused and distinct (what
`O_EXCL` and `tempfile` guarantee), `stat` reports the true mode.  See the `example` at the end.
-/
import JaqVerif.Lemmas.C18MonitorStatic
import JaqVerif.Lemmas.C18Afs

namespace Jaq.C18

/-- **original_until_rename.**  For every scenario, every kill point `n` and every file `j`:
    as long as the rename onto `j.path` has not happened the file is exactly as it was (bytes and
    mode); once it has happened, the run on `j` had finished without error (no fault, or only the
    final chmod fails) and the file holds exactly the complete output. -/
theorem original_until_rename (fs0 : FS) (jobs : List Job) (wf : WF fs0 jobs) (n : Nat)
    (j : Job) (hj : j ∈ jobs) :
    let ops := (protocol jobs).take n
    (Op.rename j.tmp j.path ∉ ops → exec fs0 ops j.path = fs0 j.path) ∧
    (Op.rename j.tmp j.path ∈ ops →
      (j.fault = none ∨ j.fault = some .chmodErr) ∧
      (exec fs0 ops).content j.path = some j.output ∧
      (exec fs0 ops).mode j.path = some (if Op.chmod j.path j.mode ∈ ops then j.mode else tmpMode)) := by
  intro ops
  obtain ⟨f1, f2⟩ := (protocol_prefix_facts jobs fs0 ops wf (List.take_prefix _ _)).1 j hj
  refine ⟨f1, fun hm => ?_⟩
  obtain ⟨h1, h2⟩ := f2 hm
  exact ⟨h1, by simp [FS.content, h2], by simp [FS.mode, h2]⟩

/-- Every abort position: a file whose run ends with a filter error (on any value, after any
    number of outputs), a parse error (at any value), a failing write call (any call), a failing
    temp creation, `stat` or `rename` is never changed — at no kill point and not at the end. -/
theorem abort_keeps_original (fs0 : FS) (jobs : List Job) (wf : WF fs0 jobs) (n : Nat)
    (j : Job) (hj : j ∈ jobs) (e : Fault) (he : j.fault = some e) (hc : e ≠ .chmodErr) :
    exec fs0 ((protocol jobs).take n) j.path = fs0 j.path := by
  obtain ⟨f1, f2⟩ := original_until_rename fs0 jobs wf n j hj
  by_cases hm : Op.rename j.tmp j.path ∈ (protocol jobs).take n
  · rcases (f2 hm).1 with h | h
    · rw [he] at h; cases h
    · rw [he] at h; cases h; exact absurd rfl hc
  · exact f1 hm

/-- **old_or_complete** (two-state atomicity).  At every kill point a target holds either exactly
    its original bytes or exactly the complete output of its run — never a prefix of the output,
    never a mixture, never nothing. -/
theorem old_or_complete (fs0 : FS) (jobs : List Job) (wf : WF fs0 jobs) (n : Nat)
    (j : Job) (hj : j ∈ jobs) :
    (exec fs0 ((protocol jobs).take n)).content j.path = fs0.content j.path ∨
    (exec fs0 ((protocol jobs).take n)).content j.path = some j.output := by
  obtain ⟨f1, f2⟩ := original_until_rename fs0 jobs wf n j hj
  by_cases hm : Op.rename j.tmp j.path ∈ (protocol jobs).take n
  · exact Or.inr (f2 hm).2.1
  · exact Or.inl (by simp [FS.content, f1 hm])

/-- **replacement_is_final.**  Once a kill point `n` sees the new contents because the rename has
    happened, every later kill point `m ≥ n` (and the completed run) sees the same complete
    output: the file is never reverted or rewritten afterwards. -/
theorem replacement_is_final (fs0 : FS) (jobs : List Job) (wf : WF fs0 jobs) (n m : Nat) (hnm : n ≤ m)
    (j : Job) (hj : j ∈ jobs) (hr : Op.rename j.tmp j.path ∈ (protocol jobs).take n) :
    (exec fs0 ((protocol jobs).take m)).content j.path = some j.output := by
  have hm : Op.rename j.tmp j.path ∈ (protocol jobs).take m := by
    have e : (protocol jobs).take n = ((protocol jobs).take m).take n := by
      rw [List.take_take, Nat.min_eq_left hnm]
    rw [e] at hr
    exact List.mem_of_mem_take hr
  exact ((original_until_rename fs0 jobs wf m j hj).2 hm).2.1

/-- **target_always_exists.**  At no kill point is a target missing (there is no window between
    removing the old file and installing the new one). -/
theorem target_always_exists (fs0 : FS) (jobs : List Job) (wf : WF fs0 jobs) (n : Nat)
    (j : Job) (hj : j ∈ jobs) :
    (exec fs0 ((protocol jobs).take n) j.path).isSome = true := by
  obtain ⟨f1, f2⟩ := original_until_rename fs0 jobs wf n j hj
  by_cases hm : Op.rename j.tmp j.path ∈ (protocol jobs).take n
  · have h := (f2 hm).2.1
    cases hx : exec fs0 ((protocol jobs).take n) j.path with
    | none => simp [FS.content, hx] at h
    | some v => rfl
  · rw [f1 hm]
    obtain ⟨c, mo, hfs, _⟩ := wf.path_exists j hj
    simp [hfs]

/-- Nothing but targets and temp files is ever touched, at any kill point. -/
theorem others_untouched (fs0 : FS) (jobs : List Job) (wf : WF fs0 jobs) (n : Nat) (q : Path)
    (hq : ∀ a ∈ jobs, q ≠ a.tmp ∧ q ≠ a.path) :
    exec fs0 ((protocol jobs).take n) q = fs0 q :=
  (protocol_prefix_facts jobs fs0 _ wf (List.take_prefix _ _)).2 q hq

/-- **success_equals_stdout_run.**  After a run without fault every file holds exactly the bytes
    the same invocation without `--in-place` prints for it, and these sections make up that run's
    stdout in order. -/
theorem success_equals_stdout_run (fs0 : FS) (jobs : List Job) (wf : WF fs0 jobs)
    (ok : ∀ a ∈ jobs, a.fault = none) :
    (∀ j ∈ jobs, (exec fs0 (protocol jobs)).content j.path = some j.output) ∧
    stdoutRun jobs = (jobs.map (·.output)).flatten := by
  refine ⟨fun j hj => ?_, stdoutRun_all_ok ok⟩
  have hp : protocol jobs <+: protocol jobs := List.prefix_refl _
  obtain ⟨_, f2⟩ := (protocol_prefix_facts jobs fs0 _ wf hp).1 j hj
  have hm : Op.rename j.tmp j.path ∈ protocol jobs := by
    rw [protocol_all_ok ok]; exact mem_flatMap_jobOps hj (rename_mem_jobOps (Or.inl (ok j hj)))
  simp [FS.content, (f2 hm).2]

/-- **mode_preserved_after_success.** -/
theorem mode_preserved_after_success (fs0 : FS) (jobs : List Job) (wf : WF fs0 jobs)
    (ok : ∀ a ∈ jobs, a.fault = none) (j : Job) (hj : j ∈ jobs) :
    (exec fs0 (protocol jobs)).mode j.path = fs0.mode j.path := by
  have hp : protocol jobs <+: protocol jobs := List.prefix_refl _
  obtain ⟨_, f2⟩ := (protocol_prefix_facts jobs fs0 _ wf hp).1 j hj
  have hm : Op.rename j.tmp j.path ∈ protocol jobs := by
    rw [protocol_all_ok ok]; exact mem_flatMap_jobOps hj (rename_mem_jobOps (Or.inl (ok j hj)))
  have hc : Op.chmod j.path j.mode ∈ protocol jobs := by
    rw [protocol_all_ok ok]; exact mem_flatMap_jobOps hj (chmod_mem_jobOps (ok j hj))
  obtain ⟨c, m, hfs, hmode⟩ := wf.path_exists j hj
  have hmm : j.mode = m := hmode (by simp [Job.reachesStat, ok j hj])
  rw [← hmm] at hfs
  simp [FS.mode, (f2 hm).2, hc, hfs]

/-- **earlier_files_new_later_files_old.**  When file `f` is the first with a fault, at the end of
    the run every earlier file holds its complete output with its old mode, every later file is
    untouched, and `f` itself is untouched — unless only its final chmod failed: then it holds its
    complete output with the temp file's mode. -/
theorem earlier_files_new_later_files_old (fs0 : FS) (pre post : List Job) (f : Job) (e : Fault)
    (wf : WF fs0 (pre ++ f :: post)) (ok : ∀ a ∈ pre, a.fault = none) (he : f.fault = some e) :
    let fin := exec fs0 (protocol (pre ++ f :: post))
    (∀ a ∈ pre, fin a.path = some (a.output, a.mode)) ∧
    (∀ a ∈ post, fin a.path = fs0 a.path) ∧
    (e ≠ .chmodErr → fin f.path = fs0 f.path) ∧
    (e = .chmodErr → fin f.path = some (f.output, tmpMode)) := by
  intro fin
  have hs := wf.toStaticWF
  have hfne : f.fault ≠ none := by simp [he]
  have hprot := protocol_until_fault f post ok hfne
  have facts := (protocol_prefix_facts _ fs0 _ wf (List.prefix_refl _)).1
  have hfmem : f ∈ pre ++ f :: post := by simp
  obtain ⟨d1, d2, d3⟩ := split_disjoint (f := Job.tmp) hs.tmps_nodup
  obtain ⟨p1, p2, p3⟩ := split_disjoint (f := Job.path) hs.paths_nodup
  refine ⟨fun a ha => ?_, fun a ha => ?_, fun hc => ?_, fun hc => ?_⟩
  · have hamem : a ∈ pre ++ f :: post := by simp [ha]
    have hm : Op.rename a.tmp a.path ∈ protocol (pre ++ f :: post) := by
      rw [hprot]; exact List.mem_append_left _ (mem_flatMap_jobOps ha (rename_mem_jobOps (Or.inl (ok a ha))))
    have hch : Op.chmod a.path a.mode ∈ protocol (pre ++ f :: post) := by
      rw [hprot]; exact List.mem_append_left _ (mem_flatMap_jobOps ha (chmod_mem_jobOps (ok a ha)))
    have := ((facts a hamem).2 hm).2
    simpa [hch] using this
  · have hamem : a ∈ pre ++ f :: post := by simp [ha]
    have hno : Op.rename a.tmp a.path ∉ protocol (pre ++ f :: post) := by
      rw [hprot]
      intro hm
      rcases List.mem_append.mp hm with hm | hm
      · obtain ⟨b, hb, hm⟩ := List.mem_flatMap.mp hm
        exact rename_not_mem_other (d1 a ha b hb) hm
      · exact rename_not_mem_other (d2 a ha) hm
    exact (facts a hamem).1 hno
  · by_cases hm : Op.rename f.tmp f.path ∈ protocol (pre ++ f :: post)
    · rcases ((facts f hfmem).2 hm).1 with h | h
      · rw [he] at h; cases h
      · rw [he] at h; cases h; exact absurd rfl hc
    · exact (facts f hfmem).1 hm
  · subst hc
    have hm : Op.rename f.tmp f.path ∈ protocol (pre ++ f :: post) := by
      rw [hprot]; exact List.mem_append_right _ (rename_mem_jobOps (Or.inr he))
    have hch : Op.chmod f.path f.mode ∉ protocol (pre ++ f :: post) := by
      rw [hprot]
      intro hc
      rcases List.mem_append.mp hc with hc | hc
      · obtain ⟨b, hb, hc⟩ := List.mem_flatMap.mp hc
        exact chmod_not_mem_other (fun h => p3 b hb h.symm) _ hc
      · rw [jobOps_eq_head_tail f (by simp [he]) (by simp [he])] at hc
        simp [Job.tail, he] at hc
    have := ((facts f hfmem).2 hm).2
    simpa [hch] using this

/-- **no_temp_left_on_completion** (success and every error path): when the run has ended — with
    or without fault — no temp file exists and no name exists that did not exist before. -/
theorem no_temp_left_on_completion (fs0 : FS) (jobs : List Job) (wf : WF fs0 jobs) :
    (∀ a ∈ jobs, exec fs0 (protocol jobs) a.tmp = none) ∧
    (∀ q, (exec fs0 (protocol jobs) q).isSome → (fs0 q).isSome) := by
  constructor
  · intro a ha
    rw [protocol_complete_frame jobs fs0 wf a.tmp (fun b hb => wf.tmp_ne_path a ha b hb)]
    exact wf.tmp_fresh a ha
  · intro q hq
    by_cases h : ∃ a ∈ jobs, q = a.path
    · obtain ⟨a, ha, rfl⟩ := h
      obtain ⟨c, m, hfs, _⟩ := wf.path_exists a ha
      simp [hfs]
    · rw [protocol_complete_frame jobs fs0 wf q (fun a ha hqa => h ⟨a, ha, hqa⟩)] at hq
      exact hq

/-! ## The protocol automaton -/

/-- **accepts_sound.**  A trace accepted by the automaton (with the file-system check of the
    decoded scenario against the snapshot taken before the run) is a prefix of the protocol of a
    well-formed scenario: everything above applies to it. -/
theorem accepts_sound (fs0 : FS) (ops : List Op) (h : acceptsPrefix ops = true)
    (hfs : fsWF fs0 (decode ops) = true) :
    WF fs0 (decode ops) ∧ ops <+: protocol (decode ops) :=
  ⟨wf_of_checks (acceptsPrefix_spec h).1 hfs, (acceptsPrefix_spec h).2⟩

/-- Spelled out for a (possibly killed) accepted trace: every file of the trace is untouched
    unless the trace contains its rename, and then holds exactly everything written to its temp
    file, which is the complete output of a run that ended without error; nothing else changed. -/
theorem accepted_trace_atomic (fs0 : FS) (ops : List Op) (h : acceptsPrefix ops = true)
    (hfs : fsWF fs0 (decode ops) = true) :
    (∀ j ∈ decode ops,
      (Op.rename j.tmp j.path ∉ ops → exec fs0 ops j.path = fs0 j.path) ∧
      (Op.rename j.tmp j.path ∈ ops → (j.fault = none ∨ j.fault = some .chmodErr) ∧
        exec fs0 ops j.path = some (j.output, if Op.chmod j.path j.mode ∈ ops then j.mode else tmpMode))) ∧
    (∀ q, (∀ j ∈ decode ops, q ≠ j.tmp ∧ q ≠ j.path) → exec fs0 ops q = fs0 q) := by
  obtain ⟨wf, hp⟩ := accepts_sound fs0 ops h hfs
  exact protocol_prefix_facts _ fs0 ops wf hp

/-- A completed accepted trace is the whole protocol of its scenario: no temp file is left; if
    the process reported success every file holds its complete output with its old mode. -/
theorem accepted_complete_trace (fs0 : FS) (ok : Bool) (ops : List Op) (h : accepts ok ops = true)
    (hfs : fsWF fs0 (decode ops) = true) :
    (∀ q, (exec fs0 ops q).isSome → (fs0 q).isSome) ∧
    (ok = true → ∀ j ∈ decode ops,
      (exec fs0 ops).content j.path = some j.output ∧ (exec fs0 ops).mode j.path = fs0.mode j.path) := by
  obtain ⟨h1, h2, h3⟩ := accepts_spec h
  have wf := wf_of_checks h1 hfs
  constructor
  · intro q hq
    rw [h2] at hq
    exact (no_temp_left_on_completion fs0 _ wf).2 q hq
  · intro hok j hj
    have okj := h3 hok
    constructor
    · have := (success_equals_stdout_run fs0 _ wf okj).1 j hj
      rw [← h2] at this; exact this
    · have := mode_preserved_after_success fs0 _ wf okj j hj
      rw [← h2] at this; exact this

/-- **The automaton alone decides acceptance**: the validation built into `acceptsPrefix` (static
    well-formedness of the decoded scenario, trace = prefix of its protocol) can never fail on a
    trace the automaton lets through — `acceptsPrefix` is exactly "no operation was rejected". -/
theorem acceptsPrefix_eq_automaton (ops : List Op) : acceptsPrefix ops = (Mon.init.run ops).isSome := by
  unfold acceptsPrefix
  cases h : Mon.init.run ops with
  | none => rfl
  | some s =>
    obtain ⟨h1, h2⟩ := monitor_validates h
    simp [h1, h2]

/-- … and for completed runs: acceptance is the automaton ending in a state in which no temp file
    exists (and, when the process reported success, between two files). -/
theorem accepts_eq_automaton (ok : Bool) (ops : List Op) :
    accepts ok ops = match Mon.init.run ops with
      | none => false
      | some s => (match s.phase with
          | .idle => true
          | .dead => !ok
          | .loaded _ => !ok
          | .renamed _ _ _ _ => !ok
          | _ => false) && (!ok || s.jobs.all fun j => j.fault.isNone) := by
  unfold accepts
  cases h : Mon.init.run ops with
  | none => rfl
  | some s =>
    obtain ⟨h1, _⟩ := monitor_validates h
    rcases s with ⟨phase, done, paths, temps⟩
    cases phase
    case writing => simp
    case statted => simp
    all_goals
      have := monitor_complete_run h (by simp)
      simp [h1, ← this]

/-- The association-list file system the compiled driver executes (for speed) computes exactly the
    states of `exec`: what the check compares with the real file system is the model's state. -/
theorem driver_fs_refines (files : AFS) (ops : List Op) : (execA files ops).get = exec files.get ops :=
  execA_get ops files

/-- The automaton is not vacuous: it accepts the protocol of a scenario, every kill point of it,
    and rejects the traces of the mutations listed in the notes (concrete instances, by evaluation). -/
example : WF exFs exJobs := wf_of_checks (by decide) (by decide)
example : accepts false (protocol exJobs) = true := by decide
example : ∀ n ≤ 11, acceptsPrefix ((protocol exJobs).take n) = true := by decide
example : exec exFs (protocol exJobs) exA = some ([50, 10], 0o644) := by decide
example : exec exFs (protocol exJobs) exB = some ([50, 10], 0o444) := by decide
-- persist before the run has finished: a write after the rename
example : acceptsPrefix [.load exA, .mkTemp exT1, .stat exA 0o644, .rename exT1 exA, .write exT1 [50]] = false := by decide
-- temp file in another directory
example : acceptsPrefix [.load exA, .mkTemp ⟨"/tmp", "jaq1"⟩] = false := by decide
-- missing early return: the next file is started after an abort
example : acceptsPrefix [.load exA, .mkTemp exT1, .unlink exT1, .load exB] = false := by decide
-- chmod dropped
example : accepts true [.load exA, .mkTemp exT1, .write exT1 [50], .stat exA 0o644, .rename exT1 exA] = false := by decide

end Jaq.C18

