/-
C16 — a program split into modules computes what its inlined form computes.
Property theorems about the model in `JaqVerif/C16/{Load,Search,Inline}.lean`
(helper lemmas: `Lemmas/C16Load.lean`, `Lemmas/C16Resolve.lean`).

`run_modules_eq_run_inlined` (below) is proved against the inlined program in *closure form*
(`C16/Lexical.lean`: one lexically scoped program, every directive replaced by the closures of
the definitions it brings in).  Not proved (checked per generated graph on the real code and
in the model by checks/c16.py):

  theorem run_inlined_text (g : Graph S) (vv : VarVals) (dataOf …) :
      Acyclic g → names of `g` do not start with `__` →
      runSingle g.globals vv.globals (inline g dataOf) = runLexical g vv

  (the *text* `inline g` realises the closures by wrapper definitions `__wM_K` and aliases
  `m__f`; what is missing is the freshness argument for these names), and the converse
  direction of `run_modules_eq_run_inlined` for programs on which the modular evaluator reports
  an undefined symbol (those do not compile in jaq).
-/
import JaqVerif.Lemmas.C16Load
import JaqVerif.Lemmas.C16Resolve
import JaqVerif.Lemmas.C16Search
import JaqVerif.Lemmas.C16Sim
import JaqVerif.Lemmas.C16Cycle

namespace Jaq.C16

/-! ## Loader -/

/-- For ALL readers whose answers stay inside a finite set of paths `U` (any module graph, cyclic
    or not, any sharing): with `fuel > |U|` the loader finishes (the fuel of the model never
    runs out — the Rust recursion ends), every path is stored at most once, the `open` stack is
    empty again, and a successful result lists every dependency path once. -/
theorem load_terminates_and_dedups {P S B : Type} [BEq P] [LawfulBEq P] (read : Reader P S B) (U : List P)
    (hU : ∀ parent s p src, read parent s = .ok (p, src) → p ∈ U)
    (fuel : Nat) (hfuel : U.length < fuel) (dflt : P) (prelude : B) (mainPath : P) (mainSrc : Src S B) :
    ∃ st res, load read fuel dflt prelude mainPath mainSrc = some (st, res) ∧
      (st.mods.map (·.1)).Nodup ∧ st.opened = [] ∧
      (∀ deps main, res = .ok deps main → (deps.map (·.1)).Nodup) := by
  obtain ⟨⟨st, res⟩, h⟩ := load_total read U hU fuel hfuel dflt prelude mainPath mainSrc
  obtain ⟨h1, h2, h3⟩ := load_facts read fuel dflt prelude mainPath mainSrc st res h
  exact ⟨st, res, h, h1, h2, fun deps main hr => (h3 deps main hr).1⟩

/-- hypotheses of `load_terminates_and_dedups` are satisfiable: a two-file cycle `a ⇄ b` -/
example : ∃ st errs, load (P := String) (S := String) (B := Unit)
    (fun _ s => if s = "a" then .ok ("a", .ok [⟨"b", none⟩] ()) else if s = "b" then .ok ("b", .ok [⟨"a", none⟩] ())
      else .error "file not found") 3 "" () "main" (.ok [⟨"a", none⟩] ()) = some (st, .err errs) ∧
    errs = [("b", .io [("a", circularMsg)])] := by
  refine ⟨_, _, rfl, ?_⟩
  decide

/-- A directive that leads to a file which is being processed (it is on the `open` stack and
    not stored yet) is answered at once with the error "circular include/import": no further
    read, no recursion, state unchanged (except the trace).  Never loops. -/
theorem cycle_is_error {P S B : Type} [BEq P] [LawfulBEq P] (read : Reader P S B) (fuel : Nat) (parent : P)
    (st : LState P S B) (s : S) (path : P) (src : Src S B)
    (hread : read parent s = .ok (path, src)) (hopen : path ∈ st.opened) (hnew : path ∉ st.mods.map (·.1)) :
    find read (fuel + 1) parent st s =
      some ({ st with trace := st.trace ++ [(parent, s)] }, .error circularMsg) :=
  find_open read fuel parent st s path src hread hopen hnew

/-- **Global form.**  Let the reader be confined to a finite set of paths `U`, answer every path
    always with the same file (`content`), and never answer the prelude's placeholder path.
    If the file graph (`Edge`: `p → q` when the header of `p` has an `include`/`import` that the
    reader resolves to `q`) has a cycle `q →⁺ q` that is reachable from the main file, then for
    every `fuel > |U|` the load ENDS (never loops), FAILS, and the errors it returns contain
    "circular include/import" for some module — whatever else is wrong with other files. -/
theorem cycle_is_error_global {P S B : Type} [BEq P] [LawfulBEq P] (read : Reader P S B) (content : P → Src S B)
    (U : List P) (hU : ∀ parent s p src, read parent s = .ok (p, src) → p ∈ U)
    (hcons : ∀ parent s p src, read parent s = .ok (p, src) → src = content p)
    (dflt : P) (hnd : ∀ parent s p src, read parent s = .ok (p, src) → p ≠ dflt)
    (fuel : Nat) (hfuel : U.length < fuel) (prelude : B) (mainPath : P) (mdeps : List (Directive S)) (mbody : B)
    (q : P) (hreach : Reach read content mainPath mdeps q) (hcyc : Path (Edge read content) q q) :
    ∃ st errs, load read fuel dflt prelude mainPath (.ok mdeps mbody) = some (st, .err errs) ∧
      ∃ p l s, (p, ModErr.io l) ∈ errs ∧ (s, circularMsg) ∈ l := by
  obtain ⟨⟨st, res⟩, h⟩ := load_total read U hU fuel hfuel dflt prelude mainPath (.ok mdeps mbody)
  obtain ⟨errs, rfl, hc⟩ := load_cycle read content hcons dflt hnd fuel prelude mainPath mdeps mbody st res h q hreach hcyc
  exact ⟨st, errs, h, hc⟩

/-- the hypotheses are satisfiable: main includes `a`, `a` includes `b`, `b` includes `a` -/
example :
    let read : Reader String String Unit := fun _ s =>
      if s = "a" then .ok ("a", .ok [⟨"b", none⟩] ()) else if s = "b" then .ok ("b", .ok [⟨"a", none⟩] ())
      else .error "file not found"
    let content : String → Src String Unit := fun p =>
      if p = "a" then .ok [⟨"b", none⟩] () else if p = "b" then .ok [⟨"a", none⟩] () else .bad
    (∀ parent s p src, read parent s = .ok (p, src) → p ∈ ["a", "b"]) ∧
    (∀ parent s p src, read parent s = .ok (p, src) → src = content p) ∧
    (∀ parent s p src, read parent s = .ok (p, src) → p ≠ "") ∧
    Reach read content "main" [⟨"a", none⟩] "a" ∧ Path (Edge read content) "a" "a" := by
  intro read content
  have hr : ∀ parent s p src, read parent s = .ok (p, src) →
      (p = "a" ∧ src = .ok [⟨"b", none⟩] ()) ∨ (p = "b" ∧ src = .ok [⟨"a", none⟩] ()) := by
    intro parent s p src h
    simp only [read] at h
    split at h
    · cases h; exact .inl ⟨rfl, rfl⟩
    · split at h
      · cases h; exact .inr ⟨rfl, rfl⟩
      · cases h
  refine ⟨?_, ?_, ?_, ?_, ?_⟩
  · intro parent s p src h
    rcases hr parent s p src h with ⟨rfl, _⟩ | ⟨rfl, _⟩ <;> simp
  · intro parent s p src h
    rcases hr parent s p src h with ⟨rfl, rfl⟩ | ⟨rfl, rfl⟩ <;> rfl
  · intro parent s p src h
    rcases hr parent s p src h with ⟨rfl, _⟩ | ⟨rfl, _⟩ <;> decide
  · exact Reach.root ⟨"a", none⟩ "a" (.ok [⟨"b", none⟩] ()) (by simp) rfl rfl
  · exact Path.cons "a" "b" "a" ⟨[⟨"b", none⟩], (), ⟨"b", none⟩, .ok [⟨"a", none⟩] (), rfl, by simp, rfl, rfl⟩
      (Path.single "b" "a" ⟨[⟨"a", none⟩], (), ⟨"a", none⟩, .ok [⟨"b", none⟩] (), rfl, by simp, rfl, rfl⟩)

/-- A successful load contains no failed module, and its dependency relation is well-founded:
    every module refers only to modules with a smaller index, the main module only to loaded
    ones.  Hence whenever the files form a cycle, `load` answers `err` (together with
    `cycle_is_error`: the inner module gets `Error::Io`, and one failed module fails the load). -/
theorem loaded_graph_is_acyclic {P S B : Type} [BEq P] [LawfulBEq P] (read : Reader P S B) (fuel : Nat) (dflt : P)
    (prelude : B) (mainPath : P) (mainSrc : Src S B) (st : LState P S B) (deps : List (P × Module S B))
    (main : P × Module S B)
    (h : load read fuel dflt prelude mainPath mainSrc = some (st, .ok deps main)) :
    collectErr st.mods = [] ∧
    (∀ (i : Nat) (p : P) (m : Module S B), deps[i]? = some (p, m) → ∀ e ∈ m.mods, e.1 < i) ∧
    (∀ e ∈ main.2.mods, e.1 < deps.length) := by
  obtain ⟨_, _, h3⟩ := load_facts read fuel dflt prelude mainPath mainSrc st _ h
  exact (h3 deps main rfl).2

/-! ## Search -/

/-- the candidates are: the directive's `search` paths (prefix-expanded, relative to the
    directory of the importing file) in their order, then the library paths (prefix-expanded,
    relative to the working directory when canonicalised) in their order; the file name with
    the extension rule applied is appended to each -/
theorem candidates_meta_before_libs (env : SearchEnv) (pf rel : RPath) (metas libs : List RPath) (ext : FName) :
    candidates env pf rel metas libs ext =
      (metas.map fun p => RPath.join (RPath.join (parentDir pf) (expand env p)) (applyExt env rel ext)) ++
      (libs.map fun p => RPath.join (expand env p) (applyExt env rel ext)) := by
  simp [candidates, List.map_append, List.map_map, Function.comp_def]

/-- `find` answers `q` iff some candidate canonicalises to the regular file `q` and no earlier
    candidate (in the documented order) canonicalises to a regular file -/
theorem find_first_existing_in_documented_order (env : SearchEnv) (fs : FS) (pf rel : RPath)
    (metas libs : List RPath) (ext : FName) (h : RPath.isAbs rel = false) (q : List FName) :
    findFile env fs pf rel metas libs ext = .ok q ↔
      ∃ before c after, candidates env pf rel metas libs ext = before ++ c :: after ∧
        hit fs env.cwd c = some q ∧ ∀ x ∈ before, hit fs env.cwd x = none := by
  simp only [findFile, h, Bool.false_eq_true, ↓reduceIte]
  constructor
  · intro hf
    split at hf
    · rename_i q' hq
      rw [List.findSome?_eq_some_iff] at hq
      obtain ⟨l1, a, l2, h1, h2, h3⟩ := hq
      cases hf
      exact ⟨l1, a, l2, h1, h2, h3⟩
    · cases hf
  · rintro ⟨l1, a, l2, h1, h2, h3⟩
    have : (candidates env pf rel metas libs ext).findSome? (hit fs env.cwd) = some q := by
      rw [List.findSome?_eq_some_iff]; exact ⟨l1, a, l2, h1, h2, h3⟩
    simp [this]

/-- `~` and `$ORIGIN` at the start of a search path are replaced by the home directory and the
    directory of the executable -/
theorem home_and_origin_expanded (env : SearchEnv) (home origin : RPath) (rest : RPath)
    (hh : env.home = some home) (ho : env.origin = some origin) :
    expand env (.normal "~".toList :: rest) = RPath.join home rest ∧
    expand env (.normal "$ORIGIN".toList :: rest) = RPath.join origin rest := by
  constructor
  · simp [expand, expandPrefix, RPath.stripPrefix1, hh]
  · simp [expand, expandPrefix, RPath.stripPrefix1, ho]

/-- every path text that starts with `/` is absolute … -/
theorem slash_is_absolute (s : List Char) : RPath.isAbs (parsePath ('/' :: s)) = true := by
  simp [parsePath, RPath.isAbs]

/-- … and absolute paths in a directive are refused whatever exists in the file system -/
theorem absolute_refused (env : SearchEnv) (fs : FS) (pf rel : RPath) (metas libs : List RPath) (ext : FName)
    (h : RPath.isAbs rel = true) : findFile env fs pf rel metas libs ext = .error nonRelativeMsg := by
  simp [findFile, h]

/-
  FALSE for the code as it is (finding F-16):

  theorem extension_only_when_missing (p : RPath) (n ext e : FName) :
      p.getLast? = some (.normal n) → extensionOf n = some e → setExtension p ext = p

  `rel.set_extension(ext)` replaces a given extension.  Proved instead: the half that holds
  (`_partial`), a witness that the other half fails, and the full statement for the repair
  (`setExtensionIfMissing`, switch `SearchEnv.extOnlyWhenMissing`).
-/

/-- when the directive gives no extension, `.jq` / `.json` is appended to the name as it is -/
theorem extension_only_when_missing_partial (p : RPath) (n ext : FName) (hl : p.getLast? = some (.normal n))
    (h : extensionOf n = none) :
    setExtension p ext = p.dropLast ++ [.normal (n ++ '.' :: ext)] := by
  simp [setExtension, hl, setExtName, stem_of_no_ext n h]

/-- F-16: a given extension is NOT kept: `include "m.txt";` looks for `m.jq` -/
theorem extension_only_when_missing_fails :
    ¬ (∀ (p : RPath) (n ext e : FName), p.getLast? = some (.normal n) → extensionOf n = some e →
        setExtension p ext = p) := by
  intro h
  have := h (parsePath "m.txt".toList) "m.txt".toList "jq".toList "txt".toList (by decide) (by decide)
  revert this
  decide

/-- the proposed repair satisfies the full statement -/
theorem extension_only_when_missing_fixed (p : RPath) (n ext : FName) (hl : p.getLast? = some (.normal n)) :
    (∀ e, extensionOf n = some e → setExtensionIfMissing p ext = p) ∧
    (extensionOf n = none → setExtensionIfMissing p ext = p.dropLast ++ [.normal (n ++ '.' :: ext)]) := by
  constructor
  · intro e h; simp [setExtensionIfMissing, hl, h]
  · intro h; simp [setExtensionIfMissing, hl, h, setExtName, stem_of_no_ext n h]

example : setExtension (parsePath "d.cbor".toList) "json".toList = parsePath "d.json".toList := by decide
example : setExtensionIfMissing (parsePath "d.cbor".toList) "json".toList = parsePath "d.cbor".toList := by decide
example : setExtension (parsePath "lib.d/m".toList) "jq".toList = parsePath "lib.d/m.jq".toList := by decide

/-! ## Name resolution -/

/-- `Compiler::var` against the meaning of `$x`: under ANY local slots (variables, labels, filter
    parameters — any number of binders), any data imports of any modules and any globals, the
    computed index points at the slot of: the innermost local `$x`, else the latest data import
    *of the module being compiled* named `$x`, else the latest global `$x`; and the compiler
    reports `Undefined::Var` exactly when there is none. -/
theorem var_index_correct {V : Type} (locals : List (Bind × V)) (imp : List ((String × Nat) × V)) (cur : Nat)
    (glob : List (String × V)) (x : String) :
    (varIndex (locals.map (·.1)) (imp.map (·.1)) cur (glob.map (·.1)) x = none →
        specVar locals imp cur glob x = none) ∧
    (∀ i, varIndex (locals.map (·.1)) (imp.map (·.1)) cur (glob.map (·.1)) x = some i →
        ∃ v, (envOf locals imp glob)[i]? = some v ∧ specVar locals imp cur glob x = some v) := by
  have hL := lastPos_spec (V := V) (.var x) locals
  have hI := scanImported_spec (V := V) cur x imp.reverse (locals.map (·.1)).length
  have hG := scanGlobals_spec (V := V) x glob.reverse
  simp only [List.map_reverse] at hI hG
  unfold varIndex specVar
  constructor
  · intro h
    split at h
    · cases h
    · rename_i hl
      rw [hL.1 hl]
      split at h
      · cases h
      · rename_i i hi
        obtain ⟨_, h2⟩ := hI.2 i hi
        rw [h2]
        simp only
        rw [(hG i).2 h]; rfl
  · intro i h
    split at h
    · rename_i v hl
      cases h
      obtain ⟨e, he1, he2⟩ := hL.2 v hl
      refine ⟨e.2, ?_, by rw [he1]⟩
      have hle := lastPos_le _ _ v hl
      unfold envOf
      rw [List.getElem?_append_left (by simp only [List.length_map] at hle ⊢; omega)]
      exact he2
    · rename_i hl
      rw [hL.1 hl]
      split at h
      · rename_i j hj
        cases h
        obtain ⟨hle, e, he1, he2⟩ := hI.1 _ hj
        refine ⟨e.2, ?_, by rw [he1]⟩
        unfold envOf
        rw [List.getElem?_append_right (by simpa using hle)]
        have hlt : i - (locals.map (·.2)).length < ((imp.map (·.2)).reverse).length := by
          have := (List.getElem?_eq_some_iff.mp he2).1
          simpa using this
        rw [List.getElem?_append_left hlt]
        simpa using he2
      · rename_i j hj
        obtain ⟨h1, h2⟩ := hI.2 j hj
        rw [h2]
        simp only
        obtain ⟨hle, e, he1, he2⟩ := (hG j).1 i h
        refine ⟨e.2, ?_, by rw [he1]; rfl⟩
        unfold envOf
        rw [List.getElem?_append_right (by simp at h1 ⊢; omega)]
        rw [List.getElem?_append_right (by simp at h1 ⊢; omega)]
        have : i - (locals.map (·.2)).length - ((imp.map (·.2)).reverse).length = i - j := by
          simp at h1 ⊢; omega
        rw [this]; exact he2

/-- `var_index_correct` for the vector that `real_main` builds
    (`[--arg…, --rawfile…, --slurpfile…, --argjson…, $ARGS, $ENV, input_filename, imported data…]`
    through `Vars::new`): in EVERY module `cur`, under any binders, the index the compiler
    computes for `$x` from the names `parse_compile` gives it points at the slot holding: the
    innermost local `$x`, else the latest data import of module `cur` named `$x`, else the
    latest command-line variable of that name; undefined iff there is none. -/
theorem var_index_correct_cli {V : Type} (c : CliVars V) (fname : V) (locals : List (Bind × V))
    (imp : List ((String × Nat) × V)) (cur : Nat) (x : String) :
    (varIndex (locals.map (·.1)) (imp.map (·.1)) cur ((cliGlobals c fname).map (·.1)) x = none →
        specVar locals imp cur (cliGlobals c fname) x = none) ∧
    (∀ i, varIndex (locals.map (·.1)) (imp.map (·.1)) cur ((cliGlobals c fname).map (·.1)) x = some i →
        ∃ v, (realMainEnv c fname locals imp)[i]? = some v ∧ specVar locals imp cur (cliGlobals c fname) x = some v) := by
  have h := var_index_correct locals imp cur (cliGlobals c fname) x
  have he : realMainEnv c fname locals imp = envOf locals imp (cliGlobals c fname) := by
    simp [realMainEnv, envOf, varsNew, List.reverse_append]
  rw [he]
  exact h

/-- `$ENV` and `input_filename` (= `$!input_filename` of the prelude, module 0) mean the same
    in every module whatever named variables were given (`--arg ENV x` does not shadow `$ENV`:
    it is bound earlier), unless the module binds that name itself -/
theorem env_and_input_filename_in_every_module {V : Type} (c : CliVars V) (fname : V) (locals : List (Bind × V))
    (imp : List ((String × Nat) × V)) (cur : Nat) (x : String)
    (hl : locals.find? (fun e => e.1 = .var x) = none)
    (hi : imp.reverse.find? (fun e => x = e.1.1 ∧ e.1.2 = cur) = none) :
    (x = "$ENV" → specVar locals imp cur (cliGlobals c fname) x = some c.env) ∧
    (x = "$ARGS" → specVar locals imp cur (cliGlobals c fname) x = some c.args) ∧
    (x = "$!input_filename" → specVar locals imp cur (cliGlobals c fname) x = some fname) := by
  have e1 : ("$" ++ "!input_filename" : String) = "$!input_filename" := by decide
  have e2 : ("$" ++ "ENV" : String) = "$ENV" := by decide
  have e3 : ("$" ++ "ARGS" : String) = "$ARGS" := by decide
  unfold specVar
  rw [hl, hi]
  refine ⟨?_, ?_, ?_⟩ <;> intro hx <;> subst hx <;>
    simp [cliGlobals, binds, List.reverse_append, e1, e2, e3]

/-- a named variable given twice: the later KIND wins (`--argjson` over `--slurpfile` over
    `--rawfile` over `--arg`), whatever the order on the command line -/
example : specVar (V := Nat) [] [] 3
    (cliGlobals { arg := [("a", 1)], rawfile := [], slurpfile := [], argjson := [("a", 2)], args := 0, env := 0 } 9) "$a"
    = some 2 := by decide

/-- a module definition is called with `skip = vars.total`: its body starts from the environment
    without any local slot of the caller -/
theorem callee_env_drops_caller_locals {V : Type} (locals : List (Bind × V)) (imp : List ((String × Nat) × V))
    (glob : List (String × V)) :
    (envOf locals imp glob).drop (locals.map (·.1)).length = envOf [] imp glob := by
  simp [envOf]

/-- `call_mod_id`: the definition found is the LAST one of the module with that name and arity -/
theorem later_defs_shadow (defs : List Sig) (name : String) (ar k : Nat) (h : callModId defs name ar = some k) :
    (∃ s, defs[k]? = some s ∧ s.matches name ar = true) ∧
    ∀ j s, k < j → defs[j]? = some s → s.matches name ar = false :=
  findLastIdx_spec _ defs k h

/-- among included modules the one included LAST wins, and only if it does not define the name
    the earlier ones are consulted -/
theorem later_include_shadows (mm : List (List Sig)) (inc : List Nat) (mid : Nat) (defs : List Sig)
    (name : String) (ar : Nat) (hd : mm[mid]? = some defs) :
    (∀ k, callModId defs name ar = some k → callIncluded mm (inc ++ [mid]) name ar = .found mid k) ∧
    (callModId defs name ar = none → callIncluded mm (inc ++ [mid]) name ar = callIncluded mm inc name ar) := by
  constructor
  · intro k hk; simp [callIncluded, callIncludedRev, hd, hk]
  · intro hk; simp [callIncluded, callIncludedRev, hd, hk]

/-- imported definitions are reachable only as `name::f`, included ones only unqualified:
    an unqualified call resolves into a module the header *includes*, a qualified one into a
    module the header *imports under that name* -/
theorem imports_qualified_includes_plain (mm : List (List Sig)) (mods : List (Nat × Option String))
    (m name : String) (ar mid k : Nat) :
    (callIncluded mm (includedOf mods) name ar = .found mid k → (mid, none) ∈ mods) ∧
    (callMod mm (importedOf mods) m name ar = .found mid k → (mid, some m) ∈ mods) := by
  constructor
  · intro h
    have := (callIncludedRev_found mm name ar _ mid k h).1
    exact (includedOf_mem mods mid).mp (List.mem_reverse.mp this)
  · intro h
    exact (importedOf_mem mods mid m).mp (callMod_found mm _ m name ar mid k h).1

/-- A module cannot see the module that loads it (nor any module it does not name): if the
    header refers only to smaller indices (true after `load`: `loaded_graph_is_acyclic`), a call
    resolves to a module with a smaller index, `mod_map[mid]` is never out of range, and the
    result is the same whatever the definitions of all other modules — the loader's included —
    are. -/
theorem module_cannot_see_loader (mm mm' : List (List Sig)) (mods : List (Nat × Option String)) (cur : Nat)
    (hsmall : ∀ e ∈ mods, e.1 < cur) (hcur : cur ≤ mm.length)
    (hagree : ∀ i, i < cur → mm[i]? = mm'[i]?) (name : String) (ar : Nat) :
    callIncluded mm (includedOf mods) name ar = callIncluded mm' (includedOf mods) name ar ∧
    callIncluded mm (includedOf mods) name ar ≠ .oob ∧
    (∀ mid k, callIncluded mm (includedOf mods) name ar = .found mid k → mid < cur) := by
  have hinc : ∀ i ∈ (includedOf mods).reverse, i < cur := by
    intro i hi
    exact hsmall (i, none) ((includedOf_mem mods i).mp (List.mem_reverse.mp hi))
  refine ⟨?_, ?_, ?_⟩
  · exact callIncludedRev_congr mm mm' name ar _ (fun i hi => hagree i (hinc i hi))
  · exact callIncludedRev_no_oob mm name ar _ (fun i hi => Nat.lt_of_lt_of_le (hinc i hi) hcur)
  · intro mid k h
    exact hinc mid (callIncludedRev_found mm name ar _ mid k h).1

/-- One look-up step of the inlining refinement: resolving an unqualified call through the
    include list of the module (the loop over `included_mods` of `Compiler::call`) finds the
    same definition as ordinary lexical scoping does in the single program in which the
    includes are replaced, in their order, by the definitions they bring in.
    (`_partial`: one step; the simulation over whole programs is checked on the real code.) -/
theorem resolve_modules_eq_resolve_inlined_partial (mm : List (List Sig)) (inc : List Nat)
    (hin : ∀ i ∈ inc, i < mm.length) (name : String) (ar : Nat) :
    callIncluded mm inc name ar = lookupOf (lexical (broughtIn mm inc) name ar) := by
  have := resolve_rev mm name ar inc.reverse (fun i hi => hin i (List.mem_reverse.mp hi))
  simpa [callIncluded] using this

example : callIncluded [[⟨"f", 0⟩], [⟨"f", 0⟩, ⟨"g", 1⟩, ⟨"f", 0⟩], [⟨"g", 1⟩]] [0, 1, 2] "f" 0 = .found 1 2 := by decide
example : lexical (broughtIn [[⟨"f", 0⟩], [⟨"f", 0⟩, ⟨"g", 1⟩, ⟨"f", 0⟩], [⟨"g", 1⟩]] [0, 1, 2]) "f" 0 = some (1, 2) := by
  decide

/-! ## Whole programs -/

/-- **The module system computes what the inlined program computes.**  For EVERY acyclic module
    graph (any number of modules, diamonds, one module included and imported, name clashes,
    data imports in any module, command-line variables) and every main program of the probe
    language (calls, qualified calls, variables, `as`/`label`/`def` binders, `$`- and filter
    parameters, calls from under binders, recursion): whenever the modular evaluator — per-module
    definition tables, `included_mods` / `imported_mods` loops, `call_mod_id`, variables found
    by module index among `imported_vars` and then `global_vars` — yields `v`, so does the
    single lexically scoped program in which every `include`/`import` is replaced by the
    definitions it brings in (`runLexical`: no module tables, innermost binding wins), with the
    same fuel.  Since both are deterministic, whenever both yield a value it is the same. -/
theorem run_modules_eq_run_inlined {S : Type} (g : Graph S) (vv : VarVals) (hac : Acyclic g) (v : V)
    (h : runGraph g vv = .ok v) : runLexical g vv = .ok v := by
  unfold runGraph at h
  unfold runLexical
  cases hl : g.mods.getLast? with
  | none => simp [hl] at h
  | some m =>
    simp only [hl] at h ⊢
    cases hm : m.body.main with
    | none => simp [hm] at h
    | some t =>
      simp only [hm] at h ⊢
      have hne : g.mods ≠ [] := by intro hn; simp [hn] at hl
      have hcur : g.cur < g.mods.length := by
        have := List.length_pos_iff.mpr hne
        unfold Graph.cur; omega
      exact eval_sim g vv hac evalFuel g.cur _ _ t v (REnv.base g.cur m.body.defs.length g.mods.length hcur) h

/-- the same inside any scope: a term of module `mid` read under the same local binders in both
    worlds (any fuel) -/
theorem eval_modules_eq_eval_inlined {S : Type} (g : Graph S) (vv : VarVals) (hac : Acyclic g)
    (fuel mid : Nat) (env : List Entry) (lenv : List LEntry) (hr : REnv g vv mid env lenv) (t : Tm) (v : V)
    (h : eval g vv fuel mid env t = .ok v) : evalL fuel lenv t = .ok v :=
  eval_sim g vv hac fuel mid env lenv t v hr h

/-- what `load` hands to the compiler is acyclic, so the theorem above applies to every program
    the loader accepts: for ALL readers, if `load` succeeds the modular run and the inlined run
    agree -/
theorem loaded_run_modules_eq_run_inlined {P S : Type} [BEq P] [LawfulBEq P] (read : Reader P S Body) (fuel : Nat)
    (dflt : P) (prelude : Body) (mainPath : P) (mainSrc : Src S Body) (st : LState P S Body)
    (deps : List (P × Module S Body)) (main : P × Module S Body)
    (hload : load read fuel dflt prelude mainPath mainSrc = some (st, .ok deps main))
    (globals : List String) (vv : VarVals) (v : V)
    (h : runGraph (graphOf deps main globals) vv = .ok v) : runLexical (graphOf deps main globals) vv = .ok v := by
  obtain ⟨_, h2, h3⟩ := loaded_graph_is_acyclic read fuel dflt prelude mainPath mainSrc st deps main hload
  apply run_modules_eq_run_inlined _ vv _ v h
  intro mid e he
  unfold headerOf graphOf at he
  simp only [List.map_append, List.map_cons, List.map_nil] at he
  by_cases hm : mid < deps.length
  · rw [List.getElem?_append_left (by simpa using hm), List.getElem?_map] at he
    cases hd : deps[mid]? with
    | none => simp [hd] at he
    | some pm =>
      simp only [hd, Option.map_some, Option.getD_some] at he
      exact h2 mid pm.1 pm.2 hd e he
  · rw [List.getElem?_append_right (by simpa using hm)] at he
    by_cases hm2 : mid = deps.length
    · subst hm2
      simp only [List.length_map, Nat.sub_self, List.getElem?_cons_zero, Option.map_some, Option.getD_some] at he
      exact h3 e he
    · have hlen : (deps.map (·.2)).length = deps.length := by simp
      rw [hlen] at he
      have : mid - deps.length ≠ 0 := by omega
      obtain ⟨j, hj⟩ := Nat.exists_eq_succ_of_ne_zero this
      rw [hj] at he
      simp at he

/-- a concrete instance with everything in it: `b` has a data import `$d` and a definition `h`;
    `a` includes `b`; main imports `a` as `m`, includes `b`, has its own data import `$d` and a
    global `$g`; main calls `m::f` from under a binder `$d`: the hypotheses hold and the result
    is `[[["B","G"],"local"],["B","G"],"G"]` -/
def exampleGraph : Graph String :=
  let b : Module String Body := ⟨[(0, none)], [("db", "$d")], ⟨[.mk "h" [] (.arr [.var "$d", .var "$g"])], none⟩⟩
  let a : Module String Body := ⟨[(0, none), (1, none)], [], ⟨[.mk "f" [.var "$x"] (.arr [.call "h" [], .var "$x"])], none⟩⟩
  let mn : Module String Body := ⟨[(0, none), (2, some "m"), (1, none)], [("dm", "$d")],
    ⟨[], some (.bind (.tag "local") "$d" (.arr [.qcall "m" "f" [.var "$d"], .call "h" [], .var "$g"]))⟩⟩
  { mods := [⟨[], [], ⟨[], none⟩⟩, b, a, mn], globals := ["$g"] }

example : Acyclic exampleGraph ∧
    runGraph exampleGraph { imported := [.tag "B", .tag "M"], globals := [.tag "G"] } =
      .ok (.arr [.arr [.arr [.tag "B", .tag "G"], .tag "local"], .arr [.tag "B", .tag "G"], .tag "G"]) := by
  refine ⟨?_, by rfl⟩
  intro mid e he
  match mid with
  | 0 => simp [headerOf, exampleGraph] at he
  | 1 => simp [headerOf, exampleGraph] at he; subst he; decide
  | 2 => simp [headerOf, exampleGraph] at he; rcases he with rfl | rfl <;> decide
  | 3 => simp [headerOf, exampleGraph] at he; rcases he with rfl | rfl | rfl <;> decide
  | n + 4 => simp [headerOf, exampleGraph] at he

end Jaq.C16
