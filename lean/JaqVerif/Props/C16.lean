import JaqVerif.C16.Load
import JaqVerif.C16.Search
import JaqVerif.C16.Inline

namespace Jaq.C16

/-- F-16 witness: `include "m.txt";` looks for `m.jq` -/
theorem extension_replaced_witness :
    setExtension (parsePath "m.txt".toList) "jq".toList = parsePath "m.jq".toList := by decide

end Jaq.C16
