/-
  C15 (continued) — the documented shorthand forms, bindings and postfix operators on schematic
  token lists, and rejection.  Separate from Props/C15.lean so that a change of the generated
  operator matrix does not force these (slow) evaluations to be redone.
-/
import JaqVerif.C15.Parse
import JaqVerif.C15.Print
import JaqVerif.Lemmas.C15Print

namespace Jaq.C15

/-! ## 5. Shorthand forms (token level, schematic in names, strings and numbers) -/

/-- `.k`, `."k"` and `.["k"]` are the same program -/
theorem sugar_dot_ident (k : Str) (hk : k ≠ []) (hk2 : k ≠ ['.']) :
    parseToks [.sym ('.' :: k)] = some (.path .id [(.index (.str none [.lit k]), false)]) ∧
    parseToks [.sym ['.'], .str [.lit k]] = parseToks [.sym ('.' :: k)] ∧
    parseToks [.sym ['.'], .block '[' [.str [.lit k], .sym [']']]] = parseToks [.sym ('.' :: k)] := by
  refine ⟨?_, ?_, ?_⟩ <;> parse_eval

/-- `.a.b` is `.["a"]["b"]`: one path with two parts -/
theorem sugar_dot_chain (a b : Str) (ha : a ≠ []) (ha2 : a ≠ ['.']) (hb : b ≠ []) (hb2 : b ≠ ['.']) :
    parseToks [.sym ('.' :: a), .sym ('.' :: b)]
      = some (.path .id [(.index (.str none [.lit a]), false), (.index (.str none [.lit b]), false)]) ∧
    parseToks [.sym ['.'], .block '[' [.str [.lit a], .sym [']']], .block '[' [.str [.lit b], .sym [']']]]
      = parseToks [.sym ('.' :: a), .sym ('.' :: b)] := by
  refine ⟨?_, ?_⟩ <;> parse_eval

/-- `f[]`: iteration as a path suffix of the call -/
theorem sugar_iter (f : Str) (hf : isAtomKeyword f = false) :
    parseToks [.word f, .block '[' [.sym [']']]] = some (.path (.call f []) [(.range none none, false)]) := by
  parse_eval

/-- `f?` is `try f` (same AST) -/
theorem sugar_opt (f : Str) (hf : isAtomKeyword f = false) :
    parseToks [.word f, .sym ['?']] = some (.tryCatch (.call f []) none) ∧
    parseToks [.word (kw "try"), .word f] = parseToks [.word f, .sym ['?']] := by
  refine ⟨?_, ?_⟩ <;> parse_eval

/-- `try f` without `catch`, and with -/
theorem sugar_try (f g : Str) (hf : isAtomKeyword f = false) (hg : isAtomKeyword g = false) :
    parseToks [.word (kw "try"), .word f] = some (.tryCatch (.call f []) none) ∧
    parseToks [.word (kw "try"), .word f, .word (kw "catch"), .word g]
      = some (.tryCatch (.call f []) (some (.call g []))) := by
  refine ⟨?_, ?_⟩ <;> parse_eval

/-- `..` -/
theorem sugar_recurse : parseToks [.sym ['.', '.']] = some .recurse := by
  parse_eval

/-- `{a}` and `{$x}`: entries without value (expanded to `{"a": .a}`, `{"x": $x}` by the compiler) -/
theorem sugar_obj_short (a x : Str) (ha : containsColons a = false) :
    parseToks [.block '{' [.word a, .sym ['}']]] = some (.obj [(.str none [.lit a], none)]) ∧
    parseToks [.block '{' [.var ('$' :: x), .sym ['}']]] = some (.obj [(.var ('$' :: x), none)]) := by
  refine ⟨?_, ?_⟩ <;> parse_eval

/-- keyword-named (any identifier-like) keys: `{w: n}` is `{"w": n}` -/
theorem sugar_keyword_key (w n : Str) (hw : containsColons w = false) :
    parseToks [.block '{' [.word w, .sym [':'], .num ('0' :: n), .sym ['}']]]
      = some (.obj [(.str none [.lit w], some (.num ('0' :: n)))]) ∧
    parseToks [.block '{' [.str [.lit w], .sym [':'], .num ('0' :: n), .sym ['}']]]
      = parseToks [.block '{' [.word w, .sym [':'], .num ('0' :: n), .sym ['}']]] := by
  refine ⟨?_, ?_⟩ <;> parse_eval

/-- `{"a\(f)": v}`: an interpolated string as key -/
theorem sugar_interp_key (a f v : Str) (hf : isAtomKeyword f = false) :
    parseToks [.block '{' [.str [.lit a, .interp (.block '(' [.word f, .sym [')']])], .sym [':'], .num ('0' :: v), .sym ['}']]]
      = some (.obj [(.str none [.lit a, .term (.call f [])], some (.num ('0' :: v)))]) := by
  parse_eval

/-- `{(k): v}`: a parenthesised term as key; `{(k): v, (l): w}` -/
theorem sugar_paren_key (k v : Str) (hk : isAtomKeyword k = false) :
    parseToks [.block '{' [.block '(' [.word k, .sym [')']], .sym [':'], .num ('0' :: v), .sym ['}']]]
      = some (.obj [(.call k [], some (.num ('0' :: v)))]) := by
  parse_eval

/-- `if … elif … else … end` is one `IfThenElse` with two branches -/
theorem sugar_elif (a b c d e : Str) :
    parseToks [.word (kw "if"), .num ('0' :: a), .word (kw "then"), .num ('0' :: b), .word (kw "elif"), .num ('0' :: c), .word (kw "then"), .num ('0' :: d),
               .word (kw "else"), .num ('0' :: e), .word (kw "end")]
      = some (.ite [(.num ('0' :: a), .num ('0' :: b)), (.num ('0' :: c), .num ('0' :: d))] (some (.num ('0' :: e)))) := by
  parse_eval

/-- `if … then … end`: missing `else` -/
theorem sugar_missing_else (a b : Str) :
    parseToks [.word (kw "if"), .num ('0' :: a), .word (kw "then"), .num ('0' :: b), .word (kw "end")]
      = some (.ite [(.num ('0' :: a), .num ('0' :: b))] none) := by
  parse_eval

/-- `"x\(f)y"` -/
theorem sugar_interpolation (x y f : Str) (hf : isAtomKeyword f = false) :
    parseToks [.str [.lit x, .interp (.block '(' [.word f, .sym [')']]), .lit y]]
      = some (.str none [.lit x, .term (.call f []), .lit y]) := by
  parse_eval

/-- `@fmt "x\(f)"` -/
theorem sugar_fmt_str (fmt x f : Str) (hf : isAtomKeyword f = false) :
    parseToks [.fmt ('@' :: fmt), .str [.lit x, .interp (.block '(' [.word f, .sym [')']])]]
      = some (.str (some ('@' :: fmt)) [.lit x, .term (.call f [])]) := by
  parse_eval

set_option maxHeartbeats 2000000 in
/-- `def f($x): $x; f(n)`: variable arguments are kept in the argument list -/
theorem sugar_def_var_arg (f x n : Str) (hf : containsColons f = false) (hx : containsColons x = false)
    (hf' : isAtomKeyword f = false) :
    parseToks [.word (kw "def"), .word f, .block '(' [.var ('$' :: x), .sym [')']], .sym [':'], .var ('$' :: x), .sym [';'],
               .word f, .block '(' [.num ('0' :: n), .sym [')']]]
      = some (.defs [.mk f ['$' :: x] (.var ('$' :: x))] (.call f [.num ('0' :: n)])) := by
  parse_eval

/-- array and object patterns: `n as [$x, {k: $y, $z}] | $x` -/
theorem sugar_patterns (n x y z k : Str) (hk : containsColons k = false) :
    parseToks [.num ('0' :: n), .word ['a', 's'],
               .block '[' [.var ('$' :: x), .sym [','], .block '{' [.word k, .sym [':'], .var ('$' :: y), .sym [','], .var ('$' :: z), .sym ['}']], .sym [']']],
               .sym ['|'], .var ('$' :: x)]
      = some (.binop (.num ('0' :: n))
          (.pipe (some (.arr [.var ('$' :: x), .obj [(.str none [.lit k], .var ('$' :: y)), (.str none [.lit z], .var ('$' :: z))]])))
          (.var ('$' :: x))) := by
  parse_eval

/-- `reduce`/`foreach` with 2 and 3 arguments -/
theorem sugar_fold (xs x a b c : Str) :
    parseToks [.word (kw "reduce"), .num ('0' :: xs), .word ['a', 's'], .var ('$' :: x), .block '(' [.num ('0' :: a), .sym [';'], .num ('0' :: b), .sym [')']]]
      = some (.fold (kw "reduce") (.num ('0' :: xs)) (.var ('$' :: x)) [.num ('0' :: a), .num ('0' :: b)]) ∧
    parseToks [.word (kw "foreach"), .num ('0' :: xs), .word ['a', 's'], .var ('$' :: x),
               .block '(' [.num ('0' :: a), .sym [';'], .num ('0' :: b), .sym [';'], .num ('0' :: c), .sym [')']]]
      = some (.fold (kw "foreach") (.num ('0' :: xs)) (.var ('$' :: x)) [.num ('0' :: a), .num ('0' :: b), .num ('0' :: c)]) := by
  refine ⟨?_, ?_⟩ <;> parse_eval

/-! ## 6. Bindings extend to the right; postfix binds tighter than prefix `-` -/

/-- `a as $x | b | c` is `a as $x | (b | c)`, and `a , b as $x | c` is `a , (b as $x | c)` -/
theorem as_extends_right_tokens (a b c x : Str) :
    parseToks [.num ('0' :: a), .word ['a', 's'], .var ('$' :: x), .sym ['|'], .num ('0' :: b), .sym ['|'], .num ('0' :: c)]
      = parseToks [.num ('0' :: a), .word ['a', 's'], .var ('$' :: x), .sym ['|'], .block '(' [.num ('0' :: b), .sym ['|'], .num ('0' :: c), .sym [')']]] ∧
    parseToks [.num ('0' :: a), .word ['a', 's'], .var ('$' :: x), .sym ['|'], .num ('0' :: b), .sym ['|'], .num ('0' :: c)]
      = some (.binop (.num ('0' :: a)) (.pipe (some (.var ('$' :: x)))) (.binop (.num ('0' :: b)) (.pipe none) (.num ('0' :: c)))) ∧
    parseToks [.num ('0' :: a), .sym [','], .num ('0' :: b), .word ['a', 's'], .var ('$' :: x), .sym ['|'], .num ('0' :: c)]
      = some (.binop (.num ('0' :: a)) .comma (.binop (.num ('0' :: b)) (.pipe (some (.var ('$' :: x)))) (.num ('0' :: c)))) := by
  refine ⟨?_, ?_, ?_⟩ <;> parse_eval

/-- `-f?` is `-(f?)`, `-f[]` is `-(f[])`, `-f.k` is `-(f.k)` -/
theorem postfix_binds_tighter_than_neg (f k : Str) (hf : isAtomKeyword f = false) (hk : k ≠ []) (hk2 : k ≠ ['.']) :
    parseToks [.sym ['-'], .word f, .sym ['?']] = some (.neg (.tryCatch (.call f []) none)) ∧
    parseToks [.sym ['-'], .word f, .block '[' [.sym [']']]]
      = some (.neg (.path (.call f []) [(.range none none, false)])) ∧
    parseToks [.sym ['-'], .word f, .sym ('.' :: k)]
      = some (.neg (.path (.call f []) [(.index (.str none [.lit k]), false)])) ∧
    parseToks [.sym ['-'], .word f, .sym ['?']]
      = parseToks [.sym ['-'], .block '(' [.word f, .sym ['?'], .sym [')']]] := by
  refine ⟨?_, ?_, ?_, ?_⟩ <;> parse_eval

/-! ## 7. Anything else is rejected -/

/-- left-over tokens are an error (`Expect::Nothing`), never silently dropped -/
theorem rejects_leftover (toks : List Token) (t : Term) (r : List Token)
    (h : term (parseFuel toks) toks = some (t, r)) (hr : r ≠ []) : parseToks toks = none := by
  unfold parseToks
  rw [h]
  cases r with
  | nil => exact absurd rfl hr
  | cons a r => cases r <;> simp [verifyLast]

/-- schematic rejections: two terms side by side, an operator without operand, `else` without
`if`, symbols that are no operators (`=!`, `;`, `:`), the empty program -/
theorem rejects_else_partial (a b : Str) :
    parseToks [.num ('0' :: a), .num ('0' :: b)] = none ∧
    parseToks [.num ('0' :: a), .sym ['+']] = none ∧
    parseToks [.sym ['+'], .num ('0' :: a)] = none ∧
    parseToks [.num ('0' :: a), .word (kw "else"), .num ('0' :: b)] = none ∧
    parseToks [.num ('0' :: a), .sym ['=', '!'], .num ('0' :: b)] = none ∧
    parseToks [.num ('0' :: a), .sym [';'], .num ('0' :: b)] = none ∧
    parseToks [.num ('0' :: a), .sym [':']] = none ∧
    parseToks [] = none := by
  refine ⟨?_, ?_, ?_, ?_, ?_, ?_, ?_, ?_⟩ <;> parse_eval
/- Full statement (not proved): `parseToks toks = some t → Derives toks t` for a declarative
   grammar `Derives` of the manual (soundness of the model parser w.r.t. the grammar); the
   rejection side is exercised by the correspondence on token soups and mutated examples. -/

end Jaq.C15
