import JaqVerif.Core.Machine
import JaqVerif.Core.Fragment
namespace Jaq.Core
theorem placeholder_c01 : True := trivial
end Jaq.Core
