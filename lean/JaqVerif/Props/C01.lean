/-
  C01 — compiled filters compute exactly the jq semantics the manual defines.

  Specification: `Core/Sem.lean`  (`eval n L ρ t v`, named scopes, closures, fuel `n`).
  Implementation model: `Core/Compile.lean` (`compile`) + `Core/Machine.lean` (`run`, `runProg`).
  `Pre o o'` (Lemmas/C01Out.lean): `o'` equals `o` if `o` did not run out of fuel, otherwise the
  values of `o` are a prefix of those of `o'`.
  `cfgF` = the Machine with `cartesian` as the manual prescribes (`MCfg.cartDropsErr = false`;
  the code as written drops an error of the left operand when the right operand is empty —
  finding reported by checks/c01.py, repair in design/fixes/C01-cartesian-left-error.diff).
  `inFragment` (Core/Fragment.lean) = the binder core (stage A of DESIGN §6 C01).

  FULL STATEMENTS (not yet proved; the proved parts below are named `…_partial`):

    theorem run_refines_eval (t : Term) (v : Val) (prelude : List Def) :
      ∀ n, ∃ m, ∀ m' ≥ m, Pre (eval n 0 (preludeEnv prelude) t v)
                               (runProg cfgF (compile c01Natives prelude t) m' v)
    -- for every term of the language (objects, patterns, paths, interpolation, `..`, prelude
    -- calls, updates via C02) and with the computed `CallType`s executed by the trampoline
    -- (`tco_invisible`, stage C), not inline.

    theorem run_refined_by_eval …   -- the converse direction (roles of `eval` and `run` exchanged)

    theorem compile_tr_subset (t : Term) cx loc tr st : ∀ x ∈ (term cx loc tr t st).2.1, x ∈ tr
    -- for every term (proved below for the fragment; all other constructors return `[]`
    -- syntactically, except `foreach`'s projection with a destructuring pattern and `elif` chains)
-/
import JaqVerif.Lemmas.C01Main
import JaqVerif.Lemmas.C01Tr

namespace Jaq.Core
open Jaq

/-! ## lookup: names resolve to the lexically nearest binding (`envRel_lookup`) -/

/-- A variable that the scope finds (nearest binding first) is compiled to the relative index
at which the run-time environment holds exactly that value; an unbound one is a compile error.
`Rel` is preserved by every binder (`Rel.v`, `Rel.l`, `Rel.a`, `Rel.sib`, `Rel.par`, `defs_rel`,
`args_sim`). -/
theorem envRel_lookup_var {tabf σ loc e} (h : Rel tabf σ loc e) (x : String) (st : St) :
    match findVar σ x with
    | some w => ∃ i, (varC loc x st).1 = .var i ∧ e[i]? = some (.val w) ∧ (varC loc x st).2 = st
    | none => (varC loc x st) = (.id, st.fail x) := by
  have hl := findVar_rel h x
  cases hf : findVar σ x with
  | none => rw [hf] at hl; simp only at hl ⊢; simp [varC, hl]
  | some w =>
    rw [hf] at hl; simp only at hl ⊢
    obtain ⟨pos, h1, _, _, h4⟩ := hl
    exact ⟨loc.total - pos, by simp [varC, h1], h4, by simp [varC, h1]⟩

/-- the same for labels: `break $x` reaches the number bound by the nearest `label $x` -/
theorem envRel_lookup_label {tabf σ loc e} (h : Rel tabf σ loc e) (x : String) (st : St) :
    match findLabel σ x with
    | some n => ∃ i, (breakC loc x st).1 = .var i ∧ e[i]? = some (.lbl n)
    | none => (breakC loc x st) = (.id, st.fail x) := by
  have hl := findLabel_rel h x
  cases hf : findLabel σ x with
  | none => rw [hf] at hl; simp only at hl ⊢; simp [breakC, hl]
  | some w =>
    rw [hf] at hl; simp only at hl ⊢
    obtain ⟨pos, h1, _, _, h4⟩ := hl
    exact ⟨loc.total - pos, by simp [breakC, h1], h4⟩

/-- the same for callables: a filter argument is compiled to the index of its closure (term and
captured environment related to the scope it was written in); a definition — sibling or parent,
whatever the call type — to its body, with `skip` leading to the environment of its definition. -/
theorem envRel_lookup_call {tabf σ loc e} (h : Rel tabf σ loc e) (f : String) (ids : List TermId) (tr : Tr) :
    match findCall σ f ids.length with
    | some (.arg t σ') => ∃ i id loc' e', loc.call f ids tr = some (.var i, []) ∧ e[i]? = some (.fn id e') ∧
        Rel tabf σ' loc' e' ∧ CompiledI tabf loc' t id
    | some (.defn d σ') => ∃ id skip ct tr' loc', loc.call f ids tr =
          some (.callDef id (Locals.binds (sigOf d.params) ids) skip ct, tr') ∧
        Rel tabf σ' loc' (e.drop skip) ∧ DefOK tabf d loc' id
    | none => loc.call f ids tr = none := by
  have hl := findCall_rel h f ids.length
  unfold LookupOK at hl
  cases hf : findCall σ f ids.length with
  | none => rw [hf] at hl; simp only at hl ⊢; simp [Locals.call, hl]
  | some cl =>
    rw [hf] at hl
    cases cl with
    | arg t σ' =>
      obtain ⟨pos, id, loc', e', h1, _, _, h4, h5, h6⟩ := hl
      exact ⟨loc.total - pos, id, loc', e', by simp [Locals.call, h1], h4, h5, h6.1⟩
    | defn d σ' =>
      obtain ⟨fe, vars, id, loc', h1, h2, _, _, h5, h6, _⟩ := hl
      obtain ⟨ct, tr'', hcall⟩ := call_defn (tr := tr) h1 h2
      exact ⟨id, loc.total - vars, ct, tr'', loc', hcall, h5, h6⟩

/-! ## the main refinement -/

/-- **Main refinement, fragment A** (prefix form, no termination hypothesis): whatever the
definitional semantics delivers with fuel `n` — a complete outcome (values ended by `done`, an
error, a break, a halt) or the prefix computed before the fuel ran out — the compiled program
delivers with enough fuel: complete outcomes identical, prefixes extended. -/
theorem run_refines_eval_partial (t : Term) (h : inFragment t = true) (v : Val) :
    ∀ n, ∃ m, ∀ m' ≥ m, Pre (eval n 0 [] t v) (runProg cfgF (compile c01Natives [] t) m' v) := by
  intro n
  have hI : CompiledI (it cxMain {} [] t {}).2.2.terms {} t (it cxMain {} [] t {}).1 :=
    compiledI_it h (Ext.refl _) (Nat.le_refl _) (fun _ _ _ => rfl)
  exact simI_of_simT (sim _ n) 0 [] {} [] t v _ h Rel.nil hI

/-- complete outcomes are reproduced exactly -/
theorem run_eq_eval_of_complete_partial (t : Term) (h : inFragment t = true) (v : Val) (n : Nat)
    (hc : (eval n 0 [] t v).stop ≠ .fuel) :
    ∃ m, ∀ m' ≥ m, runProg cfgF (compile c01Natives [] t) m' v = eval n 0 [] t v := by
  obtain ⟨m, hm⟩ := run_refines_eval_partial t h v n
  exact ⟨m, fun m' hm' => (hm m' hm').1 hc⟩

/-- the invariant form used by the induction: any related scope / locals / environment, any
label counter, any sub-term compiled into the final table -/
theorem sim_invariant_partial (tabf : List CTerm) (n L : Nat) (σ : Env) (loc : Locals) (e : MEnv) (t : Term)
    (v : Val) (id : TermId) (h : inFragment t = true) (hrel : Rel tabf σ loc e) (hc : CompiledI tabf loc t id) :
    ∃ m, ∀ m' ≥ m, Pre (eval n L σ t v) (run cfgF tabf m' L e id v) :=
  simI_of_simT (sim tabf n) L σ loc e t v id h hrel hc

/-- the frame property of the compiler: it only appends to the table -/
theorem compile_appends_partial (t : Term) (h : inFragment t = true) (cx : Cx) (loc : Locals) (tr : Tr) (st : St) :
    ∃ s, (term cx loc tr t st).2.2.terms = st.terms ++ s :=
  term_ext h cx loc tr st

/-- the set of tail calls a compiled term may return is a subset of the set it was allowed
(`debug_assert!(tr_.is_subset(tr))` in `iterm_tr`), for every term of the fragment, every
compile context, locals and table -/
theorem compile_tr_subset_partial (t : Term) (h : inFragment t = true) (cx : Cx) (loc : Locals) (tr : Tr) (st : St) :
    ∀ x ∈ (term cx loc tr t st).2.1, x ∈ tr :=
  tr_subset_aux (sizeOf t + 1) t (by omega) h cx loc tr st

/-! ## corollaries -/

/-- `f op g` behaves as `f as $x | g as $y | $x op $y`: `f` is the outer loop, `g` the inner one,
an error of `f` or `g` ends the stream where the nested binding would raise it. -/
theorem math_cartesian_order (l r : Term) (op : MathOp) (hl : inFragment l = true) (hr : inFragment r = true)
    (v : Val) (n : Nat) :
    ∃ m, ∀ m' ≥ m, Pre (cartSem (eval n 0 [] l v) (fun _ => eval n 0 [] r v) (mathOp op))
      (runProg cfgF (compile c01Natives [] (.binop l (.math op) r)) m' v) := by
  have := run_refines_eval_partial (.binop l (.math op) r) (by simp [inFragment, Bop.inFragment, hl, hr]) v (n+1)
  rw [eval] at this
  exact this

/-- the definitional semantics itself says the same as the explicit nested bindings (fresh names) -/
theorem math_is_nested_binding (l r : Term) (op : MathOp) (ρ : Env) (v : Val) (n L : Nat) :
    eval (n+3) L ρ (.binop l (.math op) r) v =
      cartSem (eval (n+2) L ρ l v) (fun _ => eval (n+2) L ρ r v) (mathOp op) := by
  rw [eval]

/-- shadowing: the nearest binding wins, in the semantics … -/
theorem shadowing_nearest (x : String) (w : Val) (ρ : Env) : findVar (.var x w :: ρ) x = some w := by
  simp [findVar]

/-- … and in the compiled program: `w1 as $x | w2 as $x | $x` yields the inner value -/
theorem shadowing_nearest_compiled (a b : String) (v : Val) :
    ∃ m, ∀ m' ≥ m, runProg cfgF (compile c01Natives []
        (.pipe (.num a) (some (.var "$x")) (.pipe (.num b) (some (.var "$x")) (.var "$x")))) m' v
      = .done [numLit b] := by
  obtain ⟨m, hm⟩ := run_eq_eval_of_complete_partial
    (.pipe (.num a) (some (.var "$x")) (.pipe (.num b) (some (.var "$x")) (.var "$x"))) (by simp [inFragment]) v 3
    (by simp [eval, bindPat, OutG.bind, OutG.done, findVar])
  refine ⟨m, fun m' hm' => ?_⟩
  rw [hm m' hm']
  simp [eval, bindPat, OutG.bind, OutG.done, findVar]

/-- a filter argument is evaluated in the scope of the *call site*, not of the place where the
parameter is used -/
theorem closure_captures_definition_env (n L : Nat) (ρ ρ' : Env) (p : String) (t : Term) (v : Val) :
    eval (n+1) L (.arg p t ρ' :: ρ) (.call p []) v = eval n L ρ' t v := by
  rw [eval]; simp [findCall]

/-! ## non-vacuity: concrete programs inside the fragment -/

/-- two binders on either side of a definition boundary:
`def f(g): g, (10 as $x | g + $x); 1 as $y | f($y + .)` -/
def exBinders : Term :=
  .defs [.mk "f" ["g"] (.binop (.call "g" []) .comma
      (.pipe (.num "10") (some (.var "$x")) (.binop (.call "g" []) (.math .add) (.var "$x"))))]
    (.pipe (.num "1") (some (.var "$y")) (.call "f" [.binop (.var "$y") (.math .add) .id]))

/-- a closure invoked under a deeper label, a `$`-parameter bound as a cartesian product, a
recursive definition: `label $out | def h($x): $x, if $x then break $out else h(1) end;
try (h(0, 1), 99) catch (. + 1000)` -/
def exLabel : Term :=
  .label "$out" (.defs [.mk "h" ["$x"] (.binop (.var "$x") .comma
      (.ite [(.var "$x", .brk "$out")] (some (.call "h" [.num "1"]))))]
    (.tryCatch (.binop (.call "h" [.binop (.num "0") .comma (.num "1")]) .comma (.num "99"))
      (some (.binop .id (.math .add) (.num "1000")))))

/-- a non-commutative operator with two multi-valued operands: `(1, 2) - (10, 20)` -/
def exCart : Term := .binop (.binop (.num "1") .comma (.num "2")) (.math .sub) (.binop (.num "10") .comma (.num "20"))

example : inFragment exBinders = true := by decide
example : inFragment exLabel = true := by decide
example : inFragment exCart = true := by decide

end Jaq.Core
