/-
  C01 — compiled filters compute exactly the jq semantics the manual defines.

  Specification: `Core/Sem.lean`  (`eval n L ρ t v`, named scopes, closures, fuel `n`).
  Implementation model: `Core/Compile.lean` (`compile`) + `Core/Machine.lean` (`run`, `runProg`).
  `Pre o o'` (Lemmas/C01Out.lean): `o'` equals `o` if `o` did not run out of fuel, otherwise the
  values of `o` are a prefix of those of `o'`.
  `cfgF` = the Machine with `cartesian` / `Path::combinations` as the manual prescribes
  (`MCfg.cartDropsErr = pathDropsErr = false`; /repo has the repair of `cartesian`; the path
  variant `.[error][empty]` is an open known finding reported by checks/c01.py).
  `inFragment pe` (Core/Fragment.lean) = stages A and B of DESIGN §6 C01: everything except
  `@format` strings, updates, module-qualified names; `pe` = compiled together with the prelude
  definition `def !empty: {}[];` (needed by `[]` and `try f`).

  FULL STATEMENTS (not yet proved; the proved parts below are named `…_partial`):

    theorem run_refines_eval (t : Term) (v : Val) (prelude : List Def) :
      ∀ n, ∃ m, ∀ m' ≥ m, Pre (eval n 0 (preludeEnv prelude) t v)
                               (runProg cfgF (compile c01Natives prelude t) m' v)
    -- for every term of the language (also `@format`, updates via C02), for an arbitrary prelude
    -- (calls reaching module 0), and with the computed `CallType`s executed by the trampoline
    -- (`tco_invisible`, stage C), not inline.

    theorem run_refined_by_eval …   -- the converse direction (roles of `eval` and `run` exchanged)

    theorem tco_invisible …         -- stage C: `run` with Throw/CatchOne/CatchAll executed by the trampoline
                                    -- equals `run` with every call inline.  Proved so far: the compile-time half
                                    -- (`compile_tr_subset`, `throw_only_towards_enclosing_def`,
                                    -- `no_throw_outside_tail_position`); the Machine executes all call types inline.

  Round 2: `compile_tr_subset` and `compile_appends` are now proved for EVERY term (no fragment
  hypothesis); their `_partial` forms are kept as corollaries.
-/
import JaqVerif.Lemmas.C01Main
import JaqVerif.Lemmas.C01Tr

namespace Jaq.Core
open Jaq

/-! ## lookup: names resolve to the lexically nearest binding (`envRel_lookup`) -/

/-- A variable that the scope finds (nearest binding first) is compiled to the relative index
at which the run-time environment holds exactly that value; an unbound one is a compile error.
`Rel` is preserved by every binder (`Rel.v`, `Rel.l`, `Rel.a`, `Rel.sib`, `Rel.par`, `defs_rel`,
`args_sim`). -/
theorem envRel_lookup_var {pe tabf σ loc e} (h : Rel pe tabf σ loc e) (x : String) (st : St) :
    match findVar σ x with
    | some w => ∃ i, (varC loc x st).1 = .var i ∧ e[i]? = some (.val w) ∧ (varC loc x st).2 = st
    | none => (varC loc x st) = (.id, st.fail x) := by
  have hl := findVar_rel h x
  cases hf : findVar σ x with
  | none => rw [hf] at hl; simp only at hl ⊢; simp [varC, hl]
  | some w =>
    rw [hf] at hl; simp only at hl ⊢
    obtain ⟨pos, h1, _, _, h4⟩ := hl
    exact ⟨loc.total - pos, by simp [varC, h1], h4, by simp [varC, h1]⟩

/-- the same for labels: `break $x` reaches the number bound by the nearest `label $x` -/
theorem envRel_lookup_label {pe tabf σ loc e} (h : Rel pe tabf σ loc e) (x : String) (st : St) :
    match findLabel σ x with
    | some n => ∃ i, (breakC loc x st).1 = .var i ∧ e[i]? = some (.lbl n)
    | none => (breakC loc x st) = (.id, st.fail x) := by
  have hl := findLabel_rel h x
  cases hf : findLabel σ x with
  | none => rw [hf] at hl; simp only at hl ⊢; simp [breakC, hl]
  | some w =>
    rw [hf] at hl; simp only at hl ⊢
    obtain ⟨pos, h1, _, _, h4⟩ := hl
    exact ⟨loc.total - pos, by simp [breakC, h1], h4⟩

/-- the same for callables: a filter argument is compiled to the index of its closure (term and
captured environment related to the scope it was written in); a definition — sibling or parent,
whatever the call type — to its body, with `skip` leading to the environment of its definition. -/
theorem envRel_lookup_call {pe tabf σ loc e} (h : Rel pe tabf σ loc e) (f : String) (ids : List TermId) (tr : Tr) :
    match findCall σ f ids.length with
    | some (.arg t σ') => ∃ i id loc' e', loc.call f ids tr = some (.var i, []) ∧ e[i]? = some (.fn id e') ∧
        Rel pe tabf σ' loc' e' ∧ CompiledI pe tabf loc' t id
    | some (.defn d σ') => ∃ id skip ct tr' loc', loc.call f ids tr =
          some (.callDef id (Locals.binds (sigOf d.params) ids) skip ct, tr') ∧
        Rel pe tabf σ' loc' (e.drop skip) ∧ DefOK pe tabf d loc' id
    | none => loc.call f ids tr = none := by
  have hl := findCall_rel h f ids.length
  unfold LookupOK at hl
  cases hf : findCall σ f ids.length with
  | none => rw [hf] at hl; simp only at hl ⊢; simp [Locals.call, hl]
  | some cl =>
    rw [hf] at hl
    cases cl with
    | arg t σ' =>
      obtain ⟨pos, id, loc', e', h1, _, _, h4, h5, h6⟩ := hl
      exact ⟨loc.total - pos, id, loc', e', by simp [Locals.call, h1], h4, h5, h6.1⟩
    | defn d σ' =>
      obtain ⟨fe, vars, id, loc', h1, h2, _, _, h5, h6, _⟩ := hl
      obtain ⟨ct, tr'', hcall⟩ := call_defn (tr := tr) h1 h2
      exact ⟨id, loc.total - vars, ct, tr'', loc', hcall, h5, h6⟩

/-! ## the main refinement -/

/-- the prelude definition `def !empty: {}[];` (first definition of jaq's `defs.jq`) -/
def emptyDef : Def := .mk emptyName [] (.path (.obj []) [(.range none none, .essential)])

/-- the table after compiling the prelude `[emptyDef]` -/
def stEmpty : St := { terms := [.path 1 [(.range none none, .essential)], .objEmpty], errs := [] }

theorem moduleC_emptyDef : moduleC { natives := c01Natives } {} [emptyDef] {} = ([emptyMDef], stEmpty) := by
  simp only [moduleC, emptyDef]
  rw [term_path, compileParts_range, compileParts_nil]
  simp only [it, finishI, term_obj, compileEntries_nil, sumOr_nil, optIt]
  rfl

theorem compile_emptyDef (t : Term) : compile c01Natives [emptyDef] t =
    { terms := (it (cxMain true) {} [] t stEmpty).2.2.terms, id := (it (cxMain true) {} [] t stEmpty).1,
      errs := (it (cxMain true) {} [] t stEmpty).2.2.errs } := by
  simp only [compile, moduleC_emptyDef]
  rfl

/-- **Main refinement, fragments A + B** (prefix form, no termination hypothesis): whatever the
definitional semantics delivers with fuel `n` — a complete outcome (values ended by `done`, an
error, a break, a halt) or the prefix computed before the fuel ran out — the program compiled
together with the prelude definition `!empty` delivers with enough fuel: complete outcomes
identical, prefixes extended.  (The semantics needs no prelude: `[]` and `try f` are primitive there.) -/
theorem run_refines_eval_partial (t : Term) (h : inFragment true t = true) (v : Val) :
    ∀ n, ∃ m, ∀ m' ≥ m, Pre (eval n 0 [] t v) (runProg cfgF (compile c01Natives [emptyDef] t) m' v) := by
  intro n
  rw [compile_emptyDef]
  have hext : Ext stEmpty (it (cxMain true) {} [] t stEmpty).2.2 := it_extA
  have hI : CompiledI true (it (cxMain true) {} [] t stEmpty).2.2.terms {} t (it (cxMain true) {} [] t stEmpty).1 :=
    compiledI_it h (Ext.refl _) (Nat.le_refl _) (fun _ _ _ => rfl)
  have hpre : PreOK true (it (cxMain true) {} [] t stEmpty).2.2.terms := by
    intro _
    exact ⟨by rw [hext.get (by simp [stEmpty])]; rfl, by rw [hext.get (by simp [stEmpty])]; rfl⟩
  exact simI_of_simT (sim _ hpre n) 0 [] {} [] t v _ h Rel.nil hI

/-- the same without any prelude, for programs that do not use `[]` / `try f` (round-1 statement,
now for the larger fragment) -/
theorem run_refines_eval_noprelude_partial (t : Term) (h : inFragment false t = true) (v : Val) :
    ∀ n, ∃ m, ∀ m' ≥ m, Pre (eval n 0 [] t v) (runProg cfgF (compile c01Natives [] t) m' v) := by
  intro n
  have hI : CompiledI false (it (cxMain false) {} [] t {}).2.2.terms {} t (it (cxMain false) {} [] t {}).1 :=
    compiledI_it h (Ext.refl _) (Nat.le_refl _) (fun _ _ _ => rfl)
  exact simI_of_simT (sim _ (fun h => by cases h) n) 0 [] {} [] t v _ h Rel.nil hI

/-- complete outcomes are reproduced exactly -/
theorem run_eq_eval_of_complete_partial (t : Term) (h : inFragment true t = true) (v : Val) (n : Nat)
    (hc : (eval n 0 [] t v).stop ≠ .fuel) :
    ∃ m, ∀ m' ≥ m, runProg cfgF (compile c01Natives [emptyDef] t) m' v = eval n 0 [] t v := by
  obtain ⟨m, hm⟩ := run_refines_eval_partial t h v n
  exact ⟨m, fun m' hm' => (hm m' hm').1 hc⟩

theorem run_eq_eval_of_complete_noprelude_partial (t : Term) (h : inFragment false t = true) (v : Val) (n : Nat)
    (hc : (eval n 0 [] t v).stop ≠ .fuel) :
    ∃ m, ∀ m' ≥ m, runProg cfgF (compile c01Natives [] t) m' v = eval n 0 [] t v := by
  obtain ⟨m, hm⟩ := run_refines_eval_noprelude_partial t h v n
  exact ⟨m, fun m' hm' => (hm m' hm').1 hc⟩

/-- the invariant form used by the induction: any related scope / locals / environment, any
label counter, any sub-term compiled into the final table -/
theorem sim_invariant_partial (pe : Bool) (tabf : List CTerm) (hpre : PreOK pe tabf) (n L : Nat) (σ : Env) (loc : Locals)
    (e : MEnv) (t : Term) (v : Val) (id : TermId) (h : inFragment pe t = true) (hrel : Rel pe tabf σ loc e)
    (hc : CompiledI pe tabf loc t id) :
    ∃ m, ∀ m' ≥ m, Pre (eval n L σ t v) (run cfgF tabf m' L e id v) :=
  simI_of_simT (sim tabf hpre n) L σ loc e t v id h hrel hc

/-- **destructuring**: the compiled pattern `Compiler::pattern`, run by `bind_pat(s)` in the
environment `e`, yields exactly the matches of the manual's pattern semantics in the scope `σ`,
in the same order and with the same error, where EVERY key filter `(f): …` — also those of
nested patterns, also after earlier entries of the same pattern have bound variables — is
evaluated in `σ` / `e`, the context OUTSIDE the whole pattern; the environment of each match is
`e` with the pattern's variables pushed in `Pattern::vars` order (`toM`). -/
theorem pattern_refines_partial (pe : Bool) (tabf : List CTerm) (hpre : PreOK pe tabf) (n L : Nat) (σ : Env) (loc : Locals)
    (e : MEnv) (hrel : Rel pe tabf σ loc e) (p : Pattern) (hfr : inFragmentPat pe p = true) (st0 : St)
    (hag : AgreeFrom st0.terms.length (pattern (cxMain pe) loc p st0).2.terms tabf) (w : Val) :
    ∃ m, ∀ m' ≥ m, Pre (mapO (toM e p.vars.length) (bindPat (eval n L σ) p w σ))
      (bindPatM (run cfgF tabf m' L e) (pattern (cxMain pe) loc p st0).1 w e) :=
  pat_sim (SimI.tsim (simI_of_simT (sim tabf hpre n)) hrel).key p hfr st0 _ _ (Ext.refl _) (Nat.le_refl _) hag w

/-- every match extends the invariant by exactly the pattern's variables, in `Pattern::vars`
order — so that `Compiler::var` finds each of them (and everything outside) at the right index -/
theorem pattern_binds_vars_in_order (pe : Bool) (tabf : List CTerm) (ev0 : Term → Val → Out) (σ : Env) (loc : Locals) (e : MEnv)
    (hrel : Rel pe tabf σ loc e) (p : Pattern) (w : Val) :
    ∀ ρ' ∈ (bindPat ev0 p w σ).vals, Rel pe tabf ρ' (loc.pushVars p.vars) (toM e p.vars.length ρ') :=
  pat_rel ev0 hrel p w

/-- the frame property of the compiler, for every term: it only appends to the table -/
theorem compile_appends (t : Term) (cx : Cx) (loc : Locals) (tr : Tr) (st : St) :
    ∃ s, (term cx loc tr t st).2.2.terms = st.terms ++ s :=
  term_ext t cx loc tr st

theorem compile_appends_partial (t : Term) (_h : inFragment true t = true) (cx : Cx) (loc : Locals) (tr : Tr) (st : St) :
    ∃ s, (term cx loc tr t st).2.2.terms = st.terms ++ s :=
  compile_appends t cx loc tr st

/-- the set of tail calls a compiled term may return is a subset of the set it was allowed
(`debug_assert!(tr_.is_subset(tr))` in `iterm_tr`), for EVERY term, compile context, locals, table -/
theorem compile_tr_subset (t : Term) (cx : Cx) (loc : Locals) (tr : Tr) (st : St) :
    ∀ x ∈ (term cx loc tr t st).2.1, x ∈ tr :=
  tr_subset_aux (sizeOf t + 1) t (by omega) cx loc tr st

theorem compile_tr_subset_partial (t : Term) (_h : inFragment true t = true) (cx : Cx) (loc : Locals) (tr : Tr) (st : St) :
    ∀ x ∈ (term cx loc tr t st).2.1, x ∈ tr :=
  compile_tr_subset t cx loc tr st

/-! ## stage C, compile-time half -/

/-- compile-time half of stage C: a call is compiled to `Throw` only towards a definition whose
body is being compiled in tail position (`id ∈ tr`, and `tr` gets `id` only in `Compiler::def`),
and it reports exactly that id; so every thrown tail call has an enclosing `def_run` of the
same definition to catch it (`CatchOne` for direct recursion from a sibling call, `CatchAll` otherwise). -/
theorem throw_only_towards_enclosing_def {loc : Locals} {name : String} {ids : List TermId} {tr tr' : Tr} {id : TermId}
    {args : List (ArgK TermId)} {skip : Nat}
    (h : loc.call name ids tr = some (.callDef id args skip .throw, tr')) : id ∈ tr ∧ tr' = [id] := by
  unfold Locals.call at h
  split at h
  · cases h
  · cases h
  · simp only at h
    split at h
    · simp only [Option.some.injEq, Prod.mk.injEq, CTerm.callDef.injEq] at h
      obtain ⟨⟨-, -, -, h4⟩, -⟩ := h
      split at h4 <;> cases h4
    · simp only [Option.some.injEq, Prod.mk.injEq, CTerm.callDef.injEq] at h
      obtain ⟨⟨-, -, -, h4⟩, -⟩ := h
      cases h4
  · split at h
    · rename_i hc
      simp only [Option.some.injEq, Prod.mk.injEq, CTerm.callDef.injEq] at h
      obtain ⟨⟨rfl, -, -, -⟩, rfl⟩ := h
      exact ⟨by simpa using hc, rfl⟩
    · simp only [Option.some.injEq, Prod.mk.injEq, CTerm.callDef.injEq] at h
      obtain ⟨⟨-, -, -, h4⟩, -⟩ := h
      cases h4

/-- calls from the main program or from a non-tail position (`tr = []`) never throw -/
theorem no_throw_outside_tail_position {loc : Locals} {name : String} {ids : List TermId} {tr' : Tr} {id : TermId}
    {args : List (ArgK TermId)} {skip : Nat} {ct : CallType}
    (h : loc.call name ids [] = some (.callDef id args skip ct, tr')) : ct ≠ .throw ∧ tr' = [] := by
  constructor
  · intro hct
    subst hct
    exact absurd (throw_only_towards_enclosing_def h).1 (by simp)
  · have := call_tr_subset h
    cases tr' with
    | nil => rfl
    | cons x _ => exact absurd (this x (by simp)) (by simp)
/-! ## corollaries -/

/-- `f op g` behaves as `f as $x | g as $y | $x op $y`: `f` is the outer loop, `g` the inner one,
an error of `f` or `g` ends the stream where the nested binding would raise it. -/
theorem math_cartesian_order (l r : Term) (op : MathOp) (hl : inFragment false l = true) (hr : inFragment false r = true)
    (v : Val) (n : Nat) :
    ∃ m, ∀ m' ≥ m, Pre (cartSem (eval n 0 [] l v) (fun _ => eval n 0 [] r v) (mathOp op))
      (runProg cfgF (compile c01Natives [] (.binop l (.math op) r)) m' v) := by
  have := run_refines_eval_noprelude_partial (.binop l (.math op) r) (by simp [inFragment, Bop.inFragment, hl, hr]) v (n+1)
  rw [eval] at this
  exact this

/-- the definitional semantics itself says the same as the explicit nested bindings (fresh names) -/
theorem math_is_nested_binding (l r : Term) (op : MathOp) (ρ : Env) (v : Val) (n L : Nat) :
    eval (n+3) L ρ (.binop l (.math op) r) v =
      cartSem (eval (n+2) L ρ l v) (fun _ => eval (n+2) L ρ r v) (mathOp op) := by
  rw [eval]

/-- shadowing: the nearest binding wins, in the semantics … -/
theorem shadowing_nearest (x : String) (w : Val) (ρ : Env) : findVar (.var x w :: ρ) x = some w := by
  simp [findVar]

/-- … and in the compiled program: `w1 as $x | w2 as $x | $x` yields the inner value -/
theorem shadowing_nearest_compiled (a b : String) (v : Val) :
    ∃ m, ∀ m' ≥ m, runProg cfgF (compile c01Natives []
        (.pipe (.num a) (some (.var "$x")) (.pipe (.num b) (some (.var "$x")) (.var "$x")))) m' v
      = .done [numLit b] := by
  obtain ⟨m, hm⟩ := run_eq_eval_of_complete_noprelude_partial
    (.pipe (.num a) (some (.var "$x")) (.pipe (.num b) (some (.var "$x")) (.var "$x"))) (by simp [inFragment, inFragmentPat]) v 3
    (by simp [eval, bindPat, OutG.bind, OutG.done, findVar])
  refine ⟨m, fun m' hm' => ?_⟩
  rw [hm m' hm']
  simp [eval, bindPat, OutG.bind, OutG.done, findVar]

/-- a filter argument is evaluated in the scope of the *call site*, not of the place where the
parameter is used -/
theorem closure_captures_definition_env (n L : Nat) (ρ ρ' : Env) (p : String) (t : Term) (v : Val) :
    eval (n+1) L (.arg p t ρ' :: ρ) (.call p []) v = eval n L ρ' t v := by
  rw [eval]; simp [findCall]

/-- `{(k): w}` behaves as `k as $k | w as $v | {($k): $v}`: keys outer loop, values inner loop -/
theorem obj_entry_order (k w : Term) (hk : inFragment true k = true) (hw : inFragment true w = true) (v : Val) (n : Nat) :
    ∃ m, ∀ m' ≥ m, Pre (cartSem (eval n 0 [] k v) (fun _ => eval n 0 [] w v) (fun kk vv => .ok (.obj [(kk, vv)])))
      (runProg cfgF (compile c01Natives [emptyDef] (.obj [(k, some w)])) m' v) := by
  have := run_refines_eval_partial (.obj [(k, some w)]) (by simp [inFragment, inFragmentEntries, hk, hw]) v (n+1)
  rw [eval] at this
  simpa [sumSem, objEntrySem_some] using this

/-- `f[x][y]` behaves as `f as $f | x as $x | y as $y | $f | .[$x] | .[$y]`: per output of `f`,
the index filters run on the original input, the first part being the outermost loop -/
theorem path_index_order (f x y : Term) (o1 o2 : Opt) (hf : inFragment true f = true) (hx : inFragment true x = true)
    (hy : inFragment true y = true) (v : Val) (n : Nat) :
    ∃ m, ∀ m' ≥ m, Pre
      (let of := eval n 0 [] f v
       OutG.bind of.vals of.stop fun fv =>
        let ps := (let ox := eval n 0 [] x v
          OutG.bind ox.vals ox.stop fun xv =>
            let oy := eval n 0 [] y v
            OutG.bind oy.vals oy.stop fun yv => (OutG.done [[(VPart.index xv, o1), (VPart.index yv, o2)]] : OutG (List (VPart × Opt))))
        OutG.bind ps.vals ps.stop fun p => runParts p fv)
      (runProg cfgF (compile c01Natives [emptyDef] (.path f [(.index x, o1), (.index y, o2)])) m' v) := by
  have := run_refines_eval_partial (.path f [(.index x, o1), (.index y, o2)])
    (by simp [inFragment, inFragmentPath, hf, hx, hy]) v (n+1)
  rw [eval] at this
  simpa [explodeSem_index, explodeSem_nil] using this

/-! ## non-vacuity: concrete programs inside the fragment -/

/-- two binders on either side of a definition boundary:
`def f(g): g, (10 as $x | g + $x); 1 as $y | f($y + .)` -/
def exBinders : Term :=
  .defs [.mk "f" ["g"] (.binop (.call "g" []) .comma
      (.pipe (.num "10") (some (.var "$x")) (.binop (.call "g" []) (.math .add) (.var "$x"))))]
    (.pipe (.num "1") (some (.var "$y")) (.call "f" [.binop (.var "$y") (.math .add) .id]))

/-- a closure invoked under a deeper label, a `$`-parameter bound as a cartesian product, a
recursive definition: `label $out | def h($x): $x, if $x then break $out else h(1) end;
try (h(0, 1), 99) catch (. + 1000)` -/
def exLabel : Term :=
  .label "$out" (.defs [.mk "h" ["$x"] (.binop (.var "$x") .comma
      (.ite [(.var "$x", .brk "$out")] (some (.call "h" [.num "1"]))))]
    (.tryCatch (.binop (.call "h" [.binop (.num "0") .comma (.num "1")]) .comma (.num "99"))
      (some (.binop .id (.math .add) (.num "1000")))))

/-- a non-commutative operator with two multi-valued operands: `(1, 2) - (10, 20)` -/
def exCart : Term := .binop (.binop (.num "1") .comma (.num "2")) (.math .sub) (.binop (.num "10") .comma (.num "20"))

/-- a nested object pattern whose computed key mentions a variable bound outside the pattern
and rebound by an earlier entry of the same pattern; `reduce` with an array-in-object pattern;
`try` without `catch`, `[]`, `elif`, an object with multi-valued key, interpolation, a slice:
`"a" as $k | {"k":"b","n":{"a":1,"b":2}} as {k: $k, n: {($k): $y}} | [$k, $y]`,
`reduce .[] as {a: [$x, $y]} ([]; . + [$x]) | try error`,
`if . then {("a","b"): "\(.)"} elif .[1:] then .. else .[]? end` -/
def exNestedKey : Term :=
  .pipe (.str none [.lit "a"]) (some (.var "$k"))
    (.pipe (.obj [(.str none [.lit "k"], some (.str none [.lit "b"])),
        (.str none [.lit "n"], some (.obj [(.str none [.lit "a"], some (.num "1")), (.str none [.lit "b"], some (.num "2"))]))])
      (some (.obj [(.str none [.lit "k"], .var "$k"), (.str none [.lit "n"], .obj [(.var "$k", .var "$y")])]))
      (.arr (some (.binop (.var "$k") .comma (.var "$y")))))
def exFoldPat : Term :=
  .pipe (.fold "reduce" (.path .id [(.range none none, .essential)])
      (.obj [(.str none [.lit "a"], .arr [.var "$x", .var "$y"])])
      [.arr none, .binop .id (.math .add) (.arr (some (.var "$x")))]) none
    (.tryCatch (.call "error_empty" []) none)
def exMisc : Term :=
  .ite [(.id, .obj [(.binop (.str none [.lit "a"]) .comma (.str none [.lit "b"]), some (.str none [.interp .id]))]),
      (.path .id [(.range (some (.num "1")) none, .essential)], .recurse)]
    (some (.path .id [(.range none none, .optional)]))

example : inFragment false exBinders = true := by decide
example : inFragment false exLabel = true := by decide
example : inFragment false exCart = true := by decide
example : inFragment false exNestedKey = true := by decide
example : inFragment true exFoldPat = true := by decide
example : inFragment false exMisc = true := by decide

end Jaq.Core
