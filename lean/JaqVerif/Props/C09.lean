/-
  C09 — integer arithmetic is exact at any size; operators follow the manual's rules.
  Theorems about the impl-model `Val/Num.lean`, `Val/Arith.lean` (tied to
  `/repo/jaq-json/src/{num,lib}.rs` by the correspondence of `bin/check C09`).
-/
import JaqVerif.Val.Arith

namespace Jaq.C09
open Jaq

/-- a number is an integer with exact value `x` (any representation) -/
def IsInt (n : Num) (x : Int) : Prop := n.intVal? = some x

theorem ofInt_val (i : Int) : IsInt (Num.ofInt i) i := by
  unfold IsInt Num.ofInt; split <;> rfl

theorem ofInt_wf (i : Int) : (Num.ofInt i).wf = true := by
  unfold Num.ofInt; split <;> simp_all [Num.wf]

theorem isInt_cases {n : Num} {x : Int} (h : IsInt n x) : n = .int x ∨ n = .big x := by
  cases n <;> simp_all [IsInt, Num.intVal?]

/-- **Sum, difference and product of integers are the exact integers**, for every pair of
representations (machine/big) and every magnitude. -/
theorem int_add_exact {a b : Num} {x y : Int} (ha : IsInt a x) (hb : IsInt b y) :
    IsInt (Num.add a b) (x + y) := by
  rcases isInt_cases ha with rfl | rfl <;> rcases isInt_cases hb with rfl | rfl <;>
    simp [Num.add, Num.undec, IsInt, Num.intVal?] <;> exact ofInt_val _

theorem int_sub_exact {a b : Num} {x y : Int} (ha : IsInt a x) (hb : IsInt b y) :
    IsInt (Num.sub a b) (x - y) := by
  rcases isInt_cases ha with rfl | rfl <;> rcases isInt_cases hb with rfl | rfl <;>
    simp [Num.sub, Num.undec, IsInt, Num.intVal?] <;> exact ofInt_val _

theorem int_mul_exact {a b : Num} {x y : Int} (ha : IsInt a x) (hb : IsInt b y) :
    IsInt (Num.mul a b) (x * y) := by
  rcases isInt_cases ha with rfl | rfl <;> rcases isInt_cases hb with rfl | rfl <;>
    simp [Num.mul, Num.undec, IsInt, Num.intVal?] <;> exact ofInt_val _

theorem int_neg_exact {a : Num} {x : Int} (ha : IsInt a x) : IsInt (Num.neg a) (-x) := by
  rcases isInt_cases ha with rfl | rfl <;> simp [Num.neg, IsInt, Num.intVal?] <;> exact ofInt_val _

/-- Remainder of integers is the truncated remainder (sign of the dividend), for a non-zero
divisor; in particular `isize::MIN % -1 = 0`. -/
theorem int_rem_exact {a b : Num} {x y : Int} (ha : IsInt a x) (hb : IsInt b y) (hy : y ≠ 0) :
    IsInt (Num.rem a b) (Int.tmod x y) := by
  rcases isInt_cases ha with rfl | rfl <;> rcases isInt_cases hb with rfl | rfl <;>
    simp [Num.rem, Num.undec, IsInt, Num.intVal?, Num.tremInt, hy]

/-- `length` (absolute value) of an integer is exact, also for `isize::MIN` -/
theorem int_length_exact {a : Num} {x : Int} (ha : IsInt a x) :
    IsInt (Num.length a) (Int.ofNat x.natAbs) := by
  rcases isInt_cases ha with rfl | rfl <;> simp [Num.length, IsInt, Num.intVal?] <;> exact ofInt_val _

theorem min_rem_neg_one : Num.rem (.int isizeMin) (.int (-1)) = .int 0 := by decide

/-- machine representation is kept well-formed by the integer operators -/
theorem int_ops_wf {a b : Num} {x y : Int} (ha : IsInt a x) (hb : IsInt b y) :
    (Num.add a b).wf ∧ (Num.sub a b).wf ∧ (Num.mul a b).wf ∧ (Num.neg a).wf := by
  rcases isInt_cases ha with rfl | rfl <;> rcases isInt_cases hb with rfl | rfl <;>
    simp only [Num.add, Num.sub, Num.mul, Num.neg, Num.undec, ofInt_wf] <;> simp [Num.wf]

/-- `%` by integer zero is an error, for every representation of the operands -/
theorem rem_zero_is_error {a b : Num} {x : Int} (ha : IsInt a x) (hb : IsInt b 0) :
    ∃ e, Val.rem (.num a) (.num b) = .error e := by
  rcases isInt_cases ha with rfl | rfl <;> rcases isInt_cases hb with rfl | rfl <;>
    simp [Val.rem, Num.isInt, Num.eq, Num.undec]

/-- … and never an error for a non-zero integer divisor -/
theorem rem_nonzero_ok {a b : Num} {x y : Int} (ha : IsInt a x) (hb : IsInt b y) (hy : y ≠ 0) :
    Val.rem (.num a) (.num b) = .ok (.num (Num.rem a b)) := by
  rcases isInt_cases ha with rfl | rfl <;> rcases isInt_cases hb with rfl | rfl <;>
    simp [Val.rem, Num.isInt, Num.eq, Num.undec, hy]

/-- **An operation yields an integer exactly when both operands are integers and the operator
is one of `+ - * %`** (here: `+ - *` and `%`; `/` always yields a float). -/
theorem result_is_int_iff (a b : Num) :
    ((Num.add a b).isInt = (a.isInt && b.isInt)) ∧
    ((Num.sub a b).isInt = (a.isInt && b.isInt)) ∧
    ((Num.mul a b).isInt = (a.isInt && b.isInt)) ∧
    ((Num.rem a b).isInt = (a.isInt && b.isInt)) ∧
    ((Num.div a b).isInt = false) := by
  have ho : ∀ i, (Num.ofInt i).isInt = true := by
    intro i; unfold Num.ofInt; split <;> rfl
  cases a <;> cases b <;>
    simp only [Num.add, Num.sub, Num.mul, Num.rem, Num.div, Num.undec, Num.ofDecStr, ho] <;>
    simp [Num.isInt]

/-- `/` is the IEEE quotient of the converted operands (also for integer operands, also by zero) -/
theorem div_follows_ieee (a b : Num) :
    Val.div (.num a) (.num b) = .ok (.num (.float (F64.div a.toF64 b.toF64))) := rfl

/-- mixed operands: the double result of the converted operands -/
theorem mixed_add_is_float (x : Int) (f : UInt64) :
    Num.add (.int x) (.float f) = .float (F64.add f (F64.ofInt x)) ∧
    Num.add (.big x) (.float f) = .float (F64.add f (F64.ofInt x)) := ⟨rfl, rfl⟩

/-! ### representation independence of the integer consumers -/

/-- two well-formed integer representations of the same value -/
def SameInt (a b : Num) : Prop :=
  ∃ x : Int, IsInt a x ∧ IsInt b x ∧ a.wf = true ∧ b.wf = true

theorem fitsIsize_iff (x : Int) :
    fitsIsize x = true ↔ -9223372036854775808 ≤ x ∧ x ≤ 9223372036854775807 := by
  unfold fitsIsize isizeMin isizeMax
  rw [Bool.and_eq_true, decide_eq_true_iff, decide_eq_true_iff]

theorem fits_of_wf_int {x : Int} (h : (Num.int x).wf = true) : fitsIsize x = true := h

theorem repr_independent_asIsize {a b : Num} (h : SameInt a b) : a.asIsize = b.asIsize := by
  obtain ⟨x, ha, hb, wa, wb⟩ := h
  rcases isInt_cases ha with rfl | rfl <;> rcases isInt_cases hb with rfl | rfl <;>
    simp_all [Num.asIsize, Num.wf]

theorem fits_usize {x : Int} (h : fitsIsize x = true) : Int.ofNat x.natAbs ≤ usizeMax := by
  rw [fitsIsize_iff] at h
  simp only [usizeMax]
  show ((x.natAbs : Nat) : Int) ≤ 18446744073709551615
  omega

theorem repr_independent_asPosUsize {a b : Num} (h : SameInt a b) : a.asPosUsize = b.asPosUsize := by
  obtain ⟨x, ha, hb, wa, wb⟩ := h
  have key : ∀ x : Int, fitsIsize x = true → Num.asPosUsize (.int x) = Num.asPosUsize (.big x) := by
    intro x h
    have hu := fits_usize h
    simp only [Num.asPosUsize, hu, if_true]
    congr 1
    by_cases h0 : x < 0 <;> simp [h0] <;> omega
  rcases isInt_cases ha with rfl | rfl <;> rcases isInt_cases hb with rfl | rfl
  · rfl
  · exact key x wa
  · exact (key x wb).symm
  · rfl

theorem repr_independent_repCount {a b : Num} (h : SameInt a b) : Val.repCount a = Val.repCount b := by
  obtain ⟨x, ha, hb, wa, wb⟩ := h
  rcases isInt_cases ha with rfl | rfl <;> rcases isInt_cases hb with rfl | rfl <;>
    simp_all [Val.repCount, Num.wf, bigintToIntSaturated]

theorem repr_independent_toF64 {a b : Num} (h : SameInt a b) : a.toF64 = b.toF64 := by
  obtain ⟨x, ha, hb, _, _⟩ := h
  rcases isInt_cases ha with rfl | rfl <;> rcases isInt_cases hb with rfl | rfl <;> rfl

/-- comparison and equality against any third number do not see the representation -/
theorem repr_independent_cmp {a b : Num} (h : SameInt a b) (c : Num) :
    Num.cmp a c = Num.cmp b c ∧ Num.cmp c a = Num.cmp c b ∧
    Num.eq a c = Num.eq b c ∧ Num.eq c a = Num.eq c b := by
  obtain ⟨x, ha, hb, _, _⟩ := h
  have key : ∀ c : Num,
      Num.cmp (.int x) c = Num.cmp (.big x) c ∧ Num.cmp c (.int x) = Num.cmp c (.big x) ∧
      Num.eq (.int x) c = Num.eq (.big x) c ∧ Num.eq c (.int x) = Num.eq c (.big x) := by
    intro c
    cases c <;> simp only [Num.cmp, Num.eq, Num.undec, Num.ofDecStr] <;> simp
  rcases isInt_cases ha with rfl | rfl <;> rcases isInt_cases hb with rfl | rfl
  · exact ⟨rfl, rfl, rfl, rfl⟩
  · exact key c
  · obtain ⟨h1, h2, h3, h4⟩ := key c
    exact ⟨h1.symm, h2.symm, h3.symm, h4.symm⟩
  · exact ⟨rfl, rfl, rfl, rfl⟩

theorem repr_independent_arith {a b : Num} (h : SameInt a b) {c : Num} {y : Int} (hc : IsInt c y) :
    (Num.add a c).intVal? = (Num.add b c).intVal? ∧ (Num.sub a c).intVal? = (Num.sub b c).intVal? ∧
    (Num.mul a c).intVal? = (Num.mul b c).intVal? ∧ (Num.neg a).intVal? = (Num.neg b).intVal? := by
  obtain ⟨x, ha, hb, _, _⟩ := h
  refine ⟨?_, ?_, ?_, ?_⟩
  · rw [int_add_exact ha hc, int_add_exact hb hc]
  · rw [int_sub_exact ha hc, int_sub_exact hb hc]
  · rw [int_mul_exact ha hc, int_mul_exact hb hc]
  · rw [int_neg_exact ha, int_neg_exact hb]

/-! ### the non-numeric cases of the operators (manual, "Arithmetic operators") -/

theorem null_neutral_add (x : Val) : Val.add .null x = .ok x ∧ Val.add x .null = .ok x := by
  cases x <;> simp [Val.add]

theorem concat_add (x y : List UInt8) (a b : List Val) :
    Val.add (.tstr x) (.tstr y) = .ok (.tstr (x ++ y)) ∧
    Val.add (.bstr x) (.bstr y) = .ok (.bstr (x ++ y)) ∧
    Val.add (.arr a) (.arr b) = .ok (.arr (a ++ b)) := ⟨rfl, rfl, rfl⟩

/-- object `+`: right-biased union keeping left positions (insert = replace in place or append) -/
theorem obj_add_is_extend (l r : Obj.Entries) :
    Val.add (.obj l) (.obj r) = .ok (.obj (r.foldl (fun acc kv => Obj.insert acc kv.1 kv.2) l)) := by
  simp [Val.add, Obj.extend]

theorem insert_keeps_left_positions (o : Obj.Entries) (k v : Val) :
    (Obj.insert o k v).map (·.1) = if Obj.has o k then o.map (·.1) else o.map (·.1) ++ [k] := by
  unfold Obj.insert
  split
  · simp only [List.map_map]
    congr 1
    funext kv
    obtain ⟨k', v'⟩ := kv
    simp only [Function.comp]
    split <;> rfl
  · simp

theorem str_mul_repeat (s : List UInt8) (i : Int) :
    Val.mul (.tstr s) (.num (.int i)) =
      (if i > 0 then .ok (.tstr (bytesRepeat s i.toNat)) else .ok .null) ∧
    Val.mul (.num (.int i)) (.tstr s) =
      (if i > 0 then .ok (.tstr (bytesRepeat s i.toNat)) else .ok .null) := by
  simp [Val.mul, Val.repCount]

theorem sat_nonpos {i : Int} (hi : i ≤ 0) : ¬ (bigintToIntSaturated i > 0) := by
  unfold bigintToIntSaturated
  by_cases hf : fitsIsize i = true
  · simp only [hf, if_true]; omega
  · have hlt : i < 0 := by
      rw [fitsIsize_iff] at hf; omega
    simp only [hf, hlt, if_true, isizeMin]
    omega

/-- string repetition: `null` for counts ≤ 0, for every representation of the count -/
theorem str_mul_nonpositive_null (s : List UInt8) (n : Num) (i : Int) (h : IsInt n i) (hi : i ≤ 0) :
    Val.mul (.tstr s) (.num n) = .ok .null ∧ Val.mul (.bstr s) (.num n) = .ok .null := by
  rcases isInt_cases h with rfl | rfl
  · refine ⟨?_, ?_⟩ <;> simp only [Val.mul, Val.repCount] <;> rw [if_neg (by omega)]
  · refine ⟨?_, ?_⟩ <;> simp only [Val.mul, Val.repCount] <;> rw [if_neg (sat_nonpos hi)]

/-- array `-` removes **all** elements equal (under the order's equality) to some element of the right -/
theorem arr_sub_removes_all_equal (x y : List Val) (e : Val) :
    Val.sub (.arr x) (.arr y) = .ok (.arr (x.filter fun e => !(y.any fun e' => Val.cmp e' e == .eq))) ∧
    (e ∈ (x.filter fun e => !(y.any fun e' => Val.cmp e' e == .eq)) ↔
      e ∈ x ∧ ∀ e' ∈ y, Val.cmp e' e ≠ .eq) := by
  refine ⟨rfl, ?_⟩
  simp [List.mem_filter]

/-- everything else is an error -/
theorem sub_else_errors (l r : Val) (h1 : ∀ x y, ¬ (l = .num x ∧ r = .num y))
    (h2 : ∀ x y, ¬ (l = .arr x ∧ r = .arr y)) : ∃ e, Val.sub l r = .error e := by
  cases l <;> cases r <;> simp_all [Val.sub]

theorem neg_else_errors (v : Val) (h : ∀ n, v ≠ .num n) : ∃ e, Val.neg v = .error e := by
  cases v <;> simp_all [Val.neg]

theorem rem_else_errors (l r : Val) (h : ∀ x y, ¬ (l = .num x ∧ r = .num y)) :
    ∃ e, Val.rem l r = .error e := by
  cases l <;> cases r <;> simp_all [Val.rem]

/-! ### non-vacuity: concrete states meeting the hypotheses -/

example : SameInt (.int 5) (.big 5) := ⟨5, rfl, rfl, by decide, by decide⟩
example : IsInt (Num.add (.int isizeMax) (.int 1)) (isizeMax + 1) :=
  int_add_exact (a := .int isizeMax) (b := .int 1) rfl rfl
example : Num.add (.int isizeMax) (.int 1) = .big 9223372036854775808 := by decide
example : Num.sub (.big 9223372036854775808) (.big 9223372036854775808) = .big 0 := by decide

end Jaq.C09
