/-
  C09 — integer arithmetic is exact at any size; operators follow the manual's rules.
  Theorems about the impl-model `Val/Num.lean`, `Val/Arith.lean` (tied to
  `/repo/jaq-json/src/{num,lib}.rs` by the correspondence of `bin/check C09`).
-/
import JaqVerif.Val.Arith
import JaqVerif.C09.Consumers
import JaqVerif.Lemmas.C09Repr
import JaqVerif.Lemmas.C09Ops
import JaqVerif.Lemmas.C09Ieee

namespace Jaq.C09
open Jaq

theorem ofInt_val (i : Int) : IsInt (Num.ofInt i) i := by
  unfold IsInt Num.ofInt; split <;> rfl

theorem ofInt_wf (i : Int) : (Num.ofInt i).wf = true := by
  unfold Num.ofInt; split <;> simp_all [Num.wf]

theorem isInt_cases {n : Num} {x : Int} (h : IsInt n x) : n = .int x ∨ n = .big x := by
  cases n <;> simp_all [IsInt, Num.intVal?]

/-- **Sum, difference and product of integers are the exact integers**, for every pair of
representations (machine/big) and every magnitude. -/
theorem int_add_exact {a b : Num} {x y : Int} (ha : IsInt a x) (hb : IsInt b y) :
    IsInt (Num.add a b) (x + y) := by
  rcases isInt_cases ha with rfl | rfl <;> rcases isInt_cases hb with rfl | rfl <;>
    simp [Num.add, Num.undec, IsInt, Num.intVal?] <;> exact ofInt_val _

theorem int_sub_exact {a b : Num} {x y : Int} (ha : IsInt a x) (hb : IsInt b y) :
    IsInt (Num.sub a b) (x - y) := by
  rcases isInt_cases ha with rfl | rfl <;> rcases isInt_cases hb with rfl | rfl <;>
    simp [Num.sub, Num.undec, IsInt, Num.intVal?] <;> exact ofInt_val _

theorem int_mul_exact {a b : Num} {x y : Int} (ha : IsInt a x) (hb : IsInt b y) :
    IsInt (Num.mul a b) (x * y) := by
  rcases isInt_cases ha with rfl | rfl <;> rcases isInt_cases hb with rfl | rfl <;>
    simp [Num.mul, Num.undec, IsInt, Num.intVal?] <;> exact ofInt_val _

theorem int_neg_exact {a : Num} {x : Int} (ha : IsInt a x) : IsInt (Num.neg a) (-x) := by
  rcases isInt_cases ha with rfl | rfl <;> simp [Num.neg, IsInt, Num.intVal?] <;> exact ofInt_val _

/-- Remainder of integers is the truncated remainder (sign of the dividend), for a non-zero
divisor; in particular `isize::MIN % -1 = 0`. -/
theorem int_rem_exact {a b : Num} {x y : Int} (ha : IsInt a x) (hb : IsInt b y) (hy : y ≠ 0) :
    IsInt (Num.rem a b) (Int.tmod x y) := by
  rcases isInt_cases ha with rfl | rfl <;> rcases isInt_cases hb with rfl | rfl <;>
    simp [Num.rem, Num.undec, IsInt, Num.intVal?, Num.tremInt, hy]

/-- `length` (absolute value) of an integer is exact, also for `isize::MIN` -/
theorem int_length_exact {a : Num} {x : Int} (ha : IsInt a x) :
    IsInt (Num.length a) (Int.ofNat x.natAbs) := by
  rcases isInt_cases ha with rfl | rfl <;> simp [Num.length, IsInt, Num.intVal?] <;> exact ofInt_val _

theorem min_rem_neg_one : Num.rem (.int isizeMin) (.int (-1)) = .int 0 := by decide

/-- machine representation is kept well-formed by the integer operators -/
theorem int_ops_wf {a b : Num} {x y : Int} (ha : IsInt a x) (hb : IsInt b y) :
    (Num.add a b).wf ∧ (Num.sub a b).wf ∧ (Num.mul a b).wf ∧ (Num.neg a).wf := by
  rcases isInt_cases ha with rfl | rfl <;> rcases isInt_cases hb with rfl | rfl <;>
    simp only [Num.add, Num.sub, Num.mul, Num.neg, Num.undec, ofInt_wf] <;> simp [Num.wf]

/-- `%` by integer zero is an error, for every representation of the operands -/
theorem rem_zero_is_error {a b : Num} {x : Int} (ha : IsInt a x) (hb : IsInt b 0) :
    ∃ e, Val.rem (.num a) (.num b) = .error e := by
  rcases isInt_cases ha with rfl | rfl <;> rcases isInt_cases hb with rfl | rfl <;>
    simp [Val.rem, Num.isInt, Num.eq, Num.undec]

/-- … and never an error for a non-zero integer divisor -/
theorem rem_nonzero_ok {a b : Num} {x y : Int} (ha : IsInt a x) (hb : IsInt b y) (hy : y ≠ 0) :
    Val.rem (.num a) (.num b) = .ok (.num (Num.rem a b)) := by
  rcases isInt_cases ha with rfl | rfl <;> rcases isInt_cases hb with rfl | rfl <;>
    simp [Val.rem, Num.isInt, Num.eq, Num.undec, hy]

/-- **An operation yields an integer exactly when both operands are integers and the operator
is one of `+ - * %`** (here: `+ - *` and `%`; `/` always yields a float). -/
theorem result_is_int_iff (a b : Num) :
    ((Num.add a b).isInt = (a.isInt && b.isInt)) ∧
    ((Num.sub a b).isInt = (a.isInt && b.isInt)) ∧
    ((Num.mul a b).isInt = (a.isInt && b.isInt)) ∧
    ((Num.rem a b).isInt = (a.isInt && b.isInt)) ∧
    ((Num.div a b).isInt = false) := by
  have ho : ∀ i, (Num.ofInt i).isInt = true := by
    intro i; unfold Num.ofInt; split <;> rfl
  cases a <;> cases b <;>
    simp only [Num.add, Num.sub, Num.mul, Num.rem, Num.div, Num.undec, Num.ofDecStr, ho] <;>
    simp [Num.isInt]

/-- `/` is the IEEE quotient of the converted operands (also for integer operands, also by zero) -/
theorem div_follows_ieee (a b : Num) :
    Val.div (.num a) (.num b) = .ok (.num (.float (F64.div a.toF64 b.toF64))) := rfl

/-- mixed operands: the double result of the converted operands -/
theorem mixed_add_is_float (x : Int) (f : UInt64) :
    Num.add (.int x) (.float f) = .float (F64.add f (F64.ofInt x)) ∧
    Num.add (.big x) (.float f) = .float (F64.add f (F64.ofInt x)) := ⟨rfl, rfl⟩

/-! ### representation independence of the integer consumers -/

theorem fitsIsize_iff (x : Int) :
    fitsIsize x = true ↔ -9223372036854775808 ≤ x ∧ x ≤ 9223372036854775807 := by
  unfold fitsIsize isizeMin isizeMax
  rw [Bool.and_eq_true, decide_eq_true_iff, decide_eq_true_iff]

theorem fits_of_wf_int {x : Int} (h : (Num.int x).wf = true) : fitsIsize x = true := h

theorem repr_independent_asIsize {a b : Num} (h : SameInt a b) : a.asIsize = b.asIsize := by
  obtain ⟨x, ha, hb, wa, wb⟩ := h
  rcases isInt_cases ha with rfl | rfl <;> rcases isInt_cases hb with rfl | rfl <;>
    simp_all [Num.asIsize, Num.wf]

theorem fits_usize {x : Int} (h : fitsIsize x = true) : Int.ofNat x.natAbs ≤ usizeMax := by
  rw [fitsIsize_iff] at h
  simp only [usizeMax]
  show ((x.natAbs : Nat) : Int) ≤ 18446744073709551615
  omega

theorem repr_independent_asPosUsize {a b : Num} (h : SameInt a b) : a.asPosUsize = b.asPosUsize := by
  obtain ⟨x, ha, hb, wa, wb⟩ := h
  have key : ∀ x : Int, fitsIsize x = true → Num.asPosUsize (.int x) = Num.asPosUsize (.big x) := by
    intro x h
    have hu := fits_usize h
    simp only [Num.asPosUsize, hu, if_true]
    congr 1
    by_cases h0 : x < 0 <;> simp [h0] <;> omega
  rcases isInt_cases ha with rfl | rfl <;> rcases isInt_cases hb with rfl | rfl
  · rfl
  · exact key x wa
  · exact (key x wb).symm
  · rfl

theorem repr_independent_repCount {a b : Num} (h : SameInt a b) : Val.repCount a = Val.repCount b := by
  obtain ⟨x, ha, hb, wa, wb⟩ := h
  rcases isInt_cases ha with rfl | rfl <;> rcases isInt_cases hb with rfl | rfl <;>
    simp_all [Val.repCount, Num.wf, bigintToIntSaturated]

theorem repr_independent_toF64 {a b : Num} (h : SameInt a b) : a.toF64 = b.toF64 := by
  obtain ⟨x, ha, hb, _, _⟩ := h
  rcases isInt_cases ha with rfl | rfl <;> rcases isInt_cases hb with rfl | rfl <;> rfl

/-- comparison and equality against any third number do not see the representation -/
theorem repr_independent_cmp {a b : Num} (h : SameInt a b) (c : Num) :
    Num.cmp a c = Num.cmp b c ∧ Num.cmp c a = Num.cmp c b ∧
    Num.eq a c = Num.eq b c ∧ Num.eq c a = Num.eq c b := by
  obtain ⟨x, ha, hb, _, _⟩ := h
  have key : ∀ c : Num,
      Num.cmp (.int x) c = Num.cmp (.big x) c ∧ Num.cmp c (.int x) = Num.cmp c (.big x) ∧
      Num.eq (.int x) c = Num.eq (.big x) c ∧ Num.eq c (.int x) = Num.eq c (.big x) := by
    intro c
    cases c <;> simp only [Num.cmp, Num.eq, Num.undec, Num.ofDecStr] <;> simp
  rcases isInt_cases ha with rfl | rfl <;> rcases isInt_cases hb with rfl | rfl
  · exact ⟨rfl, rfl, rfl, rfl⟩
  · exact key c
  · obtain ⟨h1, h2, h3, h4⟩ := key c
    exact ⟨h1.symm, h2.symm, h3.symm, h4.symm⟩
  · exact ⟨rfl, rfl, rfl, rfl⟩

theorem repr_independent_arith {a b : Num} (h : SameInt a b) {c : Num} {y : Int} (hc : IsInt c y) :
    (Num.add a c).intVal? = (Num.add b c).intVal? ∧ (Num.sub a c).intVal? = (Num.sub b c).intVal? ∧
    (Num.mul a c).intVal? = (Num.mul b c).intVal? ∧ (Num.neg a).intVal? = (Num.neg b).intVal? := by
  obtain ⟨x, ha, hb, _, _⟩ := h
  refine ⟨?_, ?_, ?_, ?_⟩
  · rw [int_add_exact ha hc, int_add_exact hb hc]
  · rw [int_sub_exact ha hc, int_sub_exact hb hc]
  · rw [int_mul_exact ha hc, int_mul_exact hb hc]
  · rw [int_neg_exact ha, int_neg_exact hb]


/-! ## Round 2 — representation independence completed, consumer by consumer

`SameInt a b`: two well-formed representations (machine / big) of the same integer.  The consumer
models are in `JaqVerif/C09/Consumers.lean` (function by function after the Rust code, tied to it
by the `c09.*` correspondence ops).  Besides independence, each consumer is shown to compute the
documented function of the integer *value* for every magnitude (`…_exact`). -/

/-- **hash**: the machine and the big representation of an integer feed the same words to the
hasher (so an `IndexMap` probe for one finds a key stored as the other) -/
theorem repr_independent_hash {a b : Num} (h : SameInt a b) : Num.hashFeed a = Num.hashFeed b :=
  sameInt_elim (P := fun a b => Num.hashFeed a = Num.hashFeed b) h (fun _ => rfl)
    (fun x hx => ⟨hashFeed_repr x hx, (hashFeed_repr x hx).symm⟩)

/-- comparison as the tree has it now (`big_float_cmp`, fix 18a519c), against every third number -/
theorem repr_independent_cmp_tree {a b : Num} (h : SameInt a b) (c : Num) :
    numCmp a c = numCmp b c ∧ numCmp c a = numCmp c b :=
  sameInt_elim (P := fun a b => numCmp a c = numCmp b c ∧ numCmp c a = numCmp c b) h
    (fun _ => ⟨rfl, rfl⟩)
    (fun x hx => ⟨numCmp_repr x hx c, ((numCmp_repr x hx c).1.symm), ((numCmp_repr x hx c).2.symm)⟩)

/-- on integers (any representation, any magnitude) the comparison is the comparison of the values
and `==` is equality of the values -/
theorem int_cmp_exact {a b : Num} {x y : Int} (ha : IsInt a x) (hb : IsInt b y) :
    numCmp a b = compare x y ∧ Num.cmp a b = compare x y ∧ Num.eq a b = (x == y) := by
  refine ⟨numCmp_ints ha hb, ?_, numEq_ints ha hb⟩
  rcases isInt_cases ha with rfl | rfl <;> rcases isInt_cases hb with rfl | rfl <;> rfl

/-- **indexing** of arrays and byte strings -/
theorem repr_independent_index {a b : Num} (h : SameInt a b) (l : List Val) (s : List UInt8) :
    indexArr l (.num a) = indexArr l (.num b) ∧ indexBytes s (.num a) = indexBytes s (.num b) :=
  sameInt_elim (P := fun a b => indexArr l (.num a) = indexArr l (.num b) ∧
      indexBytes s (.num a) = indexBytes s (.num b)) h (fun _ => ⟨rfl, rfl⟩)
    (fun x hx => by
      simp only [indexArr, indexBytes, Num.isInt, asPosUsize_repr x hx]
      simp)

/-- … and what it computes: position `x` from the front, `-x` from the back, `null` (here `none`)
outside, for an integer of **any** magnitude (also beyond `usize::MAX`, where the repaired
`as_pos_usize` saturates) in either representation -/
theorem index_exact {n : Num} {x : Int} (h : IsInt n x) (l : List Val) (hl : l.length < usizeMaxNat) :
    indexArr l (.num n) = .ok ((posOf x l.length).bind fun j => l[j]?) := by
  have hi : n.isInt = true := by rcases isInt_cases h with rfl | rfl <;> rfl
  simp only [indexArr, hi, if_true]
  rw [absIndex_int n x h l.length hl]

/-- **slicing**: a bound may be given in either representation, on either side, for arrays,
byte strings and text strings -/
theorem repr_independent_slice {a b : Num} (h : SameInt a b) (o : Val) (l : List Val) (s : List UInt8) :
    sliceArr l (.num a) o = sliceArr l (.num b) o ∧ sliceArr l o (.num a) = sliceArr l o (.num b) ∧
    sliceBytes s (.num a) o = sliceBytes s (.num b) o ∧ sliceBytes s o (.num a) = sliceBytes s o (.num b) ∧
    sliceText s (.num a) o = sliceText s (.num b) o ∧ sliceText s o (.num a) = sliceText s o (.num b) :=
  sameInt_elim (P := fun a b =>
    sliceArr l (.num a) o = sliceArr l (.num b) o ∧ sliceArr l o (.num a) = sliceArr l o (.num b) ∧
    sliceBytes s (.num a) o = sliceBytes s (.num b) o ∧ sliceBytes s o (.num a) = sliceBytes s o (.num b) ∧
    sliceText s (.num a) o = sliceText s (.num b) o ∧ sliceText s o (.num a) = sliceText s o (.num b)) h
    (fun _ => ⟨rfl, rfl, rfl, rfl, rfl, rfl⟩)
    (fun x hx => by
      simp only [sliceArr, sliceBytes, sliceText, rangeInt, rangeBound_repr x hx]
      simp)

/-- … and what it computes: both bounds clipped into `[0, len]` (`clip`), for integers of any
magnitude in any representation -/
theorem slice_exact {a b : Num} {x y : Int} (ha : IsInt a x) (hb : IsInt b y) (l : List Val)
    (hl : l.length ≤ usizeMaxNat) :
    sliceArr l (.num a) (.num b) =
      .ok ((l.drop (clip x l.length)).take (clip y l.length - clip x l.length)) := by
  have pa : ∃ p, asPosUsize a = some p := by rcases isInt_cases ha with rfl | rfl <;> exact ⟨_, rfl⟩
  have pb : ∃ p, asPosUsize b = some p := by rcases isInt_cases hb with rfl | rfl <;> exact ⟨_, rfl⟩
  obtain ⟨p, hp⟩ := pa
  obtain ⟨q, hq⟩ := pb
  have e1 := absBound_int a x ha l.length 0 hl
  have e2 := absBound_int b y hb l.length l.length hl
  rw [hp] at e1; rw [hq] at e2
  simp only [sliceArr, rangeInt, rangeBound, hp, hq, skipTake, e1, e2]

/-- **`limit`**: the counter loop (`while_gtz!`: test `> 0`, subtract 1 with the value arithmetic)
takes exactly `max x 0` outputs for an integer count of any magnitude in any representation -/
theorem limit_exact {α : Type} {n : Num} {x : Int} (h : IsInt n x) (xs : List α) :
    limit n xs = xs.take x.toNat :=
  limitGo_int _ n x xs h (Nat.lt_succ_self _)

/-- **`skip`**: drops exactly `max x 0` outputs (errors among them are passed on, as the code does) -/
theorem skip_exact {α : Type} (isErr : α → Bool) {n : Num} {x : Int} (h : IsInt n x) (xs : List α) :
    skip isErr n xs = (xs.take x.toNat).filter isErr ++ xs.drop x.toNat :=
  skipGo_int isErr _ n x xs h (Nat.lt_succ_self _)

theorem repr_independent_limit_skip {α : Type} (isErr : α → Bool) {a b : Num} (h : SameInt a b) (xs : List α) :
    limit a xs = limit b xs ∧ skip isErr a xs = skip isErr b xs := by
  obtain ⟨x, ha, hb, _, _⟩ := h
  rw [limit_exact ha, limit_exact hb, skip_exact isErr ha, skip_exact isErr hb]
  exact ⟨rfl, rfl⟩

/-- **`range($from; $to; $by)`** on integers: every output is an integer, and the outputs are
exactly `from, from+by, from+2·by, …` while the loop condition holds — exact stepping at any
magnitude, whatever the representations of the three arguments and of the running value
(which changes representation when it crosses ±2^63) -/
theorem range_exact (fuel : Nat) {vf vt vb : Num} {f t b : Int}
    (hf : IsInt vf f) (ht : IsInt vt t) (hb : IsInt vb b) :
    (range fuel vf vt vb).map Num.intVal? = (rangeInts fuel f t b).map some := by
  unfold range
  rw [numCmp_ints hb (show IsInt (.int 0) 0 from rfl)]
  exact rangeGo_int fuel vf vt vb f t b hf ht hb

theorem repr_independent_range (fuel : Nat) {a a' b b' c c' : Num}
    (h1 : SameInt a a') (h2 : SameInt b b') (h3 : SameInt c c') :
    (range fuel a b c).map Num.intVal? = (range fuel a' b' c').map Num.intVal? := by
  obtain ⟨x, ha, ha', _, _⟩ := h1
  obtain ⟨y, hb, hb', _, _⟩ := h2
  obtain ⟨z, hc, hc', _, _⟩ := h3
  rw [range_exact fuel ha hb hc, range_exact fuel ha' hb' hc']

/-- **`tobytes`**, **`implode`**, **`ldexp/scalb/scalbln` exponent** (`try_as_isize`, `try_as_i32`) -/
theorem repr_independent_isize_consumers {a b : Num} (h : SameInt a b) :
    byteOfNum a = byteOfNum b ∧ toBytes (.num a) = toBytes (.num b) ∧
    tryAsIsize (.num a) = tryAsIsize (.num b) ∧ tryAsI32 (.num a) = tryAsI32 (.num b) ∧
    implode1 (.num a) = implode1 (.num b) ∧
    (∀ pre post, implode (pre ++ .num a :: post) = implode (pre ++ .num b :: post)) :=
  sameInt_elim (P := fun a b => byteOfNum a = byteOfNum b ∧ toBytes (.num a) = toBytes (.num b) ∧
    tryAsIsize (.num a) = tryAsIsize (.num b) ∧ tryAsI32 (.num a) = tryAsI32 (.num b) ∧
    implode1 (.num a) = implode1 (.num b) ∧
    (∀ pre post, implode (pre ++ .num a :: post) = implode (pre ++ .num b :: post))) h
    (fun _ => ⟨rfl, rfl, rfl, rfl, rfl, fun _ _ => rfl⟩)
    (fun x hx => by
      have e := asIsize_repr x hx
      have i1 : implode1 (.num (.int x)) = implode1 (.num (.big x)) := by
        simp only [implode1, tryAsIsize, e]
      refine ⟨⟨?_, ?_, ?_, ?_, i1, fun pre post => implode_congr pre post _ _ i1⟩,
              ⟨?_, ?_, ?_, ?_, i1.symm, fun pre post => implode_congr pre post _ _ i1.symm⟩⟩ <;>
        simp only [byteOfNum, toBytes, toBytesF, Val.size, tryAsI32, tryAsIsize, e])

/-- what they compute from the value: a byte for `0..=255`; an `i32` exponent for `-2^31 ..= 2^31-1`
(out of range is an error in **both** representations, never a wrapped value) -/
theorem isize_consumers_exact {n : Num} {x : Int} (h : IsInt n x) (w : n.wf = true) :
    byteOfNum n = (if 0 ≤ x ∧ x ≤ 255 then some (UInt8.ofNat x.toNat) else none) ∧
    tryAsI32 (.num n) = (if -2147483648 ≤ x ∧ x ≤ 2147483647 then .ok x
                         else if fitsIsize x then .error .other else .error .typInt) := by
  have e := asIsize_int h w
  by_cases hf : fitsIsize x = true
  · simp only [byteOfNum, tryAsI32, tryAsIsize, e, hf, if_true]
    simp
  · have hb := not_fits hf
    simp only [byteOfNum, tryAsI32, tryAsIsize, e, hf, if_false, Bool.false_eq_true]
    refine ⟨?_, ?_⟩
    · rw [if_neg (by omega)]
    · rw [if_neg (by omega)]

/-- **object keys**: a look-up with one representation finds the key stored as the other
(hash feed and `==` agree), and an entry stored under either representation is found by the same keys -/
theorem repr_independent_key {a b : Num} (h : SameInt a b) (o : Obj.Entries) (k v : Val) :
    Obj.get o (.num a) = Obj.get o (.num b) ∧ Obj.has o (.num a) = Obj.has o (.num b) ∧
    Obj.get ((.num a, v) :: o) k = Obj.get ((.num b, v) :: o) k :=
  sameInt_elim (P := fun a b => Obj.get o (.num a) = Obj.get o (.num b) ∧
      Obj.has o (.num a) = Obj.has o (.num b) ∧
      Obj.get ((.num a, v) :: o) k = Obj.get ((.num b, v) :: o) k) h (fun _ => ⟨rfl, rfl, rfl⟩)
    (fun x hx => by
      have g1 := get_congr o (.num (.int x)) (.num (.big x)) (fun q => (sameKey_repr x hx q).1)
      have s2 := (sameKey_repr x hx k).2
      refine ⟨⟨g1, by simp only [Obj.has, g1], ?_⟩, ⟨g1.symm, by simp only [Obj.has, g1], ?_⟩⟩ <;>
        (simp only [Obj.get, List.find?_cons, s2]; cases Obj.sameKey k (.num (.big x)) <;> rfl))

/-- **decimal rendering** (`tostring`, `tojson`, `@text`, `@json`): the text depends on the value only
and reads back as exactly that integer, at any size -/
theorem int_render_exact {n : Num} {x : Int} (h : IsInt n x) :
    renderInt n = some (C07.intText x) ∧ C07.intOfText (C07.intText x) = x := by
  refine ⟨?_, C07.intOfText_intText x⟩
  rcases isInt_cases h with rfl | rfl <;> rfl

theorem repr_independent_render {a b : Num} (h : SameInt a b) : renderInt a = renderInt b := by
  obtain ⟨x, ha, hb, _, _⟩ := h
  rw [(int_render_exact ha).1, (int_render_exact hb).1]

example : indexArr [.null, .bool true] (.num (.big (-1))) = .ok (some (.bool true)) := by rfl
example : sliceArr [.null, .bool true] (.num (.big (-36893488147419103232))) (.num (.big 36893488147419103232))
    = .ok [.null, .bool true] := by rfl
example : (range 5 (.int 9223372036854775806) (.big 9223372036854775810) (.int 2)).map Num.intVal?
    = [some 9223372036854775806, some 9223372036854775808] := by decide
example : limit (.big 2) [1, 2, 3] = [1, 2] := by decide


/-! ## Round 2 — the IEEE side: "otherwise the IEEE-754 double result of the converted operands"

The shared float model `Jaq.F64` computes every result with one rounding step `F64.roundRat`.
`RoundsToNearestEven neg num den r` (Lemmas/C09Ieee.lean) is the explicit rational specification:
`r` is finite, has the sign `neg`, **no finite double is closer to `num/den`** (a finite `g` has the
value `magUnits g · 2^-1074`; distances are compared after multiplying with `den · 2^1074`), and on
a tie the significand of `r` is even.  The model is compared bit for bit with the hardware on every
run, which ties these theorems to the code. -/

/-- **the rounding step is correct rounding**: infinity of the requested sign, or nearest-even -/
theorem roundRat_correct (neg : Bool) (num den : Nat) (hn : 0 < num) (hd : 0 < den) :
    F64.roundRat neg num den = F64.inf neg ∨ RoundsToNearestEven neg num den (F64.roundRat neg num den) :=
  roundRat_correct_lem neg num den hn hd

/-- `i as f64` / `BigInt::to_f64`: round-to-nearest-even of the integer (overflow gives infinity) -/
theorem ofInt_correctly_rounded (i : Int) (hi : i ≠ 0) :
    F64.ofInt i = F64.inf (decide (i < 0)) ∨
    RoundsToNearestEven (decide (i < 0)) i.natAbs 1 (F64.ofInt i) := ofInt_lem i hi

/-- `+` on finite doubles: the exact sum (`units` = value in units of `2^-1074`) correctly rounded;
an exact zero sum is `-0` only if both operands are negative, else `+0` -/
theorem add_correctly_rounded {a b : UInt64} (ha : F64.isFinite a = true) (hb : F64.isFinite b = true) :
    (F64.units a + F64.units b = 0 → F64.add a b = F64.zero (F64.signBit a && F64.signBit b)) ∧
    (F64.units a + F64.units b ≠ 0 →
      F64.add a b = F64.inf (decide (F64.units a + F64.units b < 0)) ∨
      RoundsToNearestEven (decide (F64.units a + F64.units b < 0)) (F64.units a + F64.units b).natAbs
        (2 ^ 1074) (F64.add a b)) := add_lem ha hb

/-- `-` is `+` of the negated right operand (negation flips the sign bit only) -/
theorem sub_is_add_neg (a b : UInt64) (hb : F64.isNaN b = false) :
    F64.sub a b = F64.add a (F64.neg b) := by
  simp only [F64.sub, hb, Bool.false_eq_true, if_false]

/-- `*` on finite non-zero doubles: the exact product correctly rounded, sign = xor of the signs -/
theorem mul_correctly_rounded {a b : UInt64} (ha : F64.isFinite a = true) (hb : F64.isFinite b = true)
    (pa : 0 < F64.magUnits a) (pb : 0 < F64.magUnits b) :
    F64.mul a b = F64.inf (F64.signBit a != F64.signBit b) ∨
    RoundsToNearestEven (F64.signBit a != F64.signBit b) (F64.magUnits a * F64.magUnits b) (2 ^ 2148)
      (F64.mul a b) := mul_lem ha hb pa pb

/-- `/` on finite non-zero doubles: the exact quotient correctly rounded -/
theorem div_correctly_rounded {a b : UInt64} (ha : F64.isFinite a = true) (hb : F64.isFinite b = true)
    (pa : 0 < F64.magUnits a) (pb : 0 < F64.magUnits b) :
    F64.div a b = F64.inf (F64.signBit a != F64.signBit b) ∨
    RoundsToNearestEven (F64.signBit a != F64.signBit b) (F64.magUnits a) (F64.magUnits b) (F64.div a b) :=
  div_lem ha hb pa pb

/-- the special operands of `+ * /` as IEEE 754 has them: NaN propagates, `∞ − ∞`, `0 · ∞`, `∞ / ∞`,
`0 / 0` are NaN, `x / 0` is a signed infinity, `x / ∞` and `0 / x` a signed zero -/
theorem ieee_special_cases (a b : UInt64) :
    (F64.isNaN a = true ∨ F64.isNaN b = true →
      F64.add a b = F64.nan ∧ F64.mul a b = F64.nan ∧ F64.div a b = F64.nan ∧ F64.rem a b = F64.nan) ∧
    (F64.isNaN a = false → F64.isNaN b = false →
      (F64.isInf a = true → F64.isInf b = true → F64.signBit a ≠ F64.signBit b → F64.add a b = F64.nan) ∧
      (F64.isInf a = true → F64.isZero b = true → F64.mul a b = F64.nan) ∧
      (F64.isInf a = true → F64.isInf b = true → F64.div a b = F64.nan) ∧
      (F64.isInf a = false → F64.isInf b = false → F64.isZero a = true → F64.isZero b = true → F64.div a b = F64.nan) ∧
      (F64.isInf a = false → F64.isInf b = false → F64.isZero a = false → F64.isZero b = true →
        F64.div a b = F64.inf (F64.signBit a != F64.signBit b)) ∧
      (F64.isInf a = false → F64.isInf b = true → F64.div a b = F64.zero (F64.signBit a != F64.signBit b)) ∧
      (F64.isZero b = true → F64.rem a b = F64.nan) ∧ (F64.isInf a = true → F64.rem a b = F64.nan)) := by
  refine ⟨fun h => ?_, fun na nb => ⟨?_, ?_, ?_, ?_, ?_, ?_, ?_, ?_⟩⟩
  · rcases h with h | h <;> simp [F64.add, F64.mul, F64.div, F64.rem, h]
  · intro ia ib hs; simp [F64.add, na, nb, ia, ib, hs]
  · intro ia zb; simp [F64.mul, na, nb, ia, zb]
  · intro ia ib; simp [F64.div, na, nb, ia, ib]
  · intro ia ib za zb; simp [F64.div, na, nb, ia, ib, za, zb]
  · intro ia ib za zb; simp [F64.div, na, nb, ia, ib, za, zb]
  · intro ia ib; simp [F64.div, na, nb, ia, ib]
  · intro zb; simp [F64.rem, na, nb, zb]
  · intro ia; simp [F64.rem, na, nb, ia]

/-- `%` on finite doubles with a non-zero divisor is C `fmod`: the remainder of the exact magnitudes,
sign of the dividend.  PARTIAL: that the rounding step applied to this remainder is the identity
(the remainder is representable) is validated by the bit-for-bit correspondence, not proved. -/
theorem rem_is_fmod_partial {a b : UInt64} (ha : F64.isFinite a = true) (hb : F64.isFinite b = true)
    (pb : 0 < F64.magUnits b) :
    (F64.magUnits a % F64.magUnits b = 0 → F64.rem a b = F64.zero (F64.signBit a)) ∧
    (F64.magUnits a % F64.magUnits b ≠ 0 →
      F64.rem a b = F64.roundRat (F64.signBit a) (F64.magUnits a % F64.magUnits b) (2 ^ 1074)) :=
  rem_lem ha hb pb

-- not proved (kept visible): the overflow threshold in closed form,
--   `F64.roundRat neg num den = F64.inf neg ↔ den * (2^1025 - 2^971) ≤ 2 * num`
-- (`roundRat_correct` says "infinity or nearest-even"; the case split is by `s·2^52 + q ≥ 2047·2^52`
-- of `roundRat_shape`), and exactness of `F64.rem` (see `rem_is_fmod_partial`).

/-- the hypotheses are met by ordinary operands: `1/3` -/
example : F64.isFinite (F64.ofInt 1) = true ∧ F64.isFinite (F64.ofInt 3) = true ∧
    F64.isZero (F64.ofInt 1) = false ∧ F64.isZero (F64.ofInt 3) = false := by decide
example : F64.roundRat false 1 3 = F64.inf false ∨ RoundsToNearestEven false 1 3 (F64.roundRat false 1 3) :=
  roundRat_correct false 1 3 (by decide) (by decide)

/-! ### the non-numeric cases of the operators (manual, "Arithmetic operators") -/

theorem null_neutral_add (x : Val) : Val.add .null x = .ok x ∧ Val.add x .null = .ok x := by
  cases x <;> simp [Val.add]

theorem concat_add (x y : List UInt8) (a b : List Val) :
    Val.add (.tstr x) (.tstr y) = .ok (.tstr (x ++ y)) ∧
    Val.add (.bstr x) (.bstr y) = .ok (.bstr (x ++ y)) ∧
    Val.add (.arr a) (.arr b) = .ok (.arr (a ++ b)) := ⟨rfl, rfl, rfl⟩

/-- object `+`: right-biased union keeping left positions (insert = replace in place or append) -/
theorem obj_add_is_extend (l r : Obj.Entries) :
    Val.add (.obj l) (.obj r) = .ok (.obj (r.foldl (fun acc kv => Obj.insert acc kv.1 kv.2) l)) := by
  simp [Val.add, Obj.extend]

theorem insert_keeps_left_positions (o : Obj.Entries) (k v : Val) :
    (Obj.insert o k v).map (·.1) = if Obj.has o k then o.map (·.1) else o.map (·.1) ++ [k] := by
  unfold Obj.insert
  split
  · simp only [List.map_map]
    congr 1
    funext kv
    obtain ⟨k', v'⟩ := kv
    simp only [Function.comp]
    split <;> rfl
  · simp

theorem str_mul_repeat (s : List UInt8) (i : Int) :
    Val.mul (.tstr s) (.num (.int i)) =
      (if i > 0 then .ok (.tstr (bytesRepeat s i.toNat)) else .ok .null) ∧
    Val.mul (.num (.int i)) (.tstr s) =
      (if i > 0 then .ok (.tstr (bytesRepeat s i.toNat)) else .ok .null) := by
  simp [Val.mul, Val.repCount]

theorem sat_nonpos {i : Int} (hi : i ≤ 0) : ¬ (bigintToIntSaturated i > 0) := by
  unfold bigintToIntSaturated
  by_cases hf : fitsIsize i = true
  · simp only [hf, if_true]; omega
  · have hlt : i < 0 := by
      rw [fitsIsize_iff] at hf; omega
    simp only [hf, hlt, if_true, isizeMin]
    omega

/-- string repetition: `null` for counts ≤ 0, for every representation of the count -/
theorem str_mul_nonpositive_null (s : List UInt8) (n : Num) (i : Int) (h : IsInt n i) (hi : i ≤ 0) :
    Val.mul (.tstr s) (.num n) = .ok .null ∧ Val.mul (.bstr s) (.num n) = .ok .null := by
  rcases isInt_cases h with rfl | rfl
  · refine ⟨?_, ?_⟩ <;> simp only [Val.mul, Val.repCount] <;> rw [if_neg (by omega)]
  · refine ⟨?_, ?_⟩ <;> simp only [Val.mul, Val.repCount] <;> rw [if_neg (sat_nonpos hi)]

/-- array `-` removes **all** elements equal (under the order's equality) to some element of the right -/
theorem arr_sub_removes_all_equal (x y : List Val) (e : Val) :
    Val.sub (.arr x) (.arr y) = .ok (.arr (x.filter fun e => !(y.any fun e' => Val.cmp e' e == .eq))) ∧
    (e ∈ (x.filter fun e => !(y.any fun e' => Val.cmp e' e == .eq)) ↔
      e ∈ x ∧ ∀ e' ∈ y, Val.cmp e' e ≠ .eq) := by
  refine ⟨rfl, ?_⟩
  simp [List.mem_filter]

/-- everything else is an error -/
theorem sub_else_errors (l r : Val) (h1 : ∀ x y, ¬ (l = .num x ∧ r = .num y))
    (h2 : ∀ x y, ¬ (l = .arr x ∧ r = .arr y)) : ∃ e, Val.sub l r = .error e := by
  cases l <;> cases r <;> simp_all [Val.sub]

theorem neg_else_errors (v : Val) (h : ∀ n, v ≠ .num n) : ∃ e, Val.neg v = .error e := by
  cases v <;> simp_all [Val.neg]

theorem rem_else_errors (l r : Val) (h : ∀ x y, ¬ (l = .num x ∧ r = .num y)) :
    ∃ e, Val.rem l r = .error e := by
  cases l <;> cases r <;> simp_all [Val.rem]


/-! ### round 2: the remaining operator equations -/

/-- **object `*` merges recursively** (fuel-free law of `obj_merge`): the right entries are folded in
order into the left object by `mergeStep`: a key present on both sides with object values is merged
recursively *in place*, any other key present on the left is overwritten in place (key and position
kept), a new key is appended -/
theorem obj_mul_recursive_merge (l r : Obj.Entries) :
    Val.mul (.obj l) (.obj r) = .ok (.obj (r.foldl (mergeStep objMerge) l)) :=
  obj_mul_recursive_merge_lem l r

/-- the three cases of one merged entry, and the empty right operand -/
theorem obj_merge_cases (l : Obj.Entries) (k v x : Val) (lo ro : Obj.Entries) :
    objMerge l [] = l ∧
    (Obj.get l k = none → objMerge l [(k, v)] = l ++ [(k, v)]) ∧
    (Obj.get l k = some (.obj lo) → objMerge l [(k, .obj ro)] = replaceAt l k (.obj (objMerge lo ro))) ∧
    (Obj.get l k = some x → (∀ lo, x ≠ .obj lo) → objMerge l [(k, v)] = replaceAt l k v) ∧
    (Obj.get l k = some x → (∀ ro, v ≠ .obj ro) → objMerge l [(k, v)] = replaceAt l k v) ∧
    (replaceAt l k v).map (·.1) = l.map (·.1) :=
  ⟨objMerge_nil l, objMerge_absent l k v, objMerge_both_obj l k lo ro,
   objMerge_left_nonobj l k v x, objMerge_right_nonobj l k v x, replaceAt_keys l k v⟩

/-- merging is sequential in the right operand -/
theorem obj_merge_append (l r₁ r₂ : Obj.Entries) :
    objMerge l (r₁ ++ r₂) = objMerge (objMerge l r₁) r₂ := by
  rw [objMerge_eq_foldl, objMerge_eq_foldl (objMerge l r₁), objMerge_eq_foldl l r₁, List.foldl_append]

/-- **string `/` splits with `join` as its inverse** — for every string and every separator: a
non-empty separator (leftmost non-overlapping occurrences), the empty separator (the parts are the
characters), the empty string (no parts; `[] | join(s)` is `""`).  `joinBytes` follows `def join` of
`defs.jq`; it is `List.intercalate`. -/
theorem join_split_inverse (s sep : List UInt8) : joinBytes sep (splitBytes s sep) = s :=
  join_split_inverse_lem s sep

theorem div_join_inverse (s sep : List UInt8) :
    Val.div (.tstr s) (.tstr sep) = .ok (.arr ((splitBytes s sep).map .tstr)) ∧
    joinBytes sep (splitBytes s sep) = s := div_join_inverse_lem s sep

/-- the edge cases as the code has them, and: no part contains a non-empty separator -/
theorem split_edge_cases (s sep : List UInt8) :
    splitBytes [] sep = [] ∧ (s ≠ [] → splitBytes s [] = Utf8.chars s) ∧
    (s ≠ [] → sep ≠ [] → splitBytes s sep ≠ []) ∧
    (sep ≠ [] → ∀ p ∈ splitBytes s sep, ¬ sep <:+: p) ∧
    joinBytes sep (splitBytes s sep) = List.intercalate sep (splitBytes s sep) :=
  ⟨splitBytes_nil sep, splitBytes_empty_sep s, splitBytes_ne_nil s sep,
   split_parts_not_infix_lem s sep, joinBytes_eq_intercalate sep _⟩

/-- **everything else is an error**, by exhaustive constructor cases, for `+`, `*`, `/`
(`-`, `%`, unary `-`: `sub_else_errors`, `rem_else_errors`, `neg_else_errors` above) -/
theorem add_else_errors (l r : Val) (h0 : l ≠ .null) (h0' : r ≠ .null)
    (h1 : ∀ x y, ¬ (l = .num x ∧ r = .num y)) (h2 : ∀ x y, ¬ (l = .bstr x ∧ r = .bstr y))
    (h3 : ∀ x y, ¬ (l = .tstr x ∧ r = .tstr y)) (h4 : ∀ x y, ¬ (l = .arr x ∧ r = .arr y))
    (h5 : ∀ x y, ¬ (l = .obj x ∧ r = .obj y)) : Val.add l r = .error (.math l "+" r) :=
  add_else_errors_lem l r h0 h0' h1 h2 h3 h4 h5

theorem mul_else_errors (l r : Val) (h1 : ∀ x y, ¬ (l = .num x ∧ r = .num y)) (h2 : ∀ x y, ¬ (l = .obj x ∧ r = .obj y))
    (h3 : ∀ s n, ¬ (l = .tstr s ∧ r = .num n)) (h4 : ∀ s n, ¬ (l = .num n ∧ r = .tstr s))
    (h5 : ∀ s n, ¬ (l = .bstr s ∧ r = .num n)) (h6 : ∀ s n, ¬ (l = .num n ∧ r = .bstr s)) :
    Val.mul l r = .error (.math l "*" r) :=
  mul_else_errors_lem l r h1 h2 h3 h4 h5 h6

/-- … and a string times a number that is not an integer is an error as well -/
theorem str_mul_nonint_errors (s : List UInt8) (n : Num) (h : n.isInt = false) :
    (∃ e, Val.mul (.tstr s) (.num n) = .error e) ∧ (∃ e, Val.mul (.num n) (.tstr s) = .error e) ∧
    (∃ e, Val.mul (.bstr s) (.num n) = .error e) ∧ (∃ e, Val.mul (.num n) (.bstr s) = .error e) :=
  str_mul_nonint_errors_lem s n h

theorem div_else_errors (l r : Val) (h1 : ∀ x y, ¬ (l = .num x ∧ r = .num y))
    (h2 : ∀ x y, ¬ (l = .tstr x ∧ r = .tstr y)) (h3 : ∀ x y, ¬ (l = .bstr x ∧ r = .bstr y)) :
    Val.div l r = .error (.math l "/" r) :=
  div_else_errors_lem l r h1 h2 h3

example : Val.add (.bool true) (.num (.int 1)) = .error (.math (.bool true) "+" (.num (.int 1))) :=
  add_else_errors _ _ (by simp) (by simp) (by simp) (by simp) (by simp) (by simp) (by simp)

/-! ### non-vacuity: concrete states meeting the hypotheses -/

example : SameInt (.int 5) (.big 5) := ⟨5, rfl, rfl, by decide, by decide⟩
example : IsInt (Num.add (.int isizeMax) (.int 1)) (isizeMax + 1) :=
  int_add_exact (a := .int isizeMax) (b := .int 1) rfl rfl
example : Num.add (.int isizeMax) (.int 1) = .big 9223372036854775808 := by decide
example : Num.sub (.big 9223372036854775808) (.big 9223372036854775808) = .big 0 := by decide

end Jaq.C09
