/-
  C12 — collection built-ins obey the invariants and equations the manual states.

  Property theorems about the impl-model `JaqVerif/C12/{Sort,Coll}.lean` (tied to the Rust
  code by the correspondence of `checks/c12.py`).  The sorting theorems are generic in the
  element type `α`, key type `κ`, error type `ε`, comparison `c` and equality `e`; the order
  laws enter through ONE hypothesis, `TotalPreorder c` / `OrderLaws c e` (C08 proves them for
  `Val.cmp` / `Val.eq`).  A key filter is a function `kf : α → Except ε (List κ)` (all outputs
  of the filter on the element, or its first error); `key` names its results where it succeeds.
-/
import JaqVerif.Lemmas.C12Sort
import JaqVerif.Lemmas.C12Flat
import JaqVerif.Lemmas.C12More
import JaqVerif.Lemmas.C12Defs
import JaqVerif.Gen.C12Defs
import JaqVerif.Lemmas.C12Val08

namespace Jaq.Coll

section sorting
variable {α κ ε : Type} {c : κ → κ → Ordering} {e : κ → κ → Bool}
variable {kf : α → Except ε (List κ)} {key : α → List κ}

/-- `a` is not after `b` in the order of their key vectors -/
abbrev KeyLe (c : κ → κ → Ordering) (key : α → List κ) (a b : α) : Prop := lexCmp c (key a) (key b) ≠ .gt
abbrev KeyLt (c : κ → κ → Ordering) (key : α → List κ) (a b : α) : Prop := lexCmp c (key a) (key b) = .lt
abbrev KeyEq (c : κ → κ → Ordering) (key : α → List κ) (a b : α) : Prop := lexCmp c (key a) (key b) = .eq

/-! ### `sort_by` -/

/-- what `sort_by(f)` computes where every key evaluation succeeds: the stable sort of the
key-decorated array (arrays shorter than 2 are returned as they are) -/
theorem sortByKey_ok (xs : List α) (hk : ∀ x ∈ xs, kf x = .ok (key x)) :
    sortByKey c kf xs = .ok ((isort (keyCmp c) (xs.map fun x => (key x, x))).map (·.2)) := by
  unfold sortByKey
  split
  · next hlen =>
    congr 1
    match xs, hlen with
    | [], _ => rfl
    | [x], _ => rfl
    | _ :: _ :: _, hlen => simp at hlen; omega
  · rw [decorate_ok hk]

/-- **`sort_by(f)` = `sort_by([f])`** — the manual's correspondence — for any way `wrap` of
turning the outputs of `f` into ONE value that is compared like its contents (arrays:
`c (wrap x) (wrap y) = lexCmp c x y`; no order law is needed). -/
theorem sortBy_eq_sortBy_singleton (wrap : List κ → κ)
    (hwrap : ∀ x y, c (wrap x) (wrap y) = lexCmp c x y) (xs : List α) :
    sortByKey c (fun x => (kf x).map fun ys => [wrap ys]) xs = sortByKey c kf xs := by
  have hcmp : ∀ (p q : List κ × α), keyCmp c ([wrap p.1], p.2) ([wrap q.1], q.2) = keyCmp c p q := by
    intro p q
    show lexCmp c [wrap p.1] [wrap q.1] = lexCmp c p.1 q.1
    rw [lexCmp_cons_cons, hwrap]
    cases lexCmp c p.1 q.1 <;> rfl
  have hins : ∀ (p : List κ × α) (l : List (List κ × α)),
      insSt (keyCmp c) ([wrap p.1], p.2) (l.map fun q => ([wrap q.1], q.2)) =
        (insSt (keyCmp c) p l).map fun q => ([wrap q.1], q.2) := by
    intro p l
    induction l with
    | nil => rfl
    | cons q l ih =>
      rw [List.map_cons, insSt_cons, insSt_cons, hcmp]
      split
      · rw [ih]; rfl
      · rfl
  have hsort : ∀ l : List (List κ × α),
      isort (keyCmp c) (l.map fun q => ([wrap q.1], q.2)) = (isort (keyCmp c) l).map fun q => ([wrap q.1], q.2) := by
    intro l
    induction l with
    | nil => rfl
    | cons p l ih => rw [List.map_cons, isort_cons, isort_cons, ih, hins]
  have hdec : ∀ l : List α, decorate (fun x => (kf x).map fun ys => [wrap ys]) l =
      (decorate kf l).map fun yx => yx.map fun q => ([wrap q.1], q.2) := by
    intro l
    induction l with
    | nil => rfl
    | cons x l ih =>
      rw [decorate_cons, decorate_cons, ih]
      cases kf x with
      | error er => rfl
      | ok y =>
        cases decorate kf l with
        | error er => rfl
        | ok r => rfl
  unfold sortByKey
  split
  · rfl
  · rw [hdec]
    cases decorate kf xs with
    | error er => rfl
    | ok yx =>
      show Except.ok _ = Except.ok _
      rw [hsort, List.map_map]
      rfl

/-- **`sort_by(f)` is a permutation of its input, sorted by the key vectors.** -/
theorem sortBy_perm_sorted (h : TotalPreorder c) (xs : List α) (hk : ∀ x ∈ xs, kf x = .ok (key x)) :
    ∃ out, sortByKey c kf xs = .ok out ∧ out.Perm xs ∧ out.Pairwise (KeyLe c key) := by
  refine ⟨_, sortByKey_ok xs hk, ?_, ?_⟩
  · have := (isort_perm (c := keyCmp c) (xs.map fun x => (key x, x))).map (·.2)
    simpa [List.map_map, Function.comp_def] using this
  · have hs := isort_sorted (keyCmp_preorder (α := α) h) (xs.map fun x => (key x, x))
    rw [List.pairwise_map]
    refine hs.imp_of_mem ?_
    intro p q hp hq hpq
    obtain ⟨x, _, rfl⟩ := List.mem_map.1 (mem_isort.1 hp)
    obtain ⟨y, _, rfl⟩ := List.mem_map.1 (mem_isort.1 hq)
    exact hpq

/-- **`sort_by(f)` is stable**: the elements whose key vector is equivalent to any given `k`
appear in the output in exactly their input order. -/
theorem sortBy_stable (h : TotalPreorder c) (xs : List α) (hk : ∀ x ∈ xs, kf x = .ok (key x)) (k : List κ) :
    ∃ out, sortByKey c kf xs = .ok out ∧
      out.filter (fun x => lexCmp c (key x) k == .eq) = xs.filter (fun x => lexCmp c (key x) k == .eq) := by
  refine ⟨_, sortByKey_ok xs hk, ?_⟩
  have hl := lexCmp_preorder h
  have hs := isort_stable (c := keyCmp (α := α) c) (fun p => lexCmp c p.1 k == .eq)
    (fun a b ha hb => hl.eq_trans (by simpa using ha) (hl.eq_symm (by simpa using hb)))
    (xs.map fun x => (key x, x))
  have hmem : ∀ p ∈ isort (keyCmp c) (xs.map fun x => (key x, x)), p.1 = key p.2 := by
    intro p hp
    obtain ⟨x, _, rfl⟩ := List.mem_map.1 (mem_isort.1 hp)
    rfl
  rw [List.filter_map]
  have h1 : (isort (keyCmp c) (xs.map fun x => (key x, x))).filter ((fun x => lexCmp c (key x) k == .eq) ∘ (·.2)) =
      (isort (keyCmp c) (xs.map fun x => (key x, x))).filter (fun p => lexCmp c p.1 k == .eq) := by
    apply List.filter_congr
    intro p hp
    simp only [Function.comp]
    rw [hmem p hp]
  rw [h1, hs, List.filter_map, List.map_map]
  have h2 : ((fun p : List κ × α => lexCmp c p.1 k == .eq) ∘ fun x => (key x, x)) = fun x => lexCmp c (key x) k == .eq := rfl
  rw [h2]
  simp [Function.comp_def]

/-! ### `group_by`, `unique_by` -/

/-- the stable sort of `xs` by `key` (what `sort_by` yields, see `sortByKey_ok`) -/
abbrev sortedBy (c : κ → κ → Ordering) (key : α → List κ) (xs : List α) : List α :=
  (isort (keyCmp c) (xs.map fun x => (key x, x))).map (·.2)

theorem groupByKey_ok (xs : List α) (hk : ∀ x ∈ xs, kf x = .ok (key x)) :
    groupByKey c e kf xs =
      .ok ((groupRuns e (isort (keyCmp c) (xs.map fun x => (key x, x)))).map fun g => g.map (·.2)) := by
  unfold groupByKey groupsDec
  rw [decorate_ok hk]

/-- **`group_by(f)` partitions the sorted input into the maximal runs of equal keys**: the
groups concatenate to `sort_by(f)`'s result, none is empty, the keys within a group are
equivalent, and the keys of an earlier group are strictly smaller than those of a later one
(so no two groups could be merged, and no group could be split). -/
theorem groupBy_partition_maximal_runs (h : OrderLaws c e) (xs : List α) (hk : ∀ x ∈ xs, kf x = .ok (key x)) :
    ∃ gs, groupByKey c e kf xs = .ok gs ∧
      gs.flatten = sortedBy c key xs ∧
      (∀ g ∈ gs, g ≠ []) ∧
      (∀ g ∈ gs, ∀ a ∈ g, ∀ b ∈ g, KeyEq c key a b) ∧
      gs.Pairwise (fun g g' => ∀ a ∈ g, ∀ b ∈ g', KeyLt c key a b) := by
  refine ⟨_, groupByKey_ok xs hk, ?_, ?_, ?_, ?_⟩
  · rw [← List.map_flatten, groupRuns_flatten]
  all_goals
    have hs := isort_sorted (keyCmp_preorder (α := α) h.toTotalPreorder) (xs.map fun x => (key x, x))
    have ok := groupRuns_ok (α := α) h _ hs
    have hsub : ∀ G ∈ groupRuns e (isort (keyCmp c) (xs.map fun x => (key x, x))), ∀ p ∈ G, p.1 = key p.2 := by
      intro G hG p hp
      apply dec_mem_key (c := c) (xs := xs)
      rw [← groupRuns_flatten (e := e) (isort (keyCmp c) (xs.map fun x => (key x, x)))]
      exact List.mem_flatten.2 ⟨G, hG, hp⟩
  · intro g hg
    obtain ⟨G, hG, rfl⟩ := List.mem_map.1 hg
    have := ok.ne G hG
    simpa using this
  · intro g hg a ha b hb
    obtain ⟨G, hG, rfl⟩ := List.mem_map.1 hg
    obtain ⟨p, hp, rfl⟩ := List.mem_map.1 ha
    obtain ⟨q, hq, rfl⟩ := List.mem_map.1 hb
    show lexCmp c (key p.2) (key q.2) = .eq
    rw [← hsub G hG p hp, ← hsub G hG q hq]
    exact ok.eq G hG p hp q hq
  · rw [List.pairwise_map]
    refine ok.lt.imp_of_mem ?_
    intro G G' hG hG' hlt a ha b hb
    obtain ⟨p, hp, rfl⟩ := List.mem_map.1 ha
    obtain ⟨q, hq, rfl⟩ := List.mem_map.1 hb
    show lexCmp c (key p.2) (key q.2) = .lt
    rw [← hsub G hG p hp, ← hsub G' hG' q hq]
    exact hlt p hp q hq

/-- **`unique_by(f)` keeps the first of each run**: every output is the first element *of the
input array* with its key; keys of the outputs strictly increase; every input key is represented. -/
theorem uniqueBy_first_of_run (h : OrderLaws c e) (dflt : α) (xs : List α) (hk : ∀ x ∈ xs, kf x = .ok (key x)) :
    ∃ out, uniqueByKey dflt c e kf xs = .ok out ∧
      (∀ a ∈ out, xs.find? (fun b => lexCmp c (key b) (key a) == .eq) = some a) ∧
      out.Pairwise (KeyLt c key) ∧
      (∀ x ∈ xs, ∃ a ∈ out, KeyEq c key x a) := by
  have hl := lexCmp_preorder h.toTotalPreorder
  have hs := isort_sorted (keyCmp_preorder (α := α) h.toTotalPreorder) (xs.map fun x => (key x, x))
  have ok := groupRuns_ok (α := α) h _ hs
  have hflat := groupRuns_flatten (e := e) (isort (keyCmp c) (xs.map fun x => (key x, x)))
  have hsub : ∀ G ∈ groupRuns e (isort (keyCmp c) (xs.map fun x => (key x, x))), ∀ p ∈ G, p.1 = key p.2 := by
    intro G hG p hp
    apply dec_mem_key (c := c) (xs := xs)
    rw [← hflat]
    exact List.mem_flatten.2 ⟨G, hG, hp⟩
  refine ⟨_, by unfold uniqueByKey; rw [groupByKey_ok xs hk], ?_, ?_, ?_⟩
  · intro a ha
    obtain ⟨g, hg, rfl⟩ := List.mem_map.1 ha
    obtain ⟨G, hG, rfl⟩ := List.mem_map.1 hg
    -- the group is not empty: its head is a real element
    obtain ⟨p0, G', rfl⟩ := List.exists_cons_of_ne_nil (ok.ne G hG)
    simp only [List.map_cons, List.headD_cons]
    have hp0 : p0.1 = key p0.2 := hsub _ hG p0 (List.mem_cons_self ..)
    -- the class of `p0` in the sorted list is exactly this group …
    have hcls := filter_flatten_class h.toTotalPreorder (key p0.2) _ ok _ hG (by
      intro p hp
      have := ok.eq _ hG p hp p0 (List.mem_cons_self ..)
      rwa [hp0] at this)
    rw [hflat] at hcls
    -- … and by stability it is the class in the input, in input order
    have hst := isort_stable (c := keyCmp (α := α) c) (fun p => lexCmp c p.1 (key p0.2) == .eq)
      (fun a b ha hb => hl.eq_trans (by simpa using ha) (hl.eq_symm (by simpa using hb)))
      (xs.map fun x => (key x, x))
    rw [hcls, List.filter_map] at hst
    have hhead := congrArg List.head? hst
    rw [List.head?_cons, List.head?_map, List.head?_filter] at hhead
    have hcomp : ((fun p : List κ × α => lexCmp c p.1 (key p0.2) == .eq) ∘ fun x => (key x, x)) =
        fun b => lexCmp c (key b) (key p0.2) == .eq := rfl
    rw [hcomp] at hhead
    cases hf : xs.find? (fun b => lexCmp c (key b) (key p0.2) == .eq) with
    | none => rw [hf] at hhead; cases hhead
    | some b =>
      rw [hf] at hhead
      simp only [Option.map_some, Option.some.injEq] at hhead
      rw [hhead]
  · rw [List.pairwise_map, List.pairwise_map]
    refine ok.lt.imp_of_mem ?_
    intro G G' hG hG' hlt
    obtain ⟨p0, T, rfl⟩ := List.exists_cons_of_ne_nil (ok.ne G hG)
    obtain ⟨q0, T', rfl⟩ := List.exists_cons_of_ne_nil (ok.ne G' hG')
    simp only [List.map_cons, List.headD_cons]
    show lexCmp c (key p0.2) (key q0.2) = .lt
    rw [← hsub _ hG p0 (List.mem_cons_self ..), ← hsub _ hG' q0 (List.mem_cons_self ..)]
    exact hlt p0 (List.mem_cons_self ..) q0 (List.mem_cons_self ..)
  · intro x hx
    have hmem : (key x, x) ∈ (groupRuns e (isort (keyCmp c) (xs.map fun x => (key x, x)))).flatten := by
      rw [hflat]; exact mem_isort.2 (List.mem_map.2 ⟨x, hx, rfl⟩)
    obtain ⟨G, hG, hxG⟩ := List.mem_flatten.1 hmem
    obtain ⟨p0, T, rfl⟩ := List.exists_cons_of_ne_nil (ok.ne G hG)
    refine ⟨p0.2, List.mem_map.2 ⟨(p0 :: T).map (·.2), List.mem_map.2 ⟨_, hG, rfl⟩, rfl⟩, ?_⟩
    have := ok.eq _ hG (key x, x) hxG p0 (List.mem_cons_self ..)
    rwa [hsub _ hG p0 (List.mem_cons_self ..)] at this

/-! ### `min_by`, `max_by` -/

/-- **`min_by(f)` yields an extremal element** — the *first* element of the input whose key
vector is minimal (replace predicate `y < my`) — **and `null` on the empty array**. -/
theorem minBy_extremal (h : TotalPreorder c) (dflt : α) (xs : List α) (hk : ∀ x ∈ xs, kf x = .ok (key x)) :
    (xs = [] → minByKey dflt c kf xs = .ok dflt) ∧
    (xs ≠ [] → ∃ m pre post, minByKey dflt c kf xs = .ok m ∧ xs = pre ++ m :: post ∧
      (∀ p ∈ pre, KeyLt c key m p) ∧ (∀ q ∈ post, KeyLe c key m q)) := by
  constructor
  · rintro rfl; rfl
  · intro hne
    obtain ⟨x, rest, rfl⟩ := List.exists_cons_of_ne_nil hne
    obtain ⟨pre, post, heq, hpre, hpost⟩ := foldl_min (α := α) h (rest.map fun x => (key x, x)) (key x, x)
    have hkeys : ∀ p ∈ (key x, x) :: rest.map (fun x => (key x, x)), p.1 = key p.2 := by
      intro p hp
      rcases List.mem_cons.1 hp with rfl | hp
      · rfl
      · obtain ⟨y, _, rfl⟩ := List.mem_map.1 hp; rfl
    refine ⟨(List.foldl (cmpStep (minReplace c)) (key x, x) (rest.map fun x => (key x, x))).2, pre.map (·.2), post.map (·.2), ?_, ?_, ?_, ?_⟩
    · unfold minByKey cmpBy
      rw [decorate_ok hk]
      rfl
    · have := congrArg (List.map (·.2)) heq
      simpa [List.map_map, Function.comp_def] using this
    all_goals
      have hr : (List.foldl (cmpStep (minReplace c)) (key x, x) (rest.map fun x => (key x, x))).1 =
          key (List.foldl (cmpStep (minReplace c)) (key x, x) (rest.map fun x => (key x, x))).2 :=
        hkeys _ (by rw [heq]; simp)
    · intro a ha
      obtain ⟨p, hp, rfl⟩ := List.mem_map.1 ha
      show lexCmp c (key _) (key p.2) = .lt
      rw [← hr, ← hkeys p (by rw [heq]; simp [hp])]
      exact hpre p hp
    · intro a ha
      obtain ⟨q, hq, rfl⟩ := List.mem_map.1 ha
      show lexCmp c (key _) (key q.2) ≠ .gt
      rw [← hr, ← hkeys q (by rw [heq]; simp [hq])]
      exact hpost q hq

/-- **`max_by(f)` yields an extremal element** — the *last* element of the input whose key
vector is maximal (replace predicate `y >= my`) — **and `null` on the empty array**. -/
theorem maxBy_extremal (h : TotalPreorder c) (dflt : α) (xs : List α) (hk : ∀ x ∈ xs, kf x = .ok (key x)) :
    (xs = [] → maxByKey dflt c kf xs = .ok dflt) ∧
    (xs ≠ [] → ∃ m pre post, maxByKey dflt c kf xs = .ok m ∧ xs = pre ++ m :: post ∧
      (∀ p ∈ pre, KeyLe c key p m) ∧ (∀ q ∈ post, KeyLt c key q m)) := by
  constructor
  · rintro rfl; rfl
  · intro hne
    obtain ⟨x, rest, rfl⟩ := List.exists_cons_of_ne_nil hne
    obtain ⟨pre, post, heq, hpre, hpost⟩ := foldl_max (α := α) h (rest.map fun x => (key x, x)) (key x, x)
    have hkeys : ∀ p ∈ (key x, x) :: rest.map (fun x => (key x, x)), p.1 = key p.2 := by
      intro p hp
      rcases List.mem_cons.1 hp with rfl | hp
      · rfl
      · obtain ⟨y, _, rfl⟩ := List.mem_map.1 hp; rfl
    refine ⟨(List.foldl (cmpStep (maxReplace c)) (key x, x) (rest.map fun x => (key x, x))).2, pre.map (·.2), post.map (·.2), ?_, ?_, ?_, ?_⟩
    · unfold maxByKey cmpBy
      rw [decorate_ok hk]
      rfl
    · have := congrArg (List.map (·.2)) heq
      simpa [List.map_map, Function.comp_def] using this
    all_goals
      have hr : (List.foldl (cmpStep (maxReplace c)) (key x, x) (rest.map fun x => (key x, x))).1 =
          key (List.foldl (cmpStep (maxReplace c)) (key x, x) (rest.map fun x => (key x, x))).2 :=
        hkeys _ (by rw [heq]; simp)
    · intro a ha
      obtain ⟨p, hp, rfl⟩ := List.mem_map.1 ha
      show lexCmp c (key p.2) (key _) ≠ .gt
      rw [← hr, ← hkeys p (by rw [heq]; simp [hp])]
      exact hpre p hp
    · intro a ha
      obtain ⟨q, hq, rfl⟩ := List.mem_map.1 ha
      show lexCmp c (key q.2) (key _) = .lt
      rw [← hr, ← hkeys q (by rw [heq]; simp [hq])]
      exact hpost q hq

/-! ### failing key filters -/

/-- **The first failing key evaluation (in array order) is the result** of `group_by`,
`unique_by`, `min_by`, `max_by`, and of `sort_by` on arrays of at least two elements;
`sort_by` does not run the key filter at all on shorter arrays. -/
theorem keyed_first_error {pre post : List α} {x : α} {er : ε} (dflt : α)
    (hpre : ∀ p ∈ pre, kf p = .ok (key p)) (hx : kf x = .error er) :
    groupByKey c e kf (pre ++ x :: post) = .error er ∧
    uniqueByKey dflt c e kf (pre ++ x :: post) = .error er ∧
    minByKey dflt c kf (pre ++ x :: post) = .error er ∧
    maxByKey dflt c kf (pre ++ x :: post) = .error er ∧
    (2 ≤ (pre ++ x :: post).length → sortByKey c kf (pre ++ x :: post) = .error er) ∧
    ((pre ++ x :: post).length < 2 → sortByKey c kf (pre ++ x :: post) = .ok (pre ++ x :: post)) := by
  have hd := decorate_error (post := post) hpre hx
  refine ⟨?_, ?_, ?_, ?_, ?_, ?_⟩
  · unfold groupByKey groupsDec; rw [hd]
  · unfold uniqueByKey groupByKey groupsDec; rw [hd]
  · unfold minByKey cmpBy; rw [hd]
  · unfold maxByKey cmpBy; rw [hd]
  · intro hlen
    unfold sortByKey
    rw [if_neg (by omega), hd]
  · intro hlen
    unfold sortByKey
    rw [if_pos hlen]

end sorting

/-! ## `keys`, entries -/

/-- **`keys` = `keys_unsorted | sort`** (the definition in defs.jq, as the manual states). -/
theorem keys_eq_sort_keysUnsorted (v : Val) : keys v = keysUnsorted v >>= sort := rfl

/-- … so the keys of an object are a sorted permutation of its entry keys, and `keys` fails
exactly where `keys_unsorted` fails (on scalars). -/
theorem keys_obj_perm_sorted (h : TotalPreorder Val.cmp) (o : Obj.Entries) :
    ∃ ks, keys (.obj o) = .ok (.arr ks) ∧ ks.Perm (o.map (·.1)) ∧ ks.Pairwise (fun a b => Val.cmp a b ≠ .gt) :=
  ⟨isort Val.cmp (o.map (·.1)), rfl, isort_perm _, isort_sorted h _⟩

/-- **`to_entries | from_entries` is the identity on objects** (any keys, also non-strings),
for objects whose keys are pairwise different under the lookup of `IndexMap`. -/
theorem entries_roundtrip (o : Obj.Entries) (hd : o.Pairwise (fun p q => Obj.sameKey q.1 p.1 = false)) :
    (toEntries (.obj o) >>= fromEntries) = .ok (.obj o) := by
  show fromEntries (.arr (o.map fun x => match x with | (k, x) => mkEntry k x)) = .ok (.obj o)
  unfold fromEntries values
  have : (o.map fun x => match x with | (k, x) => mkEntry k x) = o.map fun p => mkEntry p.1 p.2 := by
    apply List.map_congr_left; intro p _; rfl
  simp only [this]
  rw [fromEntriesLoop_entries o [] (by simpa using hd)]
  rfl

/-- **`with_entries(.)` is the identity on objects.** -/
theorem withEntries_id (o : Obj.Entries) (hd : o.Pairwise (fun p q => Obj.sameKey q.1 p.1 = false)) :
    withEntriesId (.obj o) = .ok (.obj o) := entries_roundtrip o hd

/-- `to_entries` describes its input: the i-th entry is `{key: kᵢ, value: vᵢ}` -/
theorem toEntries_obj (o : Obj.Entries) :
    toEntries (.obj o) = .ok (.arr (o.map fun p => .obj [(sKey, p.1), (sValue, p.2)])) := by
  unfold toEntries keyValues
  show Except.ok _ = Except.ok _
  congr 2

/-- the hypothesis of `entries_roundtrip` holds for a concrete object with a string, a
number and an array as keys: `{"key": 1, (0): null, ([1]): "value"}` -/
example : ([(sKey, vInt 1), (vInt 0, .null), (.arr [vInt 1], sValue)] : Obj.Entries).Pairwise
    (fun p q => Obj.sameKey q.1 p.1 = false) := by decide

/-! ## `indices`, `index`, `rindex` -/

/-- **`indices($x)` on arrays lists exactly the positions `i` with `.[i:][:$x|length] == $x`**
(`$x` a non-empty array; `.[i:][: n]` is `(a.drop i).take n`, `==` on arrays is `listEq Val.eq`),
in increasing order.  For the empty needle the code answers `[]` (every `i` would qualify). -/
theorem indices_complete_and_sound (a b : List Val) (hb : b ≠ []) :
    ∃ is, indicesNat (.arr a) (.arr b) = .ok is ∧ is.Pairwise (· < ·) ∧
      ∀ i, i ∈ is ↔ listEq Val.eq ((a.drop i).take b.length) b = true := by
  have hlen : 0 < b.length := List.length_pos_iff.2 hb
  refine ⟨windowsIdx (listEq Val.eq) b 0 a, ?_, (windowsIdx_sorted _ _ _ _).1, ?_⟩
  · unfold indicesNat
    simp [hb]
  · intro i
    rw [mem_windowsIdx _ _ hlen]
    constructor
    · rintro ⟨j, rfl, _, he⟩; simpa using he
    · intro he
      refine ⟨i, by omega, ?_, he⟩
      have := listEq_length he
      rw [List.length_take, List.length_drop] at this
      omega

/-- the same for byte strings (`windows` on bytes) -/
theorem indices_bytes_complete_and_sound (a b : List UInt8) (hb : b ≠ []) :
    ∃ is, indicesNat (.bstr a) (.bstr b) = .ok is ∧ is.Pairwise (· < ·) ∧
      ∀ i, i ∈ is ↔ (a.drop i).take b.length = b := by
  have hlen : 0 < b.length := List.length_pos_iff.2 hb
  refine ⟨windowsIdx (fun u v => u == v) b 0 a, ?_, (windowsIdx_sorted _ _ _ _).1, ?_⟩
  · unfold indicesNat
    simp [hb]
  · intro i
    rw [mem_windowsIdx _ _ hlen]
    constructor
    · rintro ⟨j, rfl, _, he⟩; simpa using he
    · intro he
      refine ⟨i, by omega, ?_, by simpa using he⟩
      have := congrArg List.length he
      rw [List.length_take, List.length_drop] at this
      omega

/-- an empty needle has no occurrences (the code's choice; the manual's condition would hold
at every position) -/
theorem indices_empty_needle (a : List Val) (s : List UInt8) :
    indicesNat (.arr a) (.arr []) = .ok [] ∧ indicesNat (.tstr s) (.tstr []) = .ok [] ∧
    indicesNat (.bstr s) (.bstr []) = .ok [] := ⟨rfl, rfl, rfl⟩

/-- `index` / `rindex` are the first / last of `indices` (`null` when there is none), and fail
when `indices` fails -/
theorem index_rindex_def (x y : Val) :
    index x y = (indicesNat x y).map (fun is => match is.head? with | some i => vInt (Int.ofNat i) | none => .null) ∧
    rindex x y = (indicesNat x y).map (fun is => match is.getLast? with | some i => vInt (Int.ofNat i) | none => .null) :=
  ⟨rfl, rfl⟩

/-! ## `flatten` -/

/- FULL STATEMENT (false on the current tree, finding F-12c; true for `flattenSpec`, which the
   model follows once `fixedFlatten` is switched on):
     theorem flatten_spec (d : Int) (v : Val) : flattenCur d v = .ok (flattenSpec d v)           -/

/-- **`flatten($d)` = `[flattens($d)]` with the manual's `flattens`** — on the current tree only
for array inputs, depths `≥ 0`, and up to `null` standing for an empty result. -/
theorem flatten_spec_partial (d : Int) (hd : 0 ≤ d) (xs : List Val) :
    ∃ w, flattenCur d (.arr xs) = .ok w ∧
      (w = flattenSpec d (.arr xs) ∨ (w = .null ∧ flattenSpec d (.arr xs) = .arr [])) := by
  obtain ⟨w, hw, hrep⟩ := flattenCurN_arr d.toNat xs
  refine ⟨w, hw, ?_⟩
  unfold flattenSpec flattens
  rw [if_neg (by omega)]
  rcases hrep with rfl | ⟨rfl, hnil⟩
  · exact Or.inl rfl
  · exact Or.inr ⟨rfl, by rw [hnil]⟩

/-- the four witnesses of F-12c on the model of the current tree -/
theorem flatten_spec_witnesses :
    flattenCur 1 (.arr []) = .ok .null ∧ flattenSpec 1 (.arr []) = .arr [] ∧
    flattenCur 0 (vInt 0) = .ok (vInt 0) ∧ flattenSpec 0 (vInt 0) = .arr [vInt 0] ∧
    flattenCur 1 (.obj [(sKey, .arr [vInt 1])]) = .ok (.arr [vInt 1]) ∧
      flattenSpec 1 (.obj [(sKey, .arr [vInt 1])]) = .arr [.obj [(sKey, .arr [vInt 1])]] ∧
    flattenCur (-1) (.arr [vInt 1]) = .ok (.arr [vInt 1]) ∧ flattenSpec (-1) (.arr [vInt 1]) = .arr [.arr [vInt 1]] :=
  ⟨rfl, rfl, rfl, rfl, rfl, rfl, rfl, rfl⟩

/-- **`flatten` = `[flattens]`**: `flatten/0` collects `leaves`, which satisfies the manual's
`def flattens: if isarray then .[] | flattens end` -/
theorem flatten0_spec (v : Val) :
    flatten0 v = .arr (leaves v) ∧
    (∀ xs, leaves (.arr xs) = xs.flatMap leaves) ∧ ((∀ a, v ≠ .arr a) → leaves v = [v]) := by
  refine ⟨rfl, ?_, ?_⟩
  · intro xs
    unfold leaves
    have hsz : (Val.arr xs).size = Val.sizeList xs + 1 := by simp [Val.size]; omega
    rw [hsz, leavesF_succ_arr]
    have hsub : ∀ x ∈ xs, leavesF (Val.sizeList xs) x = leavesF x.size x :=
      fun x hx => leavesF_mono _ _ x (Val.size_lt_of_mem hx) (Nat.le_refl _)
    generalize Val.sizeList xs = n at hsub
    clear hsz
    induction xs with
    | nil => rfl
    | cons x xs ih =>
      rw [List.flatMap_cons, List.flatMap_cons, hsub x (List.mem_cons_self ..),
        ih (fun y hy => hsub y (List.mem_cons_of_mem _ hy))]
  · intro hna
    unfold leaves
    obtain ⟨n, hn⟩ : ∃ n, v.size = n + 1 := ⟨v.size - 1, by have := Val.size_pos v; omega⟩
    rw [hn]
    cases v with
    | arr a => exact absurd rfl (hna a)
    | _ => rfl

/-! ## `type` and the type tests -/

/-- **`type` names the constructor**, for every value. -/
theorem type_spec (v : Val) : typeName v = ctorName v := by
  unfold typeName isboolean vLt
  rw [eq_null, eq_bool, eq_bool, cmp_eStr, cmp_eArr, cmp_eObj]
  cases v with
  | bool b => cases b <;> rfl
  | tstr x => cases x <;> rfl
  | bstr x => cases x <;> rfl
  | arr x => cases x <;> rfl
  | obj x => cases x <;> rfl
  | _ => rfl

/-- **The type tests agree with `type`.** -/
theorem istype_spec (v : Val) :
    isboolean v = (ctorName v == "boolean") ∧ isnumber v = (ctorName v == "number") ∧
    isstring v = (ctorName v == "string") ∧ isarray v = (ctorName v == "array") ∧
    isobject v = (ctorName v == "object") := by
  unfold isboolean isnumber isstring isarray isobject vLt vGt vGe
  rw [eq_bool, eq_bool, cmp_true, cmp_eStr, cmp_eArr, cmp_eObj]
  cases v with
  | bool b => cases b <;> simp [ctorName]
  | tstr x => cases x <;> simp [ctorName]
  | bstr x => cases x <;> simp [ctorName]
  | arr x => cases x <;> simp [ctorName]
  | obj x => cases x <;> simp [ctorName]
  | _ => simp [ctorName]

/-! ## `floor`, `round`, `ceil` -/

/-- `exactRound .floor` is the closest smaller integer: `i ≤ x < i + 1` (in units of 2^-1074) -/
theorem exactRound_floor (b : UInt64) :
    exactRound .floor b * unitsPerOne ≤ F64.units b ∧ F64.units b < (exactRound .floor b + 1) * unitsPerOne :=
  ⟨Int.ediv_mul_le _ (Int.ne_of_gt unitsPerOne_pos), Int.lt_ediv_add_one_mul_self _ unitsPerOne_pos⟩

/-- `exactRound .ceil` is the closest larger integer: `i - 1 < x ≤ i` -/
theorem exactRound_ceil (b : UInt64) :
    (exactRound .ceil b - 1) * unitsPerOne < F64.units b ∧ F64.units b ≤ exactRound .ceil b * unitsPerOne := by
  have h1 := Int.ediv_mul_le (-F64.units b) (Int.ne_of_gt unitsPerOne_pos)
  have h2 := Int.lt_ediv_add_one_mul_self (-F64.units b) unitsPerOne_pos
  show (-(-F64.units b / unitsPerOne) - 1) * unitsPerOne < F64.units b ∧ F64.units b ≤ -(-F64.units b / unitsPerOne) * unitsPerOne
  generalize -F64.units b / unitsPerOne = q at h1 h2 ⊢
  constructor
  · have : (-q - 1) * unitsPerOne = -((q + 1) * unitsPerOne) := by
      rw [Int.sub_mul, Int.add_mul, Int.neg_mul]; omega
    omega
  · have : -q * unitsPerOne = -(q * unitsPerOne) := Int.neg_mul ..
    omega

/-- `exactRound .round` is a closest integer (`|2x - 2i| ≤ 1`), ties away from zero -/
theorem exactRound_round (b : UInt64) :
    (0 ≤ F64.units b → 2 * exactRound .round b * unitsPerOne - unitsPerOne ≤ 2 * F64.units b ∧
        2 * F64.units b < 2 * exactRound .round b * unitsPerOne + unitsPerOne) ∧
    (F64.units b < 0 → 2 * exactRound .round b * unitsPerOne - unitsPerOne < 2 * F64.units b ∧
        2 * F64.units b ≤ 2 * exactRound .round b * unitsPerOne + unitsPerOne) := by
  have hD := unitsPerOne_pos
  have h2D : 0 < 2 * unitsPerOne := by omega
  constructor
  · intro hu
    have hnot : ¬ F64.units b < 0 := by omega
    have hdef : exactRound .round b = (2 * F64.units b + unitsPerOne) / (2 * unitsPerOne) := by
      show (if F64.units b < 0 then _ else _) = _
      rw [if_neg hnot]
    rw [hdef]
    have h1 := Int.ediv_mul_le (2 * F64.units b + unitsPerOne) (Int.ne_of_gt h2D)
    have h2 := Int.lt_ediv_add_one_mul_self (2 * F64.units b + unitsPerOne) h2D
    generalize (2 * F64.units b + unitsPerOne) / (2 * unitsPerOne) = q at h1 h2 ⊢
    have e1 : q * (2 * unitsPerOne) = 2 * q * unitsPerOne := by rw [Int.mul_comm 2 q, Int.mul_assoc]
    have e2 : (q + 1) * (2 * unitsPerOne) = 2 * q * unitsPerOne + 2 * unitsPerOne := by
      rw [Int.add_mul, e1]; omega
    omega
  · intro hu
    have hdef : exactRound .round b = -((2 * (-F64.units b) + unitsPerOne) / (2 * unitsPerOne)) := by
      show (if F64.units b < 0 then _ else _) = _
      rw [if_pos hu]
    rw [hdef]
    have h1 := Int.ediv_mul_le (2 * (-F64.units b) + unitsPerOne) (Int.ne_of_gt h2D)
    have h2 := Int.lt_ediv_add_one_mul_self (2 * (-F64.units b) + unitsPerOne) h2D
    generalize (2 * (-F64.units b) + unitsPerOne) / (2 * unitsPerOne) = q at h1 h2 ⊢
    have e1 : q * (2 * unitsPerOne) = 2 * q * unitsPerOne := by rw [Int.mul_comm 2 q, Int.mul_assoc]
    have e2 : (q + 1) * (2 * unitsPerOne) = 2 * q * unitsPerOne + 2 * unitsPerOne := by
      rw [Int.add_mul, e1]; omega
    have e3 : 2 * -q * unitsPerOne = -(2 * q * unitsPerOne) := by
      rw [Int.mul_neg, Int.neg_mul]
    omega

/- FULL STATEMENT (false on the current tree, finding F-12a; `round_spec_fixed` is what holds
   once the guard is strict):
     theorem round_spec (m : RMode) (n : Num) : roundNum false m n = roundSpecNum m n            -/

/-- **`floor`/`round`/`ceil` yield the exact integer** — on the current tree except when that
integer is `2^63` (the float→integer guard admits it and the cast saturates). -/
theorem round_spec_partial (m : RMode) (n : Num)
    (hedge : ¬ (n.isInt = false ∧ F64.isFinite (Num.toF64 n) = true ∧ exactRound m (Num.toF64 n) = 2 ^ 63)) :
    roundNum false m n = roundSpecNum m n := by
  cases n with
  | int i => rfl
  | big i => rfl
  | float f =>
    unfold roundNum roundSpecNum
    simp only
    by_cases hf : F64.isFinite (Num.toF64 (.float f)) = true
    · simp only [hf, if_true]
      have hne : exactRound m (Num.toF64 (.float f)) ≠ 2 ^ 63 := fun h => hedge ⟨rfl, hf, h⟩
      generalize exactRound m (Num.toF64 (.float f)) = i at hne
      unfold roundConv roundUpperOk Num.ofInt fitsIsize isizeMin isizeMax
      simp only [Bool.false_eq_true, if_false, Bool.and_eq_true, decide_eq_true_eq]
      by_cases hr : (-9223372036854775808 ≤ i ∧ i ≤ 2 ^ 63)
      · have : ¬ i > 9223372036854775807 := by omega
        have h2 : (-9223372036854775808 ≤ i ∧ i ≤ 9223372036854775807) := by omega
        simp [hr, this, h2]
      · have h2 : ¬ (-9223372036854775808 ≤ i ∧ i ≤ 9223372036854775807) := by omega
        simp [h2]
        intro h; omega
    · simp [hf]
  | dec s =>
    unfold roundNum roundSpecNum
    simp only
    by_cases hf : F64.isFinite (Num.toF64 (.dec s)) = true
    · simp only [hf, if_true]
      have hne : exactRound m (Num.toF64 (.dec s)) ≠ 2 ^ 63 := fun h => hedge ⟨rfl, hf, h⟩
      generalize exactRound m (Num.toF64 (.dec s)) = i at hne
      unfold roundConv roundUpperOk Num.ofInt fitsIsize isizeMin isizeMax
      simp only [Bool.false_eq_true, if_false, Bool.and_eq_true, decide_eq_true_eq]
      by_cases hr : (-9223372036854775808 ≤ i ∧ i ≤ 2 ^ 63)
      · have : ¬ i > 9223372036854775807 := by omega
        have h2 : (-9223372036854775808 ≤ i ∧ i ≤ 9223372036854775807) := by omega
        simp [hr, this, h2]
      · have h2 : ¬ (-9223372036854775808 ≤ i ∧ i ≤ 9223372036854775807) := by omega
        simp [h2]
        intro h; omega
    · simp [hf]

/-- the witness of F-12a: `9223372036854775808.0 | floor` is `9223372036854775807` on the
model of the current tree, while the closest smaller integer is `9223372036854775808` -/
theorem round_upper_edge_witness :
    roundNum false .floor (.float 0x43E0000000000000) = .int 9223372036854775807 ∧
    roundSpecNum .floor (.float 0x43E0000000000000) = .big 9223372036854775808 ∧
    roundNum false .round (.dec "9223372036854775808.0") = .int 9223372036854775807 ∧
    roundNum false .ceil (.float 0x43DFFFFFFFFFFFFF) = .int 9223372036854774784 := by
  decide +kernel

/-- with the strict guard (`fixedRoundGuard`), `floor`/`round`/`ceil` are exact for every number -/
theorem round_spec_fixed (m : RMode) (n : Num) : roundNum true m n = roundSpecNum m n := by
  cases n with
  | int i => rfl
  | big i => rfl
  | float f =>
    unfold roundNum roundSpecNum
    simp only
    by_cases hf : F64.isFinite (Num.toF64 (.float f)) = true
    · simp only [hf, if_true]
      generalize exactRound m (Num.toF64 (.float f)) = i
      unfold roundConv roundUpperOk Num.ofInt fitsIsize isizeMin isizeMax
      simp only [if_true, Bool.and_eq_true, decide_eq_true_eq]
      by_cases hr : (-9223372036854775808 ≤ i ∧ i < 2 ^ 63)
      · have : ¬ i > 9223372036854775807 := by omega
        have h2 : (-9223372036854775808 ≤ i ∧ i ≤ 9223372036854775807) := by omega
        simp [hr, this, h2]
      · have h2 : ¬ (-9223372036854775808 ≤ i ∧ i ≤ 9223372036854775807) := by omega
        simp [h2]
        intro h; omega
    · simp [hf]
  | dec s =>
    unfold roundNum roundSpecNum
    simp only
    by_cases hf : F64.isFinite (Num.toF64 (.dec s)) = true
    · simp only [hf, if_true]
      generalize exactRound m (Num.toF64 (.dec s)) = i
      unfold roundConv roundUpperOk Num.ofInt fitsIsize isizeMin isizeMax
      simp only [if_true, Bool.and_eq_true, decide_eq_true_eq]
      by_cases hr : (-9223372036854775808 ≤ i ∧ i < 2 ^ 63)
      · have : ¬ i > 9223372036854775807 := by omega
        have h2 : (-9223372036854775808 ≤ i ∧ i ≤ 9223372036854775807) := by omega
        simp [hr, this, h2]
      · have h2 : ¬ (-9223372036854775808 ≤ i ∧ i ≤ 9223372036854775807) := by omega
        simp [h2]
        intro h; omega
    · simp [hf]

/-! ## `bsearch` -/

/-- **`bsearch($x)` on a sorted array**: any answer `r` allowed by the contract of
`binary_search` (`BsearchPost`, checked on the real answers by the correspondence) is
non-negative exactly when the array contains a value equal to `$x` — then `.[r] == $x` — and
otherwise inserting `$x` at `-r-1` keeps the array sorted. -/
theorem bsearch_post {α : Type} {c : α → α → Ordering} (h : TotalPreorder c) (xs : List α) (x : α) (r : Int)
    (hs : xs.Pairwise (Le c)) (hp : BsearchPost c xs x r) :
    ((∃ y ∈ xs, c y x = .eq) ↔ 0 ≤ r) ∧
    (0 ≤ r → ∃ y, xs[r.toNat]? = some y ∧ c y x = .eq) ∧
    (r < 0 → (xs.take (-1 - r).toNat ++ x :: xs.drop (-1 - r).toNat).Pairwise (Le c)) := by
  refine ⟨?_, hp.1, ?_⟩
  · constructor
    · rintro ⟨y, hy, hyx⟩
      apply Classical.byContradiction
      intro hr
      obtain ⟨_, hlt, hgt⟩ := hp.2 (by omega)
      rw [← List.take_append_drop (-1 - r).toNat xs] at hy
      rcases List.mem_append.1 hy with hy | hy
      · have := hlt y hy; rw [hyx] at this; cases this
      · have := hgt y hy; rw [hyx] at this; cases this
    · intro hr
      obtain ⟨y, hy, hyx⟩ := hp.1 hr
      exact ⟨y, List.mem_of_getElem? hy, hyx⟩
  · intro hr
    obtain ⟨_, hlt, hgt⟩ := hp.2 hr
    have hsplit := hs
    rw [← List.take_append_drop (-1 - r).toNat xs] at hsplit
    obtain ⟨ht, hd, hcross⟩ := List.pairwise_append.1 hsplit
    refine List.pairwise_append.2 ⟨ht, List.pairwise_cons.2 ⟨?_, hd⟩, ?_⟩
    · intro y hy
      show c x y ≠ .gt
      have := (h.gt_iff_lt y x).1 (hgt y hy)
      rw [this]; simp
    · intro a ha b hb
      rcases List.mem_cons.1 hb with rfl | hb
      · show c a b ≠ .gt
        rw [hlt a ha]; simp
      · exact hcross a ha b hb

/-- the contract is satisfiable on every sorted array (by the leftmost search `bsearchRef`),
and `bsearchOk` — which the check runs on the real answers — decides it -/
theorem bsearch_post_exists {α : Type} {c : α → α → Ordering} (h : TotalPreorder c) (xs : List α) (x : α)
    (hs : xs.Pairwise (Le c)) :
    BsearchPost c xs x (bsearchRef c xs x) ∧ ∀ r, bsearchOk c xs x r = true ↔ BsearchPost c xs x r := by
  refine ⟨?_, bsearchOk_iff xs x⟩
  obtain ⟨T, D, hxs, hT, hD, hi⟩ := split_at_first_not (fun y => c y x == .lt) xs
  have hcast : ∀ n : Nat, Int.ofNat n = (n : Int) := fun _ => rfl
  unfold bsearchRef
  simp only [hi, hcast]
  subst hxs
  have hidx : (T ++ D)[T.length]? = D.head? := by
    rw [List.getElem?_append_right (Nat.le_refl _), Nat.sub_self, List.head?_eq_getElem?]
  rw [hidx]
  have hTlt : ∀ y ∈ T, c y x = .lt := fun y hy => by simpa using hT y hy
  have htake : (T ++ D).take T.length = T := List.take_left
  have hdrop : (T ++ D).drop T.length = D := List.drop_left
  have hneg : ∀ D', (∀ y ∈ D', c y x = .gt) → D = D' → BsearchPost c (T ++ D) x (-1 - (T.length : Int)) := by
    intro D' hgt hDD
    subst hDD
    have e : (-1 - (-1 - (T.length : Int))).toNat = T.length := by omega
    refine ⟨fun h0 => by omega, fun _ => ?_⟩
    rw [e, htake, hdrop]
    exact ⟨by simp, hTlt, hgt⟩
  cases hDc : D with
  | nil =>
    simp only [List.head?_nil]
    exact hDc ▸ hneg [] (by simp) hDc
  | cons y D' =>
    simp only [List.head?_cons]
    have hy : c y x ≠ .lt := by
      have := hD y (by rw [hDc]; rfl)
      simpa using this
    by_cases hyx : c y x = .eq
    · simp only [hyx, beq_self_eq_true, if_true]
      refine ⟨fun _ => ⟨y, ?_, hyx⟩, fun h0 => by omega⟩
      rw [Int.toNat_natCast, ← hDc, hidx, hDc]; rfl
    · have hgt : c y x = .gt := by cases hc : c y x <;> simp_all
      have hne : (c y x == .eq) = false := by simp [hgt]
      simp only [hne, Bool.false_eq_true, if_false]
      refine hDc ▸ hneg (y :: D') ?_ hDc
      intro z hz
      rcases List.mem_cons.1 hz with rfl | hz
      · exact hgt
      · have hsD : (y :: D').Pairwise (Le c) := by
          have := (List.pairwise_append.1 hs).2.1
          rwa [hDc] at this
        have hyz : c y z ≠ .gt := (List.pairwise_cons.1 hsD).1 z hz
        have hxy : c x y = .lt := (h.gt_iff_lt y x).1 hgt
        exact (h.lt_iff_gt x z).1 (h.lt_of_lt_of_le hxy hyz)

/-! ## prefixes and suffixes -/

/-- **`startswith` / `endswith`** test for a byte prefix / suffix; **`ltrimstr` / `rtrimstr`**
remove one occurrence of it and return other inputs unchanged (strings of either kind; the
result keeps the kind of the input). -/
theorem prefix_suffix_spec (a s : List UInt8) :
    (∃ b, startswith (.tstr a) (.tstr s) = .ok (.bool b) ∧ (b = true ↔ ∃ r, a = s ++ r)) ∧
    (∃ b, endswith (.tstr a) (.tstr s) = .ok (.bool b) ∧ (b = true ↔ ∃ r, a = r ++ s)) ∧
    (∀ r, a = s ++ r → ltrimstr (.tstr a) (.tstr s) = .ok (.tstr r)) ∧
    ((¬ ∃ r, a = s ++ r) → ltrimstr (.tstr a) (.tstr s) = .ok (.tstr a)) ∧
    (∀ r, a = r ++ s → rtrimstr (.tstr a) (.tstr s) = .ok (.tstr r)) ∧
    ((¬ ∃ r, a = r ++ s) → rtrimstr (.tstr a) (.tstr s) = .ok (.tstr a)) := by
  refine ⟨⟨s.isPrefixOf a, rfl, isPrefixOf_iff_append s a⟩, ⟨isSuffixB s a, rfl, isSuffixB_iff_append s a⟩, ?_, ?_, ?_, ?_⟩
  · rintro r rfl
    unfold ltrimstr asBytes
    simp only
    rw [if_pos ((isPrefixOf_iff_append _ _).2 ⟨r, rfl⟩), List.drop_left]
    rfl
  · intro hno
    unfold ltrimstr asBytes
    simp only
    rw [if_neg (fun hp => hno ((isPrefixOf_iff_append _ _).1 hp))]
  · rintro r rfl
    unfold rtrimstr asBytes
    simp only
    rw [if_pos ((isSuffixB_iff_append _ _).2 ⟨r, rfl⟩)]
    have : (r ++ s).length - s.length = r.length := by simp
    rw [this, List.take_left]
    rfl
  · intro hno
    unfold rtrimstr asBytes
    simp only
    rw [if_neg (fun hp => hno ((isSuffixB_iff_append _ _).1 hp))]

/-- non-strings on either side are an error ("cannot use … as string"), the input first -/
theorem prefix_suffix_errors (v s : Val) (hv : asBytes v = none) :
    startswith v s = .error (errStr v) ∧ endswith v s = .error (errStr v) ∧
    ltrimstr v s = .error (errStr v) ∧ rtrimstr v s = .error (errStr v) := by
  unfold startswith endswith ltrimstr rtrimstr
  simp [hv]

/-! ## `tonumber`, `toboolean` -/

/- FULL STATEMENT (false on the current tree, finding F-12b; true for `toTypeSpec`):
     theorem tonumber_spec p e v fj : toTypeCur p e v fj = toTypeSpec p e v fj                   -/

/-- **`tonumber` returns numbers unchanged, and on a string parses it to a number, failing if
this does not succeed** — on the current tree only when the JSON reader yields exactly one
item (a value or an error); `toTypeSpec` is the manual's reading for every stream. -/
theorem tonumber_spec_partial (p : Val → Bool) (e : Err) (v : Val) (fj : List ValR) :
    (p v = true → toTypeCur p e v fj = [.ok v] ∧ toTypeSpec p e v fj = [.ok v]) ∧
    (p v = false → ∀ r, fj = [r] → toTypeCur p e v fj = toTypeSpec p e v fj) ∧
    (∃ r, toTypeSpec p e v fj = [r]) := by
  refine ⟨?_, ?_, ?_⟩
  · intro hp
    simp [toTypeCur, toTypeSpec, hp]
  · rintro hp r rfl
    cases r with
    | error er => simp [toTypeCur, toTypeSpec, hp, toTypeCur.go, firstError]
    | ok y =>
      by_cases hy : p y = true
      · simp [toTypeCur, toTypeSpec, hp, toTypeCur.go, firstError, hy]
      · simp [toTypeCur, toTypeSpec, hp, toTypeCur.go, firstError, hy]
  · unfold toTypeSpec
    split
    · exact ⟨_, rfl⟩
    · split
      · exact ⟨_, rfl⟩
      · split
        · split <;> exact ⟨_, rfl⟩
        · exact ⟨_, rfl⟩

/-- the witnesses of F-12b on the model of the tree as found (`toTypeCur`; repaired in /repo by
commit 18d00c4, after which `tonumber` follows `toTypeSpec`): an empty parse yields no output,
two parsed numbers yield two outputs -/
theorem tonumber_spec_witnesses :
    toTypeCur isnumber (.str "cannot parse as number") (.tstr []) [] = [] ∧
    toTypeCur isnumber (.str "cannot parse as number") (.tstr [49, 32, 50]) [.ok (vInt 1), .ok (vInt 2)]
      = [.ok (vInt 1), .ok (vInt 2)] ∧
    (toTypeSpec isnumber (.str "cannot parse as number") (.tstr []) []).length = 1 ∧
    (toTypeSpec isnumber (.str "cannot parse as number") (.tstr [49, 32, 50]) [.ok (vInt 1), .ok (vInt 2)]).length = 1 :=
  ⟨rfl, rfl, rfl, rfl⟩

/-! ## `abs` -/

/-- **`abs`** negates what is smaller than `0` (also `null` and booleans, where negation fails)
and returns everything else unchanged; on machine integers it is the absolute value, as a
big integer for `isize::MIN`. -/
theorem abs_spec (v : Val) :
    abs v = (if Val.cmp v (vInt 0) = .lt then Val.neg v else .ok v) ∧
    (∀ i : Int, fitsIsize i = true → abs (vInt i) = .ok (.num (Num.ofInt (i.natAbs : Int)))) := by
  constructor
  · unfold abs vLt
    by_cases h : Val.cmp v (vInt 0) = .lt <;> simp [h]
  · intro i hfit
    unfold abs vLt vInt
    have hc : Val.cmp (.num (.int i)) (.num (.int 0)) = compare i 0 := by
      unfold Val.cmp
      simp [Val.size, Val.cmpF, Num.cmp, Num.undec]
    rw [hc]
    by_cases hi : i < 0
    · have : compare i 0 = .lt := by simp [compare, compareOfLessAndEq, hi]
      simp only [this, beq_self_eq_true, if_true, Val.neg, Num.neg]
      have e : (i.natAbs : Int) = -i := by omega
      rw [e]
    · have hne : i ≠ 0 ∨ i = 0 := by omega
      have hb : (compare i 0 == Ordering.lt) = false := by
        simp only [compare, compareOfLessAndEq, hi, if_false]
        split <;> rfl
      simp only [hb, Bool.false_eq_true, if_false]
      have e : (i.natAbs : Int) = i := by omega
      rw [e]
      unfold Num.ofInt
      rw [hfit]
      rfl

/-! ## `contains`, `transpose` -/

/-- **`contains`**: the four conditions of the manual (the last also covers values of
different types and a byte string against a text string, compared with `==`) -/
theorem contains_spec :
    (∀ l r : List Val, contains (.arr l) (.arr r) = r.all fun rv => l.any fun lv => contains lv rv) ∧
    (∀ l r : Obj.Entries, contains (.obj l) (.obj r) = r.all fun (k, rv) =>
        match Obj.get l k with
        | some lv => contains lv rv
        | none => false) ∧
    (∀ l r : List UInt8, (contains (.tstr l) (.tstr r) = true ↔ ∃ pre post, l = pre ++ r ++ post) ∧
        (contains (.bstr l) (.bstr r) = true ↔ ∃ pre post, l = pre ++ r ++ post)) ∧
    (∀ a b : Val, ctorName a ≠ ctorName b ∨ ctorName a = "null" ∨ ctorName a = "boolean" ∨ ctorName a = "number" →
        contains a b = Val.eq a b) := by
  refine ⟨?_, ?_, ?_, ?_⟩
  · intro l r
    unfold contains
    have hsz : (Val.arr l).size + (Val.arr r).size = (Val.sizeList l + Val.sizeList r + 1) + 1 := by
      simp [Val.size]; omega
    rw [hsz, containsF_succ_arr]
    apply all_congr_mem
    intro rv hrv
    apply any_congr_mem
    intro lv hlv
    have h1 := Val.size_lt_of_mem hrv
    have h2 := Val.size_lt_of_mem hlv
    exact containsF_mono _ _ lv rv (by omega) (Nat.le_refl _)
  · intro l r
    unfold contains
    have hsz : (Val.obj l).size + (Val.obj r).size = (Val.sizeEntries l + Val.sizeEntries r + 1) + 1 := by
      simp [Val.size]; omega
    rw [hsz, containsF_succ_obj]
    apply all_congr_mem
    intro p hp
    obtain ⟨k, rv⟩ := p
    simp only
    cases hg : Obj.get l k with
    | none => rfl
    | some lv =>
      simp only
      obtain ⟨k', hk'⟩ := get_mem hg
      have h1 := Val.size_entry_of_mem hp
      have h2 := Val.size_entry_of_mem hk'
      exact containsF_mono _ _ lv rv (by omega) (Nat.le_refl _)
  · intro l r
    constructor
    · show isInfixB r l = true ↔ _
      exact isInfixB_iff r l
    · show isInfixB r l = true ↔ _
      exact isInfixB_iff r l
  · intro a b h
    unfold contains
    obtain ⟨n, hn⟩ : ∃ n, a.size + b.size = n + 1 := ⟨a.size + b.size - 1, by have := Val.size_pos a; omega⟩
    rw [hn]
    cases a <;> cases b <;> first | rfl | (simp [ctorName] at h)


/-- **`transpose`** of an array of arrays: as many rows as the longest input row is long, each
as long as the input, with `t[x][y] = .[y][x]` (`null` where the input row is too short). -/
theorem transpose_shape (rows : List (List Val)) :
    transpose (.arr (rows.map .arr)) =
      some (.arr ((List.range ((rows.map List.length).foldl max 0)).map fun x =>
        .arr (rows.map fun r => r[x]?.getD .null))) := by
  simp only [transpose, rowLens_ok]
  have hrows : ∀ i, (rows.map Val.arr).map (rowGet i) = rows.map fun r => r[i]?.getD .null := by
    intro i; rw [List.map_map]; rfl
  cases rows with
  | nil => rfl
  | cons r rs =>
    have hdec : decorate (ε := Unit) (fun v : Val => Except.ok [v]) ((r :: rs).map fun r => vInt (r.length : Int)) =
        .ok (decN r.length :: (rs.map List.length).map decN) := by
      rw [decorate_ok (key := fun v => [v]) (fun _ _ => rfl)]
      simp [decN, List.map_map, Function.comp_def]
    have hmax : maxByKey (ε := Unit) Val.null Val.cmp (fun v => Except.ok [v]) ((r :: rs).map fun r => vInt (r.length : Int)) =
        .ok (vInt (((r :: rs).map List.length).foldl max 0 : Nat)) := by
      unfold maxByKey cmpBy
      rw [hdec]
      simp only [foldl_max_vInt]
      simp [decN, List.foldl_cons]
    rw [hmax]
    simp only [vInt, Int.toNat_natCast, hrows]



/-! # Round 2

## full statements for the repaired tree

The three findings of round 1 are repaired in `/repo` (01c8867 strict upper guard of `round`,
9af2ef8 `flatten($d)` defined as in the manual, 18d00c4 `totype` collects `fromjson`); the model
follows the repaired code (`fixedRoundGuard`, `fixedFlatten`, `fixedToType` are `true`), and the
statements that were comments in round 1 are theorems now.  The `_partial` / `_witnesses`
theorems above keep describing the tree as found. -/

/-- the manual's recursion `def flattens($d): if isarray and $d >= 0 then .[] | flattens($d-1) end` -/
theorem flattens_eqn (d : Int) (v : Val) :
    flattens d v = (match v with
      | .arr xs => if 0 ≤ d then xs.flatMap (flattens (d - 1)) else [v]
      | v => [v]) := by
  unfold flattens
  by_cases hd : d < 0
  · rw [if_pos hd]
    cases v with
    | arr xs =>
      show [Val.arr xs] = if 0 ≤ d then _ else [Val.arr xs]
      rw [if_neg (by omega)]
    | _ => rfl
  · rw [if_neg hd]
    cases v with
    | arr xs =>
      simp only []
      rw [if_pos (by omega), flattensN_succ_arr]
      apply flatMap_congr_mem
      intro x _
      by_cases h0 : d = 0
      · subst h0
        show flattensN 0 x = if (0 - 1 : Int) < 0 then [x] else _
        rw [if_pos (by decide)]; rfl
      · rw [if_neg (by omega)]
        have : (d - 1).toNat + 1 = d.toNat := by omega
        rw [this]
    | _ => rfl

/-- **`flatten($d)` = `[flattens($d)]`** with the manual's `flattens`, for every input and every
integer depth (negative depths and non-arrays included: `[.]`). -/
theorem flatten_spec (d : Int) (v : Val) : flattenDepth d v = .ok (.arr (flattens d v)) := rfl

/-- **`floor` / `round` / `ceil` yield the closest smaller / closest / closest larger integer**
(`roundSpecNum`: integers unchanged, a finite float becomes the exact integer
`exactRound`, characterised by `exactRound_floor/round/ceil`; `nan` and the infinities are
returned as they are), for EVERY number. -/
theorem round_spec (m : RMode) (n : Num) : roundVal m (.num n) = .ok (.num (roundSpecNum m n)) := by
  show Except.ok (Val.num (roundNum fixedRoundGuard m n)) = _
  rw [show fixedRoundGuard = true from rfl, round_spec_fixed]

/-- … in particular for every finite double the result is the exact integer, as a machine
integer when it fits `isize` and as a big integer otherwise (the edge `2^63` and everything
beyond it included) -/
theorem round_exact_finite (m : RMode) (b : UInt64) (hf : F64.isFinite b = true) :
    roundVal m (.num (.float b)) = .ok (.num (Num.ofInt (exactRound m b))) ∧
    (fitsIsize (exactRound m b) = true → Num.ofInt (exactRound m b) = .int (exactRound m b)) ∧
    (fitsIsize (exactRound m b) = false → Num.ofInt (exactRound m b) = .big (exactRound m b)) := by
  refine ⟨?_, fun h => by simp [Num.ofInt, h], fun h => by simp [Num.ofInt, h]⟩
  rw [round_spec]
  show Except.ok (Val.num (if F64.isFinite b then _ else _)) = _
  rw [hf]; rfl

theorem roundVal_of (m : RMode) (n r : Num) (h : roundSpecNum m n = r) : roundVal m (.num n) = .ok (.num r) := by
  rw [round_spec, h]

set_option exponentiation.threshold 1100 in
/-- the edge of F-12a and beyond, on the model of the repaired tree: `2^63`, `2^63 + 2048`,
`-2^63 - 2048` and `1e19` come out as the exact big integers, `2^63 - 1024` and `-2^63` as
machine integers -/
theorem round_edge_examples :
    roundVal .floor (.num (.float 0x43E0000000000000)) = .ok (.num (.big 9223372036854775808)) ∧
    roundVal .round (.num (.float 0x43E0000000000001)) = .ok (.num (.big 9223372036854777856)) ∧
    roundVal .ceil (.num (.float 0xC3E0000000000001)) = .ok (.num (.big (-9223372036854777856))) ∧
    roundVal .round (.num (.dec "1e19")) = .ok (.num (.big 10000000000000000000)) ∧
    roundVal .ceil (.num (.float 0x43DFFFFFFFFFFFFF)) = .ok (.num (.int 9223372036854774784)) ∧
    roundVal .floor (.num (.float 0xC3E0000000000000)) = .ok (.num (.int (-9223372036854775808))) :=
  ⟨roundVal_of _ _ _ (by decide +kernel), roundVal_of _ _ _ (by decide +kernel), roundVal_of _ _ _ (by decide +kernel),
   roundVal_of _ _ _ (by decide +kernel), roundVal_of _ _ _ (by decide +kernel), roundVal_of _ _ _ (by decide +kernel)⟩

/-- **`tonumber` / `toboolean`**: a value of the type is returned unchanged; a string is parsed
and the result is the single parsed value if it has the type; in every other case (no value,
several values, a value of another type, a parse error) there is exactly one failure — never no
output, never two.  `fj` is the output stream of the JSON reader on the input. -/
theorem tonumber_spec (v : Val) (fj : List ValR) :
    tonumber v fj = toTypeSpec isnumber (.str "cannot parse as number") v fj ∧
    (∃ r, tonumber v fj = [r]) ∧
    (isnumber v = true → tonumber v fj = [.ok v]) ∧
    (isnumber v = false → ∀ y, fj = [.ok y] → isnumber y = true → tonumber v fj = [.ok y]) ∧
    (isnumber v = false → (∀ y, fj ≠ [.ok y]) → ∃ e, tonumber v fj = [.error e]) := by
  have h0 : tonumber v fj = toTypeSpec isnumber (.str "cannot parse as number") v fj := rfl
  refine ⟨h0, ?_, ?_, ?_, ?_⟩
  · rw [h0]; exact (tonumber_spec_partial _ _ _ _).2.2
  · intro hp; rw [h0]; exact ((tonumber_spec_partial _ _ _ _).1 hp).2
  · rintro hp y rfl hy
    rw [h0]; simp [toTypeSpec, hp, firstError, hy]
  · intro hp hne
    rw [h0]
    unfold toTypeSpec
    rw [if_neg (by simp [hp])]
    cases hfe : firstError fj with
    | some er => exact ⟨er, rfl⟩
    | none =>
      match fj, hne, hfe with
      | [], _, _ => exact ⟨_, rfl⟩
      | [.ok y], hne, _ => exact absurd rfl (hne y)
      | [.error e], _, hfe => simp [firstError] at hfe
      | r1 :: _ :: _, _, _ => cases r1 <;> exact ⟨_, rfl⟩

theorem toboolean_spec (v : Val) (fj : List ValR) :
    toboolean v fj = toTypeSpec isboolean (.str "cannot parse as boolean") v fj ∧
    (∃ r, toboolean v fj = [r]) ∧
    (isboolean v = true → toboolean v fj = [.ok v]) ∧
    (isboolean v = false → ∀ y, fj = [.ok y] → isboolean y = true → toboolean v fj = [.ok y]) := by
  have h0 : toboolean v fj = toTypeSpec isboolean (.str "cannot parse as boolean") v fj := rfl
  refine ⟨h0, ?_, ?_, ?_⟩
  · rw [h0]; exact (tonumber_spec_partial _ _ _ _).2.2
  · intro hp; rw [h0]; exact ((tonumber_spec_partial _ _ _ _).1 hp).2
  · rintro hp y rfl hy
    rw [h0]; simp [toTypeSpec, hp, firstError, hy]

/-! ## the definitions the models transcribe are the definitions in the tree -/

/-- **Translator.** The definitions of `jaq-core/src/defs.jq`, `jaq-json/src/defs.jq`,
`jaq-std/src/defs.jq` that C12 models, as the real parser reads the real files on this run
(`Gen.defs`, regenerated by the check), are the ones the Lean models were transcribed from.  A
changed definition makes this theorem — and with it the build of every theorem here — fail. -/
theorem defs_as_transcribed : Gen.defs = expectedDefs := by decide

/-! ## `map`, `map_values`, `walk`, `with_entries` -/

/-- **`map(f)` = `[.[] | f]`**: all outputs of `f` on all values of the input, in order, as one
array; it fails where `.[]` fails … -/
theorem map_spec (f : Flt) (outs : Val → List Val) (v : Val) (els : List Val) (hv : values v = .ok els)
    (hf : ∀ x ∈ els, f x = (outs x).map .ok) :
    mapF f v = .ok (.arr (els.flatMap outs)) := by
  unfold mapF
  rw [hv]
  show (collect (els.flatMap f)).map Val.arr = _
  rw [collect_flatMap_oks f outs els hf]; rfl

/-- … and with the first error `f` raises (elements in order, outputs in order). -/
theorem map_first_error (f : Flt) (outs : Val → List Val) (pre : List Val) (x : Val) (post good : List Val)
    (e : Err) (rest : List ValR) (hpre : ∀ y ∈ pre, f y = (outs y).map .ok)
    (hx : f x = good.map .ok ++ .error e :: rest) :
    mapF f (.arr (pre ++ x :: post)) = .error e ∧ (∀ v, values v = .error e → mapF f v = .error e) := by
  constructor
  · show (collect ((pre ++ x :: post).flatMap f)).map Val.arr = _
    rw [collect_flatMap_error f outs pre x post good e rest hpre hx]; rfl
  · intro v hv; unfold mapF; rw [hv]

/-- **`map_values(f)` has the same effect as `map(f)` when the input is an array** (all outputs
of `f`, not only the first) … -/
theorem mapValues_arr_eq_map (f : Flt) (a : List Val) : mapValues f (.arr a) = mapF f (.arr a) := rfl

/-- … **and on an object it yields an object**: keys and their order are kept, every value is
replaced by the first output of `f` on it, and an entry on which `f` yields nothing is removed
(`sel x` = that first output, if any).  Other inputs fail. -/
theorem mapValues_obj_spec (f : Flt) (sel : Val → Option Val) (o : Obj.Entries)
    (hf : ∀ p ∈ o, (f p.2).head? = (sel p.2).map .ok) :
    mapValues f (.obj o) = .ok (.obj (o.filterMap fun p => (sel p.2).map fun y => (p.1, y))) ∧
    (∀ v, (∀ a, v ≠ .arr a) → (∀ o', v ≠ .obj o') → mapValues f v = .error (errIter v)) := by
  constructor
  · show (updEntries f o).map Val.obj = _
    rw [updEntries_sel f sel o hf]; rfl
  · intro v ha ho
    cases v with
    | arr a => exact absurd rfl (ha a)
    | obj o' => exact absurd rfl (ho o')
    | _ => rfl

/-- **`walk(f)` = `(.[]? |= walk(f)) | f`** — the equation by which the manual shows `.. |= f`
equivalent to jq's `walk`: the children are walked first (an array takes all outputs of every
child, an object the first output per entry, scalars have no children), then `f` is applied to the
rebuilt value and all its outputs are the outputs. -/
theorem walk_eqn (f : Flt) (v : Val) :
    walk f v = (match mapValuesOpt true (walk f) v with
      | .error e => [.error e]
      | .ok v' => f v') := by
  unfold walk
  obtain ⟨n, hn⟩ : ∃ n, v.size = n + 1 := ⟨v.size - 1, by have := Val.size_pos v; omega⟩
  rw [hn, walkF_succ]
  cases v with
  | arr xs =>
    have hsz : ∀ x ∈ xs, walkF n f x = walkF x.size f x := by
      intro x hx
      have := Val.size_lt_of_mem hx
      simp only [Val.size] at hn
      exact walkF_mono f n x.size x (by omega) (Nat.le_refl _)
    rw [mapValuesOpt_arr, mapValuesOpt_arr, flatMap_congr_mem hsz]
    rfl
  | obj o =>
    have hsz : ∀ p ∈ o, walkF n f p.2 = walkF p.2.size f p.2 := by
      intro p hp
      have := Val.size_entry_of_mem (k := p.1) (v := p.2) hp
      simp only [Val.size] at hn
      exact walkF_mono f n p.2.size p.2 (by omega) (Nat.le_refl _)
    rw [mapValuesOpt_obj, mapValuesOpt_obj, updEntries_congr (g' := fun x => walkF x.size f x) hsz]
    rfl
  | _ => rfl

/-- on a scalar `walk(f)` is `f`; with a one-output `f` on an array it is `f` of the walked elements -/
theorem walk_scalar_and_pure (f : Flt) :
    (∀ v, (∀ a, v ≠ .arr a) → (∀ o, v ≠ .obj o) → walk f v = f v) ∧
    (∀ (g : Val → Val) (a : List Val) (w : Val → Val), f = pureF g → (∀ x ∈ a, walk f x = [.ok (w x)]) →
      walk f (.arr a) = [.ok (g (.arr (a.map w)))]) := by
  constructor
  · intro v ha ho
    rw [walk_eqn, mapValuesOpt_scalar _ ha ho]
  · intro g a w hg hw
    rw [walk_eqn, mapValuesOpt_arr, collect_flatMap_oks (walk f) (fun x => [w x]) a (by simpa using hw)]
    subst hg
    show [Except.ok (g (.arr (a.flatMap fun x => [w x])))] = _
    congr 4
    induction a with
    | nil => rfl
    | cons x a ih => rw [List.flatMap_cons, List.map_cons, ih (fun y hy => hw y (List.mem_cons_of_mem _ hy))]; rfl

/-- **`with_entries(f)` = `to_entries | map(f) | from_entries`**, and with `f = .` it is the
identity on objects (`withEntries_id`) — also for `false` / `null` values and keys, which the
round trip reads back with `.key` and `.value` (not with `//`). -/
theorem withEntries_def (f : Flt) (v : Val) :
    withEntries f v = (toEntries v >>= mapF f >>= fromEntries) ∧
    withEntries (pureF id) v = withEntriesId v := by
  constructor
  · unfold withEntries
    cases toEntries v with
    | error e => rfl
    | ok es =>
      show (match mapF f es with | .error e => .error e | .ok es' => fromEntries es') = (mapF f es >>= fromEntries)
      cases mapF f es <;> rfl
  · unfold withEntries withEntriesId
    cases hv : toEntries v with
    | error e => rfl
    | ok es =>
      have : ∃ l, es = .arr l := by
        unfold toEntries at hv
        cases hk : keyValues v with
        | error e => rw [hk] at hv; cases hv
        | ok kvs => rw [hk] at hv; exact ⟨_, (Except.ok.inj hv).symm⟩
      obtain ⟨l, rfl⟩ := this
      have hm : mapF (pureF id) (.arr l) = .ok (.arr l) := by
        rw [map_spec (pureF id) (fun x => [x]) (.arr l) l rfl (fun _ _ => rfl), flatMap_pure]
      show (match mapF (pureF id) (.arr l) with | .error e => .error e | .ok es' => fromEntries es') = fromEntries (.arr l)
      rw [hm]

/-- an object with `false` and `null` values and the keys `false`, `null`, `0`, `[1]` satisfies the
hypothesis of `entries_roundtrip` / `withEntries_id`, and the round trip is computed as the identity -/
example : withEntriesId (.obj [(.bool false, .bool false), (.null, .null), (vInt 0, .bool false), (.arr [vInt 1], .null), (sKey, .bool false)])
    = .ok (.obj [(.bool false, .bool false), (.null, .null), (vInt 0, .bool false), (.arr [vInt 1], .null), (sKey, .bool false)]) :=
  withEntries_id _ (by decide)

/-! ## `add`, `all`, `any`, selection -/

/-- **`add`** is the sum of the values of the input from left to right (`null` for none), and fails
where `.[]` or `+` fails -/
theorem add_spec :
    add0 (.arr []) = .ok .null ∧
    (∀ x xs, add0 (.arr (x :: xs)) = addAll x xs) ∧
    (∀ parts : List (List UInt8), add0 (.arr (.tstr [] :: parts.map .tstr)) = .ok (.tstr parts.flatten)) ∧
    (∀ fs : List Val, addG (fs.map .ok) = addAll .null fs) := by
  refine ⟨rfl, fun x xs => ?_, fun parts => ?_, fun fs => ?_⟩
  · show addAll .null (x :: xs) = _
    rw [addAll_cons]; rfl
  · show addAll .null (.tstr [] :: parts.map .tstr) = _
    rw [addAll_cons]
    show addAll (.tstr []) _ = _
    rw [addAll_tstrs]; rfl
  · unfold addG
    generalize Val.null = acc
    induction fs generalizing acc with
    | nil => rfl
    | cons x fs ih =>
      rw [List.map_cons, addAll_cons]
      show (match Val.add acc x with | .error e => Except.error e | .ok acc' => addS acc' (fs.map .ok)) = _
      cases Val.add acc x with
      | error e => rfl
      | ok a => exact ih a

/-- **`all(cond)` / `any(cond)`** on an array with a condition of one boolean output: the
conjunction / disjunction over the elements (`true` / `false` on `[]`); `all` = `all(.)`. -/
theorem all_any_spec (pb : Val → Bool) (a : List Val) :
    allF (pureF fun x => .bool (pb x)) (.arr a) = .ok (.bool (a.all pb)) ∧
    anyF (pureF fun x => .bool (pb x)) (.arr a) = .ok (.bool (a.any pb)) ∧
    all0 (.arr []) = .ok (.bool true) ∧ any0 (.arr []) = .ok (.bool false) :=
  ⟨firstFalsy_pure pb a, firstTruthy_pure pb a, rfl, rfl⟩

/-- **The selection filters** output their input exactly when it has the named type
(`values`: not `null`; `iterables`: array or object; `scalars`: the others), else nothing. -/
theorem selection_spec (v : Val) :
    selValues v = (if ctorName v = "null" then [] else [v]) ∧
    selNulls v = (if ctorName v = "null" then [v] else []) ∧
    sel isboolean v = (if ctorName v = "boolean" then [v] else []) ∧
    sel isnumber v = (if ctorName v = "number" then [v] else []) ∧
    sel isstring v = (if ctorName v = "string" then [v] else []) ∧
    sel isarray v = (if ctorName v = "array" then [v] else []) ∧
    sel isobject v = (if ctorName v = "object" then [v] else []) ∧
    selIterables v = (if ctorName v = "array" ∨ ctorName v = "object" then [v] else []) ∧
    selScalars v = (if ctorName v = "array" ∨ ctorName v = "object" then [] else [v]) := by
  obtain ⟨h1, h2, h3, h4, h5⟩ := istype_spec v
  simp only [selValues, selNulls, selIterables, selScalars, sel, h1, h2, h3, h4, h5, eq_null, vGe, vLt, cmp_eArr]
  cases v with
  | bool b => simp [ctorName]
  | tstr x => simp [ctorName]
  | bstr x => simp [ctorName]
  | arr x => cases x <;> simp [ctorName]
  | obj x => simp [ctorName]
  | _ => simp [ctorName]

/-! ## `has`, `in` -/

/-- **`has($k)`**: on an object, whether the key is present (any key type); on an array, whether
the integer points into it, negative positions counting from the end; `null` has nothing; booleans,
numbers and text strings fail (a text string with a slice object `{start, end}` as `$k` is C10's).  **`in(xs)`** is `has` flipped. -/
theorem has_in_spec :
    (∀ o k, hasF (.obj o) k = some (.ok (.bool (Obj.get o k).isSome))) ∧
    (∀ (a : List Val) (i : Int), hasF (.arr a) (vInt i) =
      some (.ok (.bool (decide (-(a.length : Int) ≤ i ∧ i < a.length))))) ∧
    (∀ k, hasF .null k = some (.ok (.bool false))) ∧
    (∀ b k, hasF (.bool b) k = some (.error (.index (.bool b) k))) ∧
    (∀ n k, hasF (.num n) k = some (.error (.index (.num n) k))) ∧
    (∀ s k, (∀ o, k ≠ .obj o) → hasF (.tstr s) k = some (.error (.index (.tstr s) k))) ∧
    (∀ k xs, inF k xs = hasF xs k) := by
  refine ⟨fun o k => rfl, fun a i => ?_, fun k => rfl, fun b k => rfl, fun n k => rfl, fun s k hk => by cases k <;> first | rfl | exact absurd rfl (hk _), fun k xs => rfl⟩
  show some (Except.ok (Val.bool (absIndex i a.length).isSome)) = _
  congr 3
  unfold absIndex
  by_cases h0 : 0 ≤ i
  · rw [if_pos h0]
    by_cases h1 : i.toNat < a.length
    · rw [if_pos h1]; simp; omega
    · rw [if_neg h1]; simp; omega
  · rw [if_neg h0]
    by_cases h1 : i.natAbs ≤ a.length
    · rw [if_pos h1]; simp; omega
    · rw [if_neg h1]; simp; omega

/-! ## `join`, `combinations`, `splits` -/

/-- **`join($s)`** on an array whose elements print (`tostring`) as the texts `tb x`: every
element but the last is followed by the separator, and the pieces are concatenated; `""` for `[]`. -/
theorem join_spec (ts : Val → Val) (tb : Val → List UInt8) (s : List UInt8) (a : List Val)
    (hts : ∀ x ∈ a, ts x = .tstr (tb x)) :
    join ts (.tstr s) (.arr a) =
      .ok (.tstr ((a.dropLast.flatMap fun x => tb x ++ s) ++ (a.drop (a.length - 1)).flatMap tb)) := by
  have hmv : mapValues (pureF ts) (.arr a) = .ok (.arr (a.map fun x => .tstr (tb x))) := by
    show (collect (a.flatMap (pureF ts))).map Val.arr = _
    rw [collect_flatMap_oks (pureF ts) (fun x => [.tstr (tb x)]) a (fun x hx => by simp [pureF, hts x hx])]
    show Except.ok (Val.arr _) = _
    congr 2
    clear hts
    induction a with
    | nil => rfl
    | cons x a ih => rw [List.flatMap_cons, List.map_cons, ih]; rfl
  unfold join
  rw [hmv]
  simp only []
  rw [← List.map_dropLast, mapM'_oks (fun x => Val.add x (.tstr s)) (fun x => match x with | .tstr b => .tstr (b ++ s) | v => v)
    _ (by
      intro x hx
      obtain ⟨y, _, rfl⟩ := List.mem_map.1 hx
      rfl)]
  simp only [List.map_map, List.length_map, ← List.map_drop]
  have e1 : (a.dropLast.map ((fun x => match x with | .tstr b => .tstr (b ++ s) | v => v) ∘ fun x => Val.tstr (tb x))) =
      (a.dropLast.map fun x => tb x ++ s).map Val.tstr := by
    rw [List.map_map]; rfl
  have e2 : ((a.drop (a.length - 1)).map fun x => Val.tstr (tb x)) = ((a.drop (a.length - 1)).map tb).map Val.tstr := by
    rw [List.map_map]; rfl
  rw [e1, e2, ← List.map_append, addAll_tstrs]
  simp [List.flatten_append, List.flatMap_def]

/-- **`combinations`** of an array of arrays: the cartesian product — every output takes one
element of every row, in row order, every such choice occurs, the first row varies slowest, and
there are `∏ |row|` outputs (`[[]]` for no rows, nothing if a row is empty). -/
theorem combinations_spec (rows : List (List Val)) :
    combinations (.arr (rows.map Val.arr)) = (cart rows).map (fun c => Except.ok (Val.arr c)) ∧
    (∀ c, c ∈ cart rows ↔ Chooses c rows) ∧
    (cart rows).length = (rows.map List.length).foldr (· * ·) 1 ∧
    (∀ row rest, cart (row :: rest) = row.flatMap fun x => (cart rest).map fun c => x :: c) := by
  refine ⟨?_, mem_cart rows, length_cart rows, fun _ _ => rfl⟩
  unfold combinations
  show (match mapM' values (rows.map Val.arr) with | .error e => [Except.error e] | .ok rs => _) = _
  rw [mapM'_oks values (fun v => match v with | .arr a => a | _ => []) _ (by
    intro x hx
    obtain ⟨r, _, rfl⟩ := List.mem_map.1 hx
    rfl)]
  simp only [List.map_map]
  have : (rows.map ((fun v => match v with | .arr a => a | _ => []) ∘ Val.arr)) = rows := by
    induction rows with
    | nil => rfl
    | cons r rows ih => rw [List.map_cons, ih]; rfl
  rw [this, combos_eq_cart]
  simp

/-- `combinations($n)` is `combinations` of `$n` copies of the input -/
theorem combinationsN_def (n : Nat) (v : Val) : combinationsN n v = combinations (.arr (List.replicate n v)) := rfl

/-- **`splits(re; flags)` = `split(re; flags)[]`**, `split(re; flags)` calls the engine with
`flags + "g"`, `splits(re)` = `splits(re; "")` — for any regular-expression engine `sn`. -/
theorem splits_spec (sn : Val → Val → Val → ValR) (re v : Val) :
    (∀ fl fl' parts, Val.add fl (.tstr [103]) = .ok fl' → sn re fl' v = .ok (.arr parts) →
      splitRe sn re fl v = .ok (.arr parts) ∧ splits sn re fl v = parts.map .ok) ∧
    (∀ fl fl' e, Val.add fl (.tstr [103]) = .ok fl' → sn re fl' v = .error e → splits sn re fl v = [Except.error e]) ∧
    splits1 sn re v = splits sn re (.tstr []) v := by
  refine ⟨?_, ?_, rfl⟩
  · intro fl fl' parts h1 h2
    have : splitRe sn re fl v = .ok (.arr parts) := by unfold splitRe; rw [h1]; exact h2
    refine ⟨this, ?_⟩
    unfold splits; rw [this]; rfl
  · intro fl fl' e h1 h2
    have : splitRe sn re fl v = .error e := by unfold splitRe; rw [h1]; exact h2
    unfold splits; rw [this]

/-! ## `delpaths`, `del`, `paths(p)`, `pick` -/

/-- **`delpaths($paths)`** deletes the paths one after the other, each relative to the result of
the previous deletion (not all relative to the input); deleting the root (`[]`) leaves no output;
the first failure is the result. -/
theorem delpaths_spec (v : Val) :
    delpaths [] v = some [.ok v] ∧
    (∀ ps, delpaths ([] :: ps) v = some []) ∧
    (∀ p ps v', delPath p v = some (.ok (some v')) → delpaths (p :: ps) v = delpaths ps v') ∧
    (∀ p ps e, delPath p v = some (.error e) → delpaths (p :: ps) v = some [.error e]) := by
  refine ⟨rfl, fun ps => rfl, ?_, ?_⟩
  · intro p ps v' h; show (match delPath p v with | none => none | some (.error e) => _ | some (.ok none) => _ | some (.ok (some v')) => _) = _; rw [h]
  · intro p ps e h; show (match delPath p v with | none => none | some (.error e) => _ | some (.ok none) => _ | some (.ok (some v')) => _) = _; rw [h]

/-- **`del(.[k])`**: on an array the element at position `k` (negative: from the end) is
removed and the others keep their order; a position outside fails; on an object the entry is
removed (`swap_remove`; an absent key changes nothing). -/
theorem del_index_spec :
    (∀ (a : List Val) (i : Nat), i < a.length →
      delIndex (vInt i) (.arr a) = some [.ok (.arr (a.take i ++ a.drop (i + 1)))]) ∧
    (∀ (a : List Val) (i : Nat), 0 < i → i ≤ a.length →
      delIndex (vInt (-(i : Int))) (.arr a) = some [.ok (.arr (a.take (a.length - i) ++ a.drop (a.length - i + 1)))]) ∧
    (∀ (a : List Val) (i : Int), (i < -(a.length : Int) ∨ (a.length : Int) ≤ i) →
      delIndex (vInt i) (.arr a) = some [.error (errOob i)]) ∧
    (∀ o k, delIndex k (.obj o) = some [.ok (.obj (Obj.swapRemove o k))]) := by
  refine ⟨?_, ?_, ?_, ?_⟩
  · intro a i hi
    have h1 : absIndex (i : Int) a.length = some i := by
      unfold absIndex; simp [hi]
    show (match delPath [vInt i] (.arr a) with | none => none | some (.error e) => _ | some (.ok none) => _ | some (.ok (some v')) => _) = _
    simp only [delPath, vInt, Int.ofNat_eq_natCast, h1, List.eraseIdx_eq_take_drop_succ]
    rfl
  · intro a i h0 hi
    have h1 : absIndex (-(i : Int)) a.length = some (a.length - i) := by
      unfold absIndex
      rw [if_neg (by omega), if_pos (by omega)]
      congr 1; omega
    show (match delPath [vInt (-(i : Int))] (.arr a) with | none => none | some (.error e) => _ | some (.ok none) => _ | some (.ok (some v')) => _) = _
    simp only [delPath, vInt, h1, List.eraseIdx_eq_take_drop_succ]
    rfl
  · intro a i hi
    have h1 : absIndex i a.length = none := by
      unfold absIndex
      by_cases h0 : 0 ≤ i
      · rw [if_pos h0, if_neg (by omega)]
      · rw [if_neg h0, if_neg (by omega)]
    show (match delPath [vInt i] (.arr a) with | none => none | some (.error e) => _ | some (.ok none) => _ | some (.ok (some v')) => _) = _
    simp only [delPath, vInt, h1]
  · intro o k
    show (match delPath [k] (.obj o) with | none => none | some (.error e) => _ | some (.ok none) => _ | some (.ok (some v')) => _) = _
    cases hg : Obj.get o k with
    | some x => simp only [delPath, hg]; rfl
    | none =>
      simp only [delPath, hg]
      show some [Except.ok (Val.obj o)] = _
      congr 4
      unfold Obj.swapRemove
      have : o.findIdx? (fun x => match x with | (k', _) => Obj.sameKey k k') = none := by
        unfold Obj.get at hg
        cases hf : o.find? (fun x => match x with | (k', _) => Obj.sameKey k k') with
        | some p => rw [hf] at hg; cases hg
        | none =>
          rw [List.findIdx?_eq_none_iff]
          exact fun x hx => by simpa using List.find?_eq_none.1 hf x hx
      rw [this]

/-- **`paths(p)`** with a predicate of one boolean output: the paths of the proper sub-values
(parents before children, in document order) whose value satisfies `p`. -/
theorem paths_spec (pb : Val → Bool) (v : Val) :
    pathsP (pureF fun x => .bool (pb x)) v =
      (((pathValues v).drop 1).filter fun pv => pb pv.2).map fun pv => .ok (.arr pv.1) := by
  unfold pathsP
  generalize (pathValues v).drop 1 = l
  induction l with
  | nil => rfl
  | cons pv l ih =>
    rw [List.flatMap_cons, List.filter_cons]
    cases h : pb pv.2
    · have : pathsStep (pureF fun x => .bool (pb x)) pv = [] := by simp [pathsStep, pureF, asBool, h]
      rw [this]
      show cut (List.flatMap _ l) = _
      rw [ih]; rfl
    · have : pathsStep (pureF fun x => .bool (pb x)) pv = [.ok (.arr pv.1)] := by simp [pathsStep, pureF, asBool, h]
      rw [this]
      show Except.ok _ :: cut (List.flatMap _ l) = _
      rw [ih]; rfl

/-- the sub-values `paths` ranges over: the value itself at `[]`, then for an array the
sub-values of element `i` under `i`, for an object those of every entry under its key -/
theorem pathValues_head (v : Val) : (pathValues v).head? = some ([], v) := by
  unfold pathValues
  obtain ⟨n, hn⟩ : ∃ n, v.size = n + 1 := ⟨v.size - 1, by have := Val.size_pos v; omega⟩
  rw [hn]; rfl

/-- **`pick(f)`** builds, for every path `f` yields, the nested object `{p₁: {p₂: … value}}`
(array indices become keys) and merges them with `*` in order; no path: `{}`. -/
theorem pick_spec :
    pick [] = .ok (.obj []) ∧
    (∀ (k : Val) (ks : List Val) (x : Val), pick [(k :: ks, x)] = .ok (nest (k :: ks) x)) ∧
    (∀ (k : Val) (ks : List Val) (x : Val), nest (k :: ks) x = .obj [(k, nest ks x)]) ∧ (∀ x, nest [] x = x) := by
  refine ⟨rfl, fun k ks x => ?_, fun _ _ _ => rfl, fun _ => rfl⟩
  show (match Val.mul (.obj []) (.obj [(k, nest ks x)]) with | .error e => Except.error e | .ok acc' => pickLoop acc' []) = _
  have : Val.mul (.obj []) (.obj [(k, nest ks x)]) = .ok (.obj [(k, nest ks x)]) := by
    show Except.ok (Val.obj (objMerge [] [(k, nest ks x)])) = _
    congr 2
  rw [this]; rfl


/-! ## the sorting theorems on the real order of `Val` (C08)

`TotalPreorder` is no longer only a hypothesis: C08 proves that `impl Ord for Val` (`Jaq.C08.cmp`,
tied to the Rust code by C08's correspondence and used by the C12 driver for the keyed natives)
is a total preorder on its guarded domain `InDom m` (NaN-free; integers beyond 2^53 not next to
finite floats).  For inputs all of whose keys lie in that domain the generic theorems become
statements about `sort_by` … computed with the real comparison. -/

section val_order
variable {α ε : Type} {kf : α → Except ε (List Val)} {key : α → List Val}

/-- **`sort_by(f)` on values: a permutation, sorted by `Val`'s order of the key vectors.** -/
theorem sort_by_val_perm_sorted (m : C08.Mode) (xs : List α) (hk : ∀ x ∈ xs, kf x = .ok (key x))
    (hd : KeysInDom m key xs) :
    ∃ out, sortByKey C08.cmp kf xs = .ok out ∧ out.Perm xs ∧ out.Pairwise (KeyLe C08.cmp key) := by
  obtain ⟨out, h1, h2, h3⟩ := sortBy_perm_sorted (kf := kf) (key := key) (domCmp_preorder m) xs hk
  refine ⟨out, by rw [sortByKey_dom m xs hk hd]; exact h1, h2, h3.imp_of_mem ?_⟩
  intro a b ha hb hab
  show lexCmp C08.cmp (key a) (key b) ≠ .gt
  rw [← lexCmp_dom m hd (h2.mem_iff.1 ha) (h2.mem_iff.1 hb)]
  exact hab

/-- **`sort_by(f)` on values is stable**: elements whose key vector is equivalent (under `Val`'s
order) to a key vector `key x₀` of the input keep their input order. -/
theorem sort_by_val_stable (m : C08.Mode) (xs : List α) (hk : ∀ x ∈ xs, kf x = .ok (key x))
    (hd : KeysInDom m key xs) (x₀ : α) (hx₀ : x₀ ∈ xs) :
    ∃ out, sortByKey C08.cmp kf xs = .ok out ∧
      out.filter (fun x => lexCmp C08.cmp (key x) (key x₀) == .eq) =
        xs.filter (fun x => lexCmp C08.cmp (key x) (key x₀) == .eq) := by
  obtain ⟨out, h1, h2⟩ := sortBy_stable (kf := kf) (key := key) (domCmp_preorder m) xs hk (key x₀)
  obtain ⟨out', h1', hperm, _⟩ := sortBy_perm_sorted (kf := kf) (key := key) (domCmp_preorder m) xs hk
  have : out' = out := by rw [h1] at h1'; exact (Except.ok.inj h1').symm
  subst this
  refine ⟨out', by rw [sortByKey_dom m xs hk hd]; exact h1, ?_⟩
  have e1 : out'.filter (fun x => lexCmp C08.cmp (key x) (key x₀) == .eq) =
      out'.filter (fun x => lexCmp (domCmp m) (key x) (key x₀) == .eq) :=
    List.filter_congr (fun x hx => by rw [lexCmp_dom m hd (hperm.mem_iff.1 hx) hx₀])
  have e2 : xs.filter (fun x => lexCmp C08.cmp (key x) (key x₀) == .eq) =
      xs.filter (fun x => lexCmp (domCmp m) (key x) (key x₀) == .eq) :=
    List.filter_congr (fun x hx => by rw [lexCmp_dom m hd hx hx₀])
  rw [e1, e2, h2]

/-- **`min_by(f)` / `max_by(f)` on values**: the first minimal / last maximal element under
`Val`'s order of the key vectors. -/
theorem min_max_by_val_extremal (m : C08.Mode) (dflt : α) (xs : List α) (hne : xs ≠ [])
    (hk : ∀ x ∈ xs, kf x = .ok (key x)) (hd : KeysInDom m key xs) :
    (∃ mn pre post, minByKey dflt C08.cmp kf xs = .ok mn ∧ xs = pre ++ mn :: post ∧
      (∀ p ∈ pre, KeyLt C08.cmp key mn p) ∧ (∀ q ∈ post, KeyLe C08.cmp key mn q)) ∧
    (∃ mx pre post, maxByKey dflt C08.cmp kf xs = .ok mx ∧ xs = pre ++ mx :: post ∧
      (∀ p ∈ pre, KeyLe C08.cmp key p mx) ∧ (∀ q ∈ post, KeyLt C08.cmp key q mx)) := by
  obtain ⟨e1, e2⟩ := minByKey_dom (kf := kf) m dflt xs hk hd
  constructor
  · obtain ⟨mn, pre, post, h1, h2, h3, h4⟩ := (minBy_extremal (kf := kf) (key := key) (domCmp_preorder m) dflt xs hk).2 hne
    refine ⟨mn, pre, post, by rw [e1]; exact h1, h2, ?_, ?_⟩
    · intro p hp
      show lexCmp C08.cmp (key mn) (key p) = .lt
      rw [← lexCmp_dom m hd (by rw [h2]; simp) (by rw [h2]; simp [hp])]
      exact h3 p hp
    · intro q hq
      show lexCmp C08.cmp (key mn) (key q) ≠ .gt
      rw [← lexCmp_dom m hd (by rw [h2]; simp) (by rw [h2]; simp [hq])]
      exact h4 q hq
  · obtain ⟨mx, pre, post, h1, h2, h3, h4⟩ := (maxBy_extremal (kf := kf) (key := key) (domCmp_preorder m) dflt xs hk).2 hne
    refine ⟨mx, pre, post, by rw [e2]; exact h1, h2, ?_, ?_⟩
    · intro p hp
      show lexCmp C08.cmp (key p) (key mx) ≠ .gt
      rw [← lexCmp_dom m hd (by rw [h2]; simp [hp]) (by rw [h2]; simp)]
      exact h3 p hp
    · intro q hq
      show lexCmp C08.cmp (key q) (key mx) = .lt
      rw [← lexCmp_dom m hd (by rw [h2]; simp [hq]) (by rw [h2]; simp)]
      exact h4 q hq

end val_order

/-- the domain hypothesis is satisfiable: `[2, 1.0, "a", 1] | sort_by(.)` with `Val`'s order -/
example : KeysInDom (α := Val) .smallInts (fun x => [x]) [vInt 2, .num (.float 0x3FF0000000000000), .tstr [97], vInt 1] := by
  intro x hx k hk
  simp only [List.mem_cons, List.mem_singleton, List.not_mem_nil, or_false] at hx hk
  subst hk
  rcases hx with rfl | rfl | rfl | rfl <;> decide

/- STILL OPEN (kept visible):
   * `group_by_val_*` / `unique_by_val_*`: they need `OrderLaws.eq_iff` for `C08.eq` / `C08.cmp`
     (`==` is the equivalence of the order), which C08 lists as not yet proved (`eq_iff_cmp_eq`);
     with that lemma the bridge is `groupRuns` congruence in `e`, analogous to `isort_congr`.
   * text-string `indices`: `i ∈ indices x ↔ .[i:][:|x|] == x` in characters (needs the link between
     `charWindowsIdx` and `Utf8.chars` prefixes). -/

/-! ## the hypotheses are satisfiable -/

/-- the order laws hold for a concrete comparison: `compare` / `==` on `Int` … -/
example : OrderLaws (fun a b : Int => compare a b) (fun a b => a == b) := intLaws

/-- … so e.g. `group_by(., .)` of `[3, 1, 3, 2, 1]` (elements as their own two-output key) is
`[[1, 1], [2], [3, 3]]`, an instance of `groupBy_partition_maximal_runs` with a key function
that succeeds everywhere -/
example : groupByKey (ε := Unit) (fun a b : Int => compare a b) (fun a b => a == b) (fun x => .ok [x, x]) [3, 1, 3, 2, 1] =
    .ok [[1, 1], [2], [3, 3]] := by rfl

example : ∃ gs, groupByKey (ε := Unit) (fun a b : Int => compare a b) (fun a b => a == b) (fun x => .ok [x, x]) [3, 1, 3, 2, 1] = .ok gs ∧
    gs.flatten = sortedBy (fun a b : Int => compare a b) (fun x => [x, x]) [3, 1, 3, 2, 1] ∧ (∀ g ∈ gs, g ≠ []) := by
  obtain ⟨gs, h1, h2, h3, _⟩ := groupBy_partition_maximal_runs (kf := fun x => (.ok [x, x] : Except Unit (List Int)))
    (key := fun x => [x, x]) intLaws [3, 1, 3, 2, 1] (fun _ _ => rfl)
  exact ⟨gs, h1, h2, h3⟩

/-- a sorted array and an answer satisfying the `binary_search` contract: `[0, 4, 8] | bsearch(6)` → `-3` -/
example : BsearchPost (fun a b : Int => compare a b) [0, 4, 8] 6 (-3) ∧ bsearchRef (fun a b : Int => compare a b) [0, 4, 8] 6 = -3 := by
  refine ⟨(bsearchOk_iff _ _ _).1 (by decide), by decide⟩

end Jaq.Coll
