/-
  C12 — collection built-ins obey the invariants and equations the manual states.

  Property theorems about the impl-model `JaqVerif/C12/{Sort,Coll}.lean` (tied to the Rust
  code by the correspondence of `checks/c12.py`).  The sorting theorems are generic in the
  element type `α`, key type `κ`, error type `ε`, comparison `c` and equality `e`; the order
  laws enter through ONE hypothesis, `TotalPreorder c` / `OrderLaws c e` (C08 proves them for
  `Val.cmp` / `Val.eq`).  A key filter is a function `kf : α → Except ε (List κ)` (all outputs
  of the filter on the element, or its first error); `key` names its results where it succeeds.
-/
import JaqVerif.Lemmas.C12Sort
import JaqVerif.Lemmas.C12Flat
import JaqVerif.Lemmas.C12More

namespace Jaq.Coll

section sorting
variable {α κ ε : Type} {c : κ → κ → Ordering} {e : κ → κ → Bool}
variable {kf : α → Except ε (List κ)} {key : α → List κ}

/-- `a` is not after `b` in the order of their key vectors -/
abbrev KeyLe (c : κ → κ → Ordering) (key : α → List κ) (a b : α) : Prop := lexCmp c (key a) (key b) ≠ .gt
abbrev KeyLt (c : κ → κ → Ordering) (key : α → List κ) (a b : α) : Prop := lexCmp c (key a) (key b) = .lt
abbrev KeyEq (c : κ → κ → Ordering) (key : α → List κ) (a b : α) : Prop := lexCmp c (key a) (key b) = .eq

/-! ### `sort_by` -/

/-- what `sort_by(f)` computes where every key evaluation succeeds: the stable sort of the
key-decorated array (arrays shorter than 2 are returned as they are) -/
theorem sortByKey_ok (xs : List α) (hk : ∀ x ∈ xs, kf x = .ok (key x)) :
    sortByKey c kf xs = .ok ((isort (keyCmp c) (xs.map fun x => (key x, x))).map (·.2)) := by
  unfold sortByKey
  split
  · next hlen =>
    congr 1
    match xs, hlen with
    | [], _ => rfl
    | [x], _ => rfl
    | _ :: _ :: _, hlen => simp at hlen; omega
  · rw [decorate_ok hk]

/-- **`sort_by(f)` = `sort_by([f])`** — the manual's correspondence — for any way `wrap` of
turning the outputs of `f` into ONE value that is compared like its contents (arrays:
`c (wrap x) (wrap y) = lexCmp c x y`; no order law is needed). -/
theorem sortBy_eq_sortBy_singleton (wrap : List κ → κ)
    (hwrap : ∀ x y, c (wrap x) (wrap y) = lexCmp c x y) (xs : List α) :
    sortByKey c (fun x => (kf x).map fun ys => [wrap ys]) xs = sortByKey c kf xs := by
  have hcmp : ∀ (p q : List κ × α), keyCmp c ([wrap p.1], p.2) ([wrap q.1], q.2) = keyCmp c p q := by
    intro p q
    show lexCmp c [wrap p.1] [wrap q.1] = lexCmp c p.1 q.1
    rw [lexCmp_cons_cons, hwrap]
    cases lexCmp c p.1 q.1 <;> rfl
  have hins : ∀ (p : List κ × α) (l : List (List κ × α)),
      insSt (keyCmp c) ([wrap p.1], p.2) (l.map fun q => ([wrap q.1], q.2)) =
        (insSt (keyCmp c) p l).map fun q => ([wrap q.1], q.2) := by
    intro p l
    induction l with
    | nil => rfl
    | cons q l ih =>
      rw [List.map_cons, insSt_cons, insSt_cons, hcmp]
      split
      · rw [ih]; rfl
      · rfl
  have hsort : ∀ l : List (List κ × α),
      isort (keyCmp c) (l.map fun q => ([wrap q.1], q.2)) = (isort (keyCmp c) l).map fun q => ([wrap q.1], q.2) := by
    intro l
    induction l with
    | nil => rfl
    | cons p l ih => rw [List.map_cons, isort_cons, isort_cons, ih, hins]
  have hdec : ∀ l : List α, decorate (fun x => (kf x).map fun ys => [wrap ys]) l =
      (decorate kf l).map fun yx => yx.map fun q => ([wrap q.1], q.2) := by
    intro l
    induction l with
    | nil => rfl
    | cons x l ih =>
      rw [decorate_cons, decorate_cons, ih]
      cases kf x with
      | error er => rfl
      | ok y =>
        cases decorate kf l with
        | error er => rfl
        | ok r => rfl
  unfold sortByKey
  split
  · rfl
  · rw [hdec]
    cases decorate kf xs with
    | error er => rfl
    | ok yx =>
      show Except.ok _ = Except.ok _
      rw [hsort, List.map_map]
      rfl

/-- **`sort_by(f)` is a permutation of its input, sorted by the key vectors.** -/
theorem sortBy_perm_sorted (h : TotalPreorder c) (xs : List α) (hk : ∀ x ∈ xs, kf x = .ok (key x)) :
    ∃ out, sortByKey c kf xs = .ok out ∧ out.Perm xs ∧ out.Pairwise (KeyLe c key) := by
  refine ⟨_, sortByKey_ok xs hk, ?_, ?_⟩
  · have := (isort_perm (c := keyCmp c) (xs.map fun x => (key x, x))).map (·.2)
    simpa [List.map_map, Function.comp_def] using this
  · have hs := isort_sorted (keyCmp_preorder (α := α) h) (xs.map fun x => (key x, x))
    rw [List.pairwise_map]
    refine hs.imp_of_mem ?_
    intro p q hp hq hpq
    obtain ⟨x, _, rfl⟩ := List.mem_map.1 (mem_isort.1 hp)
    obtain ⟨y, _, rfl⟩ := List.mem_map.1 (mem_isort.1 hq)
    exact hpq

/-- **`sort_by(f)` is stable**: the elements whose key vector is equivalent to any given `k`
appear in the output in exactly their input order. -/
theorem sortBy_stable (h : TotalPreorder c) (xs : List α) (hk : ∀ x ∈ xs, kf x = .ok (key x)) (k : List κ) :
    ∃ out, sortByKey c kf xs = .ok out ∧
      out.filter (fun x => lexCmp c (key x) k == .eq) = xs.filter (fun x => lexCmp c (key x) k == .eq) := by
  refine ⟨_, sortByKey_ok xs hk, ?_⟩
  have hl := lexCmp_preorder h
  have hs := isort_stable (c := keyCmp (α := α) c) (fun p => lexCmp c p.1 k == .eq)
    (fun a b ha hb => hl.eq_trans (by simpa using ha) (hl.eq_symm (by simpa using hb)))
    (xs.map fun x => (key x, x))
  have hmem : ∀ p ∈ isort (keyCmp c) (xs.map fun x => (key x, x)), p.1 = key p.2 := by
    intro p hp
    obtain ⟨x, _, rfl⟩ := List.mem_map.1 (mem_isort.1 hp)
    rfl
  rw [List.filter_map]
  have h1 : (isort (keyCmp c) (xs.map fun x => (key x, x))).filter ((fun x => lexCmp c (key x) k == .eq) ∘ (·.2)) =
      (isort (keyCmp c) (xs.map fun x => (key x, x))).filter (fun p => lexCmp c p.1 k == .eq) := by
    apply List.filter_congr
    intro p hp
    simp only [Function.comp]
    rw [hmem p hp]
  rw [h1, hs, List.filter_map, List.map_map]
  have h2 : ((fun p : List κ × α => lexCmp c p.1 k == .eq) ∘ fun x => (key x, x)) = fun x => lexCmp c (key x) k == .eq := rfl
  rw [h2]
  simp [Function.comp_def]

/-! ### `group_by`, `unique_by` -/

/-- the stable sort of `xs` by `key` (what `sort_by` yields, see `sortByKey_ok`) -/
abbrev sortedBy (c : κ → κ → Ordering) (key : α → List κ) (xs : List α) : List α :=
  (isort (keyCmp c) (xs.map fun x => (key x, x))).map (·.2)

theorem groupByKey_ok (xs : List α) (hk : ∀ x ∈ xs, kf x = .ok (key x)) :
    groupByKey c e kf xs =
      .ok ((groupRuns e (isort (keyCmp c) (xs.map fun x => (key x, x)))).map fun g => g.map (·.2)) := by
  unfold groupByKey groupsDec
  rw [decorate_ok hk]

/-- **`group_by(f)` partitions the sorted input into the maximal runs of equal keys**: the
groups concatenate to `sort_by(f)`'s result, none is empty, the keys within a group are
equivalent, and the keys of an earlier group are strictly smaller than those of a later one
(so no two groups could be merged, and no group could be split). -/
theorem groupBy_partition_maximal_runs (h : OrderLaws c e) (xs : List α) (hk : ∀ x ∈ xs, kf x = .ok (key x)) :
    ∃ gs, groupByKey c e kf xs = .ok gs ∧
      gs.flatten = sortedBy c key xs ∧
      (∀ g ∈ gs, g ≠ []) ∧
      (∀ g ∈ gs, ∀ a ∈ g, ∀ b ∈ g, KeyEq c key a b) ∧
      gs.Pairwise (fun g g' => ∀ a ∈ g, ∀ b ∈ g', KeyLt c key a b) := by
  refine ⟨_, groupByKey_ok xs hk, ?_, ?_, ?_, ?_⟩
  · rw [← List.map_flatten, groupRuns_flatten]
  all_goals
    have hs := isort_sorted (keyCmp_preorder (α := α) h.toTotalPreorder) (xs.map fun x => (key x, x))
    have ok := groupRuns_ok (α := α) h _ hs
    have hsub : ∀ G ∈ groupRuns e (isort (keyCmp c) (xs.map fun x => (key x, x))), ∀ p ∈ G, p.1 = key p.2 := by
      intro G hG p hp
      apply dec_mem_key (c := c) (xs := xs)
      rw [← groupRuns_flatten (e := e) (isort (keyCmp c) (xs.map fun x => (key x, x)))]
      exact List.mem_flatten.2 ⟨G, hG, hp⟩
  · intro g hg
    obtain ⟨G, hG, rfl⟩ := List.mem_map.1 hg
    have := ok.ne G hG
    simpa using this
  · intro g hg a ha b hb
    obtain ⟨G, hG, rfl⟩ := List.mem_map.1 hg
    obtain ⟨p, hp, rfl⟩ := List.mem_map.1 ha
    obtain ⟨q, hq, rfl⟩ := List.mem_map.1 hb
    show lexCmp c (key p.2) (key q.2) = .eq
    rw [← hsub G hG p hp, ← hsub G hG q hq]
    exact ok.eq G hG p hp q hq
  · rw [List.pairwise_map]
    refine ok.lt.imp_of_mem ?_
    intro G G' hG hG' hlt a ha b hb
    obtain ⟨p, hp, rfl⟩ := List.mem_map.1 ha
    obtain ⟨q, hq, rfl⟩ := List.mem_map.1 hb
    show lexCmp c (key p.2) (key q.2) = .lt
    rw [← hsub G hG p hp, ← hsub G' hG' q hq]
    exact hlt p hp q hq

/-- **`unique_by(f)` keeps the first of each run**: every output is the first element *of the
input array* with its key; keys of the outputs strictly increase; every input key is represented. -/
theorem uniqueBy_first_of_run (h : OrderLaws c e) (dflt : α) (xs : List α) (hk : ∀ x ∈ xs, kf x = .ok (key x)) :
    ∃ out, uniqueByKey dflt c e kf xs = .ok out ∧
      (∀ a ∈ out, xs.find? (fun b => lexCmp c (key b) (key a) == .eq) = some a) ∧
      out.Pairwise (KeyLt c key) ∧
      (∀ x ∈ xs, ∃ a ∈ out, KeyEq c key x a) := by
  have hl := lexCmp_preorder h.toTotalPreorder
  have hs := isort_sorted (keyCmp_preorder (α := α) h.toTotalPreorder) (xs.map fun x => (key x, x))
  have ok := groupRuns_ok (α := α) h _ hs
  have hflat := groupRuns_flatten (e := e) (isort (keyCmp c) (xs.map fun x => (key x, x)))
  have hsub : ∀ G ∈ groupRuns e (isort (keyCmp c) (xs.map fun x => (key x, x))), ∀ p ∈ G, p.1 = key p.2 := by
    intro G hG p hp
    apply dec_mem_key (c := c) (xs := xs)
    rw [← hflat]
    exact List.mem_flatten.2 ⟨G, hG, hp⟩
  refine ⟨_, by unfold uniqueByKey; rw [groupByKey_ok xs hk], ?_, ?_, ?_⟩
  · intro a ha
    obtain ⟨g, hg, rfl⟩ := List.mem_map.1 ha
    obtain ⟨G, hG, rfl⟩ := List.mem_map.1 hg
    -- the group is not empty: its head is a real element
    obtain ⟨p0, G', rfl⟩ := List.exists_cons_of_ne_nil (ok.ne G hG)
    simp only [List.map_cons, List.headD_cons]
    have hp0 : p0.1 = key p0.2 := hsub _ hG p0 (List.mem_cons_self ..)
    -- the class of `p0` in the sorted list is exactly this group …
    have hcls := filter_flatten_class h.toTotalPreorder (key p0.2) _ ok _ hG (by
      intro p hp
      have := ok.eq _ hG p hp p0 (List.mem_cons_self ..)
      rwa [hp0] at this)
    rw [hflat] at hcls
    -- … and by stability it is the class in the input, in input order
    have hst := isort_stable (c := keyCmp (α := α) c) (fun p => lexCmp c p.1 (key p0.2) == .eq)
      (fun a b ha hb => hl.eq_trans (by simpa using ha) (hl.eq_symm (by simpa using hb)))
      (xs.map fun x => (key x, x))
    rw [hcls, List.filter_map] at hst
    have hhead := congrArg List.head? hst
    rw [List.head?_cons, List.head?_map, List.head?_filter] at hhead
    have hcomp : ((fun p : List κ × α => lexCmp c p.1 (key p0.2) == .eq) ∘ fun x => (key x, x)) =
        fun b => lexCmp c (key b) (key p0.2) == .eq := rfl
    rw [hcomp] at hhead
    cases hf : xs.find? (fun b => lexCmp c (key b) (key p0.2) == .eq) with
    | none => rw [hf] at hhead; cases hhead
    | some b =>
      rw [hf] at hhead
      simp only [Option.map_some, Option.some.injEq] at hhead
      rw [hhead]
  · rw [List.pairwise_map, List.pairwise_map]
    refine ok.lt.imp_of_mem ?_
    intro G G' hG hG' hlt
    obtain ⟨p0, T, rfl⟩ := List.exists_cons_of_ne_nil (ok.ne G hG)
    obtain ⟨q0, T', rfl⟩ := List.exists_cons_of_ne_nil (ok.ne G' hG')
    simp only [List.map_cons, List.headD_cons]
    show lexCmp c (key p0.2) (key q0.2) = .lt
    rw [← hsub _ hG p0 (List.mem_cons_self ..), ← hsub _ hG' q0 (List.mem_cons_self ..)]
    exact hlt p0 (List.mem_cons_self ..) q0 (List.mem_cons_self ..)
  · intro x hx
    have hmem : (key x, x) ∈ (groupRuns e (isort (keyCmp c) (xs.map fun x => (key x, x)))).flatten := by
      rw [hflat]; exact mem_isort.2 (List.mem_map.2 ⟨x, hx, rfl⟩)
    obtain ⟨G, hG, hxG⟩ := List.mem_flatten.1 hmem
    obtain ⟨p0, T, rfl⟩ := List.exists_cons_of_ne_nil (ok.ne G hG)
    refine ⟨p0.2, List.mem_map.2 ⟨(p0 :: T).map (·.2), List.mem_map.2 ⟨_, hG, rfl⟩, rfl⟩, ?_⟩
    have := ok.eq _ hG (key x, x) hxG p0 (List.mem_cons_self ..)
    rwa [hsub _ hG p0 (List.mem_cons_self ..)] at this

/-! ### `min_by`, `max_by` -/

/-- **`min_by(f)` yields an extremal element** — the *first* element of the input whose key
vector is minimal (replace predicate `y < my`) — **and `null` on the empty array**. -/
theorem minBy_extremal (h : TotalPreorder c) (dflt : α) (xs : List α) (hk : ∀ x ∈ xs, kf x = .ok (key x)) :
    (xs = [] → minByKey dflt c kf xs = .ok dflt) ∧
    (xs ≠ [] → ∃ m pre post, minByKey dflt c kf xs = .ok m ∧ xs = pre ++ m :: post ∧
      (∀ p ∈ pre, KeyLt c key m p) ∧ (∀ q ∈ post, KeyLe c key m q)) := by
  constructor
  · rintro rfl; rfl
  · intro hne
    obtain ⟨x, rest, rfl⟩ := List.exists_cons_of_ne_nil hne
    obtain ⟨pre, post, heq, hpre, hpost⟩ := foldl_min (α := α) h (rest.map fun x => (key x, x)) (key x, x)
    have hkeys : ∀ p ∈ (key x, x) :: rest.map (fun x => (key x, x)), p.1 = key p.2 := by
      intro p hp
      rcases List.mem_cons.1 hp with rfl | hp
      · rfl
      · obtain ⟨y, _, rfl⟩ := List.mem_map.1 hp; rfl
    refine ⟨(List.foldl (cmpStep (minReplace c)) (key x, x) (rest.map fun x => (key x, x))).2, pre.map (·.2), post.map (·.2), ?_, ?_, ?_, ?_⟩
    · unfold minByKey cmpBy
      rw [decorate_ok hk]
      rfl
    · have := congrArg (List.map (·.2)) heq
      simpa [List.map_map, Function.comp_def] using this
    all_goals
      have hr : (List.foldl (cmpStep (minReplace c)) (key x, x) (rest.map fun x => (key x, x))).1 =
          key (List.foldl (cmpStep (minReplace c)) (key x, x) (rest.map fun x => (key x, x))).2 :=
        hkeys _ (by rw [heq]; simp)
    · intro a ha
      obtain ⟨p, hp, rfl⟩ := List.mem_map.1 ha
      show lexCmp c (key _) (key p.2) = .lt
      rw [← hr, ← hkeys p (by rw [heq]; simp [hp])]
      exact hpre p hp
    · intro a ha
      obtain ⟨q, hq, rfl⟩ := List.mem_map.1 ha
      show lexCmp c (key _) (key q.2) ≠ .gt
      rw [← hr, ← hkeys q (by rw [heq]; simp [hq])]
      exact hpost q hq

/-- **`max_by(f)` yields an extremal element** — the *last* element of the input whose key
vector is maximal (replace predicate `y >= my`) — **and `null` on the empty array**. -/
theorem maxBy_extremal (h : TotalPreorder c) (dflt : α) (xs : List α) (hk : ∀ x ∈ xs, kf x = .ok (key x)) :
    (xs = [] → maxByKey dflt c kf xs = .ok dflt) ∧
    (xs ≠ [] → ∃ m pre post, maxByKey dflt c kf xs = .ok m ∧ xs = pre ++ m :: post ∧
      (∀ p ∈ pre, KeyLe c key p m) ∧ (∀ q ∈ post, KeyLt c key q m)) := by
  constructor
  · rintro rfl; rfl
  · intro hne
    obtain ⟨x, rest, rfl⟩ := List.exists_cons_of_ne_nil hne
    obtain ⟨pre, post, heq, hpre, hpost⟩ := foldl_max (α := α) h (rest.map fun x => (key x, x)) (key x, x)
    have hkeys : ∀ p ∈ (key x, x) :: rest.map (fun x => (key x, x)), p.1 = key p.2 := by
      intro p hp
      rcases List.mem_cons.1 hp with rfl | hp
      · rfl
      · obtain ⟨y, _, rfl⟩ := List.mem_map.1 hp; rfl
    refine ⟨(List.foldl (cmpStep (maxReplace c)) (key x, x) (rest.map fun x => (key x, x))).2, pre.map (·.2), post.map (·.2), ?_, ?_, ?_, ?_⟩
    · unfold maxByKey cmpBy
      rw [decorate_ok hk]
      rfl
    · have := congrArg (List.map (·.2)) heq
      simpa [List.map_map, Function.comp_def] using this
    all_goals
      have hr : (List.foldl (cmpStep (maxReplace c)) (key x, x) (rest.map fun x => (key x, x))).1 =
          key (List.foldl (cmpStep (maxReplace c)) (key x, x) (rest.map fun x => (key x, x))).2 :=
        hkeys _ (by rw [heq]; simp)
    · intro a ha
      obtain ⟨p, hp, rfl⟩ := List.mem_map.1 ha
      show lexCmp c (key p.2) (key _) ≠ .gt
      rw [← hr, ← hkeys p (by rw [heq]; simp [hp])]
      exact hpre p hp
    · intro a ha
      obtain ⟨q, hq, rfl⟩ := List.mem_map.1 ha
      show lexCmp c (key q.2) (key _) = .lt
      rw [← hr, ← hkeys q (by rw [heq]; simp [hq])]
      exact hpost q hq

/-! ### failing key filters -/

/-- **The first failing key evaluation (in array order) is the result** of `group_by`,
`unique_by`, `min_by`, `max_by`, and of `sort_by` on arrays of at least two elements;
`sort_by` does not run the key filter at all on shorter arrays. -/
theorem keyed_first_error {pre post : List α} {x : α} {er : ε} (dflt : α)
    (hpre : ∀ p ∈ pre, kf p = .ok (key p)) (hx : kf x = .error er) :
    groupByKey c e kf (pre ++ x :: post) = .error er ∧
    uniqueByKey dflt c e kf (pre ++ x :: post) = .error er ∧
    minByKey dflt c kf (pre ++ x :: post) = .error er ∧
    maxByKey dflt c kf (pre ++ x :: post) = .error er ∧
    (2 ≤ (pre ++ x :: post).length → sortByKey c kf (pre ++ x :: post) = .error er) ∧
    ((pre ++ x :: post).length < 2 → sortByKey c kf (pre ++ x :: post) = .ok (pre ++ x :: post)) := by
  have hd := decorate_error (post := post) hpre hx
  refine ⟨?_, ?_, ?_, ?_, ?_, ?_⟩
  · unfold groupByKey groupsDec; rw [hd]
  · unfold uniqueByKey groupByKey groupsDec; rw [hd]
  · unfold minByKey cmpBy; rw [hd]
  · unfold maxByKey cmpBy; rw [hd]
  · intro hlen
    unfold sortByKey
    rw [if_neg (by omega), hd]
  · intro hlen
    unfold sortByKey
    rw [if_pos hlen]

end sorting

/-! ## `keys`, entries -/

/-- **`keys` = `keys_unsorted | sort`** (the definition in defs.jq, as the manual states). -/
theorem keys_eq_sort_keysUnsorted (v : Val) : keys v = keysUnsorted v >>= sort := rfl

/-- … so the keys of an object are a sorted permutation of its entry keys, and `keys` fails
exactly where `keys_unsorted` fails (on scalars). -/
theorem keys_obj_perm_sorted (h : TotalPreorder Val.cmp) (o : Obj.Entries) :
    ∃ ks, keys (.obj o) = .ok (.arr ks) ∧ ks.Perm (o.map (·.1)) ∧ ks.Pairwise (fun a b => Val.cmp a b ≠ .gt) :=
  ⟨isort Val.cmp (o.map (·.1)), rfl, isort_perm _, isort_sorted h _⟩

/-- **`to_entries | from_entries` is the identity on objects** (any keys, also non-strings),
for objects whose keys are pairwise different under the lookup of `IndexMap`. -/
theorem entries_roundtrip (o : Obj.Entries) (hd : o.Pairwise (fun p q => Obj.sameKey q.1 p.1 = false)) :
    (toEntries (.obj o) >>= fromEntries) = .ok (.obj o) := by
  show fromEntries (.arr (o.map fun x => match x with | (k, x) => mkEntry k x)) = .ok (.obj o)
  unfold fromEntries values
  have : (o.map fun x => match x with | (k, x) => mkEntry k x) = o.map fun p => mkEntry p.1 p.2 := by
    apply List.map_congr_left; intro p _; rfl
  simp only [this]
  rw [fromEntriesLoop_entries o [] (by simpa using hd)]
  rfl

/-- **`with_entries(.)` is the identity on objects.** -/
theorem withEntries_id (o : Obj.Entries) (hd : o.Pairwise (fun p q => Obj.sameKey q.1 p.1 = false)) :
    withEntriesId (.obj o) = .ok (.obj o) := entries_roundtrip o hd

/-- `to_entries` describes its input: the i-th entry is `{key: kᵢ, value: vᵢ}` -/
theorem toEntries_obj (o : Obj.Entries) :
    toEntries (.obj o) = .ok (.arr (o.map fun p => .obj [(sKey, p.1), (sValue, p.2)])) := by
  unfold toEntries keyValues
  show Except.ok _ = Except.ok _
  congr 2

/-- the hypothesis of `entries_roundtrip` holds for a concrete object with a string, a
number and an array as keys: `{"key": 1, (0): null, ([1]): "value"}` -/
example : ([(sKey, vInt 1), (vInt 0, .null), (.arr [vInt 1], sValue)] : Obj.Entries).Pairwise
    (fun p q => Obj.sameKey q.1 p.1 = false) := by decide

/-! ## `indices`, `index`, `rindex` -/

/-- **`indices($x)` on arrays lists exactly the positions `i` with `.[i:][:$x|length] == $x`**
(`$x` a non-empty array; `.[i:][: n]` is `(a.drop i).take n`, `==` on arrays is `listEq Val.eq`),
in increasing order.  For the empty needle the code answers `[]` (every `i` would qualify). -/
theorem indices_complete_and_sound (a b : List Val) (hb : b ≠ []) :
    ∃ is, indicesNat (.arr a) (.arr b) = .ok is ∧ is.Pairwise (· < ·) ∧
      ∀ i, i ∈ is ↔ listEq Val.eq ((a.drop i).take b.length) b = true := by
  have hlen : 0 < b.length := List.length_pos_iff.2 hb
  refine ⟨windowsIdx (listEq Val.eq) b 0 a, ?_, (windowsIdx_sorted _ _ _ _).1, ?_⟩
  · unfold indicesNat
    simp [hb]
  · intro i
    rw [mem_windowsIdx _ _ hlen]
    constructor
    · rintro ⟨j, rfl, _, he⟩; simpa using he
    · intro he
      refine ⟨i, by omega, ?_, he⟩
      have := listEq_length he
      rw [List.length_take, List.length_drop] at this
      omega

/-- the same for byte strings (`windows` on bytes) -/
theorem indices_bytes_complete_and_sound (a b : List UInt8) (hb : b ≠ []) :
    ∃ is, indicesNat (.bstr a) (.bstr b) = .ok is ∧ is.Pairwise (· < ·) ∧
      ∀ i, i ∈ is ↔ (a.drop i).take b.length = b := by
  have hlen : 0 < b.length := List.length_pos_iff.2 hb
  refine ⟨windowsIdx (fun u v => u == v) b 0 a, ?_, (windowsIdx_sorted _ _ _ _).1, ?_⟩
  · unfold indicesNat
    simp [hb]
  · intro i
    rw [mem_windowsIdx _ _ hlen]
    constructor
    · rintro ⟨j, rfl, _, he⟩; simpa using he
    · intro he
      refine ⟨i, by omega, ?_, by simpa using he⟩
      have := congrArg List.length he
      rw [List.length_take, List.length_drop] at this
      omega

/-- an empty needle has no occurrences (the code's choice; the manual's condition would hold
at every position) -/
theorem indices_empty_needle (a : List Val) (s : List UInt8) :
    indicesNat (.arr a) (.arr []) = .ok [] ∧ indicesNat (.tstr s) (.tstr []) = .ok [] ∧
    indicesNat (.bstr s) (.bstr []) = .ok [] := ⟨rfl, rfl, rfl⟩

/-- `index` / `rindex` are the first / last of `indices` (`null` when there is none), and fail
when `indices` fails -/
theorem index_rindex_def (x y : Val) :
    index x y = (indicesNat x y).map (fun is => match is.head? with | some i => vInt (Int.ofNat i) | none => .null) ∧
    rindex x y = (indicesNat x y).map (fun is => match is.getLast? with | some i => vInt (Int.ofNat i) | none => .null) :=
  ⟨rfl, rfl⟩

/-! ## `flatten` -/

/- FULL STATEMENT (false on the current tree, finding F-12c; true for `flattenSpec`, which the
   model follows once `fixedFlatten` is switched on):
     theorem flatten_spec (d : Int) (v : Val) : flattenCur d v = .ok (flattenSpec d v)           -/

/-- **`flatten($d)` = `[flattens($d)]` with the manual's `flattens`** — on the current tree only
for array inputs, depths `≥ 0`, and up to `null` standing for an empty result. -/
theorem flatten_spec_partial (d : Int) (hd : 0 ≤ d) (xs : List Val) :
    ∃ w, flattenCur d (.arr xs) = .ok w ∧
      (w = flattenSpec d (.arr xs) ∨ (w = .null ∧ flattenSpec d (.arr xs) = .arr [])) := by
  obtain ⟨w, hw, hrep⟩ := flattenCurN_arr d.toNat xs
  refine ⟨w, hw, ?_⟩
  unfold flattenSpec flattens
  rw [if_neg (by omega)]
  rcases hrep with rfl | ⟨rfl, hnil⟩
  · exact Or.inl rfl
  · exact Or.inr ⟨rfl, by rw [hnil]⟩

/-- the four witnesses of F-12c on the model of the current tree -/
theorem flatten_spec_witnesses :
    flattenCur 1 (.arr []) = .ok .null ∧ flattenSpec 1 (.arr []) = .arr [] ∧
    flattenCur 0 (vInt 0) = .ok (vInt 0) ∧ flattenSpec 0 (vInt 0) = .arr [vInt 0] ∧
    flattenCur 1 (.obj [(sKey, .arr [vInt 1])]) = .ok (.arr [vInt 1]) ∧
      flattenSpec 1 (.obj [(sKey, .arr [vInt 1])]) = .arr [.obj [(sKey, .arr [vInt 1])]] ∧
    flattenCur (-1) (.arr [vInt 1]) = .ok (.arr [vInt 1]) ∧ flattenSpec (-1) (.arr [vInt 1]) = .arr [.arr [vInt 1]] :=
  ⟨rfl, rfl, rfl, rfl, rfl, rfl, rfl, rfl⟩

/-- **`flatten` = `[flattens]`**: `flatten/0` collects `leaves`, which satisfies the manual's
`def flattens: if isarray then .[] | flattens end` -/
theorem flatten0_spec (v : Val) :
    flatten0 v = .arr (leaves v) ∧
    (∀ xs, leaves (.arr xs) = xs.flatMap leaves) ∧ ((∀ a, v ≠ .arr a) → leaves v = [v]) := by
  refine ⟨rfl, ?_, ?_⟩
  · intro xs
    unfold leaves
    have hsz : (Val.arr xs).size = Val.sizeList xs + 1 := by simp [Val.size]; omega
    rw [hsz, leavesF_succ_arr]
    have hsub : ∀ x ∈ xs, leavesF (Val.sizeList xs) x = leavesF x.size x :=
      fun x hx => leavesF_mono _ _ x (Val.size_lt_of_mem hx) (Nat.le_refl _)
    generalize Val.sizeList xs = n at hsub
    clear hsz
    induction xs with
    | nil => rfl
    | cons x xs ih =>
      rw [List.flatMap_cons, List.flatMap_cons, hsub x (List.mem_cons_self ..),
        ih (fun y hy => hsub y (List.mem_cons_of_mem _ hy))]
  · intro hna
    unfold leaves
    obtain ⟨n, hn⟩ : ∃ n, v.size = n + 1 := ⟨v.size - 1, by have := Val.size_pos v; omega⟩
    rw [hn]
    cases v with
    | arr a => exact absurd rfl (hna a)
    | _ => rfl

/-! ## `type` and the type tests -/

/-- **`type` names the constructor**, for every value. -/
theorem type_spec (v : Val) : typeName v = ctorName v := by
  unfold typeName isboolean vLt
  rw [eq_null, eq_bool, eq_bool, cmp_eStr, cmp_eArr, cmp_eObj]
  cases v with
  | bool b => cases b <;> rfl
  | tstr x => cases x <;> rfl
  | bstr x => cases x <;> rfl
  | arr x => cases x <;> rfl
  | obj x => cases x <;> rfl
  | _ => rfl

/-- **The type tests agree with `type`.** -/
theorem istype_spec (v : Val) :
    isboolean v = (ctorName v == "boolean") ∧ isnumber v = (ctorName v == "number") ∧
    isstring v = (ctorName v == "string") ∧ isarray v = (ctorName v == "array") ∧
    isobject v = (ctorName v == "object") := by
  unfold isboolean isnumber isstring isarray isobject vLt vGt vGe
  rw [eq_bool, eq_bool, cmp_true, cmp_eStr, cmp_eArr, cmp_eObj]
  cases v with
  | bool b => cases b <;> simp [ctorName]
  | tstr x => cases x <;> simp [ctorName]
  | bstr x => cases x <;> simp [ctorName]
  | arr x => cases x <;> simp [ctorName]
  | obj x => cases x <;> simp [ctorName]
  | _ => simp [ctorName]

/-! ## `floor`, `round`, `ceil` -/

/-- `exactRound .floor` is the closest smaller integer: `i ≤ x < i + 1` (in units of 2^-1074) -/
theorem exactRound_floor (b : UInt64) :
    exactRound .floor b * unitsPerOne ≤ F64.units b ∧ F64.units b < (exactRound .floor b + 1) * unitsPerOne :=
  ⟨Int.ediv_mul_le _ (Int.ne_of_gt unitsPerOne_pos), Int.lt_ediv_add_one_mul_self _ unitsPerOne_pos⟩

/-- `exactRound .ceil` is the closest larger integer: `i - 1 < x ≤ i` -/
theorem exactRound_ceil (b : UInt64) :
    (exactRound .ceil b - 1) * unitsPerOne < F64.units b ∧ F64.units b ≤ exactRound .ceil b * unitsPerOne := by
  have h1 := Int.ediv_mul_le (-F64.units b) (Int.ne_of_gt unitsPerOne_pos)
  have h2 := Int.lt_ediv_add_one_mul_self (-F64.units b) unitsPerOne_pos
  show (-(-F64.units b / unitsPerOne) - 1) * unitsPerOne < F64.units b ∧ F64.units b ≤ -(-F64.units b / unitsPerOne) * unitsPerOne
  generalize -F64.units b / unitsPerOne = q at h1 h2 ⊢
  constructor
  · have : (-q - 1) * unitsPerOne = -((q + 1) * unitsPerOne) := by
      rw [Int.sub_mul, Int.add_mul, Int.neg_mul]; omega
    omega
  · have : -q * unitsPerOne = -(q * unitsPerOne) := Int.neg_mul ..
    omega

/-- `exactRound .round` is a closest integer (`|2x - 2i| ≤ 1`), ties away from zero -/
theorem exactRound_round (b : UInt64) :
    (0 ≤ F64.units b → 2 * exactRound .round b * unitsPerOne - unitsPerOne ≤ 2 * F64.units b ∧
        2 * F64.units b < 2 * exactRound .round b * unitsPerOne + unitsPerOne) ∧
    (F64.units b < 0 → 2 * exactRound .round b * unitsPerOne - unitsPerOne < 2 * F64.units b ∧
        2 * F64.units b ≤ 2 * exactRound .round b * unitsPerOne + unitsPerOne) := by
  have hD := unitsPerOne_pos
  have h2D : 0 < 2 * unitsPerOne := by omega
  constructor
  · intro hu
    have hnot : ¬ F64.units b < 0 := by omega
    have hdef : exactRound .round b = (2 * F64.units b + unitsPerOne) / (2 * unitsPerOne) := by
      show (if F64.units b < 0 then _ else _) = _
      rw [if_neg hnot]
    rw [hdef]
    have h1 := Int.ediv_mul_le (2 * F64.units b + unitsPerOne) (Int.ne_of_gt h2D)
    have h2 := Int.lt_ediv_add_one_mul_self (2 * F64.units b + unitsPerOne) h2D
    generalize (2 * F64.units b + unitsPerOne) / (2 * unitsPerOne) = q at h1 h2 ⊢
    have e1 : q * (2 * unitsPerOne) = 2 * q * unitsPerOne := by rw [Int.mul_comm 2 q, Int.mul_assoc]
    have e2 : (q + 1) * (2 * unitsPerOne) = 2 * q * unitsPerOne + 2 * unitsPerOne := by
      rw [Int.add_mul, e1]; omega
    omega
  · intro hu
    have hdef : exactRound .round b = -((2 * (-F64.units b) + unitsPerOne) / (2 * unitsPerOne)) := by
      show (if F64.units b < 0 then _ else _) = _
      rw [if_pos hu]
    rw [hdef]
    have h1 := Int.ediv_mul_le (2 * (-F64.units b) + unitsPerOne) (Int.ne_of_gt h2D)
    have h2 := Int.lt_ediv_add_one_mul_self (2 * (-F64.units b) + unitsPerOne) h2D
    generalize (2 * (-F64.units b) + unitsPerOne) / (2 * unitsPerOne) = q at h1 h2 ⊢
    have e1 : q * (2 * unitsPerOne) = 2 * q * unitsPerOne := by rw [Int.mul_comm 2 q, Int.mul_assoc]
    have e2 : (q + 1) * (2 * unitsPerOne) = 2 * q * unitsPerOne + 2 * unitsPerOne := by
      rw [Int.add_mul, e1]; omega
    have e3 : 2 * -q * unitsPerOne = -(2 * q * unitsPerOne) := by
      rw [Int.mul_neg, Int.neg_mul]
    omega

/- FULL STATEMENT (false on the current tree, finding F-12a; `round_spec_fixed` is what holds
   once the guard is strict):
     theorem round_spec (m : RMode) (n : Num) : roundNum false m n = roundSpecNum m n            -/

/-- **`floor`/`round`/`ceil` yield the exact integer** — on the current tree except when that
integer is `2^63` (the float→integer guard admits it and the cast saturates). -/
theorem round_spec_partial (m : RMode) (n : Num)
    (hedge : ¬ (n.isInt = false ∧ F64.isFinite (Num.toF64 n) = true ∧ exactRound m (Num.toF64 n) = 2 ^ 63)) :
    roundNum false m n = roundSpecNum m n := by
  cases n with
  | int i => rfl
  | big i => rfl
  | float f =>
    unfold roundNum roundSpecNum
    simp only
    by_cases hf : F64.isFinite (Num.toF64 (.float f)) = true
    · simp only [hf, if_true]
      have hne : exactRound m (Num.toF64 (.float f)) ≠ 2 ^ 63 := fun h => hedge ⟨rfl, hf, h⟩
      generalize exactRound m (Num.toF64 (.float f)) = i at hne
      unfold roundConv roundUpperOk Num.ofInt fitsIsize isizeMin isizeMax
      simp only [Bool.false_eq_true, if_false, Bool.and_eq_true, decide_eq_true_eq]
      by_cases hr : (-9223372036854775808 ≤ i ∧ i ≤ 2 ^ 63)
      · have : ¬ i > 9223372036854775807 := by omega
        have h2 : (-9223372036854775808 ≤ i ∧ i ≤ 9223372036854775807) := by omega
        simp [hr, this, h2]
      · have h2 : ¬ (-9223372036854775808 ≤ i ∧ i ≤ 9223372036854775807) := by omega
        simp [h2]
        intro h; omega
    · simp [hf]
  | dec s =>
    unfold roundNum roundSpecNum
    simp only
    by_cases hf : F64.isFinite (Num.toF64 (.dec s)) = true
    · simp only [hf, if_true]
      have hne : exactRound m (Num.toF64 (.dec s)) ≠ 2 ^ 63 := fun h => hedge ⟨rfl, hf, h⟩
      generalize exactRound m (Num.toF64 (.dec s)) = i at hne
      unfold roundConv roundUpperOk Num.ofInt fitsIsize isizeMin isizeMax
      simp only [Bool.false_eq_true, if_false, Bool.and_eq_true, decide_eq_true_eq]
      by_cases hr : (-9223372036854775808 ≤ i ∧ i ≤ 2 ^ 63)
      · have : ¬ i > 9223372036854775807 := by omega
        have h2 : (-9223372036854775808 ≤ i ∧ i ≤ 9223372036854775807) := by omega
        simp [hr, this, h2]
      · have h2 : ¬ (-9223372036854775808 ≤ i ∧ i ≤ 9223372036854775807) := by omega
        simp [h2]
        intro h; omega
    · simp [hf]

/-- the witness of F-12a: `9223372036854775808.0 | floor` is `9223372036854775807` on the
model of the current tree, while the closest smaller integer is `9223372036854775808` -/
theorem round_upper_edge_witness :
    roundNum false .floor (.float 0x43E0000000000000) = .int 9223372036854775807 ∧
    roundSpecNum .floor (.float 0x43E0000000000000) = .big 9223372036854775808 ∧
    roundNum false .round (.dec "9223372036854775808.0") = .int 9223372036854775807 ∧
    roundNum false .ceil (.float 0x43DFFFFFFFFFFFFF) = .int 9223372036854774784 := by
  decide +kernel

/-- with the strict guard (`fixedRoundGuard`), `floor`/`round`/`ceil` are exact for every number -/
theorem round_spec_fixed (m : RMode) (n : Num) : roundNum true m n = roundSpecNum m n := by
  cases n with
  | int i => rfl
  | big i => rfl
  | float f =>
    unfold roundNum roundSpecNum
    simp only
    by_cases hf : F64.isFinite (Num.toF64 (.float f)) = true
    · simp only [hf, if_true]
      generalize exactRound m (Num.toF64 (.float f)) = i
      unfold roundConv roundUpperOk Num.ofInt fitsIsize isizeMin isizeMax
      simp only [if_true, Bool.and_eq_true, decide_eq_true_eq]
      by_cases hr : (-9223372036854775808 ≤ i ∧ i < 2 ^ 63)
      · have : ¬ i > 9223372036854775807 := by omega
        have h2 : (-9223372036854775808 ≤ i ∧ i ≤ 9223372036854775807) := by omega
        simp [hr, this, h2]
      · have h2 : ¬ (-9223372036854775808 ≤ i ∧ i ≤ 9223372036854775807) := by omega
        simp [h2]
        intro h; omega
    · simp [hf]
  | dec s =>
    unfold roundNum roundSpecNum
    simp only
    by_cases hf : F64.isFinite (Num.toF64 (.dec s)) = true
    · simp only [hf, if_true]
      generalize exactRound m (Num.toF64 (.dec s)) = i
      unfold roundConv roundUpperOk Num.ofInt fitsIsize isizeMin isizeMax
      simp only [if_true, Bool.and_eq_true, decide_eq_true_eq]
      by_cases hr : (-9223372036854775808 ≤ i ∧ i < 2 ^ 63)
      · have : ¬ i > 9223372036854775807 := by omega
        have h2 : (-9223372036854775808 ≤ i ∧ i ≤ 9223372036854775807) := by omega
        simp [hr, this, h2]
      · have h2 : ¬ (-9223372036854775808 ≤ i ∧ i ≤ 9223372036854775807) := by omega
        simp [h2]
        intro h; omega
    · simp [hf]

/-! ## `bsearch` -/

/-- **`bsearch($x)` on a sorted array**: any answer `r` allowed by the contract of
`binary_search` (`BsearchPost`, checked on the real answers by the correspondence) is
non-negative exactly when the array contains a value equal to `$x` — then `.[r] == $x` — and
otherwise inserting `$x` at `-r-1` keeps the array sorted. -/
theorem bsearch_post {α : Type} {c : α → α → Ordering} (h : TotalPreorder c) (xs : List α) (x : α) (r : Int)
    (hs : xs.Pairwise (Le c)) (hp : BsearchPost c xs x r) :
    ((∃ y ∈ xs, c y x = .eq) ↔ 0 ≤ r) ∧
    (0 ≤ r → ∃ y, xs[r.toNat]? = some y ∧ c y x = .eq) ∧
    (r < 0 → (xs.take (-1 - r).toNat ++ x :: xs.drop (-1 - r).toNat).Pairwise (Le c)) := by
  refine ⟨?_, hp.1, ?_⟩
  · constructor
    · rintro ⟨y, hy, hyx⟩
      apply Classical.byContradiction
      intro hr
      obtain ⟨_, hlt, hgt⟩ := hp.2 (by omega)
      rw [← List.take_append_drop (-1 - r).toNat xs] at hy
      rcases List.mem_append.1 hy with hy | hy
      · have := hlt y hy; rw [hyx] at this; cases this
      · have := hgt y hy; rw [hyx] at this; cases this
    · intro hr
      obtain ⟨y, hy, hyx⟩ := hp.1 hr
      exact ⟨y, List.mem_of_getElem? hy, hyx⟩
  · intro hr
    obtain ⟨_, hlt, hgt⟩ := hp.2 hr
    have hsplit := hs
    rw [← List.take_append_drop (-1 - r).toNat xs] at hsplit
    obtain ⟨ht, hd, hcross⟩ := List.pairwise_append.1 hsplit
    refine List.pairwise_append.2 ⟨ht, List.pairwise_cons.2 ⟨?_, hd⟩, ?_⟩
    · intro y hy
      show c x y ≠ .gt
      have := (h.gt_iff_lt y x).1 (hgt y hy)
      rw [this]; simp
    · intro a ha b hb
      rcases List.mem_cons.1 hb with rfl | hb
      · show c a b ≠ .gt
        rw [hlt a ha]; simp
      · exact hcross a ha b hb

/-- the contract is satisfiable on every sorted array (by the leftmost search `bsearchRef`),
and `bsearchOk` — which the check runs on the real answers — decides it -/
theorem bsearch_post_exists {α : Type} {c : α → α → Ordering} (h : TotalPreorder c) (xs : List α) (x : α)
    (hs : xs.Pairwise (Le c)) :
    BsearchPost c xs x (bsearchRef c xs x) ∧ ∀ r, bsearchOk c xs x r = true ↔ BsearchPost c xs x r := by
  refine ⟨?_, bsearchOk_iff xs x⟩
  obtain ⟨T, D, hxs, hT, hD, hi⟩ := split_at_first_not (fun y => c y x == .lt) xs
  have hcast : ∀ n : Nat, Int.ofNat n = (n : Int) := fun _ => rfl
  unfold bsearchRef
  simp only [hi, hcast]
  subst hxs
  have hidx : (T ++ D)[T.length]? = D.head? := by
    rw [List.getElem?_append_right (Nat.le_refl _), Nat.sub_self, List.head?_eq_getElem?]
  rw [hidx]
  have hTlt : ∀ y ∈ T, c y x = .lt := fun y hy => by simpa using hT y hy
  have htake : (T ++ D).take T.length = T := List.take_left
  have hdrop : (T ++ D).drop T.length = D := List.drop_left
  have hneg : ∀ D', (∀ y ∈ D', c y x = .gt) → D = D' → BsearchPost c (T ++ D) x (-1 - (T.length : Int)) := by
    intro D' hgt hDD
    subst hDD
    have e : (-1 - (-1 - (T.length : Int))).toNat = T.length := by omega
    refine ⟨fun h0 => by omega, fun _ => ?_⟩
    rw [e, htake, hdrop]
    exact ⟨by simp, hTlt, hgt⟩
  cases hDc : D with
  | nil =>
    simp only [List.head?_nil]
    exact hDc ▸ hneg [] (by simp) hDc
  | cons y D' =>
    simp only [List.head?_cons]
    have hy : c y x ≠ .lt := by
      have := hD y (by rw [hDc]; rfl)
      simpa using this
    by_cases hyx : c y x = .eq
    · simp only [hyx, beq_self_eq_true, if_true]
      refine ⟨fun _ => ⟨y, ?_, hyx⟩, fun h0 => by omega⟩
      rw [Int.toNat_natCast, ← hDc, hidx, hDc]; rfl
    · have hgt : c y x = .gt := by cases hc : c y x <;> simp_all
      have hne : (c y x == .eq) = false := by simp [hgt]
      simp only [hne, Bool.false_eq_true, if_false]
      refine hDc ▸ hneg (y :: D') ?_ hDc
      intro z hz
      rcases List.mem_cons.1 hz with rfl | hz
      · exact hgt
      · have hsD : (y :: D').Pairwise (Le c) := by
          have := (List.pairwise_append.1 hs).2.1
          rwa [hDc] at this
        have hyz : c y z ≠ .gt := (List.pairwise_cons.1 hsD).1 z hz
        have hxy : c x y = .lt := (h.gt_iff_lt y x).1 hgt
        exact (h.lt_iff_gt x z).1 (h.lt_of_lt_of_le hxy hyz)

/-! ## prefixes and suffixes -/

/-- **`startswith` / `endswith`** test for a byte prefix / suffix; **`ltrimstr` / `rtrimstr`**
remove one occurrence of it and return other inputs unchanged (strings of either kind; the
result keeps the kind of the input). -/
theorem prefix_suffix_spec (a s : List UInt8) :
    (∃ b, startswith (.tstr a) (.tstr s) = .ok (.bool b) ∧ (b = true ↔ ∃ r, a = s ++ r)) ∧
    (∃ b, endswith (.tstr a) (.tstr s) = .ok (.bool b) ∧ (b = true ↔ ∃ r, a = r ++ s)) ∧
    (∀ r, a = s ++ r → ltrimstr (.tstr a) (.tstr s) = .ok (.tstr r)) ∧
    ((¬ ∃ r, a = s ++ r) → ltrimstr (.tstr a) (.tstr s) = .ok (.tstr a)) ∧
    (∀ r, a = r ++ s → rtrimstr (.tstr a) (.tstr s) = .ok (.tstr r)) ∧
    ((¬ ∃ r, a = r ++ s) → rtrimstr (.tstr a) (.tstr s) = .ok (.tstr a)) := by
  refine ⟨⟨s.isPrefixOf a, rfl, isPrefixOf_iff_append s a⟩, ⟨isSuffixB s a, rfl, isSuffixB_iff_append s a⟩, ?_, ?_, ?_, ?_⟩
  · rintro r rfl
    unfold ltrimstr asBytes
    simp only
    rw [if_pos ((isPrefixOf_iff_append _ _).2 ⟨r, rfl⟩), List.drop_left]
    rfl
  · intro hno
    unfold ltrimstr asBytes
    simp only
    rw [if_neg (fun hp => hno ((isPrefixOf_iff_append _ _).1 hp))]
  · rintro r rfl
    unfold rtrimstr asBytes
    simp only
    rw [if_pos ((isSuffixB_iff_append _ _).2 ⟨r, rfl⟩)]
    have : (r ++ s).length - s.length = r.length := by simp
    rw [this, List.take_left]
    rfl
  · intro hno
    unfold rtrimstr asBytes
    simp only
    rw [if_neg (fun hp => hno ((isSuffixB_iff_append _ _).1 hp))]

/-- non-strings on either side are an error ("cannot use … as string"), the input first -/
theorem prefix_suffix_errors (v s : Val) (hv : asBytes v = none) :
    startswith v s = .error (errStr v) ∧ endswith v s = .error (errStr v) ∧
    ltrimstr v s = .error (errStr v) ∧ rtrimstr v s = .error (errStr v) := by
  unfold startswith endswith ltrimstr rtrimstr
  simp [hv]

/-! ## `tonumber`, `toboolean` -/

/- FULL STATEMENT (false on the current tree, finding F-12b; true for `toTypeSpec`):
     theorem tonumber_spec p e v fj : toTypeCur p e v fj = toTypeSpec p e v fj                   -/

/-- **`tonumber` returns numbers unchanged, and on a string parses it to a number, failing if
this does not succeed** — on the current tree only when the JSON reader yields exactly one
item (a value or an error); `toTypeSpec` is the manual's reading for every stream. -/
theorem tonumber_spec_partial (p : Val → Bool) (e : Err) (v : Val) (fj : List ValR) :
    (p v = true → toTypeCur p e v fj = [.ok v] ∧ toTypeSpec p e v fj = [.ok v]) ∧
    (p v = false → ∀ r, fj = [r] → toTypeCur p e v fj = toTypeSpec p e v fj) ∧
    (∃ r, toTypeSpec p e v fj = [r]) := by
  refine ⟨?_, ?_, ?_⟩
  · intro hp
    simp [toTypeCur, toTypeSpec, hp]
  · rintro hp r rfl
    cases r with
    | error er => simp [toTypeCur, toTypeSpec, hp, toTypeCur.go, firstError]
    | ok y =>
      by_cases hy : p y = true
      · simp [toTypeCur, toTypeSpec, hp, toTypeCur.go, firstError, hy]
      · simp [toTypeCur, toTypeSpec, hp, toTypeCur.go, firstError, hy]
  · unfold toTypeSpec
    split
    · exact ⟨_, rfl⟩
    · split
      · exact ⟨_, rfl⟩
      · split
        · split <;> exact ⟨_, rfl⟩
        · exact ⟨_, rfl⟩

/-- the witnesses of F-12b on the model of the tree as found (`toTypeCur`; repaired in /repo by
commit 18d00c4, after which `tonumber` follows `toTypeSpec`): an empty parse yields no output,
two parsed numbers yield two outputs -/
theorem tonumber_spec_witnesses :
    toTypeCur isnumber (.str "cannot parse as number") (.tstr []) [] = [] ∧
    toTypeCur isnumber (.str "cannot parse as number") (.tstr [49, 32, 50]) [.ok (vInt 1), .ok (vInt 2)]
      = [.ok (vInt 1), .ok (vInt 2)] ∧
    (toTypeSpec isnumber (.str "cannot parse as number") (.tstr []) []).length = 1 ∧
    (toTypeSpec isnumber (.str "cannot parse as number") (.tstr [49, 32, 50]) [.ok (vInt 1), .ok (vInt 2)]).length = 1 :=
  ⟨rfl, rfl, rfl, rfl⟩

/-! ## `abs` -/

/-- **`abs`** negates what is smaller than `0` (also `null` and booleans, where negation fails)
and returns everything else unchanged; on machine integers it is the absolute value, as a
big integer for `isize::MIN`. -/
theorem abs_spec (v : Val) :
    abs v = (if Val.cmp v (vInt 0) = .lt then Val.neg v else .ok v) ∧
    (∀ i : Int, fitsIsize i = true → abs (vInt i) = .ok (.num (Num.ofInt (i.natAbs : Int)))) := by
  constructor
  · unfold abs vLt
    by_cases h : Val.cmp v (vInt 0) = .lt <;> simp [h]
  · intro i hfit
    unfold abs vLt vInt
    have hc : Val.cmp (.num (.int i)) (.num (.int 0)) = compare i 0 := by
      unfold Val.cmp
      simp [Val.size, Val.cmpF, Num.cmp, Num.undec]
    rw [hc]
    by_cases hi : i < 0
    · have : compare i 0 = .lt := by simp [compare, compareOfLessAndEq, hi]
      simp only [this, beq_self_eq_true, if_true, Val.neg, Num.neg]
      have e : (i.natAbs : Int) = -i := by omega
      rw [e]
    · have hne : i ≠ 0 ∨ i = 0 := by omega
      have hb : (compare i 0 == Ordering.lt) = false := by
        simp only [compare, compareOfLessAndEq, hi, if_false]
        split <;> rfl
      simp only [hb, Bool.false_eq_true, if_false]
      have e : (i.natAbs : Int) = i := by omega
      rw [e]
      unfold Num.ofInt
      rw [hfit]
      rfl

/-! ## `contains`, `transpose` -/

/-- **`contains`**: the four conditions of the manual (the last also covers values of
different types and a byte string against a text string, compared with `==`) -/
theorem contains_spec :
    (∀ l r : List Val, contains (.arr l) (.arr r) = r.all fun rv => l.any fun lv => contains lv rv) ∧
    (∀ l r : Obj.Entries, contains (.obj l) (.obj r) = r.all fun (k, rv) =>
        match Obj.get l k with
        | some lv => contains lv rv
        | none => false) ∧
    (∀ l r : List UInt8, (contains (.tstr l) (.tstr r) = true ↔ ∃ pre post, l = pre ++ r ++ post) ∧
        (contains (.bstr l) (.bstr r) = true ↔ ∃ pre post, l = pre ++ r ++ post)) ∧
    (∀ a b : Val, ctorName a ≠ ctorName b ∨ ctorName a = "null" ∨ ctorName a = "boolean" ∨ ctorName a = "number" →
        contains a b = Val.eq a b) := by
  refine ⟨?_, ?_, ?_, ?_⟩
  · intro l r
    unfold contains
    have hsz : (Val.arr l).size + (Val.arr r).size = (Val.sizeList l + Val.sizeList r + 1) + 1 := by
      simp [Val.size]; omega
    rw [hsz, containsF_succ_arr]
    apply all_congr_mem
    intro rv hrv
    apply any_congr_mem
    intro lv hlv
    have h1 := Val.size_lt_of_mem hrv
    have h2 := Val.size_lt_of_mem hlv
    exact containsF_mono _ _ lv rv (by omega) (Nat.le_refl _)
  · intro l r
    unfold contains
    have hsz : (Val.obj l).size + (Val.obj r).size = (Val.sizeEntries l + Val.sizeEntries r + 1) + 1 := by
      simp [Val.size]; omega
    rw [hsz, containsF_succ_obj]
    apply all_congr_mem
    intro p hp
    obtain ⟨k, rv⟩ := p
    simp only
    cases hg : Obj.get l k with
    | none => rfl
    | some lv =>
      simp only
      obtain ⟨k', hk'⟩ := get_mem hg
      have h1 := Val.size_entry_of_mem hp
      have h2 := Val.size_entry_of_mem hk'
      exact containsF_mono _ _ lv rv (by omega) (Nat.le_refl _)
  · intro l r
    constructor
    · show isInfixB r l = true ↔ _
      exact isInfixB_iff r l
    · show isInfixB r l = true ↔ _
      exact isInfixB_iff r l
  · intro a b h
    unfold contains
    obtain ⟨n, hn⟩ : ∃ n, a.size + b.size = n + 1 := ⟨a.size + b.size - 1, by have := Val.size_pos a; omega⟩
    rw [hn]
    cases a <;> cases b <;> first | rfl | (simp [ctorName] at h)


/-- **`transpose`** of an array of arrays: as many rows as the longest input row is long, each
as long as the input, with `t[x][y] = .[y][x]` (`null` where the input row is too short). -/
theorem transpose_shape (rows : List (List Val)) :
    transpose (.arr (rows.map .arr)) =
      some (.arr ((List.range ((rows.map List.length).foldl max 0)).map fun x =>
        .arr (rows.map fun r => r[x]?.getD .null))) := by
  simp only [transpose, rowLens_ok]
  have hrows : ∀ i, (rows.map Val.arr).map (rowGet i) = rows.map fun r => r[i]?.getD .null := by
    intro i; rw [List.map_map]; rfl
  cases rows with
  | nil => rfl
  | cons r rs =>
    have hdec : decorate (ε := Unit) (fun v : Val => Except.ok [v]) ((r :: rs).map fun r => vInt (r.length : Int)) =
        .ok (decN r.length :: (rs.map List.length).map decN) := by
      rw [decorate_ok (key := fun v => [v]) (fun _ _ => rfl)]
      simp [decN, List.map_map, Function.comp_def]
    have hmax : maxByKey (ε := Unit) Val.null Val.cmp (fun v => Except.ok [v]) ((r :: rs).map fun r => vInt (r.length : Int)) =
        .ok (vInt (((r :: rs).map List.length).foldl max 0 : Nat)) := by
      unfold maxByKey cmpBy
      rw [hdec]
      simp only [foldl_max_vInt]
      simp [decN, List.foldl_cons]
    rw [hmax]
    simp only [vInt, Int.toNat_natCast, hrows]


/-! ## the hypotheses are satisfiable -/

/-- the order laws hold for a concrete comparison: `compare` / `==` on `Int` … -/
example : OrderLaws (fun a b : Int => compare a b) (fun a b => a == b) := intLaws

/-- … so e.g. `group_by(., .)` of `[3, 1, 3, 2, 1]` (elements as their own two-output key) is
`[[1, 1], [2], [3, 3]]`, an instance of `groupBy_partition_maximal_runs` with a key function
that succeeds everywhere -/
example : groupByKey (ε := Unit) (fun a b : Int => compare a b) (fun a b => a == b) (fun x => .ok [x, x]) [3, 1, 3, 2, 1] =
    .ok [[1, 1], [2], [3, 3]] := by rfl

example : ∃ gs, groupByKey (ε := Unit) (fun a b : Int => compare a b) (fun a b => a == b) (fun x => .ok [x, x]) [3, 1, 3, 2, 1] = .ok gs ∧
    gs.flatten = sortedBy (fun a b : Int => compare a b) (fun x => [x, x]) [3, 1, 3, 2, 1] ∧ (∀ g ∈ gs, g ≠ []) := by
  obtain ⟨gs, h1, h2, h3, _⟩ := groupBy_partition_maximal_runs (kf := fun x => (.ok [x, x] : Except Unit (List Int)))
    (key := fun x => [x, x]) intLaws [3, 1, 3, 2, 1] (fun _ _ => rfl)
  exact ⟨gs, h1, h2, h3⟩

/-- a sorted array and an answer satisfying the `binary_search` contract: `[0, 4, 8] | bsearch(6)` → `-3` -/
example : BsearchPost (fun a b : Int => compare a b) [0, 4, 8] 6 (-3) ∧ bsearchRef (fun a b : Int => compare a b) [0, 4, 8] 6 = -3 := by
  refine ⟨(bsearchOk_iff _ _ _).1 (by decide), by decide⟩

end Jaq.Coll
