/-
  C20 — date and time filters agree with the Gregorian calendar and invert each other.

  Specification side: `JaqVerif/C20/Civil.lean` (independent proleptic Gregorian calendar) and
  `JaqVerif/C20/Spec.lean` (`specArray`, `specEpoch`, `WellFormedBDT`).
  Implementation side: `JaqVerif/C20/Epoch.lean`, the model of `jaq-std/src/time.rs`
  (`gmtime`, `mktime`, `toIso8601`, `fromIso8601`), parametrised by
    `fx : Fixes`  — which of the proposed repairs are applied (`Fixes.none` = the tree as found),
    `b : Build`   — overflow checks on (panic) or off (wrap).
  Statements quantified over `fx` and `b` hold before and after the repairs, in both build modes.
  Where the full statement is FALSE on the current tree it is kept as a comment, the version with
  the exact guard is `…_partial`, a `…_witness` theorem exhibits the failing input on the model
  of the unrepaired code, and `…_fixed` is the full statement for the repaired code.
-/
import JaqVerif.Lemmas.C20Round
import JaqVerif.Lemmas.C20Strtime

namespace Jaq.Time

/-! ## the calendar -/

/-- civil → days → civil is the identity on every date that exists, and days → civil → days is the
identity on every integer, and yields a date that exists; no bound on the year. -/
theorem civil_days_inverse :
    (∀ y m d : Int, validDate y m d → civilFromDays (daysFromCivil y m d) = (y, m, d)) ∧
    (∀ n : Int, validDate (civilFromDays n).1 (civilFromDays n).2.1 (civilFromDays n).2.2 ∧
      daysFromCivil (civilFromDays n).1 (civilFromDays n).2.1 (civilFromDays n).2.2 = n) :=
  ⟨civilFromDays_daysFromCivil, daysFromCivil_civilFromDays⟩

/-- consecutive years are 365 or 366 days apart, 366 exactly in Gregorian leap years -/
theorem year_length (y : Int) :
    daysFromCivil (y + 1) 1 1 - daysFromCivil y 1 1 = if y % 4 = 0 ∧ (y % 100 ≠ 0 ∨ y % 400 = 0) then 366 else 365 := by
  simp only [daysFromCivil, daysBeforeMonth, daysBeforeYear_step, leapDays]
  by_cases h : isLeap y = true
  · rw [if_pos h, if_pos ((leap_cases y).mp h)]; simp; omega
  · rw [if_neg h, if_neg (fun c => h ((leap_cases y).mpr c))]; simp; omega

/-- weekday and day of the year: 1970-01-01 is a Thursday (4, Sunday = 0), the weekday advances by
one per day modulo 7; the day of the year of a date is the number of days since January 1 of its
year, lies in `0 .. 364/365`, and is `days before the month + day - 1`. -/
theorem weekday_yearday_spec :
    weekday 0 = 4 ∧
    (∀ n : Int, 0 ≤ weekday n ∧ weekday n < 7 ∧ weekday (n + 1) = (weekday n + 1) % 7) ∧
    (∀ n : Int, yearday n = n - daysFromCivil (civilFromDays n).1 1 1 ∧
      0 ≤ yearday n ∧ yearday n < daysInYear (civilFromDays n).1) ∧
    (∀ y m d : Int, validDate y m d →
      yearday (daysFromCivil y m d) = daysBeforeMonth (isLeap y) m + d - 1) := by
  refine ⟨by decide, fun n => ⟨(weekday_range n).1, (weekday_range n).2, weekday_succ n⟩,
    fun n => ⟨yearday_eq n, (yearday_range n).1, (yearday_range n).2⟩, ?_⟩
  intro y m d hv
  rw [yearday_eq, civilFromDays_daysFromCivil y m d hv]
  simp [daysFromCivil, daysBeforeMonth]
  omega

/-! ## gmtime -/

/-- **gmtime on integer epochs.**  For every integer epoch `i` (in any representation `v` with
`as_isize = i`) whose UTC year lies in -9998..9998, in every build mode and with or without the
repairs, `gmtime` is the broken-down time of the independent calendar. -/
theorem gmtime_spec (fx : Fixes) (b : Build) (v : Val) (i : Int) (hv : valAsIsize v = some i)
    (hy : -9998 ≤ utcYear i ∧ utcYear i ≤ 9998) :
    gmtime fx b v = .val (specArray (i * 1000000000)) := by
  have ⟨h1, h2⟩ := sec_range_of_year i hy.1 hy.2
  exact gmtime_isize fx b v i hv (by omega) (by omega)

/-- **gmtime on fractional epochs.**  A finite float `f` denotes the instant `floatMicros fx f`
micro-seconds (`(f * 1e6) as i64`, after the repair `.round()`ed); whenever the UTC year of that
instant lies in -9998..9998, `gmtime` is the broken-down time of the independent calendar, with
seconds `s + ns/10⁹`. -/
theorem gmtime_spec_fractional (fx : Fixes) (b : Build) (f : UInt64) (hfin : F64.isFinite f = true)
    (hy : -9998 ≤ utcYear (floatMicros fx f / 1000000) ∧ utcYear (floatMicros fx f / 1000000) ≤ 9998) :
    gmtime fx b (.num (.float f)) = .val (specArray (floatMicros fx f * 1000)) := by
  have ⟨h1, h2⟩ := sec_range_of_year _ hy.1 hy.2
  unfold unixSecMin unixSecMax at *
  apply gmtime_float fx b f hfin <;> simp only [unixSecMin, unixSecMax] <;> omega

example : -9998 ≤ utcYear 1709164800 ∧ utcYear 1709164800 ≤ 9998 := by decide
example : floatMicros Fixes.none (F64.ofDec "1709164800.25") = 1709164800250000 := by decide +kernel
example : floatMicros Fixes.none (F64.ofDec "-1.5") = -1500000 := by decide +kernel
example : observe (gmtime Fixes.none ⟨true⟩ (.num (.float (F64.ofDec "-1.5")))) =
    .nums [.int 1969, .int 11, .int 31, .int 23, .int 59, .float (F64.ofDec "58.5"), .int 3, .int 364] := by
  decide +kernel

/-! ## mktime -/

/-- **mktime computes the instant of a civil time.**  On integer fields that form a Gregorian UTC
date and time of day with year in -9999..9999 (further entries are ignored) whose instant is inside
jiff's `Timestamp` range, `mktime` is `days·86400 + h·3600 + m·60 + s` of the independent calendar. -/
theorem mktime_spec (fx : Fixes) (b : Build) (year month day hour min : Val) (rest : List Val)
    (y mo d h mi s : Int)
    (vy : valAsIsize year = some y) (vmo : valAsIsize month = some mo) (vd : valAsIsize day = some d)
    (vh : valAsIsize hour = some h) (vmi : valAsIsize min = some mi)
    (hy : -9999 ≤ y ∧ y ≤ 9999) (hv : validDate y (mo + 1) d)
    (hh : 0 ≤ h ∧ h ≤ 23) (hm : 0 ≤ mi ∧ mi ≤ 59) (hs : 0 ≤ s ∧ s ≤ 59)
    (hr : unixSecMin ≤ specEpoch y mo d h mi s ∧ specEpoch y mo d h mi s ≤ unixSecMax) :
    mktime fx b (.arr (year :: month :: day :: hour :: min :: vint s :: rest)) =
      .val (vint (specEpoch y mo d h mi s)) :=
  mktime_int_fields fx b year month day hour min rest y mo d h mi s vy vmo vd vh vmi hy.1 hy.2 hv
    hh.1 hh.2 hm.1 hm.2 hs.1 hs.2 hr.1 hr.2

example : validDate 2024 (1 + 1) 29 ∧ specEpoch 2024 1 29 12 30 45 = 1709209845 := by decide

/-- **gmtime | mktime** returns every integer epoch that `gmtime` accepts (the whole `Timestamp`
range, which contains the years -9998..9998), in every build mode, before and after the repairs. -/
theorem mktime_gmtime (fx : Fixes) (b : Build) (v : Val) (i : Int) (hv : valAsIsize v = some i)
    (hr : unixSecMin ≤ i ∧ i ≤ unixSecMax) :
    ∃ a, gmtime fx b v = .val a ∧ mktime fx b a = .val (vint i) :=
  mktime_gmtime_isize fx b v i hv hr.1 hr.2

/-- **gmtime | mktime on fractional epochs returns the original instant to the micro-second**
(round 2; FALSE on the tree as found: F-20c, F-20f — see the witnesses below).  For the code as it
is now (`treeFixes` = all repairs), in both build modes, for EVERY finite double `f` whose instant
`us = floatMicros f = ((f * 1e6).round() as i64)` micro-seconds lies in the `Timestamp` range that
`gmtime` accepts: `gmtime` succeeds and `mktime` of its answer is the number jaq uses for the
instant `us` µs (`epochOfMicros us`: the integer `us/10⁶` for whole seconds, otherwise the double
nearest to `us/10⁶`, i.e. `ts.as_microsecond() as f64 / 1e6`).  No micro-second is lost between the
float seconds field `s + ns/1e9` and `floor` / `(fract * 1e9).round()`: proved from the correct
rounding of `Jaq.F64` (`Lemmas/C20Float.lean`: `roundRat_near`, `seconds_roundtrip`). -/
theorem mktime_gmtime_fractional (b : Build) (f : UInt64) (hfin : F64.isFinite f = true)
    (hr : unixSecMin * 1000000 ≤ floatMicros treeFixes f ∧ floatMicros treeFixes f ≤ unixSecMax * 1000000) :
    ∃ a, gmtime treeFixes b (.num (.float f)) = .val a ∧
      mktime treeFixes b a = .val (epochOfMicros (floatMicros treeFixes f)) :=
  mktime_gmtime_float b f hfin hr.1 hr.2

/-- the core of it, independent of how the instant was obtained: `mktime` inverts the specified
broken-down time of every instant of micro-second resolution in the range (negative ones too) -/
theorem mktime_specArray_fractional (b : Build) (us : Int)
    (hr : unixSecMin * 1000000 ≤ us ∧ us ≤ unixSecMax * 1000000) :
    mktime treeFixes b (specArray (us * 1000)) = .val (epochOfMicros us) :=
  mktime_specArray_micros b us hr.1 hr.2

example : floatMicros treeFixes (F64.ofDec "6.162323") = 6162323 := by decide +kernel
example : floatMicros treeFixes (F64.ofDec "-1.5") = -1500000 := by decide +kernel
example : observe (.val (epochOfMicros 6162323)) = .nums [.float (F64.ofDec "6.162323")] := by decide +kernel
example : observe (.val (epochOfMicros (-1500000))) = .nums [.float (F64.ofDec "-1.5")] := by decide +kernel
example : observe (.val (epochOfMicros 5000000)) = .nums [.int 5] := by decide +kernel

/-- **micro-second literals come back bit for bit** — PARTIAL (round 2): for `0 < k < 2^51`
micro-seconds (1970 .. 2041) with a sub-second part, `f` = the double nearest to `k/10⁶` (what a
literal with six fraction digits denotes): `(f * 1e6).round() = k`, and `gmtime | mktime` answers
exactly `f` again.  Missing for the full statement: negative `k` (needs the sign-general versions of
`div_pos_eq` / `mul_pos_eq`), and that `F64.ofDec` of the decimal text equals this quotient.  Beyond
2^51 µs the claim is false in general (doubles no longer resolve a quarter micro-second). -/
theorem mktime_gmtime_microsecond_literal_partial (b : Build) (k : Int) (h0 : 0 < k) (h1 : k < 2 ^ 51)
    (hk : k % 1000000 ≠ 0) :
    floatMicros treeFixes (F64.div (F64.ofInt k) f1e6) = k ∧
    ∃ a, gmtime treeFixes b (.num (.float (F64.div (F64.ofInt k) f1e6))) = .val a ∧
      mktime treeFixes b a = .val (.num (.float (F64.div (F64.ofInt k) f1e6))) :=
  ⟨(floatMicros_nearest k h0 h1).2, mktime_gmtime_nearest b k h0 h1 hk⟩

example : F64.div (F64.ofInt 6162323) f1e6 = F64.ofDec "6.162323" := by decide +kernel

/-- F-20c witness: `-1.5 | gmtime | mktime` is `-1` on the unrepaired code
(`ts.subsec_nanosecond() > 0` is false for negative instants) -/
theorem mktime_gmtime_negative_fraction_witness (b : Build) :
    observe (mktime Fixes.none b (.arr [vint 1969, vint 11, vint 31, vint 23, vint 59,
      .num (.float (F64.ofDec "58.5")), vint 3, vint 364])) = .nums [.int (-1)] := by
  cases b with | mk oc => cases oc <;> decide +kernel

/-- the same input after the repair `!= 0` -/
theorem mktime_gmtime_negative_fraction_fixed (b : Build) :
    observe (mktime Fixes.all b (.arr [vint 1969, vint 11, vint 31, vint 23, vint 59,
      .num (.float (F64.ofDec "58.5")), vint 3, vint 364])) = .nums [.float (F64.ofDec "-1.5")] := by
  cases b with | mk oc => cases oc <;> decide +kernel

/-- F-20f witness: `6.162323 | gmtime | mktime` is `6.162322` on the unrepaired code (the float
seconds field `6.162323` has fraction `0.16232299999999968`, and `(fract * 1e9) as i32`
truncates to 162322999 ns); the repaired code returns `6.162323`. -/
theorem mktime_gmtime_microsecond_witness (b : Build) :
    observe (gmtime Fixes.none b (.num (.float (F64.ofDec "6.162323")))) =
      .nums [.int 1970, .int 0, .int 1, .int 0, .int 0, .float (F64.ofDec "6.162323"), .int 4, .int 0] ∧
    observe (mktime Fixes.none b (.arr [vint 1970, vint 0, vint 1, vint 0, vint 0,
      .num (.float (F64.ofDec "6.162323"))])) = .nums [.float (F64.ofDec "6.162322")] ∧
    observe (mktime Fixes.all b (.arr [vint 1970, vint 0, vint 1, vint 0, vint 0,
      .num (.float (F64.ofDec "6.162323"))])) = .nums [.float (F64.ofDec "6.162323")] := by
  cases b with | mk oc => cases oc <;> decide +kernel

/-! ## todate | fromdate -/

/-- **todate | fromdate** (`to_iso8601`, `from_iso8601`) returns every integer epoch of the
`Timestamp` range — PARTIAL: under the hypothesis that the RFC 3339 parser reads back the text the
printer wrote for this instant (`parseIso (print t) = ok t`; jiff's printer/parser pair is a
parameter, the hypothesis is checked on every instant of the correspondence run and holds for the
model's own strict parser on the examples below).  What is proved: range check, no sub-second
part is printed, the `frac` decision (`s.contains('.')` before, `subsec_nanosecond() != 0` after
the repair) takes the integer path, and `as_second` is the original integer. -/
theorem fromdate_todate_partial (fx : Fixes) (v : Val) (i : Int) (hv : valAsIsize v = some i)
    (hr : unixSecMin ≤ i ∧ i ≤ unixSecMax)
    (hp : parseIso (Timestamp.print ⟨i * 1000000000⟩) = .ok ⟨i * 1000000000⟩) :
    ∃ cs, toIso8601 fx v = .ok cs ∧ fromIso8601 fx cs = some (.ok (vint i)) :=
  fromIso_toIso_isize fx v i hv hr.1 hr.2 hp

/-- **the RFC 3339 printer and parser are inverse** (round 2): for every instant of the
`Timestamp` range, with or without a sub-second part (1..9 fraction digits, trailing zeros trimmed,
negative years as `-00YYYY`), the strict parser reads back exactly the instant the printer wrote.
This discharges the hypothesis of `fromdate_todate_partial`. -/
theorem parse_print_inverse (t : Timestamp) (h : Timestamp.inRange t.ns = true) :
    parseIso t.print = .ok t :=
  parseIso_print t h

/-- … and RFC 3339 text with a numeric offset `±HH:MM` (what `fromdate` must accept besides `Z`):
the civil fields of the instant shifted by `off` seconds, printed with that offset, parse to the
original instant. -/
theorem parse_print_offset_inverse (t : Timestamp) (off : Int) (h : Timestamp.inRange t.ns = true)
    (h60 : off % 60 = 0) (hb : -93540 ≤ off ∧ off ≤ 93540)
    (hy : -9999 ≤ (Timestamp.toDateTimeUTC ⟨t.ns + off * 1000000000⟩).year ∧
      (Timestamp.toDateTimeUTC ⟨t.ns + off * 1000000000⟩).year ≤ 9999) :
    parseIso (printDateTimeOff (Timestamp.toDateTimeUTC ⟨t.ns + off * 1000000000⟩) off) = .ok t :=
  parseIso_printOff t off h h60 hb hy

/-- **todate | fromdate** returns every integer epoch of the `Timestamp` range — the FULL statement
(round 2; replaces `fromdate_todate_partial`, whose hypothesis is now a theorem), for every set of
repairs. -/
theorem fromdate_todate (fx : Fixes) (v : Val) (i : Int) (hv : valAsIsize v = some i)
    (hr : unixSecMin ≤ i ∧ i ≤ unixSecMax) :
    ∃ cs, toIso8601 fx v = .ok cs ∧ fromIso8601 fx cs = some (.ok (vint i)) :=
  fromIso_toIso_isize_full fx v i hv hr.1 hr.2

/-- **todate | fromdate on fractional epochs returns the original instant to the micro-second**
(round 2; code as it is now): for every finite double whose instant `us = (f * 1e6).round()` µs is
in range, the text printed by `todate` is read back by `fromdate` as `epochOfMicros us`. -/
theorem fromdate_todate_fractional (f : UInt64) (hfin : F64.isFinite f = true)
    (hr : unixSecMin * 1000000 ≤ floatMicros treeFixes f ∧ floatMicros treeFixes f ≤ unixSecMax * 1000000) :
    ∃ cs, toIso8601 treeFixes (.num (.float f)) = .ok cs ∧
      fromIso8601 treeFixes cs = some (.ok (epochOfMicros (floatMicros treeFixes f))) :=
  fromIso_toIso_float f hfin hr.1 hr.2

example : Timestamp.print ⟨-1500000000⟩ = "1969-12-31T23:59:58.5Z".toList := by decide +kernel
example : Timestamp.print ⟨(-377705023201) * 1000000000⟩ = "-009999-01-02T01:59:59Z".toList := by decide +kernel
example : printDateTimeOff (Timestamp.toDateTimeUTC ⟨1709164800 * 1000000000 + 19800 * 1000000000⟩) 19800 =
    "2024-02-29T05:30:00+05:30".toList := by decide +kernel

/-- F-20e witness: an ISO 8601 text with a decimal comma … jiff accepts it, `s.contains('.')` is
false and the fraction is dropped.  (The comma form is outside the model's strict parser; the
witness is on the `frac` decision: an instant with a sub-second part and a text without `'.'`
takes the integer path before the repair and the fractional path after it.) -/
theorem fromdate_fraction_flag_witness :
    observe (.val (timestampToEpoch ⟨1704067200500000000⟩ ("2024-01-01T00:00:00,5Z".toList.contains '.'))) =
      .nums [.int 1704067200] ∧
    observe (.val (timestampToEpoch ⟨1704067200500000000⟩ ((Timestamp.subsecNanosecond ⟨1704067200500000000⟩) != 0))) =
      .nums [.float (F64.ofDec "1704067200.5")] := by
  decide +kernel

/-! ## strftime(F) | strptime(F) | mktime (round 2) -/

/-- **`strftime(F) | strptime(F) | mktime` returns the original instant** for EVERY complete format
`F` over the modelled directives (`%Y %m %d %e %H %M %S %j %a %b %h %z %Z %s %% %F %T` and literal
text; `CompleteFormat F` is decidable: no `%Z`, every variable-width numeric directive is followed
by a non-digit, and the directives determine the instant — `%s`, or year + (month, day | `%j`) +
`%H %M %S`) and EVERY integer epoch of the `Timestamp` range (negative years and years below 1000
included), in every build mode and for every set of repairs.  `strftimeJaq` / `strptimeJaq` are the
models of `time.rs: strftime / strptime` over the model of jiff's `strtime` formatter and parser
(`C20/Strtime.lean`; jiff stays a parameter, tied to the real code on every run by the `fmtcorr`
correspondence and by the regenerated table below). -/
theorem strftime_strptime_mktime (fx : Fixes) (b : Build) (F : List Item) (hF : CompleteFormat F) (i : Int)
    (hr : unixSecMin ≤ i ∧ i ≤ unixSecMax) :
    ∃ text a, strftimeJaq fx b F (vint i) = .val text ∧ strptimeJaq F text = .ok a ∧
      mktime fx b a = .val (vint i) :=
  strptime_strftime_mktime fx b F hF i hr

/-- the six complete formats over modelled directives that the check round-trips on the real code
(`%Y-%m-%dT%H:%M:%SZ`, `%F %T`, `%s`, `%d/%m/%Y %H.%M.%S`, `%Y-%j %T`, `%a, %d %b %Y %H:%M:%S %z`)
are inside the model and `CompleteFormat`, so the theorem above applies to them -/
theorem strftime_check_formats_complete :
    checkFormats.all (fun f => match parseFormat f with
      | some F => decide (CompleteFormat F)
      | none => false) = true :=
  check_formats_complete

/-- translator tie: for each of the 17 modelled directives and each of 46 fixed instants (range
limits, leap days, years < 1000, negative years, every weekday and month) the model renders exactly
what the real `strftime("%X")` rendered when `Gen/C20Strtime.lean` was regenerated (every run) -/
theorem strftime_directive_table : Gen.strtimeTable.all dirOk = true :=
  strtime_table_ok

/-! ## rejection: out of range -/

/- FALSE on the current tree (F-20a):
   theorem out_of_range_rejected (fx b v i) (valAsIsize v = some i) (i < unixSecMin ∨ unixSecMax < i) :
     (gmtime fx b v).isErr = true                                                                    -/

/-- **out-of-range integer epochs are rejected** — PARTIAL on the current tree: the guard is that
`i * 1000000` fits an `i64` (|i| ≤ 9223372036854) or that the multiplication is checked
(repair F-20a).  `todate` (which uses `from_second`) rejects every out-of-range integer. -/
theorem out_of_range_rejected_partial (fx : Fixes) (b : Build) (v : Val) (i : Int)
    (hv : valAsIsize v = some i) (hout : i < unixSecMin ∨ unixSecMax < i)
    (hg : fx.checkedMul = true ∨ fitsI64 (i * 1000000) = true) :
    (gmtime fx b v).isErr = true ∧ (∃ e, toIso8601 fx v = .error e) := by
  constructor
  · simp only [gmtime, epochToTimestamp, hv, mulMicros]
    by_cases hf : fitsI64 (i * 1000000) = true
    · have : Timestamp.fromMicrosecond (i * 1000000) = none := by
        unfold Timestamp.fromMicrosecond
        rw [if_neg (by unfold unixSecMin unixSecMax at *; omega)]
      simp [hf, Out.val, this, Out.err, Out.isErr]
    · rcases hg with hg | hg
      · simp [hf, hg, Out.err, Out.isErr]
      · exact absurd hg hf
  · refine ⟨errJiff, ?_⟩
    simp only [toIso8601, hv, Timestamp.fromSecond]
    rw [if_neg (by omega)]

/-- the full statement for the repaired code, in both build modes -/
theorem out_of_range_rejected_fixed (b : Build) (v : Val) (i : Int)
    (hv : valAsIsize v = some i) (hout : i < unixSecMin ∨ unixSecMax < i) :
    (gmtime Fixes.all b v).isErr = true ∧ (∃ e, toIso8601 Fixes.all v = .error e) :=
  out_of_range_rejected_partial Fixes.all b v i hv hout (Or.inl rfl)

/-- **out-of-range integer epochs are rejected** — the FULL statement for the code as it is now:
`treeFixes` is the configuration of `time.rs` that the check's correspondence runs against the
real filters (all six repairs, `Fixes.all`).  Every integer epoch outside jiff's `Timestamp` range
(in particular everything outside the years -9999..9999), in any integer representation, in both
build modes, is an error of `gmtime` and of `todate` — no panic, no wrapped or clamped instant.
(Replaces the comment "FALSE on the current tree"; `…_partial` above stays as the statement that
also covers the tree as found.) -/
theorem out_of_range_rejected (b : Build) (v : Val) (i : Int)
    (hv : valAsIsize v = some i) (hout : i < unixSecMin ∨ unixSecMax < i) :
    (gmtime treeFixes b v).isErr = true ∧ (∃ e, toIso8601 treeFixes v = .error e) :=
  out_of_range_rejected_fixed b v i hv hout

/-- a fractional epoch whose micro-second value is outside the range is rejected (a product beyond
the `i64` range saturates, which is outside the range too) -/
theorem out_of_range_fractional_rejected (fx : Fixes) (b : Build) (f : UInt64) (hfin : F64.isFinite f = true)
    (hout : floatMicros fx f < unixSecMin * 1000000 ∨ unixSecMax * 1000000 < floatMicros fx f) :
    (gmtime fx b (.num (.float f))).isErr = true := by
  have : Timestamp.fromMicrosecond (floatMicros fx f) = none := by
    unfold Timestamp.fromMicrosecond
    rw [if_neg (by omega)]
  simp [gmtime, epochToTimestamp, valAsIsize, Num.asIsize, valAsF64, Num.toF64, hfin, this, Out.err, Out.isErr]

/-- a broken-down time whose instant is outside the `Timestamp` range is rejected by `mktime` -/
theorem out_of_range_array_rejected (fx : Fixes) (b : Build) (a : List Val) (dt : DateTime)
    (ha : arrayToDateTime fx b a = .ok (.ok dt)) (hout : Timestamp.inRange dt.toNs = false) :
    (mktime fx b (.arr a)).isErr = true := by
  simp [mktime, ha, DateTime.toTimestampUTC, hout, Out.err, Out.isErr]

/-- F-20a witness, overflow checks on: `9223372036854775807 | gmtime` panics -/
theorem epoch_overflow_panics_witness :
    gmtime Fixes.none ⟨true⟩ (vint 9223372036854775807) = .panic .mulOverflow := by rfl

/-- F-20a witness, overflow checks off (release builds): `288230376151711744 | gmtime` (year
≈ 9.1 billion) is answered with 1970-01-01T00:00:00, because `2^58 · 10^6 ≡ 0 (mod 2^64)` -/
theorem epoch_overflow_wraps_witness :
    observe (gmtime Fixes.none ⟨false⟩ (vint 288230376151711744)) =
      .nums [.int 1970, .int 0, .int 1, .int 0, .int 0, .int 0, .int 4, .int 0] := by decide +kernel

/-! ## rejection: non-finite and non-numeric -/

/- FALSE on the current tree (F-20b):
   theorem non_finite_rejected (fx b f) (F64.isFinite f = false) : (gmtime fx b (float f)).isErr = true -/

/-- **non-finite epochs are rejected** — PARTIAL on the current tree: infinities always (the cast
saturates to `i64::MIN/MAX`, outside the range), NaN only with the repair F-20b. -/
theorem non_finite_rejected_partial (fx : Fixes) (b : Build) (f : UInt64) (hnf : F64.isFinite f = false)
    (hg : fx.rejectNonFinite = true ∨ F64.isInf f = true) :
    (gmtime fx b (.num (.float f))).isErr = true ∧ (∃ e, toIso8601 fx (.num (.float f)) = .error e) := by
  by_cases hfix : fx.rejectNonFinite = true
  · constructor
    · simp [gmtime, epochToTimestamp, valAsIsize, Num.asIsize, valAsF64, Num.toF64, hnf, hfix, Out.err, Out.isErr]
    · exact ⟨errJiff, by simp [toIso8601, valAsIsize, Num.asIsize, valAsF64, Num.toF64, hnf, hfix]⟩
  · have hinf : F64.isInf f = true := by
      rcases hg with h | h
      · exact absurd h hfix
      · exact h
    have hfix' : fx.rejectNonFinite = false := by simpa using hfix
    have hm : Timestamp.fromMicrosecond (floatMicros fx f) = none := by
      have ⟨p, n⟩ := inf_micros fx
      unfold Timestamp.fromMicrosecond
      rcases isInf_cases f hinf with e | e <;> subst e
      · rw [p, if_neg (by unfold isizeMax unixSecMax; omega)]
      · rw [n, if_neg (by unfold isizeMin unixSecMin; omega)]
    constructor
    · simp [gmtime, epochToTimestamp, valAsIsize, Num.asIsize, valAsF64, Num.toF64, hfix', hm, Out.err, Out.isErr]
    · exact ⟨errJiff, by simp [toIso8601, valAsIsize, Num.asIsize, valAsF64, Num.toF64, hfix', hm]⟩

/-- the full statement for the repaired code -/
theorem non_finite_rejected_fixed (b : Build) (f : UInt64) (hnf : F64.isFinite f = false) :
    (gmtime Fixes.all b (.num (.float f))).isErr = true ∧
    (∃ e, toIso8601 Fixes.all (.num (.float f)) = .error e) :=
  non_finite_rejected_partial Fixes.all b f hnf (Or.inl rfl)

/-- **non-finite epochs are rejected** — the FULL statement for the code as it is now
(`treeFixes` = all repairs): NaN (any payload, either sign) and both infinities are errors of
`gmtime` and `todate` in both build modes. -/
theorem non_finite_rejected (b : Build) (f : UInt64) (hnf : F64.isFinite f = false) :
    (gmtime treeFixes b (.num (.float f))).isErr = true ∧
    (∃ e, toIso8601 treeFixes (.num (.float f)) = .error e) :=
  non_finite_rejected_fixed b f hnf

/-- F-20b witness: every NaN is answered with 1970-01-01T00:00:00 by the unrepaired code
(`NaN as i64 = 0`), in both build modes -/
theorem nan_epoch_witness (b : Build) (f : UInt64) (h : F64.isNaN f = true) :
    gmtime Fixes.none b (.num (.float f)) = .val (specArray 0) := by
  have hm := nan_micros f h
  have hr : Timestamp.fromMicrosecond 0 = some ⟨0⟩ := by decide
  have hx : Fixes.none.rejectNonFinite = false := rfl
  simp only [gmtime, epochToTimestamp, valAsIsize, Num.asIsize, valAsF64, Num.toF64, hx,
    Bool.false_and, Bool.false_eq_true, if_false, hm, hr, Out.val]
  rw [dateTimeToArray_spec]

/-- non-numeric inputs are rejected by `gmtime` and `todate`, non-arrays by `mktime`,
non-strings by `fromdate` -/
theorem non_numeric_rejected (fx : Fixes) (b : Build) (v : Val) :
    ((∀ n, v ≠ .num n) → (gmtime fx b v).isErr = true ∧ ∃ e, toIso8601 fx v = .error e) ∧
    ((∀ a, v ≠ .arr a) → (mktime fx b v).isErr = true) ∧
    ((∀ s, v ≠ .tstr s) → ∃ e, fromdate fx v = some (.error e)) := by
  refine ⟨?_, ?_, ?_⟩
  · intro h
    cases v <;> first
      | exact absurd rfl (h _)
      | exact ⟨by simp [gmtime, epochToTimestamp, valAsIsize, valAsF64, Out.err, Out.isErr],
               by simp [toIso8601, valAsIsize, valAsF64]⟩
  · intro h
    cases v <;> first
      | exact absurd rfl (h _)
      | simp [mktime, Out.err, Out.isErr]
  · intro h
    cases v <;> first
      | exact absurd rfl (h _)
      | simp [fromdate]

/-! ## rejection: malformed broken-down arrays -/

/- FALSE on the current tree (F-05b, F-20d):
   theorem malformed_array_rejected (fx b a) (¬ WellFormedBDT a) : (mktime fx b (.arr a)).isErr = true -/

/-- **malformed broken-down arrays are rejected** — PARTIAL on the current tree.  Whatever is not a
`WellFormedBDT` (fewer than six entries, a non-integer in the first five, a non-number as seconds,
a date that does not exist, a field out of range, seconds that are not a finite number with
`0 ≤ ⌊s⌋ ≤ 59`) yields an error, provided
  * the month is not 127, or overflow checks are off (then `127 + 1` wraps to -128 and is rejected),
    or `checked_add` is used (repair F-05b), and
  * the seconds are not NaN, or non-finite seconds are rejected (repair F-20d). -/
theorem malformed_array_rejected_partial (fx : Fixes) (b : Build) (a : List Val) (hm : ¬ WellFormedBDT a)
    (g1 : fx.checkedAdd = true ∨ b.overflowChecks = false ∨ ¬ month127 a)
    (g2 : fx.rejectNonFinite = true ∨ ¬ secondsNaN a) :
    (mktime fx b (.arr a)).isErr = true := by
  cases hr : arrayToDateTime fx b a with
  | error p =>
    obtain ⟨_, h127, hoc, hca⟩ := arrayToDateTime_panic hr
    rcases g1 with g | g | g
    · rw [hca] at g; exact absurd g (by decide)
    · rw [hoc] at g; exact absurd g (by decide)
    · exact absurd h127 g
  | ok r =>
    cases r with
    | shape => simp [mktime, hr, Out.err, Out.isErr]
    | range => simp [mktime, hr, Out.err, Out.isErr]
    | ok dt =>
      exfalso
      apply hm
      obtain ⟨year, month, day, hour, min, sec, rest, y, mo, d, hh, mi, secF, ha, vy, vmo, vd, vh, vmi, vs,
        hfin, _, c1, c2, c3, c4, c5, c6, c7, c8, c9, _, _⟩ := arrayToDateTime_ok hr
      have hnn : F64.isNaN secF = false := by
        cases hn : F64.isNaN secF with
        | false => rfl
        | true =>
          rcases g2 with g | g
          · have := hfin g; rw [nan_not_finite secF hn] at this; exact absurd this (by decide)
          · exact absurd ⟨secF, by simp [ha, vs], hn⟩ g
      have ⟨f1, f2, f3⟩ := floorCast_range secF hnn c8 c9
      exact ⟨year, month, day, hour, min, sec, rest, y, mo, d, hh, mi, secF, ha, vy, vmo, vd, vh, vmi, vs,
        c1, c2, c3, c4, c5, c6, c7, f1, f2, f3⟩

/-- the full statement for the repaired code, in both build modes -/
theorem malformed_array_rejected_fixed (b : Build) (a : List Val) (hm : ¬ WellFormedBDT a) :
    (mktime Fixes.all b (.arr a)).isErr = true :=
  malformed_array_rejected_partial Fixes.all b a hm (Or.inl rfl) (Or.inl rfl)

/-- **malformed broken-down arrays are rejected** — the FULL statement for the code as it is now
(`treeFixes` = all repairs): whatever is not a `WellFormedBDT` (fewer than six entries, a
non-integer among the first five, a non-number / NaN / infinity as seconds, a date that does not
exist, a field out of range, `⌊seconds⌋` outside 0..59) is an error of `mktime`, in both build
modes, without guards. -/
theorem malformed_array_rejected (b : Build) (a : List Val) (hm : ¬ WellFormedBDT a) :
    (mktime treeFixes b (.arr a)).isErr = true :=
  malformed_array_rejected_fixed b a hm

/-- the guards are not vacuous: a well-formed array exists, and it is accepted -/
example : observe (mktime Fixes.none ⟨true⟩ (.arr [vint 2024, vint 1, vint 29, vint 12, vint 30, vint 45])) =
    .nums [.int 1709209845] := by decide +kernel

/-- F-05b witness: `[2024,127,1,0,0,0] | mktime` panics with overflow checks on the unrepaired
code; without overflow checks and after the repair it is an error -/
theorem month_overflow_witness :
    mktime Fixes.none ⟨true⟩ (.arr [vint 2024, vint 127, vint 1, vint 0, vint 0, vint 0]) = .panic .addOverflow ∧
    observe (mktime Fixes.none ⟨false⟩ (.arr [vint 2024, vint 127, vint 1, vint 0, vint 0, vint 0])) = .err ∧
    observe (mktime Fixes.all ⟨true⟩ (.arr [vint 2024, vint 127, vint 1, vint 0, vint 0, vint 0])) = .err := by
  refine ⟨by rfl, by decide +kernel, by decide +kernel⟩

/-- F-20d witness: `[2024,0,1,0,0,nan] | mktime` is answered with 2024-01-01T00:00:00 by the
unrepaired code (`NaN as i8 = 0`, `NaN as i32 = 0`); the repaired code rejects it -/
theorem nan_seconds_witness (b : Build) :
    observe (mktime Fixes.none b (.arr [vint 2024, vint 0, vint 1, vint 0, vint 0, .num (.float F64.nan)])) =
      .nums [.int 1704067200] ∧
    observe (mktime Fixes.all b (.arr [vint 2024, vint 0, vint 1, vint 0, vint 0, .num (.float F64.nan)])) = .err := by
  cases b with | mk oc => cases oc <;> decide +kernel

end Jaq.Time
