/-
  C07 — print-then-parse is the identity on values; JSON texts mean what RFC 8259 says.

  Model: `JaqVerif/C07/Write.lean` (writer, driven by the per-byte tables `Gen.escT`/`Gen.escB`
  regenerated from the real writer on every run), `JaqVerif/C07/Read.lean` (reader; single-character
  escape tables `Gen.unescT`/`Gen.unescB` regenerated from the real reader), `JaqVerif/C07/Canon.lean`
  (what a value looks like after print-then-parse, side conditions).  Bytes are `List UInt8`.
  `0x22` is the quote.  All statements are for ALL byte lists / integers / values / nesting depths /
  `Pp` settings; the only parameters are the float printer `c.ryu` (third-party `ryu`) with its
  recorded contract `RyuLit`/`RyuOk`, and the tables.
-/
import JaqVerif.Lemmas.C07Congr
import JaqVerif.Lemmas.C07Sort
import JaqVerif.Lemmas.C07Bridge
import JaqVerif.Lemmas.C07RfcNum
import JaqVerif.Lemmas.C07Ryu

namespace Jaq.C07

/-! ### translator: the constants of the model are what the real writer printed on this run -/

theorem tables_frames_and_keywords :
    Gen.frameT = [0x22, 0x22] ∧ Gen.frameB = [0x62, 0x22, 0x22] ∧
    Gen.kw_null = strNull ∧ Gen.kw_true = strTrue ∧ Gen.kw_false = strFalse ∧
    Gen.kw_nan = strNaN ∧ Gen.kw_inf = strInfinity ∧ Gen.kw_ninf = 0x2d :: strInfinity := by decide

/-! ### strings: reading what was written returns the same bytes and the same kind -/

/-- For EVERY byte list `s` (control characters, quotes, backslashes, 0x7f, invalid UTF-8 …): the
text-string reader applied to the escaped body that the writer emits for `s`, followed by the
closing quote and anything, returns exactly `s` and stops right after the quote. -/
theorem unescape_escape_tstr (s rest : Bytes) :
    readStr false (s.flatMap escT1 ++ 0x22 :: rest) = some (s, rest) := readStr_escT s rest

/-- The same for byte strings (`b"…"`, `\xXX` escapes). -/
theorem unescape_escape_bstr (s rest : Bytes) :
    readStr true (s.flatMap escB1 ++ 0x22 :: rest) = some (s, rest) := readStr_escB s rest

/-- Whole values: a written text string is read as that text string, a written byte string as that
byte string (the text/byte distinction survives), for every byte list. -/
theorem string_roundtrip (c : Cfg) (pp : Pp) (s : Bytes) :
    parseSingle (write c pp (.tstr s)) = some (.tstr s) ∧
    parseSingle (write c pp (.bstr s)) = some (.bstr s) := by
  constructor
  · have h : Spells (.tstr s) (writeTStr s) := by
      simp only [Spells, writeTStr]; exact ⟨s.flatMap escT1, fun rest => readStr_escT s rest, rfl⟩
    have := parseSingle_spells _ _ [] [] h isGap_nil isGap_nil
    simpa [write, writeVal, resolve] using this
  · have h : Spells (.bstr s) (writeBStr s) := by
      simp only [Spells, writeBStr]; exact ⟨s.flatMap escB1, fun rest => readStr_escB s rest, rfl⟩
    have := parseSingle_spells _ _ [] [] h isGap_nil isGap_nil
    simpa [write, writeVal, resolve] using this

/-! ### numbers -/

/-- Integers of ANY size: the decimal text of `i` is read back as exactly `i`, in canonical
representation (`Num.ofInt`: machine integer iff it fits 64 bits, else big integer), whatever
representation it was printed from. -/
theorem int_text_roundtrip (c : Cfg) (pp : Pp) (i : Int) :
    parseSingle (write c pp (.num (.int i))) = some (.num (Num.ofInt i)) ∧
    parseSingle (write c pp (.num (.big i))) = some (.num (Num.ofInt i)) ∧
    intOfText (intText i) = i := by
  have h : Spells (.num (Num.ofInt i)) (intText i) := by rw [Spells]; exact Or.inl (numText_int i)
  have := parseSingle_spells _ _ [] [] h isGap_nil isGap_nil
  exact ⟨by simpa [write, writeVal, writeNum, resolve] using this,
         by simpa [write, writeVal, writeNum, resolve] using this, intOfText_intText i⟩

theorem int_canonical_form (i : Int) :
    (fitsIsize i = true → Num.ofInt i = .int i) ∧ (fitsIsize i = false → Num.ofInt i = .big i) := by
  constructor <;> intro h <;> simp [Num.ofInt, h]

/-- Non-integer literals are kept character for character: a complete number text `t` with a
fraction or an exponent (`1.10`, `1e1000`, `+7.50E-3`, `00.5` …) is read as the literal `t`, and that
literal is printed as `t` again. -/
theorem dec_literal_preserved (c : Cfg) (pp : Pp) (t : Bytes) (h : ValidDec t) :
    parseSingle t = some (.num (.dec (stringOfBytes t))) ∧
    write c pp (.num (.dec (stringOfBytes t))) = t := by
  have hs : Spells (.num (.dec (stringOfBytes t))) t := by rw [Spells]; exact Or.inl (numText_dec t h)
  have := parseSingle_spells _ _ [] [] hs isGap_nil isGap_nil
  exact ⟨by simpa [resolve] using this, by simp [write, writeVal, writeNum, decBytes_stringOfBytes]⟩

example : ValidDec [0x31, 0x2e, 0x31, 0x30] :=          -- 1.10
  ⟨(numLex NumSt.init [0x31, 0x2e, 0x31, 0x30]).2.2, ⟨by decide, by decide⟩, by decide⟩
example : ValidDec [0x31, 0x65, 0x31, 0x30, 0x30, 0x30] :=   -- 1e1000
  ⟨(numLex NumSt.init [0x31, 0x65, 0x31, 0x30, 0x30, 0x30]).2.2, ⟨by decide, by decide⟩, by decide⟩

/-- A finite float comes back as the literal that the float printer wrote, and that literal
denotes the same float when it is calculated with (`Num::from_dec_str` = `str::parse::<f64>`),
bit for bit — under the recorded contract of the third-party printer. -/
theorem float_value_preserved (c : Cfg) (hc : RyuOk c) (f : UInt64) (hf : viaRyu f = true) :
    canonNum c (.float f) = .dec (stringOfBytes (c.ryu f)) ∧
    Num.toF64 (canonNum c (.float f)) = f := by
  have h : canonNum c (.float f) = .dec (stringOfBytes (c.ryu f)) := by
    simp only [viaRyu, Bool.and_eq_true, Bool.not_eq_true'] at hf
    simp [canonNum, hf.1.1, hf.1.2, hf.2]
  refine ⟨h, ?_⟩
  rw [h]
  simp [Num.toF64, F64.ofDec, hc.value f hf]

/-- NaN and the infinities come back as floats (all NaNs as the canonical NaN). -/
theorem special_floats_roundtrip (c : Cfg) (pp : Pp) :
    parseSingle (write c pp (.num (.float F64.nan))) = some (.num (.float F64.nan)) ∧
    parseSingle (write c pp (.num (.float F64.posInf))) = some (.num (.float F64.posInf)) ∧
    parseSingle (write c pp (.num (.float F64.negInf))) = some (.num (.float F64.negInf)) := by
  have n1 : F64.isNaN F64.nan = true := by decide
  have n2 : F64.isNaN F64.posInf = false := by decide
  have n3 : F64.isNaN F64.negInf = false := by decide
  have n4 : (F64.negInf == F64.posInf) = false := by decide
  have e1 : write c pp (.num (.float F64.nan)) = strNaN := by simp [write, writeVal, writeNum, n1]
  have e2 : write c pp (.num (.float F64.posInf)) = strInfinity := by simp [write, writeVal, writeNum, n2]
  have e3 : write c pp (.num (.float F64.negInf)) = 0x2d :: strInfinity := by simp [write, writeVal, writeNum, n3, n4]
  rw [e1, e2, e3]
  refine ⟨?_, ?_, ?_⟩
  · have h : Spells (.num (.float F64.nan)) strNaN := by rw [Spells]; exact Or.inr (Or.inl ⟨rfl, rfl⟩)
    have := parseSingle_spells _ _ [] [] h isGap_nil isGap_nil
    simpa [resolve] using this
  · have h : Spells (.num (.float F64.posInf)) strInfinity := by rw [Spells]; exact Or.inr (Or.inr ⟨rfl, rfl⟩)
    have := parseSingle_spells _ _ [] [] h isGap_nil isGap_nil
    simpa [resolve] using this
  · have h : Spells (.num (.float F64.negInf)) (0x2d :: strInfinity) := by rw [Spells]; exact Or.inl numText_negInf
    have := parseSingle_spells _ _ [] [] h isGap_nil isGap_nil
    simpa [resolve] using this

/-! ### whole values, every `Pp` -/

/-- Key order is insertion order: without `sort_keys`, the object read back has the entries of
the printed object in the same order. -/
theorem obj_order_preserved (c : Cfg) (pp : Pp) (h : pp.sortKeys = false) (o : List (Val × Val)) :
    canon c pp (.obj o) = .obj (o.map fun e => (canon c pp e.1, canon c pp e.2)) := by
  simp [canon, sortTagged, h, canonEntries_map, Function.comp_def]

/-- **Print-then-parse.**  For every value `v` (any size and depth, any strings, integers of any
size, literals, floats, arbitrary keys) and every `Pp` (compact or any white-space indentation,
tab, blank after separators, key sorting), surrounded by anything that `ws_tk` skips (`w1`, `w2`:
white space, `#` comments — e.g. the newline the command line appends):

  `parse_single (w1 ++ print pp v ++ w2) = canon pp v`

where `canon pp v` is `v` itself except that a finite float has become the literal `ryu f`
(`float_value_preserved`: same value bit for bit), integers are in canonical representation, and
with `sort_keys` the entries are in key order.  Hypotheses: the float printer emits number
literals (`RyuLit`), the indentation is white space, decimal literals inside `v` are ones the
reader produces (`GoodVal`), and the result satisfies the `IndexMap` invariant (`KeysOk`: keys of
each object pairwise different — otherwise `insert` merges entries). -/
theorem parse_print_val (c : Cfg) (hc : RyuLit c) (pp : Pp) (hpp : pp.WsIndent) (v : Val) (hg : GoodVal v)
    (hk : KeysOk (canon c pp v)) (w1 w2 : Bytes) (h1 : IsGap w1) (h2 : IsGap w2) :
    parseSingle (w1 ++ (write c pp v ++ w2)) = some (canon c pp v) := by
  have hs := spells_write c hc pp hpp v.size v (Nat.le_refl _) hg 0
  have := parseSingle_spells _ _ w1 w2 hs h1 h2
  rw [resolve_of_keysOk _ hk] at this
  exact this

/-- Without the key hypothesis: the result is `canon pp v` with the entries of every object
`insert`ed in order (`resolve`; duplicate keys: first position, last value). -/
theorem parse_print_val_resolve (c : Cfg) (hc : RyuLit c) (pp : Pp) (hpp : pp.WsIndent) (v : Val) (hg : GoodVal v)
    (w1 w2 : Bytes) (h1 : IsGap w1) (h2 : IsGap w2) :
    parseSingle (w1 ++ (write c pp v ++ w2)) = some (resolve (canon c pp v)) :=
  parseSingle_spells _ _ w1 w2 (spells_write c hc pp hpp v.size v (Nat.le_refl _) hg 0) h1 h2

/-- `tojson | fromjson` on a value: the compact default `Pp`. -/
theorem tojson_fromjson (c : Cfg) (hc : RyuLit c) (v : Val) (hg : GoodVal v) (hk : KeysOk (canon c Pp.compact v)) :
    parseSingle (write c Pp.compact v) = some (canon c Pp.compact v) := by
  have := parse_print_val c hc Pp.compact (by intro s h; cases h) v hg hk [] [] isGap_nil isGap_nil
  simpa using this

/-- "Same printed form": the value that is read back prints byte for byte like the original (so
the difference `Float f` / `Dec (ryu f)` and `BigInt`/`Int` representation is invisible to printing),
for every `Pp` without key sorting and every value. -/
theorem print_canon_same_partial (c : Cfg) (pp : Pp) (h : pp.sortKeys = false) (v : Val) :
    write c pp (canon c pp v) = write c pp v := writeVal_canon c pp h v.size v (Nat.le_refl _) 0

/- Full statement also for `pp.sortKeys = true`:  `write c pp (canon c pp v) = write c pp v`.
   Missing: that `canon` preserves the key order `Val.cmp` (a finite float and the literal `ryu f`
   compare alike — follows from `RyuOk.value` plus the theory of `Val.cmp`, property C08).  The real
   code is checked for it on every run by the oracle (`write pp (parse (write pp v)) = write pp v`
   for all 14 `Pp` settings including sorting). -/

/-- the hypotheses are satisfiable: a printer that emits literals, the command line's indentations,
a value with a literal, and an object with two different keys -/
example : RyuLit { ryu := fun _ => [0x31, 0x2e, 0x35] } := by
  intro f _
  have h : ValidDec [0x31, 0x2e, 0x35] := ⟨(numLex NumSt.init [0x31, 0x2e, 0x35]).2.2, ⟨by decide, by decide⟩, by decide⟩
  obtain ⟨sf, ⟨a, b⟩, d⟩ := h
  exact ⟨sf, a, b, d⟩
example (n : Nat) : Pp.WsIndent { indent := some (List.replicate n 0x20), sortKeys := true, sepSpace := true } := by
  intro s h b hb; cases h; simp at hb; rw [hb.2]; decide
example : Pp.WsIndent { indent := some [0x09], sortKeys := false, sepSpace := true } := by
  intro s h b hb; cases h; simp at hb; rw [hb]; decide
example : GoodVal (.arr [.num (.dec (stringOfBytes [0x31, 0x2e, 0x31, 0x30])), .null]) :=
  ⟨⟨[0x31, 0x2e, 0x31, 0x30], (numLex NumSt.init [0x31, 0x2e, 0x31, 0x30]).2.2, rfl, by decide, by decide, by decide⟩,
   trivial, trivial⟩

/-! ### what white space is -/

/-- blanks, tabs, carriage returns and line feeds in any number are skipped … -/
theorem whitespace_is_gap (w : Bytes) (h : ∀ b ∈ w, isWs b = true) : IsGap w := isGap_ws w h

/-- … and so is a `#` comment up to and including the end of its line (XJON). -/
theorem comment_is_gap (body : Bytes) (h : ∀ b ∈ body, b ≠ 0x0a) : IsGap (0x23 :: (body ++ [0x0a])) :=
  isGap_comment body h

/-! ### RFC 8259 texts mean what the RFC says

`Spelling j s` (C07/Rfc.lean): `s` is an RFC 8259 text of the abstract JSON value `j` — `ws` in any
amount wherever the grammar allows it; strings as any sequence of `Piece`s: unescaped bytes
(≥ 0x20, not `"` or `\`; multi-byte UTF-8 characters are runs of such bytes), the eight
two-character escapes, `\uXXXX` with hexadecimal digits in either case for code points outside
the surrogate range, surrogate pairs `\uD8xx\uDCxx` for code points from U+10000; integer
literals (incl. `-0`); non-integer literals; arrays; objects whose member names may repeat.
`embed j`: integers exact at any size, non-integer literals kept as their text, strings as their
UTF-8 bytes, arrays elementwise, objects by inserting the members in order (a repeated name keeps
its first position and takes the last value — what Python's `dict`/`json` does too). -/

/-- the jaq value that an RFC 8259 reader assigns to the abstract JSON value `j` -/
def embed (j : JVal) : Val := resolve (embedRaw j)

/- Full statement:  `Spelling j s → parse_single s = embed j`  for the RFC grammar.
   Proved below in full for white space, strings (all escape forms, surrogate pairs), integer
   literals of any size, arrays, objects, duplicate names, nesting of any depth.
   PARTIAL in one respect: non-integer number literals are characterised through the reader's own
   number lexer (`NonIntLit`: consumed entirely, ends in a digit, has `.` or `e`/`E`) instead of an
   independent rendering of the RFC production `[-] int frac? exp?`; that every RFC literal is a
   `NonIntLit` is shown on the examples below and checked by the exhaustive correspondence over the
   number alphabet and by Python's `json` on generated texts. -/
theorem parse_rfc_spelling_partial (j : JVal) (s w1 w2 : Bytes) (h : Spelling j s) (h1 : Ws w1) (h2 : Ws w2) :
    parseSingle (w1 ++ (s ++ w2)) = some (embed j) :=
  parseSingle_spells _ _ w1 w2 (spelling_spells j s h) (ws_gap h1) (ws_gap h2)

/-- the string part on its own: a body made of any mix of pieces is read as the UTF-8 bytes the
pieces denote -/
theorem parse_rfc_string (u p : Bytes) (h : Body u p) :
    parseSingle (0x22 :: (p ++ [0x22])) = some (.tstr u) := by
  have := parse_rfc_spelling_partial (.str u) _ [] [] (by simp only [Spelling]; exact ⟨p, h, rfl⟩)
    (by intro b hb; cases hb) (by intro b hb; cases hb)
  simpa [embed, embedRaw, resolve] using this

-- `"\u00E9"`, `"\u00e9"` and the two unescaped bytes C3 A9 all denote é (UTF-8 C3 A9)
example : Body [0xc3, 0xa9] [0x5c, 0x75, 0x30, 0x30, 0x45, 0x39] := by
  have := Body.cons (Piece.uni 0 0 14 9 0x30 0x30 0x45 0x39 (by unfold HexSp; decide) (by unfold HexSp; decide) (by unfold HexSp; decide) (by unfold HexSp; decide) (by decide)) Body.nil
  simpa [Utf8.encode] using this
example : Body [0xc3, 0xa9] [0x5c, 0x75, 0x30, 0x30, 0x65, 0x39] := by
  have := Body.cons (Piece.uni 0 0 14 9 0x30 0x30 0x65 0x39 (by unfold HexSp; decide) (by unfold HexSp; decide) (by unfold HexSp; decide) (by unfold HexSp; decide) (by decide)) Body.nil
  simpa [Utf8.encode] using this
example : Body [0xc3, 0xa9] [0xc3, 0xa9] :=
  Body.cons (Piece.lit 0xc3 (by decide) (by decide) (by decide)) (Body.cons (Piece.lit 0xa9 (by decide) (by decide) (by decide)) Body.nil)
-- `"\ud83d\uDE00"` denotes U+1F600 (UTF-8 F0 9F 98 80)
example : Body [0xf0, 0x9f, 0x98, 0x80] [0x5c, 0x75, 0x64, 0x38, 0x33, 0x64, 0x5c, 0x75, 0x44, 0x45, 0x30, 0x30] := by
  have := Body.cons (Piece.pair 13 8 3 13 13 14 0 0 0x64 0x38 0x33 0x64 0x44 0x45 0x30 0x30
    (by unfold HexSp; decide) (by unfold HexSp; decide) (by unfold HexSp; decide) (by unfold HexSp; decide) (by unfold HexSp; decide) (by unfold HexSp; decide) (by unfold HexSp; decide) (by unfold HexSp; decide) (by decide) (by decide)) Body.nil
  simpa [Utf8.encode] using this
-- RFC number literals with a fraction or an exponent: -0.5, 1E+2, 0e0, 10.25e-3
example : NonIntLit [0x2d, 0x30, 0x2e, 0x35] := ⟨(numLex NumSt.init [0x2d, 0x30, 0x2e, 0x35]).2.2, by decide, by decide, by decide⟩
example : NonIntLit [0x31, 0x45, 0x2b, 0x32] := ⟨(numLex NumSt.init [0x31, 0x45, 0x2b, 0x32]).2.2, by decide, by decide, by decide⟩
example : NonIntLit [0x30, 0x65, 0x30] := ⟨(numLex NumSt.init [0x30, 0x65, 0x30]).2.2, by decide, by decide, by decide⟩
example : NonIntLit [0x31, 0x30, 0x2e, 0x32, 0x35, 0x65, 0x2d, 0x33] :=
  ⟨(numLex NumSt.init [0x31, 0x30, 0x2e, 0x32, 0x35, 0x65, 0x2d, 0x33]).2.2, by decide, by decide, by decide⟩

/-! ## Round 2

### (1) the key hypothesis is about `v` itself; `cmp`, `==`, hashing do not see the round trip

`RyuVal c` is the value half of the float printer's contract (`RyuOk.value`); `WfInts v` the type
invariant of `Num::Int(isize)` (machine integers fit a machine word; the model's `Int` is unbounded).
Proofs: `Lemmas/C07KeysNum.lean` (numbers: every representation change of `canonNum` — `Int`/`BigInt`,
`Float f`/`Dec (ryu f)`, NaN payloads — is invisible to `Num::cmp`, `Num::eq`, `Num::hash`),
`Lemmas/C07Keys.lean` (values, by induction on the fuel of `cmp`/`==`/`hash`), `Lemmas/C07Sort.lean`
(`sort_keys`). -/

/-- "Indistinguishable": without key sorting, the values read back compare (`Ord`), are `==`
(`PartialEq`, incl. `IndexMap`'s hashed equality of objects), hash (`Hash`) and are found as keys
(`IndexMap` probe) exactly like the originals — at every size and depth, NaN and ±0 included. -/
theorem roundtrip_invisible_to_cmp_eq_hash (c : Cfg) (hc : RyuOk c) (pp : Pp) (hns : pp.sortKeys = false)
    (a b : Val) (ha : WfInts a) (hb : WfInts b) :
    Val.cmp (canon c pp a) (canon c pp b) = Val.cmp a b ∧
    Val.eq (canon c pp a) (canon c pp b) = Val.eq a b ∧
    Val.feed (canon c pp a) = Val.feed a ∧
    Obj.sameKey (canon c pp a) (canon c pp b) = Obj.sameKey a b :=
  ⟨cmp_canon c hc.value pp hns a b, eq_canon c hc.value pp hns a b ha hb, feed_canon c hc.value pp hns a ha,
   sameKey_canon c hc.value pp hns a b ha hb⟩

/-- The `IndexMap` invariant survives the round trip: if the keys of every object inside `v` are
pairwise different, so are the keys of every object of the value read back (a float key that became
a literal, an integer key that changed representation, NaN keys, keys that are arrays or objects). -/
theorem keys_survive_roundtrip (c : Cfg) (hc : RyuOk c) (pp : Pp) (hns : pp.sortKeys = false) (v : Val)
    (hw : WfInts v) (hk : KeysOk v) : KeysOk (canon c pp v) :=
  keysOk_canon c hc.value pp hns v.size v (Nat.le_refl _) hw hk

/-- **Print-then-parse with the hypotheses on `v` only** (replaces the hypothesis
`KeysOk (canon c pp v)` of `parse_print_val` for every `Pp` without key sorting): -/
theorem parse_print_val_keys (c : Cfg) (hc : RyuOk c) (pp : Pp) (hpp : pp.WsIndent) (hns : pp.sortKeys = false)
    (v : Val) (hg : GoodVal v) (hw : WfInts v) (hk : KeysOk v) (w1 w2 : Bytes) (h1 : IsGap w1) (h2 : IsGap w2) :
    parseSingle (w1 ++ (write c pp v ++ w2)) = some (canon c pp v) :=
  parse_print_val c hc.literal pp hpp v hg (keys_survive_roundtrip c hc pp hns v hw hk) w1 w2 h1 h2

/-- `tojson | fromjson` with the hypotheses on `v` only -/
theorem tojson_fromjson_keys (c : Cfg) (hc : RyuOk c) (v : Val) (hg : GoodVal v) (hw : WfInts v) (hk : KeysOk v) :
    parseSingle (write c Pp.compact v) = some (canon c Pp.compact v) :=
  tojson_fromjson c hc.literal v hg (keys_survive_roundtrip c hc Pp.compact rfl v hw hk)

/-- a non-trivial instance of the hypotheses: `{(1.5): null, (1): [1.5], "a": {}}` -/
example : WfInts (.obj [(.num (.float 0x3ff8000000000000), .null), (.num (.int 1), .arr [.num (.float 0x3ff8000000000000)]),
    (.tstr [97], .obj [])]) := by decide

/-- **"Same printed form" for every `Pp`, key sorting included** (completes
`print_canon_same_partial`).  With `sort_keys` the hypothesis `SortDom v` asks of every object
inside `v`: its keys contain no objects (`flatKeys`), and are pairwise strictly ordered by `Ord`
consistently in both directions (`strictKeys`: `k < k'` and `k' > k`, or the converse) — what
C08's `val_order` (antisymmetry) and `WfKeys` give for NaN-free keys.  PARTIAL in this respect: keys
that contain objects are not covered (needs that `Ord` does not see the insertion order of nested
objects, C08 `obj_eq_insertion_order_irrelevant`, for the shared `Val.cmp`). -/
theorem print_canon_same_sorted_partial (c : Cfg) (hc : RyuOk c) (pp : Pp) (hs : pp.sortKeys = true) (v : Val)
    (hd : SortDom v) : write c pp (canon c pp v) = write c pp v :=
  writeVal_canon_sorted c hc.value pp hs v.size v (Nat.le_refl _) hd 0

/-- both cases together -/
theorem print_canon_same (c : Cfg) (hc : RyuOk c) (pp : Pp) (v : Val) (hd : pp.sortKeys = true → SortDom v) :
    write c pp (canon c pp v) = write c pp v := by
  cases hs : pp.sortKeys with
  | false => exact print_canon_same_partial c pp hs v
  | true => exact print_canon_same_sorted_partial c hc pp hs v (hd hs)

/-- **Print-then-parse with `sort_keys`, hypotheses on `v` only**: under `SortDom v` (see above)
the keys of the value read back are pairwise different, so `parse_print_val` needs no hypothesis
about `canon c pp v`.  PARTIAL in the same respect as `print_canon_same_sorted_partial` (keys that
contain objects). -/
theorem parse_print_val_sorted_partial (c : Cfg) (hc : RyuOk c) (pp : Pp) (hpp : pp.WsIndent) (hs : pp.sortKeys = true)
    (v : Val) (hg : GoodVal v) (hd : SortDom v) (w1 w2 : Bytes) (h1 : IsGap w1) (h2 : IsGap w2) :
    parseSingle (w1 ++ (write c pp v ++ w2)) = some (canon c pp v) :=
  parse_print_val c hc.literal pp hpp v hg (keysOk_canon_sorted c hc.value pp hs v.size v (Nat.le_refl _) hd) w1 w2 h1 h2

/-- every `Pp`: the hypotheses are about `v` -/
theorem parse_print_val_any_pp (c : Cfg) (hc : RyuOk c) (pp : Pp) (hpp : pp.WsIndent) (v : Val) (hg : GoodVal v)
    (hu : pp.sortKeys = false → WfInts v ∧ KeysOk v) (hd : pp.sortKeys = true → SortDom v)
    (w1 w2 : Bytes) (h1 : IsGap w1) (h2 : IsGap w2) :
    parseSingle (w1 ++ (write c pp v ++ w2)) = some (canon c pp v) := by
  cases hs : pp.sortKeys with
  | false => exact parse_print_val_keys c hc pp hpp hs v hg (hu hs).1 (hu hs).2 w1 w2 h1 h2
  | true => exact parse_print_val_sorted_partial c hc pp hpp hs v hg (hd hs) w1 w2 h1 h2

/-- a non-trivial instance of `SortDom`: `{"b": 1, (1.5): {"z": 0, "a": 0}, (1): 2, [1,"x"]: 3}` -/
example : SortDom (.obj [(.tstr [98], .num (.int 1)),
    (.num (.float 0x3ff8000000000000), .obj [(.tstr [122], .num (.int 0)), (.tstr [97], .num (.int 0))]),
    (.num (.int 1), .num (.int 2)), (.arr [.num (.int 1), .tstr [120]], .num (.int 3))]) := by
  unfold SortDom; decide

/-- **`SortDom` holds on the domain of C08's order theorems** (read-only use of C08's
`cmp_tpo`/`numCmp_tpo`: antisymmetry of `Ord`): a value whose numbers are NaN-free, satisfy the
big-integer/float guard of one mode `m` and convert to finite floats (`numDom m`), whose objects
satisfy C08's `IndexMap` invariant `WfKeys` (keys pairwise not `Equal`), and whose keys contain no
objects.  There the shared `Val.cmp` (used by the model of `sort_keys`) and C08's `cmp` coincide
(`cmp_shared`). -/
theorem sort_dom_on_c08_domain (m : C08.Mode) (v : Val) (hf : C08.allObjs flatKeys v = true)
    (hd : C08.allNums (numDom m) v = true) (hk : C08.WfKeys v = true) : SortDom v :=
  sortDom_of_c08 m v.size v (Nat.le_refl _) hf hd hk

/-- a float key next to string keys: `{(2.5): 0, "k": [1.5], "a": {"b": 1, "a": 2}}` (two number keys
make `WfKeys` compare numbers, which `decide` cannot evaluate through C08's opaque repair switches) -/
example :
    let v : Val := .obj [(.num (.float 0x4004000000000000), .num (.int 0)),
      (.tstr [107], .arr [.num (.float 0x3ff8000000000000)]),
      (.tstr [97], .obj [(.tstr [98], .num (.int 1)), (.tstr [97], .num (.int 2))])]
    C08.allObjs flatKeys v = true ∧ C08.WfKeys v = true := by decide

/-! ### (2) the float printer: the contract as theorems about the executable model `ryuModel`

`ryuModel` (C07/Write.lean) is compared byte for byte with the real `ryu` on every float of every run.
`Lemmas/C07Ryu.lean`: the grammar half of the contract holds for the model for EVERY bit pattern; the
value half is proved at the level of the decimal digits `(m, k)` that the model lays out (the digits
denote `m·10^k`; `decRoundS neg m k` is that number rounded to nearest-even binary64 — what
`str::parse::<f64>` computes): every candidate the search returns has been checked to round back
(`ryuAttempt_back`), and stripping trailing zeros does not change the rounded value
(`roundRat_scale`: `roundRat (n·c) (d·c) = roundRat n d`). -/

/-- **`RyuLit` is a theorem about the model**: for every float, `ryuModel f` is consumed entirely by
the reader's number lexer, ends in a digit and has a fraction or an exponent. -/
theorem ryu_model_literal : RyuLit Cfg.model := ryuModel_lit

/-- hence print-then-parse with the model printer needs no hypothesis about the printer -/
theorem parse_print_val_model (pp : Pp) (hpp : pp.WsIndent) (v : Val) (hg : GoodVal v)
    (hk : KeysOk (canon Cfg.model pp v)) (w1 w2 : Bytes) (h1 : IsGap w1) (h2 : IsGap w2) :
    parseSingle (w1 ++ (write Cfg.model pp v ++ w2)) = some (canon Cfg.model pp v) :=
  parse_print_val Cfg.model ryuModel_lit pp hpp v hg hk w1 w2 h1 h2

/-- **the digits of the model round back to the float, bit for bit** — for every float for which the
digit search succeeds within 18 significant digits (`ryuFound`, decidable; evaluated for every float
of every run by the driver op `c07.ryufound`).  PARTIAL: (a) `ryuFound (abs f) = true` for every
finite non-zero `f` ("17 digits suffice") is not proved; (b) the step from the digits to the text
(`F64.parseDecChars` of the five layouts of `ryuModel` computes `decRoundS`) is not proved — both are
covered per run: model = real `ryu` byte for byte, and `str::parse::<f64>(ryu f) = f` on the real code. -/
theorem ryu_model_digits_roundtrip_partial (f : UInt64) (h : ryuFound (F64.abs f) = true) :
    decRoundS (F64.signBit f) (shortestDigits (F64.abs f)).1 (shortestDigits (F64.abs f)).2 = f :=
  ryuDigits_signed_roundtrip_partial f h

/-- rounding a rational to binary64 does not depend on how the fraction is written -/
theorem roundRat_scale_invariant (neg : Bool) (n d c : Nat) (hc : 0 < c) :
    F64.roundRat neg (n * c) (d * c) = F64.roundRat neg n d := roundRat_scale neg n d c hc

/-! ### (3) RFC 8259 with an independent rendering of the grammar

`Lemmas/C07RfcNum.lean`: `RfcNumber` = `[ minus ] int [ frac ] [ exp ]` with `int = zero / digit1-9 *DIGIT`,
`frac = "." 1*DIGIT`, `exp = ("e"/"E") ["-"/"+"] 1*DIGIT`, spelled with byte ranges only (no function of
the reader or writer); `RfcIntNumber i t` (no fraction, no exponent, exact value `i`),
`RfcNonIntNumber t` (a fraction or an exponent); `RfcSpelling j s` = `s` is a `value` of RFC 8259 §2–§7
denoting `j` (keywords and structural bytes as literals, `RfcWs` at every position where the grammar has
`ws`, strings as `Body`); `RfcText s` = `ws value ws`. -/

/-- every RFC 8259 number with a fraction or an exponent is a complete literal of the reader's
lexer (what `parse_rfc_spelling_partial` assumed as `NonIntLit`), and every RFC number without is
the decimal text of its value, or `-0` -/
theorem rfc_number_is_reader_literal (t : Bytes) :
    (RfcNonIntNumber t → NonIntLit t) ∧ (∀ i, RfcIntNumber i t → t = intText i ∨ (i = 0 ∧ t = [0x2d, 0x30])) := by
  refine ⟨rfcNonIntNumber_nonInt t, fun i h => ?_⟩
  have := rfcNumber_int i t h
  simpa [Spelling] using this

/-- **RFC 8259 texts mean what the RFC says** (replaces `parse_rfc_spelling_partial`: no part of the
statement refers to the reader's lexer any more). -/
theorem parse_rfc_spelling (j : JVal) (s w1 w2 : Bytes) (h : RfcSpelling j s) (h1 : RfcWs w1) (h2 : RfcWs w2) :
    parseSingle (w1 ++ (s ++ w2)) = some (embed j) :=
  parse_rfc_text j s w1 w2 h (rfcWs_ws h1) (rfcWs_ws h2)

/-- **every RFC 8259 text whose strings denote Unicode scalar values is accepted**, and denotes the
`embed` of the abstract value it spells -/
theorem rfc_text_is_accepted (s : Bytes) (h : RfcText s) :
    ∃ j, RfcTextOf j s ∧ parseSingle s = some (embed j) := rfc_text_value s h

-- ` [1, null]\n` is an RFC text
example : RfcText [0x20, 0x5b, 0x31, 0x2c, 0x20, 0x6e, 0x75, 0x6c, 0x6c, 0x5d, 0x0a] := by
  refine ⟨.arr [.int 1, .null], [0x20], [0x5b, 0x31, 0x2c, 0x20, 0x6e, 0x75, 0x6c, 0x6c, 0x5d], [0x0a], by decide, by decide, ?_, rfl⟩
  simp only [RfcSpelling, RfcSpellingList]
  exact ⟨[], _, by decide,
    ⟨[0x31], [], ⟨[], [0x31], ⟨Or.inl rfl, Or.inr ⟨0x31, [], rfl, by decide, by decide, by decide⟩, Or.inl rfl, Or.inl rfl⟩,
        rfl, by decide⟩, by decide,
      Or.inr ⟨by simp, [0x20], _, by decide, ⟨[0x6e, 0x75, 0x6c, 0x6c], [], rfl, by decide, Or.inl ⟨trivial, rfl⟩⟩, rfl⟩⟩, rfl⟩

end Jaq.C07
