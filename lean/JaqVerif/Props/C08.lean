/-
  C08 — comparison is one consistent total order; equal values are interchangeable keys.

  Theorems about the impl-model `JaqVerif/C08/Model.lean` (`cmp` = `impl Ord for Val`,
  `numCmp` = `impl Ord for Num`, `sort` = `Vec::sort`, `feed`/`floatFeed` = the `Hasher` calls of
  `impl Hash`), tied to `/repo/jaq-json/src/{lib,num,funs}.rs` and `/repo/jaq-std/src/lib.rs` by the
  correspondence of `bin/check C08`.

  Domain (the property's two side conditions, as decidable predicates of the model file):
  `InDom m v` for one `m : Mode` shared by all values that are compared with each other =
  `NaNFree v` ∧ the `BigVsFloatGuard` (mode `smallInts`: all integers within ±2^53; mode
  `infFloats`: all floats infinite) ∧, in mode `infFloats` while finding F-08b is open, no integer
  whose conversion to `f64` overflows (`NoHugeInt`; the witness below shows it is needed).

  Proved without the switches of `Gen/C08Cfg.lean` being unfolded: every theorem holds for the
  tree before and after the repairs of F-08 / F-08b; the two `_witness` theorems are stated under
  the hypothesis that the repair is *not* in the tree.
-/
import JaqVerif.Lemmas.C08Hash
import JaqVerif.Lemmas.C08Val

namespace Jaq.C08
open Jaq

/-! ## 1. One total preorder -/

/-- what `InDom` says, in the property's words -/
theorem inDom_iff (m : Mode) (v : Val) :
    InDom m v = true →
      NaNFree v = true ∧
      (m = .smallInts → allNums Num.smallInt v = true) ∧
      (m = .infFloats → allNums Num.infFloat v = true ∧ NoHugeInt v = true) := by
  intro h
  refine ⟨allNums_imp (fun n hn => ?_) h, fun hm => allNums_imp (fun n hn => ?_) h,
    fun hm => ⟨allNums_imp (fun n hn => ?_) h, allNums_imp (fun n hn => ?_) h⟩⟩
  · cases m <;> simp only [Num.inMode, Bool.and_eq_true] at hn
    · exact hn.1
    · exact hn.1.1
  · subst hm; simp only [Num.inMode, Bool.and_eq_true] at hn; exact hn.2
  · subst hm; simp only [Num.inMode, Bool.and_eq_true] at hn; exact hn.1.2
  · subst hm; simp only [Num.inMode, Bool.and_eq_true] at hn; exact hn.2

/-- and conversely: a NaN-free value satisfying the guard of mode `m` is in the domain -/
theorem inDom_of (m : Mode) (v : Val) (h1 : NaNFree v = true)
    (h2 : m = .smallInts → allNums Num.smallInt v = true)
    (h3 : m = .infFloats → allNums Num.infFloat v = true ∧ NoHugeInt v = true) : InDom m v = true := by
  have key : ∀ (k : Nat) (v : Val), v.size ≤ k → NaNFree v = true →
      (m = .smallInts → allNums Num.smallInt v = true) →
      (m = .infFloats → allNums Num.infFloat v = true ∧ NoHugeInt v = true) → InDom m v = true := by
    intro k
    induction k with
    | zero => intro v hs; have := v.size_pos; omega
    | succ k ih =>
      intro v hs h1 h2 h3
      unfold InDom NaNFree NoHugeInt at *
      cases v with
      | num n =>
        simp only [allNums] at *
        cases m
        · simp [Num.inMode, h1, h2 rfl]
        · simp [Num.inMode, h1, (h3 rfl).1, (h3 rfl).2]
      | arr a =>
        rw [allNums_arr] at h1 ⊢
        intro x hx
        have := Val.size_lt_of_mem hx
        simp only [Val.size] at hs
        exact ih x (by omega) (h1 x hx) (fun hm => allNums_arr.1 (h2 hm) x hx)
          (fun hm => ⟨allNums_arr.1 (h3 hm).1 x hx, allNums_arr.1 (h3 hm).2 x hx⟩)
      | obj o =>
        rw [allNums_obj] at h1 ⊢
        intro e he
        have := Val.size_entry_of_mem (k := e.1) (v := e.2) he
        simp only [Val.size] at hs
        exact ⟨ih e.1 (by omega) (h1 e he).1 (fun hm => (allNums_obj.1 (h2 hm) e he).1)
            (fun hm => ⟨(allNums_obj.1 (h3 hm).1 e he).1, (allNums_obj.1 (h3 hm).2 e he).1⟩),
          ih e.2 (by omega) (h1 e he).2 (fun hm => (allNums_obj.1 (h2 hm) e he).2)
            (fun hm => ⟨(allNums_obj.1 (h3 hm).1 e he).2, (allNums_obj.1 (h3 hm).2 e he).2⟩)⟩
      | null => simp [allNums]
      | bool => simp [allNums]
      | bstr => simp [allNums]
      | tstr => simp [allNums]
  exact key v.size v (Nat.le_refl _) h1 h2 h3

/-- `impl Ord for Num` is a total preorder on the numbers of each mode -/
theorem num_order (m : Mode) : TPO (fun n => Num.inMode m n = true) numCmp := numCmp_tpo m

/-- **`impl Ord for Val` is a total preorder on the property's domain** (all sizes, all depths) -/
theorem val_order (m : Mode) : TPO (fun v => InDom m v = true) cmp := cmp_tpo (numCmp_tpo m)

theorem cmp_refl (m : Mode) (a : Val) (ha : InDom m a = true) : cmp a a = .eq :=
  (val_order m).refl a ha

/-- antisymmetry and totality: the two directions of a comparison are mirror images, so exactly
one of `a < b`, `a ≡ b`, `a > b` holds and it determines the result of `cmp b a` -/
theorem cmp_antisymm (m : Mode) (a b : Val) (ha : InDom m a = true) (hb : InDom m b = true) :
    cmp b a = (cmp a b).swap :=
  (val_order m).swap a b ha hb

theorem cmp_total (m : Mode) (a b : Val) (ha : InDom m a = true) (hb : InDom m b = true) :
    cmp a b ≠ .gt ∨ cmp b a ≠ .gt := by
  rw [cmp_antisymm m a b ha hb]; cases cmp a b <;> simp [Ordering.swap]

/-- transitivity of `≤` -/
theorem cmp_trans (m : Mode) (a b c : Val) (ha : InDom m a = true) (hb : InDom m b = true)
    (hc : InDom m c = true) (h1 : cmp a b ≠ .gt) (h2 : cmp b c ≠ .gt) : cmp a c ≠ .gt :=
  (val_order m).trans a b c ha hb hc h1 h2

/-- transitivity of `<` and its mixed forms -/
theorem cmp_lt_trans (m : Mode) (a b c : Val) (ha : InDom m a = true) (hb : InDom m b = true)
    (hc : InDom m c = true) (h1 : cmp a b = .lt) (h2 : cmp b c ≠ .gt) : cmp a c = .lt :=
  (val_order m).lt_of_lt_of_le ha hb hc h1 h2

theorem cmp_le_lt_trans (m : Mode) (a b c : Val) (ha : InDom m a = true) (hb : InDom m b = true)
    (hc : InDom m c = true) (h1 : cmp a b ≠ .gt) (h2 : cmp b c = .lt) : cmp a c = .lt :=
  (val_order m).lt_of_le_of_lt ha hb hc h1 h2

/-- values that compare equal are indistinguishable by the order (congruence): every consumer
that only uses `cmp` — `sort`, `min`/`max`, `bsearch`, array subtraction — treats them alike -/
theorem cmp_congr (m : Mode) (a b c : Val) (ha : InDom m a = true) (hb : InDom m b = true)
    (hc : InDom m c = true) (h : cmp a b = .eq) : cmp a c = cmp b c ∧ cmp c a = cmp c b :=
  ⟨(val_order m).congr_left ha hb hc h, (val_order m).congr_right ha hb hc h⟩

theorem cmp_eq_trans (m : Mode) (a b c : Val) (ha : InDom m a = true) (hb : InDom m b = true)
    (hc : InDom m c = true) (h1 : cmp a b = .eq) (h2 : cmp b c = .eq) : cmp a c = .eq :=
  (val_order m).eq_trans ha hb hc h1 h2

/-- array subtraction `l - r` (look-up by `Ord`) does not see which representative of an
equivalence class is in `r` or in `l` -/
theorem sub_congr (m : Mode) (r : List Val) (x y : Val) (hx : InDom m x = true) (hy : InDom m y = true)
    (hr : ∀ v ∈ r, InDom m v = true) (h : cmp x y = .eq) :
    (r.any fun z => cmp z x == .eq) = (r.any fun z => cmp z y == .eq) := by
  induction r with
  | nil => rfl
  | cons z zs ih =>
    simp only [List.any_cons]
    rw [((cmp_congr m x y z hx hy (hr z (by simp)) h).2), ih (fun v hv => hr v (by simp [hv]))]

example : InDom .smallInts (.arr [.num (.int 1), .num (.float 0x3ff0000000000000), .obj [(.tstr [97], .num (.dec "1e0"))]]) = true := by
  decide
example : InDom .infFloats (.arr [.num (.int 9223372036854775807), .num (.float F64.negInf)]) = true := by
  decide

/-! ## 2. The documented sequence -/

/-- kinds: null < booleans < numbers < strings < arrays < objects -/
theorem kind_order (a b : Val) (h : a.rank < b.rank) : cmp a b = .lt := cmp_rank_lt h

theorem kinds_ranked :
    (Val.null).rank < (Val.bool false).rank ∧ ∀ (b : Bool) (n : Num) (s t : List UInt8) (a : List Val) (o : Entries),
      (Val.bool b).rank < (Val.num n).rank ∧ (Val.num n).rank < (Val.tstr s).rank ∧
      (Val.tstr s).rank = (Val.bstr t).rank ∧ (Val.bstr t).rank < (Val.arr a).rank ∧
      (Val.arr a).rank < (Val.obj o).rank := by
  refine ⟨by decide, fun _ _ _ _ _ _ => by simp [Val.rank]⟩

theorem false_lt_true : cmp (.bool false) (.bool true) = .lt := by decide

/-- numbers: -Infinity < every finite float < Infinity -/
theorem neg_inf_lt_finite_lt_inf (f : UInt64) (h : F64.isFinite f = true) :
    cmp (.num (.float F64.negInf)) (.num (.float f)) = .lt ∧
    cmp (.num (.float f)) (.num (.float F64.posInf)) = .lt := by
  have h1 := (cmp_finite_inf h (f := F64.negInf) (by decide)).2
  have h2 := (cmp_finite_inf h (f := F64.posInf) (by decide)).1
  have s1 : F64.signBit F64.negInf = true := by decide
  have s2 : F64.signBit F64.posInf = false := by decide
  rw [s1] at h1; rw [s2] at h2
  refine ⟨?_, ?_⟩
  · rw [cmp_num]; simpa [numCmp, Num.cmp, Num.undec] using h1
  · rw [cmp_num]; simpa [numCmp, Num.cmp, Num.undec] using h2

/-- ... and every integer whose conversion is finite lies strictly between the infinities -/
theorem neg_inf_lt_int_lt_inf (i : Int) (h : F64.isFinite (F64.ofInt i) = true) :
    cmp (.num (.float F64.negInf)) (.num (.int i)) = .lt ∧
    cmp (.num (.int i)) (.num (.float F64.posInf)) = .lt := by
  have h1 := (cmp_finite_inf h (f := F64.negInf) (by decide)).2
  have h2 := (cmp_finite_inf h (f := F64.posInf) (by decide)).1
  have s1 : F64.signBit F64.negInf = true := by decide
  have s2 : F64.signBit F64.posInf = false := by decide
  rw [s1] at h1; rw [s2] at h2
  refine ⟨?_, ?_⟩
  · rw [cmp_num]; simpa [numCmp, Num.cmp, Num.undec] using h1
  · rw [cmp_num]; simpa [numCmp, Num.cmp, Num.undec] using h2

/-- integers within ±2^53 and floats are ordered by one key: the conversion `i as f64` is exact
and strictly monotone there (derived from the integer arithmetic of `F64.roundRat`), so 1, 1.0 and
the literal `1e0` are the same point of the order, and integers compare like their float images -/
theorem small_int_float_one_key (a b : Num) (ha : Num.inMode .smallInts a = true)
    (hb : Num.inMode .smallInts b = true) : numCmp a b = compare (keyS a) (keyS b) :=
  numCmp_modeS ha hb

theorem small_int_conversion_monotone (x y : Int) (hx : x.natAbs ≤ 2 ^ 53) (hy : y.natAbs ≤ 2 ^ 53)
    (h : x < y) : fkey (F64.ofInt x) < fkey (F64.ofInt y) := by
  rw [(ofInt_small x hx).1, (ofInt_small y hy).1]; exact ik_strictMono hx hy h

/-- integers of any size compare exactly among themselves (machine or big representation) -/
theorem int_exact (x y : Int) :
    numCmp (.int x) (.int y) = compare x y ∧ numCmp (.int x) (.big y) = compare x y ∧
    numCmp (.big x) (.int y) = compare x y ∧ numCmp (.big x) (.big y) = compare x y := by
  simp [numCmp, Num.cmp, Num.undec]

/-- strings: bytewise, text and byte strings alike -/
theorem strings_bytewise (x y : List UInt8) :
    cmp (.tstr x) (.tstr y) = cmpBytes x y ∧ cmp (.tstr x) (.bstr y) = cmpBytes x y ∧
    cmp (.bstr x) (.tstr y) = cmpBytes x y ∧ cmp (.bstr x) (.bstr y) = cmpBytes x y :=
  ⟨cmp_str rfl rfl, cmp_str rfl rfl, cmp_str rfl rfl, cmp_str rfl rfl⟩

/-- arrays: lexicographic by the same order -/
theorem arrays_lexicographic (x y : List Val) : cmp (.arr x) (.arr y) = lexCmp cmp x y := cmp_arr x y

/-- objects: by the key sequence sorted by the same order, then by the values in that key order -/
theorem objects_by_sorted_keys_then_values (x y : Entries) :
    cmp (.obj x) (.obj y) =
      (lexCmp cmp (sortedKeys cmp x) (sortedKeys cmp y)).then
        (lexCmp cmp (sortedVals cmp x) (sortedVals cmp y)) := cmp_obj x y

/-- what "lexicographic" means: a proper prefix is smaller, otherwise the first difference decides -/
theorem lexicographic_spec {α : Type} (c : α → α → Ordering) (x y : α) (xs ys : List α) :
    lexCmp c [] [] = .eq ∧ lexCmp c [] (y :: ys) = .lt ∧ lexCmp c (x :: xs) [] = .gt ∧
    lexCmp c (x :: xs) (y :: ys) = (c x y).then (lexCmp c xs ys) :=
  ⟨rfl, rfl, rfl, lexCmp_cons_cons x y xs ys⟩

/-- object comparison does not depend on the insertion order of either operand when the keys
of each object are pairwise distinct under the order (then the sorted entry list is unique);
here: the sorted entry list is a permutation of the entries and is sorted -/
theorem object_entries_sorted (m : Mode) (o : Entries) (h : InDom m (.obj o) = true) :
    (sortedEntries o).Perm o ∧ Sorted (keyCmp cmp) (sortedEntries o) := by
  refine ⟨sortBy_perm o, ?_⟩
  have hk : TPO (fun e : Val × Val => InDom m e.1 = true) (keyCmp cmp) := (val_order m).comap Prod.fst
  exact sortBy_sorted hk o (fun e he => (allNums_obj.1 h e he).1)

/-! ## 3. `sort` -/

/-- `sort` returns a permutation of its input (any input) -/
theorem sort_perm (l : List Val) : (sort l).Perm l := sortBy_perm l

/-- ... that is sorted -/
theorem sort_sorted (m : Mode) (l : List Val) (h : ∀ v ∈ l, InDom m v = true) : Sorted cmp (sort l) :=
  sortBy_sorted (val_order m) l h

/-- ... and stable: the elements equivalent to any value keep their input order -/
theorem sort_stable (m : Mode) (l : List Val) (h : ∀ v ∈ l, InDom m v = true) (e : Val)
    (he : InDom m e = true) :
    (sort l).filter (fun y => cmp e y == .eq) = l.filter (fun y => cmp e y == .eq) :=
  sortBy_stable (val_order m) e he l h

example : sort [.tstr [98], .bstr [97], .bool true, .tstr [97], .null] =
    [.null, .bool true, .bstr [97], .tstr [97], .tstr [98]] := by rfl

/-! ## 4. Hashing agrees with equality -/

/-- floats that compare equal feed the same `Hasher` calls — provided `Num::hash` normalises zero
(the repair of F-08 is in the tree) or neither is the negative zero -/
theorem float_hash_coherent_partial (x y : UInt64) (h : F64.cmp x y = .eq)
    (g : Cfg.hashNormalisesZero = true ∨ (x ≠ F64.negZero ∧ y ≠ F64.negZero)) :
    numFeed (.float x) = numFeed (.float y) :=
  floatFeed_coherent h g

/-- once zero is normalised, no guard is needed -/
theorem float_hash_coherent_fixed (hfix : Cfg.hashNormalisesZero = true) (x y : UInt64)
    (h : F64.cmp x y = .eq) : numFeed (.float x) = numFeed (.float y) :=
  floatFeed_coherent h (Or.inl hfix)

/-- **finding F-08**: on a tree whose `Num::hash` does not normalise zero, `0` and `-0.0` are
`==` (and `cmp` says equal) but feed different bytes to the hasher; the look-up
`{(0):1,x:2} | has(-0.0)` fails -/
theorem neg_zero_witness (hopen : Cfg.hashNormalisesZero = false) :
    eq (.num (.int 0)) (.num (.float F64.negZero)) = true ∧
    cmp (.num (.int 0)) (.num (.float F64.negZero)) = .eq ∧
    feed (.num (.int 0)) ≠ feed (.num (.float F64.negZero)) ∧
    Obj.has (Obj.ofList [(.num (.int 0), .num (.int 1)), (.tstr [120], .num (.int 2))])
      (.num (.float F64.negZero)) = false := by
  have e1 : eq (.num (.int 0)) (.num (.float F64.negZero)) = true := by decide
  have e2 : feed (.num (.int 0)) = [.u8 0, .len 8, .f64 0] := by
    simp [feed, feedF, numFeed, floatFeed, hashedFloat, hopen, Val.size]; decide
  have e3 : feed (.num (.float F64.negZero)) = [.u8 0, .len 8, .f64 F64.negZero] := by
    simp [feed, feedF, numFeed, floatFeed, hashedFloat, hopen, Val.size]; decide
  have e4 : feed (.tstr [120]) = [.u8 5, .len 1, .bytes [120]] := by decide
  refine ⟨e1, ?_, ?_, ?_⟩
  · simp [cmp, cmpF, numCmp, Num.cmp, Num.undec, Val.size]; decide
  · rw [e2, e3]; decide
  · have o : Obj.ofList [(.num (.int 0), .num (.int 1)), (.tstr [120], .num (.int 2))] =
        [(.num (.int 0), .num (.int 1)), (.tstr [120], .num (.int 2))] := by
      simp only [Obj.ofList, Obj.extend, List.foldl, Obj.insert, hashedIdx, List.findIdx?_nil,
        List.findIdx?_cons, probe, e2, e4]
      rfl
    rw [o]
    simp only [Obj.has, Obj.get, getWith, getIdx, List.findIdx?_cons, List.findIdx?_nil, probe, e2, e3, e4]
    decide

set_option exponentiation.threshold 1100 in
set_option maxRecDepth 8000 in
/-- **finding F-08b**: on a tree whose `Num::cmp` converts big integers to `f64` before comparing
with a float, an integer beyond the `f64` range is neither `<`, `==` nor `>` infinity -/
theorem huge_int_witness (hopen : Cfg.hugeIntBelowInfinity = false) :
    cmp (.num (.big (2 ^ 1024))) (.num (.float F64.posInf)) = .eq ∧
    eq (.num (.big (2 ^ 1024))) (.num (.float F64.posInf)) = false ∧
    cmp (.num (.big (2 ^ 1024))) (.num (.big (2 ^ 1024 + 1))) = .lt ∧
    cmp (.num (.big (2 ^ 1024 + 1))) (.num (.float F64.posInf)) = .eq := by
  have h1 : F64.ofInt (2 ^ 1024) = F64.posInf := by decide
  have h2 : F64.ofInt (2 ^ 1024 + 1) = F64.posInf := by decide
  refine ⟨?_, by decide, ?_, ?_⟩
  · simp [cmp, cmpF, numCmp, hopen, Num.cmp, Num.undec, Val.size, h1]; decide
  · simp only [cmp, cmpF, numCmp, hopen, Num.cmp, Num.undec, Val.size]
    exact Int.compare_eq_lt.2 (by omega)
  · simp [cmp, cmpF, numCmp, hopen, Num.cmp, Num.undec, Val.size, h2]; decide

/-! ## 5. Stated, not proved (see design/notes/C08.md)

  * `eq_iff_cmp_eq  : InDom m a → InDom m b → WfKeys a → WfKeys b → NoNegZero a → NoNegZero b →
       (eq a b = true ↔ cmp a b = .eq)`            (trichotomy with `==`; on numbers it follows from
       `num_order` and `cmp_eq_imp`, on objects it needs "two strictly sorted key lists with the
       same classes are pointwise equal")
  * `hash_coherent  : eq a b = true → feed a = feed b`  on the same domain (numbers other than
       floats need `F64.ofInt i ≠ -0.0` for every `i`; arrays are elementwise; objects as above)
  * `has_congr / index_congr / insert_congr / extend_congr / merge_congr / update_congr /
     obj_eq_insertion_order_irrelevant / unique_congr / indices_congr / contains_congr`
       (each follows from `hash_coherent` + `eq` being an equivalence compatible with `cmp`).
  These are exercised on every run by the correspondence (model = code) together with the
  real-code oracle (`a == b` ⇒ equal `Hasher` calls and interchangeability in 19 templates).
-/

end Jaq.C08
