import JaqVerif.C08.Model

namespace Jaq.C08

theorem placeholder : cmp .null .null = .eq := by decide

end Jaq.C08
