/-
  C08 — comparison is one consistent total order; equal values are interchangeable keys.

  Theorems about the impl-model `JaqVerif/C08/Model.lean` (`cmp` = `impl Ord for Val`,
  `numCmp` = `impl Ord for Num`, `sort` = `Vec::sort`, `feed`/`floatFeed` = the `Hasher` calls of
  `impl Hash`), tied to `/repo/jaq-json/src/{lib,num,funs}.rs` and `/repo/jaq-std/src/lib.rs` by the
  correspondence of `bin/check C08`.

  Domain (the property's two side conditions, as decidable predicates of the model file):
  `InDom m v` for one `m : Mode` shared by all values that are compared with each other =
  `NaNFree v` ∧ the `BigVsFloatGuard` (mode `smallInts`: all integers within ±2^53; mode
  `infFloats`: all floats infinite) ∧, in mode `infFloats` while finding F-08b is open, no integer
  whose conversion to `f64` overflows (`NoHugeInt`; the witness below shows it is needed).

  Proved without the switches of `Gen/C08Cfg.lean` being unfolded: every theorem holds for the
  tree before and after the repairs of F-08 / F-08b; the two `_witness` theorems are stated under
  the hypothesis that the repair is *not* in the tree.
-/
import JaqVerif.Lemmas.C08Hash
import JaqVerif.Lemmas.C08Val
import JaqVerif.Lemmas.C08Eq
import JaqVerif.Lemmas.C08Arr
import JaqVerif.Lemmas.C08Contains

namespace Jaq.C08
open Jaq

/-! ## 1. One total preorder -/

/-- what `InDom` says, in the property's words -/
theorem inDom_iff (m : Mode) (v : Val) :
    InDom m v = true →
      NaNFree v = true ∧
      (m = .smallInts → allNums Num.smallInt v = true) ∧
      (m = .infFloats → allNums Num.infFloat v = true ∧ NoHugeInt v = true) := by
  intro h
  refine ⟨allNums_imp (fun n hn => ?_) h, fun hm => allNums_imp (fun n hn => ?_) h,
    fun hm => ⟨allNums_imp (fun n hn => ?_) h, allNums_imp (fun n hn => ?_) h⟩⟩
  · cases m <;> simp only [Num.inMode, Bool.and_eq_true] at hn
    · exact hn.1
    · exact hn.1.1
  · subst hm; simp only [Num.inMode, Bool.and_eq_true] at hn; exact hn.2
  · subst hm; simp only [Num.inMode, Bool.and_eq_true] at hn; exact hn.1.2
  · subst hm; simp only [Num.inMode, Bool.and_eq_true] at hn; exact hn.2

/-- and conversely: a NaN-free value satisfying the guard of mode `m` is in the domain -/
theorem inDom_of (m : Mode) (v : Val) (h1 : NaNFree v = true)
    (h2 : m = .smallInts → allNums Num.smallInt v = true)
    (h3 : m = .infFloats → allNums Num.infFloat v = true ∧ NoHugeInt v = true) : InDom m v = true := by
  have key : ∀ (k : Nat) (v : Val), v.size ≤ k → NaNFree v = true →
      (m = .smallInts → allNums Num.smallInt v = true) →
      (m = .infFloats → allNums Num.infFloat v = true ∧ NoHugeInt v = true) → InDom m v = true := by
    intro k
    induction k with
    | zero => intro v hs; have := v.size_pos; omega
    | succ k ih =>
      intro v hs h1 h2 h3
      unfold InDom NaNFree NoHugeInt at *
      cases v with
      | num n =>
        simp only [allNums] at *
        cases m
        · simp [Num.inMode, h1, h2 rfl]
        · simp [Num.inMode, h1, (h3 rfl).1, (h3 rfl).2]
      | arr a =>
        rw [allNums_arr] at h1 ⊢
        intro x hx
        have := Val.size_lt_of_mem hx
        simp only [Val.size] at hs
        exact ih x (by omega) (h1 x hx) (fun hm => allNums_arr.1 (h2 hm) x hx)
          (fun hm => ⟨allNums_arr.1 (h3 hm).1 x hx, allNums_arr.1 (h3 hm).2 x hx⟩)
      | obj o =>
        rw [allNums_obj] at h1 ⊢
        intro e he
        have := Val.size_entry_of_mem (k := e.1) (v := e.2) he
        simp only [Val.size] at hs
        exact ⟨ih e.1 (by omega) (h1 e he).1 (fun hm => (allNums_obj.1 (h2 hm) e he).1)
            (fun hm => ⟨(allNums_obj.1 (h3 hm).1 e he).1, (allNums_obj.1 (h3 hm).2 e he).1⟩),
          ih e.2 (by omega) (h1 e he).2 (fun hm => (allNums_obj.1 (h2 hm) e he).2)
            (fun hm => ⟨(allNums_obj.1 (h3 hm).1 e he).2, (allNums_obj.1 (h3 hm).2 e he).2⟩)⟩
      | null => simp [allNums]
      | bool => simp [allNums]
      | bstr => simp [allNums]
      | tstr => simp [allNums]
  exact key v.size v (Nat.le_refl _) h1 h2 h3

/-- `impl Ord for Num` is a total preorder on the numbers of each mode -/
theorem num_order (m : Mode) : TPO (fun n => Num.inMode m n = true) numCmp := numCmp_tpo m

/-- **`impl Ord for Val` is a total preorder on the property's domain** (all sizes, all depths) -/
theorem val_order (m : Mode) : TPO (fun v => InDom m v = true) cmp := cmp_tpo (numCmp_tpo m)

theorem cmp_refl (m : Mode) (a : Val) (ha : InDom m a = true) : cmp a a = .eq :=
  (val_order m).refl a ha

/-- antisymmetry and totality: the two directions of a comparison are mirror images, so exactly
one of `a < b`, `a ≡ b`, `a > b` holds and it determines the result of `cmp b a` -/
theorem cmp_antisymm (m : Mode) (a b : Val) (ha : InDom m a = true) (hb : InDom m b = true) :
    cmp b a = (cmp a b).swap :=
  (val_order m).swap a b ha hb

theorem cmp_total (m : Mode) (a b : Val) (ha : InDom m a = true) (hb : InDom m b = true) :
    cmp a b ≠ .gt ∨ cmp b a ≠ .gt := by
  rw [cmp_antisymm m a b ha hb]; cases cmp a b <;> simp [Ordering.swap]

/-- transitivity of `≤` -/
theorem cmp_trans (m : Mode) (a b c : Val) (ha : InDom m a = true) (hb : InDom m b = true)
    (hc : InDom m c = true) (h1 : cmp a b ≠ .gt) (h2 : cmp b c ≠ .gt) : cmp a c ≠ .gt :=
  (val_order m).trans a b c ha hb hc h1 h2

/-- transitivity of `<` and its mixed forms -/
theorem cmp_lt_trans (m : Mode) (a b c : Val) (ha : InDom m a = true) (hb : InDom m b = true)
    (hc : InDom m c = true) (h1 : cmp a b = .lt) (h2 : cmp b c ≠ .gt) : cmp a c = .lt :=
  (val_order m).lt_of_lt_of_le ha hb hc h1 h2

theorem cmp_le_lt_trans (m : Mode) (a b c : Val) (ha : InDom m a = true) (hb : InDom m b = true)
    (hc : InDom m c = true) (h1 : cmp a b ≠ .gt) (h2 : cmp b c = .lt) : cmp a c = .lt :=
  (val_order m).lt_of_le_of_lt ha hb hc h1 h2

/-- values that compare equal are indistinguishable by the order (congruence): every consumer
that only uses `cmp` — `sort`, `min`/`max`, `bsearch`, array subtraction — treats them alike -/
theorem cmp_congr (m : Mode) (a b c : Val) (ha : InDom m a = true) (hb : InDom m b = true)
    (hc : InDom m c = true) (h : cmp a b = .eq) : cmp a c = cmp b c ∧ cmp c a = cmp c b :=
  ⟨(val_order m).congr_left ha hb hc h, (val_order m).congr_right ha hb hc h⟩

theorem cmp_eq_trans (m : Mode) (a b c : Val) (ha : InDom m a = true) (hb : InDom m b = true)
    (hc : InDom m c = true) (h1 : cmp a b = .eq) (h2 : cmp b c = .eq) : cmp a c = .eq :=
  (val_order m).eq_trans ha hb hc h1 h2

/-- array subtraction `l - r` (look-up by `Ord`) does not see which representative of an
equivalence class is in `r` or in `l` -/
theorem sub_congr (m : Mode) (r : List Val) (x y : Val) (hx : InDom m x = true) (hy : InDom m y = true)
    (hr : ∀ v ∈ r, InDom m v = true) (h : cmp x y = .eq) :
    (r.any fun z => cmp z x == .eq) = (r.any fun z => cmp z y == .eq) := by
  induction r with
  | nil => rfl
  | cons z zs ih =>
    simp only [List.any_cons]
    rw [((cmp_congr m x y z hx hy (hr z (by simp)) h).2), ih (fun v hv => hr v (by simp [hv]))]

example : InDom .smallInts (.arr [.num (.int 1), .num (.float 0x3ff0000000000000), .obj [(.tstr [97], .num (.dec "1e0"))]]) = true := by
  decide
example : InDom .infFloats (.arr [.num (.int 9223372036854775807), .num (.float F64.negInf)]) = true := by
  decide

/-! ## 2. The documented sequence -/

/-- kinds: null < booleans < numbers < strings < arrays < objects -/
theorem kind_order (a b : Val) (h : a.rank < b.rank) : cmp a b = .lt := cmp_rank_lt h

theorem kinds_ranked :
    (Val.null).rank < (Val.bool false).rank ∧ ∀ (b : Bool) (n : Num) (s t : List UInt8) (a : List Val) (o : Entries),
      (Val.bool b).rank < (Val.num n).rank ∧ (Val.num n).rank < (Val.tstr s).rank ∧
      (Val.tstr s).rank = (Val.bstr t).rank ∧ (Val.bstr t).rank < (Val.arr a).rank ∧
      (Val.arr a).rank < (Val.obj o).rank := by
  refine ⟨by decide, fun _ _ _ _ _ _ => by simp [Val.rank]⟩

theorem false_lt_true : cmp (.bool false) (.bool true) = .lt := by decide

/-- numbers: -Infinity < every finite float < Infinity -/
theorem neg_inf_lt_finite_lt_inf (f : UInt64) (h : F64.isFinite f = true) :
    cmp (.num (.float F64.negInf)) (.num (.float f)) = .lt ∧
    cmp (.num (.float f)) (.num (.float F64.posInf)) = .lt := by
  have h1 := (cmp_finite_inf h (f := F64.negInf) (by decide)).2
  have h2 := (cmp_finite_inf h (f := F64.posInf) (by decide)).1
  have s1 : F64.signBit F64.negInf = true := by decide
  have s2 : F64.signBit F64.posInf = false := by decide
  rw [s1] at h1; rw [s2] at h2
  refine ⟨?_, ?_⟩
  · rw [cmp_num]; simpa [numCmp, Num.cmp, Num.undec] using h1
  · rw [cmp_num]; simpa [numCmp, Num.cmp, Num.undec] using h2

/-- ... and every integer whose conversion is finite lies strictly between the infinities -/
theorem neg_inf_lt_int_lt_inf (i : Int) (h : F64.isFinite (F64.ofInt i) = true) :
    cmp (.num (.float F64.negInf)) (.num (.int i)) = .lt ∧
    cmp (.num (.int i)) (.num (.float F64.posInf)) = .lt := by
  have h1 := (cmp_finite_inf h (f := F64.negInf) (by decide)).2
  have h2 := (cmp_finite_inf h (f := F64.posInf) (by decide)).1
  have s1 : F64.signBit F64.negInf = true := by decide
  have s2 : F64.signBit F64.posInf = false := by decide
  rw [s1] at h1; rw [s2] at h2
  refine ⟨?_, ?_⟩
  · rw [cmp_num]; simpa [numCmp, Num.cmp, Num.undec] using h1
  · rw [cmp_num]; simpa [numCmp, Num.cmp, Num.undec] using h2

/-- integers within ±2^53 and floats are ordered by one key: the conversion `i as f64` is exact
and strictly monotone there (derived from the integer arithmetic of `F64.roundRat`), so 1, 1.0 and
the literal `1e0` are the same point of the order, and integers compare like their float images -/
theorem small_int_float_one_key (a b : Num) (ha : Num.inMode .smallInts a = true)
    (hb : Num.inMode .smallInts b = true) : numCmp a b = compare (keyS a) (keyS b) :=
  numCmp_modeS ha hb

theorem small_int_conversion_monotone (x y : Int) (hx : x.natAbs ≤ 2 ^ 53) (hy : y.natAbs ≤ 2 ^ 53)
    (h : x < y) : fkey (F64.ofInt x) < fkey (F64.ofInt y) := by
  rw [(ofInt_small x hx).1, (ofInt_small y hy).1]; exact ik_strictMono hx hy h

/-- integers of any size compare exactly among themselves (machine or big representation) -/
theorem int_exact (x y : Int) :
    numCmp (.int x) (.int y) = compare x y ∧ numCmp (.int x) (.big y) = compare x y ∧
    numCmp (.big x) (.int y) = compare x y ∧ numCmp (.big x) (.big y) = compare x y := by
  simp [numCmp, Num.cmp, Num.undec]

/-- strings: bytewise, text and byte strings alike -/
theorem strings_bytewise (x y : List UInt8) :
    cmp (.tstr x) (.tstr y) = cmpBytes x y ∧ cmp (.tstr x) (.bstr y) = cmpBytes x y ∧
    cmp (.bstr x) (.tstr y) = cmpBytes x y ∧ cmp (.bstr x) (.bstr y) = cmpBytes x y :=
  ⟨cmp_str rfl rfl, cmp_str rfl rfl, cmp_str rfl rfl, cmp_str rfl rfl⟩

/-- arrays: lexicographic by the same order -/
theorem arrays_lexicographic (x y : List Val) : cmp (.arr x) (.arr y) = lexCmp cmp x y := cmp_arr x y

/-- objects: by the key sequence sorted by the same order, then by the values in that key order -/
theorem objects_by_sorted_keys_then_values (x y : Entries) :
    cmp (.obj x) (.obj y) =
      (lexCmp cmp (sortedKeys cmp x) (sortedKeys cmp y)).then
        (lexCmp cmp (sortedVals cmp x) (sortedVals cmp y)) := cmp_obj x y

/-- what "lexicographic" means: a proper prefix is smaller, otherwise the first difference decides -/
theorem lexicographic_spec {α : Type} (c : α → α → Ordering) (x y : α) (xs ys : List α) :
    lexCmp c [] [] = .eq ∧ lexCmp c [] (y :: ys) = .lt ∧ lexCmp c (x :: xs) [] = .gt ∧
    lexCmp c (x :: xs) (y :: ys) = (c x y).then (lexCmp c xs ys) :=
  ⟨rfl, rfl, rfl, lexCmp_cons_cons x y xs ys⟩

/-- object comparison does not depend on the insertion order of either operand when the keys
of each object are pairwise distinct under the order (then the sorted entry list is unique);
here: the sorted entry list is a permutation of the entries and is sorted -/
theorem object_entries_sorted (m : Mode) (o : Entries) (h : InDom m (.obj o) = true) :
    (sortedEntries o).Perm o ∧ Sorted (keyCmp cmp) (sortedEntries o) := by
  refine ⟨sortBy_perm o, ?_⟩
  have hk : TPO (fun e : Val × Val => InDom m e.1 = true) (keyCmp cmp) := (val_order m).comap Prod.fst
  exact sortBy_sorted hk o (fun e he => (allNums_obj.1 h e he).1)

/-! ## 3. `sort` -/

/-- `sort` returns a permutation of its input (any input) -/
theorem sort_perm (l : List Val) : (sort l).Perm l := sortBy_perm l

/-- ... that is sorted -/
theorem sort_sorted (m : Mode) (l : List Val) (h : ∀ v ∈ l, InDom m v = true) : Sorted cmp (sort l) :=
  sortBy_sorted (val_order m) l h

/-- ... and stable: the elements equivalent to any value keep their input order -/
theorem sort_stable (m : Mode) (l : List Val) (h : ∀ v ∈ l, InDom m v = true) (e : Val)
    (he : InDom m e = true) :
    (sort l).filter (fun y => cmp e y == .eq) = l.filter (fun y => cmp e y == .eq) :=
  sortBy_stable (val_order m) e he l h

example : sort [.tstr [98], .bstr [97], .bool true, .tstr [97], .null] =
    [.null, .bool true, .bstr [97], .tstr [97], .tstr [98]] := by rfl

/-! ## 4. Hashing agrees with equality -/

/-- floats that compare equal feed the same `Hasher` calls — provided `Num::hash` normalises zero
(the repair of F-08 is in the tree) or neither is the negative zero -/
theorem float_hash_coherent_partial (x y : UInt64) (h : F64.cmp x y = .eq)
    (g : Cfg.hashNormalisesZero = true ∨ (x ≠ F64.negZero ∧ y ≠ F64.negZero)) :
    numFeed (.float x) = numFeed (.float y) :=
  floatFeed_coherent h g

/-- once zero is normalised, no guard is needed -/
theorem float_hash_coherent_fixed (hfix : Cfg.hashNormalisesZero = true) (x y : UInt64)
    (h : F64.cmp x y = .eq) : numFeed (.float x) = numFeed (.float y) :=
  floatFeed_coherent h (Or.inl hfix)

/-- **finding F-08**: on a tree whose `Num::hash` does not normalise zero, `0` and `-0.0` are
`==` (and `cmp` says equal) but feed different bytes to the hasher; the look-up
`{(0):1,x:2} | has(-0.0)` fails -/
theorem neg_zero_witness (hopen : Cfg.hashNormalisesZero = false) :
    eq (.num (.int 0)) (.num (.float F64.negZero)) = true ∧
    cmp (.num (.int 0)) (.num (.float F64.negZero)) = .eq ∧
    feed (.num (.int 0)) ≠ feed (.num (.float F64.negZero)) ∧
    Obj.has (Obj.ofList [(.num (.int 0), .num (.int 1)), (.tstr [120], .num (.int 2))])
      (.num (.float F64.negZero)) = false := by
  have e1 : eq (.num (.int 0)) (.num (.float F64.negZero)) = true := by decide
  have e2 : feed (.num (.int 0)) = [.u8 0, .len 8, .f64 0] := by
    simp [feed, feedF, numFeed, floatFeed, hashedFloat, hopen, Val.size]; decide
  have e3 : feed (.num (.float F64.negZero)) = [.u8 0, .len 8, .f64 F64.negZero] := by
    simp [feed, feedF, numFeed, floatFeed, hashedFloat, hopen, Val.size]; decide
  have e4 : feed (.tstr [120]) = [.u8 5, .len 1, .bytes [120]] := by decide
  refine ⟨e1, ?_, ?_, ?_⟩
  · simp [cmp, cmpF, numCmp, Num.cmp, Num.undec, Val.size]; decide
  · rw [e2, e3]; decide
  · have o : Obj.ofList [(.num (.int 0), .num (.int 1)), (.tstr [120], .num (.int 2))] =
        [(.num (.int 0), .num (.int 1)), (.tstr [120], .num (.int 2))] := by
      simp only [Obj.ofList, Obj.extend, List.foldl, Obj.insert, hashedIdx, List.findIdx?_nil,
        List.findIdx?_cons, probe, e2, e4]
      rfl
    rw [o]
    simp only [Obj.has, Obj.get, getWith, getIdx, List.findIdx?_cons, List.findIdx?_nil, probe, e2, e3, e4]
    decide

set_option exponentiation.threshold 1100 in
set_option maxRecDepth 8000 in
/-- **finding F-08b**: on a tree whose `Num::cmp` converts big integers to `f64` before comparing
with a float, an integer beyond the `f64` range is neither `<`, `==` nor `>` infinity -/
theorem huge_int_witness (hopen : Cfg.hugeIntBelowInfinity = false) :
    cmp (.num (.big (2 ^ 1024))) (.num (.float F64.posInf)) = .eq ∧
    eq (.num (.big (2 ^ 1024))) (.num (.float F64.posInf)) = false ∧
    cmp (.num (.big (2 ^ 1024))) (.num (.big (2 ^ 1024 + 1))) = .lt ∧
    cmp (.num (.big (2 ^ 1024 + 1))) (.num (.float F64.posInf)) = .eq := by
  have h1 : F64.ofInt (2 ^ 1024) = F64.posInf := by decide
  have h2 : F64.ofInt (2 ^ 1024 + 1) = F64.posInf := by decide
  refine ⟨?_, by decide, ?_, ?_⟩
  · simp [cmp, cmpF, numCmp, hopen, Num.cmp, Num.undec, Val.size, h1]; decide
  · simp only [cmp, cmpF, numCmp, hopen, Num.cmp, Num.undec, Val.size]
    exact Int.compare_eq_lt.2 (by omega)
  · simp [cmp, cmpF, numCmp, hopen, Num.cmp, Num.undec, Val.size, h2]; decide

/-! ## 5. The repaired configuration: the property's domain without `NoHugeInt` (round 2)

`InDomR m v` = NaN-free ∧ the `BigVsFloatGuard` of mode `m` ∧ machine integers fit an `isize`
(the type invariant of `Num::Int(isize)`; the model's `Int` is unbounded).  On a tree with the
repair of F-08b (`Cfg.hugeIntBelowInfinity`, read off the real code on every run) this is all the
order theorems need: integers beyond the `f64` range are inside the domain. -/

/-- on a tree with the repair of F-08b every value of the property's domain is in `InDom` -/
theorem inDom_of_fixed (hh : Cfg.hugeIntBelowInfinity = true) (m : Mode) (v : Val)
    (h : InDomR m v = true) : InDom m v = true := inDom_of_inDomR hh h

/-- **`impl Ord for Val` is a total preorder on the property's domain, no `NoHugeInt`** (repaired
configuration; all the corollaries of §1 and §3 follow through `inDom_of_fixed`) -/
theorem val_order_fixed (hh : Cfg.hugeIntBelowInfinity = true) (m : Mode) :
    TPO (fun v => InDomR m v = true) cmp :=
  (val_order m).mono (fun v hv => inDom_of_fixed hh m v hv)

/-- `sort` on the repaired configuration: a stably sorted permutation, no `NoHugeInt` -/
theorem sort_fixed (hh : Cfg.hugeIntBelowInfinity = true) (m : Mode) (l : List Val)
    (h : ∀ v ∈ l, InDomR m v = true) :
    (sort l).Perm l ∧ Sorted cmp (sort l) ∧
    ∀ e, InDomR m e = true → (sort l).filter (fun y => cmp e y == .eq) = l.filter (fun y => cmp e y == .eq) :=
  ⟨sort_perm l, sort_sorted m l (fun v hv => inDom_of_fixed hh m v (h v hv)),
   fun e he => sort_stable m l (fun v hv => inDom_of_fixed hh m v (h v hv)) e (inDom_of_fixed hh m e he)⟩

set_option exponentiation.threshold 1100 in
/-- the repaired domain contains integers beyond the `f64` range next to the infinities -/
example : InDomR .infFloats (.arr [.num (.big (2 ^ 1024)), .num (.float F64.posInf), .num (.int (-5))]) = true := by
  decide

/-! ## 6. `==` is the order's `Equal` (trichotomy); hashing agrees with `==` (round 2)

`WfKeys v`: every object inside `v` (at any depth, also inside keys) has pairwise non-equivalent
keys — the invariant of `IndexMap` (the model's `Val.obj` is a raw association list); `Obj.insert`,
`Obj.extend`, `Obj.ofList` preserve it (§7).  `NoNegZero v` is the guard of finding F-08: no `-0.0`
inside `v` unless `Num::hash` normalises zero.  All sizes, all depths. -/

/-- `==` (`impl PartialEq for Val`, with `IndexMap`'s hashed equality on objects) holds iff
`Ord` says `Equal`.  Guards: `NoNegZero` (F-08) and, inside `InDom`, `NoHugeInt` (F-08b). -/
theorem eq_iff_cmp_eq_partial (m : Mode) (a b : Val)
    (ha : InDom m a = true) (hb : InDom m b = true) (ka : WfKeys a = true) (kb : WfKeys b = true)
    (za : NoNegZero a = true) (zb : NoNegZero b = true) : eq a b = true ↔ cmp a b = .eq :=
  eq_iff_cmp ⟨ha, ka, za⟩ ⟨hb, kb, zb⟩

/-- **`==` iff `Ord` says `Equal`, on the property's whole domain** (repaired configuration) -/
theorem eq_iff_cmp_eq (hz : Cfg.hashNormalisesZero = true) (hh : Cfg.hugeIntBelowInfinity = true)
    (m : Mode) (a b : Val) (ha : InDomR m a = true) (hb : InDomR m b = true)
    (ka : WfKeys a = true) (kb : WfKeys b = true) : eq a b = true ↔ cmp a b = .eq :=
  eq_iff_cmp (good_of_fixed hz hh ha ka) (good_of_fixed hz hh hb kb)

/-- **trichotomy: exactly one of `a < b`, `a == b`, `a > b`** (repaired configuration) -/
theorem trichotomy (hz : Cfg.hashNormalisesZero = true) (hh : Cfg.hugeIntBelowInfinity = true)
    (m : Mode) (a b : Val) (ha : InDomR m a = true) (hb : InDomR m b = true)
    (ka : WfKeys a = true) (kb : WfKeys b = true) :
    (cmp a b = .lt ∧ eq a b = false ∧ cmp b a = .gt) ∨
    (cmp a b = .eq ∧ eq a b = true ∧ cmp b a = .eq) ∨
    (cmp a b = .gt ∧ eq a b = false ∧ cmp b a = .lt) := by
  have h := eq_iff_cmp_eq hz hh m a b ha hb ka kb
  have hs := (val_order_fixed hh m).swap a b ha hb
  cases hc : cmp a b with
  | lt =>
    refine Or.inl ⟨rfl, ?_, by rw [hs, hc]; rfl⟩
    cases he : eq a b with
    | false => rfl
    | true => rw [h.1 he] at hc; cases hc
  | eq => exact Or.inr (Or.inl ⟨rfl, h.2 hc, by rw [hs, hc]; rfl⟩)
  | gt =>
    refine Or.inr (Or.inr ⟨rfl, ?_, by rw [hs, hc]; rfl⟩)
    cases he : eq a b with
    | false => rfl
    | true => rw [h.1 he] at hc; cases hc

/-- the same with the guards of the pinned tree (holds in both configurations) -/
theorem trichotomy_partial (m : Mode) (a b : Val)
    (ha : InDom m a = true) (hb : InDom m b = true) (ka : WfKeys a = true) (kb : WfKeys b = true)
    (za : NoNegZero a = true) (zb : NoNegZero b = true) :
    (cmp a b = .lt ∧ eq a b = false) ∨ (cmp a b = .eq ∧ eq a b = true) ∨ (cmp a b = .gt ∧ eq a b = false) := by
  have h := eq_iff_cmp_eq_partial m a b ha hb ka kb za zb
  cases hc : cmp a b with
  | lt =>
    refine Or.inl ⟨rfl, ?_⟩
    cases he : eq a b with
    | false => rfl
    | true => rw [h.1 he] at hc; cases hc
  | eq => exact Or.inr (Or.inl ⟨rfl, h.2 hc⟩)
  | gt =>
    refine Or.inr (Or.inr ⟨rfl, ?_⟩)
    cases he : eq a b with
    | false => rfl
    | true => rw [h.1 he] at hc; cases hc

/-- numbers that are `==` make the same `Hasher` calls, whatever their representations: machine
integer, big integer, float, decimal literal; `0`, `0.0`, `-0.0` once zero is normalised.
(`Num.convFinite`: the conversion of a machine integer is finite — true for every `isize`,
`ofInt_finite_of_wf`.) -/
theorem num_hash_coherent_partial (a b : Num) (h : Num.eq a b = true)
    (ha : Num.convFinite a = true) (hb : Num.convFinite b = true)
    (za : Num.noNegZero a = true) (zb : Num.noNegZero b = true) : numFeed a = numFeed b :=
  numFeed_coherent h ha hb za zb

/-- `i as f64` is never `-0.0`, and finite for every machine integer -/
theorem int_conversion_facts (i : Int) :
    F64.ofInt i ≠ F64.negZero ∧ F64.isNaN (F64.ofInt i) = false ∧
    (fitsIsize i = true → F64.isFinite (F64.ofInt i) = true) :=
  ⟨ofInt_ne_negZero i, ofInt_not_nan i, ofInt_finite_of_wf i⟩

/-- hash coherence with the guards of the pinned tree (holds in both configurations): values that
are `==` make the same `Hasher` calls — numbers of every representation, text vs byte strings,
arrays, objects independent of insertion order.  Without `NoNegZero`: `neg_zero_witness`. -/
theorem hash_coherent_partial (m : Mode) (a b : Val)
    (ha : InDom m a = true) (hb : InDom m b = true) (ka : WfKeys a = true) (kb : WfKeys b = true)
    (za : NoNegZero a = true) (zb : NoNegZero b = true) (h : eq a b = true) : feed a = feed b :=
  feed_of_eq ⟨ha, ka, za⟩ ⟨hb, kb, zb⟩ h

/-- **hash coherence on the property's whole domain** (repaired configuration):
`a == b → a` and `b` make the same `Hasher` calls -/
theorem hash_coherent (hz : Cfg.hashNormalisesZero = true) (hh : Cfg.hugeIntBelowInfinity = true)
    (m : Mode) (a b : Val) (ha : InDomR m a = true) (hb : InDomR m b = true)
    (ka : WfKeys a = true) (kb : WfKeys b = true) (h : eq a b = true) : feed a = feed b :=
  feed_of_eq (good_of_fixed hz hh ha ka) (good_of_fixed hz hh hb kb) h

/-- a non-trivial instance of the hypotheses: `{"a":1, "b":[1.0, "x"]}` against the same object
built in the other insertion order with other representations (`1.0` for `1`, the literal `1e0`
for `1.0`, a byte string for the text string) -/
example :
    let a : Val := .obj [(.tstr [97], .num (.int 1)), (.tstr [98], .arr [.num (.float 0x3ff0000000000000), .tstr [120]])]
    let b : Val := .obj [(.bstr [98], .arr [.num (.dec "1e0"), .bstr [120]]), (.tstr [97], .num (.float 0x3ff0000000000000))]
    InDomR .smallInts a = true ∧ InDomR .smallInts b = true ∧ WfKeys a = true ∧ WfKeys b = true ∧
    eq a b = true := by
  decide

/-! ## 7. Values that are `==` are interchangeable (round 2)

Vocabulary (defined in `Lemmas/C08Eq.lean`, `Lemmas/C08Cong.lean`, spelled out by `good_iff`,
`eqv_iff`, `keysEqv_iff`):
`Good m v`      = `InDom m v ∧ WfKeys v ∧ NoNegZero v` (on the repaired tree: `InDomR m v ∧ WfKeys v`,
                  `good_fixed`);
`Eqv m a b`     = `Good m a ∧ Good m b ∧ a == b`;
`All2 R l l'`   = the lists have the same length and are related by `R` position by position;
`KeysEqv m R o o'` = entry lists that agree position by position up to `==` of the keys, with the
                  values related by `R` ("some keys were replaced by `==` ones").
`OptRel R` lifts `R` to optional results (both absent, or both present and related). -/

theorem good_iff (m : Mode) (v : Val) :
    Good m v ↔ InDom m v = true ∧ WfKeys v = true ∧ NoNegZero v = true :=
  ⟨fun g => ⟨g.dom, g.keys, g.nz⟩, fun ⟨a, b, c⟩ => ⟨a, b, c⟩⟩

/-- on the repaired tree the hypotheses are: the property's domain and the `IndexMap` invariant -/
theorem good_fixed (hz : Cfg.hashNormalisesZero = true) (hh : Cfg.hugeIntBelowInfinity = true)
    (m : Mode) (v : Val) (hd : InDomR m v = true) (hk : WfKeys v = true) : Good m v :=
  good_of_fixed hz hh hd hk

theorem eqv_iff (m : Mode) (a b : Val) : Eqv m a b ↔ Good m a ∧ Good m b ∧ eq a b = true :=
  ⟨fun h => ⟨h.ga, h.gb, h.e⟩, fun ⟨x, y, z⟩ => ⟨x, y, z⟩⟩

theorem keysEqv_iff (m : Mode) (R : Val → Val → Prop) (o o' : Entries) :
    KeysEqv m R o o' ↔ All2 (fun p q => Eqv m p.1 q.1 ∧ R p.2 q.2) o o' := Iff.rfl

/-- a non-trivial instance: `1` and `1.0` are `Eqv`; `{(1):"a"}` and `{(1.0):"a"}` are `KeysEqv` -/
example : Eqv .smallInts (.num (.int 1)) (.num (.float 0x3ff0000000000000)) ∧
    KeysEqv .smallInts Eq [(.num (.int 1), .tstr [97])] [(.num (.float 0x3ff0000000000000), .tstr [97])] := by
  have e : Eqv .smallInts (.num (.int 1)) (.num (.float 0x3ff0000000000000)) :=
    ⟨⟨by decide, by decide, by simp [NoNegZero, allNums, Num.noNegZero]⟩,
     ⟨by decide, by decide, by
        have : (0x3ff0000000000000 : UInt64) ≠ F64.negZero := by decide
        simp [NoNegZero, allNums, Num.noNegZero, this]⟩, by decide⟩
  exact ⟨e, ⟨e, rfl⟩, trivial⟩

/-- `==` is an equivalence relation on the domain -/
theorem eqv_equivalence (m : Mode) :
    (∀ a, Good m a → Eqv m a a) ∧ (∀ a b, Eqv m a b → Eqv m b a) ∧
    (∀ a b c, Eqv m a b → Eqv m b c → Eqv m a c) :=
  ⟨fun _ g => Eqv.refl g, fun _ _ h => h.symm, fun _ _ _ h1 h2 => h1.trans h2⟩

/-- ... and a congruence for everything the look-ups consult: the order, `==`, and the
`Hasher` calls -/
theorem eqv_indistinguishable (m : Mode) (a a' b b' : Val) (h1 : Eqv m a a') (h2 : Eqv m b b') :
    cmp a b = cmp a' b' ∧ eq a b = eq a' b' ∧ feed a = feed a' :=
  ⟨Eqv.cmp_congr h1 h2, Eqv.eq_congr h1 h2, h1.feed_eq⟩

/-- `.[$k]` / `has($k)`: looking up a key that is `==` gives the same result (the same entry) -/
theorem get_has_congr (m : Mode) (o : Entries) (k k' : Val) (g : Good m (.obj o)) (hk : Eqv m k k') :
    Obj.get o k = Obj.get o k' ∧ Obj.has o k = Obj.has o k' := by
  have hr : KeysEqv m Eq o o := KeysEqv.refl_of (fun p hp => (g.obj p hp).1) (fun _ _ => rfl)
  refine ⟨?_, has_all2 hr hk⟩
  have := get_all2 hr hk
  revert this
  cases Obj.get o k <;> cases Obj.get o k' <;> simp [OptRel]

/-- ... also when keys inside the object were replaced by `==` ones -/
theorem get_has_congr_entries (m : Mode) (R : Val → Val → Prop) (o o' : Entries) (k k' : Val)
    (h : KeysEqv m R o o') (hk : Eqv m k k') :
    OptRel R (Obj.get o k) (Obj.get o' k') ∧ Obj.has o k = Obj.has o' k' :=
  ⟨get_all2 h hk, has_all2 h hk⟩

/-- `IndexMap::insert` (object construction, `.[$k] = v`): a key that is `==` hits the same slot -/
theorem insert_congr (m : Mode) (R : Val → Val → Prop) (o o' : Entries) (k k' v v' : Val)
    (h : KeysEqv m R o o') (hk : Eqv m k k') (hv : R v v') :
    KeysEqv m R (Obj.insert o k v) (Obj.insert o' k' v') := insert_all2 h hk hv

/-- object `+` (`IndexMap::extend`) and object construction (`Obj.ofList = extend []`) -/
theorem extend_congr (m : Mode) (R : Val → Val → Prop) (o o' kvs kvs' : Entries)
    (h : KeysEqv m R o o') (hk : KeysEqv m R kvs kvs') :
    KeysEqv m R (Obj.extend o kvs) (Obj.extend o' kvs') := extend_all2 hk h

/-- updates at a key (`|=`, `=`, `del`: `map_index` on an object), for update functions that
respect `R` -/
theorem update_congr (m : Mode) (R : Val → Val → Prop) (o o' : Entries) (k k' : Val)
    (f f' : Val → Option Val) (h : KeysEqv m R o o') (hk : Eqv m k k')
    (hf : ∀ v v', R v v' → OptRel R (f v) (f' v')) (hnull : OptRel R (f .null) (f' .null)) :
    KeysEqv m R (Obj.update o k f) (Obj.update o' k' f') := update_all2 h hk hf hnull

/-- recursive merge `*` (`obj_merge`, the loop at every fuel `n`; `Obj.merge` instantiates `n`
from the operand sizes): replacing keys of either operand by `==` ones (values identical) gives
the same result up to those keys -/
theorem merge_congr_keys (m : Mode) (n : Nat) (l l' r r' : Entries)
    (hl : KeysEqv m Eq l l') (hr : KeysEqv m Eq r r') :
    KeysEqv m Eq (Obj.mergeF n l r) (Obj.mergeF n l' r') := mergeF_all2 n hr hl

/-- ... and `Obj.merge` itself (`l * r`): values that are `==` have the same size (`eqv_same_size`),
so both sides run with the same fuel -/
theorem merge_congr (m : Mode) (l l' r r' : Entries) (hl : KeysEqv m Eq l l') (hr : KeysEqv m Eq r r') :
    KeysEqv m Eq (Obj.merge l r) (Obj.merge l' r') := merge_all2 hl hr

theorem eqv_same_size (m : Mode) (a b : Val) (h : Eqv m a b) : a.size = b.size := h.size_eq

/-- "up to `==`": entry lists that agree up to `==` of keys and values are `==` objects (and the
second inherits the hypotheses) -/
theorem obj_eq_of_entries (m : Mode) (o o' : Entries) (h : KeysEqv m (Eqv m) o o') (g : Good m (.obj o)) :
    Eqv m (.obj o) (.obj o') := obj_eqv_of_keysEqv h g

/-- **objects that differ only in insertion order are `==`**, compare `Equal`, and make the same
`Hasher` calls -/
theorem obj_eq_insertion_order_irrelevant (m : Mode) (x y : Entries) (g : Good m (.obj x)) (hp : x.Perm y) :
    eq (.obj x) (.obj y) = true ∧ cmp (.obj x) (.obj y) = .eq ∧ feed (.obj x) = feed (.obj y) :=
  have h := obj_perm_eqv g hp
  ⟨h.e, h.cmp_eq, h.feed_eq⟩

/-- the `IndexMap` invariant (and the rest of `Good`) is preserved by `insert`, `+` and object
construction: with hashing coherent, no object with two `==` keys is ever built -/
theorem wfKeys_insert_extend_ofList (m : Mode) (o kvs : Entries) (k v : Val) (g : Good m (.obj o))
    (gk : Good m k) (gv : Good m v) (hkvs : ∀ p ∈ kvs, Good m p.1 ∧ Good m p.2) :
    Good m (.obj (Obj.insert o k v)) ∧ Good m (.obj (Obj.extend o kvs)) ∧ Good m (.obj (Obj.ofList kvs)) :=
  ⟨good_insert g gk gv, good_extend kvs g hkvs, good_ofList kvs hkvs⟩

/-- `sort`, `group_by(.)`, `unique`: replacing elements by `==` ones gives the same result up to
`==`, position by position (same grouping, same representatives' positions) -/
theorem sort_group_unique_congr (m : Mode) (l l' : List Val) (h : All2 (Eqv m) l l') :
    All2 (Eqv m) (sort l) (sort l') ∧ All2 (All2 (Eqv m)) (groupBy l) (groupBy l') ∧
    All2 (Eqv m) (unique l) (unique l') :=
  ⟨sort_all2 h, groupBy_all2 h, unique_all2 h⟩

/-- array subtraction `l - r` -/
theorem array_sub_congr (m : Mode) (l l' r r' : List Val) (hl : All2 (Eqv m) l l') (hr : All2 (Eqv m) r r') :
    All2 (Eqv m) (sub l r) (sub l' r') := sub_all2 hl hr

/-- `indices` (hence `index`, `rindex`) on arrays: the same positions, for a searched value and
for a searched sub-array -/
theorem indices_congr (m : Mode) (x x' : List Val) (y y' : Val) (hx : All2 (Eqv m) x x') (hy : Eqv m y y') :
    indices x y = indices x' y' := indices_all2 hx hy

/-- `contains` / `inside` (`inside` is `contains` with the operands swapped): values that are `==`
are interchangeable on both sides — for values without byte strings and without objects
(`plain`).  Byte strings: see §9 (the statement is false for them by the code's definition);
objects: not proved. -/
theorem contains_congr_partial (m : Mode) (a a' b b' : Val) (ha : Eqv m a a') (hb : Eqv m b b')
    (pa : plain a = true) (pa' : plain a' = true) (pb : plain b = true) (pb' : plain b' = true) :
    contains a b = contains a' b' ∧ contains b a = contains b' a' :=
  ⟨contains_congr_plain ha hb pa pa' pb pb', contains_congr_plain hb ha pb pb' pa pa'⟩

example : plain (.arr [.num (.int 1), .tstr [97], .arr [.null, .num (.float 0x3ff0000000000000)]]) = true := by
  decide

/-- the exception: a text string and the `==` byte string are not interchangeable in `contains`
(substring search for two text strings, `==` for a text and a byte string) -/
theorem contains_bytes_witness :
    eq (.tstr [97, 98]) (.bstr [97, 98]) = true ∧
    contains (.tstr [97, 98]) (.tstr [97]) = true ∧ contains (.bstr [97, 98]) (.tstr [97]) = false := by
  decide

/-! ## 8. More about `sort`, `min`/`max`, `unique` (round 2) -/

/-- `min` / `max` return an element of the input that is extremal for the order -/
theorem min_max_extremal (m : Mode) (l : List Val) (h : ∀ v ∈ l, InDom m v = true) :
    (∀ r, minOf l = some r → r ∈ l ∧ ∀ z ∈ l, cmp r z ≠ .gt) ∧
    (∀ r, maxOf l = some r → r ∈ l ∧ ∀ z ∈ l, cmp z r ≠ .gt) ∧
    (l ≠ [] → (minOf l).isSome = true ∧ (maxOf l).isSome = true) := by
  have hT := val_order m
  cases l with
  | nil => exact ⟨fun r hr => (by cases hr), fun r hr => (by cases hr), fun hne => absurd rfl hne⟩
  | cons x xs =>
    have sx := h x (by simp)
    have hxs : ∀ z ∈ xs, InDom m z = true := fun z hz => h z (by simp [hz])
    have h1 := foldl_min_spec hT xs x [x] (by simp) (fun z hz => by
      have : z = x := by simpa using hz
      subst this; exact sx) hxs (fun z hz => by
      have : z = x := by simpa using hz
      subst this; rw [hT.refl z sx]; simp)
    have h2 := foldl_max_spec hT xs x [x] (by simp) (fun z hz => by
      have : z = x := by simpa using hz
      subst this; exact sx) hxs (fun z hz => by
      have : z = x := by simpa using hz
      subst this; rw [hT.refl z sx]; simp)
    refine ⟨?_, ?_, fun _ => ⟨rfl, rfl⟩⟩
    · intro r hr
      simp only [minOf, Option.some.injEq] at hr
      subst hr
      exact h1
    · intro r hr
      simp only [maxOf, Option.some.injEq] at hr
      subst hr
      exact h2

/-- `unique` is literally the sorted array with every run of adjacent `==` elements reduced to
its first (`dedupLoop`) -/
theorem unique_is_sorted_dedup (l : List Val) :
    unique l = match sort l with
      | [] => []
      | x :: xs => dedupLoop x xs := unique_eq_dedup l

/-- ... hence strictly increasing, made of elements of the input, one for every class -/
theorem unique_spec (m : Mode) (l : List Val) (h : ∀ v ∈ l, Good m v) :
    SSorted cmp (unique l) ∧ (∀ u ∈ unique l, u ∈ l) ∧ (∀ x ∈ l, ∃ u ∈ unique l, eq u x = true) := by
  have hs := sort_sorted m l (fun v hv => (h v hv).dom)
  have hp := sort_perm l
  rw [unique_eq_dedup]
  revert hs hp
  cases sort l with
  | nil =>
    intro _ hp
    have : l = [] := by simpa using hp.symm
    subst this
    exact ⟨List.Pairwise.nil, fun u hu => (by cases hu), fun x hx => (by cases hx)⟩
  | cons x xs =>
    intro hs hp
    have gx : Good m x := h x (hp.mem_iff.1 (by simp))
    have gxs : ∀ z ∈ xs, Good m z := fun z hz => h z (hp.mem_iff.1 (by simp [hz]))
    exact ⟨dedupLoop_ssorted xs x gx gxs hs,
      fun u hu => hp.mem_iff.1 (dedupLoop_mem xs x u hu),
      fun z hz => dedupLoop_cover xs x gx gxs z (hp.mem_iff.2 hz)⟩

example : unique [.tstr [98], .bstr [97], .tstr [97], .null, .bstr [98]] =
    [.null, .bstr [97], .tstr [98]] := by rfl

/-- **`bsearch` on a sorted array** (`bsearchSpec` = the answers std's `binary_search_by` may give):
every admissible answer `r` is either the index of an element that compares `Equal` to `x`, or
`-1 - i` where no element compares `Equal`, the first `i` elements are all below `x` and the rest
all above — inserting `x` at `i` keeps the array sorted -/
theorem bsearch_sorted (m : Mode) (a : List Val) (x : Val) (ha : ∀ v ∈ a, InDom m v = true)
    (hx : InDom m x = true) (hs : Sorted cmp a) :
    ∀ r ∈ bsearchSpec a x,
      (0 ≤ r ∧ ∃ v, a[r.toNat]? = some v ∧ cmp v x = .eq) ∨
      (∃ i : Nat, r = -1 - (i : Int) ∧ i ≤ a.length ∧ (∀ v ∈ a, cmp v x ≠ .eq) ∧
        (∀ v ∈ a.take i, cmp v x = .lt) ∧ (∀ v ∈ a.drop i, cmp v x = .gt)) :=
  bsearchSpec_sorted a x ha hx hs

/-- `bsearch` never has no answer -/
theorem bsearch_total (a : List Val) (x : Val) : bsearchSpec a x ≠ [] := by
  unfold bsearchSpec
  dsimp only
  split
  · simp
  · rename_i h; intro hc; rw [hc] at h; exact h rfl

/-! ## 9. Stated, not proved (see design/notes/C08.md)

  * `contains_congr` (`contains` / `inside`) for values that contain objects: `contains a b =
    contains a' b'` for `Eqv m a a'`, `Eqv m b b'`, no byte strings.  Needs the extensional
    characterisation of object `==` (`∀ k, get x k ≈ get y k`) because the operands may differ in
    insertion order.  (With byte strings the statement is false: `contains_bytes_witness`; the check
    does not alarm on it: the property's wording is about look-up of values, and `contains` on strings
    is substring search.)
  * `merge_congr` for operands whose *values* are only `==` (nested objects in another insertion
    order, other representations inside the values): needs the same extensional characterisation.
  * `wfKeys_update`, `wfKeys_merge` (the invariant is preserved by `update` and `merge`).
  * `minOf l = (sort l).head?`, `maxOf l = (sort l).getLast?` (which of several extremal elements
    is returned: the first minimal / the last maximal); `unique` keeps the *first* of each class in
    input order (follows from `sort_stable` + `unique_is_sorted_dedup`, not written out).
  These are exercised on every run by the correspondence (model = code) together with the
  real-code oracle (`a == b` ⇒ equal `Hasher` calls and interchangeability in 19 templates).
-/

end Jaq.C08
