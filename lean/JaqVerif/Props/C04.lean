/-
  C04 — tail-recursive definitions run in constant stack and constant memory.

  Theorems about the impl-models
    `C04/Tco.lean`   (jaq-core/src/compile.rs: `Locals::call`, `Compiler::term/iterm/def/module`),
    `C04/Stack.lean` (jaq-core/src/stack.rs `Stack::next`, fold.rs `fold`, rc_lazy_list.rs `Drop`),
  the specification `C04/TailNest.lean` (the syntactic class the property names) and the
  definitions of the real `defs.jq` files as generated into `Gen/C04Defs.lean` on every run.
  The models are tied to the code by `bin/check C04`: whole compiled term tables of the real
  compiler vs `compileMain` on generated nests; traces of the real stack.rs / fold.rs /
  rc_lazy_list.rs (compiled into the harness from the repo's working tree) vs `Stack.turn`,
  `Stack.hintZero` (stacks of stacks), `Fold.turn`, `LL.iterDrop` on seeded scripted iterators.
  `C04/Run.lean` (`MayThrow`) is a may-semantics of how filter.rs hands `TailCall` items on.
  What no model exhibits (native stack bytes, allocator) is measured by the same check.
-/
import JaqVerif.Lemmas.C04Stack
import JaqVerif.Lemmas.C04TailNest
import JaqVerif.Lemmas.C04Run
import JaqVerif.Lemmas.C04Nest
import JaqVerif.Gen.C04Defs

namespace Jaq.C04

/-! ## The compiler's call classification -/

/-- **`compile_tr_subset`**: `Compiler::term` only returns tail calls it was permitted to return
(`debug_assert!(tr_.is_subset(tr))` in `iterm_tr` never fails), for every term, every set `tr`,
every scope and every state of the look-up table. -/
theorem compile_tr_subset (M : List ModDef) (t : Tm) (tr : Tr) (L : Locals) (s : St) :
    ∀ id ∈ (term M t tr L s).tr, id ∈ tr :=
  term_tr_subset M t tr L s

/-- **`tailnest_calls_throw`** (no edge of a recursive cycle re-enters natively): a module with a
main program that is a tail nest — as the property words it (`wide = false`) or in the compiler's
wider sense that also admits the left of `,` (`wide = true`) — is compiled without a single
`CatchAll` call, whatever the nesting depth, the names, the shadowing, the arguments. -/
theorem tailnest_calls_throw (wide : Bool) (prelude : List DefS) (main : Tm)
    (h : TailNest wide (nestOf prelude main)) :
    ∀ e ∈ (compileMain prelude main).2.out, ∀ id args skip, e.ct ≠ .callDef id args skip .catchAll := by
  intro e he id args skip heq
  have := compileMain_ok wide prelude main h e he
  rw [heq] at this
  exact this

/-- a call to an enclosing definition (a recursive call edge) is classified `Throw` when the
position is a tail position relative to it and `CatchAll` otherwise — never `Inline`/`CatchOne`;
with `tailnest_calls_throw`: **in a tail nest every recursive call edge is a thrown tail call** -/
theorem recursive_edge_throw_or_catchAll (M : List ModDef) (L : Locals) (name : Nat) (ids : List Nat) (tr : Tr)
    (e : FunEntry) (ps : List Param) (id : Nat)
    (h : lookupFun L.funs name ids.length = some e) (hf : e.f = .parent ps id) :
    (id ∈ tr ∧ resolve M L name ids tr = (.callDef id (binds ps ids) (L.total - e.vars) .throw, [id])) ∨
    (id ∉ tr ∧ resolve M L name ids tr = (.callDef id (binds ps ids) (L.total - e.vars) .catchAll, [])) := by
  rw [resolve_parent M L name ids tr h hf]
  by_cases hc : id ∈ tr
  · left; exact ⟨hc, by simp [hc]⟩
  · right; exact ⟨hc, by simp [hc]⟩

/-- **every entry into a recursive definition from outside catches its tail calls**: a call to a
sibling definition whose body throws tail calls to itself is `CatchOne` (when everything else the
sibling throws may be passed on from the call site) or `CatchAll` — never a bare `Inline`; and what
the call passes on to its own consumer never contains the sibling itself. -/
theorem sibling_entry_catches (M : List ModDef) (L : Locals) (name : Nat) (ids : List Nat) (tr : Tr)
    (e : FunEntry) (ps : List Param) (id : Nat) (trs : Tr)
    (h : lookupFun L.funs name ids.length = some e) (hf : e.f = .sibling ps id trs) (hrec : id ∈ trs) :
    ((resolve M L name ids tr).1 = .callDef id (binds ps ids) (L.total - e.vars) .catchOne ∨
     (resolve M L name ids tr).1 = .callDef id (binds ps ids) (L.total - e.vars) .catchAll) ∧
    id ∉ (resolve M L name ids tr).2 := by
  rw [resolve_sibling M L name ids tr h hf]
  have hc : trs.contains id = true := by simpa using hrec
  by_cases hs : subB (Tr.remove trs id) tr = true
  · rw [if_pos hs]
    exact ⟨Or.inl (by simp [hrec]), fun hm => (mem_remove.mp hm).2 rfl⟩
  · rw [if_neg hs]
    exact ⟨Or.inr rfl, by simp⟩

/-- **`throw_always_caught_partial`** (static part): a term compiled in a context that does not
permit tail calls (`iterm`: arguments, conditions, left of `|`, `[…]`, operands, …) returns no tail
call to its consumer; in particular the main program (compiled with `tr = ∅`) returns none, and a
`Throw` is only ever generated for a definition the position is a tail position of.

The full statement is `throw_always_caught` below (round 2).  History — what was missing in round 1:
    `∀ id, ¬ Esc (compileMain prelude main).2 (compileMain prelude main).1 id`
where `Esc tab t id` is the least relation "evaluating entry `t` of the finished table may yield a
`TailCall id` to its consumer" (propagation through every construct, `Inline` bodies, `CatchOne`
bodies except for their own id, closures of filter arguments).  The lift from the per-entry `Tr`
annotations (proved sound for each compilation step by `compile_tr_subset`) to `Esc` over the
finished table needs the append-only/frame lemmas for `St.out`, which are not done.  The run-time
check covers the gap empirically: a `TailCall` escaping to the user would surface as an
`X TailCall` item / panic in every runtime probe of `bin/check C04`. -/
theorem throw_always_caught_partial (M : List ModDef) (t : Tm) (L : Locals) (s : St) :
    (term M t [] L s).tr = [] ∧
    (∀ prelude main, ((compileMain prelude main).2.out.head?.map (·.tr)) = some []) := by
  have key : ∀ (M : List ModDef) (t : Tm) (L : Locals) (s : St), (term M t [] L s).tr = [] := by
    intro M t L s
    cases h : (term M t [] L s).tr with
    | nil => rfl
    | cons x xs =>
      have := term_tr_subset M t [] L s x (by rw [h]; exact List.mem_cons_self ..)
      simp at this
  refine ⟨key M t L s, fun prelude main => ?_⟩
  simp only [compileMain, wrapI_out, List.head?_cons, Option.map_some, key]

/-- **`tr_annotation_sound`** (the invariant linking the static `Tr` sets to the run): in the finished
table of `compileMain`, whatever an entry may hand to its consumer as a `TailCall` at run time
(`MayThrow`, `C04/Run.lean`: the thrown tail calls that travel up the chain of consumers through
`|`, `,`, `try`, `label`, `Inline` calls, closures of filter arguments … and are taken out only by a
`CatchOne id`/`CatchAll` frame) is in the `Tr` set the compiler computed for that entry. -/
theorem tr_annotation_sound (prelude : List DefS) (main : Tm) :
    ∀ e ∈ (compileMain prelude main).2.out, ∀ j, MayThrow (compileMain prelude main).2.out e.id j → j ∈ e.tr := by
  intro e he j h
  have hi := (compileMain_inv prelude main).1
  exact mayThrow_sound hi.nodup hi.good h e he rfl

/-- **`throw_always_caught`** (the full, dynamic statement; replaces the comment that stood under
`throw_always_caught_partial`): in a run of a program compiled by `compileMain` — any prelude
module, any main term, tail nest or not — no `TailCall` exception reaches the user: the main entry
hands no `TailCall j` to its consumer, for any `j`.  In terms of `MayThrow`'s derivations: every
dynamic chain of consumers from the main entry down to a `CallDef j … Throw` passes a
`CatchOne j` or `CatchAll` frame that runs the next link as (part of) its body, i.e. every
thrown tail call is caught by a frame on the dynamic call chain. -/
theorem throw_always_caught (prelude : List DefS) (main : Tm) (j : Nat) :
    ¬ MayThrow (compileMain prelude main).2.out (compileMain prelude main).1 j := by
  intro h
  obtain ⟨hi, e, he, hid, hsub⟩ := compileMain_inv prelude main
  exact absurd (hsub j (mayThrow_sound hi.nodup hi.good h e he hid)) (by simp)

/-- the same for every position that is compiled without permission to throw (arguments,
conditions, left of `|`, operands, `[…]`, `reduce`/`foreach` sources and updates, `try`, `label`):
such a sub-term never hands a `TailCall` to the construct around it -/
theorem nontail_position_never_throws (prelude : List DefS) (main : Tm) :
    ∀ e ∈ (compileMain prelude main).2.out, ∀ k ∈ e.ct.nonTailKids, ∀ j,
      ¬ MayThrow (compileMain prelude main).2.out k j := by
  intro e he k hk j h
  have hi := (compileMain_inv prelude main).1
  obtain ⟨ek, hek, h1, h2⟩ := (hi.good e he).nt k hk
  exact absurd (h2 j (mayThrow_sound hi.nodup hi.good h ek hek h1)) (by simp)

/-- `MayThrow` is not empty: in `def f: f; f` the body of `f` (entry 1) throws a tail call to `f`,
which the `CatchOne` call of the main program (entry 0) takes -/
example : MayThrow (compileMain [] (.defIn 0 [] (.call 0 .nil) (.call 0 .nil))).2.out 1 1 :=
  MayThrow.throw (e := ⟨1, .callDef 1 [] 0 .throw, [1]⟩) (List.Mem.tail _ (List.Mem.head _)) rfl

/-- **`builtin_loops_are_tailnests`**: `repeat/1`, `recurse/0,1,2`, `while/2`, `until/2`, `range/1,2`,
`paths/0,1` as defined in the real `defs.jq` files (translated on every run) are tail nests in the
narrow sense of the property.  A rewrite that moves a recursive call out of tail position makes
this `decide` fail; the check then names the definition. -/
theorem builtin_loops_are_tailnests :
    ∀ i ∈ Gen.loops, (i + 1) ∉ nonTailDefs (emptyDef :: Gen.prelude) := by decide +kernel

/-- all the named loops were found in the generated prelude -/
theorem builtin_loops_present : Gen.loops.length = 10 := by decide

/-- the whole standard library is compiled with the classification the theorems describe: the
model's compilation of the generated prelude contains no `Throw` outside … (sanity instance of
`tailnest_calls_throw`: `repeat` on its own is a tail nest and compiles to `CatchOne` + `Throw`) -/
example : TailNest false (nestOf [⟨0, [⟨false, 1⟩], .defIn 2 [] (.comma (.call 1 .nil) (.call 2 .nil)) (.call 2 .nil)⟩]
    (.call 0 (.cons .leaf .nil))) := by decide

example : ¬ TailNest true (nestOf [] (.defIn 0 [] (.bin .leaf (.call 0 .nil)) (.call 0 .nil))) := by decide

/-! ## The trampoline (`Stack::next`) -/

/-- **`trampoline_bounded`**, stack length: if `size_hint` reports exhaustion exactly and every
tail call is the last item of the iterator that yields it (one tail call per iteration, as in
`def f: …; step | f`), the `Stack` never holds more than one iterator — after any number of turns
of its loop, i.e. for ALL iteration counts N. -/
theorem trampoline_bounded {I X : Type} (S : Iter I X) (f : X → Flow X I)
    (hx : HintExact S) (hl : Linear S f) (a b : List I) (ha : a.length ≤ 1)
    (h : Stack.Reach S f a b) : b.length ≤ 1 := by
  induction h with
  | refl => exact ha
  | step _ ih => exact turn_linear_len S f hx hl _ ih

/-- general form: below its top the `Stack` only ever holds iterators that still have pending
items (suspended generators: `def f: ., (step | f)` keeps none, a k-ary tree recursion keeps one
per level of the tree) — never exhausted ones, however long the loop runs. -/
theorem trampoline_holds_only_pending {I X : Type} (S : Iter I X) (f : X → Flow X I)
    (hx : HintExact S) (a b : List I) (ha : ∀ it ∈ a.tail, Live S it)
    (h : Stack.Reach S f a b) : ∀ it ∈ b.tail, Live S it := by
  induction h with
  | refl => exact ha
  | step _ ih => exact turn_below_live S f hx _ ih

/-- **`trampoline_bounded`**, native depth: `Stack::next` polls only iterators that are the
initial ones, their residuals, or iterators made by `f` for a thrown tail call.  If each of those
needs at most `D` native frames to be polled (`D` depends on the program text: the nesting of
the body's iterator combinators), so does every iterator the stack ever holds — the depth of
`next` is `D + 1` after any number of iterations (contrast: a `CatchAll`/native re-entry nests
one `Stack` per iteration). -/
theorem trampoline_depth_bounded {I X : Type} (S : Iter I X) (f : X → Flow X I) (cost : I → Nat) (D : Nat)
    (hres : ∀ it x it', S.next it = some (x, it') → cost it' ≤ cost it)
    (hcont : ∀ x c, f x = .cont c → cost c ≤ D)
    (a b : List I) (ha : ∀ it ∈ a, cost it ≤ D) (h : Stack.Reach S f a b) : ∀ it ∈ b, cost it ≤ D := by
  induction h with
  | refl => exact ha
  | step _ ih =>
    exact turn_closed S f (fun it => cost it ≤ D)
      (fun it x it' hn hp => Nat.le_trans (hres it x it' hn) hp) hcont _ ih

/-- the fuelled `Stack.next` only produces reachable stacks (the theorems above apply to it) -/
theorem stack_next_reach {I X : Type} (S : Iter I X) (f : X → Flow X I) (n : Nat) (st st' : List I)
    (r : Option X) (h : Stack.next S f n st = some (r, st')) : Stack.Reach S f st st' :=
  next_reach S f n st r st' h

/-- instance of the hypotheses: a loop of 3 iterations with one output each -/
example : (Script.trace [⟨true, [.out 1, .tail 1]⟩, ⟨true, [.out 2, .tail 2]⟩, ⟨true, [.out 3]⟩] 5)
    = "n0>o1#1 n0n1>o2#1 n1n2>o3#0 >end#0" := by decide

/-! ## Round 2: the repaired `Stack::size_hint`, stacks of stacks, the adapters of `,` -/

/-- **`trampoline_bounded_tailLast`** (strengthens `trampoline_bounded`: the assumptions `HintExact` and
`Linear` are replaced by the single weaker one they imply, see `tailLast_of_exact_linear`): it is
enough that the residual of an iterator that has just yielded a *tail call* reports
`size_hint() == (0, Some(0))`, on a class `P` of iterators closed under `next` and continuations.
Nothing is asked about the hints after ordinary outputs, nor of exhausted iterators. -/
theorem trampoline_bounded_tailLast {I X : Type} (P : I → Prop) (S : Iter I X) (f : X → Flow X I)
    (hres : ∀ it x it', S.next it = some (x, it') → P it → P it') (hcont : ∀ x c, f x = .cont c → P c)
    (ht : TailLastOn P S f) (a b : List I) (hPa : ∀ it ∈ a, P it) (ha : a.length ≤ 1)
    (h : Stack.Reach S f a b) : b.length ≤ 1 :=
  (reach_tailLast P S f hres hcont ht a b hPa ha h).1

/-- **`trampoline_bounded_comma_shapes`** (`trampoline_bounded` *without* any assumption on size hints,
for the iterators jaq builds in the tail positions of the property): the iterators are terms of
`Once`/`Chain`/`lazy` (`Ad`, modelled after the standard library's `next`/`size_hint`) in which tail
calls stand only at the right end of every `,` (`A, (B, (…, throw))`); `|`, `as $x |`, `if` branches
and `//` hand such an iterator on unchanged.  Whatever catch function takes (only) tail calls and
continues with iterators of that shape: the `Stack` never holds more than one iterator, for any
number of turns. -/
theorem trampoline_bounded_comma_shapes (f : Script.Item → Flow Script.Item Ad)
    (hf : ∀ x c, f x = .cont c → x.isTail = true ∧ c.TailShape)
    (a b : List Ad) (hs : ∀ it ∈ a, it.TailShape) (ha : a.length ≤ 1) (h : Stack.Reach adIter f a b) :
    b.length ≤ 1 ∧ ∀ it ∈ b, it.TailShape :=
  reach_tailLast Ad.TailShape adIter f
    (fun it x it' hn hp => (Ad.tailShape_next it x it' hp hn).1) (fun x c h => (hf x c h).2)
    (fun it x it' c hp hn hfc => (Ad.tailShape_next it x it' hp hn).2 (hf x c hfc).1) a b hs ha h

/-- the adapters never report `(0, Some(0))` while they still have an item: the trampoline (and
`fold`) drop only exhausted iterators — no output is lost by the "do not grow the stack" test -/
theorem adapters_hint_sound (a : Ad) (h : a.hintZero = true) : a.next = none := Ad.hint_sound a h

/-- instance: `., (., throw)` — `def f: ., (., (step | f))` — has the shape; after the tail call nothing is kept -/
example : (Ad.chainAB (.once (some (.out 0))) (.lazyU (.chainAB (.once (some (.out 1))) (.lazyU (.once (some (.tail 0))))))).TailShape := by
  simp [Ad.TailShape, Ad.NoTail, Script.Item.isTail]

/-- contrast (the compiler's *wide* class): a tail call on the left of `,` is followed by a pending
generator — `Chain` does not report `(0, Some(0))`, the iterator legitimately stays on the stack
(`trampoline_holds_only_pending`) -/
example : ((Ad.chainAB (.once (some (.tail 0))) (.lazyU (.once (some (.out 1))))).next.map fun p => p.2.hintZero) = some false := rfl

/-- **`mutual_trampoline_bounded`** (parent and child tail-calling each other, `def f: def g: … f … g …; g;`):
the body of `f` is the `CatchOne g` call — a `Stack` (catch function `fi`) — and runs on the `Stack`
of the `CatchOne f` call (catch function `fo`).  With the repaired `Stack::size_hint`
(`Stack.hintZero`: `(0, Some(0))` iff the vector is empty; be431db) and tail calls that are followed by
`(0, Some(0))` (`MutTailLast`), the outer stack holds at most one inner stack and every inner stack at
most one iterator — after any number of turns, i.e. for any number of rounds `f → g → f → …`. -/
theorem mutual_trampoline_bounded {I X : Type} (S : Iter I X) (fi : X → Flow X I) (fo : X → Flow X (List I))
    (hm : MutTailLast S fi fo) (hnew : ∀ x c, fo x = .cont c → c.length ≤ 1)
    (a b : List (List I)) (ha : NestOk a) (h : Nest.Reach S fi fo Stack.hintZero a b) : NestOk b := by
  induction h with
  | refl => exact ha
  | step _ ht ih => exact nest_turn_ok S fi fo hm hnew ih ht

/-- the hypotheses of `mutual_trampoline_bounded` are satisfiable: one-shot iterators (`oneShot`) -/
example : MutTailLast oneShot (fun _ => Flow.brk ()) (fun _ => Flow.cont [true]) := by
  intro it x it' hn _
  cases it <;> simp [oneShot] at hn ⊢
  exact hn

/-- **`mutual_unrepaired_grows`** (the finding be431db repaired, as a theorem about the code before it):
if an inner `Stack` never reports `(0, Some(0))` — the default `size_hint` — then even for one-shot
iterators with exact hints the outer stack holds `n` dead (empty) inner stacks after `n` rounds. -/
theorem mutual_unrepaired_grows (n : Nat) :
    Nest.Reach oneShot (fun _ => Flow.brk ()) (fun _ => Flow.cont [true]) (fun _ => false)
      [[true]] ([true] :: List.replicate n []) :=
  unrepaired_grows n

/-! ## `fold` and the list drop -/

/-- **`fold_stack_bounded`**: with exact size hints and updates that yield at most one output
(`reduce xs as $x (init; . + $x)`), the explicit stack of `fold` never holds more than one frame,
for input lists of any length. -/
theorem fold_stack_bounded {T TC U UC E Y : Type} (O : FoldOps T TC U UC E Y)
    (hx : HintExact O.S) (hl : FLinear O) (a b : FStack T TC U E Y) (ha : a.length ≤ 1)
    (h : Fold.Reach O a b) : b.length ≤ 1 := by
  induction h with
  | refl => exact ha
  | step _ ih => exact fold_turn_linear_len O hx hl _ ih

/-- general form: below its top, `fold`'s stack only holds `Output` frames whose update iterator
still has items (alternatives yet to be explored), never finished ones -/
theorem fold_stack_holds_only_pending {T TC U UC E Y : Type} (O : FoldOps T TC U UC E Y)
    (hx : HintExact O.S) (a b : FStack T TC U E Y) (ha : ∀ fr ∈ a.tail, LiveOutput O fr)
    (h : Fold.Reach O a b) : ∀ fr ∈ b.tail, LiveOutput O fr := by
  induction h with
  | refl => exact ha
  | step _ ih => exact fold_turn_below O hx _ ih

/-- **`lazyList_drop_iterative`**: `Drop for List` frees exactly the nodes the derived drop glue
would free, with native depth at most 2 for lists of any length, whereas the derived glue alone
recurses once per node. -/
theorem lazyList_drop_iterative (l : LL) (n : Nat) :
    l.iterDrop.2.2 ≤ 2 ∧ l.iterDrop.2.1 = l.freed ∧ (LL.chain n).naiveDepth = n + 1 :=
  ⟨iterDrop_depth l, iterDrop_freed l, naiveDepth_chain n⟩

end Jaq.C04
