/-
  C05 — property theorems: the kernels of `JaqVerif/C05/Kernels.lean` (Rust's checked semantics)
  cannot panic under exactly the guard their callers establish, for ALL inputs.
  Both defects found in round 1 are repaired in the tree (496d12c, 5b5826b): the full statements
  (`implodeStep_noPanic`, `lex_spans_in_bounds`) are about the current code; the `…_partial` +
  witness theorems document the tree as found.
-/
import JaqVerif.Lemmas.C05
import JaqVerif.Lemmas.C05b
import JaqVerif.Lemmas.C05c

namespace Jaq.C05

/-! ### positions: `PosUsize::wrap`, `abs_index`, `abs_bound`, `skip_take`, `a[i]` -/

/-- `abs_index` only returns indices inside the container -/
theorem absIndex_lt (p : PosUsize) (len i : Nat) (h : absIndex p len = some i) : i < len :=
  L.absIndex_lt p len i h

/-- `a[i]` after `abs_index` never indexes out of bounds -/
theorem indexAfterAbs_noPanic (p : PosUsize) (len : Nat) : indexAfterAbs p len ≠ .error .panic :=
  L.indexAfterAbs_noPanic p len

/-- `skip_take` yields a range inside `[0, len]` for every pair of bounds -/
theorem skipTake_in_bounds (lo hi : Option PosUsize) (len : Nat) :
    (skipTake lo hi len).1 ≤ len ∧ (skipTake lo hi len).1 + (skipTake lo hi len).2 ≤ len :=
  L.skipTake_in_bounds lo hi len

/-- `b.slice(skip..skip+take)` / `a.splice(skip..skip+take, …)` with the result of `skip_take`:
no overflow of `skip + take`, no slice out of bounds (a buffer's length fits `usize`) -/
theorem rangeOfSkipTake_noPanic (lo hi : Option PosUsize) (len : Nat) (hlen : len ≤ U64MAX) :
    rangeOfSkipTake len (skipTake lo hi len) ≠ .error .panic :=
  L.rangeOfSkipTake_noPanic lo hi len hlen

/-- caller's guarantee for `c - 1` in `skip_take_chars`: a negative position produced by
`Num::as_pos_usize` has magnitude ≥ 1 -/
theorem asPosUsize_negative_ge_one (n : Num) (m : Nat) (h : asPosUsize n = some (false, m)) : 1 ≤ m :=
  L.asPosUsize_negative_ge_one n m h

/-- a big integer of any size becomes a position that fits `usize` (saturation, no `unwrap` on `None`) -/
theorem asPosUsize_big_fits (i : Int) (p : PosUsize) (h : asPosUsize (.big i) = some p) : p.2 ≤ U64MAX :=
  L.asPosUsize_big_fits i p h

/-- `byte_index` (hence `chars.nth_back(c - 1)`) does not underflow under that guarantee -/
theorem byteIndex_noPanic (starts : List Nat) (len : Nat) (p : PosUsize) (h : p.1 = false → 1 ≤ p.2) :
    byteIndex starts len p ≠ .error .panic :=
  L.byteIndex_noPanic starts len p h

/-- `skip_take_chars` yields a byte range inside the string when the character offsets are -/
theorem skipTakeChars_in_bounds (starts : List Nat) (len : Nat) (lo hi : Option PosUsize)
    (hs : ∀ x ∈ starts, x ≤ len)
    (hlo : ∀ p, lo = some p → p.1 = false → 1 ≤ p.2) (hhi : ∀ p, hi = some p → p.1 = false → 1 ≤ p.2) :
    ∃ s t, skipTakeChars starts len lo hi = .ok (s, t) ∧ s ≤ len ∧ s + t ≤ len :=
  L.skipTakeChars_in_bounds starts len lo hi hs hlo hhi

example : skipTakeChars [0, 1, 3, 6] 10 (some (false, 2)) none = .ok (3, 7) := by rfl

/-! ### `bytes_splice` -/

/-- all of `b.len() - take`, `skip + take..b.len()`, `resize`, `copy_within`, `b[skip..skip+r]`
are in range whenever `(skip, take)` is a range of the buffer (as `skip_take*` guarantee) and
both buffers fit in memory together; the final length is `len - take + rlen` -/
theorem bytesSplice_noPanic (len skip take rlen : Nat) (h : skip + take ≤ len) (hm : len + rlen ≤ U64MAX) :
    bytesSplice len skip take rlen = .ok (len - take + rlen) :=
  L.bytesSplice_ok len skip take rlen h hm

/-- without the caller's guarantee it does panic (`take > len`) -/
theorem bytesSplice_needs_guard : bytesSplice 2 0 3 0 = .error .panic := by rfl

theorem spliceSpec_length (b r : List UInt8) (skip take : Nat) (h : skip + take ≤ b.length) :
    (spliceSpec b skip take r).length = b.length - take + r.length :=
  L.spliceSpec_length b r skip take h

/-! ### `implode` / `explode` -/

/-- CURRENT tree (496d12c, `i.checked_neg().and_then(|n| u8::try_from(n).ok())`): the body of
`implode`'s loop cannot panic for ANY `isize` (full statement; in round 1 this was
`implodeStepFixed_noPanic`, about the proposed repair) -/
theorem implodeStep_noPanic (i : Int) : implodeStep i ≠ .error .panic :=
  L.implodeStep_noPanic i

/-- tree AS FOUND: `u8::try_from(-i)` is safe for every `isize` except `isize::MIN`
(round 1: `implodeStep_noPanic_partial`) -/
theorem implodeStepAsFound_noPanic_partial (i : Int) (h : i ≠ IMIN) : implodeStepAsFound i ≠ .error .panic :=
  L.implodeStepAsFound_noPanic_partial i h

/-- … and `[isize::MIN] | implode` panicked there ("attempt to negate with overflow")
(round 1: `implodeStep_panics_witness`) -/
theorem implodeStepAsFound_panics_witness : implodeStepAsFound IMIN = .error .panic := by rfl

/-- the repair changed nothing else (round 1: `implodeStepFixed_agrees`) -/
theorem implodeStep_agrees_asFound (i : Int) (h : i ≠ IMIN) : implodeStep i = implodeStepAsFound i :=
  L.implodeStep_agrees i h

/-- `explode` never overflows on bytes and scalar values … -/
theorem explodeItem_noPanic (x : Piece) (hb : ∀ b, x = .byte b → b ≤ 255) (hc : ∀ c, x = .char c → c ≤ 0x10FFFF) :
    explodeItem x ≠ .error .panic :=
  L.explodeItem_noPanic x hb hc

/-- … and `implode` (current tree) maps every item of `explode` back (non-zero bytes and non-zero
scalar values; `0` is read back as the byte 0, which is the same UTF-8) -/
theorem implode_explode (x : Piece) (i : Int)
    (hx : (∃ b, x = .byte b ∧ 1 ≤ b ∧ b ≤ 255) ∨ (∃ c, x = .char c ∧ 1 ≤ c ∧ isScalar ((c : Int)) = true))
    (h : explodeItem x = .ok i) : implodeStep i = .ok x :=
  L.implode_explode x i hx h

example : explodeItem (.char 0x20AC) = .ok 0x20AC ∧ implodeStep 0x20AC = .ok (.char 0x20AC) := ⟨by rfl, by rfl⟩

/-! ### conversions -/

theorem bigintToIntSaturated_range (i : Int) : IMIN ≤ bigintToIntSaturated i ∧ bigintToIntSaturated i ≤ IMAX :=
  L.sat_range i

/-- CBOR negative integers: `neg as i128 ^ !0` cannot overflow `i128` for any `u64` -/
theorem cborNegative_noPanic (neg : Nat) (h : neg ≤ U64MAX) : cborNegative neg = .ok (-((neg : Int)) - 1) :=
  L.cborNegative_ok neg h

theorem withSizeCapacity_le (size : Nat) : withSizeCapacity size ≤ 1024 := by
  unfold withSizeCapacity; omega

/-! ### lexer: `space`, `with_consumed`, error spans -/

/-- whatever `space` leaves as a suffix really is a suffix of its input (both trees) -/
theorem space_suffix (fixed : Bool) (s t : List Char) (h : spaceAll fixed s = .suffix t) : t <:+ s :=
  L.spaceAll_suffix fixed s t h

/-- `with_consumed` (`start.len() - self.i.len()`, `&start[..n]`) is safe for a suffix -/
theorem consumedLen_noPanic (s t : List Char) (h : t <:+ s) : consumedLen s (.suffix t) ≠ .error .panic :=
  L.consumedLen_noPanic s t h

/-- tree AS FOUND (before 5b5826b): the span of the error reported after `space` lies inside the
filter text *provided* `space` did not end in a comment without newline -/
theorem lex_spans_in_bounds_partial (pre s t : List Char) (h : spaceAll false s = .suffix t) :
    ∃ a b, spanOf (pre ++ s) (.suffix t) = .ok (a, b) ∧ a ≤ b ∧ b ≤ (pre ++ s).length :=
  L.span_in_bounds pre s t (L.spaceAll_suffix false s t h)

/-- … and it did not on `[#`: the reported "found" string is not part of the text, `load::span` panics -/
theorem lex_span_panics_witness : spanOf ['[', '#'] (spaceAll false ['#']) = .error .panic := by rfl

/-- full statement, CURRENT tree (5b5826b: `&self.i[self.i.len()..]`): for EVERY text, the string
`space` leaves is a part of the text and the span `load::span` computes for the error reported
after it lies inside the text -/
theorem lex_spans_in_bounds (pre s : List Char) :
    ∃ a b, spanOf (pre ++ s) (spaceAll true s) = .ok (a, b) ∧ a ≤ b ∧ b ≤ (pre ++ s).length :=
  L.span_in_bounds_fixed pre s

/-! ### compiler: balance of the scope stack (`MapVecLen::pop`, `pop_parent`, `close_module`) -/

variable {K : Type} [DecidableEq K]

/-- `pop` directly after `push` satisfies its assertion and restores the stack -/
theorem pop_push (s : Scopes K) (k : K) : (s.push k).pop k = .ok s := L.pop_push s k

/-- popping in reverse order what `with_vars` / `push_parent` pushed satisfies every assertion -/
theorem popAllRev_pushAll (s : Scopes K) (ks : List K) : (s.pushAll ks).popAllRev ks = .ok s :=
  L.popAllRev_pushAll s ks

/-- for EVERY term the compiler's walk fires no assertion and leaves the scope stack as it found it;
in particular `close_module`'s `assert!(self.locals.is_empty())` holds after compiling any module -/
theorem compile_scopes_balanced (t : Tm K) (s : Scopes K) : walk t s = .ok s := L.walk_balanced t s

/-- popping a name that is not on top fires the assertion (the model is not vacuous) -/
theorem pop_wrong_name_panics : (((Scopes.empty (K := Nat)).push 1 |>.push 2).pop 1).toBool = false := by
  decide

/-! ### compiler, round 2: the real binder structure of `Compiler::term` (`Locals`) -/

/-- `pop_arg` after `push_arg`, `pop_parent` after `push_parent`, `pop_sibling` after `push_sibling`:
every `panic!()` arm and `assert_eq!` is passed and the state is restored -/
theorem popArg_pushArg (s : Locals K) (f : K) : (s.pushArg f).popArg f = .ok s := L.popArg_pushArg s f

theorem popParent_pushParent (s : Locals K) (name : K) (args : List (DArg K)) :
    (s.pushParent name args).popParent name args.length = .ok s := L.popParent_pushParent s name args

theorem popSibling_pushSibling (s : Locals K) (name : K) (args : List (DArg K)) :
    (s.pushSibling name args).popSibling name args.length = .ok s := L.popSibling_pushSibling s name args

/-- the invariant holds initially (`Locals::default()`) -/
theorem locals_inv_empty : (Locals.empty : Locals K).Inv := L.inv_empty

/-- under the invariant, `var`/`break_` (`i - v`) and `Locals::call` (`self.vars.total - *vars`,
`binds`' `assert!(binds.len() == args.len())`) cannot panic -/
theorem lookupVar_noPanic (s : Locals K) (k : VKey K) (h : s.Inv) : s.lookupVar k ≠ .error .panic := by
  obtain ⟨r, hr⟩ := L.lookupVar_ok s k h
  rw [hr]; simp

theorem call_noPanic (s : Locals K) (name : K) (arity : Nat) (h : s.Inv) : s.call name arity ≠ .error .panic := by
  obtain ⟨r, hr⟩ := L.call_ok s name arity h
  rw [hr]; simp

/-- … and without it they do (the model is not vacuous) -/
theorem lookupVar_needs_inv :
    (⟨⟨fun _ => [5], 3⟩, fun _ => []⟩ : Locals Nat).lookupVar (.var 0) = .error .panic := L.lookupVar_needs_inv

/-- `compile_scopes_balanced` over the REAL binder structure (patterns with keys, reduce/foreach via
`CTm.fold`, labels, definitions with variable and filter arguments, nested and sibling definitions,
calls and variable references): for EVERY term, from every state that satisfies the invariant,
no `assert!`, `assert_eq!`, `panic!()` arm, `usize` subtraction or `binds` assertion of
`Locals`/`MapVecLen` fires and `locals` is restored -/
theorem compile_locals_balanced (t : CTm K) (s : Locals K) (h : s.Inv) : cwalk t s = .ok s :=
  L.cwalk_balanced t s h

/-- in particular `close_module`'s `assert!(self.locals.is_empty())` holds after any module / main term -/
theorem close_module_assert (t : CTm K) : ∃ s, cwalk t (Locals.empty : Locals K) = .ok s ∧ s.isEmpty :=
  ⟨Locals.empty, L.cwalk_balanced t _ L.inv_empty, fun _ => rfl, rfl, fun _ => rfl⟩

example : cwalk (.defn 0 [(true, 1), (false, 2)] (.node (.var 1) (.call 2 0 .leaf))
    (.call 0 2 (.node .leaf .leaf))) (Locals.empty : Locals Nat) = .ok Locals.empty :=
  compile_locals_balanced _ _ locals_inv_empty

/-! ### regex (jaq-std/src/regex.rs), round 2 -/

/-- `ByteChar::char_of_byte` with the restart logic (d488b4c): from ANY iterator state, for every
byte offset that is a character boundary of the haystack (or its length) the result is `Some` of
its index — so `Match::new`'s `unwrap()` cannot fail, whatever the order of capture-group starts -/
theorem matchOffset_noPanic (bounds : List Nat) (hs : bounds.Pairwise (· < ·)) (pos k off : Nat)
    (hk : bounds[k]? = some off) : matchOffset true ⟨bounds, pos⟩ off = .ok (k, ⟨bounds, k⟩) :=
  L.matchOffset_ok bounds hs pos k off hk

/-- all captures of all matches, in any order of their starts -/
theorem matchOffsets_noPanic (bounds : List Nat) (hs : bounds.Pairwise (· < ·)) (starts : List Nat) (pos : Nat)
    (h : ∀ s ∈ starts, s ∈ bounds) :
    ∃ cs, matchOffsets true ⟨bounds, pos⟩ starts = .ok cs ∧ cs.length = starts.length ∧
      ∀ (i c : Nat), cs[i]? = some c → bounds[c]? = starts[i]? :=
  L.matchOffsets_ok bounds hs starts pos h

/-- without the restart (tree before d488b4c) a capture that starts before the previous one panics:
`"ba" | match("(?:(a)|(b))+")` has its groups at bytes 0, 1, 0 -/
theorem matchOffsets_needs_restart : matchOffsets false ⟨[0, 1, 2], 0⟩ [0, 1, 0] = .error .panic := by rfl

example : matchOffsets true ⟨[0, 1, 2], 0⟩ [0, 1, 0] = .ok [0, 1, 0] := by rfl

/-- the mismatch slices `&s[last_byte..whole.start()]`, `&s[last_byte..]` are in bounds when the
matches are ordered and inside the haystack (the contract of `captures_iter`, an assumption) -/
theorem mismatches_noPanic (len : Nat) (ms : List (Nat × Nat)) (h : MatchesOrdered len 0 ms) :
    ∃ r, mismatches len 0 ms = .ok r ∧ r.length = ms.length + 1 ∧ ∀ p ∈ r, p.1 ≤ p.2 ∧ p.2 ≤ len :=
  L.mismatches_ok len ms 0 h

example : MatchesOrdered 5 0 [(1, 2), (2, 2), (4, 5)] := by simp [MatchesOrdered]

/-! ### `ltrimstr` / `rtrimstr` (`strip_fix` → `as_sub_str` → `Bytes::slice_ref`), round 2 -/

theorem stripFix_prefix_noPanic (s pre : List UInt8) :
    ∃ off n, stripFix stripPrefix s pre = .ok (off, n) ∧ off + n ≤ s.length := L.stripFix_prefix_ok s pre

theorem stripFix_suffix_noPanic (s suf : List UInt8) :
    ∃ off n, stripFix stripSuffix s suf = .ok (off, n) ∧ off + n ≤ s.length := L.stripFix_suffix_ok s suf

/-- `slice_ref` does assert (not vacuous) -/
theorem sliceRef_out_of_range_panics : sliceRef 3 2 2 = .error .panic := by rfl

/-! ### conversions, `bsearch`, `indices`, round 2 -/

/-- `as_isize` only yields values of `isize` -/
theorem asIsize_range (n : Num) (i : Int) (hn : ∀ j, n = .int j → IMIN ≤ j ∧ j ≤ IMAX) (h : asIsize n = some i) :
    IMIN ≤ i ∧ i ≤ IMAX := L.asIsize_range n i hn h

/-- `try_as_i32` (ldexp, scalb, scalbln, jn, yn, halt) only yields values of `i32` -/
theorem tryAsI32_range (n : Num) (i : Int) (h : tryAsI32 n = some i) : I32MIN ≤ i ∧ i ≤ I32MAX :=
  L.tryAsI32_range n i h

/-- `tobytes`: a number becomes a byte only in `0..=255` -/
theorem toByte_range (n : Num) (b : Nat) (h : toByte n = some b) : b ≤ 255 := L.toByte_range n b h

/-- `bsearch`: `-1 - i as isize` cannot overflow for an insertion point `i ≤ len ≤ isize::MAX` -/
theorem bsearchIdx_noPanic (r : Except Nat Nat) (hr : ∀ i, (r = .ok i ∨ r = .error i) → (i : Int) ≤ IMAX) :
    ∃ v, bsearchIdx r = .ok v ∧ IMIN ≤ v ∧ v ≤ IMAX ∧
      (∀ i, r = .ok i → v = i) ∧ (∀ i, r = .error i → v = -1 - (i : Int)) := L.bsearchIdx_ok r hr

/-- … in fact `-1 - (i as isize)` cannot overflow for ANY `usize` (the cast wraps, `-1 - isize::MIN`
is `isize::MAX`); only the value is wrong beyond `isize::MAX`, which no `Vec` length reaches -/
theorem bsearchIdx_total (r : Except Nat Nat) (hr : ∀ i, (r = .ok i ∨ r = .error i) → i ≤ U64MAX) :
    bsearchIdx r ≠ .error .panic := by
  cases r with
  | ok i => simp [bsearchIdx]
  | error i =>
    have := hr i (Or.inr rfl)
    unfold bsearchIdx usizeAsIsize isub IMIN IMAX
    unfold U64MAX at this
    simp only
    split <;> (rw [if_pos (by omega)]; simp)

/-- `indices`: no arm reaches `windows(0)` and `i + y.len()` cannot overflow (buffers ≤ `isize::MAX`) -/
theorem indicesKernel_noPanic (x y : IShape) (starts : List Nat) (hx : L.shapeFits x) (hy : L.shapeFits y)
    (hs : ∀ i ∈ starts, ∀ n, x = .tstr n → i ≤ n) : indicesKernel x y starts ≠ .error .panic :=
  L.indicesKernel_noPanic x y starts hx hy hs

/-- `windows(0)` panics (what the two `is_empty()` arms prevent) -/
theorem windows_zero_panics (len : Nat) : windows len 0 = .error .panic := by rfl

/-! ### token spans and parse-error spans (lexer-to-parser invariant), round 2 -/

/-- lexer-to-parser token span invariant, parametric in the per-token consumers: if every consumer
leaves a suffix of what it was given (proved for `space`: `space_suffix`; the contract of `token`,
`str`, `block`, … which are swept, not modelled), then for EVERY text `with_consumed` and
`load::span` cannot panic, every token span lies inside the text, and the spans are ordered and
disjoint -/
theorem lex_token_spans_in_bounds_partial (step : List Char → Option (List Char))
    (hstep : ∀ s t, step s = some t → t <:+ s) (whole : List Char) (fuel : Nat) :
    ∃ r, lexSpans step whole fuel whole = .ok r ∧ (∀ sp ∈ r, sp.1 ≤ sp.2 ∧ sp.2 ≤ whole.length) ∧
      r.Pairwise (fun a b => a.2 ≤ b.1) := by
  obtain ⟨r, h1, h2, h3, _⟩ := L.lexSpans_ok step hstep whole fuel whole (List.suffix_refl _)
  exact ⟨r, h1, h2, h3⟩

/-- a consumer that does not return a suffix makes `with_consumed` underflow (the hypothesis is needed) -/
theorem lex_token_spans_need_suffix :
    lexSpans (fun _ => some ['a', 'b', 'c']) ['x'] 1 ['x'] = .error .panic := by rfl

example : lexSpans (fun s => match s with | [] => none | _ :: t => some t) ['a', 'b'] 5 ['a', 'b'] = .ok [(0, 1), (1, 2)] := by rfl

/-- `parse_error_spans_in_bounds`, over the model of the error path (`TError` = expected + an optional
token of the token list; `Token::opt_as_str`; `load::span` in `report_parse`): the span of every parse
error is the span of a token the lexer produced or the empty slice at the end of the text — inside
the text whenever the token spans are (previous theorem).
Not covered: that the parser only reports tokens of the list it was given (true by construction: it
iterates over `&'t [Token]`), character boundaries (swept). -/
theorem parse_error_spans_in_bounds_partial (wholeLen : Nat) (toks : List (Nat × Nat))
    (h : ∀ sp ∈ toks, sp.1 ≤ sp.2 ∧ sp.2 ≤ wholeLen) (pick : Option Nat) (hp : ∀ i, pick = some i → i < toks.length) :
    ∃ sp, parseErrSpan wholeLen toks pick = .ok sp ∧ sp.1 ≤ sp.2 ∧ sp.2 ≤ wholeLen :=
  L.parseErrSpan_ok wholeLen toks h pick hp

/-! ### `native_env_shape`, round 2 -/

/-- for EVERY native signature σ, the environment `bind_vars` builds has exactly the shape the
native's `pop_var`/`pop_fun` calls (newest first) expect: no `panic!()` arm, and the caller's
environment is what remains -/
theorem native_env_shape (σ env : List BK) : popAll σ.reverse (bindVars σ env) = .ok env :=
  L.popAll_bindVars σ env

/-- popping the wrong kind / too much panics (not vacuous): `limit`'s signature is `[var, fn]` -/
theorem native_env_wrong_order_panics : popAll [.var, .fn] (bindVars [.var, .fn] []) = .error .panic := by rfl

theorem native_env_too_many_pops_panics : popAll [.var, .var] (bindVars [.var] []) = .error .panic := by rfl

end Jaq.C05
