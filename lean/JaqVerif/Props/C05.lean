/-
  C05 — property theorems: the kernels of `JaqVerif/C05/Kernels.lean` (Rust's checked semantics)
  cannot panic under exactly the guard their callers establish, for ALL inputs.
  Where the current tree can panic the statement is `…_partial` with the guard, next to a proved
  witness and the statement for the repaired code.
-/
import JaqVerif.Lemmas.C05

namespace Jaq.C05

/-! ### positions: `PosUsize::wrap`, `abs_index`, `abs_bound`, `skip_take`, `a[i]` -/

/-- `abs_index` only returns indices inside the container -/
theorem absIndex_lt (p : PosUsize) (len i : Nat) (h : absIndex p len = some i) : i < len :=
  L.absIndex_lt p len i h

/-- `a[i]` after `abs_index` never indexes out of bounds -/
theorem indexAfterAbs_noPanic (p : PosUsize) (len : Nat) : indexAfterAbs p len ≠ .error .panic :=
  L.indexAfterAbs_noPanic p len

/-- `skip_take` yields a range inside `[0, len]` for every pair of bounds -/
theorem skipTake_in_bounds (lo hi : Option PosUsize) (len : Nat) :
    (skipTake lo hi len).1 ≤ len ∧ (skipTake lo hi len).1 + (skipTake lo hi len).2 ≤ len :=
  L.skipTake_in_bounds lo hi len

/-- `b.slice(skip..skip+take)` / `a.splice(skip..skip+take, …)` with the result of `skip_take`:
no overflow of `skip + take`, no slice out of bounds (a buffer's length fits `usize`) -/
theorem rangeOfSkipTake_noPanic (lo hi : Option PosUsize) (len : Nat) (hlen : len ≤ U64MAX) :
    rangeOfSkipTake len (skipTake lo hi len) ≠ .error .panic :=
  L.rangeOfSkipTake_noPanic lo hi len hlen

/-- caller's guarantee for `c - 1` in `skip_take_chars`: a negative position produced by
`Num::as_pos_usize` has magnitude ≥ 1 -/
theorem asPosUsize_negative_ge_one (n : Num) (m : Nat) (h : asPosUsize n = some (false, m)) : 1 ≤ m :=
  L.asPosUsize_negative_ge_one n m h

/-- a big integer of any size becomes a position that fits `usize` (saturation, no `unwrap` on `None`) -/
theorem asPosUsize_big_fits (i : Int) (p : PosUsize) (h : asPosUsize (.big i) = some p) : p.2 ≤ U64MAX :=
  L.asPosUsize_big_fits i p h

/-- `byte_index` (hence `chars.nth_back(c - 1)`) does not underflow under that guarantee -/
theorem byteIndex_noPanic (starts : List Nat) (len : Nat) (p : PosUsize) (h : p.1 = false → 1 ≤ p.2) :
    byteIndex starts len p ≠ .error .panic :=
  L.byteIndex_noPanic starts len p h

/-- `skip_take_chars` yields a byte range inside the string when the character offsets are -/
theorem skipTakeChars_in_bounds (starts : List Nat) (len : Nat) (lo hi : Option PosUsize)
    (hs : ∀ x ∈ starts, x ≤ len)
    (hlo : ∀ p, lo = some p → p.1 = false → 1 ≤ p.2) (hhi : ∀ p, hi = some p → p.1 = false → 1 ≤ p.2) :
    ∃ s t, skipTakeChars starts len lo hi = .ok (s, t) ∧ s ≤ len ∧ s + t ≤ len :=
  L.skipTakeChars_in_bounds starts len lo hi hs hlo hhi

example : skipTakeChars [0, 1, 3, 6] 10 (some (false, 2)) none = .ok (3, 7) := by rfl

/-! ### `bytes_splice` -/

/-- all of `b.len() - take`, `skip + take..b.len()`, `resize`, `copy_within`, `b[skip..skip+r]`
are in range whenever `(skip, take)` is a range of the buffer (as `skip_take*` guarantee) and
both buffers fit in memory together; the final length is `len - take + rlen` -/
theorem bytesSplice_noPanic (len skip take rlen : Nat) (h : skip + take ≤ len) (hm : len + rlen ≤ U64MAX) :
    bytesSplice len skip take rlen = .ok (len - take + rlen) :=
  L.bytesSplice_ok len skip take rlen h hm

/-- without the caller's guarantee it does panic (`take > len`) -/
theorem bytesSplice_needs_guard : bytesSplice 2 0 3 0 = .error .panic := by rfl

theorem spliceSpec_length (b r : List UInt8) (skip take : Nat) (h : skip + take ≤ b.length) :
    (spliceSpec b skip take r).length = b.length - take + r.length :=
  L.spliceSpec_length b r skip take h

/-! ### `implode` / `explode` -/

/-- CURRENT tree: `u8::try_from(-i)` is safe for every `isize` except `isize::MIN` -/
theorem implodeStep_noPanic_partial (i : Int) (h : i ≠ IMIN) : implodeStep i ≠ .error .panic :=
  L.implodeStep_noPanic_partial i h

/-- … and `[isize::MIN] | implode` panics ("attempt to negate with overflow") -/
theorem implodeStep_panics_witness : implodeStep IMIN = .error .panic := by rfl

/-- full statement, for the repaired body (`checked_neg`): no panic for ANY `isize` -/
theorem implodeStepFixed_noPanic (i : Int) : implodeStepFixed i ≠ .error .panic :=
  L.implodeStepFixed_noPanic i

/-- the repair changes nothing else -/
theorem implodeStepFixed_agrees (i : Int) (h : i ≠ IMIN) : implodeStepFixed i = implodeStep i :=
  L.implodeStepFixed_agrees i h

/-- `explode` never overflows on bytes and scalar values … -/
theorem explodeItem_noPanic (x : Piece) (hb : ∀ b, x = .byte b → b ≤ 255) (hc : ∀ c, x = .char c → c ≤ 0x10FFFF) :
    explodeItem x ≠ .error .panic :=
  L.explodeItem_noPanic x hb hc

/-- … and `implode` maps every item of `explode` back (non-zero bytes and non-zero scalar values;\n`0` is read back as the byte 0, which is the same UTF-8) -/
theorem implode_explode (x : Piece) (i : Int)
    (hx : (∃ b, x = .byte b ∧ 1 ≤ b ∧ b ≤ 255) ∨ (∃ c, x = .char c ∧ 1 ≤ c ∧ isScalar ((c : Int)) = true))
    (h : explodeItem x = .ok i) : implodeStep i = .ok x :=
  L.implode_explode x i hx h

/-! ### conversions -/

theorem bigintToIntSaturated_range (i : Int) : IMIN ≤ bigintToIntSaturated i ∧ bigintToIntSaturated i ≤ IMAX :=
  L.sat_range i

/-- CBOR negative integers: `neg as i128 ^ !0` cannot overflow `i128` for any `u64` -/
theorem cborNegative_noPanic (neg : Nat) (h : neg ≤ U64MAX) : cborNegative neg = .ok (-((neg : Int)) - 1) :=
  L.cborNegative_ok neg h

theorem withSizeCapacity_le (size : Nat) : withSizeCapacity size ≤ 1024 := by
  unfold withSizeCapacity; omega

/-! ### lexer: `space`, `with_consumed`, error spans -/

/-- whatever `space` leaves as a suffix really is a suffix of its input (both trees) -/
theorem space_suffix (fixed : Bool) (s t : List Char) (h : spaceAll fixed s = .suffix t) : t <:+ s :=
  L.spaceAll_suffix fixed s t h

/-- `with_consumed` (`start.len() - self.i.len()`, `&start[..n]`) is safe for a suffix -/
theorem consumedLen_noPanic (s t : List Char) (h : t <:+ s) : consumedLen s (.suffix t) ≠ .error .panic :=
  L.consumedLen_noPanic s t h

/-- CURRENT tree: the span of the error reported after `space` lies inside the filter text
*provided* `space` did not end in a comment without newline -/
theorem lex_spans_in_bounds_partial (pre s t : List Char) (h : spaceAll false s = .suffix t) :
    ∃ a b, spanOf (pre ++ s) (.suffix t) = .ok (a, b) ∧ a ≤ b ∧ b ≤ (pre ++ s).length :=
  L.span_in_bounds pre s t (L.spaceAll_suffix false s t h)

/-- … and it does not on `[#`: the reported "found" string is not part of the text, `load::span` panics -/
theorem lex_span_panics_witness : spanOf ['[', '#'] (spaceAll false ['#']) = .error .panic := by rfl

/-- full statement, for the repaired lexer: every span reported after `space` is inside the text -/
theorem lex_spans_in_bounds (pre s : List Char) :
    ∃ a b, spanOf (pre ++ s) (spaceAll true s) = .ok (a, b) ∧ a ≤ b ∧ b ≤ (pre ++ s).length :=
  L.span_in_bounds_fixed pre s

/-! ### compiler: balance of the scope stack (`MapVecLen::pop`, `pop_parent`, `close_module`) -/

variable {K : Type} [DecidableEq K]

/-- `pop` directly after `push` satisfies its assertion and restores the stack -/
theorem pop_push (s : Scopes K) (k : K) : (s.push k).pop k = .ok s := L.pop_push s k

/-- popping in reverse order what `with_vars` / `push_parent` pushed satisfies every assertion -/
theorem popAllRev_pushAll (s : Scopes K) (ks : List K) : (s.pushAll ks).popAllRev ks = .ok s :=
  L.popAllRev_pushAll s ks

/-- for EVERY term the compiler's walk fires no assertion and leaves the scope stack as it found it;
in particular `close_module`'s `assert!(self.locals.is_empty())` holds after compiling any module -/
theorem compile_scopes_balanced (t : Tm K) (s : Scopes K) : walk t s = .ok s := L.walk_balanced t s

/-- popping a name that is not on top fires the assertion (the model is not vacuous) -/
theorem pop_wrong_name_panics : (((Scopes.empty (K := Nat)).push 1 |>.push 2).pop 1).toBool = false := by
  decide

end Jaq.C05
