/- C06 — filters and data cannot make jaq touch files, network or other processes.

   What is proved here (model: JaqVerif/C06/{Effects,Trace}.lean):
   * the effect set of ANY program is the union of the hand-written rows of the natives it
     mentions (directly or through prelude definitions) — so what is observed per native
     (checks/c06.py: every native of the generated inventory under `strace`) lifts to all programs;
   * the monitor automaton that validates the observed system-call traces is sound and
     complete w.r.t. an independent inductive specification of "occurs in the exec phase":
     an accepted trace contains there no open-for-write/create, no change of the file system,
     no socket call, no process start, and opens/probes only command-line inputs or — only
     for programs with the `tzdb` effect — the time-zone database;
   * over the GENERATED inventory of the current tree: every native has a row
     (`inventory_closed`), prelude definitions reach natives only, and the natives that may
     touch the file system are exactly the local-time/zone-name filters and `repl`.
   Not proved (observed per run by the trace validation): that each native's real behaviour
   stays within its row. -/
import JaqVerif.Lemmas.C06

namespace Jaq.C06

open EffectSet

/-! ## effects are compositional -/

/-- core constructs (pipes, commas, arithmetic, paths, `reduce`, `try`, `if`, literals, …)
    contribute nothing: their effect is the union of their sub-terms' effects -/
theorem core_constructs_contribute_nothing (k : Core) (subs : Terms) :
    effectsOf (.core k subs) = effectsOfs subs := by
  simp only [effectsOf]

/-- calling a native contributes exactly its row -/
theorem native_call_contributes_its_row (n : FnRef) (hn : isNative n = true)
    (hd : defTable.find? (fun d => d.1 == n) = none) : callEffect n = rowD n := by
  simp only [callEffect, expand, expandIn, hd, hn, if_true, List.map_cons, List.map_nil, joinAll_cons,
    joinAll_nil, union_pure]

mutual
theorem effectsOf_eq_join_mentions : ∀ t : Term, effectsOf t = joinAll ((mentions t).map callEffect)
  | .core k subs => by
    simp only [effectsOf, mentions]; exact effectsOfs_eq_join_mentions subs
  | .call name args => by
    simp only [effectsOf, mentions, List.map_cons, joinAll_cons]
    rw [effectsOfs_eq_join_mentions args]
  | .defs bodies rest => by
    simp only [effectsOf, mentions, List.map_append, joinAll_append]
    rw [effectsOfs_eq_join_mentions bodies, effectsOf_eq_join_mentions rest]
theorem effectsOfs_eq_join_mentions : ∀ ts : Terms, effectsOfs ts = joinAll ((mentionss ts).map callEffect)
  | .nil => by simp only [effectsOfs, mentionss, List.map_nil, joinAll_nil]
  | .cons t ts => by
    simp only [effectsOfs, mentionss, List.map_append, joinAll_append]
    rw [effectsOf_eq_join_mentions t, effectsOfs_eq_join_mentions ts]
end

/-- **Compositionality.**  The effect set of any program is the union of the rows of the
    natives it mentions (directly, or through the prelude definitions it calls). -/
theorem effects_compositional (t : Term) : effectsOf t = joinAll ((nativesOf t).map rowD) := by
  rw [effectsOf_eq_join_mentions, nativesOf, joinAll_flatMap]
  rfl

/-- every native a program mentions has its row below the program's effect set … -/
theorem row_le_effectsOf (t : Term) (n : FnRef) (h : n ∈ nativesOf t) : le (rowD n) (effectsOf t) = true := by
  rw [effects_compositional]
  exact le_joinAll_of_mem (List.mem_map_of_mem h)

/-- … and a program can touch the file system only if it mentions a native whose row says so -/
theorem fs_effect_comes_from_a_native (t : Term) (h : (effectsOf t).fsAccess = true) :
    ∃ n ∈ nativesOf t, (rowD n).fsAccess = true := by
  rw [effects_compositional] at h
  obtain ⟨a, ha, hfs⟩ := fsAccess_joinAll _ h
  obtain ⟨n, hn, rfl⟩ := List.mem_map.mp ha
  exact ⟨n, hn, hfs⟩

/-! ## the monitor -/

/-- **Soundness of the monitor**, for ALL traces and policies: if the monitor accepts, every event
    that occurs in the exec phase is permitted, i.e. the exec phase contains
    no open-for-write/create, no rename/link/unlink/mkdir/chmod/truncate/…, no socket/connect/…,
    no fork/exec/clone-as-process, no unclassified call, and every read-open or probe is of a path
    in the allowed set (command-line input, or time-zone database when the policy has `tzdb`,
    or anything for the interactive `repl`). -/
theorem monitor_sound (pol : Policy) (tr : List Event) (h : accepts pol tr = true) :
    ∀ e, ExecEvent .load tr e →
      (∀ p, e ≠ .openWrite p) ∧ (∀ c p, e ≠ .mutate c p) ∧ (∀ c, e ≠ .net c) ∧ (∀ c, e ≠ .proc c) ∧
      (∀ c, e ≠ .unknown c) ∧
      (∀ p, e = .openRead p ∨ e = .probe p → allowedRead pol p = true) ∧
      (e = .readStdin → (pol.eff.cursor || pol.eff.repl) = true) ∧
      (e = .writeStderr → (pol.eff.log || pol.eff.repl) = true) ∧
      (e = .writeStdout → (pol.stdout || pol.eff.repl) = true) := by
  intro e he
  have hacc : (runFrom pol MState.init tr).verdict = .accept := by
    simpa [accepts, monitor] using h
  have hp : permitted pol e = true := runFrom_sound pol tr MState.init .load rfl hacc e he
  refine ⟨?_, ?_, ?_, ?_, ?_, ?_, ?_, ?_, ?_⟩
  · intro p hp'; subst hp'; simp [permitted] at hp
  · intro c p hp'; subst hp'; simp [permitted] at hp
  · intro c hp'; subst hp'; simp [permitted] at hp
  · intro c hp'; subst hp'; simp [permitted] at hp
  · intro c hp'; subst hp'; simp [permitted] at hp
  · intro p hp'
    rcases hp' with rfl | rfl <;> simpa [permitted] using hp
  · intro hp'; subst hp'; simpa [permitted] using hp
  · intro hp'; subst hp'; simpa [permitted] using hp
  · intro hp'; subst hp'; simpa [permitted] using hp

/-- **Completeness of the monitor**: it raises no alarm of its own — if every exec-phase event is
    permitted by the policy, the trace is accepted. -/
theorem monitor_complete (pol : Policy) (tr : List Event)
    (h : ∀ e, ExecEvent .load tr e → permitted pol e = true) : accepts pol tr = true := by
  have := runFrom_complete pol tr MState.init .load rfl rfl h
  simp [accepts, monitor, this]

/-- an exec-phase event of a trace is an exec-phase event of every extension of the trace -/
theorem execEvent_append {ph : Phase} {tr : List Event} {e : Event} (more : List Event)
    (h : ExecEvent ph tr e) : ExecEvent ph (tr ++ more) e := by
  induction h with
  | here => exact .here
  | there _ ih => exact .there ih

/-- **Rejection is permanent** (the monitored property is a safety property): whatever happens
    later cannot make a forbidden exec-phase event acceptable — if an extension of a trace is
    accepted then so is the trace itself; equivalently, once a prefix is rejected every
    continuation is rejected. -/
theorem rejection_is_permanent (pol : Policy) (tr more : List Event)
    (h : accepts pol (tr ++ more) = true) : accepts pol tr = true := by
  have hacc : (runFrom pol MState.init (tr ++ more)).verdict = .accept := by
    simpa [accepts, monitor] using h
  exact monitor_complete pol tr (fun e he =>
    runFrom_sound pol (tr ++ more) MState.init .load rfl hacc e (execEvent_append more he))

/-- nothing is constrained before the begin marker: the load phase may read modules and data -/
theorem load_phase_unconstrained (pol : Policy) (tr : List Event) (h : tr.contains .markBegin = false) :
    accepts pol tr = true := by
  apply monitor_complete
  intro e he
  exfalso
  have key : ∀ (tr : List Event) (ph : Phase), ph = .load → tr.contains Event.markBegin = false →
      ∀ e, ¬ ExecEvent ph tr e := by
    intro tr
    induction tr with
    | nil => intro ph _ _ e he; cases he
    | cons e' tr ih =>
      intro ph hph hc e he
      subst hph
      cases he with
      | there he2 =>
        have hne : e' ≠ Event.markBegin := by
          intro heq; subst heq; simp at hc
        have hc' : tr.contains Event.markBegin = false := by
          simp only [List.contains_cons, Bool.or_eq_false_iff] at hc; exact hc.2
        have hn : Phase.load.next e' = .load := by
          cases e' <;> first | rfl | exact absurd rfl hne
        exact ih _ hn hc' e he2
  exact key tr .load rfl h e he

/-- the time-zone exception cannot be used to leave the database: a permitted tz path has no
    `..` segment and starts with one of the database roots -/
theorem tzPath_stays_inside (p : Path) (h : tzPath p = true) :
    ".." ∉ p ∧ ∃ r ∈ tzRoots, r.isPrefixOf p = true := by
  simp only [tzPath, Bool.and_eq_true, List.any_eq_true] at h
  refine ⟨?_, h.2⟩
  intro hm
  have := (List.all_eq_true.mp h.1) ".." hm
  simp at this

/-- a program without the `tzdb`/`repl` effect, run by a host that names no input files, opens
    and probes NO path at all while executing (if its trace is accepted) -/
theorem program_without_fs_effect_opens_nothing (t : Term) (host : EffectSet) (out : Bool) (tr : List Event)
    (hfs : (effectsOf t ∪ host).fsAccess = false)
    (h : accepts { eff := effectsOf t ∪ host, inputs := [], stdout := out } tr = true) :
    ∀ e, ExecEvent .load tr e → ∀ p, e ≠ .openRead p ∧ e ≠ .probe p ∧ e ≠ .openWrite p := by
  intro e he p
  have hs := monitor_sound _ tr h e he
  have hno : allowedRead { eff := effectsOf t ∪ host, inputs := [], stdout := out } p = false := by
    simp only [fsAccess, Bool.or_eq_false_iff] at hfs
    simp [allowedRead, hfs.1, hfs.2]
  refine ⟨?_, ?_, hs.1 p⟩
  · intro heq
    have := hs.2.2.2.2.2.1 p (Or.inl heq)
    rw [hno] at this; cases this
  · intro heq
    have := hs.2.2.2.2.2.1 p (Or.inr heq)
    rw [hno] at this; cases this

/-! ## facts about the generated inventory of the current tree -/

/-- **The inventory is closed**: every native filter of the current tree has a hand-written
    effect row.  A new native without a row makes this fail to build
    (checks/c06.py then names it: `c06.missing`). -/
theorem inventory_closed : ∀ n ∈ Gen.natives, (rowOf n).isSome = true := by
  decide +kernel

/-- what a prelude definition reaches are natives of the inventory (no dangling names that
    could later be bound to something with an effect) or nothing -/
theorem defs_reach_natives_only : ∀ d ∈ defTable, ∀ n ∈ d.2, isNative n = true := by
  decide +kernel

/-- the natives whose row permits any access to the file system are exactly the local-time /
    zone-name filters and the interactive `repl` (the exceptions named by the property) -/
theorem natives_with_fs_effect :
    Gen.natives.filter (fun n => (rowD n).fsAccess) =
      [("strflocaltime", 1), ("localtime", 0), ("strptime", 1), ("repl", 0)] := by
  decide +kernel

/-- the prelude definitions that can reach such a native: none on the current tree -/
theorem defs_with_fs_effect : defTable.filter (fun d => (joinAll (d.2.map rowD)).fsAccess) = [] := by
  decide +kernel

/-- **Pure natives have no file-system effect**: for every native of the inventory other than the
    time-zone filters and `repl`, the policy derived from its row permits opening or probing
    no path whatsoever, and never a write, a change of the file system, a socket or a process. -/
theorem pure_natives_have_no_fs_effect (n : FnRef) (hn : n ∈ Gen.natives)
    (hx : n ∉ [("strflocaltime", 1), ("localtime", 0), ("strptime", 1), ("repl", 0)]) (out : Bool) (e : Event) :
    permitted { eff := rowD n, inputs := [], stdout := out } e = true →
      (∀ p, e ≠ .openRead p) ∧ (∀ p, e ≠ .probe p) ∧ (∀ p, e ≠ .openWrite p) ∧ (∀ c p, e ≠ .mutate c p) ∧
      (∀ c, e ≠ .net c) ∧ (∀ c, e ≠ .proc c) := by
  intro hp
  have hfs : (rowD n).fsAccess = false := by
    cases h : (rowD n).fsAccess with
    | false => rfl
    | true =>
      have : n ∈ Gen.natives.filter (fun n => (rowD n).fsAccess) := List.mem_filter.mpr ⟨hn, h⟩
      rw [natives_with_fs_effect] at this
      exact absurd this hx
  simp only [fsAccess, Bool.or_eq_false_iff] at hfs
  refine ⟨?_, ?_, ?_, ?_, ?_, ?_⟩
  · intro p he; subst he; simp [permitted, allowedRead, hfs.1, hfs.2] at hp
  · intro p he; subst he; simp [permitted, allowedRead, hfs.1, hfs.2] at hp
  · intro p he; subst he; simp [permitted] at hp
  · intro c p he; subst he; simp [permitted] at hp
  · intro c he; subst he; simp [permitted] at hp
  · intro c he; subst he; simp [permitted] at hp

/-! ## concrete instances (the hypotheses above are satisfiable, the verdicts are not trivial) -/

/-- `[.[] | debug | now]` has effects {clock, log} … -/
example : effectsOf (.core .arr (.cons (.core .binop (.cons (.core .path .nil)
    (.cons (.core .binop (.cons (.call "debug" .nil) (.cons (.call "now" .nil) .nil))) .nil))) .nil))
    = { clock := true, log := true } := by decide +kernel

/-- … `map(localtime)` may read the tz database, `map(gmtime)` may not -/
example : (effectsOf (.call "map" (.cons (.call "localtime" .nil) .nil))).fsAccess = true := by decide +kernel
example : (effectsOf (.call "map" (.cons (.call "gmtime" .nil) .nil))).fsAccess = false := by decide +kernel

/-- a trace that opens `/etc/passwd` after the marker is rejected, before the marker it is not -/
example : monitor { eff := pure } [.openRead ["etc", "ld.so.cache"], .markBegin, .openRead ["etc", "passwd"], .markEnd]
    = .reject 2 .readOutside := by decide
example : accepts { eff := pure } [.openRead ["etc", "passwd"], .markBegin, .markEnd, .writeStdout] = true := by decide
/-- the tz database may be read only with the `tzdb` effect, and never through `..` -/
example : accepts { eff := eTzdb } [.markBegin, .openRead ["usr", "share", "zoneinfo", "Etc", "UTC"]] = true := by decide
example : accepts { eff := eClock } [.markBegin, .openRead ["usr", "share", "zoneinfo", "Etc", "UTC"]] = false := by decide
example : accepts { eff := eTzdb } [.markBegin, .openRead ["usr", "share", "zoneinfo", "..", "..", "..", "etc", "passwd"]]
    = false := by decide
/-- writes, sockets and processes are rejected whatever the effect set (even `repl`) -/
example : monitor { eff := top } [.markBegin, .thread, .proc "execve"] = .reject 2 .process := by decide
example : monitor { eff := top } [.markBegin, .net "socket"] = .reject 1 .network := by decide
example : monitor { eff := eLog } [.markBegin, .writeStderr, .openWrite ["tmp", "log"]] = .reject 2 .writeOpen := by decide

end Jaq.C06
