/-
  C14 — every supported data format round-trips values on its documented domain.
  Property theorems about the impl-models in `JaqVerif/C14/*.lean` (helper lemmas in
  `Lemmas/C14*.lean`).  Third-party components are arguments / recorded contracts:
  saphyr (`saphyrPlain`, `plainContract`), base64 (`b64enc/b64dec`), ryu (`fmt`),
  `String::from_utf8_lossy` (`lossy`), ciborium's byte-level header codec, toml_span,
  xmlparser (abstract token streams `Xml.Tok`, contract of `Xml.render`).
-/
import JaqVerif.Lemmas.C14Yaml
import JaqVerif.Lemmas.C14Tab
import JaqVerif.Lemmas.C14Cbor
import JaqVerif.Lemmas.C14Toml
import JaqVerif.Lemmas.C14Xml

namespace Jaq.C14.Props
open Jaq Jaq.C14 Jaq.C14.Yaml

/-! ## YAML -/

/- FULL STATEMENT (DESIGN §6 C14), **false on the current tree** (finding F-14):

     theorem yaml_plain_is_string (s : Bytes) (h : mustQuote s = false) :
         plainContract s = true ∧ readPlain s = .ok (.tstr s)

   i.e. a string the writer leaves unquoted is read back as that very string, blanks included.
   Counterexamples on the model (= on the real code, by the correspondence): `yaml_f14_*` below.
   It is proved (a) for the current `must_quote` under the three guards that are exactly what the
   proposed fix adds (`yaml_plain_is_string_partial`), and (b) without guards for the fixed
   `must_quote` (`yaml_plain_is_string_fixed`). -/

/-- A string that the CURRENT writer leaves plain is read back as itself PROVIDED it does not end
in a blank, is not number-like after an optional sign (`+1 .5 -.5 +.inf …`) — and, for the
scanner contract to apply, is not led by a document marker.  What is missing for the full
statement: these guards (F-14). -/
theorem yaml_plain_is_string_partial (s : Bytes) (hq : mustQuote s = false)
    (hblank : endsWhite s = false) (hnum : isNumFixed s = false) (_hdoc : docMarkerLed s = false) :
    saphyrPlain s = s ∧ readPlain s = .ok (.tstr s) :=
  ⟨YamlLemmas.dropTrailingWhite_id s hblank, YamlLemmas.readPlain_of_guards s hq hblank hnum⟩

example : mustQuote [43, 97] = false ∧ endsWhite [43, 97] = false ∧ isNumFixed [43, 97] = false ∧
    docMarkerLed [43, 97] = false := by decide   -- "+a" satisfies the hypotheses

/-- With the FIXED `must_quote` the full statement holds for every byte string: what is left plain
satisfies the scanner contract, keeps its blanks, and resolves to the same string. -/
theorem yaml_plain_is_string_fixed (s : Bytes) (h : mustQuoteFixed s = false) :
    plainContract s = true ∧ saphyrPlain s = s ∧ readPlain s = .ok (.tstr s) := by
  obtain ⟨hq, hw, hn, hc⟩ := YamlLemmas.mustQuoteFixed_false s h
  exact ⟨hc, YamlLemmas.dropTrailingWhite_id s hw, YamlLemmas.readPlain_of_guards s hq hw hn⟩

/-- The fix only adds quotes: whatever the current writer quotes stays quoted. -/
theorem yaml_fix_only_adds_quotes (s : Bytes) (h : mustQuote s = true) : mustQuoteFixed s = true := by
  cases hf : mustQuoteFixed s with
  | true => rfl
  | false => rw [(YamlLemmas.mustQuoteFixed_false s hf).1] at h; cases h

/-- The work-around for `yaml-flow:blank-dash-end` (quote strings ending in blank + `-`) only adds
quotes, so `yaml_plain_is_string_fixed` holds for it as well; and the witness `"a -"` is plain
before and quoted after. -/
theorem yaml_blank_dash_fix_only_adds_quotes (s : Bytes) (h : mustQuoteFixed2 s = false) :
    plainContract s = true ∧ saphyrPlain s = s ∧ readPlain s = .ok (.tstr s) := by
  unfold mustQuoteFixed2 at h
  simp only [Bool.or_eq_false_iff] at h
  exact yaml_plain_is_string_fixed s h.1

theorem yaml_blank_dash_witness :
    mustQuoteFixed [97, 32, 45] = false ∧ mustQuoteFixed2 [97, 32, 45] = true ∧
    mustQuoteFixed2 [97, 45] = false ∧ mustQuoteFixed2 [97, 32, 45, 32, 98] = false := by decide

/-- F-14, sign-led numbers: `"+1" "+0x1F" "+12e03"` are left plain and read back as numbers. -/
theorem yaml_f14_sign_led :
    (mustQuote [43,49] = false ∧ readPlain [43,49] = .ok (.num (.int 1))) ∧
    (mustQuote [43,48,120,49,70] = false ∧
      ∃ n, readPlain [43,48,120,49,70] = .ok (.num n) ∧ n.intVal? = some 31) ∧
    (mustQuote [43,49,50,101,48,51] = false ∧ ∃ t, readPlain [43,49,50,101,48,51] = .ok (.num (.dec t))) :=
  ⟨⟨by rfl, by rfl⟩, ⟨by rfl, ⟨_, by rfl, by decide +kernel⟩⟩, ⟨by decide +kernel, ⟨_, by rfl⟩⟩⟩

/-- F-14, dot-led numbers: `".5" "-.5" "-.inf" "+.inf"`. -/
theorem yaml_f14_dot_led :
    (mustQuote [46,53] = false ∧ ∃ t, readPlain [46,53] = .ok (.num (.dec t))) ∧
    (mustQuote [45,46,53] = false ∧ ∃ t, readPlain [45,46,53] = .ok (.num (.dec t))) ∧
    (mustQuote [45,46,105,110,102] = false ∧ readPlain [45,46,105,110,102] = .ok (.num (.float F64.negInf))) ∧
    (mustQuote [43,46,105,110,102] = false ∧ readPlain [43,46,105,110,102] = .ok (.num (.float F64.posInf))) :=
  ⟨⟨by rfl, ⟨_, by rfl⟩⟩, ⟨by rfl, ⟨_, by rfl⟩⟩, ⟨by rfl, by rfl⟩, ⟨by rfl, by rfl⟩⟩

/-- F-14, trailing blanks: `"a "` loses its blank, `"null "` becomes null, `"on "` becomes `"on"`. -/
theorem yaml_f14_trailing_blank :
    (mustQuote [97,32] = false ∧ readPlain [97,32] = .ok (.tstr [97])) ∧
    (mustQuote [110,117,108,108,32] = false ∧ readPlain [110,117,108,108,32] = .ok .null) ∧
    (mustQuote [111,110,32] = false ∧ readPlain [111,110,32] = .ok (.tstr [111,110])) :=
  ⟨⟨by rfl, by rfl⟩, ⟨by rfl, by rfl⟩, ⟨by rfl, by rfl⟩⟩

/-- F-14 (new): `"--- a"` / `"... a"` are left plain although the scanner contract does not cover
them (a document marker followed by a blank starts/ends a document). -/
theorem yaml_f14_doc_marker_led :
    mustQuote [45,45,45,32,97] = false ∧ plainContract [45,45,45,32,97] = false ∧
    mustQuote [46,46,46,32,97] = false ∧ plainContract [46,46,46,32,97] = false := by decide

/-- the fixed `must_quote` quotes every F-14 witness -/
theorem yaml_fix_covers_witnesses :
    ([[43,49], [46,53], [45,46,53], [45,46,105,110,102], [43,46,105,110,102], [43,48,120,49,70],
      [43,49,50,101,48,51], [97,32], [110,117,108,108,32], [111,110,32], [45,45,45,32,97], [46,46,46,32,97]] :
      List Bytes).all mustQuoteFixed = true := by decide

/-- `yaml_scalar_roundtrip`, integers of ANY size and representation: the decimal text the writer
produces is resolved by the reader (untagged plain scalar) to an integer of the same value. -/
theorem yaml_int_roundtrip (d : Bytes → Option Bytes) (i : Int) :
    ∃ n', parsePlainScalar d (showInt i) none = .ok (.num n') ∧ n'.intVal? = some i := by
  obtain ⟨n', hp, hv⟩ := YamlLemmas.parseInt_showInt i
  refine ⟨n', ?_, hv⟩
  -- the text starts with a digit or `-`, so no keyword arm fires
  have hshape : ∃ c r, showInt i = c :: r ∧ (isDigit c || c == 45) = true := by
    unfold showInt
    split
    · exact ⟨45, _, rfl, by decide⟩
    · obtain ⟨c, r, hc, hd, _, _⟩ := YamlLemmas.decDigits_shape i.natAbs
      exact ⟨c, r, hc, by simp [hd]⟩
  obtain ⟨c, r, hs, hc⟩ := hshape
  obtain ⟨hk, ht⟩ := YamlLemmas.not_kw_of_head c r hc
  rw [← hs] at hk ht
  obtain ⟨h1, h2, h3, h4⟩ := YamlLemmas.not_kw (showInt i) hk
  simp [parsePlainScalar, isNullWord, isTrueWord, isFalseWord, h1, h2, h3, h4, ht, hp]

/-- `yaml_scalar_roundtrip`, the other scalars: null, booleans, the special floats, byte strings
(base64 is a parameter with its inversion contract), and text strings under either quoting
decision of the FIXED writer.  (Finite floats / decimal literals: their text is ryu's / the
literal itself and is read as a decimal literal of that text — `parseFloat`, exercised by the
correspondence.) -/
theorem yaml_scalar_roundtrip (fmt : UInt64 → Bytes) (enc : Bytes → Bytes) (dec : Bytes → Option Bytes)
    (hb64 : ∀ b, dec ((enc b).filter fun c => !isWhitespaceAscii c) = some b) :
    (∀ e, writeScalar mustQuoteFixed fmt enc .null = some e → readScalar dec e = .ok .null) ∧
    (∀ b e, writeScalar mustQuoteFixed fmt enc (.bool b) = some e → readScalar dec e = .ok (.bool b)) ∧
    (∀ e, writeScalar mustQuoteFixed fmt enc (.num (.float F64.posInf)) = some e →
      readScalar dec e = .ok (.num (.float F64.posInf))) ∧
    (∀ e, writeScalar mustQuoteFixed fmt enc (.num (.float F64.negInf)) = some e →
      readScalar dec e = .ok (.num (.float F64.negInf))) ∧
    (∀ e, writeScalar mustQuoteFixed fmt enc (.num (.float F64.nan)) = some e →
      readScalar dec e = .ok (.num (.float F64.nan))) ∧
    (∀ b e, writeScalar mustQuoteFixed fmt enc (.bstr b) = some e → readScalar dec e = .ok (.bstr b)) ∧
    (∀ s e, writeScalar mustQuoteFixed fmt enc (.tstr s) = some e → readScalar dec e = .ok (.tstr s)) := by
  refine ⟨?_, ?_, ?_, ?_, ?_, ?_, ?_⟩
  · intro e h; simp only [writeScalar, Option.some.injEq] at h; subst h; rfl
  · intro b e h; cases b <;> (simp only [writeScalar, Option.some.injEq] at h; subst h; rfl)
  · intro e h; simp only [writeScalar] at h; simp only [show (F64.posInf == F64.posInf) = true by decide, if_true, Option.some.injEq] at h; subst h; rfl
  · intro e h; simp only [writeScalar] at h
    simp only [show (F64.negInf == F64.posInf) = false by decide, show (F64.negInf == F64.negInf) = true by decide, Bool.false_eq_true, if_false, if_true, Option.some.injEq] at h
    subst h; rfl
  · intro e h; simp only [writeScalar] at h
    simp only [show (F64.nan == F64.posInf) = false by decide, show (F64.nan == F64.negInf) = false by decide, show F64.isNaN F64.nan = true by decide, Bool.false_eq_true, if_false, if_true, Option.some.injEq] at h
    subst h; rfl
  · intro b e h; simp only [writeScalar, Option.some.injEq] at h; subst h
    simp [readScalar, parsePlainScalar, hb64]
  · intro s e h; simp only [writeScalar, Option.some.injEq] at h
    cases hq : mustQuoteFixed s with
    | true => rw [hq] at h; simp only [if_true] at h; subst h; rfl
    | false =>
      rw [hq] at h; simp only [Bool.false_eq_true, if_false] at h; subst h
      obtain ⟨_, hid, hr⟩ := yaml_plain_is_string_fixed s hq
      simp only [readScalar]
      unfold readPlain at hr
      rw [hid] at hr ⊢
      -- `readPlain` passes a constant decoder; the string arm does not use it
      obtain ⟨hq', hw, hn, _⟩ := YamlLemmas.mustQuoteFixed_false s hq
      unfold mustQuote at hq'
      simp only [Bool.or_eq_false_iff] at hq'
      exact YamlLemmas.parsePlain_string dec s hq'.1.2 hq'.1.1.1.1 hn

/-! ## CSV / TSV -/

open Jaq.C14.Tab Jaq.C14.TabLemmas in
/-- `csv_roundtrip`: a non-empty row of scalars (null, booleans, ANY byte string, numbers whose
text is a number spelling — `CsvGood`) written by `tocsv` (no newline) or `--to csv` (newline) is
read back as exactly one row with the same fields.  `[]` vs `[null]` is the documented exception
(both are written as the empty line). -/
theorem csv_roundtrip (fmt : UInt64 → Bytes) (vs vs' : List Val) (hg : All2 (CsvGood fmt) vs vs')
    (hne : vs ≠ []) (nl : Bool) (hex : nl = false → vs ≠ [.null]) :
    readCsv (writeFields fmt writeCsvStr 44 vs ++ (if nl then [10] else [])) = [.arr vs'] :=
  read_one_row fmt writeCsvStr csvField 44 (by decide) (CsvGood fmt) (csv_field_inv fmt) rfl vs vs' hg hne nl hex

open Jaq.C14.Tab Jaq.C14.TabLemmas in
/-- any number of CSV rows, one per line (`--to csv`): read back row by row -/
theorem csv_rows_roundtrip (fmt : UInt64 → Bytes) (rows rows' : List (List Val))
    (h : AllRows (CsvGood fmt) rows rows') :
    readCsv (writeRows fmt writeCsvStr 44 rows) = rows'.map Val.arr :=
  read_rows fmt writeCsvStr csvField 44 (by decide) (CsvGood fmt) (csv_field_inv fmt) rfl rows rows' h _ (Nat.lt_succ_self _)

open Jaq.C14.Tab Jaq.C14.TabLemmas in
/-- `tsv_roundtrip`: a non-empty row of non-empty strings that do not spell a number or boolean
(`TsvGood`; ANY bytes, including tab, newline, CR, backslash, NUL) is read back as itself. -/
theorem tsv_roundtrip (fmt : UInt64 → Bytes) (vs vs' : List Val) (hg : All2 TsvGood vs vs')
    (hne : vs ≠ []) (nl : Bool) :
    readTsv (writeFields fmt writeTsvStr 9 vs ++ (if nl then [10] else [])) = [.arr vs'] := by
  refine read_one_row fmt writeTsvStr tsvField 9 (by decide) TsvGood (tsv_field_inv fmt) rfl vs vs' hg hne nl ?_
  intro _ h; subst h
  cases hg with
  | cons h _ => cases h

open Jaq.C14.Tab Jaq.C14.TabLemmas in
theorem tsv_rows_roundtrip (fmt : UInt64 → Bytes) (rows rows' : List (List Val)) (h : AllRows TsvGood rows rows') :
    readTsv (writeRows fmt writeTsvStr 9 rows) = rows'.map Val.arr :=
  read_rows fmt writeTsvStr tsvField 9 (by decide) TsvGood (tsv_field_inv fmt) rfl rows rows' h _ (Nat.lt_succ_self _)

open Jaq.C14.Tab Jaq.C14.TabLemmas in
/-- `TsvGood` relates a string only to itself: the round trip is the identity on the TSV domain -/
theorem tsv_good_is_identity (vs vs' : List Val) (h : All2 TsvGood vs vs') : vs' = vs := by
  induction h with
  | nil => rfl
  | cons hv _ ih => cases hv; rw [ih]

open Jaq.C14.Tab in
/-- `outside_domain_is_error` (tabular): the writers accept exactly the arrays of null / boolean /
number / text string; an array with any other element is `Error::Field`, a non-array `Error::Row`
— nothing outside the domain is written. -/
theorem tabular_outside_domain_is_error (fmt : UInt64 → Bytes) :
    (∀ a, a.all isFieldVal = true → (∃ b, writeCsv fmt (.arr a) = .ok b) ∧ ∃ b, writeTsv fmt (.arr a) = .ok b) ∧
    (∀ a, a.all isFieldVal = false → writeCsv fmt (.arr a) = .error .field ∧ writeTsv fmt (.arr a) = .error .field) ∧
    (∀ v, (∀ a, v ≠ .arr a) → writeCsv fmt v = .error .row ∧ writeTsv fmt v = .error .row) := by
  refine ⟨?_, ?_, ?_⟩
  · intro a h
    exact ⟨⟨_, by simp only [writeCsv, toRow, h, if_true]; rfl⟩, ⟨_, by simp only [writeTsv, toRow, h, if_true]; rfl⟩⟩
  · intro a h
    exact ⟨by simp only [writeCsv, toRow, h]; rfl, by simp only [writeTsv, toRow, h]; rfl⟩
  · intro v h
    cases v with
    | arr a => exact absurd rfl (h a)
    | _ => exact ⟨rfl, rfl⟩

/-! ## CBOR -/

open Jaq.C14.Cbor Jaq.C14.CborLemmas in
/-- `cbor_decode_encode`: for EVERY value (any nesting, any integer size; `Num::Int` payloads
within `isize`), parsing the items `encode` produced — followed by any further input — yields the
value up to the two documented exceptions made explicit by `cnorm` (a decimal literal becomes its
double, text is made valid UTF-8 by `lossy`), and leaves the further input untouched. -/
theorem cbor_decode_encode (lossy : Bytes → Bytes) (v : Val) (hw : wfInts v = true) (rest : List Item) :
    parse (cost v) (encode lossy v ++ rest) = .ok (cnorm lossy v, rest) :=
  (cbor_all lossy (cost v)).1 v (Nat.le_refl _) hw (cost v) (Nat.le_refl _) rest

example : Cbor.wfInts (.arr [.num (.int (-5)), .obj [(.tstr [97], .num (.big 18446744073709551616))]]) = true := by decide

open Jaq.C14.Cbor Jaq.C14.CborLemmas in
/-- more fuel never changes the result -/
theorem cbor_decode_encode_fuel (lossy : Bytes → Bytes) (v : Val) (hw : wfInts v = true) (rest : List Item)
    (fuel : Nat) (hf : cost v ≤ fuel) :
    parse fuel (encode lossy v ++ rest) = .ok (cnorm lossy v, rest) :=
  (cbor_all lossy (cost v)).1 v (Nat.le_refl _) hw fuel hf rest

open Jaq.C14.Cbor in
/-- on valid UTF-8 (`lossy` is the identity there) and without decimal literals nothing changes:
`cnorm` only touches `Dec` numbers and text -/
theorem cbor_cnorm_scalars (lossy : Bytes → Bytes) :
    cnorm lossy .null = .null ∧ (∀ b, cnorm lossy (.bool b) = .bool b) ∧
    (∀ i, cnorm lossy (.num (.int i)) = .num (.int i)) ∧ (∀ i, cnorm lossy (.num (.big i)) = .num (.big i)) ∧
    (∀ f, cnorm lossy (.num (.float f)) = .num (.float f)) ∧ (∀ b, cnorm lossy (.bstr b) = .bstr b) ∧
    (∀ s, cnorm lossy (.num (.dec s)) = .num (.float (F64.ofDec s))) ∧ (∀ s, cnorm lossy (.tstr s) = .tstr (lossy s)) := by
  refine ⟨rfl, fun _ => rfl, fun _ => rfl, fun _ => rfl, fun _ => rfl, fun _ => rfl, fun _ => rfl, fun _ => rfl⟩

open Jaq.C14.Cbor Jaq.C14.CborLemmas in
/-- the integer mapping in isolation: every `isize` goes through `Positive`/`Negative` and comes
back through `neg as i128 ^ !0`; bignum bytes invert. -/
theorem cbor_int_mapping (i : Int) (hw : fitsIsize i = true) (n : Nat) :
    parse 1 (encodeInt i) = .ok (.num (.int i), []) ∧ fromBytesBE (toBytesBE n) = n := by
  constructor
  · simpa using parse_int i hw 0 []
  · exact fromBytes_toBytes n

/-! ## TOML -/

open Jaq.C14.Toml Jaq.C14.TomlLemmas in
/-- `toml_domain_rejects_outside` (FIXED writer): whatever `totoml` accepts is an object whose
values are inside the documented domain — no null, no byte string, no non-string key, no integer
beyond 64 bits, at any depth.  Equivalently: everything outside is rejected with an error. -/
theorem toml_domain_rejects_outside (v : Val) (h : checkRoot true v = .ok ()) :
    (∃ o, v = .obj o) ∧ InDomain v := by
  unfold checkRoot at h
  cases hc : checkValue true v with
  | error e => rw [hc] at h; cases h
  | ok u =>
    rw [hc] at h
    refine ⟨?_, (toml_all v.size).1 v (Nat.le_refl _) hc⟩
    cases v <;> first | exact ⟨_, rfl⟩ | cases h

/- On the CURRENT tree the same statement is FALSE for integers beyond 64 bits (finding F-14c);
the manual documents this ("with the exception of big integers"). -/
open Jaq.C14.Toml in
/-- F-14c witness: `{a: 2^64}` is accepted by the current writer and rejected by the fixed one. -/
theorem toml_f14c_witness :
    checkRoot false (.obj [(.tstr [97], .num (.big 18446744073709551616))]) = .ok () ∧
    checkRoot true (.obj [(.tstr [97], .num (.big 18446744073709551616))]) = .error .val := by
  constructor <;> rfl

open Jaq.C14.Toml Jaq.C14.TomlLemmas in
/-- `toml_key_quoting_safe` (FIXED writer): a key written bare is lexed back, by the TOML grammar
of bare keys, as exactly that key, whatever follows it in jaq's output (` = …`, `.`, `]`). -/
theorem toml_key_quoting_safe (k tail : Bytes) (hb : keyIsBare true k = true)
    (ht : ∀ c r, tail = c :: r → isBareChar c = false) :
    lexBareKey (k ++ tail) = some (k, tail) := by
  simp only [keyIsBare, Bool.not_true, Bool.false_or, Bool.and_eq_true, Bool.not_eq_true'] at hb
  unfold lexBareKey
  rw [spanBare_all k tail hb.2 ht]
  simp [hb.1]

example : Toml.keyIsBare true [97, 45, 98] = true := by decide

open Jaq.C14.Toml in
/-- F-14b witness: the CURRENT writer takes the empty key for a bare key (writes ` = 1`), which no
TOML reader can lex as a key; the fixed writer quotes it. -/
theorem toml_f14b_witness :
    keyIsBare false [] = true ∧ lexBareKey ([] ++ [32, 61, 32, 49]) = none ∧ keyIsBare true [] = false := by
  decide


/-! ## XML -/

section XML
open Jaq.C14.Xml Jaq.C14.XmlLemmas

/-- `xml_fixpoint`: `fromxml | toxml | fromxml = fromxml`.
For EVERY token stream `ts` xmlparser can deliver (`tokOk`: qualified names have their colon only
between prefix and local name, an external-id literal does not contain both kinds of quote) on which
the reader succeeds with the values `vs`: the writer accepts every one of them (`ofVals vs = ok xs`:
`toxml` never rejects what `fromxml` yields — xmldecl with standalone, doctype with external id and
internal subset, PI, comment, CDATA, elements of any depth with any attributes incl. duplicates),
and the tokens of what it writes (`renderL`, the recorded xmlparser contract; `inner` = whatever
the tokenizer yields inside a DTD, only entity declarations / comments / PIs) are read back as
exactly `vs`.  No bound on depth, width or number of top-level items. -/
theorem xml_fixpoint (inner : S → List Tok) (hin : ∀ s, ∀ t ∈ inner s, innerTok t = true)
    (ts : List Tok) (hts : ∀ t ∈ ts, tokOk t = true) (vs : List Val) (h : parseMany ts = .ok vs) :
    ∃ xs, ofVals vs = .ok xs ∧ parseMany (renderL inner xs) = .ok vs := by
  obtain ⟨xs, hxs, hre⟩ := many inner hin (ts.length + 1) ts vs hts h
  exact ⟨xs, hxs, hre _ (Nat.le_refl _)⟩

/-- a non-trivial instance: `<?xml version="1" standalone="yes"?><!DOCTYPE a SYSTEM 'a"b' [<!ENTITY ..>]>
<x:a k="1" k="2" y:z="">t<b/><!--c--></x:a><?p?>` (duplicate attribute, prefixed names, nested element) -/
example : ∃ vs, parseMany [.decl [49] none (some true), .dtdStart [97] (some (.system [97,34,98])) [60], .entity, .dtdEnd,
      .estart [120] [97], .attr [] [107] [49], .attr [] [107] [50], .attr [121] [122] [], .eopen, .text [116],
      .estart [] [98], .eempty, .comment [99], .eclose [120] [97], .pi [112] none] = .ok vs ∧ vs.length = 4 := by
  exact ⟨_, rfl, rfl⟩

/-- the external id of a DOCTYPE survives: what the reader builds from the literals
(`SYSTEM "lit"`, with single quotes when the literal contains `"`) is parsed back by
`parse_external_id` (byte level) to the same literals — for all literals that do not contain both
kinds of quote (a literal cannot contain its own quote mark).  Before fix aeed175 the reader
dropped the quotes (finding `xml:doctype-external-id`). -/
theorem xml_doctype_external_roundtrip (e : Ext) (h : extOk (some e) = true) : parseExt (extStr e) = some e :=
  parseExt_extStr e h

/-- finding `xml:xmldecl-standalone` (fixed by aeed175), as a fact about the writer model: the value
the OLD reader produced (`standalone: true`, a boolean) is rejected by `toxml`, whereas the value the
current reader produces (`"yes"`) is accepted and denotes the same declaration. -/
theorem xml_standalone_bool_rejected :
    ofVal (Xml.singleton kXmldecl (.obj [(.tstr kVersion, .tstr [49]), (.tstr kStandalone, .bool true)])) = .error .entry ∧
    ofVal (declVal [49] none (some true)) = .ok (.xmldecl [(kVersion, [49]), (kStandalone, sYes)]) ∧
    declTok [(kVersion, [49]), (kStandalone, sYes)] = .decl [49] none (some true) := by
  refine ⟨by simp [ofVal, Xml.singleton, hasKey, keyBytes, kT, kXmldecl, kVersion, kStandalone, fromKvs], ?_, ?_⟩
  · exact ofVal_decl [49] none (some true)
  · exact declTok_declAttrs [49] none (some true)

/-- `toxml` keeps the attributes it is given in order, and attributes collected by the reader have
pairwise different names (IndexMap): reading them back changes nothing. -/
theorem xml_attrs_stable (a : List (S × S)) : collectS (collectS a) = collectS a := collectS_idem a

/-- finding `xml:attr-double-quote` (open; `design/fixes/C14-xml-attr-quote.diff`): the CURRENT
`write_kvs!` always uses `"`; an attribute value that contains `"` (legal between single quotes:
`<a x='"'/>`) is written as `x="""`, which is outside the contract of `render` (`attrValueOk`
fails), and is in fact rejected or re-read differently by the real reader.  The fixed writer
chooses `'` for such values; then every value without both kinds of quote — every value the
tokenizer can deliver — is written transparently. -/
theorem xml_attr_quote_witness :
    attrValueOk false [34] = false ∧ writeKvs false [([120], [34])] = [32, 120, 61, 34, 34, 34] ∧
    (∀ v : S, litOk v = true → attrValueOk true v = true) := by
  refine ⟨by decide, by decide, ?_⟩
  intro v hv
  unfold attrValueOk attrQuoteChar litOk at *
  cases h : v.contains 34 <;> simp_all

end XML

end Jaq.C14.Props
