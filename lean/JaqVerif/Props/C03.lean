/-
  C03 — streams are produced on demand; consumers of a prefix never run the rest.

  Model (see `JaqVerif/C03/{Defs,Ref,Iter}.lean`, tied to the code by `bin/check C03`):
    * `force`  — the reference: residual streams in the manual's left-to-right order; nothing is
                 evaluated when a stream is built, the rest of a stream is never looked at.
    * `mk`/`next`/`It.upper` — the interpreter: `Id::run` building iterator adapters, with what
                 the code already evaluates while building (`next_if_one` when the `size_hint`
                 upper bound is 1, `collect_if_once` on path index filters, the first `next()`
                 of the `//` arm, `first`, `input`).
    * round 2: `reduce`/`foreach` as `fold` (explicit stack) over the shared lazily memoised list of
                 `xs` (`It.fold`, against the reference's depth-first agenda `Th.fold`), definitions
                 with filter arguments (closures `Bind.fn`) and simple `$`-arguments (`callA`,
                 `tcallA`, `fvar`), `[f]` (`collect()` at construction), `l op r` (`cartesian`).
    * `World`  — unread inputs of the shared input stream + log of the values read.
    * `TakeS D k th w xs w'` / `TakeI D k it w xs w'` — a consumer takes `k` items: it gets `xs`
                 and stops in world `w'` (every pull terminates with some finite fuel).
  `D` is the list of top-level definitions (`call i`), `c` the context, `v` the input value.
-/
import JaqVerif.Lemmas.C03Gen

namespace Jaq.C03
variable {D : List T}

/-- hypothesis of the main theorem (`T.pureIdx`, for the program and for every definition):
every path index filter `…[i]` is `.`, a literal or a variable (no effects, one output; see
F-03); every `$`-argument of a call is such a simple term (the harness binds other `$`-arguments
with `as` first); the source `xs` of every `reduce`/`foreach` is one whose *construction* touches
nothing (`T.lazySrc`: `inputs`, `range(…)`, `.`, literals, `(x, anything)`, `(inputs | anything)`,
`limit(n; such)`, `try such catch anything`) — the manual does not say whether starting `xs` or
`init` touches the input stream first; `init`, `update` and the projection are unrestricted. -/
def PureIndexFilters (D : List T) (t : T) : Prop := t.pureIdx = true ∧ DPure D

/-- the closures bound in the context the program starts in satisfy the same condition
(trivially true for a context without filter arguments, e.g. the top-level context) -/
def PureContext (c : Ctx) : Prop := c.pure = true

/-- **Main theorem (strong form).**  For every program of the fragment
`. lit empty error halt , | as if // and or input inputs first limit skip try label/break
call/recursion range f[i]` and (round 2) `reduce foreach [f] + - *`, definitions with filter
arguments and `$`-arguments (closures; `repeat recurse while until` as in `defs.jq`), every
context, input, world and every `k ≥ 1`: whatever a consumer
of `k` items obtains from the left-to-right reference — the items, exceptions included, **and the
world it stops in (the same inputs left unread, the same effect log)** — a consumer of `k` items
of the interpreter's iterator obtains too, each pull needing only finite fuel.
(Round 1 stated this without `PureContext`: contexts had no closures then, for those it holds
by `pureContext_of_values`.) -/
theorem take_prefix {t : T} (hP : PureIndexFilters D t) (c : Ctx) (hc : PureContext c) (v : Val) (w : World) (k : Nat)
    (xs : List Item) (w' : World) (h : TakeS D (k + 1) (.run t c v) w xs w') :
    ∃ m it w0, mk D m t c v w = some (it, w0) ∧ TakeI D (k + 1) it w0 xs w' :=
  take_prefix_core hP.2 hP.1 hc h

/-- a context that binds only variables and labels (every context of round 1) is pure -/
theorem pureContext_of_values (c : Ctx) (h : ∀ b ∈ c.env, ∀ t e, b ≠ Bind.fn t e) : PureContext c := by
  obtain ⟨env, l⟩ := c
  simp only [PureContext, Ctx.pure_mk]
  induction env with
  | nil => simp
  | cons b bs ih =>
    simp only [Bind.pureL_cons, Bool.and_eq_true]
    refine ⟨?_, ih (fun b' hb' => h b' (List.mem_cons_of_mem _ hb'))⟩
    cases b with
    | var v => simp
    | label l => simp
    | fn t e => exact absurd rfl (h _ (List.mem_cons_self ..) t e)

/-- the main theorem for a program run from the top level (what `bin/check C03` runs) -/
theorem take_prefix_top {t : T} (hP : PureIndexFilters D t) (v : Val) (w : World) (k : Nat)
    (xs : List Item) (w' : World) (h : TakeS D (k + 1) (.run t ⟨[], 0⟩ v) w xs w') :
    ∃ m it w0, mk D m t ⟨[], 0⟩ v w = some (it, w0) ∧ TakeI D (k + 1) it w0 xs w' :=
  take_prefix hP ⟨[], 0⟩ (by simp [PureContext]) v w k xs w' h

/-- what a consumer of the iterator obtains is unique (the machines are deterministic), so
`take_prefix` describes *the* run of the interpreter -/
theorem takeI_unique : ∀ {k : Nat} {it : It} {w : World} {xs ys : List Item} {w1 w2 : World},
    TakeI D k it w xs w1 → TakeI D k it w ys w2 → xs = ys ∧ w1 = w2 := by
  intro k it w xs ys w1 w2 h1
  induction h1 generalizing ys w2 with
  | zero => intro h2; cases h2; exact ⟨rfl, rfl⟩
  | done hn =>
    intro h2
    cases h2 with
    | done hn2 => have := next_det hn hn2; simp only [Prod.mk.injEq] at this; exact ⟨rfl, this.2.2⟩
    | yield hn2 _ => have := next_det hn hn2; simp at this
  | yield hn _ ih =>
    intro h2
    cases h2 with
    | done hn2 => have := next_det hn hn2; simp at this
    | yield hn2 hr2 =>
      have := next_det hn hn2
      simp only [Prod.mk.injEq, Option.some.injEq] at this
      obtain ⟨rfl, rfl, rfl⟩ := this
      obtain ⟨rfl, rfl⟩ := ih hr2
      exact ⟨rfl, rfl⟩

/-- **Property-level corollary (sub-multiset form).**  The `k` items agree, the interpreter
consumed no more inputs than the reference, and its effect log is a sub-multiset of the
reference's log: nothing was evaluated that the left-to-right order does not reach before the
`k`-th output. -/
theorem take_prefix_effects {t : T} (hP : PureIndexFilters D t) (c : Ctx) (hc : PureContext c) (v : Val) (w : World) (k : Nat)
    (xs : List Item) (w' : World) (h : TakeS D (k + 1) (.run t c v) w xs w') :
    ∃ m it w0 wi, mk D m t c v w = some (it, w0) ∧ TakeI D (k + 1) it w0 xs wi ∧
      wi.log.length ≤ w'.log.length ∧ (∃ l : List Eff, l.Perm wi.log ∧ l.Sublist w'.log) := by
  obtain ⟨m, it, w0, hmk, ht⟩ := take_prefix hP c hc v w k xs w' h
  exact ⟨m, it, w0, w', hmk, ht, Nat.le_refl _, w'.log, List.Perm.refl _, List.Sublist.refl _⟩

/-! ## adapter lemmas -/

/-- `Comma`: while the left operand delivers, the right operand is not even built
(`chain(lazy(..))`): the world after the pull is the world after the left operand's pull. -/
theorem chainLazy_right_untouched {a : It} {w : World} {y : Item} {a' : It} {w1 : World} (t : T) (c : Ctx)
    (v : Val) (h : NextR D a w (some y, a', w1)) :
    NextR D (.chain a t c v) w (some y, .chain a' t c v, w1) := nextR_chain_yield t c v h

/-- `next_if_one`: unless the upper bound of `size_hint` is exactly 1, building `l | r` pulls
nothing and builds nothing (whatever `mk`/`next` would do): the world is unchanged. -/
theorem next_if_one_no_peek (mkF : T → Ctx → Val → World → MkRes) (nextF : It → World → NextRes)
    {a : It} (k : K) (w : World) (hu : a.upper ≠ some 1) :
    mkFlatWith mkF nextF a k w = some (.flat a k .nil, w) := by
  simp [mkFlatWith, hu]

/-- `next_if_one`, fast path: when the upper bound is 1 the left side is pulled exactly once
and the continuation is built in the world right after that pull. -/
theorem next_if_one_single_pull {a : It} {k : K} {w : World} {x : Item} {y : Val} {a' : It} {w2 : World}
    {res : It × World} (hu : a.upper = some 1) (h : NextR D a w (some x, a', w2)) (hx : x.val? = some y)
    (hm : MkR D (k.app y).1 (k.app y).2.1 (k.app y).2.2 w2 res) : MkFlatR D a k w res :=
  mkFlatR_ok hu h hx hm

/-- `size_hint` is honest: after an item was delivered the upper bound is strictly smaller;
in particular an iterator with upper bound 1 is exhausted after its item. -/
theorem upper_bound_honest {n : Nat} {it : It} {w : World} {x : Item} {it' : It} {w' : World} {u : Nat}
    (h : next D n it w = some (some x, it', w')) (hu : it.upper = some u) :
    ∃ u', it'.upper = some u' ∧ u' < u := upper_dec n h hu

/-- `limit(n; f)` pulls `f` exactly `n` times, not `n + 1`: with the counter at 0 the inner
iterator — whatever it is — is not pulled and the world is unchanged. -/
theorem limit_pulls_n (a : It) (w : World) (m : Nat) :
    next D (m + 1) (.wrap (.limit 0) a) w = some (none, .wrap (.limit 0) a, w) := by
  rw [next_succ]; simp [nextStep, Wr.ready]

/-- … and every delivered item lowers the counter by one. -/
theorem limit_counts_down (n : Nat) (x : Item) : (Wr.limit (n + 1)).step x = .emit x (.limit n) := rfl

/-- `limit(0; f)` does not even build `f`. -/
theorem limit_zero_builds_nothing (f : T) (c : Ctx) (v : Val) (w : World) (m : Nat) :
    mk D (m + 1) (.limit 0 f) c v w = some (.nil, w) := by
  rw [mk_succ]; rfl

/-- `first(f)` pulls `f` exactly once: the world after building `first(f)` is the world after
that one pull, and the rest of `f` is dropped. -/
theorem first_pulls_one {f : T} {c : Ctx} {v : Val} {w : World} {a : It} {w1 : World} {x : Item} {a' : It}
    {w2 : World} (h : MkR D f c v w (a, w1)) (hn : NextR D a w1 (some x, a', w2)) :
    MkR D (.first f) c v w (.once x, w2) := mkR_first_some h hn

/-- `label $l | f` stops at `break $l`: the iterator answers `None` in the world right after the
pull that delivered the break; `f` is not pulled again. -/
theorem label_stops_at_break {a : It} {w : World} {l : Nat} {a' : It} {w1 : World}
    (h : NextR D a w (some (.brk l), a', w1)) :
    NextR D (.wrap (.label l) a) w (none, .wrap (.label l) a', w1) :=
  nextR_wrap_stop rfl h (by simp [Wr.step])

/-- `l // r`: building it pulls `l` up to its first item that is an error or true, and no
further; `r` is not built. -/
theorem alt_stops_pulling_left {l : T} {c : Ctx} {v : Val} {w : World} {a : It} {w1 : World} {x : Item}
    {rest : It} {w2 : World} (r : T) (h : MkR D l c v w (a, w1))
    (hn : NextR D (.wrap .filt a) w1 (some x, rest, w2)) :
    MkR D (.alt l r) c v w (.cons x rest, w2) := mkR_alt_some r h hn

/-- `inputs` reads exactly one value from the shared input stream per pull. -/
theorem inputs_one_per_pull (n : Nat) (x : Val) (xs : List Val) (log : List Eff) :
    next D (n + 1) .inputs ⟨x :: xs, log⟩ = some (some (.ok x), .inputs, ⟨xs, x :: log⟩) := by
  rw [next_succ]; rfl

/-- `input` reads its value while the iterator is built (one value, not more). -/
theorem input_reads_at_construction (n : Nat) (c : Ctx) (v x : Val) (xs : List Val) (log : List Eff) :
    mk D (n + 1) .input c v ⟨x :: xs, log⟩ = some (.once (.ok x), ⟨xs, x :: log⟩) := by
  rw [mk_succ]; rfl

/-! ## infinite generators are consumed incrementally -/

/-- `range($a; $b; 0)` with `$a ≠ $b` never ends; the reference delivers any number `k` of
outputs, each after finite work, without touching the world … -/
theorem range_zero_step_ref (a b : Int) (hab : a ≠ b) (w : World) :
    ∀ k, TakeS D k (.range a b 0) w (List.replicate k (.ok (intVal a))) w := by
  intro k
  induction k with
  | zero => exact .zero
  | succ k ih =>
    have hgo : rangeGo a b 0 = true := by simp [rangeGo, hab]
    have : force D 1 (.range a b 0) w = some (.yield (.ok (intVal a)) (.range (a + 0) b 0), w) := by
      rw [force_succ]; simp only [forceStep, hgo, if_true]
    rw [Int.add_zero] at this
    exact .yield this ih

/-- … and so does the interpreter's iterator (the `range` part of
`infinite_generators_incremental`; this was the whole theorem of that name in round 1):
for every `k` there is a fuel for building it and each of the `k + 1` pulls terminates. -/
theorem range_zero_step_incremental (a b : Int) (hab : a ≠ b) (c : Ctx) (v : Val) (w : World) (k : Nat) :
    ∃ m it w0, mk D m (.range a b 0) c v w = some (it, w0) ∧
      TakeI D (k + 1) it w0 (List.replicate (k + 1) (.ok (intVal a))) w := by
  have hD : PureIndexFilters ([] : List T) (.range a b 0) := ⟨rfl, fun i body h => by simp at h⟩
  have href : TakeS ([] : List T) (k + 1) (.run (.range a b 0) c v) w (List.replicate (k + 1) (.ok (intVal a))) w := by
    have h := range_zero_step_ref (D := []) a b hab w (k + 1)
    cases h with
    | yield hf hrest =>
      rename_i n _ _
      exact .yield (n := n + 1) (by rw [force_succ]; simpa only [forceStep] using hf) hrest
  -- the generator does not depend on the definitions
  have hgo : rangeGo a b 0 = true := by simp [rangeGo, hab]
  refine ⟨1, .range a b 0, w, by rw [mk_succ]; rfl, ?_⟩
  clear hD href
  induction (k + 1) with
  | zero => exact .zero
  | succ j ih =>
    have : next D 1 (.range a b 0) w = some (some (.ok (intVal a)), .range (a + 0) b 0, w) := by
      rw [next_succ]; simp only [nextStep, hgo, if_true]
    rw [Int.add_zero] at this
    exact .yield this ih

/-- The general statement: whenever the reference delivers `k` outputs of a generator — finite
or not (`repeat`, `recurse`, recursive definitions through `call`/`tcall`) — the interpreter
delivers them one by one, each pull with finite fuel.  (This is `take_prefix`; restated for
definitions-based generators.) -/
theorem recursive_generators_incremental {i : Nat} (hD : DPure D) (c : Ctx) (hc : PureContext c) (v : Val) (w : World) (k : Nat)
    (xs : List Item) (w' : World) (h : TakeS D (k + 1) (.run (.call i) c v) w xs w') :
    ∃ m it w0, mk D m (.call i) c v w = some (it, w0) ∧ TakeI D (k + 1) it w0 xs w' :=
  take_prefix ⟨rfl, hD⟩ c hc v w k xs w' h

/-! ## round 2: the lazily memoised list under `reduce`/`foreach`, `FlatMap`, `collect_if_once` -/

/-- `rc_lazy_list`: a node that is in the list already is *read*; the iterator under the list is
not pulled — whatever pulling it would do (`nextF` is arbitrary) — and the world is the same. -/
theorem lazyList_memo_no_pull (mkF : T → Ctx → Val → World → MkRes) (nextF : It → World → NextRes)
    (kind : FoldKind) (upd : T) (ctx : Ctx) (cells : List Item) (src : It) (ended : Bool) (ini : It) (pos : Nat) (y : Val)
    (rest : It) (cell : Item) (w : World) (hc : cells[pos]? = some cell) :
    nextStep mkF nextF (.fold kind upd ctx cells src ended ini (.fInp pos y rest)) w =
      foldCell mkF nextF kind upd ctx cells src ended ini pos y rest cell w := by
  simp only [nextStep, hc]

/-- `rc_lazy_list`: a node that is not yet in the list is forced by **exactly one** pull of the
iterator under the list: the fold goes on in the world right after that pull, with the list
longer by that one node and the iterator's residual stored for the next node. -/
theorem lazyList_forces_one_node (mkF : T → Ctx → Val → World → MkRes) (nextF : It → World → NextRes)
    (kind : FoldKind) (upd : T) (ctx : Ctx) (cells : List Item) (src : It) (ini : It) (pos : Nat) (y : Val)
    (rest : It) (w : World) (x : Item) (src' : It) (w1 : World) (hc : cells[pos]? = none)
    (h : nextF src w = some (some x, src', w1)) :
    nextStep mkF nextF (.fold kind upd ctx cells src false ini (.fInp pos y rest)) w =
      foldCell mkF nextF kind upd ctx (cells ++ [x]) src' false ini pos y rest x w1 := by
  simp only [nextStep, hc, h, Bool.false_eq_true, if_false]

/-- … and a node of the list starts `update` for that element and nothing else: the list's
iterator does not occur in what runs next (`Fold::Output` on top: only `ys` is pulled). -/
theorem lazyList_node_starts_update {upd ctx cells src ini rest} {kind : FoldKind} {ended : Bool} {pos : Nat} {y xv : Val}
    {w : World} {ys : It} {w2 : World} {res} (hm : MkR D upd (ctx.consVar xv) y w (ys, w2))
    (h : NextR D (.fold kind upd ctx cells src ended ini (.fOut (pos + 1) xv ys rest)) w2 res) :
    FoldCellR D kind upd ctx cells src ended ini pos y rest (.ok xv) w res := foldCellR_ok rfl hm h

/-- `FlatMap`: while the current inner iterator delivers, the source is not touched … -/
theorem flatMap_src_untouched_while_cur_yields {cur : It} {w : World} {y : Item} {cur' : It} {w1 : World} (src : It) (k : K)
    (h : NextR D cur w (some y, cur', w1)) : NextR D (.flat src k cur) w (some y, .flat src k cur', w1) :=
  nextR_flat_yield src k h

/-- … and when it is exhausted the source is pulled exactly once; the continuation is built in
the world right after that pull. -/
theorem flatMap_pulls_src_once_per_exhaustion {cur : It} {w : World} {c' : It} {w1 : World} {src : It} {x : Item} {y : Val}
    {s' : It} {w2 : World} {k : K} {c : It} {w3 : World} {res}
    (h : NextR D cur w (none, c', w1)) (hs : NextR D src w1 (some x, s', w2)) (hx : x.val? = some y)
    (hm : MkR D (k.app y).1 (k.app y).2.1 (k.app y).2.2 w2 (c, w3)) (hn : NextR D (.flat s' k c) w3 res) :
    NextR D (.flat src k cur) w res := nextR_flat_srcok h hs hx hm hn

/-- `collect_if_once`: unless the upper bound of `size_hint` is exactly 1 the freshly built
iterator of the index filter is dropped unpulled (whatever pulling it would do) … -/
theorem collect_if_once_no_extra_pull (nextF : It → World → NextRes) {ia : It} (i : T) (ctx : Ctx) (v : Val) (w : World)
    (hu : ia.upper ≠ some 1) : collectIfOnce nextF ia i ctx v w = some (.idxR i ctx v, w) := by
  simp [collectIfOnce, hu]

/-- … and when it is 1 it is pulled exactly once: the result is that item and the world right
after that pull. -/
theorem collect_if_once_single_pull (nextF : It → World → NextRes) {ia : It} (i : T) (ctx : Ctx) (v : Val) (w : World)
    {x : Item} {ia' : It} {w2 : World} (hu : ia.upper = some 1) (h : nextF ia w = some (some x, ia', w2)) :
    collectIfOnce nextF ia i ctx v w = some (.idxL x, w2) := by
  simp only [collectIfOnce, hu, h, if_true]

/-! ## round 2: `foreach` over an endless `inputs` is consumed incrementally -/

/-- **`foreach inputs as $x (s; upd)` is incremental.**  Let `upd` compute a function `g` of `$x`
and the state (one output, no effects).  With the inputs `x :: ins ++ rest` — **whatever `rest`
is and however long** — the interpreter's iterator delivers the `|ins| + 1` running states for
the first `|ins| + 1` inputs, each pull with finite fuel, and stops with exactly `rest` unread:
every output costs one input and one run of `upd`. -/
theorem foreach_inputs_incremental {upd : T} {ctx : Ctx} {g : Val → Val → Val} (hU : UpdFun D upd ctx g)
    (hp : upd.pureIdx = true) (hD : DPure D) (hc : PureContext ctx) (v s x : Val) (ins rest log : List Val) :
    ∃ m it w0, mk D m (.fold .foreach .inputs (.lit s) upd .id) ctx v ⟨x :: ins ++ rest, log⟩ = some (it, w0) ∧
      TakeI D (ins.length + 1) it w0 ((scanG g s (x :: ins)).map .ok) ⟨rest, (x :: ins).reverse ++ log⟩ :=
  take_prefix ⟨by simp [T.pureIdx, T.lazySrc, T.lazySrc1, T.lazySrc0, hp], hD⟩ ctx hc v _ _ _ _
    (foreach_inputs_ref hU v s x ins rest log)

/-- the hypothesis is satisfiable: `foreach inputs as $x (s; $x)` (`g x _ = x`) … -/
example (ctx : Ctx) : UpdFun D (.var 0) ctx (fun x _ => x) := by
  intro x y w
  exact ⟨1, .nil, by rw [force_succ]; rfl, dead_nil⟩

/-- … and a concrete run: three outputs for the first three of five inputs, two left unread -/
example :
    ((mk [] 30 (.fold .foreach .inputs (.lit (intVal 0)) (.var 0) .id) ⟨[], 0⟩ .null
        ⟨[intVal 1, intVal 2, intVal 3, intVal 4, intVal 5], []⟩).bind fun (it, w) => takeI [] 30 3 it w) =
    some ([.ok (intVal 1), .ok (intVal 2), .ok (intVal 3)], ⟨[intVal 4, intVal 5], [intVal 3, intVal 2, intVal 1]⟩) := by rfl

/-! ## round 2: `repeat(f)` with closures, as defined in `defs.jq` -/

/-- **`repeat(f)` is incremental.**  `def repeat(f): def rec: f, rec; rec;` with the filter
argument bound as a closure: if `f` delivers `a` first (and nothing else happens), then for every
`k` the interpreter's iterator of `repeat(f)` delivers `k + 1` times `a`, each pull with finite
fuel, in an untouched world — whatever a consumer does afterwards. -/
theorem repeat_incremental (hR : HasRepeat D) (hD : DPure D) {f t : T} {e : List Bind} {c : Ctx} {v : Val} {a : Item}
    (hf : f.pureIdx = true) (hc : PureContext c) (hcl : mkClosure f c.env = .fn t e)
    (hF : FirstOut D t e c.labels v a) (w : World) (k : Nat) :
    ∃ m it w0, mk D m (repeatCall c.env.length f) c v w = some (it, w0) ∧
      TakeI D (k + 1) it w0 (List.replicate (k + 1) a) w :=
  take_prefix ⟨by simp [repeatCall, T.pureIdx, T.pureArgs, hf], hD⟩ c hc v w k _ w (repeat_ref hR hcl hF w k)

/-- the hypotheses are satisfiable: `repeat(7)` from the top level -/
example : HasRepeat [repeatRec, repeatBody] ∧ DPure [repeatRec, repeatBody] ∧
    mkClosure (.lit (intVal 7)) [] = .fn (.lit (intVal 7)) [] ∧
    FirstOut [repeatRec, repeatBody] (.lit (intVal 7)) [] 0 .null (.ok (intVal 7)) := by
  refine ⟨⟨rfl, rfl⟩, ?_, rfl, fun w => ⟨1, .nil, by rw [force_succ]; rfl, dead_nil⟩⟩
  intro i body h
  match i with
  | 0 => simp at h; subst h; rfl
  | 1 => simp at h; subst h; rfl
  | i + 2 => simp at h

/-- **`recurse(f)` is incremental.**  `def recurse(f): def rec: ., (f | rec); rec;` with the
filter argument bound as a closure: if `f` computes a function `g` (one output, nothing else
happens), then for every `k` the interpreter's iterator of `u | recurse(f)` delivers
`u, g u, g (g u), …` (`k + 1` values), each pull with finite fuel, in an untouched world. -/
theorem recurse_incremental (hR : HasRecurse D) (hD : DPure D) {f t : T} {e : List Bind} {c : Ctx} {g : Val → Val}
    (hf : f.pureIdx = true) (hc : PureContext c) (hcl : mkClosure f c.env = .fn t e)
    (hF : FunOut D t e c.labels g) (u : Val) (w : World) (k : Nat) :
    ∃ m it w0, mk D m (recurseCall c.env.length f) c u w = some (it, w0) ∧
      TakeI D (k + 1) it w0 ((u :: iterG g u k).map .ok) w :=
  take_prefix ⟨by simp [recurseCall, T.pureIdx, T.pureArgs, hf], hD⟩ c hc u w k _ w (recurse_ref hR hcl hF u w k)

/-- the hypotheses are satisfiable: `recurse(.)` from the top level (`g = id`; with arithmetic:
`recurse(. + 1)`, see the `example` at the end) -/
example : HasRecurse [recurseRec, recurseBody] ∧ DPure [recurseRec, recurseBody] ∧
    mkClosure .id [] = .fn .id [] ∧ FunOut [recurseRec, recurseBody] .id [] 0 (fun u => u) := by
  refine ⟨⟨rfl, rfl⟩, ?_, rfl, fun u w => ⟨1, .nil, by rw [force_succ]; rfl, dead_nil⟩⟩
  intro i body h
  match i with
  | 0 => simp at h; subst h; rfl
  | 1 => simp at h; subst h; rfl
  | i + 2 => simp at h

/-- **Infinite generators are consumed incrementally** (replaces the round-1 theorem of this name,
which was the first conjunct): `range($a; $b; 0)` with `$a ≠ $b`, and `repeat(f)`, `recurse(f)` as
defined in `defs.jq` (recursive definitions with a closure, tail calls through the trampoline):
for every `k` a finite fuel yields the first `k + 1` outputs, in an untouched world.  For
`while`, `until` and other recursive definitions the statement is
`recursive_generators_incremental` / `take_prefix` (whatever prefix the reference delivers, the
interpreter delivers pull by pull). -/
theorem infinite_generators_incremental :
    (∀ (a b : Int), a ≠ b → ∀ (c : Ctx) (v : Val) (w : World) (k : Nat),
      ∃ m it w0, mk D m (.range a b 0) c v w = some (it, w0) ∧
        TakeI D (k + 1) it w0 (List.replicate (k + 1) (.ok (intVal a))) w) ∧
    (HasRepeat D → DPure D → ∀ {f t : T} {e : List Bind} {c : Ctx} {v : Val} {a : Item},
      f.pureIdx = true → PureContext c → mkClosure f c.env = .fn t e → FirstOut D t e c.labels v a →
      ∀ (w : World) (k : Nat), ∃ m it w0, mk D m (repeatCall c.env.length f) c v w = some (it, w0) ∧
        TakeI D (k + 1) it w0 (List.replicate (k + 1) a) w) ∧
    (HasRecurse D → DPure D → ∀ {f t : T} {e : List Bind} {c : Ctx} {g : Val → Val},
      f.pureIdx = true → PureContext c → mkClosure f c.env = .fn t e → FunOut D t e c.labels g →
      ∀ (u : Val) (w : World) (k : Nat), ∃ m it w0, mk D m (recurseCall c.env.length f) c u w = some (it, w0) ∧
        TakeI D (k + 1) it w0 ((u :: iterG g u k).map .ok) w) :=
  ⟨fun a b hab c v w k => range_zero_step_incremental a b hab c v w k,
   fun hR hD _ _ _ _ _ _ hf hc hcl hF w k => repeat_incremental hR hD hf hc hcl hF w k,
   fun hR hD _ _ _ _ _ hf hc hcl hF u w k => recurse_incremental hR hD hf hc hcl hF u w k⟩

/-! ## round 2: why the sources of `reduce`/`foreach` are restricted -/

/-- `reduce input as $x (input; $x)` -/
def foldHeaderProg : T := .fold .reduce .input .input (.var 0) .id

/-- **Witness.**  The interpreter builds the iterator of `xs` first and that of `init` second
(`input` reads while it is built): with inputs `a, b` it binds `$x = a`, the state is `b`, the
result is `a`.  The reference starts `init` first: the state is `a`, `$x = b`, the result is `b`.
The manual does not say which order is meant; `PureIndexFilters` therefore asks for sources
whose construction touches nothing. -/
theorem fold_header_order_witness (a b : Val) :
    takeS [] 20 1 (.run foldHeaderProg ⟨[], 0⟩ .null) ⟨[a, b], []⟩ = some ([.ok b], ⟨[], [b, a]⟩) ∧
    (∃ it, mk [] 20 foldHeaderProg ⟨[], 0⟩ .null ⟨[a, b], []⟩ = some (it, ⟨[], [b, a]⟩) ∧
      takeI [] 20 1 it ⟨[], [b, a]⟩ = some ([.ok a], ⟨[], [b, a]⟩)) :=
  ⟨rfl, _, rfl, rfl⟩

/-! ## finding F-03: the hypothesis `PureIndexFilters` is necessary -/


/-- `first(empty[input]), input` -/
def f03Prog : T := .comma (.first (.index .empty .input)) .input

/-- **Witness.**  With inputs `a, b` the reference delivers `a` as first output and leaves `b`
unread (the index filter of `empty[…]` is never reached); the interpreter evaluates the index
filter while *building* the path expression (`a` is read and thrown away), so it delivers `b` and
leaves nothing unread: the effect logs differ (`[b, a]` against `[a]`), the sub-multiset
statement fails. -/
theorem index_filter_order_witness (a b : Val) :
    takeS [] 10 1 (.run f03Prog ⟨[], 0⟩ .null) ⟨[a, b], []⟩ = some ([.ok a], ⟨[b], [a]⟩) ∧
    (mk [] 10 f03Prog ⟨[], 0⟩ .null ⟨[a, b], []⟩ = some (.chain .nil .input ⟨[], 0⟩ .null, ⟨[b], [a]⟩) ∧
      takeI [] 10 1 (.chain .nil .input ⟨[], 0⟩ .null) ⟨[b], [a]⟩ = some ([.ok b], ⟨[], [b, a]⟩)) :=
  ⟨rfl, rfl, rfl⟩

/-! ## the hypotheses are satisfiable: non-trivial instances -/

/-- `def d0: 7, d0; limit(2; d0) | (., input)` has pure index filters -/
example : PureIndexFilters [.comma (.lit (intVal 7)) (.tcall 0)]
    (.pipe (.limit 2 (.call 0)) (.comma .id .input)) :=
  ⟨rfl, fun i body h => by
    cases i with
    | zero => simp at h; subst h; rfl
    | succ i => simp at h⟩

/-- … and the reference run of that program (3 items, one input consumed) exists -/
example : takeS [.comma (.lit (intVal 7)) (.tcall 0)] 30 3
    (.run (.pipe (.limit 2 (.call 0)) (.comma .id .input)) ⟨[], 0⟩ .null) ⟨[intVal 1, intVal 2], []⟩ =
    some ([.ok (intVal 7), .ok (intVal 1), .ok (intVal 7)], ⟨[intVal 2], [intVal 1]⟩) := by rfl

/-- the manual's example `foreach (5, 10) as $x (1; .+$x, -.)` (here `0 - .`) yields `6 16 -6 -1 9 1`:
the reference and the interpreter's iterator agree with the manual -/
example :
    let upd : T := .comma (.math .add .id (.var 0)) (.math .sub (.lit (intVal 0)) .id)
    let prog : T := .fold .foreach (.comma (.lit (intVal 5)) (.lit (intVal 10))) (.lit (intVal 1)) upd .id
    let out := [intVal 6, intVal 16, intVal (-6), intVal (-1), intVal 9, intVal 1].map Item.ok
    (takeS [] 60 7 (.run prog ⟨[], 0⟩ .null) ⟨[], []⟩).map (·.1) = some out ∧
    ((mk [] 60 prog ⟨[], 0⟩ .null ⟨[], []⟩).bind fun (it, w) => (takeI [] 60 7 it w).map (·.1)) = some out := by
  exact ⟨rfl, rfl⟩

/-- `0 | limit(4; recurse(. + 1))` through the model: `0 1 2 3` -/
example :
    ((mk [recurseRec, recurseBody] 60 (.limit 4 (recurseCall 0 (.math .add .id (.lit (intVal 1))))) ⟨[], 0⟩ (intVal 0) ⟨[], []⟩).bind
      fun (it, w) => (takeI [recurseRec, recurseBody] 60 5 it w).map (·.1)) =
    some ([intVal 0, intVal 1, intVal 2, intVal 3].map Item.ok) := by rfl

end Jaq.C03
