/-
  C03 — streams are produced on demand; consumers of a prefix never run the rest.

  Model (see `JaqVerif/C03/{Defs,Ref,Iter}.lean`, tied to the code by `bin/check C03`):
    * `force`  — the reference: residual streams in the manual's left-to-right order; nothing is
                 evaluated when a stream is built, the rest of a stream is never looked at.
    * `mk`/`next`/`It.upper` — the interpreter: `Id::run` building iterator adapters, with what
                 the code already evaluates while building (`next_if_one` when the `size_hint`
                 upper bound is 1, `collect_if_once` on path index filters, the first `next()`
                 of the `//` arm, `first`, `input`).
    * `World`  — unread inputs of the shared input stream + log of the values read.
    * `TakeS D k th w xs w'` / `TakeI D k it w xs w'` — a consumer takes `k` items: it gets `xs`
                 and stops in world `w'` (every pull terminates with some finite fuel).
  `D` is the list of top-level definitions (`call i`), `c` the context, `v` the input value.
-/
import JaqVerif.Lemmas.C03Main

namespace Jaq.C03
variable {D : List T}

/-- hypothesis of the main theorem: every path index filter `…[i]` of the program and of the
definitions is `.`, a literal or a variable (no effects, one output) -/
def PureIndexFilters (D : List T) (t : T) : Prop := t.pureIdx = true ∧ DPure D

/-- **Main theorem (strong form).**  For every program of the fragment
`. lit empty error halt , | as if // and or input inputs first limit skip try label/break
call/recursion range f[i]`, every context, input, world and every `k ≥ 1`: whatever a consumer
of `k` items obtains from the left-to-right reference — the items, exceptions included, **and the
world it stops in (the same inputs left unread, the same effect log)** — a consumer of `k` items
of the interpreter's iterator obtains too, each pull needing only finite fuel. -/
theorem take_prefix {t : T} (hP : PureIndexFilters D t) (c : Ctx) (v : Val) (w : World) (k : Nat)
    (xs : List Item) (w' : World) (h : TakeS D (k + 1) (.run t c v) w xs w') :
    ∃ m it w0, mk D m t c v w = some (it, w0) ∧ TakeI D (k + 1) it w0 xs w' :=
  take_prefix_core hP.2 hP.1 h

/-- what a consumer of the iterator obtains is unique (the machines are deterministic), so
`take_prefix` describes *the* run of the interpreter -/
theorem takeI_unique : ∀ {k : Nat} {it : It} {w : World} {xs ys : List Item} {w1 w2 : World},
    TakeI D k it w xs w1 → TakeI D k it w ys w2 → xs = ys ∧ w1 = w2 := by
  intro k it w xs ys w1 w2 h1
  induction h1 generalizing ys w2 with
  | zero => intro h2; cases h2; exact ⟨rfl, rfl⟩
  | done hn =>
    intro h2
    cases h2 with
    | done hn2 => have := next_det hn hn2; simp only [Prod.mk.injEq] at this; exact ⟨rfl, this.2.2⟩
    | yield hn2 _ => have := next_det hn hn2; simp at this
  | yield hn _ ih =>
    intro h2
    cases h2 with
    | done hn2 => have := next_det hn hn2; simp at this
    | yield hn2 hr2 =>
      have := next_det hn hn2
      simp only [Prod.mk.injEq, Option.some.injEq] at this
      obtain ⟨rfl, rfl, rfl⟩ := this
      obtain ⟨rfl, rfl⟩ := ih hr2
      exact ⟨rfl, rfl⟩

/-- **Property-level corollary (sub-multiset form).**  The `k` items agree, the interpreter
consumed no more inputs than the reference, and its effect log is a sub-multiset of the
reference's log: nothing was evaluated that the left-to-right order does not reach before the
`k`-th output. -/
theorem take_prefix_effects {t : T} (hP : PureIndexFilters D t) (c : Ctx) (v : Val) (w : World) (k : Nat)
    (xs : List Item) (w' : World) (h : TakeS D (k + 1) (.run t c v) w xs w') :
    ∃ m it w0 wi, mk D m t c v w = some (it, w0) ∧ TakeI D (k + 1) it w0 xs wi ∧
      wi.log.length ≤ w'.log.length ∧ (∃ l : List Eff, l.Perm wi.log ∧ l.Sublist w'.log) := by
  obtain ⟨m, it, w0, hmk, ht⟩ := take_prefix hP c v w k xs w' h
  exact ⟨m, it, w0, w', hmk, ht, Nat.le_refl _, w'.log, List.Perm.refl _, List.Sublist.refl _⟩

/-! ## adapter lemmas -/

/-- `Comma`: while the left operand delivers, the right operand is not even built
(`chain(lazy(..))`): the world after the pull is the world after the left operand's pull. -/
theorem chainLazy_right_untouched {a : It} {w : World} {y : Item} {a' : It} {w1 : World} (t : T) (c : Ctx)
    (v : Val) (h : NextR D a w (some y, a', w1)) :
    NextR D (.chain a t c v) w (some y, .chain a' t c v, w1) := nextR_chain_yield t c v h

/-- `next_if_one`: unless the upper bound of `size_hint` is exactly 1, building `l | r` pulls
nothing and builds nothing (whatever `mk`/`next` would do): the world is unchanged. -/
theorem next_if_one_no_peek (mkF : T → Ctx → Val → World → MkRes) (nextF : It → World → NextRes)
    {a : It} (k : K) (w : World) (hu : a.upper ≠ some 1) :
    mkFlatWith mkF nextF a k w = some (.flat a k .nil, w) := by
  simp [mkFlatWith, hu]

/-- `next_if_one`, fast path: when the upper bound is 1 the left side is pulled exactly once
and the continuation is built in the world right after that pull. -/
theorem next_if_one_single_pull {a : It} {k : K} {w : World} {x : Item} {y : Val} {a' : It} {w2 : World}
    {res : It × World} (hu : a.upper = some 1) (h : NextR D a w (some x, a', w2)) (hx : x.val? = some y)
    (hm : MkR D (k.app y).1 (k.app y).2.1 (k.app y).2.2 w2 res) : MkFlatR D a k w res :=
  mkFlatR_ok hu h hx hm

/-- `size_hint` is honest: after an item was delivered the upper bound is strictly smaller;
in particular an iterator with upper bound 1 is exhausted after its item. -/
theorem upper_bound_honest {n : Nat} {it : It} {w : World} {x : Item} {it' : It} {w' : World} {u : Nat}
    (h : next D n it w = some (some x, it', w')) (hu : it.upper = some u) :
    ∃ u', it'.upper = some u' ∧ u' < u := upper_dec n h hu

/-- `limit(n; f)` pulls `f` exactly `n` times, not `n + 1`: with the counter at 0 the inner
iterator — whatever it is — is not pulled and the world is unchanged. -/
theorem limit_pulls_n (a : It) (w : World) (m : Nat) :
    next D (m + 1) (.wrap (.limit 0) a) w = some (none, .wrap (.limit 0) a, w) := by
  rw [next_succ]; simp [nextStep, Wr.ready]

/-- … and every delivered item lowers the counter by one. -/
theorem limit_counts_down (n : Nat) (x : Item) : (Wr.limit (n + 1)).step x = .emit x (.limit n) := rfl

/-- `limit(0; f)` does not even build `f`. -/
theorem limit_zero_builds_nothing (f : T) (c : Ctx) (v : Val) (w : World) (m : Nat) :
    mk D (m + 1) (.limit 0 f) c v w = some (.nil, w) := by
  rw [mk_succ]; rfl

/-- `first(f)` pulls `f` exactly once: the world after building `first(f)` is the world after
that one pull, and the rest of `f` is dropped. -/
theorem first_pulls_one {f : T} {c : Ctx} {v : Val} {w : World} {a : It} {w1 : World} {x : Item} {a' : It}
    {w2 : World} (h : MkR D f c v w (a, w1)) (hn : NextR D a w1 (some x, a', w2)) :
    MkR D (.first f) c v w (.once x, w2) := mkR_first_some h hn

/-- `label $l | f` stops at `break $l`: the iterator answers `None` in the world right after the
pull that delivered the break; `f` is not pulled again. -/
theorem label_stops_at_break {a : It} {w : World} {l : Nat} {a' : It} {w1 : World}
    (h : NextR D a w (some (.brk l), a', w1)) :
    NextR D (.wrap (.label l) a) w (none, .wrap (.label l) a', w1) :=
  nextR_wrap_stop rfl h (by simp [Wr.step])

/-- `l // r`: building it pulls `l` up to its first item that is an error or true, and no
further; `r` is not built. -/
theorem alt_stops_pulling_left {l : T} {c : Ctx} {v : Val} {w : World} {a : It} {w1 : World} {x : Item}
    {rest : It} {w2 : World} (r : T) (h : MkR D l c v w (a, w1))
    (hn : NextR D (.wrap .filt a) w1 (some x, rest, w2)) :
    MkR D (.alt l r) c v w (.cons x rest, w2) := mkR_alt_some r h hn

/-- `inputs` reads exactly one value from the shared input stream per pull. -/
theorem inputs_one_per_pull (n : Nat) (x : Val) (xs : List Val) (log : List Eff) :
    next D (n + 1) .inputs ⟨x :: xs, log⟩ = some (some (.ok x), .inputs, ⟨xs, x :: log⟩) := by
  rw [next_succ]; rfl

/-- `input` reads its value while the iterator is built (one value, not more). -/
theorem input_reads_at_construction (n : Nat) (c : Ctx) (v x : Val) (xs : List Val) (log : List Eff) :
    mk D (n + 1) .input c v ⟨x :: xs, log⟩ = some (.once (.ok x), ⟨xs, x :: log⟩) := by
  rw [mk_succ]; rfl

/-! ## infinite generators are consumed incrementally -/

/-- `range($a; $b; 0)` with `$a ≠ $b` never ends; the reference delivers any number `k` of
outputs, each after finite work, without touching the world … -/
theorem range_zero_step_ref (a b : Int) (hab : a ≠ b) (w : World) :
    ∀ k, TakeS D k (.range a b 0) w (List.replicate k (.ok (intVal a))) w := by
  intro k
  induction k with
  | zero => exact .zero
  | succ k ih =>
    have hgo : rangeGo a b 0 = true := by simp [rangeGo, hab]
    have : force D 1 (.range a b 0) w = some (.yield (.ok (intVal a)) (.range (a + 0) b 0), w) := by
      rw [force_succ]; simp only [forceStep, hgo, if_true]
    rw [Int.add_zero] at this
    exact .yield this ih

/-- … and so does the interpreter's iterator (`infinite_generators_incremental` for `range`):
for every `k` there is a fuel for building it and each of the `k + 1` pulls terminates. -/
theorem infinite_generators_incremental (a b : Int) (hab : a ≠ b) (c : Ctx) (v : Val) (w : World) (k : Nat) :
    ∃ m it w0, mk D m (.range a b 0) c v w = some (it, w0) ∧
      TakeI D (k + 1) it w0 (List.replicate (k + 1) (.ok (intVal a))) w := by
  have hD : PureIndexFilters ([] : List T) (.range a b 0) := ⟨rfl, fun i body h => by simp at h⟩
  have href : TakeS ([] : List T) (k + 1) (.run (.range a b 0) c v) w (List.replicate (k + 1) (.ok (intVal a))) w := by
    have h := range_zero_step_ref (D := []) a b hab w (k + 1)
    cases h with
    | yield hf hrest =>
      rename_i n _ _
      exact .yield (n := n + 1) (by rw [force_succ]; simpa only [forceStep] using hf) hrest
  -- the generator does not depend on the definitions
  have hgo : rangeGo a b 0 = true := by simp [rangeGo, hab]
  refine ⟨1, .range a b 0, w, by rw [mk_succ]; rfl, ?_⟩
  clear hD href
  induction (k + 1) with
  | zero => exact .zero
  | succ j ih =>
    have : next D 1 (.range a b 0) w = some (some (.ok (intVal a)), .range (a + 0) b 0, w) := by
      rw [next_succ]; simp only [nextStep, hgo, if_true]
    rw [Int.add_zero] at this
    exact .yield this ih

/-- The general statement: whenever the reference delivers `k` outputs of a generator — finite
or not (`repeat`, `recurse`, recursive definitions through `call`/`tcall`) — the interpreter
delivers them one by one, each pull with finite fuel.  (This is `take_prefix`; restated for
definitions-based generators.) -/
theorem recursive_generators_incremental {i : Nat} (hD : DPure D) (c : Ctx) (v : Val) (w : World) (k : Nat)
    (xs : List Item) (w' : World) (h : TakeS D (k + 1) (.run (.call i) c v) w xs w') :
    ∃ m it w0, mk D m (.call i) c v w = some (it, w0) ∧ TakeI D (k + 1) it w0 xs w' :=
  take_prefix ⟨rfl, hD⟩ c v w k xs w' h

/-! ## finding F-03: the hypothesis `PureIndexFilters` is necessary -/

/-- `first(empty[input]), input` -/
def f03Prog : T := .comma (.first (.index .empty .input)) .input

/-- **Witness.**  With inputs `a, b` the reference delivers `a` as first output and leaves `b`
unread (the index filter of `empty[…]` is never reached); the interpreter evaluates the index
filter while *building* the path expression (`a` is read and thrown away), so it delivers `b` and
leaves nothing unread: the effect logs differ (`[b, a]` against `[a]`), the sub-multiset
statement fails. -/
theorem index_filter_order_witness (a b : Val) :
    takeS [] 10 1 (.run f03Prog ⟨[], 0⟩ .null) ⟨[a, b], []⟩ = some ([.ok a], ⟨[b], [a]⟩) ∧
    (mk [] 10 f03Prog ⟨[], 0⟩ .null ⟨[a, b], []⟩ = some (.chain .nil .input ⟨[], 0⟩ .null, ⟨[b], [a]⟩) ∧
      takeI [] 10 1 (.chain .nil .input ⟨[], 0⟩ .null) ⟨[b], [a]⟩ = some ([.ok b], ⟨[], [b, a]⟩)) :=
  ⟨rfl, rfl, rfl⟩

/-! ## the hypotheses are satisfiable: non-trivial instances -/

/-- `def d0: 7, d0; limit(2; d0) | (., input)` has pure index filters -/
example : PureIndexFilters [.comma (.lit (intVal 7)) (.tcall 0)]
    (.pipe (.limit 2 (.call 0)) (.comma .id .input)) :=
  ⟨rfl, fun i body h => by
    cases i with
    | zero => simp at h; subst h; rfl
    | succ i => simp at h⟩

/-- … and the reference run of that program (3 items, one input consumed) exists -/
example : takeS [.comma (.lit (intVal 7)) (.tcall 0)] 30 3
    (.run (.pipe (.limit 2 (.call 0)) (.comma .id .input)) ⟨[], 0⟩ .null) ⟨[intVal 1, intVal 2], []⟩ =
    some ([.ok (intVal 7), .ok (intVal 1), .ok (intVal 7)], ⟨[intVal 2], [intVal 1]⟩) := by rfl

end Jaq.C03
