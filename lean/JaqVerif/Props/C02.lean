/-
  C02 — `path(f)`, `getpath` and updates agree on the positions a filter denotes.

  Model: `run n`, `paths n`, `update n` (JaqVerif/C02/{Run,Paths,Update}.lean) are `Id::run`,
  `Id::paths`, `Id::update` of jaq-core/src/filter.rs at fuel `n` (outcome = outputs so far +
  terminator; `fuel` as terminator means the recursion budget ran out).  All theorems hold for
  every fuel, every environment, every input.  Helper lemmas: JaqVerif/Lemmas/C02*.lean.
-/
import JaqVerif.Lemmas.C02Agree
import JaqVerif.Lemmas.C02Getpath
import JaqVerif.Lemmas.C02Update
import JaqVerif.Lemmas.C02Alt
import JaqVerif.Lemmas.C02Frame
import JaqVerif.Gen.C02Defs

namespace Jaq.C02

/-! ## 1. The three evaluators stay in step -/

/-- `path(p)` lists, in order, exactly the positions of the values `p` outputs: dropping the
paths from the outcome of `paths` gives the outcome of `run` — same values, same order, same
terminator — for every path expression (class `PathClass`, recursive definitions included). -/
theorem paths_fst_eq_run (n : Nat) (p : PE) (env : Env) (vp : Val × VPath)
    (hp : PathClass p = true) (henv : EnvClass env) :
    (paths n p env vp).map Prod.fst = run n p env vp.1 :=
  agree_ev n p env vp hp henv

/-- `recurse(.[]?)` with `getpath`, `first`, `reduce` inside satisfies the hypotheses. -/
example : PathClass (.pipe (recursePE (.path .id (.iter true .nil)) "r")
      (.first (.fold .reduce (.lit .null) "$x" .id (.path .id (.index (.var "$x") true .nil)) .id))) = true
    ∧ EnvClass .nil := ⟨rfl, trivial⟩

/-- Every (value, path) pair that `paths` outputs — for *any* term, path expression or not —
satisfies `getpath(path) = value` on a well-formed input. -/
theorem getpath_of_paths (n : Nat) (p : PE) (env : Env) (v : Val) (hv : WF v) :
    ∀ z ∈ (paths n p env (v, [])).vals, getpathV v z.2 = .ok z.1 :=
  fun z hz => (pathsGood_ev n p env (v, []) v ⟨hv, rfl⟩ z hz).2

example : WF (.obj [(.tstr [97], .arr [.num (.int 1), .null]), (.tstr [98], .obj [])]) := by
  refine WF.obj _ ⟨by decide, ?_, by decide, ?_, trivial⟩ ?_
  · intro p hp; simp at hp; subst hp; decide
  · intro p hp; simp at hp
  · intro p hp
    simp at hp
    rcases hp with rfl | rfl
    · exact WF.arr _ (by intro x hx; simp at hx; rcases hx with rfl | rfl <;> constructor)
    · exact WF.obj _ trivial (by simp)

/-- Hence `getpath(path(p))` reproduces `p`: mapping `getpath` over the paths of `path(p)` gives
the outputs of `p`, in order. -/
theorem getpath_path_reproduces (n : Nat) (p : PE) (env : Env) (v : Val) (hv : WF v)
    (hp : PathClass p = true) (henv : EnvClass env) :
    (paths n p env (v, [])).vals.map (fun z => getpathV v z.2) = (run n p env v).vals.map .ok := by
  rw [← paths_fst_eq_run n p env (v, []) hp henv]
  simp only [Out.map_vals, List.map_map]
  apply List.map_congr_left
  intro z hz
  exact getpath_of_paths n p env v hv z hz

/-- The manual's rule for `//`: `path(f // g) = path(if first(f // false) then f else g end)`.
`altRule o` is the outcome of `first(f // false)` when `f` has outcome `o` (`run_first_alt_false`).
Hypothesis: the question is not decided by an *error* of `f` (then jaq takes the paths of `f`,
which re-raises the error after the paths of the falsy outputs — see `alt_paths_err`). -/
theorem alt_paths_rule (n : Nat) (f g : PE) (env : Env) (vp : Val × VPath)
    (h : ∀ e, (run n f env vp.1).stop = some (.err e) → (run n f env vp.1).vals.any asBool = true) :
    paths (n + 1) (.alt f g) env vp =
      (altRule (run n f env vp.1)).bind fun c => paths n (if asBool c then f else g) env vp :=
  (altRule_bind _ h _).symm

theorem alt_paths_err (n : Nat) (f g : PE) (env : Env) (vp : Val × VPath) (e : Err)
    (h : (run n f env vp.1).stop = some (.err e)) :
    paths (n + 1) (.alt f g) env vp = paths n f env vp := by
  show stepPaths (ev n) (.alt f g) env vp = _
  have : anyTrue ((ev n).run f env vp.1) = some true := anyTrue_err _ e h
  simp only [stepPaths, this]
  rfl

/-- `first(f // false)` evaluates to `altRule` of the outcome of `f`. -/
theorem run_first_alt_false (n : Nat) (f : PE) (env : Env) (v : Val) :
    run (n + 3) (.first (.alt f (.lit (.bool false)))) env v = altRule (run (n + 1) f env v) := rfl

/-! ## 2. Value-constructing terms have no path -/

/-- `path` or an update of a value-constructing term fails with the path-expression error (carrying
the input), never guesses a position. -/
theorem constructing_has_no_path (n : Nat) (p : PE) (env : Env) (vp : Val × VPath) (u : Val → Out Val)
    (hp : Constructing p = true) :
    paths (n + 1) p env vp = Out.error (.pathExpr vp.1) ∧
    update (n + 1) p env vp.1 u = Out.error (.pathExpr vp.1) := by
  cases p <;> simp only [Constructing, Bool.false_eq_true] at hp <;> exact ⟨rfl, rfl⟩

/-- A bound variable has no path either (`Bind::Var` arm). -/
theorem variable_has_no_path (n : Nat) (x : String) (y : Val) (env : Env) (vp : Val × VPath) (u : Val → Out Val) :
    paths (n + 1) (.var x) (env.var x y) vp = Out.error (.pathExpr vp.1) ∧
    update (n + 1) (.var x) (env.var x y) vp.1 u = Out.error (.pathExpr vp.1) := by
  constructor <;> simp [paths, update, ev, step, stepPaths, stepUpdate, Env.getVar]

/-- `first`, `last`, `limit`, `skip`, `try` have paths but cannot be updated (docs/advanced.dj). -/
theorem update_of_first_last_try_fails (n : Nat) (f : PE) (env : Env) (v : Val) (u : Val → Out Val) :
    update (n + 1) (.first f) env v u = Out.error (.pathExpr v) ∧
    update (n + 1) (.last f) env v u = Out.error (.pathExpr v) ∧
    update (n + 1) (.tryE f) env v u = Out.error (.pathExpr v) := ⟨rfl, rfl, rfl⟩

/-! ## 3. The manual's reduction rules for `p |= u` -/

/-- `. |= u` is `u` -/
theorem update_id (n : Nat) (env : Env) (v : Val) (u : Val → Out Val) :
    update (n + 1) .id env v u = u v := rfl

/-- `(f | g) |= u` is `f |= (g |= u)` -/
theorem update_pipe (n : Nat) (f g : PE) (env : Env) (v : Val) (u : Val → Out Val) :
    update (n + 1) (.pipe f g) env v u = update n f env v fun x => update n g env x u := rfl

/-- `(f, g) |= u` is `(f |= u) | (g |= u)` -/
theorem update_comma (n : Nat) (f g : PE) (env : Env) (v : Val) (u : Val → Out Val) :
    update (n + 1) (.comma f g) env v u = (update n f env v u).bind fun v' => update n g env v' u := rfl

/-- `(f as $x | g) |= u` is `(f1 as $x | g) |= u | … | (fn as $x | g) |= u`: the bindings are
applied one after the other, in the order `f` yields them, each to the result of the previous
one (`seqUpd` is that pipe chain); an error of `f` surfaces after the bindings before it. -/
theorem update_bind (n : Nat) (f g : PE) (x : String) (env : Env) (v : Val) (u : Val → Out Val) :
    update (n + 1) (.bind f x g) env v u =
      seqUpd (fun xv acc => update n g (env.var x xv) acc u) (run n f env v).vals (run n f env v).stop v :=
  reduceOut_eq_seqUpd _ _ _

/-- `if c then f else g end |= u`: binding by binding over the outputs of `c`
(`if $p then f |= u else g |= u end` for each). -/
theorem update_ite (n : Nat) (c f g : PE) (env : Env) (v : Val) (u : Val → Out Val) :
    update (n + 1) (.ite c f g) env v u =
      seqUpd (fun b acc => update n (if asBool b then f else g) env acc u)
        (run n c env v).vals (run n c env v).stop v :=
  reduceOut_eq_seqUpd _ _ _

/-- `(f // g) |= u` is `if first(f // false) then f |= u else g |= u end`
(same hypothesis as `alt_paths_rule`). -/
theorem update_alt (n : Nat) (f g : PE) (env : Env) (v : Val) (u : Val → Out Val)
    (h : ∀ e, (run n f env v).stop = some (.err e) → (run n f env v).vals.any asBool = true) :
    update (n + 1) (.alt f g) env v u =
      (altRule (run n f env v)).bind fun c => update n (if asBool c then f else g) env v u :=
  (altRule_bind _ h _).symm

/-- `.. |= u` is `def rec_up: (.[]? | rec_up), .; rec_up |= u` (children first, then the value). -/
theorem update_recurse (n : Nat) (env : Env) (v : Val) (u : Val → Out Val) :
    update (n + 1) .recurse env v u = recUpSpec v.size v u :=
  recUpdateF_eq_spec v.size v u

/-- `empty |= u` is `.` (with `empty` as `defs.jq` defines it, see `empty_def`). -/
theorem update_empty_id (n : Nat) (x : String) (env : Env) (v : Val) (u : Val → Out Val) :
    update (n + 3) (emptyPE x) env v u = Out.one v := rfl

/-- `error |= u` raises the error. -/
theorem update_error (n : Nat) (x : String) (env : Env) (v : Val) (u : Val → Out Val) :
    update (n + 2) (errorPE x) env v u = Out.error (.val v) := rfl

/-- `.[] |= u` is `iter_upd(u; error)`, `.[]? |= u` is `iter_upd(u; .)` -/
theorem update_iter (opt : Bool) (v : Val) (u : Val → Out Val) :
    partUpdate (.range none none) opt v u = iterUpd v u fun v => optFail opt v (.typ v tyIter) :=
  mapValues_eq_iterUpd v opt u

/-- … as a statement about the evaluator: `.[] |= u` on the whole filter. -/
theorem update_iter_filter (n : Nat) (opt : Bool) (env : Env) (v : Val) (u : Val → Out Val) :
    update (n + 2) (.path .id (.iter opt .nil)) env v u =
      Out.ofExcept (iterUpd v u fun v => optFail opt v (.typ v tyIter)) := by
  rw [← update_iter]
  show Out.ofExcept (foldPaths u [.ok [(.range none none, opt)]] v) = _
  simp only [foldPaths, cpathUpdate]
  cases partUpdate (.range none none) opt v u <;> rfl

/-- `.[$i] |= u` on an array with an integer `$i` is `index_upd($i; u; fail)`:
`.[:$i] + [.[$i] | first(u)] + .[$i+1:]` after wrapping a negative index; out of bounds fails. -/
theorem update_index (a : List Val) (i : Int) (opt : Bool) (u : Val → Out Val) :
    partUpdate (.index (.num (.int i))) opt (.arr a) u =
      indexUpdArr a i u (optFail opt (.arr a) (.str "index out of bounds")) :=
  mapIndex_arr_eq_indexUpd a i opt u

/-- `.[$i:$j] |= u` on an array is `slice_upd`: the slice is replaced by the first output of `u`
(which must be an array), removed when there is none; bad bounds fail. -/
theorem update_slice (a : List Val) (f t : Option Val) (opt : Bool) (u : Val → Out Val) :
    partUpdate (.range f t) opt (.arr a) u =
      if f.isNone && t.isNone then iterUpd (.arr a) u fun v => optFail opt v (.typ v tyIter)
      else match rangeInt f t with
        | .error e => optFail opt (.arr a) e
        | .ok r => sliceUpdArr a (skipTake r a.length).1 (skipTake r a.length).2 u := by
  cases f <;> cases t <;> simp only [partUpdate, Option.isNone, Bool.and_true, Bool.and_false,
    Bool.false_eq_true, if_true, if_false]
  · exact mapValues_eq_iterUpd _ _ _
  all_goals
    simp only [mapRange, sliceUpdArr, firstOf]
    cases rangeInt _ _ <;> rfl

/-- `?` turns the failure of a path part into identity and changes nothing else: the optional
part gives the same result as the essential one, or the essential one fails and the optional
one returns its input unchanged. -/
theorem opt_failure_is_identity (cp : CPart) (v : Val) (u : Val → Out Val) :
    partUpdate cp true v u = partUpdate cp false v u ∨
    (partUpdate cp true v u = .ok v ∧ ∃ e, partUpdate cp false v u = .error (.err e)) :=
  partUpdate_opt cp v u

/-- A compound path `.[a][b]… |= u` is the nested update `.[a] |= (.[b]… |= u)`; the inner
update hands exactly one result (or its error) to the outer part. -/
theorem update_compound (p : CPart × Bool) (q : CPart × Bool) (rest : CPath) (v : Val) (u : Val → Out Val) :
    cpathUpdate (p :: q :: rest) v u =
      partUpdate p.1 p.2 v fun x => Out.ofExcept (cpathUpdate (q :: rest) x u) := rfl

/-! ## 4. `=`, `op=`, `//=` with multi-valued right-hand sides -/

/-- `p = w`: for every output `y` of `w` (run on the input), `p |= y` -/
theorem assign_desugar (n : Nat) (p w : PE) (env : Env) (v : Val) :
    run (n + 1) (.assign p w) env v =
      (run n w env v).bind fun y => update n p env v fun _ => Out.one y := rfl

/-- `p op= w`: for every output `y` of `w` (run on the input), `p |= . op y`
(`w as $x | p |= . op $x`) -/
theorem updateMath_desugar (n : Nat) (op : MathOp) (p w : PE) (env : Env) (v : Val) :
    run (n + 1) (.updateMath op p w) env v =
      (run n w env v).bind fun y => update n p env v fun x => Out.ofValR (mathOp op x y) := rfl

/-- `p //= w`: for every output `y` of `w`, `p |= (. // y)` -/
theorem updateAlt_desugar (n : Nat) (p w : PE) (env : Env) (v : Val) :
    run (n + 1) (.updateAlt p w) env v =
      (run n w env v).bind fun y => update n p env v fun x => Out.one (if asBool x then x else y) := rfl

/-- `. // $y` on a single value is that choice. -/
theorem alt_single (n : Nat) (x : String) (y z : Val) (env : Env) :
    run (n + 2) (.alt .id (.var x)) (env.var x y) z = Out.one (if asBool z then z else y) := by
  show stepRun (ev (n + 1)) (.alt .id (.var x)) (env.var x y) z = _
  simp only [stepRun]
  cases h : asBool z <;>
    simp [ev, step, stepRun, altKeep, Out.one, h, Env.getVar]

/-- `p |= u` is `run` of the update term (`Ast::Update` arm). -/
theorem update_term (n : Nat) (p u : PE) (env : Env) (v : Val) :
    run (n + 1) (.update p u) env v = update n p env v fun x => run n u env x := rfl

/-! ## 5. Derived filters: the definitions of `defs.jq`, as generated from the real file -/

theorem empty_def : Gen.empty = emptyPE "$x_2" := rfl
theorem error_def : Gen.error = errorPE "$x_2" := rfl
theorem select_def : Gen.select = selectPE (.var "$F") "$x_2" := rfl
theorem recurse_def : Gen.recurse1 = recursePE (.var "$F") "r_1" := rfl
theorem recurse0_def : Gen.recurse0 = recursePE (.path .id (.iter true .nil)) "r_2" := rfl
theorem getpath_def : Gen.getpath = getpathPE (.var "$P") "$path_1" "$p_2" := rfl
/-- `setpath($p; $x)` is `getpath($p) = $x` -/
theorem setpath_def : Gen.setpath =
    .bind (.var "$P") "$path_1" (.bind (.var "$X") "$x_2"
      (.assign (getpathPE (.var "$path_1") "$path_3" "$p_4") (.var "$x_2"))) := rfl
/-- `delpaths($ps)` deletes sequentially, each path relative to the current value:
`reduce $ps[] as $p (.; getpath($p) |= empty)` -/
theorem delpaths_def : Gen.delpaths =
    .bind (.var "$P") "$paths_1" (.fold .reduce (.path (.var "$paths_1") (.iter false .nil)) "$path_2" .id
      (delPE (getpathPE (.var "$path_2") "$path_3" "$p_4") "$x_6") .id) := rfl
/-- `paths` is `skip(1; path(..))` -/
theorem paths_def : Gen.paths = pathsPE := rfl
/-- `del(f)` is `f |= empty` -/
theorem del_def : Gen.del = delPE (.var "$F") "$x_2" := rfl
/-- `map_values(f)` is `.[] |= f` -/
theorem map_values_def : Gen.map_values = mapValuesPE (.var "$F") := rfl
/-- `walk(f)` is `.. |= f` -/
theorem walk_def : Gen.walk = walkPE (.var "$F") := rfl

/-- `select(c)` keeps the position of its input: its paths are the input's path, once per truthy
output of `c`. -/
theorem select_paths (n : Nat) (c : PE) (x : String) (env : Env) (vp : Val × VPath) :
    paths (n + 4) (selectPE c x) env vp =
      (run (n + 3) c env vp.1).bind fun b => if asBool b then Out.one vp else Out.nil := by
  show stepPaths (ev (n + 3)) (selectPE c x) env vp = _
  simp only [selectPE, stepPaths]
  apply Out.bind_congr
  intro b _
  cases asBool b <;> rfl

/-- `keys_unsorted` lists the keys in the order of `path(.[])`. -/
theorem keys_unsorted_spec (n : Nat) (env : Env) (v : Val) :
    run (n + 1) .keysUnsorted env v =
      match (paths (n + 2) (.path .id (.iter false .nil)) env (v, [])).collect with
      | .ok zs => Out.one (.arr (zs.map fun z => z.2.getLast?.getD .null))
      | .error e => Out.fail e :=
  keysUnsorted_eq v n env

/-- `paths` (= `skip(1; path(..))`) yields the paths of `..` without the first (the root), as arrays. -/
theorem paths_spec (n : Nat) (env : Env) (v : Val) :
    run (n + 4) pathsPE env v = Out.ofList (((recPaths (v, [])).drop 1).map fun z => .arr z.2) :=
  pathsPE_eq v n env

/-! ## 6. An update touches only the positions it is given -/

/-- PARTIAL (`update_touches_only_paths_partial`): proved for one index part on an array — every
position other than `i` keeps its value when the update yields a value.  The full statement
  ∀ p v u π, π not extending a path of `paths p v` → getpath (p |= u) π = getpath v π
is not proved (it needs the position model of `Obj.insert`/`swapRemove`/splice, which C10
develops); it is exercised by the correspondence and by the `getpath`/`setpath`/`delpaths` oracles. -/
theorem update_touches_only_paths_partial (a : List Val) (i j : Nat) (u : Val → Out Val) (y : Val)
    (hi : i < a.length) (hij : j ≠ i) (hu : (u (a[i]?.getD .null)).next? = .ok (some y)) :
    ∃ a', partUpdate (.index (.num (.int i))) false (.arr a) u = .ok (.arr a') ∧
      indexV (.arr a') (.num (.int j)) = indexV (.arr a) (.num (.int j)) :=
  index_update_other a i j u y hi hij hu

/-! ## 7. Round 2 — objects and strings in the update table -/

/-- `.[$i] |= u` on an **object** is the manual's `index_upd($i; u; fail)`:
`if has($i) then with_entries(if .key == $i then {key, value: first(.value | u)} end)
 else . + {($i): first(null | u)} end` — same error, or the same entries; the order of the entries
may differ when the entry is deleted (`swap_remove` moves the last entry into the gap; jaq's `==`
on objects ignores the order). -/
theorem update_index_obj (o : List (Val × Val)) (i : Val) (opt : Bool) (u : Val → Out Val) :
    SameEntries (partUpdate (.index i) opt (.obj o) u) (indexUpdObj o i u) :=
  mapIndex_obj_spec o i opt u

/-- … and when `u` does not delete, the result is the manual's object exactly (order included). -/
theorem update_index_obj_exact (o : List (Val × Val)) (i : Val) (opt : Bool) (u : Val → Out Val)
    (hnd : ∀ x, (u x).next? ≠ .ok none) :
    partUpdate (.index i) opt (.obj o) u = (indexUpdObj o i u).map .obj :=
  mapIndex_obj_exact o i opt u hnd

example : ∀ x, ((fun y => Out.one (Val.arr [y])) x).next? ≠ .ok none := by intro x h; cases h

/-- `.[$i] |= u` on a sequence (array, text string, byte string) with a `{start, end}` object as
`$i` is the slice update (first clause of the manual's `index_upd`). -/
theorem update_index_slice (v : Val) (s : Seq) (hs : seqOf v = some s) (io : List (Val × Val))
    (opt : Bool) (u : Val → Out Val) :
    partUpdate (.index (.obj io)) opt v u =
      partUpdate (.range (Obj.get io kStart) (Obj.get io kEnd)) opt v u
      ∨ (Obj.get io kStart = none ∧ Obj.get io kEnd = none ∧
          partUpdate (.index (.obj io)) opt v u = mapRange v none none opt u) := by
  cases v <;> simp only [seqOf, reduceCtorEq] at hs
  all_goals
    cases h1 : Obj.get io kStart <;> cases h2 : Obj.get io kEnd
    · exact Or.inr ⟨rfl, rfl, by simp only [partUpdate, mapIndex, isSeq, h1, h2]⟩
    all_goals exact Or.inl (by simp only [partUpdate, mapIndex, isSeq, h1, h2])

/-- `.[$i] |= u` on a **string** with a number as `$i` fails (`fail`: error, or identity with `?`);
strings have no positions but slices. -/
theorem update_index_str (b : List UInt8) (n : Num) (opt : Bool) (u : Val → Out Val) :
    partUpdate (.index (.num n)) opt (.tstr b) u = optFail opt (.tstr b) (.typ (.tstr b) tyIter) ∧
    partUpdate (.index (.num n)) opt (.bstr b) u = optFail opt (.bstr b) (.typ (.bstr b) tyIter) :=
  ⟨rfl, rfl⟩

/-- `.[] |= u` on a string (or any other non-container) fails the same way. -/
theorem update_iter_str (b : List UInt8) (opt : Bool) (u : Val → Out Val) :
    partUpdate (.range none none) opt (.tstr b) u = optFail opt (.tstr b) (.typ (.tstr b) tyIter) ∧
    partUpdate (.range none none) opt (.bstr b) u = optFail opt (.bstr b) (.typ (.bstr b) tyIter) :=
  ⟨rfl, rfl⟩

/-- `.[] |= u` on an object is `with_entries({key, value: first(.value | u)})` (this is the object
case of `update_iter`, spelled out): every value is replaced by the first output of `u`, an entry
without output disappears, the remaining entries keep their order; an error of `u` is the result. -/
theorem update_iter_obj (o : List (Val × Val)) (opt : Bool) (u : Val → Out Val) :
    partUpdate (.range none none) opt (.obj o) u =
      (o.foldr (fun (kx : Val × Val) (acc : Except Exn (List (Val × Val))) =>
        match firstOf (u kx.2) with
        | .error e => .error e
        | .ok none => acc
        | .ok (some y) => acc.map ((kx.1, y) :: ·)) (.ok [])).map .obj :=
  update_iter opt (.obj o) u

/-- `.[$i:$j] |= u` on **any sequence** — array, text string (positions count characters), byte
string — is the manual's `slice_upd`: `[.[:$i], .[$i:$j], .[$j:]] | .[1] |= u | add` with the
bounds resolved as `.[$i:$j]` resolves them (`skipTake`); the replacement must be of the kind
of the input; no output removes the slice; bad bounds `fail`. -/
theorem update_slice_seq (v : Val) (s : Seq) (hs : seqOf v = some s) (f t : Option Val) (opt : Bool)
    (u : Val → Out Val) (hft : f.isSome ∨ t.isSome) :
    partUpdate (.range f t) opt v u =
      match rangeInt f t with
      | .error e => optFail opt v e
      | .ok r => sliceUpdSeq s (skipTake r s.length).1 (skipTake r s.length).2 u := by
  have hm := mapRange_seq v s hs f t opt u
  cases f <;> cases t
  · simp at hft
  all_goals exact hm

/-- … and the middle part handed to `u` is exactly what `.[$i:$j]` reads: the run evaluator's
`range` and the update evaluator's `map_range` cut the same slice. -/
theorem slice_reads_what_it_updates (v : Val) (s : Seq) (hs : seqOf v = some s) (f t : Option Val) :
    rangeV v f t =
      (rangeInt f t).map fun r => (s.sub (skipTake r s.length).1 (skipTake r s.length).2).toVal :=
  rangeV_seq v s hs f t

/-- on anything that is not a sequence a slice update `fail`s -/
theorem update_slice_nonseq (v : Val) (hs : seqOf v = none) (f t : Option Val) (opt : Bool)
    (u : Val → Out Val) (hft : f.isSome ∨ t.isSome) :
    partUpdate (.range f t) opt v u = optFail opt v (.typ v tyArr) := by
  have hm := mapRange_nonseq v hs f t opt u
  cases f <;> cases t
  · simp at hft
  all_goals exact hm

example : seqOf (.arr [.null]) = some (.arr [.null]) ∧ ∃ s, seqOf (.tstr [97, 98]) = some s := ⟨rfl, _, rfl⟩

/-! ## 8. Round 2 — `//` when the left side begins with an error -/

/-- The manual's rule `path(f // g) = path(if first(f // false) then f else g end)` for a path
expression `f`, now also when `f` raises an error before any output (both sides raise that
error).  The only case left out: `f` yields falsy values *and then* an error without any truthy
value between — there jaq lists the paths of the falsy values before the error (`alt_paths_err`),
the manual's expression raises the error at once. -/
theorem alt_paths_rule_strong (n : Nat) (f g : PE) (env : Env) (vp : Val × VPath)
    (hp : PathClass f = true) (henv : EnvClass env)
    (h : ∀ e, (run n f env vp.1).stop = some (.err e) →
      (run n f env vp.1).vals.any asBool = true ∨ (run n f env vp.1).vals = []) :
    paths (n + 1) (.alt f g) env vp =
      (altRule (run n f env vp.1)).bind fun c => paths n (if asBool c then f else g) env vp :=
  alt_paths_strong n f g env vp hp henv h

/-! ## 9. Round 2 — an update touches only the positions it is given -/

/-- **Frame property of one evaluated path.**  `cp` is a path as `path(…)` evaluates it: index
parts (any key, negative indices included) and `.[]` parts, with or without `?`, any length.
If `π` *avoids* the positions that `cp` denotes in `v` (`Avoids`: `π` is none of them, nor below
or above one; slots of arrays are compared after resolving negative indices, keys of objects as
the lookup compares them) and the update function yields one value wherever it is applied, then
`getpath(π)` reads in the updated value exactly what it read before — for every value `v`
(arrays, objects, anything), every `u`, every `π`. -/
theorem update_touches_only_path (cp : CPath) (v v' : Val) (u : Val → Out Val) (π : VPath)
    (hu : Single u) (h : cpathUpdate cp v u = .ok v') (hπ : Avoids v cp π) :
    getpathV v' π = getpathV v π :=
  cpathUpdate_frame u hu cp v v' π h hπ

/-- `{"a":[1,2],"b":3} | .a[0] |= u`: the positions `["b"]`, `["a",1]` and `["a",-1]` avoid `.a[0]`. -/
example : let v : Val := .obj [(.tstr [97], .arr [.num (.int 1), .num (.int 2)]), (.tstr [98], .num (.int 3))]
    let cp : CPath := [(.index (.tstr [97]), false), (.index (.num (.int 0)), false)]
    Avoids v cp [.tstr [98]] ∧ Avoids v cp [.tstr [97], .num (.int 1)] ∧
      Avoids v cp [.tstr [97], .num (.int (-1))] := by
  refine ⟨Or.inl ⟨by decide, ?_⟩, Or.inr ⟨rfl, _, rfl, Or.inl ⟨0, .int 1, by decide, rfl, rfl, by decide⟩⟩,
    Or.inr ⟨rfl, _, rfl, Or.inl ⟨0, .int (-1), by decide, rfl, rfl, by decide⟩⟩⟩
  intro e he
  simp only [List.mem_cons, List.mem_nil_iff, or_false] at he
  rcases he with rfl | rfl <;> decide

/-- The same for the filter `.[f][g]… |= u` as the evaluator runs it, with arbitrary index
filters `f`, `g` (several outputs each: the evaluated paths are applied one after the other, and
`π` has to avoid each at the moment it is applied, `AvoidsSeq`). -/
theorem update_touches_only_paths_filter (n : Nat) (ps : Parts) (env : Env) (v v' : Val)
    (u : Val → Out Val) (π : VPath) (hu : Single u)
    (h : v' ∈ (update (n + 2) (.path .id ps) env v u).vals)
    (hπ : AvoidsSeq u (explode (ev (n + 1)) env v ps) v π) :
    getpathV v' π = getpathV v π := by
  rw [update_path_id] at h
  exact foldPaths_frame u hu _ v v' π (mem_ofExcept h) hπ

/-- `(f, g) |= u` leaves alone what both `f |= u` (on the input) and `g |= u` (on every result of
the former) leave alone. -/
theorem update_touches_comma (n : Nat) (f g : PE) (env : Env) (v v' : Val) (u : Val → Out Val) (π : VPath)
    (hf : ∀ v1 ∈ (update n f env v u).vals, getpathV v1 π = getpathV v π)
    (hg : ∀ v1 ∈ (update n f env v u).vals, ∀ v2 ∈ (update n g env v1 u).vals, getpathV v2 π = getpathV v1 π)
    (h : v' ∈ (update (n + 1) (.comma f g) env v u).vals) :
    getpathV v' π = getpathV v π := by
  rw [update_comma] at h
  obtain ⟨v1, h1, h2⟩ := Out.mem_bind h
  rw [hg v1 h1 v' h2, hf v1 h1]

/- NOT a theorem (failing instances on the real binary, see design/notes/C02.md §Round 2):
     ∀ p v u π, π ∉ paths p v (nor below/above one) → getpath (p |= u) π = getpath v π
   * `[1,2,3] | .[0] |= empty` → `[2,3]`: position `[1]` is not in `path(.[0])` and changes (deletion shifts);
   * `[[1]] | .[0][] |= (., .)` → `[[1,1]]`: position `[0,1]` is not in `path(.[0][])` and changes;
   * `{"a":0,"b":0,"c":0} | (.a, if .a == 1 then .b else .c end) |= 1` → `{"a":1,"b":1,"c":0}`: `path(…)` on the
     input lists `["a"]`, `["c"]`, the update touches `["a"]`, `["b"]` — the manual's rule
     `(f, g) |= u` = `(f |= u) | (g |= u)` runs `g` on the *updated* value.
   What holds is stated above: per evaluated path (`update_touches_only_path`), for sequences of paths with the
   positions taken at the moment of the update (`update_touches_only_paths_filter`, `update_touches_comma`);
   `Single u` excludes the first two.  Open: deriving `AvoidsSeq` from `paths p v` on the input for index
   filters that do not read updated positions, and slices (`Avoids` does not follow them). -/

/-! ## 10. Round 2 — `=`, `op=`, `//=` as terms -/

/-- `w as $x | p |= $x`, evaluated: for every output `y` of `w`, `p |= y` with `$x` bound. -/
theorem bind_update_var (n : Nat) (p w : PE) (x : String) (env : Env) (v : Val) :
    run (n + 3) (.bind w x (.update p (.var x))) env v =
      (run (n + 2) w env v).bind fun y => update (n + 1) p (env.var x y) v fun _ => Out.one y := by
  show ((ev (n + 2)).run w env v).bind _ = _
  apply Out.bind_congr
  intro y _
  show (ev (n + 1)).update p (env.var x y) v _ = _
  congr 1
  funext z
  simp [ev, step, stepRun, Env.getVar]

/-- PARTIAL (`assign_is_bind_update_partial`): `p = w` and its documented desugaring
`w as $x | p |= $x` are the same *term-level* computation, given that (a) the fuel suffices for `w`
(two more steps change nothing) and (b) `$x` is fresh for `p` and the fuel suffices for `p` (binding
`$x` and one more step change nothing).  Missing for the unconditional statement: monotonicity of
the three evaluators in the fuel and weakening of the environment by an unused variable. -/
theorem assign_is_bind_update_partial (n : Nat) (p w : PE) (x : String) (env : Env) (v : Val)
    (hw : run (n + 2) w env v = run n w env v)
    (hp : ∀ y f, update (n + 1) p (env.var x y) v f = update n p env v f) :
    run (n + 3) (.bind w x (.update p (.var x))) env v = run (n + 1) (.assign p w) env v := by
  rw [bind_update_var, assign_desugar, hw]
  apply Out.bind_congr
  intro y _
  exact hp y _

/-- `. = 1` satisfies the hypotheses at every fuel ≥ 1. -/
example (m : Nat) (env : Env) (v : Val) :
    run (m + 1 + 2) (.lit (.num (.int 1))) env v = run (m + 1) (.lit (.num (.int 1))) env v ∧
    ∀ y f, update (m + 1 + 1) .id (env.var "$x" y) v f = update (m + 1) .id env v f :=
  ⟨rfl, fun _ _ => rfl⟩

/-- `w as $x | p |= . op $x`, evaluated -/
theorem bind_update_math (n : Nat) (op : MathOp) (p w : PE) (x : String) (env : Env) (v : Val) :
    run (n + 4) (.bind w x (.update p (.math op .id (.var x)))) env v =
      (run (n + 3) w env v).bind fun y =>
        update (n + 2) p (env.var x y) v fun z => Out.ofValR (mathOp op z y) := by
  show ((ev (n + 3)).run w env v).bind _ = _
  apply Out.bind_congr
  intro y _
  show (ev (n + 2)).update p (env.var x y) v _ = _
  congr 1
  funext z
  show cartesian ((ev (n + 1)).run .id (env.var x y) z) ((ev (n + 1)).run (.var x) (env.var x y) z) (mathOp op) = _
  have h1 : (ev (n + 1)).run .id (env.var x y) z = Out.one z := rfl
  have h2 : (ev (n + 1)).run (.var x) (env.var x y) z = Out.one y := by
    simp [ev, step, stepRun, Env.getVar]
  rw [h1, h2, cartesian_one_one]

/-- PARTIAL: `p op= w` is its documented desugaring `w as $x | p |= . op $x` as a term, under the same two
hypotheses as `assign_is_bind_update_partial` (fuel suffices; `$x` fresh for `p`). -/
theorem updateMath_is_bind_update_partial (n : Nat) (op : MathOp) (p w : PE) (x : String) (env : Env) (v : Val)
    (hw : run (n + 3) w env v = run n w env v)
    (hp : ∀ y f, update (n + 2) p (env.var x y) v f = update n p env v f) :
    run (n + 4) (.bind w x (.update p (.math op .id (.var x)))) env v = run (n + 1) (.updateMath op p w) env v := by
  rw [bind_update_math, updateMath_desugar, hw]
  apply Out.bind_congr
  intro y _
  exact hp y _

/-- `w as $x | p |= (. // $x)`, evaluated -/
theorem bind_update_alt (n : Nat) (p w : PE) (x : String) (env : Env) (v : Val) :
    run (n + 4) (.bind w x (.update p (.alt .id (.var x)))) env v =
      (run (n + 3) w env v).bind fun y =>
        update (n + 2) p (env.var x y) v fun z => Out.one (if asBool z then z else y) := by
  show ((ev (n + 3)).run w env v).bind _ = _
  apply Out.bind_congr
  intro y _
  show (ev (n + 2)).update p (env.var x y) v _ = _
  congr 1
  funext z
  exact alt_single n x y z env

/-- PARTIAL: `p //= w` is `w as $x | p |= (. // $x)` as a term, under the same two hypotheses. -/
theorem updateAlt_is_bind_update_partial (n : Nat) (p w : PE) (x : String) (env : Env) (v : Val)
    (hw : run (n + 3) w env v = run n w env v)
    (hp : ∀ y f, update (n + 2) p (env.var x y) v f = update n p env v f) :
    run (n + 4) (.bind w x (.update p (.alt .id (.var x)))) env v = run (n + 1) (.updateAlt p w) env v := by
  rw [bind_update_alt, updateAlt_desugar, hw]
  apply Out.bind_congr
  intro y _
  exact hp y _

end Jaq.C02
