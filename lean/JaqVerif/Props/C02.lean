/-
  C02 — `path(f)`, `getpath` and updates agree on the positions a filter denotes.

  Model: `run n`, `paths n`, `update n` (JaqVerif/C02/{Run,Paths,Update}.lean) are `Id::run`,
  `Id::paths`, `Id::update` of jaq-core/src/filter.rs at fuel `n` (outcome = outputs so far +
  terminator; `fuel` as terminator means the recursion budget ran out).  All theorems hold for
  every fuel, every environment, every input.  Helper lemmas: JaqVerif/Lemmas/C02*.lean.
-/
import JaqVerif.Lemmas.C02Agree
import JaqVerif.Lemmas.C02Getpath
import JaqVerif.Lemmas.C02Update
import JaqVerif.Gen.C02Defs

namespace Jaq.C02

/-! ## 1. The three evaluators stay in step -/

/-- `path(p)` lists, in order, exactly the positions of the values `p` outputs: dropping the
paths from the outcome of `paths` gives the outcome of `run` — same values, same order, same
terminator — for every path expression (class `PathClass`, recursive definitions included). -/
theorem paths_fst_eq_run (n : Nat) (p : PE) (env : Env) (vp : Val × VPath)
    (hp : PathClass p = true) (henv : EnvClass env) :
    (paths n p env vp).map Prod.fst = run n p env vp.1 :=
  agree_ev n p env vp hp henv

/-- `recurse(.[]?)` with `getpath`, `first`, `reduce` inside satisfies the hypotheses. -/
example : PathClass (.pipe (recursePE (.path .id (.iter true .nil)) "r")
      (.first (.fold .reduce (.lit .null) "$x" .id (.path .id (.index (.var "$x") true .nil)) .id))) = true
    ∧ EnvClass .nil := ⟨rfl, trivial⟩

/-- Every (value, path) pair that `paths` outputs — for *any* term, path expression or not —
satisfies `getpath(path) = value` on a well-formed input. -/
theorem getpath_of_paths (n : Nat) (p : PE) (env : Env) (v : Val) (hv : WF v) :
    ∀ z ∈ (paths n p env (v, [])).vals, getpathV v z.2 = .ok z.1 :=
  fun z hz => (pathsGood_ev n p env (v, []) v ⟨hv, rfl⟩ z hz).2

example : WF (.obj [(.tstr [97], .arr [.num (.int 1), .null]), (.tstr [98], .obj [])]) := by
  refine WF.obj _ ⟨by decide, ?_, by decide, ?_, trivial⟩ ?_
  · intro p hp; simp at hp; subst hp; decide
  · intro p hp; simp at hp
  · intro p hp
    simp at hp
    rcases hp with rfl | rfl
    · exact WF.arr _ (by intro x hx; simp at hx; rcases hx with rfl | rfl <;> constructor)
    · exact WF.obj _ trivial (by simp)

/-- Hence `getpath(path(p))` reproduces `p`: mapping `getpath` over the paths of `path(p)` gives
the outputs of `p`, in order. -/
theorem getpath_path_reproduces (n : Nat) (p : PE) (env : Env) (v : Val) (hv : WF v)
    (hp : PathClass p = true) (henv : EnvClass env) :
    (paths n p env (v, [])).vals.map (fun z => getpathV v z.2) = (run n p env v).vals.map .ok := by
  rw [← paths_fst_eq_run n p env (v, []) hp henv]
  simp only [Out.map_vals, List.map_map]
  apply List.map_congr_left
  intro z hz
  exact getpath_of_paths n p env v hv z hz

/-- The manual's rule for `//`: `path(f // g) = path(if first(f // false) then f else g end)`.
`altRule o` is the outcome of `first(f // false)` when `f` has outcome `o` (`run_first_alt_false`).
Hypothesis: the question is not decided by an *error* of `f` (then jaq takes the paths of `f`,
which re-raises the error after the paths of the falsy outputs — see `alt_paths_err`). -/
theorem alt_paths_rule (n : Nat) (f g : PE) (env : Env) (vp : Val × VPath)
    (h : ∀ e, (run n f env vp.1).stop = some (.err e) → (run n f env vp.1).vals.any asBool = true) :
    paths (n + 1) (.alt f g) env vp =
      (altRule (run n f env vp.1)).bind fun c => paths n (if asBool c then f else g) env vp :=
  (altRule_bind _ h _).symm

theorem alt_paths_err (n : Nat) (f g : PE) (env : Env) (vp : Val × VPath) (e : Err)
    (h : (run n f env vp.1).stop = some (.err e)) :
    paths (n + 1) (.alt f g) env vp = paths n f env vp := by
  show stepPaths (ev n) (.alt f g) env vp = _
  have : anyTrue ((ev n).run f env vp.1) = some true := anyTrue_err _ e h
  simp only [stepPaths, this]
  rfl

/-- `first(f // false)` evaluates to `altRule` of the outcome of `f`. -/
theorem run_first_alt_false (n : Nat) (f : PE) (env : Env) (v : Val) :
    run (n + 3) (.first (.alt f (.lit (.bool false)))) env v = altRule (run (n + 1) f env v) := rfl

/-! ## 2. Value-constructing terms have no path -/

/-- `path` or an update of a value-constructing term fails with the path-expression error (carrying
the input), never guesses a position. -/
theorem constructing_has_no_path (n : Nat) (p : PE) (env : Env) (vp : Val × VPath) (u : Val → Out Val)
    (hp : Constructing p = true) :
    paths (n + 1) p env vp = Out.error (.pathExpr vp.1) ∧
    update (n + 1) p env vp.1 u = Out.error (.pathExpr vp.1) := by
  cases p <;> simp only [Constructing, Bool.false_eq_true] at hp <;> exact ⟨rfl, rfl⟩

/-- A bound variable has no path either (`Bind::Var` arm). -/
theorem variable_has_no_path (n : Nat) (x : String) (y : Val) (env : Env) (vp : Val × VPath) (u : Val → Out Val) :
    paths (n + 1) (.var x) (env.var x y) vp = Out.error (.pathExpr vp.1) ∧
    update (n + 1) (.var x) (env.var x y) vp.1 u = Out.error (.pathExpr vp.1) := by
  constructor <;> simp [paths, update, ev, step, stepPaths, stepUpdate, Env.getVar]

/-- `first`, `last`, `limit`, `skip`, `try` have paths but cannot be updated (docs/advanced.dj). -/
theorem update_of_first_last_try_fails (n : Nat) (f : PE) (env : Env) (v : Val) (u : Val → Out Val) :
    update (n + 1) (.first f) env v u = Out.error (.pathExpr v) ∧
    update (n + 1) (.last f) env v u = Out.error (.pathExpr v) ∧
    update (n + 1) (.tryE f) env v u = Out.error (.pathExpr v) := ⟨rfl, rfl, rfl⟩

/-! ## 3. The manual's reduction rules for `p |= u` -/

/-- `. |= u` is `u` -/
theorem update_id (n : Nat) (env : Env) (v : Val) (u : Val → Out Val) :
    update (n + 1) .id env v u = u v := rfl

/-- `(f | g) |= u` is `f |= (g |= u)` -/
theorem update_pipe (n : Nat) (f g : PE) (env : Env) (v : Val) (u : Val → Out Val) :
    update (n + 1) (.pipe f g) env v u = update n f env v fun x => update n g env x u := rfl

/-- `(f, g) |= u` is `(f |= u) | (g |= u)` -/
theorem update_comma (n : Nat) (f g : PE) (env : Env) (v : Val) (u : Val → Out Val) :
    update (n + 1) (.comma f g) env v u = (update n f env v u).bind fun v' => update n g env v' u := rfl

/-- `(f as $x | g) |= u` is `(f1 as $x | g) |= u | … | (fn as $x | g) |= u`: the bindings are
applied one after the other, in the order `f` yields them, each to the result of the previous
one (`seqUpd` is that pipe chain); an error of `f` surfaces after the bindings before it. -/
theorem update_bind (n : Nat) (f g : PE) (x : String) (env : Env) (v : Val) (u : Val → Out Val) :
    update (n + 1) (.bind f x g) env v u =
      seqUpd (fun xv acc => update n g (env.var x xv) acc u) (run n f env v).vals (run n f env v).stop v :=
  reduceOut_eq_seqUpd _ _ _

/-- `if c then f else g end |= u`: binding by binding over the outputs of `c`
(`if $p then f |= u else g |= u end` for each). -/
theorem update_ite (n : Nat) (c f g : PE) (env : Env) (v : Val) (u : Val → Out Val) :
    update (n + 1) (.ite c f g) env v u =
      seqUpd (fun b acc => update n (if asBool b then f else g) env acc u)
        (run n c env v).vals (run n c env v).stop v :=
  reduceOut_eq_seqUpd _ _ _

/-- `(f // g) |= u` is `if first(f // false) then f |= u else g |= u end`
(same hypothesis as `alt_paths_rule`). -/
theorem update_alt (n : Nat) (f g : PE) (env : Env) (v : Val) (u : Val → Out Val)
    (h : ∀ e, (run n f env v).stop = some (.err e) → (run n f env v).vals.any asBool = true) :
    update (n + 1) (.alt f g) env v u =
      (altRule (run n f env v)).bind fun c => update n (if asBool c then f else g) env v u :=
  (altRule_bind _ h _).symm

/-- `.. |= u` is `def rec_up: (.[]? | rec_up), .; rec_up |= u` (children first, then the value). -/
theorem update_recurse (n : Nat) (env : Env) (v : Val) (u : Val → Out Val) :
    update (n + 1) .recurse env v u = recUpSpec v.size v u :=
  recUpdateF_eq_spec v.size v u

/-- `empty |= u` is `.` (with `empty` as `defs.jq` defines it, see `empty_def`). -/
theorem update_empty_id (n : Nat) (x : String) (env : Env) (v : Val) (u : Val → Out Val) :
    update (n + 3) (emptyPE x) env v u = Out.one v := rfl

/-- `error |= u` raises the error. -/
theorem update_error (n : Nat) (x : String) (env : Env) (v : Val) (u : Val → Out Val) :
    update (n + 2) (errorPE x) env v u = Out.error (.val v) := rfl

/-- `.[] |= u` is `iter_upd(u; error)`, `.[]? |= u` is `iter_upd(u; .)` -/
theorem update_iter (opt : Bool) (v : Val) (u : Val → Out Val) :
    partUpdate (.range none none) opt v u = iterUpd v u fun v => optFail opt v (.typ v tyIter) :=
  mapValues_eq_iterUpd v opt u

/-- … as a statement about the evaluator: `.[] |= u` on the whole filter. -/
theorem update_iter_filter (n : Nat) (opt : Bool) (env : Env) (v : Val) (u : Val → Out Val) :
    update (n + 2) (.path .id (.iter opt .nil)) env v u =
      Out.ofExcept (iterUpd v u fun v => optFail opt v (.typ v tyIter)) := by
  rw [← update_iter]
  show Out.ofExcept (foldPaths u [.ok [(.range none none, opt)]] v) = _
  simp only [foldPaths, cpathUpdate]
  cases partUpdate (.range none none) opt v u <;> rfl

/-- `.[$i] |= u` on an array with an integer `$i` is `index_upd($i; u; fail)`:
`.[:$i] + [.[$i] | first(u)] + .[$i+1:]` after wrapping a negative index; out of bounds fails. -/
theorem update_index (a : List Val) (i : Int) (opt : Bool) (u : Val → Out Val) :
    partUpdate (.index (.num (.int i))) opt (.arr a) u =
      indexUpdArr a i u (optFail opt (.arr a) (.str "index out of bounds")) :=
  mapIndex_arr_eq_indexUpd a i opt u

/-- `.[$i:$j] |= u` on an array is `slice_upd`: the slice is replaced by the first output of `u`
(which must be an array), removed when there is none; bad bounds fail. -/
theorem update_slice (a : List Val) (f t : Option Val) (opt : Bool) (u : Val → Out Val) :
    partUpdate (.range f t) opt (.arr a) u =
      if f.isNone && t.isNone then iterUpd (.arr a) u fun v => optFail opt v (.typ v tyIter)
      else match rangeInt f t with
        | .error e => optFail opt (.arr a) e
        | .ok r => sliceUpdArr a (skipTake r a.length).1 (skipTake r a.length).2 u := by
  cases f <;> cases t <;> simp only [partUpdate, Option.isNone, Bool.and_true, Bool.and_false,
    Bool.false_eq_true, if_true, if_false]
  · exact mapValues_eq_iterUpd _ _ _
  all_goals
    simp only [mapRange, sliceUpdArr, firstOf]
    cases rangeInt _ _ <;> rfl

/-- `?` turns the failure of a path part into identity and changes nothing else: the optional
part gives the same result as the essential one, or the essential one fails and the optional
one returns its input unchanged. -/
theorem opt_failure_is_identity (cp : CPart) (v : Val) (u : Val → Out Val) :
    partUpdate cp true v u = partUpdate cp false v u ∨
    (partUpdate cp true v u = .ok v ∧ ∃ e, partUpdate cp false v u = .error (.err e)) :=
  partUpdate_opt cp v u

/-- A compound path `.[a][b]… |= u` is the nested update `.[a] |= (.[b]… |= u)`; the inner
update hands exactly one result (or its error) to the outer part. -/
theorem update_compound (p : CPart × Bool) (q : CPart × Bool) (rest : CPath) (v : Val) (u : Val → Out Val) :
    cpathUpdate (p :: q :: rest) v u =
      partUpdate p.1 p.2 v fun x => Out.ofExcept (cpathUpdate (q :: rest) x u) := rfl

/-! ## 4. `=`, `op=`, `//=` with multi-valued right-hand sides -/

/-- `p = w`: for every output `y` of `w` (run on the input), `p |= y` -/
theorem assign_desugar (n : Nat) (p w : PE) (env : Env) (v : Val) :
    run (n + 1) (.assign p w) env v =
      (run n w env v).bind fun y => update n p env v fun _ => Out.one y := rfl

/-- `p op= w`: for every output `y` of `w` (run on the input), `p |= . op y`
(`w as $x | p |= . op $x`) -/
theorem updateMath_desugar (n : Nat) (op : MathOp) (p w : PE) (env : Env) (v : Val) :
    run (n + 1) (.updateMath op p w) env v =
      (run n w env v).bind fun y => update n p env v fun x => Out.ofValR (mathOp op x y) := rfl

/-- `p //= w`: for every output `y` of `w`, `p |= (. // y)` -/
theorem updateAlt_desugar (n : Nat) (p w : PE) (env : Env) (v : Val) :
    run (n + 1) (.updateAlt p w) env v =
      (run n w env v).bind fun y => update n p env v fun x => Out.one (if asBool x then x else y) := rfl

/-- `. // $y` on a single value is that choice. -/
theorem alt_single (n : Nat) (x : String) (y z : Val) (env : Env) :
    run (n + 2) (.alt .id (.var x)) (env.var x y) z = Out.one (if asBool z then z else y) := by
  show stepRun (ev (n + 1)) (.alt .id (.var x)) (env.var x y) z = _
  simp only [stepRun]
  cases h : asBool z <;>
    simp [ev, step, stepRun, altKeep, Out.one, h, Env.getVar]

/-- `p |= u` is `run` of the update term (`Ast::Update` arm). -/
theorem update_term (n : Nat) (p u : PE) (env : Env) (v : Val) :
    run (n + 1) (.update p u) env v = update n p env v fun x => run n u env x := rfl

/-! ## 5. Derived filters: the definitions of `defs.jq`, as generated from the real file -/

theorem empty_def : Gen.empty = emptyPE "$x_2" := rfl
theorem error_def : Gen.error = errorPE "$x_2" := rfl
theorem select_def : Gen.select = selectPE (.var "$F") "$x_2" := rfl
theorem recurse_def : Gen.recurse1 = recursePE (.var "$F") "r_1" := rfl
theorem recurse0_def : Gen.recurse0 = recursePE (.path .id (.iter true .nil)) "r_2" := rfl
theorem getpath_def : Gen.getpath = getpathPE (.var "$P") "$path_1" "$p_2" := rfl
/-- `setpath($p; $x)` is `getpath($p) = $x` -/
theorem setpath_def : Gen.setpath =
    .bind (.var "$P") "$path_1" (.bind (.var "$X") "$x_2"
      (.assign (getpathPE (.var "$path_1") "$path_3" "$p_4") (.var "$x_2"))) := rfl
/-- `delpaths($ps)` deletes sequentially, each path relative to the current value:
`reduce $ps[] as $p (.; getpath($p) |= empty)` -/
theorem delpaths_def : Gen.delpaths =
    .bind (.var "$P") "$paths_1" (.fold .reduce (.path (.var "$paths_1") (.iter false .nil)) "$path_2" .id
      (delPE (getpathPE (.var "$path_2") "$path_3" "$p_4") "$x_6") .id) := rfl
/-- `paths` is `skip(1; path(..))` -/
theorem paths_def : Gen.paths = pathsPE := rfl
/-- `del(f)` is `f |= empty` -/
theorem del_def : Gen.del = delPE (.var "$F") "$x_2" := rfl
/-- `map_values(f)` is `.[] |= f` -/
theorem map_values_def : Gen.map_values = mapValuesPE (.var "$F") := rfl
/-- `walk(f)` is `.. |= f` -/
theorem walk_def : Gen.walk = walkPE (.var "$F") := rfl

/-- `select(c)` keeps the position of its input: its paths are the input's path, once per truthy
output of `c`. -/
theorem select_paths (n : Nat) (c : PE) (x : String) (env : Env) (vp : Val × VPath) :
    paths (n + 4) (selectPE c x) env vp =
      (run (n + 3) c env vp.1).bind fun b => if asBool b then Out.one vp else Out.nil := by
  show stepPaths (ev (n + 3)) (selectPE c x) env vp = _
  simp only [selectPE, stepPaths]
  apply Out.bind_congr
  intro b _
  cases asBool b <;> rfl

/-- `keys_unsorted` lists the keys in the order of `path(.[])`. -/
theorem keys_unsorted_spec (n : Nat) (env : Env) (v : Val) :
    run (n + 1) .keysUnsorted env v =
      match (paths (n + 2) (.path .id (.iter false .nil)) env (v, [])).collect with
      | .ok zs => Out.one (.arr (zs.map fun z => z.2.getLast?.getD .null))
      | .error e => Out.fail e :=
  keysUnsorted_eq v n env

/-- `paths` (= `skip(1; path(..))`) yields the paths of `..` without the first (the root), as arrays. -/
theorem paths_spec (n : Nat) (env : Env) (v : Val) :
    run (n + 4) pathsPE env v = Out.ofList (((recPaths (v, [])).drop 1).map fun z => .arr z.2) :=
  pathsPE_eq v n env

/-! ## 6. An update touches only the positions it is given -/

/-- PARTIAL (`update_touches_only_paths_partial`): proved for one index part on an array — every
position other than `i` keeps its value when the update yields a value.  The full statement
  ∀ p v u π, π not extending a path of `paths p v` → getpath (p |= u) π = getpath v π
is not proved (it needs the position model of `Obj.insert`/`swapRemove`/splice, which C10
develops); it is exercised by the correspondence and by the `getpath`/`setpath`/`delpaths` oracles. -/
theorem update_touches_only_paths_partial (a : List Val) (i j : Nat) (u : Val → Out Val) (y : Val)
    (hi : i < a.length) (hij : j ≠ i) (hu : (u (a[i]?.getD .null)).next? = .ok (some y)) :
    ∃ a', partUpdate (.index (.num (.int i))) false (.arr a) u = .ok (.arr a') ∧
      indexV (.arr a') (.num (.int j)) = indexV (.arr a) (.num (.int j)) :=
  index_update_other a i j u y hi hij hu

end Jaq.C02
