/-
  C15 — parsing depends only on tokens and the documented grammar, precedence and sugar.

  Model: `C15/Lex.lean` (= lex.rs), `C15/PrecClimb.lean` (= prec_climb.rs), `C15/Parse.lean`
  (= parse.rs), tied to the real code by the correspondence of `bin/check C15`; the generated
  `Gen/C15Group.lean` is the grouping matrix printed by the REAL parser on this run.
-/
import JaqVerif.C15.Parse
import JaqVerif.C15.Spec
import JaqVerif.Gen.C15Group
import JaqVerif.Lemmas.C15Climb

namespace Jaq.C15
open Spec Gen PrecOp

/-! ## 1. The real parser's grouping matrix is the manual's table (translator + `decide`) -/

/-- the generated matrix is about the operators of the hand-transcribed table, in the same order -/
theorem opNames_eq_spec : opNames = specNames := by decide

/-- **The real parser groups every ordered pair of the 25 binary operators as the manual's
table says** (625 pairs; `groupT` is regenerated from the real parser on every run). -/
theorem groupT_eq_spec :
    ∀ i : Fin 25, ∀ j : Fin 25, (groupT[i.val]?.bind (·[j.val]?)) = specGroup i.val j.val := by
  decide +kernel

/-- In the manual's table associativity is a function of the precedence level. -/
theorem levels_homogeneous :
    ∀ i : Fin 25, ∀ j : Fin 25, precSpec[i.val]? = precSpec[j.val]? → assocSpec[i.val]? = assocSpec[j.val]? := by
  decide +kernel

/-- The same, as observed on the real parser alone: whenever neither of two operators (other than
the right-extending binding) binds tighter than the other, they associate the same way. -/
theorem levels_homogeneous_observed :
    ∀ i : Fin 25, ∀ j : Fin 25, i.val ≠ asIdx → j.val ≠ asIdx →
      (groupT[i.val]?.bind (·[j.val]?)) = (groupT[j.val]?.bind (·[i.val]?)) →
      (groupT[i.val]?.bind (·[i.val]?)) = (groupT[j.val]?.bind (·[j.val]?)) := by
  decide +kernel

/-- the model's operators, in the order of the tables -/
def modelOps : List BinOp := [
  .pipe none, .comma, .pipe (some (.var ['$', 'x'])),
  .assign, .update, .updateMath .add, .updateMath .sub, .updateMath .mul, .updateMath .div, .updateMath .rem, .updateAlt,
  .alt, .or, .and, .cmp .eq, .cmp .ne, .cmp .lt, .cmp .le, .cmp .gt, .cmp .ge,
  .math .add, .math .sub, .math .mul, .math .div, .math .rem]

/-- how the model's `Term::climb` groups `a opᵢ b opⱼ c` -/
def modelGroup (i j : Nat) : Option Bool := do
  let o1 ← modelOps[i]?
  let o2 ← modelOps[j]?
  match Term.climb (.call ['a'] []) [(o1, .call ['b'] []), (o2, .call ['c'] [])] with
  | .binop (.call _ _) _ (.binop _ _ _) => some true
  | .binop (.binop _ _ _) _ (.call _ _) => some false
  | _ => none

/-- the model's `precedence`/`associativity`/`Term::climb` reproduce the real matrix -/
theorem modelPrec_matrix_eq_groupT :
    ∀ i : Fin 25, ∀ j : Fin 25, (groupT[i.val]?.bind (·[j.val]?)) = modelGroup i.val j.val := by
  decide +kernel

/-- right-associative levels of `impl Op for BinaryOp` -/
def raLvl (p : Nat) : Bool := p == 0 || p == 2 || p == 3

/-- in the model of `impl Op for BinaryOp`, associativity is a function of the precedence -/
theorem model_homogeneous (o : BinOp) : ra o = raLvl (prec o) := by
  cases o with
  | pipe p => cases p <;> rfl
  | math m => cases m <;> rfl
  | cmp c => cases c <;> rfl
  | _ => rfl

/-! ## 2. Precedence climbing (`prec_climb.rs`), any number of operators

`E α O` are operator trees over opaque operands (for `climb` every operand, also a
parenthesised term, is opaque); `flat` is the in-order sequence; `Canon` says that every node
satisfies the table's local condition (`okL`: what may stand to the left of an operator
without parentheses, `okR`: to the right). -/

variable {α O : Type} [PrecOp O]

/-- **no operand or operator is lost or reordered**, for any number of operators -/
theorem climb_yield (a : α) (tail : List (O × E α O)) (hat : Atoms tail) :
    flat (climbE (.atom a) tail) = (.atom a, tail) :=
  (climb_atoms a tail hat).2

/-- **every node of the result satisfies the table's local condition** -/
theorem climb_respects_table (a : α) (tail : List (O × E α O)) (hat : Atoms tail) :
    Canon (climbE (.atom a) tail) :=
  (climb_atoms a tail hat).1

/-- **a sequence has at most one tree that respects the table**, provided associativity is a
function of the level (`levels_homogeneous`, `model_homogeneous`) -/
theorem respects_unique (raLvl : Nat → Bool) (t1 t2 : E α O) (c1 : Canon t1) (c2 : Canon t2)
    (h1 : Homog raLvl t1) (h2 : Homog raLvl t2) (he : flat t1 = flat t2) : t1 = t2 :=
  canon_unique raLvl t1 t2 c1 c2 h1 h2 he

/-- hence climbing the in-order sequence of any tree that respects the table gives that tree -/
theorem climb_flat_canon (raLvl : Nat → Bool) (t : E α O) (hc : Canon t) (hh : Homog raLvl t) :
    climbE (flat t).1 (flat t).2 = t :=
  climb_flat raLvl t hc hh

/-- the hypotheses are satisfiable: `1 + 2 * 3 | 4` -/
example : climbE (α := Nat) (.atom 1) [(BinOp.math .add, .atom 2), (.math .mul, .atom 3), (.pipe none, .atom 4)]
    = .bin (.bin (.atom 1) (.math .add) (.bin (.atom 2) (.math .mul) (.atom 3))) (.pipe none) (.atom 4) := by
  rfl

example : Canon (α := Nat) (.bin (.atom 1) (BinOp.math .add) (.bin (.atom 2) (.math .mul) (.atom 3))) ∧
    Homog raLvl (α := Nat) (.bin (.atom 1) (BinOp.math .add) (.bin (.atom 2) (.math .mul) (.atom 3))) :=
  ⟨.bin (.atom 1) (.bin (.atom 2) (.atom 3) (okL_atom _ _) (okR_atom _ _)) (okL_atom _ _)
    (by intro o' h; simp only [rootOp, Option.some.injEq] at h; subst h; left; decide),
   fun o _ => model_homogeneous o⟩

end Jaq.C15
