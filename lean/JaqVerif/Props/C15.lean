/-
  C15 — parsing depends only on tokens and the documented grammar, precedence and sugar.

  Model: `C15/Lex.lean` (= lex.rs), `C15/PrecClimb.lean` (= prec_climb.rs), `C15/Parse.lean`
  (= parse.rs), tied to the real code by the correspondence of `bin/check C15`; the generated
  `Gen/C15Group.lean` is the grouping matrix printed by the REAL parser on this run.
-/
import JaqVerif.C15.Parse
import JaqVerif.C15.Spec
import JaqVerif.Gen.C15Group
import JaqVerif.Lemmas.C15Climb
import JaqVerif.Lemmas.C15Print
import JaqVerif.Lemmas.C15Lex
import JaqVerif.Lemmas.C15Layout
import JaqVerif.Lemmas.C15Layout2

namespace Jaq.C15
open Spec Gen PrecOp

/-! ## 1. The real parser's grouping matrix is the manual's table (translator + `decide`) -/

/-- the generated matrix is about the operators of the hand-transcribed table, in the same order -/
theorem opNames_eq_spec : opNames = specNames := by decide

/-- **The real parser groups every ordered pair of the 25 binary operators as the manual's
table says** (625 pairs; `groupT` is regenerated from the real parser on every run). -/
theorem groupT_eq_spec :
    ∀ i : Fin 25, ∀ j : Fin 25, (groupT[i.val]?.bind (·[j.val]?)) = specGroup i.val j.val := by
  decide +kernel

/-- In the manual's table associativity is a function of the precedence level. -/
theorem levels_homogeneous :
    ∀ i : Fin 25, ∀ j : Fin 25, precSpec[i.val]? = precSpec[j.val]? → assocSpec[i.val]? = assocSpec[j.val]? := by
  decide +kernel

/-- The same, as observed on the real parser alone: whenever neither of two operators (other than
the right-extending binding) binds tighter than the other, they associate the same way. -/
theorem levels_homogeneous_observed :
    ∀ i : Fin 25, ∀ j : Fin 25, i.val ≠ asIdx → j.val ≠ asIdx →
      (groupT[i.val]?.bind (·[j.val]?)) = (groupT[j.val]?.bind (·[i.val]?)) →
      (groupT[i.val]?.bind (·[i.val]?)) = (groupT[j.val]?.bind (·[j.val]?)) := by
  decide +kernel

/-- the model's `precedence`/`associativity`/`Term::climb` reproduce the real matrix -/
theorem modelPrec_matrix_eq_groupT :
    ∀ i : Fin 25, ∀ j : Fin 25, (groupT[i.val]?.bind (·[j.val]?)) = modelGroup i.val j.val := by
  decide +kernel

/-- in the model of `impl Op for BinaryOp`, associativity is a function of the precedence
(`raLvl p` = `p ∈ {0, 2, 3}`) -/
theorem model_homogeneous (o : BinOp) : ra o = raLvl (prec o) := binop_homogeneous o

/-! ## 2. Precedence climbing (`prec_climb.rs`), any number of operators

`E α O` are operator trees over opaque operands (for `climb` every operand, also a
parenthesised term, is opaque); `flat` is the in-order sequence; `Canon` says that every node
satisfies the table's local condition (`okL`: what may stand to the left of an operator
without parentheses, `okR`: to the right). -/

section Climbing
variable {α O : Type} [PrecOp O]

/-- **no operand or operator is lost or reordered**, for any number of operators -/
theorem climb_yield (a : α) (tail : List (O × E α O)) (hat : Atoms tail) :
    flat (climbE (.atom a) tail) = (.atom a, tail) :=
  (climb_atoms a tail hat).2

/-- **every node of the result satisfies the table's local condition** -/
theorem climb_respects_table (a : α) (tail : List (O × E α O)) (hat : Atoms tail) :
    Canon (climbE (.atom a) tail) :=
  (climb_atoms a tail hat).1

/-- **a sequence has at most one tree that respects the table**, provided associativity is a
function of the level (`levels_homogeneous`, `model_homogeneous`) -/
theorem respects_unique (raLvl : Nat → Bool) (t1 t2 : E α O) (c1 : Canon t1) (c2 : Canon t2)
    (h1 : Homog raLvl t1) (h2 : Homog raLvl t2) (he : flat t1 = flat t2) : t1 = t2 :=
  canon_unique raLvl t1 t2 c1 c2 h1 h2 he

/-- hence climbing the in-order sequence of any tree that respects the table gives that tree -/
theorem climb_flat_canon (raLvl : Nat → Bool) (t : E α O) (hc : Canon t) (hh : Homog raLvl t) :
    climbE (flat t).1 (flat t).2 = t :=
  climb_flat raLvl t hc hh

/-- the hypotheses are satisfiable: `1 + 2 * 3 | 4` -/
example : climbE (α := Nat) (.atom 1) [(BinOp.math .add, .atom 2), (.math .mul, .atom 3), (.pipe none, .atom 4)]
    = .bin (.bin (.atom 1) (.math .add) (.bin (.atom 2) (.math .mul) (.atom 3))) (.pipe none) (.atom 4) := by
  rfl

example : Canon (α := Nat) (.bin (.atom 1) (BinOp.math .add) (.bin (.atom 2) (.math .mul) (.atom 3))) ∧
    Homog raLvl (α := Nat) (.bin (.atom 1) (BinOp.math .add) (.bin (.atom 2) (.math .mul) (.atom 3))) :=
  ⟨.bin (.atom 1) (.bin (.atom 2) (.atom 3) (okL_atom _ _) (okR_atom _ _)) (okL_atom _ _)
    (by intro o' h; simp only [rootOp, Option.some.injEq] at h; subst h; left; decide),
   fun o _ => model_homogeneous o⟩

end Climbing

/-! ## 3. The parser inverts the printer: parentheses the table implies may be added or removed

`PT` (C15/Print.lean): operator trees over simple operands with explicit parenthesis nodes;
`PT.toks` prints them (a parenthesised subtree is a `Block` token), `PT.erase` drops the
parentheses.  `PT.Ok p`: wherever two operators meet without parentheses between them, the
table's local condition holds (`okL`/`okR`), i.e. the parenthesisation *includes the required
ones*; any number of additional (redundant, nested) parentheses is allowed. -/

/-- **Parsing the printed form gives the program back**, for operator trees of any size and any
parenthesisation that includes the required parentheses: inserting implied or redundant
parentheses never changes the program.  Operators: all 25, INCLUDING bindings `l as $x | r`
(round 2; before: all but bindings): a binding may stand wherever its body can extend to the end
of the enclosing parenthesis-free term (`PT.Ok`: not unparenthesised inside a left operand), and
then everything to its right is its body, whatever operators occur there. -/
theorem parse_print (p : PT) (h : PT.Ok p) : parseToks p.toks = some p.erase := by
  have hs := size_le_sizes h
  have := term_toks p.size p (Nat.le_refl _) h (parseFuel p.toks) (by unfold parseFuel; omega) [] trivial
  unfold parseToks
  rw [List.append_nil] at this
  rw [this]
  rfl

/-- two parenthesisations of the same program parse to the same AST -/
theorem parens_irrelevant (p q : PT) (hp : PT.Ok p) (hq : PT.Ok q) (he : p.erase = q.erase) :
    parseToks p.toks = parseToks q.toks := by
  rw [parse_print p hp, parse_print q hq, he]

/-- the hypotheses are satisfiable: `((a)) * (1 + $x) | b`, i.e. `PT.Ok` of
`bin (bin (paren (paren a)) * (paren (bin 1 + $x))) | b` -/
example : PT.Ok (.bin (.bin (.paren (.paren (.leaf (.call ['a'])))) (.math .mul)
      (.paren (.bin (.leaf (.num ['1'])) (.math .add) (.leaf (.var ['$', 'x']))))) (.pipe none) (.leaf (.call ['b']))) := by
  refine .bin _ _ _ (.bin _ _ _ (.paren _ (.paren _ (.leaf _ (by unfold Leaf.Ok; decide)))) (.paren _ (.bin _ _ _ (.leaf _ (by unfold Leaf.Ok; decide)) (.leaf _ (by unfold Leaf.Ok; decide)) rfl (Or.inl rfl) ?_ (fun _ => ?_))) rfl (Or.inl rfl) ?_ (fun _ => ?_)) (.leaf _ (by unfold Leaf.Ok; decide)) rfl (Or.inl rfl) ?_ (fun _ => ?_)
  all_goals first
    | exact okL_atom _ _
    | exact okR_atom _ _
    | (intro o' h; simp only [PT.toE, BinOp.isAs, Bool.false_eq_true, if_false, rootOp, Option.some.injEq] at h; subst h; left; decide)

/-- … and with bindings: `a , b as $x | c | d + e` (which is `a , (b as $x | (c | (d + e)))`) is
`PT.Ok` without any parentheses; `(a as $x | b) | c` needs its parentheses -/
example : PT.Ok (.bin (.leaf (.call ['a'])) .comma (.bin (.leaf (.call ['b'])) (.pipe (some (.var ['$', 'x'])))
      (.bin (.leaf (.call ['c'])) (.pipe none) (.bin (.leaf (.call ['d'])) (.math .add) (.leaf (.call ['e'])))))) ∧
    ¬ PT.Ok (.bin (.bin (.leaf (.call ['a'])) (.pipe (some (.var ['$', 'x']))) (.leaf (.call ['b']))) (.pipe none) (.leaf (.call ['c']))) := by
  have lf : ∀ c : Char, c.isLower = true → PT.Ok (.leaf (.call [c])) := fun c hc => .leaf _ (by
    unfold Leaf.Ok isAtomKeyword Leaf.str kw
    simp only [Bool.or_eq_false_iff, beq_eq_false_iff_ne, ne_eq]
    refine ⟨⟨⟨⟨⟨⟨⟨?_, ?_⟩, ?_⟩, ?_⟩, ?_⟩, ?_⟩, ?_⟩, ?_⟩ <;> (intro h; simp at h)
    subst h; exact absurd hc (by decide))
  constructor
  · refine .bin _ _ _ (lf 'a' rfl) (.bin _ _ _ (lf 'b' rfl) (.bin _ _ _ (lf 'c' rfl) (.bin _ _ _ (lf 'd' rfl) (lf 'e' rfl)
      rfl (Or.inl rfl) ?_ (fun _ => ?_)) rfl (Or.inl rfl) ?_ (fun _ => ?_)) rfl (Or.inr ⟨_, rfl⟩) ?_ (fun h => absurd h (by decide)))
      rfl (Or.inl rfl) ?_ (fun _ => ?_)
    all_goals first
      | exact okL_atom _ _
      | exact okR_atom _ _
      | (intro o' h; simp only [PT.toE, BinOp.isAs, Bool.false_eq_true, if_false, if_true, rootOp, Option.some.injEq] at h; subst h; left; decide)
  · intro h
    cases h with
    | bin _ _ _ _ _ ho _ _ _ => exact absurd ho (by decide)

/-! ## 4. Bindings extend as far right as possible; white space and comments do not matter -/

/-- **`… as $x | …` is `… as $x | (…)`**: at the first binding, everything that follows becomes
its body (climbed on its own), whatever operators follow; to its left the regular table applies
(the binding is the last item of the outer climb, with precedence 2). -/
theorem as_extends_right (head : Term) (pre : List (BinOp × Term)) (pat : Pattern) (tm : Term)
    (rest : List (BinOp × Term)) (hpre : ∀ ot ∈ pre, ot.1.isAs = false) :
    Term.climb head (pre ++ (.pipe (some pat), tm) :: rest)
      = climb Term.binop head (pre ++ [(.pipe (some pat), Term.climb tm rest)]) := by
  unfold Term.climb
  congr 1
  induction pre with
  | nil => simp [wrapAs, BinOp.isAs]
  | cons hd tl ih =>
    obtain ⟨o, t⟩ := hd
    have ho : o.isAs = false := hpre (o, t) (by simp)
    simp only [List.cons_append, wrapAs, ho, Bool.false_eq_true, if_false]
    rw [ih (fun ot h => hpre ot (by simp [h]))]

/-- **white space, newlines and comments (with continuation lines) in front of a token are
skipped**: the lexer finds the same token (or the same error, or the same end of input) and
the same remaining input — at every place where it looks for a token: in front of the next
token (`token`, `tokens`), in front of a closing delimiter, and at the end of the input. -/
theorem lex_trivia_irrelevant_partial {tr : Str} (h : Trivia tr) :
    (∀ f s, token f (tr ++ s) = token f s) ∧
    (∀ f s, tokens f (tr ++ s) = tokens f s) ∧
    (∀ f o s, block (f + 3) o (tr ++ closeOf o :: s) = some (.block o [.sym [closeOf o]], s)) ∧
    space tr = [] :=
  ⟨token_trivia h, tokens_trivia h, block_close_trivia h, space_trivia_end h⟩
/- Full statement (not proved): for every list of tokens `ts` (words, variables, numbers, symbols,
   strings, nested blocks) and every choice of trivia `trᵢ` between them that is non-empty where
   two lexemes would otherwise be glued,  lex (tr₀ ++ lexeme t₁ ++ tr₁ ++ … ++ lexeme tₙ ++ trₙ) = some ts.
   Missing: the maximal-munch lemmas per token class ("a lexeme followed by trivia or by a
   non-gluing character is cut exactly at its end"); the correspondence renders every tree with
   random trivia instead. -/

/-- **White space, newlines and comments between tokens never matter** (full statement).
`Layout ts text` (C15/Layout.lean, a definition that does not mention the lexer) says: `text` is
a lexeme of each token of `ts` in order, with ARBITRARY trivia — any mix of spaces, tabs, newlines,
CR LF, Unicode white space, comments including backslash-continuation lines with odd/even counts —
in front of, between and after the lexemes, recursively inside `(…)`, `[…]`, `{…}` and string
interpolations `\(…)`, possibly ending in an unterminated comment; the only side condition is the
separation condition `Token.glues`: where a lexeme would be glued to the character that follows
it (letter after word, digit after number, `=` after `<`, …) at least one trivia is required.
Every such text is lexed to exactly `ts`: two layouts of the same tokens are the same program. -/
theorem lex_trivia_irrelevant (ts : List Token) (text text' : Str)
    (h : Layout ts text) (h' : Layout ts text') : lex text = some ts ∧ lex text' = lex text := by
  rw [lex_of_layout h, lex_of_layout h']
  exact ⟨rfl, rfl⟩

/-- **The lexer accepts exactly the layouts, and returns their tokens.**  `Layout` is a
declarative description (regular expressions for the lexemes, `Trivia` for what is skipped, the
separation condition `Token.glues`); so the token list is a function of the lexemes alone, every
text the lexer accepts is cut into trivia and lexemes as described (nothing is dropped or
misread), and anything that is not a layout is rejected. -/
theorem lex_iff_layout (text : Str) (ts : List Token) : lex text = some ts ↔ Layout ts text :=
  ⟨layout_of_lex, lex_of_layout⟩

/-- hence: take ANY text the lexer accepts and lay out the same lexemes with any other trivia
(`Layout ts text'` — satisfiable for every such `ts`, e.g. by `text` itself): same tokens -/
theorem lex_relayout (text text' : Str) (ts : List Token) (h : lex text = some ts) (h' : Layout ts text') :
    lex text' = some ts ∧ Layout ts text :=
  ⟨lex_of_layout h', layout_of_lex h⟩

/-- rejection at the lexical level is sound and complete: the lexer reports an error exactly
for the texts that are not a layout of any token list -/
theorem lex_rejects_iff (text : Str) : lex text = none ↔ ¬ ∃ ts, Layout ts text := by
  constructor
  · rintro h ⟨ts, hl⟩
    rw [lex_of_layout hl] at h
    exact absurd h (by simp)
  · intro h
    cases hl : lex text with
    | none => rfl
    | some ts => exact absurd ⟨ts, layout_of_lex hl⟩ h

/-- where the separation condition can fail at all: non-empty trivia after a lexeme always
separates it from what follows, and so does a closing delimiter or the end of the input -/
theorem trivia_separates (t : Token) {tr : Str} (htr : Trivia tr) (hne : tr ≠ []) (s : Str) :
    t.glues (tr ++ s) = false ∧ t.glues [] = false :=
  ⟨glues_trivia t htr hne s, glues_nil t⟩

/-- a concrete instance: `a  +b#c⏎` and `a+ # x \⏎ y⏎ b` are layouts of the tokens `a`, `+`, `b` -/
example : Layout [.word ['a'], .sym ['+'], .word ['b']] ['a', ' ', ' ', '+', 'b', '#', 'c', '\n'] ∧
    Layout [.word ['a'], .sym ['+'], .word ['b']]
      ['a', '+', ' ', '#', ' ', 'x', ' ', '\\', '\n', ' ', 'y', '\n', ' ', 'b'] := by
  have ha : Spells (.word ['a']) ['a'] := .word _ (.plain _ (.mk 'a' [] (by decide) (allP_nil _)))
  have hb : Spells (.word ['b']) ['b'] := .word _ (.plain _ (.mk 'b' [] (by decide) (allP_nil _)))
  have hp : Spells (.sym ['+']) ['+'] := .sym _ (.op '+' [] (by decide) (allP_nil _))
  constructor
  · refine ⟨_, [], (List.append_nil _).symm, ?_, .none⟩
    exact .cons [] _ ['a'] _ [' ', ' ', '+', 'b', '#', 'c', '\n'] .nil ha
      (.cons [' ', ' '] _ ['+'] _ ['b', '#', 'c', '\n'] (.ws _ _ (by decide) (.ws _ _ (by decide) .nil)) hp
        (.cons [] _ ['b'] _ ['#', 'c', '\n'] .nil hb
          (.nil _ (.comment ['c', '\n'] [] (.last ['c'] (by decide) (by decide)) .nil)) (by decide))
        (by decide)) (by decide)
  · refine ⟨_, [], (List.append_nil _).symm, ?_, .none⟩
    exact .cons [] _ ['a'] _ ['+', ' ', '#', ' ', 'x', ' ', '\\', '\n', ' ', 'y', '\n', ' ', 'b'] .nil ha
      (.cons [] _ ['+'] _ [' ', '#', ' ', 'x', ' ', '\\', '\n', ' ', 'y', '\n', ' ', 'b'] .nil hp
        (.cons [' ', '#', ' ', 'x', ' ', '\\', '\n', ' ', 'y', '\n', ' '] _ ['b'] _ []
          (.ws _ _ (by decide) (.comment [' ', 'x', ' ', '\\', '\n', ' ', 'y', '\n'] [' ']
            (.cont [' ', 'x', ' ', '\\'] [' ', 'y', '\n'] (by decide) (by decide) (.last [' ', 'y'] (by decide) (by decide)))
            (.ws _ _ (by decide) .nil)))
          hb (.nil [] .nil) (by decide))
        (by decide)) (by decide)

/-- the comment rule, concretely: `# a \⏎ b ⏎` is one comment (continuation line);
` # a \\⏎⇥` is a comment that ends at the first newline -/
example : Trivia ['#', ' ', 'a', ' ', '\\', '\n', ' ', 'b', ' ', '\n'] ∧
    Trivia [' ', '#', ' ', 'a', ' ', '\\', '\\', '\n', '\t'] := by
  constructor
  · exact .comment [' ', 'a', ' ', '\\', '\n', ' ', 'b', ' ', '\n'] []
      (.cont [' ', 'a', ' ', '\\'] [' ', 'b', ' ', '\n'] (by decide) (by decide)
        (.last [' ', 'b', ' '] (by decide) (by decide))) .nil
  · exact .ws ' ' _ (by decide) (.comment [' ', 'a', ' ', '\\', '\\', '\n'] ['\t']
      (.last [' ', 'a', ' ', '\\', '\\'] (by decide) (by decide)) (.ws '\t' _ (by decide) .nil))

end Jaq.C15
