/-
  C11 — stream combinators and generators satisfy their defining equations.

  Theorems about the impl-models of `JaqVerif/C11/Stream.lean` (natives of funs.rs, explicit-stack
  `fold` of fold.rs, definitions of defs.jq), tied to the code by `bin/check C11`.
  All statements quantify over ALL argument outcomes `f : Out α` — any number of outputs, any
  multiplicities, any stop (`done`, an error, `break`, `halt`, or divergence `fuel`) — and all counts.
-/
import JaqVerif.Lemmas.C11
import JaqVerif.Gen.C11Defs

namespace Jaq.C11
open Jaq Out

variable {α β γ X U W V : Type}

/-! ## 1. `limit` and `skip` -/

/-- **`limit(n; f)` followed by `skip(n; f)` reproduces `f`**: the outputs before the first
error are delivered, the error (or other stop) is reported once.  For every count that is
`null`, a boolean or a number of any kind (integers of any size, floats incl. fractions, NaN, ±∞). -/
theorem limit_append_skip (n : Val) (hn : isCount n = true) (f : Out α) :
    append (limit n f) (skip n f) = f := by
  unfold limit skip
  by_cases h : le0 n = true
  · simp only [h, if_true]; exact nil_append f
  · rw [if_neg h, if_neg h]
    have hx : ∃ x, n = .num x := by
      apply Classical.byContradiction
      intro hc
      exact h (le0_of_not_num hn (fun x hx => hc ⟨x, hx⟩))
    rw [limit_append_skip_loop valCounter (fun c => ∃ x, c = Val.num x) valCounter_num f.vals f.stop n hx]

example : isCount (.num (.float 0x3FF8000000000000)) = true := rfl   -- 1.5
example : isCount (.num (.big 1000000000000000000000000000000)) = true := rfl

/-- counts of a wrong type (strings, arrays, objects) are positive in jaq's order and `- 1`
fails on them: both filters report that error once, before pulling anything from `f` -/
theorem limit_skip_wrong_type (n : Val) (hn : isCount n = false) (f : Out α) :
    limit n f = fail (.math n "-" vOne) ∧ skip n f = fail (.math n "-" vOne) := by
  have hg := gt0_of_wrong_type hn
  have hl : le0 n = false := by rw [le0_gt0, hg]; rfl
  unfold limit skip
  obtain ⟨vs, s⟩ := f
  cases vs <;>
    simp [hl, limitLoop, skipLoop, valCounter_gtz, valCounter_dec, hg, sub_wrong_type hn]

/-- integer counts of any magnitude and representation: `limit` is `take` (the `k`-th output
ends the stream *without another pull*: an error behind it is not reported) -/
theorem limit_eq_take (n : Val) (k : Int) (h : IsIntV n k) (f : Out α) :
    limit n f = Out.take k.toNat f := by
  unfold limit
  rw [le0_int h]
  by_cases hk : k ≤ 0
  · have : k.toNat = 0 := by omega
    simp [hk, this, Out.take, nil]
  · simp only [hk, decide_false]
    exact limitLoop_int f.vals f.stop n k h

/-- … and `skip` is `drop`; the stop of `f` is always reached -/
theorem skip_eq_drop (n : Val) (k : Int) (h : IsIntV n k) (f : Out α) :
    skip n f = Out.drop k.toNat f := by
  unfold skip
  rw [le0_int h]
  by_cases hk : k ≤ 0
  · have : k.toNat = 0 := by omega
    simp [hk, this, Out.drop]
  · simp only [hk, decide_false]
    exact skipLoop_int f.vals f.stop n k h

/-- **Non-positive and huge counts.**  `n <= 0` (negative integers of any size, `-0.0`, NaN,
`null`, booleans): `limit` yields nothing *without starting `f`* (so `limit(0; error)` is
empty), `skip` is `f`.  An integer count beyond the number of outputs (however big): `limit`
is `f` including its stop, `skip` delivers just the stop. -/
theorem nonpositive_and_huge_counts (n : Val) (f : Out α) :
    (le0 n = true → limit n f = nil ∧ skip n f = f) ∧
    (∀ k, IsIntV n k → k ≤ 0 → le0 n = true) ∧
    (∀ k, IsIntV n k → (f.vals.length : Int) < k → limit n f = f ∧ skip n f = halted f.stop) ∧
    (∀ k, IsIntV n k → (f.vals.length : Int) = k → limit n f = ⟨f.vals, .done⟩) := by
  refine ⟨fun h => by simp [limit, skip, h], fun k h hk => by rw [le0_int h]; simpa using hk, ?_, ?_⟩
  · intro k h hk
    rw [limit_eq_take n k h, skip_eq_drop n k h]
    have h1 : ¬ k.toNat ≤ f.vals.length := by omega
    have h2 : f.vals.length ≤ k.toNat := by omega
    simp [Out.take, Out.drop, h1, List.drop_eq_nil_of_le h2, halted]
  · intro k h hk
    rw [limit_eq_take n k h]
    have h1 : k.toNat = f.vals.length := by omega
    simp [Out.take, h1]

/-- `limit` as the `foreach`/`label` definition quoted in funs.rs (jq's definition):
`if $n <= 0 then empty else label $out | foreach f as $x ($n; . - 1; if . <= 0 then $x, break $out else $x end) end`,
for a label `l` that `f` itself does not break to (labels are fresh). -/
theorem limit_eq_foreach_def (l : Nat) (n : Val) (hn : isCount n = true) (f : Out α)
    (hl : ∀ l', f.stop = .brk l' → l' ≠ l) : limitDef l n f = limit n f := by
  unfold limitDef limit
  by_cases h : le0 n = true
  · simp [h]
  · rw [if_neg h, if_neg h]
    have hx : ∃ x, n = .num x := by
      apply Classical.byContradiction
      intro hc
      exact h (le0_of_not_num hn (fun x hx => hc ⟨x, hx⟩))
    have hg : gt0 n = true := by rw [le0_gt0] at h; simpa using h
    exact limitDef_loop l f.stop hl f.vals n hx hg

/-- `skip` as the `foreach` definition quoted in funs.rs:
`if $n <= 0 then f else foreach f as $x ($n; . - 1; if . >= 0 then empty else $x end) end`
— for integer counts of any size.  (For a fractional count `c` that definition skips ⌊c⌋
outputs while the native skips ⌈c⌉, consistently with `limit`; the manual defines neither.) -/
theorem skip_eq_foreach_def (n : Val) (k : Int) (h : IsIntV n k) (f : Out α) :
    skipDef n f = skip n f := by
  unfold skipDef skip
  by_cases hl : le0 n = true
  · simp [hl]
  · rw [if_neg hl, if_neg hl]
    have hk : 0 < k := by
      rw [le0_int h] at hl
      have : ¬ k ≤ 0 := by simpa using hl
      omega
    exact skipDef_loop f.vals f.stop n k h hk

/-! ## 2. `first`, `last`, `nth`, `isempty`, `any`, `all` -/

/-- `first(f)` is `limit(1; f)` -/
theorem first_eq_limit1 (f : Out α) : first f = limit vOne f := by
  rw [limit_eq_take vOne 1 ⟨.int 1, rfl, rfl⟩]
  obtain ⟨vs, s⟩ := f
  cases vs with
  | nil => simp [first_mk_nil, Out.take, halted]
  | cons v vs => simp [first_mk_cons, Out.take, Out.pure]

/-- `first(f)` is `label $l | f | ., break $l` (for a fresh label) -/
theorem first_eq_label_def (l : Nat) (f : Out α) (hl : ∀ l', f.stop = .brk l' → l' ≠ l) :
    firstDef l f = first f := by
  obtain ⟨vs, s⟩ := f
  unfold firstDef
  cases vs with
  | nil =>
    rw [bind_mk_nil, first_mk_nil]
    cases s <;> simp [label, halted]
    intro h; exact absurd h (hl _ rfl)
  | cons v vs =>
    rw [bind_mk_cons, first_mk_cons]
    have e1 : ∀ X : Out α, append (append (Out.pure v) (halted (.brk l))) X = ⟨[v], .brk l⟩ := fun _ => rfl
    rw [e1]
    simp [label, Out.pure]

/-- `last(f)`: the last output if `f` ends normally (nothing if there is none); if `f` stops
with an error (break, halt, divergence) that stop is the result and no output is delivered -/
theorem last_spec (f : Out α) :
    last f = if f.stop.isDone then ofOption f.vals.getLast? else halted f.stop := by
  obtain ⟨vs, s⟩ := f
  unfold last
  by_cases h : s.isDone = true
  · have : s = .done := by cases s <;> simp_all [Stop.isDone]
    subst this
    simp only [lastLoop_done, Stop.isDone, if_true]
    cases vs.getLast? <;> rfl
  · have h' : s.isDone = false := by simpa using h
    simp [lastLoop_stop none vs h', h', onceOrEmpty]

/-- `nth(n; f)` is `first(skip(n; f))`; for an integer `k ≥ 0` it is the `k`-th output if the
stream gets that far, else the stop of `f`; for `n <= 0` it is `first(f)` -/
theorem nth_spec (n : Val) (f : Out α) :
    nth n f = first (skip n f) ∧
    (∀ k, IsIntV n k → 0 ≤ k →
      nth n f = match f.vals[k.toNat]? with | some v => pure v | none => halted f.stop) ∧
    (le0 n = true → nth n f = first f) := by
  refine ⟨rfl, ?_, fun h => by simp [nth, skip, h]⟩
  intro k h _
  unfold nth
  rw [skip_eq_drop n k h]
  obtain ⟨vs, s⟩ := f
  simp only [Out.drop]
  cases hd : vs.drop k.toNat with
  | nil =>
    have : vs[k.toNat]? = none := by
      rw [List.getElem?_eq_none_iff]; exact List.drop_eq_nil_iff.mp hd
    simp [this, first_mk_nil]
  | cons v rest =>
    have : vs[k.toNat]? = some v := by
      have := List.head?_drop (l := vs) (i := k.toNat)
      rw [hd] at this; simpa using this.symm
    simp [this, first_mk_cons]

/-- `isempty(f)`: `false` as soon as `f` has an output (later errors are not reached), `true`
if it ends without output; if the first item of `f` is an error, that error -/
theorem isempty_spec (g : Out α) :
    isempty g = match g.vals with
      | _ :: _ => pure false
      | [] => if g.stop.isDone then pure true else halted g.stop := by
  obtain ⟨vs, s⟩ := g
  cases vs with
  | nil => exact isempty_mk_nil s
  | cons v vs => exact isempty_mk_cons v vs s

/-- `all(g; cond)` / `any(g; cond)` (defined through `isempty`, `and`/`or` and `empty`) decide
at the first falsy / truthy value of `g | cond`; an error before that value is the result -/
theorem any_all_spec (g : Out α) (cond : α → Out Bool) :
    all g cond = allSpec (g.bind cond) ∧ any g cond = anySpec (g.bind cond) := by
  have key : ∀ stop : Bool, (g.bind fun v => logic stop (cond v) nil) =
      (g.bind cond).bind fun b => logic stop (pure b) nil := by
    intro stop
    rw [bind_assoc]
    refine bind_congr _ (fun v _ => ?_)
    unfold logic
    refine bind_congr _ (fun b _ => ?_)
    rw [pure_bind]
  constructor
  · unfold all allSpec
    rw [key false]
    obtain ⟨bs, s⟩ := g.bind cond
    exact isempty_logic false bs s
  · unfold any anySpec
    rw [key true]
    obtain ⟨bs, s⟩ := g.bind cond
    rw [isempty_logic true bs s]
    by_cases h1 : bs.contains true = true
    · rw [if_pos h1, if_pos h1]; exact pure_bind _ _
    · rw [if_neg h1, if_neg h1]
      by_cases h2 : s.isDone = true
      · rw [if_pos h2, if_pos h2]; exact pure_bind _ _
      · rw [if_neg h2, if_neg h2]; rfl

/-! ## 3. `reduce` / `foreach`: the explicit stack equals the nested-pipe expansion -/

/-- **The explicit-stack `fold` of fold.rs (through `fold_run`) equals the manual's nested-pipe
expansion** of `reduce`, `foreach` and `foreach` with projection — for every `xs` (errors
anywhere), every `init` (no, one or several outputs), every `update`/`project` that yield
no, one or several outputs or stop, and every sound size hint.  `N` is explicit (`runCost`). -/
theorem fold_eq_nested_pipe (hint : Out U → Bool) (hs : HintSound hint)
    (xs : Out X) (init : Out U) (f : X → U → Out U) (proj : X → U → Out W) :
    ∀ fuel, runCost (reduceOps f hint) xs init + runCost (foreachOps f hint) xs init
        + runCost (foreachProjOps f hint) xs init ≤ fuel →
      reduceRun fuel hint xs init f = init.bind (reduceSpec f xs.vals xs.stop) ∧
      foreachRun fuel hint xs init f = init.bind (foreachSpec f (fun _ y => pure y) xs.vals xs.stop) ∧
      foreachProjRun fuel hint xs init f proj = init.bind (foreachSpec f proj xs.vals xs.stop) := by
  intro fuel hf
  refine ⟨?_, ?_, ?_⟩
  · unfold reduceRun
    refine bind_congr _ (fun i hi => ?_)
    have := costS_lt_runCost (reduceOps f hint) xs init hi
    rw [foldRun_eq (reduceOps f hint) hs fuel xs i (by omega)]
    exact foldS_reduce f hint _ _ _
  · unfold foreachRun
    refine bind_congr _ (fun i hi => ?_)
    have := costS_lt_runCost (foreachOps f hint) xs init hi
    rw [foldRun_eq (foreachOps f hint) hs fuel xs i (by omega)]
    exact foldS_foreach f hint _ _ _
  · unfold foreachProjRun
    refine bind_congr _ (fun i hi => ?_)
    have := costS_lt_runCost (foreachProjOps f hint) xs init hi
    rw [foldRun_eq (foreachProjOps f hint) hs fuel xs i (by omega)]
    exact foldS_foreachProj f proj hint _ _ _

/-- the hint of the driver and the trivial hint are sound -/
theorem hints_sound : HintSound (hintExact : Out U → Bool) ∧ HintSound (fun (_ : Out U) => false) :=
  ⟨hintExact_sound, hintNever_sound⟩

/-- the manual's `reduce` expansion literally: `init | x1 as $x | update | … | xn as $x | update`
is the left-nested pipeline over the outputs of `xs` -/
theorem reduce_is_left_nested_pipeline (f : X → U → Out U) (xs : List X) (init : Out U) :
    init.bind (reduceSpec f xs .done) = xs.foldl (fun acc x => acc.bind (f x)) init :=
  reduceSpec_foldl f xs init

/-- the manual's example `foreach (5, 10) as $x (1; .+$x, -.) --> 6 16 -6 -1 9 1` (update with
several outputs), and updates without output, through the explicit stack -/
example : (foreachRun 100 hintExact (ofList [5, 10]) (pure (1 : Int))
    (fun x y => ofList [y + x, -y])).vals = [6, 16, -6, -1, 9, 1] := by decide
example : (reduceRun 100 hintExact (ofList [1, 2, 3]) (pure (0 : Int))
    (fun x y => if x = 2 then nil else pure (y + x))).vals = [] := by decide
example : (reduceRun 100 hintExact (ofList [1, 2]) (ofList [(0 : Int), 10])
    (fun x y => ofList [y + x, y])).vals = [3, 1, 2, 0, 13, 11, 12, 10] := by decide

/-- `add(f)` is `reduce f as $x (null; . + $x)`: run through the real `fold`, it is the left
fold of `+` from `null`; the first failing `+` or the stop of `f` ends it -/
theorem add_eq_reduce (xs : Out Val) :
    ∀ fuel, runCost (reduceOps (fun x acc => ofExcept (Val.add acc x)) hintExact) xs (pure Val.null) ≤ fuel →
      addRun fuel xs = addSpec xs := by
  intro fuel hf
  unfold addRun reduceRun
  rw [pure_bind]
  have hc := costS_lt_runCost (reduceOps (fun x acc => ofExcept (Val.add acc x)) hintExact) xs (pure Val.null)
    (i := Val.null) (by simp [Out.pure])
  rw [foldRun_eq _ hintExact_sound fuel xs Val.null (by omega), foldS_reduce]
  exact reduceSpec_add xs.vals xs.stop Val.null

/-! ## 4. `range/3` -/

/-- **The native `range($from; $to; $by)` equals the manual's `while` definition** — for any
value operations `cmp`, `!=`, `+` (hence for numbers, strings, arrays and mixed arguments
alike), any fuel, including the error of `+` (reported once, after the values before it) -/
theorem range3_native_eq_while_def (O : RangeOps V) (to by_ from_ : V) (fuel : Nat) :
    rangeNative O to by_ fuel (.ok from_) = rangeDef O to by_ fuel from_ := by
  rw [rangeNative_eq_while]
  unfold rangeDef
  cases h : O.cmp by_ O.zero <;> simp [rangeCond]

example : ((rangeNative valRangeOps (.tstr [97, 97, 97]) (.tstr [97]) 10 (.ok (.tstr []))).vals.map
    fun v => match v with | .tstr b => b.length | _ => 99) = [0, 1, 2] := by decide

/-! ## 5. Definitions by recursion: `recurse`, `repeat`, `while`, `until`, `select` -/

/-- `recurse(f)` is `., (f | recurse(f))`; `recurse(f; cond)` is `recurse(f | select(cond))`;
and `recurse` = `recurse(.[]?)` = `..` enumerates all contained values in pre-order once the
fuel (recursion depth) covers the value -/
theorem recurse_def (f : α → Out α) (cond : α → Out Bool) (k : Nat) (x : α) :
    recurse f (k + 1) x = append (pure x) ((f x).bind (recurse f k)) ∧
    recurse2 f cond = recurse (fun x => (f x).bind (select cond)) ∧
    (∀ v : Val, v.size ≤ k → recurse iterOpt k v = ofList (subvals v)) :=
  ⟨rfl, rfl, fun v h => recurse_subvals k v h⟩

/-- `repeat(f)` is `f, repeat(f)`: the outputs of `f` over and over; if `f` stops otherwise
than by exhaustion, that ends the whole stream the first time -/
theorem repeat_def (f : α → Out β) (k : Nat) (x : α) :
    repeat_ f (k + 1) x = append (f x) (repeat_ f k x) ∧
    ((f x).stop = .done → repeat_ f k x = ⟨(List.replicate k (f x).vals).flatten, .fuel⟩) ∧
    ((f x).stop.isDone = false → repeat_ f (k + 1) x = f x) := by
  refine ⟨rfl, fun h => ?_, fun h => ?_⟩
  · induction k with
    | zero => rfl
    | succ k ih =>
      rw [repeat_, ih]
      cases hfx : f x with
      | mk vs s =>
        rw [hfx] at h; simp at h; subst h
        simp [List.replicate_succ]
  · rw [repeat_]
    cases hfx : f x with
    | mk vs s => rw [hfx] at h; exact append_stop h vs _

/-- `while(cond; update)` is `if cond then ., (update | while(cond; update)) else empty end`,
`until(cond; update)` is `if cond then . else update | until(cond; update) end`; every output
of either was accepted by `cond` -/
theorem while_until_def (cond : α → Out Bool) (upd : α → Out α) (k : Nat) (x : α) :
    while_ cond upd (k + 1) x =
      (cond x).bind (fun b => if b then append (pure x) ((upd x).bind (while_ cond upd k)) else nil) ∧
    until_ cond upd (k + 1) x =
      (cond x).bind (fun b => if b then pure x else (upd x).bind (until_ cond upd k)) ∧
    (∀ v ∈ (while_ cond upd k x).vals, true ∈ (cond v).vals) ∧
    (∀ v ∈ (until_ cond upd k x).vals, true ∈ (cond v).vals) :=
  ⟨rfl, rfl, while_outputs cond upd k x, until_outputs cond upd k x⟩

/-- for deterministic `cond`/`update`, `while` lists the iterates up to the first rejected one
and `until` returns the first accepted iterate -/
theorem while_until_deterministic (p : α → Bool) (g : α → α) (k : Nat) (x : α) :
    while_ (fun x => pure (p x)) (fun x => pure (g x)) (k + 1) x =
      (if p x then cons x (while_ (fun x => pure (p x)) (fun x => pure (g x)) k (g x)) else nil) ∧
    until_ (fun x => pure (p x)) (fun x => pure (g x)) (k + 1) x =
      (if p x then pure x else until_ (fun x => pure (p x)) (fun x => pure (g x)) k (g x)) := by
  constructor
  · rw [while_, pure_bind, pure_bind]
  · rw [until_, pure_bind, pure_bind]

/-- `select(cond)` yields its input once for each true output of `cond`, and stops as `cond` stops -/
theorem select_def (cond : α → Out Bool) (x : α) :
    select cond x = ⟨((cond x).vals.filter id).map (fun _ => x), (cond x).stop⟩ := by
  unfold select
  obtain ⟨bs, s⟩ := cond x
  induction bs with
  | nil => rfl
  | cons b bs ih =>
    rw [bind_mk_cons, ih]
    cases b <;> simp [Out.pure, nil]

/-- **The definitions modelled in `Stream.lean` are the ones in defs.jq**: the syntax trees
the real parser produces for `select range/1,2 repeat recurse/0,1,2 while until nth isempty
all/0,1,2 any/0,1,2 add/0,1` in the real `jaq-core/src/defs.jq` / `jaq-std/src/defs.jq`
(regenerated into `Gen/C11Defs.lean` on every run) equal the hand transcription `expectedDefs`
that sits next to the Lean functions. -/
theorem defs_as_transcribed : Gen.defs = expectedDefs := by decide

/-! ## 6. Errors inside the stream -/

/-- **The first error (or break, halt, divergence) of the argument ends the stream and is
reported once, after the outputs before it.**  For an argument `⟨vs, s⟩` with `s ≠ done`:
a pipe, `skip` and `reduce` behave as on `⟨vs, done⟩` and then deliver `s`; `limit` does so
unless it is satisfied before reaching `s`; `last` delivers only `s`; `try … catch` runs the
handler once after the outputs. -/
theorem first_error_ends_stream_once (vs : List α) (s : Stop) (hs : s.isDone = false) :
    (∀ g : α → Out β, bind ⟨vs, s⟩ g = append (bind ⟨vs, .done⟩ g) (halted s)) ∧
    (∀ n, skip n ⟨vs, s⟩ = append (skip n ⟨vs, .done⟩) (halted s)) ∧
    (∀ n, limit n ⟨vs, s⟩ = limit n ⟨vs, .done⟩ ∨
          limit n ⟨vs, s⟩ = append (limit n ⟨vs, .done⟩) (halted s)) ∧
    last ⟨vs, s⟩ = halted s ∧
    (∀ (f : α → U → Out U) (y : U),
      reduceSpec f vs s y = (reduceSpec f vs .done y).bind (fun _ => halted s)) ∧
    (∀ (e : Err) (h : Err → Out α), s = .err e → tryCatch ⟨vs, s⟩ h = append ⟨vs, .done⟩ (h e)) := by
  refine ⟨fun g => bind_stop_last vs s g, ?_, ?_, ?_, fun f y => reduceSpec_stop f hs vs y, ?_⟩
  · intro n
    unfold skip
    by_cases h : le0 n = true
    · simp [h, halted]
    · rw [if_neg h, if_neg h]; exact skipLoop_stop valCounter vs s n
  · intro n
    unfold limit
    by_cases h : le0 n = true
    · simp [h]
    · rw [if_neg h, if_neg h]; exact limitLoop_stop valCounter vs s n
  · rw [last_spec]; simp [hs]
  · intro e h he; subst he; rfl

end Jaq.C11
