/-
  C17 — the command line prints each output once, in order, and reports the true outcome.

  Theorems about the impl-model `C17/Args.lean` (`Cli::parse`) and `C17/Run.lean`
  (`write`, `with_stdout`, `filter::run`, `data::run`, `binds`, `real_main`, `main`), tied to
  `/repo/jaq/src/{cli,main,filter}.rs`, `jaq-all/src/data.rs`, `jaq-std/src/input.rs`,
  `jaq-fmts/src/write/{mod,formats}.rs` by the process-level correspondence of `bin/check C17`.
  The filter is an arbitrary function (`FilterFn V`: for an input and the rest of the stream, a
  list of output/pull events and how it ends); readers and value formatters are parameters
  (`World V`).  Vocabulary (`framesOf`, `stepBytes`, `Chain`, `consumed`, `Opt`, …) is in
  `C17/Spec.lean`; helper lemmas in `Lemmas/C17.lean`.

  `realMain W c true` is the model with the fix switch for finding `exit-status-last-file` on
  (what the manual says); `realMain W c false` is the code as it stands (see `mergeLast`).
-/
import JaqVerif.Lemmas.C17
import JaqVerif.Gen.C17Frames

namespace Jaq.C17
variable {V : Type}

/-! ## Argument parsing -/

/-- every argv yields a `Cli` or a usage error (the parser is a total function: the loop
terminates because every handler consumes arguments from the one iterator) -/
theorem parse_total (argv : List Arg) :
    (∃ c, Cli.parse argv = .ok c) ∨ (∃ e, Cli.parse argv = .error e) := by
  cases h : Cli.parse argv with
  | ok c => exact .inl ⟨c, rfl⟩
  | error e => exact .inr ⟨e, rfl⟩

/-- a usage error prints nothing on stdout, a message on stderr, and exits with 2 -/
theorem usage_error_exits_2 (W : World V) (argv : List Arg) (e : CliError) (fix : Bool)
    (h : Cli.parse argv = .error e) :
    procMain W argv fix = { stdout := [], exit := 2, message := true } := by
  simp [procMain, h]

/-- **Each documented option changes exactly its field.**  In any state `(c, m)` of the parser
— i.e. at any place of the command line where an option may start — the tokens of option `o`
are consumed completely and the state afterwards is `o.effect c`, a record update of the single
field `φ(o)` (see `Opt.effect`), with the mode unchanged.  Everything else on the command line
is parsed as if `o` had not been there. -/
theorem option_changes_only_documented_field (o : Opt) (c : Cli) (m : Mode) (post : List Arg) :
    Cli.parseLoop c m (o.tokens ++ post) = Cli.parseLoop (o.effect c) m post :=
  step_option o c m post

/-- `--indent N` sets only `indent`, for every text `usize::from_str` accepts -/
theorem indent_changes_only_indent (s : String) (n : Nat) (h : parseUsize s = some n)
    (c : Cli) (m : Mode) (post : List Arg) :
    Cli.parseLoop c m (.str "--indent" :: .str s :: post) = Cli.parseLoop { c with indent := some n } m post := by
  simp [parseLoop_cons, Cli.step, Cli.long, Arg.str?, h]

example : parseUsize "3" = some 3 ∧ parseUsize "+7" = some 7 ∧ parseUsize "007" = some 7 ∧
    parseUsize "" = none ∧ parseUsize "-1" = none ∧ parseUsize "18446744073709551616" = none := by decide

/-- `--indent` without an integer is a usage error -/
theorem indent_needs_integer (s : String) (h : parseUsize s = none) (c : Cli) (m : Mode) (post : List Arg) :
    Cli.parseLoop c m (.str "--indent" :: .str s :: post) = .error (.int "--indent") := by
  simp [parseLoop_cons, Cli.step, Cli.long, Arg.str?, h]

/-- `--args` changes no field, only the mode: later positional arguments go to `$ARGS.positional` -/
theorem args_changes_only_mode (c : Cli) (m : Mode) (post : List Arg) :
    Cli.parseLoop c m (.str "--args" :: post) = Cli.parseLoop c .args post := by
  simp [parseLoop_cons, Cli.step, Cli.long]

/-- after `--` every argument is positional, whatever it looks like -/
theorem double_dash_rest_positional (c : Cli) (m : Mode) (post : List Arg) :
    Cli.parseLoop c m (.str "--" :: post) = c.positionals m post := by
  simp only [parseLoop_cons, Cli.step, Cli.long]
  cases c.positionals m post with
  | error e => simp
  | ok c' => simp [parseLoop_nil]

/-- combined short flags `-abc` act like `-a -b -c` (flags without argument) -/
theorem combined_short_flags (chs : List Char) (h : ∀ ch ∈ chs, (flagEffect ch).isSome = true)
    (c : Cli) (m : Mode) (post : List Arg) :
    Cli.parseLoop c m (.str (String.ofList ('-' :: chs)) :: post) = Cli.parseLoop (applyFlags c chs) m post := by
  rw [parseLoop_of_step (step_combined chs h c m post)]
  simp

example : ∀ ch ∈ ['n', 'r', 'c', 'e'], (flagEffect ch).isSome = true := by decide

/-- an unknown long flag is a usage error naming the flag -/
theorem unknown_long_flag (c : Cli) (m : Mode) (post : List Arg) :
    Cli.parseLoop c m (.str "--foo" :: post) = .error (.flag "--foo") := by
  simp [parseLoop_cons, Cli.step, Cli.long]

/-- positional arguments: the first is the filter (a file name after `-f`), later ones are input
files, or `$ARGS.positional` entries after `--args` -/
theorem positional_roles (c : Cli) (s : String) :
    (c.filter = none → c.fromFile = false → ∀ m, c.positional m (.str s) = .ok { c with filter := some (.inline s) }) ∧
    (c.filter = none → c.fromFile = true → ∀ m, c.positional m (.str s) = .ok { c with filter := some (.fromFile (.str s)) }) ∧
    (c.filter.isSome → c.positional .files (.str s) = .ok { c with files := c.files ++ [.str s] }) ∧
    (c.filter.isSome → c.positional .args (.str s) = .ok { c with args := c.args ++ [s] }) := by
  refine ⟨?_, ?_, ?_, ?_⟩
  · intro h1 h2 m; simp [Cli.positional, h1, h2, Arg.intoString]
  · intro h1 h2 m; simp [Cli.positional, h1, h2]
  · intro h; cases hf : c.filter <;> simp_all [Cli.positional]
  · intro h; cases hf : c.filter <;> simp_all [Cli.positional, Arg.intoString]

/-! ## Variables -/

/-- **Binding order.**  The named variables are bound in the order `--arg`s, `--rawfile`s,
`--slurpfile`s, `--argjson`s (each group in command-line order, see
`option_changes_only_documented_field`: every such option appends to its list), then `$ARGS`
(built from the positional arguments in command-line order and exactly these named values), then
`$ENV`. -/
theorem args_binding_order (W : World V) (c : Cli) (b : List (String × V)) (h : binds W c = .ok b) :
    ∃ nv, named W c = .ok nv ∧
      nv.map (·.1) = c.arg.map (·.1) ++ c.rawfile.map (·.1) ++ c.slurpfile.map (·.1) ++ c.argjson.map (·.1) ∧
      b = nv ++ [("ARGS", W.mkArgs (c.args.map W.strVal) nv), ("ENV", W.envVal)] := by
  unfold binds at h
  cases hn : named W c with
  | error e => simp [hn] at h
  | ok nv =>
    simp [hn] at h
    refine ⟨nv, rfl, ?_, h.symm⟩
    have key : ∀ {α : Type} (f : α → Except Error V) (l : List (String × α)) (r : List (String × V)),
        bindAll f l = .ok r → r.map (·.1) = l.map (·.1) := by
      intro α f l
      induction l with
      | nil => intro r hr; simp [bindAll] at hr; subst hr; rfl
      | cons kv rest ih =>
        intro r hr
        obtain ⟨k, a⟩ := kv
        simp only [bindAll] at hr
        cases hfa : f a with
        | error e => simp [hfa] at hr
        | ok v =>
          simp only [hfa] at hr
          cases hb : bindAll f rest with
          | error e => simp [hb] at hr
          | ok vs => simp [hb] at hr; subst hr; simp [ih vs hb]
    unfold named at hn
    repeat' split at hn
    all_goals first
      | (simp at hn; done)
      | (injection hn with hn; subst hn
         rename_i h1 _ _ h2 _ _ h3 _ _ h4
         simp [key _ _ _ h1, key _ _ _ h2, key _ _ _ h3, key _ _ _ h4])

/-- a failing variable decides the outcome: unreadable `--rawfile`/`--slurpfile` (or invalid
JSON in the slurped file) is an I/O error (2), an invalid `--argjson` text a parse error (5) -/
theorem binds_error_classes (W : World V) (c : Cli) (e : Error) (h : binds W c = .error e) : e.stops :=
  binds_err W c e h

/-! ## Exit status -/

/-- **The exit-code table** (`impl Termination for Error`), for every outcome class -/
theorem exit_code_table :
    exitOf (.ok ()) = 0 ∧
    Error.exitCode .falseOrNull = 1 ∧      -- --exit-status: last output false or null
    Error.exitCode .io = 2 ∧               -- I/O error (usage errors: `usage_error_exits_2`)
    Error.exitCode .report = 3 ∧           -- the filter does not parse / compile
    Error.exitCode .noOutput = 4 ∧         -- --exit-status: no output
    Error.exitCode .parse = 5 ∧            -- an input (or --argjson text) does not parse
    Error.exitCode .jaq = 5 ∧              -- uncaught run-time error
    (∀ c : Int, Error.exitCode (.halt c) = (c % 256).toNat) ∧   -- halt(c): the low 8 bits
    (∀ e : Error, e.message = false ↔ (e = .falseOrNull ∨ e = .noOutput ∨ ∃ c, e = .halt c)) := by
  refine ⟨rfl, rfl, rfl, rfl, rfl, rfl, rfl, fun _ => rfl, ?_⟩
  intro e; cases e <;> simp [Error.message]

example : Error.exitCode (.halt 300) = 44 ∧ Error.exitCode (.halt (-1)) = 255 ∧ Error.exitCode (.halt 9) = 9 := by decide

/-- `--exit-status`: without it 0; with it 0 / 1 / 4 by the last output -/
theorem exit_status_table (last : Option Bool) :
    exitOf (exitStatusResult false last) = 0 ∧
    exitOf (exitStatusResult true (some true)) = 0 ∧
    exitOf (exitStatusResult true (some false)) = 1 ∧
    exitOf (exitStatusResult true none) = 4 := by
  refine ⟨?_, rfl, rfl, rfl⟩
  simp [exitStatusResult, exitOf]

/-- **The run stops at the first uncaught error.**  For one stream (`data::run`), the error of the
run is the error of its *last* turn and no earlier turn had one: an item that does not parse
(5), a `write` that fails (2), the filter's own error (5) or `halt c` (c) — see `stepErr`. -/
theorem run_stops_at_first_error (F : FilterFn V) (ops : ValOps V) (w : Writer V) (null : V) (ni : Bool)
    (items : List (Item V)) (sink : Sink) :
    (dataRun F ops w null ni items sink).err = lastErr ops w (dataRun F ops w null ni items sink).steps ∧
    ∀ s ∈ (dataRun F ops w null ni items sink).steps.dropLast, stepErr ops w s = none :=
  dataRun_err F ops w null ni items sink

/-- **The outcome of the process** (model with the fix switch on): unless `--in-place` is used
with files (C18), either an error that stops the run decides the status (usage/I/O 2, compile 3,
parse/run-time 5, `halt c`), or the run completed and the status is the `--exit-status` table
applied to the last output **of all outputs written, over all files**. -/
theorem exit_status_uses_last_output_of_all_files (W : World V) (c : Cli) :
    (realMain W c true).unmodelled = true ∨
    (∃ e, (realMain W c true).result = .error e ∧ e.stops) ∨
    (realMain W c true).result = exitStatusResult c.exitStatus (lastOf W.ops none (realMain W c true).outs) :=
  realMain_result W c

/-! ## Standard output -/

/-- **For ALL output sequences and error positions**: running the closure of `filter::run` over
the events of one input writes exactly the frames of the outputs up to the first one `write`
rejects (plus what `write` emitted of that one), whatever the trace ends with — an error or a
`halt` after k outputs leaves the k frames on stdout. -/
theorem outputs_written_until_first_error (ops : ValOps V) (w : Writer V) (evs : List (Ev V)) (stop : Stop)
    (st : RunSt V) :
    (runEvents ops w evs stop st).1.sink.all =
        st.sink.all ++ framesOf ops w (splitWritable ops w (outsOf evs)).1 ++
          partialOf ops w (splitWritable ops w (outsOf evs)).2
    ∧ (runEvents ops w evs stop st).1.written = st.written ++ (splitWritable ops w (outsOf evs)).1
    ∧ (runEvents ops w evs stop st).2 = errOf stop (splitWritable ops w (outsOf evs)).2 :=
  runEvents_spec ops w evs stop st

/-- if every output can be written, stdout gets the frame of every output, in order, each once -/
theorem all_outputs_written_when_writable (ops : ValOps V) (w : Writer V) (evs : List (Ev V)) (stop : Stop)
    (st : RunSt V) (h : (splitWritable ops w (outsOf evs)).2 = none) :
    (runEvents ops w evs stop st).1.sink.all = st.sink.all ++ framesOf ops w (outsOf evs)
    ∧ (runEvents ops w evs stop st).2 = stopErr stop := by
  have := runEvents_spec ops w evs stop st
  rw [h, splitWritable_none ops w _ h] at this
  simp only [partialOf, errOf, List.append_nil] at this
  exact ⟨this.1, this.2.2⟩

/-- **Each output is completely written and flushed before the next is computed**: whenever the
filter is resumed (next output, a pull of the input cursor, or its end), fd 1 — not just the
buffer — holds exactly the frames of all outputs yielded so far. -/
theorem each_output_flushed_before_next_is_computed (ops : ValOps V) (w : Writer V) (evs : List (Ev V))
    (stop : Stop) (st : RunSt V) (hb : st.sink.buf = []) :
    (runEvents ops w evs stop st).1.seen = st.seen ++ expectedSeen ops w st.sink.flushed evs :=
  runEvents_seen ops w evs stop st hb

/-- **stdout of one stream**: the bytes of the turns in order (`stepBytes`: frames of the writable
outputs of the oracle's trace), and the outputs logged as written are exactly those -/
theorem stdout_is_concat_of_outputs_until_first_error (F : FilterFn V) (ops : ValOps V) (w : Writer V)
    (null : V) (ni : Bool) (items : List (Item V)) (sink : Sink) :
    (dataRun F ops w null ni items sink).sink.all =
      sink.all ++ (dataRun F ops w null ni items sink).steps.flatMap (stepBytes ops w) ∧
    ∀ s ∈ (dataRun F ops w null ni items sink).steps, s.outs = (splitWritable ops w (outsOf s.tr.evs)).1 :=
  dataRun_stdout F ops w null ni items sink

/-- **stdout of the process**: everything is flushed at exit, and fd 1 holds the bytes of the
files' turns in command-line order — nothing else, nothing twice, nothing reordered -/
theorem process_stdout (W : World V) (c : Cli) :
    (realMain W c true).sink.buf = [] ∧
    (realMain W c true).sink.flushed = (realMain W c true).files.flatMap (fileBytes W.ops (c.writer W)) :=
  realMain_stdout W c

/-- the terminator / marker table of `write` agrees with the frames the real `write` produced
for sample values in every (format, join) (table regenerated on every run) -/
theorem frames_match_write :
    ∀ row ∈ Gen.frames,
      frameIs (Writer.frame (V := Bytes)
        { asBool := fun _ => true, strBytes := fun b => if row.2.2.1 then some b else none }
        { format := row.1, join := row.2.1, body := fun b => .ok b } row.2.2.2.1) row.2.2.2.2 = true := by
  decide +kernel

/-! ## Inputs -/

/-- **One cursor per stream, consumed once and in order.**  For ALL streams and ALL consumption
patterns of the filter: the turns of the main loop form a chain from position 0; the positions
consumed (by the main loop or by `input`/`inputs`) are `0, 1, …, n-1` for some `n ≤` the number
of items — a prefix, each exactly once, in order; and every turn is faithful: the main loop fed
`items[start]`, and the filter ran on exactly the rest of the stream behind it. -/
theorem inputs_consumed_once_in_order (F : FilterFn V) (ops : ValOps V) (w : Writer V) (null : V) (ni : Bool)
    (items : List (Item V)) (sink : Sink) :
    let steps := (dataRun F ops w null ni items sink).steps
    Chain 0 steps ∧
    consumed steps = List.range (finalCursor 0 steps) ∧
    finalCursor 0 steps ≤ items.length ∧
    ∀ s ∈ steps, StepFaithful F null items s := by
  have h := dataRun_cursor F ops w null ni items sink
  have hc := consumed_range' 0 _ h.1
  refine ⟨h.1, ?_, h.2.1, h.2.2⟩
  rw [hc.2]; simp [List.range_eq_range']

/-- the number of items a turn takes through `input`/`inputs` is the number of pulls in the
oracle's trace (clamped by `mainLoop` to what is left) -/
theorem pulls_are_the_filters_pulls (ops : ValOps V) (w : Writer V) (evs : List (Ev V)) (stop : Stop)
    (st : RunSt V) (h : (splitWritable ops w (outsOf evs)).2 = none) :
    (runEvents ops w evs stop st).1.pulls = st.pulls + pullsOf evs :=
  runEvents_pulls ops w evs stop st h

/-- per file of the process: every opened file has its own cursor starting at 0 and is
consumed as above -/
theorem process_inputs_per_file (W : World V) (c : Cli) :
    ∃ F : Arg → FilterFn V, ∀ f ∈ (realMain W c true).files, FileOk F W.null f :=
  realMain_files_ok W c

/-- a non-trivial instance: `., input` on the stream `1 2 3` — the main loop takes items 0 and 2,
`input` takes item 1, the second `input` finds nothing -/
example :
    let F : FilterFn Nat := fun x rest =>
      match rest with
      | .val y :: _ => { evs := [.out x, .pull, .out y], stop := .done }
      | _ => { evs := [.out x, .pull], stop := .done }
    let ops : ValOps Nat := { asBool := fun _ => true, strBytes := fun _ => none }
    let w : Writer Nat := { format := .json, join := false, body := fun n => .ok [UInt8.ofNat (48 + n)] }
    let r := dataRun F ops w 0 false [.val 1, .val 2, .val 3] {}
    r.sink.all = [49, 10, 50, 10, 51, 10] ∧ (r.steps.map fun s => (s.start, s.pulls)) = [(0, 1), (2, 0)]
      ∧ consumed r.steps = [0, 1, 2] ∧ r.err = none := by
  decide +kernel

end Jaq.C17
