/-
  C10 — indexing, slicing and element updates follow one position model per container.

  Theorems about the impl-model `JaqVerif/C10/Index.lean` (tied to `/repo/jaq-json/src/{lib,num,funs}.rs`
  and `/repo/jaq-core/src/path.rs` by the correspondence of `bin/check C10`) against the independent
  Python-style list model `JaqVerif/C10/Spec.lean` (`norm`, `sliceSpec`, `getSpec`, `setSpec`, `delSpec`,
  `spliceSpec`).  All statements are for lists of any length and integers of any magnitude.
  `IsPos idx k`: the value `idx` is the integer `k` (machine or big representation).
  `IsBound b i`: the slice bound `b` is absent / `null` (then `i = none`) or an integer `i`
  with `|i| ≤ 2^64-1` (see `range_bound_beyond_usize_is_refused` for the rest).
-/
import JaqVerif.Lemmas.C10Upd

namespace Jaq.C10
open Jaq Spec

/-! ## positions -/

/-- `as_pos_usize` never yields `PosUsize(false, 0)`: the `c - 1` of `skip_take_chars` cannot underflow -/
theorem asPosUsize_not_negzero (n : Num) (m : Nat) (h : numAsPosUsize n = some (false, m)) : 0 < m := by
  cases n with
  | int i => simp [numAsPosUsize, Num.asPosUsize] at h; omega
  | big i =>
    simp only [numAsPosUsize, Num.asPosUsize] at h
    split at h
    · simp only [Option.some.injEq, Prod.mk.injEq, Bool.not_eq_false', decide_eq_true_eq] at h
      unfold usizeMaxNat at h; omega
    · split at h
      · simp at h; omega
      · cases h
  | float b => cases h
  | dec s => cases h

/-- **`skip_take` = clipped normalised bounds**: for integer or open bounds of any magnitude the
window is `[lo, max lo hi)` with Python's normalisation. -/
theorem skipTake_eq_norm (i j : Option Int) (len : Nat) :
    skipTake (i.map puOfInt, j.map puOfInt) len = (lo i len, hi j len - lo i len) :=
  skipTake_puRange i j len

/-- `abs_index`: an index is accepted exactly when it points inside, and then at `pos` -/
theorem absIndex_eq_inside (i : Int) (len : Nat) :
    absIndex (puOfInt i) len = if inside len i then some (pos len i) else none :=
  absIndex_puOfInt i len

/-! ## slicing -/

/-- **`.[i:j]` on arrays is the list slice** -/
theorem range_arr_eq_sliceSpec {bi bj : Option Val} {i j : Option Int} (a : List Val)
    (h1 : IsBound bi i) (h2 : IsBound bj j) :
    range (.arr a) (bi, bj) = .ok (.arr (sliceSpec a i j)) := by
  simp [range, rangeInt_of h1 h2, Except.map, skipTake_puRange, sliceSpec]

/-- **`.[i:j]` on byte strings is the slice of the bytes** -/
theorem range_bstr_eq_sliceSpec {bi bj : Option Val} {i j : Option Int} (b : List UInt8)
    (h1 : IsBound bi i) (h2 : IsBound bj j) :
    range (.bstr b) (bi, bj) = .ok (.bstr (sliceSpec b i j)) := by
  simp [range, rangeInt_of h1 h2, Except.map, skipTakeBytes, skipTake_puRange, sliceSpec]

/-- **`.[i:j]` on text strings is the slice of the character sequence** (characters in the sense
of `bstr::char_indices`: an invalid byte sequence is one position), concatenated. -/
theorem range_tstr_eq_sliceSpec {bi bj : Option Val} {i j : Option Int} (b : List UInt8)
    (h1 : IsBound bi i) (h2 : IsBound bj j) :
    range (.tstr b) (bi, bj) = .ok (.tstr (sliceSpec (Utf8.chars b) i j).flatten) := by
  simp only [range, rangeInt_of h1 h2, Except.map, skipTakeChars_puRange, sliceSpec]
  congr 2
  have := flatten_window (Utf8.chars b) (lo i (Utf8.chars b).length) (hi j (Utf8.chars b).length)
  rw [chars_flatten] at this
  exact this

/-- **slicing text never splits a character**: the result is the concatenation of a contiguous
run of whole characters of the input. -/
theorem slice_never_splits_char {bi bj : Option Val} {i j : Option Int} (b : List UInt8)
    (h1 : IsBound bi i) (h2 : IsBound bj j) :
    ∃ cs, cs <:+: Utf8.chars b ∧ range (.tstr b) (bi, bj) = .ok (.tstr cs.flatten) := by
  refine ⟨sliceSpec (Utf8.chars b) i j, ?_, range_tstr_eq_sliceSpec b h1 h2⟩
  unfold sliceSpec
  exact List.IsInfix.trans (List.take_prefix _ _).isInfix (List.drop_suffix _ _).isInfix

/-- the characters of a text string concatenate to the string; `length` counts them -/
theorem chars_concat_and_length (b : List UInt8) :
    (Utf8.chars b).flatten = b ∧ length (.tstr b) = .ok (.num (Num.ofInt (Utf8.chars b).length)) := by
  refine ⟨chars_flatten b, ?_⟩
  simp [length, charCount_eq]

/-- Finding `c10-bigint-bound` (see notes): in the unfixed code an integer bound beyond ±(2^64-1)
is *not* clipped but refused as "not an integer" (`as_pos_usize` fails), although the same
integer used as an index reads `null`; with the proposed fix it is clipped like every other
integer (the switch `fixBigintBound` of the model selects which of the two the driver runs). -/
theorem range_bound_beyond_usize (a : List Val) (k : Int) (hk : usizeMaxN < k.natAbs)
    (hlen : a.length < usizeMaxN) :
    (fixBigintBound = false →
      range (.arr a) (some (.num (.big k)), none) = .error (.typ (.num (.big k)) "integer")) ∧
    (fixBigintBound = true →
      range (.arr a) (some (.num (.big k)), none) = .ok (.arr (sliceSpec a (some k) none))) := by
  constructor
  · intro hfx
    simp [range, rangeInt, rangeBound, asPosUsize, asPosUsize_big_beyond k hk, hfx, Except.map, tyInt]
  · intro hfx
    have hb := absBound_saturated k a.length 0 hk hlen
    have hn : absBound none a.length a.length = a.length := rfl
    simp only [range, rangeInt, rangeBound, asPosUsize, asPosUsize_big_beyond k hk, hfx, if_true,
      Except.map, skipTake, hb, hn, sliceSpec, lo, hi]

/-- **wrongly typed slice bounds and containers are errors** -/
theorem range_wrong_type_errors :
    (∀ (v : Val) (r : Range Val), (v = .null ∨ (∃ b, v = .bool b) ∨ (∃ n, v = .num n) ∨ (∃ o, v = .obj o)) →
        range v r = .error (.typ v "rangeable (array or string)")) ∧
    (∀ (a : List Val) (x : Val) (bj : Option Val),
        ((∃ b, x = .bool b) ∨ (∃ f, x = .num (.float f)) ∨ (∃ s, x = .num (.dec s)) ∨ (∃ s, x = .tstr s) ∨
         (∃ s, x = .bstr s) ∨ (∃ l, x = .arr l) ∨ (∃ o, x = .obj o)) →
        range (.arr a) (some x, bj) = .error (.typ x "integer")) := by
  constructor
  · intro v r h
    rcases h with rfl | ⟨b, rfl⟩ | ⟨n, rfl⟩ | ⟨o, rfl⟩ <;> rfl
  · intro a x bj h
    rcases h with ⟨b, rfl⟩ | ⟨f, rfl⟩ | ⟨s, rfl⟩ | ⟨s, rfl⟩ | ⟨s, rfl⟩ | ⟨l, rfl⟩ | ⟨o, rfl⟩ <;>
      simp [range, rangeInt, rangeBound, asPosUsize, numAsPosUsize, Num.asPosUsize, Except.map, tyInt]

/-! ## indexing -/

/-- **`.[i]` on arrays is `l[i]`, `null` outside** (negative from the end), for integers of any
magnitude and representation. -/
theorem index_arr_eq_getSpec {idx : Val} {k : Int} (a : List Val) (h : IsPos idx k)
    (hlen : a.length < usizeMaxN) :
    index (.arr a) idx = .ok ((getSpec a k).getD .null) := by
  obtain ⟨n, rfl, hn, hidx⟩ := absIndex_of_pos h a.length hlen
  simp only [index, indexOpt, hn, if_true, hidx, Except.map, getSpec]
  by_cases hin : inside a.length k <;> simp [hin]

/-- **negative index counts from the end** -/
theorem index_negative_from_end (a : List Val) (m : Nat) (hm : 0 < m) (hle : m ≤ a.length) :
    index (.arr a) (.num (.int (-(m : Int)))) = .ok ((a[a.length - m]?).getD .null) := by
  have hin : inside a.length (-(m : Int)) := by unfold inside; omega
  have hp : pos a.length (-(m : Int)) = a.length - m := by unfold pos; split <;> omega
  simp [index, indexOpt, Num.isInt, asPosUsize_int, absIndex_puOfInt, hin, hp, Except.map]

/-- **reading outside yields null** -/
theorem index_outside_null {idx : Val} {k : Int} (a : List Val) (h : IsPos idx k)
    (hlen : a.length < usizeMaxN) (hout : ¬ inside a.length k) :
    index (.arr a) idx = .ok .null := by
  rw [index_arr_eq_getSpec a h hlen]; simp [getSpec, hout]

/-- `first` = `.[0]`, `last` = `.[-1]` are head and last element (`null` on the empty array) -/
theorem first_last_agree (a : List Val) :
    index (.arr a) (.num (.int 0)) = .ok (a.head?.getD .null) ∧
    index (.arr a) (.num (.int (-1))) = .ok (a.getLast?.getD .null) := by
  constructor
  · cases a with
    | nil => simp [index, indexOpt, Num.isInt, asPosUsize_int, absIndex_puOfInt, inside, Except.map]
    | cons x xs =>
      have hin : inside (xs.length + 1) 0 := by unfold inside; omega
      simp [index, indexOpt, Num.isInt, asPosUsize_int, absIndex_puOfInt, hin, pos, Except.map]
  · by_cases h0 : a.length = 0
    · have : a = [] := List.eq_nil_of_length_eq_zero h0
      subst this
      simp [index, indexOpt, Num.isInt, asPosUsize_int, absIndex_puOfInt, inside, Except.map]
    · have := index_negative_from_end a 1 (by omega) (by omega)
      simp only [Int.natCast_one] at this
      rw [this, List.getLast?_eq_getElem?]

/-- **`.[i]` on byte strings reads the byte as a number** -/
theorem index_bstr_eq_getSpec {idx : Val} {k : Int} (b : List UInt8) (h : IsPos idx k)
    (hlen : b.length < usizeMaxN) :
    index (.bstr b) idx =
      .ok (((getSpec b k).map fun x => Val.num (Num.ofInt (Int.ofNat x.toNat))).getD .null) := by
  obtain ⟨n, rfl, hn, hidx⟩ := absIndex_of_pos h b.length hlen
  simp only [index, indexOpt, hn, if_true, hidx, Except.map, getSpec]
  by_cases hin : inside b.length k <;> simp [hin]

/-- **`has($k)` is true exactly when `.[$k]` points into the value** (arrays and byte strings:
the integer is inside; objects: the key is present; `null`: never) -/
theorem has_iff_points_inside :
    (∀ {idx : Val} {k : Int} (a : List Val), IsPos idx k → a.length < usizeMaxN →
        has (.arr a) idx = .ok (.bool (decide (inside a.length k)))) ∧
    (∀ {idx : Val} {k : Int} (b : List UInt8), IsPos idx k → b.length < usizeMaxN →
        has (.bstr b) idx = .ok (.bool (decide (inside b.length k)))) ∧
    (∀ (o : Obj.Entries) (k : Val), has (.obj o) k = .ok (.bool (Obj.get o k).isSome) ∧
        index (.obj o) k = .ok ((Obj.get o k).getD .null)) ∧
    (∀ k : Val, has .null k = .ok (.bool false) ∧ index .null k = .ok .null) := by
  refine ⟨?_, ?_, ?_, ?_⟩
  · intro idx k a h hlen
    obtain ⟨n, rfl, hn, hidx⟩ := absIndex_of_pos h a.length hlen
    simp only [has, indexOpt, hn, if_true, hidx, Except.map]
    by_cases hin : inside a.length k
    · have := pos_lt hin; simp [hin, this]
    · simp [hin]
  · intro idx k b h hlen
    obtain ⟨n, rfl, hn, hidx⟩ := absIndex_of_pos h b.length hlen
    simp only [has, indexOpt, hn, if_true, hidx, Except.map]
    by_cases hin : inside b.length k
    · have := pos_lt hin; simp [hin, this]
    · simp [hin]
  · intro o k
    cases k <;> simp [has, index, indexOpt, Except.map]
  · intro k
    simp [has, index, indexOpt, Except.map]

/-- **non-integer or wrongly typed positions are errors**: arrays and byte strings accept only
integers, arrays (`indices`) and objects (slices); text strings only objects; booleans and
numbers nothing. -/
theorem wrong_type_position_errors :
    (∀ (a : List Val) (x : Val),
        (x = .null ∨ (∃ b, x = .bool b) ∨ (∃ f, x = .num (.float f)) ∨ (∃ s, x = .num (.dec s)) ∨
          (∃ s, x = .tstr s) ∨ (∃ s, x = .bstr s)) →
        index (.arr a) x = .error (.index (.arr a) x) ∧ has (.arr a) x = .error (.index (.arr a) x)) ∧
    (∀ (s : List UInt8) (x : Val), (∀ o, x ≠ .obj o) → index (.tstr s) x = .error (.index (.tstr s) x)) ∧
    (∀ (v x : Val), ((∃ b, v = .bool b) ∨ (∃ n, v = .num n)) → index v x = .error (.index v x)) := by
  refine ⟨?_, ?_, ?_⟩
  · intro a x h
    rcases h with rfl | ⟨b, rfl⟩ | ⟨f, rfl⟩ | ⟨s, rfl⟩ | ⟨s, rfl⟩ | ⟨s, rfl⟩ <;>
      simp [index, has, indexOpt, Num.isInt, Except.map]
  · intro s x hx
    cases x <;> simp_all [index, indexOpt, Except.map]
  · intro v x h
    rcases h with ⟨b, rfl⟩ | ⟨n, rfl⟩ <;> cases x <;> simp [index, indexOpt, Except.map]

/-- indexing an array, byte string or text string with an object is slicing with its
`start` / `end` entries -/
theorem index_by_object_is_slice (o : Obj.Entries) :
    (∀ a, index (.arr a) (.obj o) = range (.arr a) (Obj.get o strStart, Obj.get o strEnd)) ∧
    (∀ b, index (.bstr b) (.obj o) = range (.bstr b) (Obj.get o strStart, Obj.get o strEnd)) ∧
    (∀ b, index (.tstr b) (.obj o) = range (.tstr b) (Obj.get o strStart, Obj.get o strEnd)) := by
  refine ⟨?_, ?_, ?_⟩ <;> intro a <;> simp only [index, indexOpt] <;>
    cases range _ (Obj.get o strStart, Obj.get o strEnd) <;> rfl

/-- **`length`, `keys`, `.[]` agree with the position model on arrays**: `length` is the list
length, the keys are `0 … length-1`, `.[]` yields the elements in order, and `.[k]` of the
`k`-th key is the `k`-th value. -/
theorem keys_values_length_agree_arr (a : List Val) :
    length (.arr a) = .ok (.num (Num.ofInt a.length)) ∧
    values (.arr a) = .ok a ∧
    keysUnsorted (.arr a) = .ok (.arr ((List.range a.length).map fun (i : Nat) => .num (.int (i : Int)))) ∧
    (∀ i, i < a.length → index (.arr a) (.num (.int i)) = .ok (a[i]?.getD .null)) := by
  refine ⟨rfl, rfl, ?_, ?_⟩
  · simp only [keysUnsorted, keyValues, Except.map]
    congr 2
    apply List.ext_getElem?
    intro n
    simp only [List.getElem?_map, List.getElem?_zipIdx]
    by_cases hn : n < a.length
    · simp [List.getElem?_eq_getElem hn, hn]
    · simp [List.getElem?_eq_none (by omega : a.length ≤ n), hn]
  · intro i hi
    have hin : inside a.length (i : Int) := by unfold inside; omega
    have hp : pos a.length (i : Int) = i := by unfold pos; simp
    simp [index, indexOpt, Num.isInt, asPosUsize_int, absIndex_puOfInt, hin, hp, Except.map]

/-- destructuring binds every sub-pattern to `.[key]` of the matched value (`bind_pat`) -/
theorem pattern_uses_index (v k : Val) :
    bindPat v [k] = (index v k).map fun x => [x] := by
  simp only [bindPat, List.map, bindPat.collect']
  cases index v k <;> rfl

/-! ## element updates on arrays -/

/-- **`.[i] |= f` changes exactly the position `.[i]` reads** (frame): when `i` points inside and
the first output of `f` on the old element is `y`, the result is `l[i] = y`: the same length, `.[i]`
now reads `y`, and every other position reads what it read before. -/
theorem mapIndex_frame {idx : Val} {k : Int} (a : List Val) (opt : Opt) (f : Upd) (x y : Val)
    (h : IsPos idx k) (hlen : a.length < usizeMaxN)
    (hx : getSpec a k = some x) (hf : (f x).head? = some (.ok y)) :
    mapIndex (.arr a) idx opt f = .ok (.arr (setSpec a k y)) ∧
    (setSpec a k y).length = a.length ∧
    getSpec (setSpec a k y) k = some y ∧
    (∀ q, q ≠ pos a.length k → (setSpec a k y)[q]? = a[q]?) ∧
    (∀ k', inside a.length k' → pos a.length k' ≠ pos a.length k →
        getSpec (setSpec a k y) k' = getSpec a k') := by
  have hin : inside a.length k := by
    unfold getSpec at hx; by_cases hin : inside a.length k
    · exact hin
    · simp [hin] at hx
  have hx' : a[pos a.length k]? = some x := by simpa [getSpec, hin] using hx
  have hlt := pos_lt hin
  refine ⟨?_, by simp [setSpec], ?_, ?_, ?_⟩
  · cases h with
    | int =>
      rw [mapIndex_arr_num]
      simp [asPosUsize, asPosUsize_int, absIndex_puOfInt, hin, hx', hf, setSpec]
    | big =>
      have hb : k.natAbs ≤ usizeMaxN := by unfold inside at hin; omega
      rw [mapIndex_arr_num]
      simp [asPosUsize, asPosUsize_big k hb, absIndex_puOfInt, hin, hx', hf, setSpec]
  · simp [getSpec, setSpec, hin, hlt]
  · intro q hq
    simp only [setSpec]
    rw [List.getElem?_set_ne (by omega)]
  · intro k' hin' hne
    simp only [getSpec, setSpec, List.length_set, hin', if_true]
    rw [List.getElem?_set_ne (by omega)]

/-- **`.[i] |= empty` (`del(.[i])`) removes exactly that element** -/
theorem mapIndex_deletes_on_empty {idx : Val} {k : Int} (a : List Val) (opt : Opt) (f : Upd) (x : Val)
    (h : IsPos idx k) (hlen : a.length < usizeMaxN) (hx : getSpec a k = some x) (hf : f x = []) :
    mapIndex (.arr a) idx opt f = .ok (.arr (delSpec a k)) ∧
    delSpec a k = a.take (pos a.length k) ++ a.drop (pos a.length k + 1) := by
  have hin : inside a.length k := by
    unfold getSpec at hx; by_cases hin : inside a.length k
    · exact hin
    · simp [hin] at hx
  have hx' : a[pos a.length k]? = some x := by simpa [getSpec, hin] using hx
  refine ⟨?_, by simp [delSpec, List.eraseIdx_eq_take_drop_succ]⟩
  cases h with
  | int =>
    rw [mapIndex_arr_num]
    simp [asPosUsize, asPosUsize_int, absIndex_puOfInt, hin, hx', hf, delSpec]
  | big =>
    have hb : k.natAbs ≤ usizeMaxN := by unfold inside at hin; omega
    rw [mapIndex_arr_num]
    simp [asPosUsize, asPosUsize_big k hb, absIndex_puOfInt, hin, hx', hf, delSpec]

/-- **only the first output of the update filter is used** by `.[i] |= f` and `.[i:j] |= f`, on
every container: two update filters with the same first outputs give the same result. -/
theorem mapIndex_mapRange_first_output_only (v idx : Val) (r : Range Val) (opt : Opt) (f g : Upd)
    (hfg : ∀ x, (f x).head? = (g x).head?) :
    mapIndex v idx opt f = mapIndex v idx opt g ∧ mapRange v r opt f = mapRange v r opt g := by
  have hc : ∀ {α : Type} (conv : Val → Except Err (List α)) (x : Val),
      firstConv conv (f x) = firstConv conv (g x) := fun conv x => firstConv_congr conv (hfg x)
  have hr : ∀ (v : Val) (r : Range Val), mapRange v r opt f = mapRange v r opt g := by
    intro v r
    cases v <;> simp only [mapRange, mapRangeStr, hc]
  refine ⟨?_, hr v r⟩
  cases v <;> cases idx <;> simp only [mapIndex, hr, hfg]

/-- **an error of the update filter is the result** -/
theorem mapIndex_propagates_error {idx : Val} {k : Int} (a : List Val) (opt : Opt) (f : Upd) (x : Val) (e : Err)
    (h : IsPos idx k) (hlen : a.length < usizeMaxN)
    (hx : getSpec a k = some x) (hf : (f x).head? = some (.error e)) :
    mapIndex (.arr a) idx opt f = .error e := by
  have hin : inside a.length k := by
    unfold getSpec at hx; by_cases hin : inside a.length k
    · exact hin
    · simp [hin] at hx
  have hx' : a[pos a.length k]? = some x := by simpa [getSpec, hin] using hx
  cases h with
  | int =>
    rw [mapIndex_arr_num]
    simp [asPosUsize, asPosUsize_int, absIndex_puOfInt, hin, hx', hf]
  | big =>
    have hb : k.natAbs ≤ usizeMaxN := by unfold inside at hin; omega
    rw [mapIndex_arr_num]
    simp [asPosUsize, asPosUsize_big k hb, absIndex_puOfInt, hin, hx', hf]

/-- **out-of-range positions are refused**: `.[i] |= f` fails (and `.[i]? |= f` returns the input
unchanged) exactly when `has(i)` is false; `f` is not consulted. -/
theorem mapIndex_refuses_out_of_range {idx : Val} {k : Int} (a : List Val) (f : Upd)
    (h : IsPos idx k) (hlen : a.length < usizeMaxN) (hout : ¬ inside a.length k) :
    has (.arr a) idx = .ok (.bool false) ∧
    (∃ e, mapIndex (.arr a) idx .essential f = .error e) ∧
    mapIndex (.arr a) idx .optional f = .ok (.arr a) := by
  refine ⟨by rw [has_iff_points_inside.1 a h hlen]; simp [hout], ?_, ?_⟩
  all_goals
    cases h with
    | int =>
      rw [mapIndex_arr_num]
      simp [asPosUsize, asPosUsize_int, absIndex_puOfInt, hout, Opt.fail]
    | big =>
      rw [mapIndex_arr_num]
      by_cases hb : k.natAbs ≤ usizeMaxN
      · simp [asPosUsize, asPosUsize_big k hb, absIndex_puOfInt, hout, Opt.fail]
      · rw [asPosUsize, asPosUsize_big_beyond k (by omega)]
        cases fixBigintBound
        · simp [Opt.fail]
        · simp [Opt.fail, absIndex_saturated _ a.length hlen]

/-- **`null` and scalars are refused as containers of an update** (`null | .[0] = 1` fails,
although `null | .[0]` reads `null`); with `?` the input is returned unchanged. -/
theorem update_refuses_null_and_scalars (v idx : Val) (r : Range Val) (f : Upd)
    (hv : v = .null ∨ (∃ b, v = .bool b) ∨ (∃ n, v = .num n)) :
    mapIndex v idx .essential f = .error (.typ v "iterable (array or object)") ∧
    mapIndex v idx .optional f = .ok v ∧
    mapValues v .essential f = .error (.typ v "iterable (array or object)") ∧
    mapValues v .optional f = .ok v ∧
    mapRange v r .essential f = .error (.typ v "array") ∧
    mapRange v r .optional f = .ok v := by
  rcases hv with rfl | ⟨b, rfl⟩ | ⟨n, rfl⟩ <;>
    refine ⟨?_, ?_, rfl, rfl, rfl, rfl⟩ <;> cases idx <;> rfl

/-- `.[i] = v` writes `v`, as a corollary of the frame theorem -/
theorem assign_sets_position {idx : Val} {k : Int} (a : List Val) (x v : Val)
    (h : IsPos idx k) (hlen : a.length < usizeMaxN) (hx : getSpec a k = some x) :
    (Part.index idx).update (.arr a) .essential (fun _ => [.ok v]) = .ok (.arr (setSpec a k v)) :=
  (mapIndex_frame a .essential (fun _ => [.ok v]) x v h hlen hx rfl).1

/-! ## slice updates -/

/-- **`.[i:j] |= f` on arrays is the list splice of the first output**: `f` sees the slice; no
output deletes the slice, a non-array output or an error of `f` is an error. -/
theorem mapRange_arr_eq_spliceSpec {bi bj : Option Val} {i j : Option Int} (a : List Val)
    (opt : Opt) (f : Upd) (h1 : IsBound bi i) (h2 : IsBound bj j) :
    mapRange (.arr a) (bi, bj) opt f =
      match (f (.arr (sliceSpec a i j))).head? with
      | none => .ok (.arr (spliceSpec a i j []))
      | some (.ok (.arr y)) => .ok (.arr (spliceSpec a i j y))
      | some (.ok other) => .error (.typ other "array")
      | some (.error e) => .error e := by
  have hw : lo i a.length + (hi j a.length - lo i a.length) = max (lo i a.length) (hi j a.length) := by
    omega
  simp only [mapRange, rangeInt_of h1 h2, skipTake_puRange, firstConv, vecSplice, spliceSpec, sliceSpec, hw]
  cases hh : (f (.arr ((a.drop (lo i a.length)).take (hi j a.length - lo i a.length)))).head? with
  | none => rfl
  | some r =>
    cases r with
    | error e => rfl
    | ok y => cases y <;> rfl

/-- **`.[i:j] |= f` on byte strings is the splice of the bytes** (the imperative
`bytes_splice`: resize / copy_within / copy_from_slice / truncate, computes it) -/
theorem mapRange_bstr_eq_spliceSpec {bi bj : Option Val} {i j : Option Int} (b : List UInt8)
    (opt : Opt) (f : Upd) (h1 : IsBound bi i) (h2 : IsBound bj j) :
    mapRange (.bstr b) (bi, bj) opt f =
      match (f (.bstr (sliceSpec b i j))).head? with
      | none => .ok (.bstr (spliceSpec b i j []))
      | some (.ok (.bstr y)) => .ok (.bstr (spliceSpec b i j y))
      | some (.ok other) => .error (.typ other "string")
      | some (.error e) => .error e := by
  have hle : lo i b.length + (hi j b.length - lo i b.length) ≤ b.length := by
    have := lo_le i b.length; have := hi_le j b.length; omega
  have hw : lo i b.length + (hi j b.length - lo i b.length) = max (lo i b.length) (hi j b.length) := by
    omega
  simp only [mapRange, mapRangeStr, rangeInt_of h1 h2, skipTakeBytes, skipTake_puRange, firstConv,
    spliceSpec, sliceSpec]
  cases hh : (f (.bstr ((b.drop (lo i b.length)).take (hi j b.length - lo i b.length)))).head? with
  | none => simp only [intoByteStr]; rw [bytesSplice_eq _ _ _ _ hle, hw]
  | some r =>
    cases r with
    | error e => rfl
    | ok y =>
      cases y <;> simp only [intoByteStr] <;> first | rfl | (rw [bytesSplice_eq _ _ _ _ hle, hw])

/-- **`.[i:j] |= f` on text strings is the splice of the character sequence**: `f` sees the
character slice, its first output (a text string) replaces exactly those characters. -/
theorem mapRange_tstr_eq_spliceSpec {bi bj : Option Val} {i j : Option Int} (b : List UInt8)
    (opt : Opt) (f : Upd) (h1 : IsBound bi i) (h2 : IsBound bj j) :
    mapRange (.tstr b) (bi, bj) opt f =
      match (f (.tstr (sliceSpec (Utf8.chars b) i j).flatten)).head? with
      | none => .ok (.tstr (spliceSpec (Utf8.chars b) i j []).flatten)
      | some (.ok (.tstr y)) => .ok (.tstr (spliceSpec (Utf8.chars b) i j [y]).flatten)
      | some (.ok other) => .error (.typ other "string")
      | some (.error e) => .error e := by
  generalize hcs : Utf8.chars b = cs
  have hfl : cs.flatten = b := by rw [← hcs]; exact chars_flatten b
  have hlo := lo_le i cs.length
  have hhi := hi_le j cs.length
  -- the byte window
  have hwin : (b.drop (off cs (lo i cs.length))).take (off cs (hi j cs.length) - off cs (lo i cs.length))
      = ((cs.drop (lo i cs.length)).take (hi j cs.length - lo i cs.length)).flatten := by
    rw [← hfl]; exact flatten_window cs _ _
  have hend : off cs (lo i cs.length) + (off cs (hi j cs.length) - off cs (lo i cs.length))
      = off cs (max (lo i cs.length) (hi j cs.length)) := by
    by_cases hc : lo i cs.length ≤ hi j cs.length
    · have := off_mono cs hc
      rw [Nat.max_eq_right hc]; omega
    · have := off_mono cs (show hi j cs.length ≤ lo i cs.length by omega)
      rw [Nat.max_eq_left (by omega)]; omega
  have hle : off cs (lo i cs.length) + (off cs (hi j cs.length) - off cs (lo i cs.length)) ≤ b.length := by
    rw [hend, ← hfl]
    unfold off
    have : (cs.take (max (lo i cs.length) (hi j cs.length))).flatten.length ≤ cs.flatten.length := by
      have h := off_mono cs (show max (lo i cs.length) (hi j cs.length) ≤ cs.length by omega)
      rw [off_all cs cs.length (Nat.le_refl _)] at h
      exact h
    exact this
  have hsplice : ∀ y : List UInt8,
      bytesSplice b (off cs (lo i cs.length)) (off cs (hi j cs.length) - off cs (lo i cs.length)) y
        = (cs.take (lo i cs.length)).flatten ++ y
            ++ (cs.drop (max (lo i cs.length) (hi j cs.length))).flatten := by
    intro y
    rw [bytesSplice_eq _ _ _ _ hle, hend, ← hfl, flatten_take_off, flatten_drop_off]
  have hsk := skipTakeChars_puRange b i j
  rw [hcs] at hsk
  simp only [mapRange, mapRangeStr, rangeInt_of h1 h2, hsk, firstConv, spliceSpec, sliceSpec, hwin]
  cases hh : (f (.tstr ((cs.drop (lo i cs.length)).take (hi j cs.length - lo i cs.length)).flatten)).head? with
  | none => simp only [intoUtf8Str, hsplice]; simp
  | some r =>
    cases r with
    | error e => rfl
    | ok y =>
      cases y <;> simp only [intoUtf8Str] <;> first | rfl | (simp only [hsplice]; simp)

/-- slice updates refuse wrongly typed bounds; with `?` the input is returned unchanged -/
theorem mapRange_refuses_bad_bounds (a : List Val) (x : Val) (bj : Option Val) (f : Upd)
    (hx : (∃ b, x = .bool b) ∨ (∃ g, x = .num (.float g)) ∨ (∃ s, x = .tstr s) ∨ (∃ l, x = .arr l)) :
    mapRange (.arr a) (some x, bj) .essential f = .error (.typ x "integer") ∧
    mapRange (.arr a) (some x, bj) .optional f = .ok (.arr a) := by
  rcases hx with ⟨b, rfl⟩ | ⟨g, rfl⟩ | ⟨s, rfl⟩ | ⟨l, rfl⟩ <;>
    simp [mapRange, rangeInt, rangeBound, asPosUsize, numAsPosUsize, Num.asPosUsize, Except.map, Opt.fail, tyInt]

/-! ## `.[] |= f` -/

/-- **`.[] |= f` on arrays keeps all outputs of `f` per element, in order** (= the manual's
`[.[] | f]`); the first error is the result. -/
theorem mapValues_arr_spec (a : List Val) (opt : Opt) (f : Upd) :
    mapValues (.arr a) opt f = (collect (a.flatMap f)).map .arr ∧
    ((∀ x ∈ a, ∀ r ∈ f x, ∃ y, r = .ok y) →
      mapValues (.arr a) opt f =
        .ok (.arr (a.flatMap fun x => (f x).filterMap okOf))) := by
  refine ⟨rfl, ?_⟩
  intro hall
  have : ∀ r ∈ a.flatMap f, ∃ y, r = .ok y := by
    intro r hr
    obtain ⟨x, hx, hrx⟩ := List.mem_flatMap.mp hr
    exact hall x hx r hrx
  simp only [mapValues, collect_all_ok _ this, Except.map, List.filterMap_flatMap]

/-- **`.[] |= f` on objects**: every entry keeps its key and gets the *first* output of `f` on its
value, entries without output are removed, and the remaining keys keep their relative order. -/
theorem mapValues_obj_spec (o es : Obj.Entries) (opt : Opt) (f : Upd)
    (hd : KeysDistinct o) (hes : mapObjEntries f o = .ok es) :
    mapValues (.obj o) opt f = .ok (.obj es) ∧
    (es.map (·.1)).Sublist (o.map (·.1)) ∧
    (∀ e ∈ es, ∃ old, (e.1, old) ∈ o ∧ (f old).head? = some (.ok e.2)) := by
  obtain ⟨h1, h2⟩ := mapObjEntries_sublist f o es hes
  refine ⟨?_, h1, h2⟩
  simp only [mapValues, hes, Except.map, ofList_distinct es (keysDistinct_of_sublist hd h1)]

/-! ## objects: arbitrary values as keys -/

/-- **`.[k] |= f` on an object with the key present** (any value as key): the entry keeps its
place and its stored key and gets the first output; all keys keep their order; afterwards a
lookup of any key `k'` finds `y` if it finds the same entry as `k`, and what it found before otherwise. -/
theorem mapIndex_obj_present_frame (o : Obj.Entries) (k k0 old y : Val) (i : Nat) (opt : Opt) (f : Upd)
    (hi : objFindIdx o k = some i) (he : o[i]? = some (k0, old)) (hf : (f old).head? = some (.ok y)) :
    mapIndex (.obj o) k opt f = .ok (.obj (o.set i (k0, y))) ∧
    (o.set i (k0, y)).map (·.1) = o.map (·.1) ∧
    (∀ k', Obj.get (o.set i (k0, y)) k' = if objFindIdx o k' = some i then some y else Obj.get o k') := by
  have hkeys := keys_set o i k0 old y he
  refine ⟨?_, hkeys, ?_⟩
  · cases k <;> simp [mapIndex, hi, he, hf]
  · intro k'
    rw [findIdx?_get, findIdx?_get, objFindIdx_congr hkeys k']
    cases hj : objFindIdx o k' with
    | none => simp
    | some j =>
      by_cases hji : j = i
      · subst hji
        have := objFindIdx_lt hj
        simp [this]
      · have : ¬ (some j = some i) := by simpa using hji
        simp [List.getElem?_set_ne (Ne.symm hji), hji]

/-- **`.[k] |= f` with the key absent** appends `k` with the first output of `f` on `null`
(existing entries untouched, in order); without output nothing changes. -/
theorem mapIndex_obj_absent (o : Obj.Entries) (k : Val) (opt : Opt) (f : Upd)
    (hi : objFindIdx o k = none) :
    has (.obj o) k = .ok (.bool false) ∧
    (∀ y, (f .null).head? = some (.ok y) → mapIndex (.obj o) k opt f = .ok (.obj (o ++ [(k, y)]))) ∧
    (f .null = [] → mapIndex (.obj o) k opt f = .ok (.obj o)) := by
  refine ⟨?_, ?_, ?_⟩
  · have : Obj.get o k = none := by rw [findIdx?_get, hi]; rfl
    cases k <;> simp [has, indexOpt, this, Except.map]
  · intro y hf
    cases k <;> simp [mapIndex, hi, hf]
  · intro hf
    cases k <;> simp [mapIndex, hi, hf]

/-- **deleting a key (`del(.[k])`) is `swap_remove`**: the last entry takes the place of the
removed one, so the order of the other keys is *not* preserved in general (the property
excepts deleting updates); the remaining entries are the same entries. -/
theorem mapIndex_obj_delete_is_swap_remove (o : Obj.Entries) (k k0 old : Val) (i : Nat) (opt : Opt) (f : Upd)
    (hi : objFindIdx o k = some i) (he : o[i]? = some (k0, old)) (hf : f old = []) :
    mapIndex (.obj o) k opt f = .ok (.obj (swapRemoveAt o i)) ∧
    (i + 1 = o.length → swapRemoveAt o i = o.dropLast) ∧
    (i + 1 < o.length → ∀ last, o.getLast? = some last →
        swapRemoveAt o i = o.take i ++ [last] ++ (o.drop (i + 1)).dropLast) := by
  refine ⟨?_, ?_, ?_⟩
  · cases k <;> simp [mapIndex, hi, he, hf]
  · intro hlast
    unfold swapRemoveAt
    cases hl : o.getLast? with
    | none => simp [List.getLast?_eq_none_iff] at hl; subst hl; simp at hlast
    | some last => simp [hlast]
  · intro hlt last hl
    unfold swapRemoveAt
    have hne : ¬ (i + 1 = o.length) := by omega
    simp only [hl, beq_iff_eq, hne, if_false]
    rw [List.set_eq_take_append_cons_drop, if_pos (by omega)]
    rw [List.dropLast_append_of_ne_nil (by simp), List.dropLast_cons_of_ne_nil]
    · simp
    · intro hnil
      have : (o.drop (i + 1)).length = 0 := by rw [hnil]; rfl
      simp at this; omega

/-- **the relative order of untouched object keys is preserved under non-deleting updates**, for
any value as key: if the update filter always has an output, the old key sequence is a prefix of
the new one (the updated key stays in place, a new key is appended). -/
theorem untouched_key_order_preserved (o r : Obj.Entries) (k : Val) (opt : Opt) (f : Upd)
    (hne : ∀ x, f x ≠ []) (h : mapIndex (.obj o) k opt f = .ok (.obj r)) :
    o.map (·.1) <+: r.map (·.1) := by
  cases hi : objFindIdx o k with
  | none =>
    cases hf : (f .null).head? with
    | none => exact absurd (List.head?_eq_none_iff.mp hf) (hne _)
    | some res =>
      cases res with
      | error e => exfalso; cases k <;> simp [mapIndex, hi, hf] at h
      | ok y =>
        have := (mapIndex_obj_absent o k opt f hi).2.1 y hf
        rw [this] at h
        cases h
        simp
  | some i =>
    have hlt := objFindIdx_lt hi
    obtain ⟨k0, old⟩ := o[i]
    have he : o[i]? = some (o[i]) := List.getElem?_eq_getElem hlt
    generalize hoi : o[i] = e at he
    obtain ⟨k0, old⟩ := e
    cases hf : (f old).head? with
    | none => exact absurd (List.head?_eq_none_iff.mp hf) (hne _)
    | some res =>
      cases res with
      | error e => exfalso; cases k <;> simp [mapIndex, hi, he, hf] at h
      | ok y =>
        obtain ⟨h1, h2, _⟩ := mapIndex_obj_present_frame o k k0 old y i opt f hi he hf
        rw [h1] at h
        cases h
        rw [h2]
        exact List.prefix_refl _

/-- `length`, `keys`, `.[]` on objects: `length` counts the entries, `keys_unsorted` and `.[]`
list keys and values in insertion order, and (keys pairwise distinct and self-equal, as in any
object without NaN keys) `.[k]` of the `n`-th key is the `n`-th value. -/
theorem keys_values_length_agree_obj (o : Obj.Entries) :
    length (.obj o) = .ok (.num (Num.ofInt o.length)) ∧
    values (.obj o) = .ok (o.map (·.2)) ∧
    keysUnsorted (.obj o) = .ok (.arr (o.map (·.1))) ∧
    (KeysDistinct o → (∀ e ∈ o, Obj.sameKey e.1 e.1 = true) →
      ∀ e ∈ o, index (.obj o) e.1 = .ok e.2 ∧ has (.obj o) e.1 = .ok (.bool true)) := by
  refine ⟨rfl, rfl, rfl, ?_⟩
  intro hd hrefl e he
  have hget : Obj.get o e.1 = some e.2 := by
    unfold Obj.get
    induction o with
    | nil => cases he
    | cons x xs ih =>
      obtain ⟨kx, vx⟩ := x
      unfold KeysDistinct at hd
      rw [List.pairwise_cons] at hd
      rcases List.mem_cons.mp he with rfl | hmem
      · simp [List.find?_cons, hrefl _ (List.mem_cons_self)]
      · have hne : Obj.sameKey e.1 kx = false := hd.1 e hmem
        simp only [List.find?_cons, hne]
        exact ih hd.2 (fun e he => hrefl e (List.mem_cons_of_mem _ he)) hmem
  obtain ⟨k, v⟩ := e
  simp only at hget
  constructor <;> cases k <;> simp [index, has, indexOpt, hget, Except.map]

/-! ## the manual's `slice_upd`, `index_upd`, `iter_upd` (docs/advanced.dj) on lists -/

/-- **the manual's `slice_upd` is the splice** — when the normalised bounds do not cross. -/
theorem manual_slice_upd_eq_spliceSpec {α : Type} (l ys : List α) (i j : Int)
    (h : norm i l.length ≤ norm j l.length) :
    manualSliceUpd l i j ys = spliceSpec l (some i) (some j) ys := by
  unfold manualSliceUpd spliceSpec sliceSpec lo hi
  have hj := norm_le j l.length
  simp only [List.drop_zero, Nat.sub_zero, Nat.max_eq_right h]
  rw [List.take_of_length_le (l := l.drop (norm j l.length)) (by simp)]

/-- Finding (documentation): for crossing bounds the manual's `slice_upd` *duplicates* the
elements between the bounds, where the implementation (and Python, and jq) insert at the lower
bound: `[1,2,3,4] | .[3:1] |= [9]` is `[1,2,3,9,4]`, the manual's definition gives `[1,2,3,9,2,3,4]`. -/
theorem manual_slice_upd_crossing_differs :
    manualSliceUpd [1, 2, 3, 4] 3 1 [9] = [1, 2, 3, 9, 2, 3, 4] ∧
    spliceSpec [1, 2, 3, 4] (some 3) (some 1) [9] = [1, 2, 3, 9, 4] := by
  decide

/-- **the manual's `index_upd` on arrays is `l[i] = y` / `del l[i]`** for an index inside, and
fails outside. -/
theorem manual_index_upd_eq_setSpec {α : Type} (l : List α) (i : Int) :
    (inside l.length i → ∀ y, manualIndexUpd l i (some y) = some (setSpec l i y)) ∧
    (inside l.length i → manualIndexUpd l i none = some (delSpec l i)) ∧
    (¬ inside l.length i → ∀ y, manualIndexUpd l i y = none) := by
  have key : ∀ (p : Nat), p < l.length → ∀ (i' : Int), i' = (p : Int) → ∀ (y : Option α),
      sliceSpec l none (some i') ++ y.toList ++ sliceSpec l (some (i' + 1)) none
        = l.take p ++ y.toList ++ l.drop (p + 1) := by
    intro p hp i' hi' y
    subst hi'
    have h1 : norm (p : Int) l.length = p := by unfold norm; split <;> omega
    have h2 : norm ((p : Int) + 1) l.length = p + 1 := by unfold norm; split <;> omega
    simp only [sliceSpec, lo, hi, h1, h2, List.drop_zero, Nat.sub_zero]
    rw [List.take_of_length_le (l := l.drop (p + 1)) (by simp)]
  refine ⟨?_, ?_, ?_⟩
  · intro hin y
    have hp := pos_lt hin
    unfold inside at hin
    unfold manualIndexUpd setSpec
    by_cases h0 : 0 ≤ i
    · have hpi : i = ((pos l.length i : Nat) : Int) := by unfold pos; rw [if_pos h0]; omega
      rw [if_pos ⟨h0, hin.2⟩, key _ hp i hpi (some y)]
      simp [List.set_eq_take_append_cons_drop, hp]
    · have hpi : (l.length : Int) + i = ((pos l.length i : Nat) : Int) := by
        unfold pos; rw [if_neg h0]; omega
      rw [if_neg (by omega), if_pos ⟨hin.1, by omega⟩, key _ hp _ hpi (some y)]
      simp [List.set_eq_take_append_cons_drop, hp]
  · intro hin
    have hp := pos_lt hin
    unfold inside at hin
    unfold manualIndexUpd delSpec
    by_cases h0 : 0 ≤ i
    · have hpi : i = ((pos l.length i : Nat) : Int) := by unfold pos; rw [if_pos h0]; omega
      rw [if_pos ⟨h0, hin.2⟩, key _ hp i hpi none]
      simp [List.eraseIdx_eq_take_drop_succ]
    · have hpi : (l.length : Int) + i = ((pos l.length i : Nat) : Int) := by
        unfold pos; rw [if_neg h0]; omega
      rw [if_neg (by omega), if_pos ⟨hin.1, by omega⟩, key _ hp _ hpi none]
      simp [List.eraseIdx_eq_take_drop_succ]
  · intro hout y
    unfold inside at hout
    unfold manualIndexUpd
    rw [if_neg (by omega), if_neg (by omega)]

/-- **the manual's `iter_upd` on objects** (`with_entries(.value |= u)`) agrees with `.[] |= u`
when `u` has an output on every value: all keys are kept in order with the first outputs.
(Without output the real update removes the entry, the manual's code leaves the key with `null`:
documentation finding, see notes.) -/
theorem manual_iter_upd_obj (o : Obj.Entries) (f : Upd)
    (hall : ∀ e ∈ o, ∃ y, (f e.2).head? = some (.ok y)) :
    ∃ es, mapObjEntries f o = .ok es ∧ es.map (·.1) = o.map (·.1) ∧
      ∀ (n : Nat) (e : Val × Val), es[n]? = some e →
        ∃ old : Val × Val, o[n]? = some old ∧ old.1 = e.1 ∧ (f old.2).head? = some (.ok e.2) := by
  induction o with
  | nil => exact ⟨[], rfl, rfl, by simp⟩
  | cons x xs ih =>
    obtain ⟨k, v⟩ := x
    obtain ⟨y, hy⟩ := hall (k, v) (by simp)
    obtain ⟨es, h1, h2, h3⟩ := ih (fun e he => hall e (List.mem_cons_of_mem _ he))
    refine ⟨(k, y) :: es, by simp [mapObjEntries, hy, h1], by simp [h2], ?_⟩
    intro n e hn
    cases n with
    | zero =>
      simp only [List.getElem?_cons_zero, Option.some.injEq] at hn
      subst hn
      exact ⟨(k, v), rfl, rfl, hy⟩
    | succ n => simpa using h3 n e (by simpa using hn)

/-! ## concrete instances (the hypotheses above are satisfiable) -/

example : sliceSpec [10, 11, 12, 13] (some 1) (some (-1)) = [11, 12] := by decide
example : sliceSpec [10, 11, 12, 13] (some (-6)) none = [10, 11, 12, 13] := by decide
example : getSpec [10, 11, 12] (-1) = some 12 ∧ getSpec [10, 11, 12] 3 = none ∧ getSpec [10, 11, 12] (-4) = none := by decide
example : spliceSpec [1, 2, 3, 4] (some 1) (some (-1)) [9] = [1, 9, 4] := by decide
example : IsBound (some (.num (.int (-2)))) (some (-2)) := .int _
example : IsBound (some (.num (.big 18446744073709551615))) (some 18446744073709551615) := .big _ (by decide)
example : IsPos (.num (.big (-1))) (-1) := .big _
example : getSpec [Val.null, Val.bool true] (-1) = some (Val.bool true) := by
  simp [getSpec, inside, pos]
example : KeysDistinct [(Val.null, Val.null)] := by simp [KeysDistinct]

end Jaq.C10
