import JaqVerif.C13.Filters
import JaqVerif.C13.Consumers

namespace Jaq.C13.Props

theorem tostring_tobytes (s : Bytes) : (toBytes (.tstr s)).map Val.tstr = some (.tstr s) := by
  simp [toBytes, toBytesF, Val.size]

end Jaq.C13.Props
