/-
  C13 — string codecs invert exactly; positions count characters; escaping is safe.

  All statements are about the impl-models of `JaqVerif/C13/*.lean` (tied to the Rust code by
  the regenerated per-byte tables `Gen/C13Tables.lean` and by the correspondence run of
  `checks/c13.py`) and quantify over ALL byte strings: any length, any Unicode, control
  characters, invalid UTF-8.  `Bytes = List UInt8`; a "character" is a chunk of `Jaq.Utf8.chars`
  (valid scalar value, or a maximal invalid sequence counting as ONE position, like bstr).

  Consumers (`shWords`, `csvRead`, `tsvReadRow`, `htmlDecode`, `percentDecode`) are independent
  models written from the consumers' specifications (C13/Consumers.lean, C13/Readers.lean).
-/
import JaqVerif.Lemmas.C13Rows
import JaqVerif.Lemmas.C13B64
import JaqVerif.Lemmas.C13Pos
import JaqVerif.Lemmas.C13Urid
import JaqVerif.C13.Filters

namespace Jaq.C13.Props
open Jaq Jaq.C13

/-! ## 1. codecs invert exactly -/

/-- `explode | implode` returns every string unchanged (invalid bytes travel as negative numbers) -/
theorem implode_explode (s : Bytes) : implode (explode s) = some s :=
  implode_explode_all s

/-- `tobytes | tostring` returns every text string unchanged (both only re-tag the same bytes) -/
theorem tostring_tobytes (s : Bytes) :
    (toBytes (.tstr s)).bind (fun b => textOf (.bstr b)) = some s := by
  simp [toBytes, toBytesF, Val.size, textOf]

/-- `@base64 | @base64d` returns every string unchanged -/
theorem base64d_base64 (s : Bytes) : b64Decode (b64Encode s) = some s :=
  b64Decode_encode s

/-- `@uri | @urid` returns every string unchanged -/
theorem urid_uri (s : Bytes) : urid (uri s) = s :=
  scan_flatMap' uridStep uriEsc uriEsc_ne_nil uridStep_uriEsc s

/-- `@html | @htmld` returns every string unchanged -/
theorem htmld_html (s : Bytes) : htmld (html s) = s :=
  scan_flatMap' htmldStep htmlEsc htmlEsc_ne_nil htmldStep_htmlEsc s

/-- `split($x) | join($x)` returns every string unchanged, for EVERY separator: a non-empty one
(leftmost non-overlapping occurrences), the empty one (split into characters), and also for the
empty input (which splits into `[]`, joined to `""`) -/
theorem join_split (s sep : Bytes) : joinBytes sep (splitBytes s sep) = s :=
  join_split_all s sep

/-- `ascii_downcase` / `ascii_upcase` keep the length and change nothing but ASCII letters; in
particular every byte ≥ 0x80 (every byte of a non-ASCII character or of an invalid sequence)
stays where it is -/
theorem ascii_case_keeps_non_ascii (s : Bytes) :
    asciiDown s = s.map downByte ∧ asciiUp s = s.map upByte ∧
    (∀ b : UInt8, ¬ (65 ≤ b.toNat ∧ b.toNat ≤ 90) → downByte b = b) ∧
    (∀ b : UInt8, ¬ (97 ≤ b.toNat ∧ b.toNat ≤ 122) → upByte b = b) ∧
    (∀ (i : Nat) (b : UInt8), s[i]? = some b → 128 ≤ b.toNat → (asciiDown s)[i]? = some b ∧ (asciiUp s)[i]? = some b) := by
  refine ⟨asciiDown_eq_map s, asciiUp_eq_map s, ?_, ?_, ?_⟩
  · intro b h
    unfold downByte
    split
    · rename_i hc; simp only [Bool.and_eq_true, decide_eq_true_eq] at hc; exact absurd hc h
    · rfl
  · intro b h
    unfold upByte
    split
    · rename_i hc; simp only [Bool.and_eq_true, decide_eq_true_eq] at hc; exact absurd hc h
    · rfl
  · intro i b hi hb
    rw [asciiDown_eq_map, asciiUp_eq_map]
    simp only [List.getElem?_map, hi, Option.map_some, Option.some.injEq]
    constructor
    · unfold downByte
      split
      · rename_i hc; simp only [Bool.and_eq_true, decide_eq_true_eq] at hc; omega
      · rfl
    · unfold upByte
      split
      · rename_i hc; simp only [Bool.and_eq_true, decide_eq_true_eq] at hc; omega
      · rfl

/-! ## 2. decoders reject rather than truncate -/

/-- `@base64d` accepts EXACTLY the encoder's image: whatever it accepts is the canonical encoding
of its result — no symbol is ignored, nothing after a padding is dropped, no missing padding or
stray bits are tolerated; everything else is an error.  `@urid` never drops anything: input without
a well-formed `%XX` escape comes back unchanged. -/
theorem decoders_reject_malformed :
    (∀ t s : Bytes, b64Decode t = some s → t = b64Encode s) ∧
    (∀ t : Bytes, (∀ s, t ≠ b64Encode s) → b64Decode t = none) ∧
    (∀ s : Bytes, noEscape s = true → urid s = s) := by
  refine ⟨fun t s h => b64Decode_only_encodings h, ?_, fun s h => urid_noEscape s.length s (Nat.le_refl _) h⟩
  intro t h
  cases hd : b64Decode t with
  | none => rfl
  | some s => exact absurd (b64Decode_only_encodings hd) (h s)

example : b64Decode [81, 81] = none ∧ b64Decode [81, 82, 61, 61] = none ∧ b64Decode [81, 81, 61, 61, 81, 81, 61, 61] = none ∧
    b64Decode [81, 32, 81, 61, 61] = none ∧ b64Decode [81, 81, 61, 61] = some [65] := by decide

example : urid [37, 122, 122, 37, 52] = [37, 122, 122, 37, 52] := by decide

/-! ## 3. positions count characters -/

/-- `length` is the number of characters; `.[i:j]` (0 ≤ i ≤ j) is exactly the characters number
`i … j-1`; every index reported by `indices($y)` is a character position (`< length`) at whose
byte offset the bytes of `$y` occur -/
theorem length_slice_indices_count_chars (s y : Bytes) :
    strLength s = (Utf8.chars s).length ∧
    (∀ i j : Nat, i ≤ j →
      sliceChars s (some (Int.ofNat i)) (some (Int.ofNat j)) = (((Utf8.chars s).drop i).take (j - i)).flatten) ∧
    (∀ k ∈ indicesStr s y, k < strLength s ∧ y.isPrefixOf (s.drop (boundary s k)) = true) :=
  ⟨strLength_eq_chars s, fun i j h => sliceChars_eq s i j h, fun k hk => indicesStr_sound s y k hk⟩

/- FULL STATEMENT (not proved): for every `k ∈ indicesStr s y`: `sliceChars s k (k + strLength y) = y`
   (the manual's `.[i:][:$x|length] == $x`).  It is FALSE for the code as it is when `y` ends in a
   truncated UTF-8 sequence: `"€" | indices("\xE2")` yields `[0]` but `"€"[0:1] = "€" ≠ "\xE2"`
   (finding `c13-prop:indices_slice:needle-ends-in-truncated-sequence`). -/
example : indicesStr [0xE2, 0x82, 0xAC] [0xE2] = [0] ∧
    sliceChars [0xE2, 0x82, 0xAC] (some 0) (some 1) = [0xE2, 0x82, 0xAC] := by decide

/-- the offset lookup of `Match::new` (repaired, stateless version) is total on character
boundaries and inverts `boundary` -/
theorem match_offset_total (s : Bytes) (k : Nat) (hk : k ≤ (Utf8.chars s).length) :
    charOfByte s (boundary s k) = some k :=
  charOfByte_boundary s k hk

/- The code AS IT IS shares one forward-only iterator between all capture groups of all matches
   (`ByteChar`), so a group that starts before the previously looked-up group makes
   `char_of_byte(..).unwrap()` panic: `"ba" | match("(?:(a)|(b))+")` (groups: whole 0..2, (a) 1..2,
   (b) 0..1).  Finding `c13-rx-panic:char_of_byte-unwrap`. -/
example : regexParts [98, 97] false false false true [[⟨0, 2, none⟩, ⟨1, 2, none⟩, ⟨0, 1, none⟩]] = none := by decide

/-- `.[m.offset : m.offset + m.length] == m.string`: for a byte range `[start, stop)` that lies on
character boundaries `i ≤ j` of the subject, `Match::new` (first lookup on a fresh iterator, or the
repaired lookup) yields offset `i`, length `j - i`, and slicing the subject by these character
positions gives back exactly the matched bytes.
PARTIAL: the hypothesis `hstable` (chunking the matched substring alone gives the same characters as
inside the subject) always holds for bstr's decoder — a character's extent depends on at most one
byte after it, and only by its absence or invalidity — but that truncation lemma is not proved here. -/
theorem match_slice_eq_string_partial (s : Bytes) (c : Cap) (i j : Nat) (hij : i ≤ j)
    (hj : j ≤ (Utf8.chars s).length) (hs : c.start = boundary s i) (he : c.stop = boundary s j)
    (hstable : Utf8.chars ((s.drop c.start).take (c.stop - c.start)) = ((Utf8.chars s).drop i).take (j - i)) :
    ∃ m, matchNewFixed s c = some m ∧ (matchNew s (byteCharNew s) c).1 = some m ∧
      m.offset = i ∧ m.length = j - i ∧
      sliceChars s (some (Int.ofNat m.offset)) (some (Int.ofNat (m.offset + m.length))) = m.string := by
  have hoff : charOfByte s c.start = some i := by rw [hs]; exact charOfByte_boundary s i (by omega)
  have hstr : (s.drop c.start).take (c.stop - c.start) = (((Utf8.chars s).drop i).take (j - i)).flatten := by
    rw [hs, he]
    have := flatten_slice (Utf8.chars s) i j hij
    rw [chars_flatten] at this
    exact this
  have hlen : strLength ((s.drop c.start).take (c.stop - c.start)) = j - i := by
    rw [strLength_eq_chars, hstable]
    simp only [List.length_take, List.length_drop]
    omega
  refine ⟨{ offset := i, length := j - i, string := (s.drop c.start).take (c.stop - c.start), name := c.name }, ?_, ?_, rfl, rfl, ?_⟩
  · simp only [matchNewFixed, hoff, Option.map_some, hlen]
  · have h2 : (charOfByteStateful (byteCharNew s) c.start).1 = some i := hoff
    simp only [matchNew]
    generalize hcb : charOfByteStateful (byteCharNew s) c.start = r at h2
    obtain ⟨o, bc'⟩ := r
    simp only at h2
    subst h2
    simp only [Option.map_some, hlen]
  · simp only
    have hji : i + (j - i) = j := by omega
    rw [hji, sliceChars_eq s i j hij, hstr]

example : -- "a€b": the match "€b" = bytes 1..5 = characters 1..3
    let s : Bytes := [97, 0xE2, 0x82, 0xAC, 98]
    boundary s 1 = 1 ∧ boundary s 3 = 5 ∧
    Utf8.chars ((s.drop 1).take 4) = ((Utf8.chars s).drop 1).take 2 ∧
    (matchNew s (byteCharNew s) ⟨1, 5, none⟩).1 = some ⟨1, 2, [0xE2, 0x82, 0xAC, 98], none⟩ := by decide

/-- the unmatched parts from `split_matches` / `splits` interleaved with the matches reassemble
the subject exactly, for every flag combination (`g` global, `n` skip empty matches), provided the
engine's matches are ordered and do not overlap -/
theorem splits_interleave_reassemble (s : Bytes) (g n : Bool) (caps : List (List Cap)) (parts : List Part)
    (hord : capsOrdered s.length 0 caps) (h : regexParts s g n true true caps = some parts) :
    (parts.map Part.text).flatten = s := by
  have := regexLoop_reassemble s g n caps (byteCharNew s) 0 parts hord h
  simpa using this

example : capsOrdered 5 0 [[⟨1, 2, none⟩], [⟨2, 2, none⟩], [⟨4, 5, none⟩]] := by
  simp [capsOrdered]

/-! ## 4. escaping is safe for the consumers -/

/-- a POSIX shell splits `@sh` output into exactly the original arguments — strings byte for byte
(any byte: quotes, `$`, backquotes, newlines, globs, invalid UTF-8), null / booleans / numbers as
their printed text — and meets nothing it would interpret -/
theorem shWords_sh (xs : List ShArg) (h : ∀ x ∈ xs, x.ok = true) :
    shWords (sh xs) = some (xs.map ShArg.text) :=
  shLex_sh xs h

example : (ShArg.raw [45, 49, 50]).ok = true ∧ (ShArg.raw nullB).ok = true ∧ (ShArg.raw trueB).ok = true ∧
    (ShArg.str [39, 36, 40, 10, 96, 0xFF]).ok = true := by decide

/-- … also inside format strings (`@sh "echo \(f) …"`): wherever the shell is outside quotes —
whatever word `cur` is in progress, whatever text `rest` follows — the interpolated `'…'` adds
exactly the original bytes to the current word and leaves the shell outside quotes -/
theorem sh_in_format_string (s : Bytes) (cur : Option Bytes) (rest : Bytes) :
    shLex false cur (shQuote s ++ rest) = shLex false (some (cur.getD [] ++ s)) rest :=
  shLex_shQuote s cur rest

/-- an RFC 4180 reader gets back exactly one record with exactly the original fields, strings
(quoted) byte for byte — commas, quotes, CR, LF included — and the other fields as their text.
(`[]` and `[null]` both print as the empty line, which has no record: excluded by `hne`.) -/
theorem csvRead_csv (row : List Field) (hok : ∀ f ∈ row, f.csvOk = true) (hne : csvRow row ≠ []) :
    csvRead (csvRow row) = some [row.map Field.csvView] :=
  csvRead_csvRow row hok hne

example : (Field.num [45, 49, 55]).csvOk = true ∧ (Field.str [44, 34, 13, 10]).csvOk = true ∧
    csvRow [.str [44, 34], .null, .bool true] ≠ [] := by decide

/-- a TSV reader gets back exactly the original fields of a non-empty row as text: tabs, line feeds,
CR, backslashes and NUL inside strings are restored, and no field boundary is added or lost -/
theorem tsvRead_tsv (row : List Field) (hne : row ≠ []) (hok : ∀ f ∈ row, f.tsvOk = true) :
    tsvReadRow (tsvRow row) = row.map Field.rawText ∧ (10 : UInt8) ∉ tsvRow row := by
  refine ⟨tsvReadRow_tsvRow row hne hok, ?_⟩
  -- no raw line feed: a row never spans two records
  have hfield : ∀ f ∈ row, (10 : UInt8) ∉ tsvField f := by
    intro f hf
    have := hok f hf
    cases f with
    | null => simp [tsvField, Field.rawText]
    | bool b => cases b <;> decide
    | num t =>
      simp only [Field.tsvOk, Bool.and_eq_true, Bool.not_eq_true', List.contains_eq_mem, decide_eq_false_iff_not] at this
      exact this.1.2
    | str s => exact (tsvEscape_no_tab s).2
  unfold tsvRow
  have hj : ∀ xs : List Bytes, (∀ x ∈ xs, (10 : UInt8) ∉ x) → (10 : UInt8) ∉ joinWith [9] xs := by
    intro xs
    induction xs with
    | nil => intro _; simp [joinWith]
    | cons x t ih =>
      intro hx
      cases t with
      | nil => simpa [joinWith] using hx x (by simp)
      | cons y r =>
        rw [joinWith_cons_cons]
        simp only [List.mem_append, List.mem_singleton, not_or]
        refine ⟨⟨hx x (by simp), by decide⟩, ih (fun z hz => hx z (by simp only [List.mem_cons] at hz ⊢; right; exact hz))⟩
  apply hj
  intro x hx
  obtain ⟨f, hf, rfl⟩ := List.mem_map.mp hx
  exact hfield f hf

/-- an HTML entity decoder recovers exactly the original string from `@html` output, and none of
`<` `>` `'` `"` survives in it (`&` only as the first byte of one of the five references) -/
theorem htmlDecode_html (s : Bytes) :
    htmlDecode (html s) = s ∧ ∀ c ∈ html s, c ≠ 60 ∧ c ≠ 62 ∧ c ≠ 39 ∧ c ≠ 34 := by
  refine ⟨scan_flatMap' htmlDecodeStep htmlEsc htmlEsc_ne_nil htmlDecodeStep_htmlEsc s, ?_⟩
  intro c hc
  unfold html at hc
  obtain ⟨b, _, hb⟩ := List.mem_flatMap.mp hc
  exact htmlEsc_no_meta b c hb

/-- an RFC 3986 percent-decoder recovers exactly the original string from `@uri` output, and the
output consists of unreserved bytes (`A-Za-z0-9-._~`) and `%` only -/
theorem percentDecode_uri (s : Bytes) :
    percentDecode (uri s) = s ∧ ∀ c ∈ uri s, isUnreserved c = true ∨ c = 37 :=
  ⟨scan_flatMap' percentStep uriEsc uriEsc_ne_nil percentStep_uriEsc s, uri_bytes s⟩

end Jaq.C13.Props
