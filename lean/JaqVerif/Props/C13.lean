/-
  C13 — string codecs invert exactly; positions count characters; escaping is safe.

  All statements are about the impl-models of `JaqVerif/C13/*.lean` (tied to the Rust code by
  the regenerated per-byte tables `Gen/C13Tables.lean` and by the correspondence run of
  `checks/c13.py`) and quantify over ALL byte strings: any length, any Unicode, control
  characters, invalid UTF-8.  `Bytes = List UInt8`; a "character" is a chunk of `Jaq.Utf8.chars`
  (valid scalar value, or a maximal invalid sequence counting as ONE position, like bstr).

  Consumers (`shWords`, `csvRead`, `tsvReadRow`, `htmlDecode`, `percentDecode`) are independent
  models written from the consumers' specifications (C13/Consumers.lean, C13/Readers.lean).
-/
import JaqVerif.Lemmas.C13Rows
import JaqVerif.Lemmas.C13B64
import JaqVerif.Lemmas.C13Pos
import JaqVerif.Lemmas.C13Regex
import JaqVerif.Lemmas.C13Restart
import JaqVerif.Lemmas.C13Json
import JaqVerif.Lemmas.C13Fmt
import JaqVerif.Lemmas.C13Urid
import JaqVerif.C13.Filters

namespace Jaq.C13.Props
open Jaq Jaq.C13

/-! ## 1. codecs invert exactly -/

/-- `explode | implode` returns every string unchanged (invalid bytes travel as negative numbers) -/
theorem implode_explode (s : Bytes) : implode (explode s) = some s :=
  implode_explode_all s

/-- `tobytes | tostring` returns every text string unchanged (both only re-tag the same bytes) -/
theorem tostring_tobytes (s : Bytes) :
    (toBytes (.tstr s)).bind (fun b => textOf (.bstr b)) = some s := by
  simp [toBytes, toBytesF, Val.size, textOf]

/-- `@base64 | @base64d` returns every string unchanged -/
theorem base64d_base64 (s : Bytes) : b64Decode (b64Encode s) = some s :=
  b64Decode_encode s

/-- `@uri | @urid` returns every string unchanged -/
theorem urid_uri (s : Bytes) : urid (uri s) = s :=
  scan_flatMap' uridStep uriEsc uriEsc_ne_nil uridStep_uriEsc s

/-- `@html | @htmld` returns every string unchanged -/
theorem htmld_html (s : Bytes) : htmld (html s) = s :=
  scan_flatMap' htmldStep htmlEsc htmlEsc_ne_nil htmldStep_htmlEsc s

/-- `split($x) | join($x)` returns every string unchanged, for EVERY separator: a non-empty one
(leftmost non-overlapping occurrences), the empty one (split into characters), and also for the
empty input (which splits into `[]`, joined to `""`) -/
theorem join_split (s sep : Bytes) : joinBytes sep (splitBytes s sep) = s :=
  join_split_all s sep

/-- `ascii_downcase` / `ascii_upcase` keep the length and change nothing but ASCII letters; in
particular every byte ≥ 0x80 (every byte of a non-ASCII character or of an invalid sequence)
stays where it is -/
theorem ascii_case_keeps_non_ascii (s : Bytes) :
    asciiDown s = s.map downByte ∧ asciiUp s = s.map upByte ∧
    (∀ b : UInt8, ¬ (65 ≤ b.toNat ∧ b.toNat ≤ 90) → downByte b = b) ∧
    (∀ b : UInt8, ¬ (97 ≤ b.toNat ∧ b.toNat ≤ 122) → upByte b = b) ∧
    (∀ (i : Nat) (b : UInt8), s[i]? = some b → 128 ≤ b.toNat → (asciiDown s)[i]? = some b ∧ (asciiUp s)[i]? = some b) := by
  refine ⟨asciiDown_eq_map s, asciiUp_eq_map s, ?_, ?_, ?_⟩
  · intro b h
    unfold downByte
    split
    · rename_i hc; simp only [Bool.and_eq_true, decide_eq_true_eq] at hc; exact absurd hc h
    · rfl
  · intro b h
    unfold upByte
    split
    · rename_i hc; simp only [Bool.and_eq_true, decide_eq_true_eq] at hc; exact absurd hc h
    · rfl
  · intro i b hi hb
    rw [asciiDown_eq_map, asciiUp_eq_map]
    simp only [List.getElem?_map, hi, Option.map_some, Option.some.injEq]
    constructor
    · unfold downByte
      split
      · rename_i hc; simp only [Bool.and_eq_true, decide_eq_true_eq] at hc; omega
      · rfl
    · unfold upByte
      split
      · rename_i hc; simp only [Bool.and_eq_true, decide_eq_true_eq] at hc; omega
      · rfl

/-! ## 2. decoders reject rather than truncate -/

/-- `@base64d` accepts EXACTLY the encoder's image: whatever it accepts is the canonical encoding
of its result — no symbol is ignored, nothing after a padding is dropped, no missing padding or
stray bits are tolerated; everything else is an error.  `@urid` never drops anything: input without
a well-formed `%XX` escape comes back unchanged. -/
theorem decoders_reject_malformed :
    (∀ t s : Bytes, b64Decode t = some s → t = b64Encode s) ∧
    (∀ t : Bytes, (∀ s, t ≠ b64Encode s) → b64Decode t = none) ∧
    (∀ s : Bytes, noEscape s = true → urid s = s) := by
  refine ⟨fun t s h => b64Decode_only_encodings h, ?_, fun s h => urid_noEscape s.length s (Nat.le_refl _) h⟩
  intro t h
  cases hd : b64Decode t with
  | none => rfl
  | some s => exact absurd (b64Decode_only_encodings hd) (h s)

example : b64Decode [81, 81] = none ∧ b64Decode [81, 82, 61, 61] = none ∧ b64Decode [81, 81, 61, 61, 81, 81, 61, 61] = none ∧
    b64Decode [81, 32, 81, 61, 61] = none ∧ b64Decode [81, 81, 61, 61] = some [65] := by decide

example : urid [37, 122, 122, 37, 52] = [37, 122, 122, 37, 52] := by decide

/-! ## 3. positions count characters -/

/-- `length` is the number of characters; `.[i:j]` (0 ≤ i ≤ j) is exactly the characters number
`i … j-1`; every index reported by `indices($y)` is a character position (`< length`) at whose
byte offset the bytes of `$y` occur -/
theorem length_slice_indices_count_chars (s y : Bytes) :
    strLength s = (Utf8.chars s).length ∧
    (∀ i j : Nat, i ≤ j →
      sliceChars s (some (Int.ofNat i)) (some (Int.ofNat j)) = (((Utf8.chars s).drop i).take (j - i)).flatten) ∧
    (∀ k ∈ indicesStr s y, k < strLength s ∧ y.isPrefixOf (s.drop (boundary s k)) = true) :=
  ⟨strLength_eq_chars s, fun i j h => sliceChars_eq s i j h, fun k hk => indicesStr_sound s y k hk⟩

/- The code BEFORE the repair 4df8bf5 (`indicesStr`, model switch `indicesRepaired = false`) violated
   the slice equation when `y` ends in a truncated UTF-8 sequence: `"€" | indices("\xE2")` gave `[0]`
   but `"€"[0:1] = "€" ≠ "\xE2"` (finding `c13-prop:indices_slice:needle-ends-in-truncated-sequence`). -/
example : indicesStr [0xE2, 0x82, 0xAC] [0xE2] = [0] ∧ indicesStrRepaired [0xE2, 0x82, 0xAC] [0xE2] = [] ∧
    sliceChars [0xE2, 0x82, 0xAC] (some 0) (some 1) = [0xE2, 0x82, 0xAC] := by decide

/-- **`indices` at full strength** (the code as repaired, which is what the filter runs): for ALL
text strings `s` and ALL non-empty needles `y` — any Unicode, invalid UTF-8 on either side — and
every `k`:

    `k ∈ (s | indices(y))`   ↔   `s[k:][:y|length] == y`

with positions and lengths counted in characters (bstr chunks; an invalid sequence = one position);
`.[k:][:n]` is also `.[k:k+n]`.  (Stronger than round 1's third conjunct of
`length_slice_indices_count_chars`, which only said "the bytes of `y` start at position `k`".)
For the empty needle jaq answers `[]` (the equation is then true for every `k`; no finite answer
could list them). -/
theorem indices_iff_slice (s y : Bytes) (hy : y ≠ []) (k : Nat) :
    filterRun "indices" (.tstr s) [.tstr y] = .ok (natArr (indicesStrRepaired s y)) ∧
    (k ∈ indicesStrRepaired s y ↔
      sliceChars (sliceChars s (some (Int.ofNat k)) none) none (some (Int.ofNat (strLength y))) = y) ∧
    sliceChars (sliceChars s (some (Int.ofNat k)) none) none (some (Int.ofNat (strLength y)))
      = sliceChars s (some (Int.ofNat k)) (some (Int.ofNat (k + strLength y))) ∧
    indicesStrRepaired s [] = [] := by
  refine ⟨rfl, Jaq.C13.indices_iff_slice s y hy k, ?_, by simp [indicesStrRepaired, indicesStr]⟩
  rw [slice_slice_eq, sliceChars_eq s k (k + strLength y) (by omega)]
  congr 3; omega

example : indicesStrRepaired [97, 0xE2, 0x82, 0xAC, 97, 0xFF, 97] [97] = [0, 2, 4] ∧   -- "a€a\xFFa" | indices("a")
    indicesStrRepaired [0xE2, 0x82, 0xE2, 0x82, 97] [0xE2, 0x82] = [0, 1] := by decide     -- truncated sequences as needle

/-- the offset lookup of `Match::new` (repaired, stateless version) is total on character
boundaries and inverts `boundary` -/
theorem match_offset_total (s : Bytes) (k : Nat) (hk : k ≤ (Utf8.chars s).length) :
    charOfByte s (boundary s k) = some k :=
  charOfByte_boundary s k hk

/- The code AS IT IS shares one forward-only iterator between all capture groups of all matches
   (`ByteChar`), so a group that starts before the previously looked-up group makes
   `char_of_byte(..).unwrap()` panic: `"ba" | match("(?:(a)|(b))+")` (groups: whole 0..2, (a) 1..2,
   (b) 0..1).  Finding `c13-rx-panic:char_of_byte-unwrap`. -/
example : regexParts [98, 97] false false false true [[⟨0, 2, none⟩, ⟨1, 2, none⟩, ⟨0, 1, none⟩]] = none := by decide

/-- `.[m.offset : m.offset + m.length] == m.string`: for a byte range `[start, stop)` that lies on
character boundaries `i ≤ j` of the subject, `Match::new` (first lookup on a fresh iterator, or the
repaired lookup) yields offset `i`, length `j - i`, and slicing the subject by these character
positions gives back exactly the matched bytes.
ROUND 2: replaces `match_slice_eq_string_partial`; its hypothesis `hstable` is now PROVED
(`chars_substring`, from the truncation lemma `decode1_take`: cutting the input at or after the end
of the first character does not change what `Utf8.decode1` returns). -/
theorem match_slice_eq_string (s : Bytes) (c : Cap) (i j : Nat) (hij : i ≤ j)
    (hj : j ≤ (Utf8.chars s).length) (hs : c.start = boundary s i) (he : c.stop = boundary s j) :
    ∃ m, matchNewFixed s c = some m ∧ (matchNew s (byteCharNew s) c).1 = some m ∧
      m.offset = i ∧ m.length = j - i ∧
      sliceChars s (some (Int.ofNat m.offset)) (some (Int.ofNat (m.offset + m.length))) = m.string := by
  have hstable : Utf8.chars ((s.drop c.start).take (c.stop - c.start)) = ((Utf8.chars s).drop i).take (j - i) := by
    rw [hs, he]; exact chars_substring s i j hij
  have hoff : charOfByte s c.start = some i := by rw [hs]; exact charOfByte_boundary s i (by omega)
  have hstr : (s.drop c.start).take (c.stop - c.start) = (((Utf8.chars s).drop i).take (j - i)).flatten := by
    rw [hs, he]
    have := flatten_slice (Utf8.chars s) i j hij
    rw [chars_flatten] at this
    exact this
  have hlen : strLength ((s.drop c.start).take (c.stop - c.start)) = j - i := by
    rw [strLength_eq_chars, hstable]
    simp only [List.length_take, List.length_drop]
    omega
  refine ⟨{ offset := i, length := j - i, string := (s.drop c.start).take (c.stop - c.start), name := c.name }, ?_, ?_, rfl, rfl, ?_⟩
  · simp only [matchNewFixed, hoff, Option.map_some, hlen]
  · have h2 : (charOfByteStateful (byteCharNew s) c.start).1 = some i := hoff
    simp only [matchNew]
    generalize hcb : charOfByteStateful (byteCharNew s) c.start = r at h2
    obtain ⟨o, bc'⟩ := r
    simp only at h2
    subst h2
    simp only [Option.map_some, hlen]
  · simp only
    have hji : i + (j - i) = j := by omega
    rw [hji, sliceChars_eq s i j hij, hstr]

/-- the truncation / stability facts about bstr's decoder that the above rests on, for ALL byte
strings: (1) cutting the input at or after the end of its first character does not change the
decoded character; (2) the substring between two character positions, chunked alone, has exactly
the characters it has inside the string -/
theorem chunking_is_stable (s : Bytes) :
    (∀ m, (Utf8.decode1 s).2 ≤ m → Utf8.decode1 (s.take m) = Utf8.decode1 s) ∧
    (∀ i j, i ≤ j → Utf8.chars ((s.drop (boundary s i)).take (boundary s j - boundary s i)) = ((Utf8.chars s).drop i).take (j - i)) ∧
    (∀ i, Utf8.chars (s.drop (boundary s i)) = (Utf8.chars s).drop i) ∧
    (∀ j, Utf8.chars (s.take (boundary s j)) = (Utf8.chars s).take j) :=
  ⟨fun m h => decode1_take s m h, fun i j h => chars_substring s i j h, chars_drop_boundary s, chars_take_boundary s⟩

example : -- "a€b": the match "€b" = bytes 1..5 = characters 1..3
    let s : Bytes := [97, 0xE2, 0x82, 0xAC, 98]
    boundary s 1 = 1 ∧ boundary s 3 = 5 ∧
    Utf8.chars ((s.drop 1).take 4) = ((Utf8.chars s).drop 1).take 2 ∧
    (matchNew s (byteCharNew s) ⟨1, 5, none⟩).1 = some ⟨1, 2, [0xE2, 0x82, 0xAC, 98], none⟩ := by decide

/-- the unmatched parts from `split_matches` / `splits` interleaved with the matches reassemble
the subject exactly, for every flag combination (`g` global, `n` skip empty matches), provided the
engine's matches are ordered and do not overlap -/
theorem splits_interleave_reassemble (s : Bytes) (g n : Bool) (caps : List (List Cap)) (parts : List Part)
    (hord : capsOrdered s.length 0 caps) (h : regexParts s g n true true caps = some parts) :
    (parts.map Part.text).flatten = s := by
  have := regexLoop_reassemble s g n caps (byteCharNew s) 0 parts hord h
  simpa using this

example : capsOrdered 5 0 [[⟨1, 2, none⟩], [⟨2, 2, none⟩], [⟨4, 5, none⟩]] := by
  simp [capsOrdered]

/-! ### ROUND 2: the regex natives over the EXPLICIT contract of the engine

`EngineContract s caps` (Lemmas/C13Regex.lean) says what is assumed about `captures_iter`:
`ordered` + `inside` (whole matches increasing, non-overlapping, inside the subject; groups inside
group 0 — guaranteed by the regex crates' API) and `startOnBoundary` + `stopOnBoundary` (every
range on character boundaries of the subject as bstr sees it — holds for regex-bites because its
decoder consumes the same units; not a documented guarantee for invalid UTF-8; evaluated on every
engine result of every run by the executable `contractB`, `contractB_iff`).  Everything else —
`offset`, `length`, `string`, the unmatched pieces — is computed by jaq and proved here. -/

/-- the repaired code AS WRITTEN (d488b4c: one `ByteChar` shared by all lookups of a `regex()` call,
started over when a group begins before the iterator's position — `regexPartsRestart`, which is what
the driver answers the correspondence with) computes exactly what the stateless model
`regexPartsRepaired` computes, for ANY engine result (also outside the contract), every flag
combination and both switches -/
theorem regex_restart_refines_stateless (s : Bytes) (g n mi ma : Bool) (caps : List (List Cap)) :
    regexPartsRestart s g n mi ma caps = regexPartsRepaired s g n mi ma caps ∧
    rxRun "matches" g n s caps = some ((regexPartsRestart s g n false true caps).map fun ps => .arr (ps.map partVal)) :=
  ⟨regexLoopRestart_eq s g n mi ma caps (byteCharNew s) 0 (List.suffix_refl _), rfl⟩

example : -- the input of finding `c13-rx-panic:char_of_byte-unwrap`: "ba" with (?:(a)|(b))+
    regexParts [98, 97] false false false true [[⟨0, 2, none⟩, ⟨1, 2, none⟩, ⟨0, 1, none⟩]] = none ∧
    regexPartsRestart [98, 97] false false false true [[⟨0, 2, none⟩, ⟨1, 2, none⟩, ⟨0, 1, none⟩]]
      = some [.matches [⟨0, 2, [98, 97], none⟩, ⟨1, 1, [97], none⟩, ⟨0, 1, [98], none⟩]] := by decide

/-- under the contract the repaired `regex()` never panics (all of `matches`, `split_matches`,
`split_`, every flag combination) — only `startOnBoundary` is needed — and every match object of
every group in its output satisfies `.[m.offset : m.offset + m.length] == m.string`,
`m.length == (m.string | length)`, and addresses exactly the engine's byte range -/
theorem regex_offsets_under_contract (s : Bytes) (g n mi ma : Bool) (caps : List (List Cap))
    (hc : EngineContract s caps) :
    ∃ parts, regexPartsRepaired s g n mi ma caps = some parts ∧
      ∀ ms, Part.matches ms ∈ parts → ∀ m ∈ ms,
        (∃ item ∈ caps, ∃ c ∈ item, boundary s m.offset = c.start ∧ boundary s (m.offset + m.length) = c.stop ∧
          m.string = (s.drop c.start).take (c.stop - c.start) ∧ m.name = c.name) ∧
        m.length = strLength m.string ∧
        sliceChars s (some (Int.ofNat m.offset)) (some (Int.ofNat (m.offset + m.length))) = m.string := by
  obtain ⟨parts, hp⟩ := regexLoopRepaired_total s g n mi ma caps 0 hc.startOnBoundary
  refine ⟨parts, hp, ?_⟩
  intro ms hms m hm
  obtain ⟨item, hitem, hmo⟩ := regexLoopRepaired_matches s g n mi ma caps 0 parts hp ms hms
  obtain ⟨c, hcm, hnew⟩ := matchesOfRepaired_mem s item ms hmo m hm
  have hse : c.start ≤ c.stop := by
    cases item with
    | nil => simp at hcm
    | cons w gs => exact (hc.inside _ hitem w rfl c hcm).2.1
  obtain ⟨h1, h2, h3, h4, h5, h6⟩ := matchNewFixed_slice s c m hse (hc.startOnBoundary item hitem c hcm)
    (hc.stopOnBoundary item hitem c hcm) hnew
  exact ⟨⟨item, hitem, c, hcm, h4, h5, h1, h3⟩, h2, h6⟩

/-- under the contract (only `ordered` is used) the parts of the repaired `split_matches` /
`splits` reassemble the subject -/
theorem splits_interleave_reassemble_contract (s : Bytes) (g n : Bool) (caps : List (List Cap)) (parts : List Part)
    (hc : EngineContract s caps) (h : regexPartsRepaired s g n true true caps = some parts) :
    (parts.map Part.text).flatten = s := by
  have := regexLoopRepaired_reassemble s g n caps 0 parts hc.ordered h
  simpa using this

/-- the contract is satisfiable and decidable: "aé,b" with the engine's result for `(\w)|(,)` -/
example : EngineContract [97, 0xC3, 0xA9, 44, 98]
    [[⟨0, 1, none⟩, ⟨0, 1, none⟩], [⟨1, 3, none⟩, ⟨1, 3, none⟩], [⟨3, 4, none⟩, ⟨3, 4, none⟩], [⟨4, 5, none⟩, ⟨4, 5, none⟩]] :=
  (contractB_iff _ _).mp (by decide)
/-- … and it excludes a range that ends inside a character -/
example : ¬ EngineContract [0xC3, 0xA9] [[⟨0, 1, none⟩]] :=
  fun h => absurd ((contractB_iff _ _).mpr h) (by decide)

/-! ## 4. escaping is safe for the consumers -/

/-- a POSIX shell splits `@sh` output into exactly the original arguments — strings byte for byte
(any byte: quotes, `$`, backquotes, newlines, globs, invalid UTF-8), null / booleans / numbers as
their printed text — and meets nothing it would interpret -/
theorem shWords_sh (xs : List ShArg) (h : ∀ x ∈ xs, x.ok = true) :
    shWords (sh xs) = some (xs.map ShArg.text) :=
  shLex_sh xs h

example : (ShArg.raw [45, 49, 50]).ok = true ∧ (ShArg.raw nullB).ok = true ∧ (ShArg.raw trueB).ok = true ∧
    (ShArg.str [39, 36, 40, 10, 96, 0xFF]).ok = true := by decide

/-- … also inside format strings (`@sh "echo \(f) …"`): wherever the shell is outside quotes —
whatever word `cur` is in progress, whatever text `rest` follows — the interpolated `'…'` adds
exactly the original bytes to the current word and leaves the shell outside quotes -/
theorem sh_in_format_string (s : Bytes) (cur : Option Bytes) (rest : Bytes) :
    shLex false cur (shQuote s ++ rest) = shLex false (some (cur.getD [] ++ s)) rest :=
  shLex_shQuote s cur rest

/-- an RFC 4180 reader gets back exactly one record with exactly the original fields, strings
(quoted) byte for byte — commas, quotes, CR, LF included — and the other fields as their text.
(`[]` and `[null]` both print as the empty line, which has no record: excluded by `hne`.) -/
theorem csvRead_csv (row : List Field) (hok : ∀ f ∈ row, f.csvOk = true) (hne : csvRow row ≠ []) :
    csvRead (csvRow row) = some [row.map Field.csvView] :=
  csvRead_csvRow row hok hne

example : (Field.num [45, 49, 55]).csvOk = true ∧ (Field.str [44, 34, 13, 10]).csvOk = true ∧
    csvRow [.str [44, 34], .null, .bool true] ≠ [] := by decide

/-- a TSV reader gets back exactly the original fields of a non-empty row as text: tabs, line feeds,
CR, backslashes and NUL inside strings are restored, and no field boundary is added or lost -/
theorem tsvRead_tsv (row : List Field) (hne : row ≠ []) (hok : ∀ f ∈ row, f.tsvOk = true) :
    tsvReadRow (tsvRow row) = row.map Field.rawText ∧ (10 : UInt8) ∉ tsvRow row := by
  refine ⟨tsvReadRow_tsvRow row hne hok, ?_⟩
  -- no raw line feed: a row never spans two records
  have hfield : ∀ f ∈ row, (10 : UInt8) ∉ tsvField f := by
    intro f hf
    have := hok f hf
    cases f with
    | null => simp [tsvField, Field.rawText]
    | bool b => cases b <;> decide
    | num t =>
      simp only [Field.tsvOk, Bool.and_eq_true, Bool.not_eq_true', List.contains_eq_mem, decide_eq_false_iff_not] at this
      exact this.1.2
    | str s => exact (tsvEscape_no_tab s).2
  unfold tsvRow
  have hj : ∀ xs : List Bytes, (∀ x ∈ xs, (10 : UInt8) ∉ x) → (10 : UInt8) ∉ joinWith [9] xs := by
    intro xs
    induction xs with
    | nil => intro _; simp [joinWith]
    | cons x t ih =>
      intro hx
      cases t with
      | nil => simpa [joinWith] using hx x (by simp)
      | cons y r =>
        rw [joinWith_cons_cons]
        simp only [List.mem_append, List.mem_singleton, not_or]
        refine ⟨⟨hx x (by simp), by decide⟩, ih (fun z hz => hx z (by simp only [List.mem_cons] at hz ⊢; right; exact hz))⟩
  apply hj
  intro x hx
  obtain ⟨f, hf, rfl⟩ := List.mem_map.mp hx
  exact hfield f hf

/-- an HTML entity decoder recovers exactly the original string from `@html` output, and none of
`<` `>` `'` `"` survives in it (`&` only as the first byte of one of the five references) -/
theorem htmlDecode_html (s : Bytes) :
    htmlDecode (html s) = s ∧ ∀ c ∈ html s, c ≠ 60 ∧ c ≠ 62 ∧ c ≠ 39 ∧ c ≠ 34 := by
  refine ⟨scan_flatMap' htmlDecodeStep htmlEsc htmlEsc_ne_nil htmlDecodeStep_htmlEsc s, ?_⟩
  intro c hc
  unfold html at hc
  obtain ⟨b, _, hb⟩ := List.mem_flatMap.mp hc
  exact htmlEsc_no_meta b c hb

/-- an RFC 3986 percent-decoder recovers exactly the original string from `@uri` output, and the
output consists of unreserved bytes (`A-Za-z0-9-._~`) and `%` only -/
theorem percentDecode_uri (s : Bytes) :
    percentDecode (uri s) = s ∧ ∀ c ∈ uri s, isUnreserved c = true ∨ c = 37 :=
  ⟨scan_flatMap' percentStep uriEsc uriEsc_ne_nil percentStep_uriEsc s, uri_bytes s⟩

/-! ## 5. ROUND 2: `@json` through C07's proved writer and reader

`toJson` (what `@json` / `tojson` / string interpolation print for null, booleans, integers of any
size, decimal literals, text strings, arrays and objects of these) IS C07's writer
(`toJson_eq_write`; the per-byte string table regenerated by C13 equals C07's: `jsonEsc_eq_escT1`,
decided over all 256 bytes), so C07's theorems about the reader apply to `@json` output. -/

/-- `@json | fromjson`: the reader (`C07.parseSingle` = `jaq_json::read::parse_single`) applied to
what `@json` prints returns the original value — exactly: `C07.canon` only puts integers into
canonical representation (machine integer iff it fits 64 bits) since `toJson` prints no float.
`GoodVal`: decimal literals inside `v` are ones the reader produces; `KeysOk`: the `IndexMap`
invariant (keys of an object pairwise different). -/
theorem json_parse_roundtrip (v : Val) (b : Bytes) (h : toJson v = some b)
    (hg : C07.GoodVal v) (hk : C07.KeysOk (C07.canon cfg0 C07.Pp.compact v)) :
    fmtRun "json" v = .ok (.tstr b) ∧ b = C07.write cfg0 C07.Pp.compact v ∧
    C07.parseSingle b = some (C07.canon cfg0 C07.Pp.compact v) := by
  have hw : C07.write cfg0 C07.Pp.compact v = b := toJson_eq_write cfg0 v.size v b 0 (Nat.le_refl _) h
  refine ⟨by simp [fmtRun, h, okStr], hw.symm, ?_⟩
  rw [← hw]
  have hs := C07.spells_write cfg0 cfg0_lit C07.Pp.compact (by intro s h; cases h) v.size v (Nat.le_refl _) hg 0
  have := C07.parseSingle_spells _ _ [] [] hs C07.isGap_nil C07.isGap_nil
  rw [C07.resolve_of_keysOk _ hk] at this
  simpa [C07.write] using this

/-- strings, unconditionally: for EVERY byte string (quotes, backslashes, control characters,
invalid UTF-8) a JSON reader gets back exactly the original text string from `@json` output; and
inside any larger text the string ends exactly at jaq's closing quote (`rest` is left untouched) -/
theorem json_string_safe (s rest : Bytes) :
    toJson (.tstr s) = some (jsonQuote s) ∧
    C07.parseSingle (jsonQuote s) = some (.tstr s) ∧
    C07.readStr false ((jsonQuote s).drop 1 ++ rest) = some (s, rest) := by
  refine ⟨rfl, ?_, ?_⟩
  · rw [jsonQuote_eq_writeTStr]
    have h : C07.Spells (.tstr s) (C07.writeTStr s) := by
      simp only [C07.Spells, C07.writeTStr]; exact ⟨s.flatMap C07.escT1, fun rest => C07.readStr_escT s rest, rfl⟩
    have := C07.parseSingle_spells _ _ [] [] h C07.isGap_nil C07.isGap_nil
    simpa [C07.resolve] using this
  · rw [jsonQuote_eq_writeTStr]
    have := C07.readStr_escT s rest
    simpa [C07.writeTStr] using this

/-- `@json "…\(f)…"`: wherever a JSON reader expects a value, it reads from `@json` output followed
by ANY literal text `rest` exactly the original value and continues at `rest` — provided `rest`
does not continue a number (digits, `.`, `e`, `E`: numbers are the only JSON values that are not
self-delimiting) -/
theorem json_in_format_string (v : Val) (b rest : Bytes) (n : Nat) (h : toJson v = some b) (hg : C07.GoodVal v)
    (hr : C07.NumStop rest) (hn : 2 * (C07.canon cfg0 C07.Pp.compact v).size ≤ n) :
    C07.parseValF n (b ++ rest) = some (C07.resolve (C07.canon cfg0 C07.Pp.compact v), rest) := by
  have hw : C07.write cfg0 C07.Pp.compact v = b := toJson_eq_write cfg0 v.size v b 0 (Nat.le_refl _) h
  have hs := C07.spells_write cfg0 cfg0_lit C07.Pp.compact (by intro s h; cases h) v.size v (Nat.le_refl _) hg 0
  rw [← hw]
  exact C07.spells_parseValF _ _ rest n hs hr hn

example : toJson (.arr [.tstr [34, 92, 10, 0xFF], .null, .obj [(.tstr [97], .bool true)]]) =
    some [91, 34, 92, 34, 92, 92, 92, 110, 0xFF, 34, 44, 110, 117, 108, 108, 44, 123, 34, 97, 34, 58, 116, 114, 117, 101, 125, 93] := by
  decide

/-! ## 6. ROUND 2: format strings `@fmt "…\(f)…"` with ANY interleaving of parts

Model of `jaq-core/src/compile.rs` (`Compiler::term`, arm `Str(fmt, parts)`): `fmtStringN name parts`
with `parts : List FmtPart` (`lit s` | `interp v`): interpolated parts go through the formatter,
literal parts do not, everything is concatenated. -/

/-- the compile.rs rule: when every interpolation formats (`FmtPart.out`), the result is the
concatenation of the literal parts AS THEY ARE and the FORMATTED interpolated parts, in order -/
theorem format_string_rule (name : String) (parts : List FmtPart) (outs : List Bytes)
    (h : parts.map (FmtPart.out name) = outs.map some) :
    fmtStringN name parts = .ok (.tstr outs.flatten) :=
  fmtStringN_ok name parts outs h

/-- **`@sh "…\(f)…"` is safe for every interleaving**: let `sps` be the parts after `@sh`'s argument
rule (`shPartOf`: a string is quoted, null / booleans / numbers are printed, an array contributes its
elements blank-separated).  Whenever the command template is well-formed — `shLexT` (the POSIX word
lexer on the programmer's literal bytes, an argument adding exactly its data to the word in
progress) accepts it, i.e. no interpolation stands inside the programmer's own quotes or after the
programmer's backslash — a POSIX shell reading jaq's output gets exactly the words `ws` of the
template: every interpolated string arrives byte for byte (quotes, `$`, backquotes, newlines, globs,
invalid UTF-8) in the word where it was placed, and nothing in it is interpreted. -/
theorem sh_format_string_safe (parts : List FmtPart) (sps : List ShPart) (ws : List Bytes)
    (hparts : parts.map shPartOf = sps.map some)
    (hok : ∀ xs, ShPart.interp xs ∈ sps → ∀ x ∈ xs, x.ok = true)
    (ht : shLexT false none (sps.flatMap ShPart.toks) = some ws) :
    ∃ out, fmtStringN "sh" parts = .ok (.tstr out) ∧ out = (sps.map ShPart.out).flatten ∧ shWords out = some ws := by
  have houts : parts.map (FmtPart.out "sh") = (sps.map ShPart.out).map some :=
    map_opt_transfer shPartOf (FmtPart.out "sh") ShPart.out shPartOf_out parts sps hparts
  refine ⟨(sps.map ShPart.out).flatten, fmtStringN_ok "sh" parts _ houts, rfl, ?_⟩
  rw [← shRender_parts]
  apply shLex_render _ false none ws _ ht
  intro x hx
  obtain ⟨p, hp, hxp⟩ := List.mem_flatMap.mp hx
  cases p with
  | lit s => simp [ShPart.toks] at hxp
  | interp xs => exact hok xs hp x (mem_shArgToks hxp)

/-- `@sh "echo \(.a) \(.b)-x"` with `.a = "a b'c"` and `.b = [1, "$(rm)"]`: the shell sees the words
`echo`, `a b'c`, `1`, `$(rm)-x` -/
example :
    let sps := [ShPart.lit [101, 99, 104, 111, 32], .interp [.str [97, 32, 98, 39, 99]], .lit [32],
                .interp [.raw [49], .str [36, 40, 114, 109, 41]], .lit [45, 120]]
    shLexT false none (sps.flatMap ShPart.toks) = some [[101, 99, 104, 111], [97, 32, 98, 39, 99], [49], [36, 40, 114, 109, 41, 45, 120]] ∧
    shWords (sps.map ShPart.out).flatten = some [[101, 99, 104, 111], [97, 32, 98, 39, 99], [49], [36, 40, 114, 109, 41, 45, 120]] := by
  decide

/-- what the guard excludes — `@sh "echo '\(.a)'"` (an interpolation inside the programmer's own
quotes) with `.a = "a b"`: the template is refused, and indeed the shell would see `a` and `b` -/
example :
    let sps := [ShPart.lit [101, 99, 104, 111, 32, 39], .interp [.str [97, 32, 98]], .lit [39]]
    shLexT false none (sps.flatMap ShPart.toks) = none ∧
    shWords (sps.map ShPart.out).flatten = some [[101, 99, 104, 111], [97], [98]] := by
  decide

/-- **`@html "…\(f)…"` and `@uri "…\(f)…"` for every interleaving**: let `eps` be the parts with every
interpolated value replaced by its `tostring` bytes (`encPartOf`).  If every literal part is
`Closed` for the consumer's scanner (scanning never needs to look past its end: e.g. it contains no
`&` resp. no `%` — last two conjuncts; a literal ending in a started reference like `&am` is not),
then the HTML character-reference decoder / the RFC 3986 percent-decoder applied to the whole
output returns the decoded literals and the ORIGINAL interpolated data, in order; and none of
`< > ' "` resp. no reserved byte in the output comes from interpolated data (`htmlDecode_html`,
`percentDecode_uri`). -/
theorem html_uri_format_string_safe (parts : List FmtPart) (eps : List EncPart)
    (hparts : parts.map encPartOf = eps.map some) :
    ((∀ l, EncPart.lit l ∈ eps → Closed htmlDecodeStep l) →
      ∃ out, fmtStringN "html" parts = .ok (.tstr out) ∧ htmlDecode out = (eps.map (EncPart.meaning htmlDecodeStep)).flatten) ∧
    ((∀ l, EncPart.lit l ∈ eps → Closed percentStep l) →
      ∃ out, fmtStringN "uri" parts = .ok (.tstr out) ∧ percentDecode out = (eps.map (EncPart.meaning percentStep)).flatten) ∧
    (∀ l : Bytes, (38 : UInt8) ∉ l → Closed htmlDecodeStep l ∧ htmlDecode l = l) ∧
    (∀ l : Bytes, (37 : UInt8) ∉ l → Closed percentStep l ∧ percentDecode l = l) := by
  refine ⟨?_, ?_, closed_of_no_trigger htmlDecodeStep 38 htmlDecodeStep_other, closed_of_no_trigger percentStep 37 percentStep_other⟩
  · intro hc
    have houts := map_opt_transfer encPartOf (FmtPart.out "html") (EncPart.out htmlEsc)
      (encPartOf_out "html" htmlEsc (fun v => rfl)) parts eps hparts
    exact ⟨_, fmtStringN_ok "html" parts _ houts, scan_parts htmlDecodeStep htmlEsc htmlEsc_ne_nil htmlDecodeStep_htmlEsc eps hc⟩
  · intro hc
    have houts := map_opt_transfer encPartOf (FmtPart.out "uri") (EncPart.out uriEsc)
      (encPartOf_out "uri" uriEsc (fun v => rfl)) parts eps hparts
    exact ⟨_, fmtStringN_ok "uri" parts _ houts, scan_parts percentStep uriEsc uriEsc_ne_nil percentStep_uriEsc eps hc⟩

/-- `@html "<b>\(.x)</b>\(.y)"` with `.x = "<&>"`, `.y = true` -/
example :
    [FmtPart.lit [60, 98, 62], .interp (.tstr [60, 38, 62]), .lit [60, 47, 98, 62], .interp (.bool true)].map encPartOf
      = [EncPart.lit [60, 98, 62], .data [60, 38, 62], .lit [60, 47, 98, 62], .data [116, 114, 117, 101]].map some := by
  decide

/- NOT PROVED for format strings (still only as single formatter applications, section 4):
   `@csv "…"` / `@tsv "…"` with rows interleaved with literal separators; `@base64 "…"`;
   closedness of literals that contain complete references (`&amp;`, `%41`). -/

end Jaq.C13.Props
