/-
C19 — A compiled filter is immutable shared data: concurrent runs equal isolated runs.

Models: JaqVerif/C19/Sched.lean (threads over one shared read-only table, arbitrary schedules),
JaqVerif/C19/Cow.lean (heap of reference-counted cells with copy-on-write, shared by threads),
JaqVerif/C19/Allow.lean (hand-audited allow-list), Gen/C19Shared.lean (regenerated from the
source of jaq-core, jaq-std, jaq-json, jaq-fmts, jaq-all on every run).

What is assumed about the real code for the models to apply, and where it is checked:
  (A1) nothing reachable from `Filter`/`Lut` can be written through a shared reference and there
       is no process-wide mutable item in the core crates
       — `shared_state_allowlisted`, `unsafe_forbidden_in_core` (decided on the regenerated list);
  (A2) `Filter<D>`, `Lut<D>` are `Send + Sync`; `Val` is `Send + Sync` under feature `sync`
       — compile-time assertions in harness-c19/src/main.rs, built in both configurations on every run;
  (A3) operations on reference-counted values are atomic steps (`Arc`) — outside the model;
       the concurrent runs of the harness sample it.
-/
import JaqVerif.Lemmas.C19Sched
import JaqVerif.Lemmas.C19Cow
import JaqVerif.Gen.C19Shared

namespace Jaq.C19

variable {Tab σ Out Env κ α : Type}

/-! ## Threads over one shared immutable table -/

/-- The table is never written: after ANY schedule the shared table is the one we started with. -/
theorem table_never_written (m : Machine Tab σ Out) (sched : List Nat) (s : Sys Tab σ Out) :
    (m.run sched s).tab = s.tab :=
  run_tab m sched s

/-- For EVERY schedule (any interleaving of any thread ids) and every thread `t`: the state and
the output trace of `t` are those of its isolated run — `t` alone in the world, stepped as often
as the schedule stepped it. -/
theorem schedule_independent (m : Machine Tab σ Out) (sched : List Nat) (s : Sys Tab σ Out) (t : Nat) :
    (m.run sched s).thr t = m.isolated s.tab (sched.count t) (s.thr t) :=
  run_thr m sched s t

/-- Same filter (table), equal input (initial thread state) ⇒ equal output stream, whatever else
runs beside it, in whatever order, in whichever slot: two systems over the same table, thread `t`
of the first and thread `u` of the second start equal and are stepped equally often. -/
theorem runs_deterministic (m : Machine Tab σ Out) (sched₁ sched₂ : List Nat)
    (s₁ s₂ : Sys Tab σ Out) (t u : Nat)
    (htab : s₁.tab = s₂.tab) (hin : s₁.thr t = s₂.thr u) (hn : sched₁.count t = sched₂.count u) :
    (m.run sched₁ s₁).thr t = (m.run sched₂ s₂).thr u := by
  rw [run_thr, run_thr, htab, hin, hn]

/-- Reordering a schedule changes nothing: two schedules that are permutations of each other
(the same steps, interleaved differently) leave EVERY thread in the same state with the same
output trace, and the same table. -/
theorem reordering_invisible (m : Machine Tab σ Out) (sched₁ sched₂ : List Nat)
    (hp : sched₁.Perm sched₂) (s : Sys Tab σ Out) :
    (∀ t, (m.run sched₁ s).thr t = (m.run sched₂ s).thr t) ∧
    (m.run sched₁ s).tab = (m.run sched₂ s).tab := by
  refine ⟨fun t => ?_, ?_⟩
  · rw [run_thr, run_thr, hp.count_eq]
  · rw [run_tab, run_tab]

/-- Output is only ever appended to: what a thread has emitted after `n` of its own steps is a
prefix of what it has emitted after `n + k`, so (with `schedule_independent`) extending a
schedule by any steps of any threads never retracts or rewrites an output already produced. -/
theorem output_only_grows (m : Machine Tab σ Out) (tab : Tab) (n k : Nat) (t : Thread σ Out) :
    (m.isolated tab n t).out <+: (m.isolated tab (n + k) t).out := by
  induction n generalizing t with
  | zero =>
    simp only [Nat.zero_add, Machine.isolated]
    induction k generalizing t with
    | zero => exact List.prefix_refl _
    | succ k ih =>
      rw [isolated_succ]
      refine List.IsPrefix.trans ?_ (ih _)
      unfold Machine.stepThread
      cases h : m.step tab t.st with
      | mk s' o => cases o with
        | none => exact List.prefix_refl _
        | some o => exact List.prefix_append _ _
  | succ n ih =>
    rw [Nat.add_right_comm, isolated_succ, isolated_succ]
    exact ih _

/-- Extending a schedule: each thread's output after `sched ++ more` extends its output after
`sched`. -/
theorem extension_extends_output (m : Machine Tab σ Out) (sched more : List Nat)
    (s : Sys Tab σ Out) (t : Nat) :
    ((m.run sched s).thr t).out <+: ((m.run (sched ++ more) s).thr t).out := by
  rw [run_thr, run_thr, List.count_append]
  exact output_only_grows m s.tab _ _ _

/-- Compilers are values: threads that compile (each with its own `Compiler` state, reading the
shared definitions/natives `env`) and then run what they compiled, interleaved arbitrarily, end
in the phase of the isolated compile-then-run; in particular the table a thread obtains does not
depend on what is compiled or run concurrently. -/
theorem compile_independent (c : CompileRun Env κ Tab σ Out) (sched : List Nat)
    (s : Sys Env (Phase κ Tab σ) Out) (t : Nat) :
    (c.machine.run sched s).thr t = c.machine.isolated s.tab (sched.count t) (s.thr t) ∧
    ((c.machine.run sched s).thr t).st.table =
      (c.machine.isolated s.tab (sched.count t) (s.thr t)).st.table := by
  have h := run_thr c.machine sched s t
  exact ⟨h, by rw [h]⟩

/-- A finished table stays what it is: once a thread is running table `tab`, no step of anybody
changes that table. -/
theorem compiled_table_stable (c : CompileRun Env κ Tab σ Out) (env : Env) (tab : Tab) (st : σ)
    (out : List Out) (n : Nat) :
    (c.machine.isolated env n ⟨.running tab st, out⟩).st.table = some tab := by
  induction n generalizing st out with
  | zero => rfl
  | succ n ih =>
    rw [isolated_succ]
    have key : c.machine.stepThread env ⟨.running tab st, out⟩ =
        ⟨.running tab (c.mach.step tab st).1,
         match (c.mach.step tab st).2 with | none => out | some o => out ++ [o]⟩ := by
      simp only [Machine.stepThread, CompileRun.machine]
      cases (c.mach.step tab st).2 <;> rfl
    rw [key]
    exact ih _ _

/-- The hypothesis "steps cannot write the table" is necessary: with a counter in the shared
table (a label counter, a cache) the output of thread 1 depends on whether thread 0 ran first. -/
theorem leaky_counter_is_schedule_dependent :
    let s : Sys Nat Unit Nat := ⟨0, fun _ => ⟨(), []⟩⟩
    ((leakyCounter.run [1] s).thr 1).out = [0] ∧ ((leakyCounter.run [0, 1] s).thr 1).out = [1] := by
  decide

/-- a concrete machine satisfying the model: the table is a list of numbers, a thread walks it -/
example :
    let m : Machine (List Nat) Nat Nat := ⟨fun tab pc => (pc + 1, tab[pc]?)⟩
    let s : Sys (List Nat) Nat Nat := ⟨[10, 20, 30], fun t => ⟨t, []⟩⟩
    ((m.run [1, 0, 0, 1, 2, 0] s).thr 0).out = [10, 20, 30] ∧
    ((m.run [1, 0, 0, 1, 2, 0] s).thr 1).out = [20, 30] := by
  decide

/-! ## Copy-on-write is transparent -/

/-- `Rc::make_mut` writes in place exactly when the handle is the only owner; otherwise the
handle is moved to a fresh cell (live handles never point at the allocation pointer). -/
theorem make_mut_in_place_iff (H : Heap α) (a : Nat) (f : α → α) (v : α)
    (hv : H.val a = some v) (ha : a < H.next) :
    (rcMakeMut H a f).2 = a ↔ H.rc a = 1 := by
  unfold rcMakeMut
  rw [hv]
  by_cases h : H.rc a = 1
  · simp [h]
  · simp only [h, if_false, Heap.alloc, decr_next, iff_false]
    omega

/-- One step, any thread, any operation, any well-formed heap: the counts stay exact and every
thread observes through its handles exactly what value semantics prescribes.  In particular for
`mutate` (`Rc::make_mut`) and `take` (`rc_unwrap_or_clone`) the observed result does not depend
on the reference count, and no other handle — of the same or of another thread — sees a change. -/
theorem cow_step_transparent {s : CSys α} {A : Nat → AThread α} (h : Rel s A) (e : Nat × Op α) :
    Rel (cstep s e) (astep s.n A e) :=
  rel_step h e

/-- `make_mut` spelled out: thread `t` mutates its `i`-th handle with `f`; afterwards it sees
`f v` there and its other values unchanged (whatever the count was), and every other thread's
view is unchanged. -/
theorem make_mut_transparent {s : CSys α} {A : Nat → AThread α} (h : Rel s A) {t i : Nat}
    (ht : t < s.n) (f : α → α) {p q : List α} {v : α} (hpick : pick (A t).vals i = some (p, v, q)) :
    (cstep s (t, .mutate i f)).view t = (p ++ f v :: q).map some ∧
    ∀ u, u < s.n → u ≠ t → (cstep s (t, .mutate i f)).view u = s.view u := by
  have h' := rel_step h (t, .mutate i f)
  have hn := cstep_n s (t, .mutate i f)
  constructor
  · have := h'.vals t (by rw [hn]; exact ht)
    rw [this]
    simp [astep, ht, upd, astepLocal, hpick]
  · intro u hu hut
    have := h'.vals u (by rw [hn]; exact hu)
    rw [this, h.vals u hu]
    simp [astep, ht, upd, hut]

/-- `rc_unwrap_or_clone` spelled out: the value handed out is the value that was behind the
handle, whether the cell was unique (moved out, cell freed) or shared (copied). -/
theorem unwrap_or_clone_transparent {s : CSys α} {A : Nat → AThread α} (h : Rel s A) {t i : Nat}
    (ht : t < s.n) {p q : List α} {v : α} (hpick : pick (A t).vals i = some (p, v, q)) :
    ((cstep s (t, .take i)).thr t).out = (A t).out ++ [v] ∧
    (cstep s (t, .take i)).view t = (p ++ q).map some ∧
    ∀ u, u < s.n → u ≠ t → (cstep s (t, .take i)).view u = s.view u := by
  have h' := rel_step h (t, .take i)
  have hn := cstep_n s (t, .take i)
  refine ⟨?_, ?_, ?_⟩
  · have := h'.out t (by rw [hn]; exact ht)
    rw [this]
    simp [astep, ht, upd, astepLocal, hpick]
  · have := h'.vals t (by rw [hn]; exact ht)
    rw [this]
    simp [astep, ht, upd, astepLocal, hpick]
  · intro u hu hut
    have := h'.vals u (by rw [hn]; exact hu)
    rw [this, h.vals u hu]
    simp [astep, ht, upd, hut]

/-- ALL heaps, ALL operation sequences: a system of threads sharing reference-counted cells
behaves as if every thread owned private copies of its values (the value-semantics system
`arun` has no counts and no sharing at all), and the heap stays well-formed. -/
theorem cow_transparent (es : List (Nat × Op α)) {s : CSys α} {A : Nat → AThread α} (h : Rel s A) :
    Inv (crun es s) ∧
    ∀ u, u < s.n →
      (crun es s).view u = ((arun s.n es A) u).vals.map some ∧
      ((crun es s).thr u).out = ((arun s.n es A) u).out := by
  have h' := rel_run es h
  have hn := crun_n es s
  exact ⟨h'.inv, fun u hu => ⟨h'.vals u (by rw [hn]; exact hu), h'.out u (by rw [hn]; exact hu)⟩⟩

/-- Values shared between threads: for EVERY interleaving `es` of the threads' operations, what
thread `u` holds and what it has output are those of its isolated run on private copies
(`alocal` runs only `u`'s own operations, on `u`'s own values). -/
theorem cow_schedule_independent (es : List (Nat × Op α)) {s : CSys α} {A : Nat → AThread α}
    (h : Rel s A) (u : Nat) (hu : u < s.n) :
    (crun es s).view u = (alocal (opsOf u es) (A u)).vals.map some ∧
    ((crun es s).thr u).out = (alocal (opsOf u es) (A u)).out := by
  have := (cow_transparent es h).2 u hu
  rw [arun_local s.n es A u hu] at this
  exact this

/-- The hypotheses are satisfiable with real sharing: `n` threads each holding a handle to the
SAME cells (every count is `n`) is a well-formed state implementing "everybody owns `vs`". -/
theorem shared_start_wellformed (vs : List α) (n : Nat) :
    Rel (initShared vs n) (fun _ => ⟨vs, []⟩) :=
  rel_initShared vs n

/-- concrete instance: two threads share one array; thread 0 pushes, thread 1 still sees the old
value, thread 0 sees the new one; then thread 1 (now the unique owner) pushes in place. -/
example :
    let s := crun [(0, .mutate 0 (· ++ [3])), (1, .read 0), (1, .mutate 0 (· ++ [4])), (0, .read 0), (1, .take 0)]
      (initShared [[1, 2]] 2)
    (s.thr 0).out = [[1, 2, 3]] ∧ (s.thr 1).out = [[1, 2], [1, 2, 4]] ∧
    (s.thr 0).hs = [1] ∧ s.heap.rc 0 = 0 ∧ s.heap.rc 1 = 1 := by
  decide

/-! ## Static facts regenerated from the source -/

/-- Every `static`, `thread_local!`, interior-mutability type and `unsafe` occurring in the source
of the core crates is on the hand-audited allow-list (JaqVerif/C19/Allow.lean). -/
theorem shared_state_allowlisted : ∀ x ∈ Gen.sharedItems, x ∈ allowed := by
  decide

/-- jaq-core, jaq-std and jaq-json carry `#![forbid(unsafe_code)]`: unchecked mutation through a
shared reference is not expressible there. -/
theorem unsafe_forbidden_in_core : ∀ c ∈ mustForbidUnsafe, Gen.forbidUnsafe.lookup c = some true := by
  decide

end Jaq.C19
