/-
  C08 — impl-model of comparison, equality, hashing and the equality/order based look-ups
  of jaq values.  Follows, function by function:

  * `/repo/jaq-json/src/lib.rs`  `impl Ord / PartialEq / Hash for Val`, `impl Sub` (arrays),
    `impl Add` (objects: `IndexMap::extend`), `obj_merge`, `index_opt` (object arm),
    `map_index` (object arm: `entry` / `insert` / `swap_remove`)
  * `/repo/jaq-json/src/num.rs`  `impl Ord / PartialEq / Hash for Num`, `float_cmp`
    (shared: `Jaq.Num.cmp`, `Jaq.Num.eq`, `Jaq.F64.cmp` of `Val/Num.lean`, `Val/Float.lean`)
  * `/repo/jaq-json/src/funs.rs` `indices` (array arms), `contains`, `has`, `bsearch`
  * `/repo/jaq-std/src/lib.rs`   `sort` (`Vec::sort`), `group_by`, `cmp_by` (`min`/`max`),
    `defs.jq`: `unique`
  * indexmap 2.10 `get_index_of` (0- and 1-entry shortcuts that do *not* hash), `insert_full`,
    `entry`, `swap_remove`, `PartialEq`.

  Differences to the shared `Val/Order.lean` (see design/notes/C08.md):
  the shared `sortBy` is not stable (an element moves behind later elements it compares equal
  to), `Vec::sort` / `sort_by_key` are; the shared `Obj.get` hashes also for one-entry maps;
  the shared hash feed abstracts the `Hasher` calls, here they are the calls.
-/
import JaqVerif.Val.Order
import JaqVerif.Gen.C08Cfg

namespace Jaq.C08
open Jaq

/-! ### stable sort -/

/-- insert `x` before the first element that is not smaller: with `sortBy` below, equal
elements keep their input order (stable, like `Vec::sort` and `sort_by_key`). -/
def insertBy {α : Type} (c : α → α → Ordering) (x : α) : List α → List α
  | [] => [x]
  | y :: ys => if c x y == .gt then y :: insertBy c x ys else x :: y :: ys

def sortBy {α : Type} (c : α → α → Ordering) : List α → List α
  | [] => []
  | x :: xs => insertBy c x (sortBy c xs)

/-! ### `impl Ord for Val` -/

abbrev Entries := List (Val × Val)

def keyCmp (c : Val → Val → Ordering) (p q : Val × Val) : Ordering := c p.1 q.1

/-- the general arm of object comparison: sort both entry vectors by key (stable), compare
the key sequences, then the value sequences -/
def cmpObjGen (c : Val → Val → Ordering) (x y : Entries) : Ordering :=
  (lexCmp c ((sortBy (keyCmp c) x).map (·.1)) ((sortBy (keyCmp c) y).map (·.1))).then
    (lexCmp c ((sortBy (keyCmp c) x).map (·.2)) ((sortBy (keyCmp c) y).map (·.2)))

/-- `(Obj(x), Obj(y)) => match (x.len(), y.len())` -/
def cmpObj (c : Val → Val → Ordering) (x y : Entries) : Ordering :=
  match x, y with
  | [], [] => .eq
  | [], _ :: _ => .lt
  | _ :: _, [] => .gt
  | _ :: _, _ :: _ => cmpObjGen c x y

def cmpBool (x y : Bool) : Ordering := compare x.toNat y.toNat

/-! `impl Ord for Num` is the shared `Num.cmp`, except for the arms `(BigInt, Float)` /
`(Float, BigInt)`, which follow the *repaired* code (design/fixes/C08-hugeint-infinity.diff)
when the generated switch `Cfg.hugeIntBelowInfinity` says that the repair is in the tree. -/

/-- `big_float_cmp` of the repaired code -/
def bigFloatCmp (i : Int) (f : UInt64) : Ordering :=
  if f == F64.posInf then .lt
  else if f == F64.negInf then .gt
  else F64.cmp (F64.ofInt i) f

def numCmp (a b : Num) : Ordering :=
  if Cfg.hugeIntBelowInfinity then
    match Num.undec a, Num.undec b with
    | .big i, .float f => bigFloatCmp i f
    | .float f, .big i => (bigFloatCmp i f).swap
    | x, y => Num.cmp x y
  else Num.cmp a b

/-- `impl Ord for Val`, with recursion fuel -/
def cmpF : Nat → Val → Val → Ordering
  | 0, _, _ => .eq
  | n + 1, a, b =>
    match a, b with
    | .null, .null => .eq
    | .bool x, .bool y => cmpBool x y
    | .num x, .num y => numCmp x y
    | .bstr x, .bstr y | .bstr x, .tstr y | .tstr x, .bstr y | .tstr x, .tstr y => cmpBytes x y
    | .arr x, .arr y => lexCmp (cmpF n) x y
    | .obj x, .obj y => cmpObj (cmpF n) x y
    | a, b => compare a.rank b.rank

def cmp (a b : Val) : Ordering := cmpF (a.size + b.size) a b

/-! ### `impl Hash for Val`: the sequence of `Hasher` calls -/

/-- one call of a `core::hash::Hasher` method -/
inductive Tok where
  /-- `write_u8` -/
  | u8 (n : Nat)
  /-- `write_usize` (the length prefix of slices / `Vec`) -/
  | len (n : Nat)
  /-- `write(&f.to_ne_bytes())` -/
  | f64 (bits : UInt64)
  /-- `write(bytes)` -/
  | bytes (b : List UInt8)
  /-- the calls of `BigInt::hash` (sign discriminant, digit count, digits) -/
  | big (i : Int)
  deriving DecidableEq, Repr

abbrev Feed := List Tok

/-- the float whose bytes are hashed: the repaired code (design/fixes/C08-negzero-hash.diff)
replaces `-0.0` by `0.0`; the generated switch says whether the repair is in the tree -/
def hashedFloat (f : UInt64) : UInt64 :=
  if Cfg.hashNormalisesZero && F64.isZero f then F64.posZero else f

/-- `Self::Float(f)` arm of `Num::hash` -/
def floatFeed (f : UInt64) : Feed :=
  .u8 0 :: (if F64.isFinite f then [.len 8, .f64 (hashedFloat f)] else [])

/-- `impl Hash for Num` -/
def numFeed : Num → Feed
  | .int i => floatFeed (F64.ofInt i)
  | .float f => floatFeed f
  | .dec s => floatFeed (F64.ofDec s)
  | .big i =>
    let f := F64.ofInt i
    if F64.isFinite f then floatFeed f else [.u8 1, .big i]

/-- entries in the order in which `Val::hash` (and `Val::cmp`) visit them -/
def sortedEntries (o : Entries) : Entries := sortBy (keyCmp cmp) o

def feedF : Nat → Val → Feed
  | 0, _ => []
  | n + 1, v =>
    match v with
    | .num x => numFeed x
    | .null => [.u8 2]
    | .bool b => [.u8 (if b then 3 else 4)]
    | .bstr b | .tstr b => [.u8 5, .len b.length, .bytes b]
    | .arr a => .u8 6 :: .len a.length :: a.flatMap (feedF n)
    | .obj o => .u8 7 :: (sortedEntries o).flatMap fun p => feedF n p.1 ++ feedF n p.2

def feed (v : Val) : Feed := feedF v.size v

/-! ### `IndexMap` look-up and `impl PartialEq for Val` -/

/-- a hashed probe succeeds on an entry whose hash (here: hash feed) and key agree -/
def probe (e : Val → Val → Bool) (k k' : Val) : Bool := feed k == feed k' && e k k'

/-- `IndexMap::get_index_of`: no entry → none; one entry → `==` only (no hashing);
otherwise the hashed probe -/
def getIdx (e : Val → Val → Bool) (o : Entries) (k : Val) : Option Nat :=
  match o with
  | [] => none
  | [p] => if e k p.1 then some 0 else none
  | _ => o.findIdx? fun p => probe e k p.1

/-- `RawTable` look-up used by `insert_full` / `entry` (always hashed) -/
def hashedIdx (e : Val → Val → Bool) (o : Entries) (k : Val) : Option Nat :=
  o.findIdx? fun p => probe e k p.1

def getWith (e : Val → Val → Bool) (o : Entries) (k : Val) : Option Val :=
  match getIdx e o k with
  | some i => (o[i]?).map (·.2)
  | none => none

/-- `IndexMap == IndexMap` -/
def eqObj (e : Val → Val → Bool) (x y : Entries) : Bool :=
  x.length == y.length &&
  x.all fun p =>
    match getWith e y p.1 with
    | some v' => e p.2 v'
    | none => false

def eqList (e : Val → Val → Bool) : List Val → List Val → Bool
  | [], [] => true
  | a :: as, b :: bs => e a b && eqList e as bs
  | _, _ => false

/-- `impl PartialEq for Val`, with recursion fuel -/
def eqF : Nat → Val → Val → Bool
  | 0, _, _ => false
  | n + 1, a, b =>
    match a, b with
    | .null, .null => true
    | .bool x, .bool y => x == y
    | .num x, .num y => Num.eq x y
    | .bstr x, .bstr y | .bstr x, .tstr y | .tstr x, .bstr y | .tstr x, .tstr y => x == y
    | .arr x, .arr y => eqList (eqF n) x y
    | .obj x, .obj y => eqObj (eqF n) x y
    | _, _ => false

def eq (a b : Val) : Bool := eqF (a.size + b.size) a b

namespace Obj

/-- `IndexMap::get` -/
def get (o : Entries) (k : Val) : Option Val := getWith eq o k

/-- `has` on objects = `index_opt(..).is_some()` -/
def has (o : Entries) (k : Val) : Bool := (get o k).isSome

/-- `IndexMap::insert`: an occupied slot keeps its key and position and takes the new
value; otherwise the pair is appended -/
def insert (o : Entries) (k v : Val) : Entries :=
  match hashedIdx eq o k with
  | some i => o.modify i fun p => (p.1, v)
  | none => o ++ [(k, v)]

/-- `IndexMap::extend` / `FromIterator` -/
def extend (o kvs : Entries) : Entries := kvs.foldl (fun acc p => insert acc p.1 p.2) o

def ofList (kvs : Entries) : Entries := extend [] kvs

/-- `swap_remove` at index `i` -/
def swapRemoveAt (o : Entries) (i : Nat) : Entries :=
  match o.getLast? with
  | none => o
  | some last => if i + 1 == o.length then o.dropLast else (o.set i last).dropLast

/-- `map_index` on an object with an update that yields `r` from the old value
(`none` = no output: delete an occupied entry, leave a vacant one absent).
`f` receives `null` for a vacant entry. -/
def update (o : Entries) (k : Val) (f : Val → Option Val) : Entries :=
  match hashedIdx eq o k with
  | some i =>
    match o[i]? with
    | some p =>
      match f p.2 with
      | some y => o.set i (p.1, y)
      | none => swapRemoveAt o i
    | none => o
  | none =>
    match f .null with
    | some y => o ++ [(k, y)]
    | none => o

/-- one step of the loop of `obj_merge`: the entry `p` of the right operand is merged into `acc`;
`rec` merges two nested objects -/
def mergeStep (rec : Entries → Entries → Entries) (acc : Entries) (p : Val × Val) : Entries :=
  match getIdx eq acc p.1 with
  | some i =>
    match acc[i]?, p.2 with
    | some (k', .obj lo), .obj ro => acc.set i (k', .obj (rec lo ro))
    | some (k', _), rv => acc.set i (k', rv)
    | none, _ => acc
  | none => insert acc p.1 p.2

/-- `obj_merge` (fuel: nesting depth) -/
def mergeF : Nat → Entries → Entries → Entries
  | 0, l, _ => l
  | n + 1, l, r => r.foldl (mergeStep (mergeF n)) l

def merge (l r : Entries) : Entries := mergeF (Val.sizeEntries l + Val.sizeEntries r + 1) l r

end Obj

/-! ### order / equality based filters -/

/-- `sort` (`Vec::sort`) -/
def sort (l : List Val) : List Val := sortBy cmp l

/-- the grouping loop of `group_by`: `cur` is the open group (reversed) with the key `gk`
of its *first* element -/
def groupLoop (gk : Val) (cur : List Val) : List Val → List (List Val)
  | [] => [cur.reverse]
  | x :: xs => if eq gk x then groupLoop gk (x :: cur) xs else cur.reverse :: groupLoop x [x] xs

/-- `group_by(.)`: stable sort, then cut where the key differs (`!=`) from the group's first -/
def groupBy (l : List Val) : List (List Val) :=
  match sort l with
  | [] => []
  | x :: xs => groupLoop x [x] xs

/-- `unique` = `[group_by(.)[] | .[0]]` -/
def unique (l : List Val) : List Val := (groupBy l).filterMap List.head?

/-- `min` / `max` through `cmp_by`: replace when `y < my` (min) resp. `y >= my` (max) -/
def minOf : List Val → Option Val
  | [] => none
  | x :: xs => some (xs.foldl (fun m y => if cmp y m == .lt then y else m) x)

def maxOf : List Val → Option Val
  | [] => none
  | x :: xs => some (xs.foldl (fun m y => if cmp y m != .lt then y else m) x)

/-- array subtraction `l - r`: `retain(|x| !set.contains(x))` with a `BTreeSet` (look-up by
`Ord`).  Exact when `cmp` is a total preorder on the elements. -/
def sub (l r : List Val) : List Val := l.filter fun x => !(r.any fun y => cmp y x == .eq)

def windows (n : Nat) (l : List Val) : List (List Val) :=
  if n == 0 || l.length < n then [] else (List.range (l.length - n + 1)).map fun i => (l.drop i).take n

/-- `indices` with an array as input -/
def indices (x : List Val) (y : Val) : List Nat :=
  match y with
  | .arr [] => []
  | .arr ys =>
    ((windows ys.length x).zipIdx.filter fun w => eqList eq w.1 ys).map (·.2)
  | y => (x.zipIdx.filter fun w => eq w.1 y).map (·.2)

def isInfix (pat : List UInt8) : List UInt8 → Bool
  | [] => pat.isEmpty
  | b :: s => pat.isPrefixOf (b :: s) || isInfix pat s

/-- `contains` -/
def containsF : Nat → Val → Val → Bool
  | 0, _, _ => false
  | n + 1, a, b =>
    match a, b with
    | .bstr l, .bstr r | .tstr l, .tstr r => isInfix r l
    | .arr l, .arr r => r.all fun r' => l.any fun l' => containsF n l' r'
    | .obj l, .obj r => r.all fun p =>
      match Obj.get l p.1 with
      | some lv => containsF n lv p.2
      | none => false
    | a, b => eq a b

def contains (a b : Val) : Bool := containsF (a.size + b.size) a b

/-- the answers `bsearch` may give on `a` for `x` when `a` is sorted: an index holding an
element that compares equal, or `-1 - i` with `i` the insertion point -/
def bsearchSpec (a : List Val) (x : Val) : List Int :=
  let hits := (a.zipIdx.filter fun w => cmp w.1 x == .eq).map fun w => Int.ofNat w.2
  if hits.isEmpty then [-1 - Int.ofNat (a.filter fun y => cmp y x == .lt).length] else hits

/-! ### the property's side conditions (decidable) -/

mutual
  /-- every number inside the value (elements, keys, values, at any depth) satisfies `p` -/
  def allNums (p : Num → Bool) : Val → Bool
    | .num n => p n
    | .arr a => allNumsL p a
    | .obj o => allNumsE p o
    | _ => true
  def allNumsL (p : Num → Bool) : List Val → Bool
    | [] => true
    | v :: vs => allNums p v && allNumsL p vs
  def allNumsE (p : Num → Bool) : List (Val × Val) → Bool
    | [] => true
    | (k, v) :: es => allNums p k && allNums p v && allNumsE p es
end

/-- no NaN: neither a float NaN nor a decimal literal that fails to parse -/
def Num.nanFree : Num → Bool
  | .float f => !F64.isNaN f
  | .dec s => !F64.isNaN (F64.ofDec s)
  | _ => true

/-- integers are within ±2^53 (where the conversion to `f64` is exact) -/
def Num.smallInt : Num → Bool
  | .int i | .big i => decide (i.natAbs ≤ 2 ^ 53)
  | _ => true

/-- floats (and decimal literals) are infinite -/
def Num.infFloat : Num → Bool
  | .float f => F64.isInf f
  | .dec s => F64.isInf (F64.ofDec s)
  | _ => true

/-- the integer converts to a finite `f64` (|i| < 2^1024 - 2^970); with the repair of F-08b in
the tree (`Cfg.hugeIntBelowInfinity`) big integers are exempt -/
def Num.convFinite : Num → Bool
  | .int i => F64.isFinite (F64.ofInt i)
  | .big i => Cfg.hugeIntBelowInfinity || F64.isFinite (F64.ofInt i)
  | _ => true

/-- no negative zero (the guard of the `_partial` hash-coherence theorems, finding F-08); no
restriction once `Num::hash` normalises zero -/
def Num.noNegZero : Num → Bool
  | .float f => Cfg.hashNormalisesZero || f != F64.negZero
  | .dec s => Cfg.hashNormalisesZero || F64.ofDec s != F64.negZero
  | _ => true

/-- **NaN-free** values (first side condition of the property) -/
def NaNFree (v : Val) : Bool := allNums Num.nanFree v

/-- The second side condition ("integers beyond 2^53 in magnitude are compared only among
integers or against infinities") holds for a group of values in one of two ways. -/
inductive Mode where
  /-- all integers are within ±2^53; floats are arbitrary (non-NaN) -/
  | smallInts
  /-- integers are arbitrary; all floats are infinite -/
  | infFloats
  deriving DecidableEq, Repr

def Num.inMode : Mode → Num → Bool
  | .smallInts, n => Num.nanFree n && Num.smallInt n
  | .infFloats, n => Num.nanFree n && Num.infFloat n && Num.convFinite n

/-- the value lies in the domain on which the order theorems are stated: NaN-free, the
`BigVsFloatGuard` in mode `m`, and (mode `infFloats`, while F-08b is open) no integer whose
conversion to `f64` overflows -/
def InDom (m : Mode) (v : Val) : Bool := allNums (Num.inMode m) v

/-- **BigVsFloatGuard** for a group of values that are compared with each other -/
def BigVsFloatGuard (vs : List Val) : Bool :=
  vs.all (allNums Num.smallInt) || vs.all (allNums Num.infFloat)

/-- no integer in the value overflows `f64` (guard of the `_partial` order theorems, F-08b) -/
def NoHugeInt (v : Val) : Bool := allNums Num.convFinite v

/-- no negative zero in the value (guard of the `_partial` hash theorems, F-08) -/
def NoNegZero (v : Val) : Bool := allNums Num.noNegZero v

/-- the type invariant of `Num::Int(isize)`: the payload of a machine integer fits an `isize`
(the model's `Int` is unbounded) -/
def WfInts (v : Val) : Bool := allNums Num.wf v

/-- the guard of mode `m` alone -/
def Num.guard : Mode → Num → Bool
  | .smallInts, n => Num.smallInt n
  | .infFloats, n => Num.infFloat n

/-- **the property's domain on a tree with the repair of F-08b**: NaN-free, the
`BigVsFloatGuard` in mode `m`, machine integers are machine integers — and nothing else (no
`NoHugeInt`) -/
def InDomR (m : Mode) (v : Val) : Bool := allNums (fun n => Num.nanFree n && Num.guard m n && Num.wf n) v

/-! ### the invariant of `IndexMap`: no two entries with equivalent keys

`Val.obj` of the model is a raw association list.  A real object never holds two keys that are
`==` (once hashing agrees with `==`, findings F-08 / F-08b): `insert` finds the first.  The
theorems about `==`, hashing and look-up assume this invariant for every object inside the values
(`WfKeys`); `Obj.insert`, `Obj.extend`, `Obj.ofList`, `Obj.update` and `Obj.merge` are proved to
preserve it (Props/C08.lean, `wfKeys_*`). -/

/-- the keys of the entries are pairwise non-equivalent under the order -/
def distinctKeys : Entries → Bool
  | [] => true
  | p :: ps => ps.all (fun q => cmp p.1 q.1 != .eq) && distinctKeys ps

mutual
  /-- every object inside the value (at any depth, also inside keys) satisfies `p` -/
  def allObjs (p : Entries → Bool) : Val → Bool
    | .arr a => allObjsL p a
    | .obj o => p o && allObjsE p o
    | _ => true
  def allObjsL (p : Entries → Bool) : List Val → Bool
    | [] => true
    | v :: vs => allObjs p v && allObjsL p vs
  def allObjsE (p : Entries → Bool) : List (Val × Val) → Bool
    | [] => true
    | (k, v) :: es => allObjs p k && allObjs p v && allObjsE p es
end

/-- every object inside the value has pairwise non-equivalent keys -/
def WfKeys (v : Val) : Bool := allObjs distinctKeys v

end Jaq.C08
