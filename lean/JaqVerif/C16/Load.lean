/-
C16 — model of the module loader (`jaq-core/src/load/mod.rs`: `Loader::load`, `Loader::find`,
`parse::Module::map`, `import()`).

The loader is modelled over an abstract reader.  A source file enters as its *parsed header*:
the list of directives (`include "p" meta;` / `import "p" as m meta;` / `import "p" as $x meta;`)
plus an opaque body, or the fact that lexing/parsing fails.  `S` is whatever identifies the
target of a directive to the reader (path text and `search` metadata), `P` the path type the
reader answers with (`PathBuf` after `canonicalize` for the CLI, anything for `with_read`).

Function by function:
  * `mapDeps`  = `parse::Module::map` (data imports collected, every other directive resolved
                 through the callback; errors accumulated; module 0 implicitly included)
  * `find`     = `Loader::find` (read, `mods.position` by path, `open.contains`, push, recurse,
                 pop, push to `mods`, answer the new index)
  * `load`     = `Loader::load` (main module is parsed and mapped first but is *not* put on the
                 `open` stack nor into `mods`; then errors of all modules are collected)
  * `fileVars` = `Modules::file_vars` / `import()` (data imports in load order, main last)
The recursion of `find` is not structural in Rust (it ends because the `open` stack cannot
repeat a path); the model takes a fuel argument and answers `none` when it runs out —
`Props/C16.lean` proves that this never happens once `fuel > number of distinct paths`.
-/
namespace Jaq.C16

/-- a directive of a module header; `as_ = none`: include, `some "$x"`: data import, `some "m"`: import -/
structure Directive (S : Type) where
  path : S
  as_ : Option String
  deriving Repr, BEq, DecidableEq

def Directive.isData {S} (d : Directive S) : Bool :=
  match d.as_ with
  | some x => x.startsWith "$"
  | none => false

/-- a source file as the loader sees it after lexing and parsing -/
inductive Src (S B : Type) where
  | bad                                              -- lex or parse error
  | ok (deps : List (Directive S)) (body : B)
  deriving Repr

/-- error of a single module (`load::Error`), message texts abstracted to classes -/
inductive ModErr (S : Type) where
  | io (errs : List (S × String))                    -- `Error::Io`
  | syntax                                           -- `Error::Lex` / `Error::Parse`
  deriving Repr, BEq, DecidableEq

/-- `load::Module`: resolved header -/
structure Module (S B : Type) where
  mods : List (Nat × Option String)                  -- (module index, none = included / some m = imported as m)
  vars : List (S × String)                           -- data imports (path, `$name`)
  body : B
  deriving Repr

abbrev ModRes (S B : Type) := Except (ModErr S) (Module S B)

/-- loader state: `mods` (in the order they were *finished*) and the `open` stack -/
structure LState (P S B : Type) where
  mods : List (P × ModRes S B)
  opened : List P
  /-- reader calls so far (parent, directive target): observable through `with_read` -/
  trace : List (P × S)

/-- the reader: `(self.read)(Import { parent, path, meta })` -/
abbrev Reader (P S B : Type) := P → S → Except String (P × Src S B)

def circularMsg : String := "circular include/import"

/-- `parse::Module::map` with callback `f` (threading the loader state) -/
def mapDeps {P S B : Type} (f : LState P S B → S → Option (LState P S B × Except String Nat)) :
    List (Directive S) → LState P S B → List (Nat × Option String) → List (S × String) →
    List (S × String) → Option (LState P S B × List (Nat × Option String) × List (S × String) × List (S × String))
  | [], st, mods, vars, errs => some (st, mods, vars, errs)
  | d :: ds, st, mods, vars, errs =>
    if d.isData then
      mapDeps f ds st mods (vars ++ [(d.path, d.as_.getD "")]) errs
    else
      match f st d.path with
      | none => none
      | some (st', .ok mid) => mapDeps f ds st' (mods ++ [(mid, d.as_)]) vars errs
      | some (st', .error e) => mapDeps f ds st' mods vars (errs ++ [(d.path, e)])

/-- the result of `map`: `Ok(Module)` iff no directive failed -/
def mapResult {S B : Type} (mods : List (Nat × Option String)) (vars errs : List (S × String)) (body : B) :
    ModRes S B :=
  if errs.isEmpty then .ok { mods, vars, body } else .error (.io errs)

/-- header → module through `map`, or syntax error -/
def mapSrc {P S B : Type} (f : LState P S B → S → Option (LState P S B × Except String Nat))
    (src : Src S B) (st : LState P S B) : Option (LState P S B × ModRes S B) :=
  match src with
  | .bad => some (st, .error .syntax)
  | .ok deps body =>
    match mapDeps f deps st [(0, none)] [] [] with
    | none => none
    | some (st', mods, vars, errs) => some (st', mapResult mods vars errs body)

/-- `Iterator::position`: index of the first element satisfying `p` -/
def position {α : Type} (p : α → Bool) : List α → Option Nat
  | [] => none
  | a :: r => if p a then some 0 else (position p r).map (· + 1)

/-- `Loader::find`; `none` = fuel exhausted (proved impossible for finite file sets) -/
def find {P S B : Type} [BEq P] (read : Reader P S B) :
    Nat → P → LState P S B → S → Option (LState P S B × Except String Nat)
  | 0, _, _, _ => none
  | fuel + 1, parent, st, s =>
    let st := { st with trace := st.trace ++ [(parent, s)] }
    match read parent s with
    | .error e => some (st, .error e)
    | .ok (path, src) =>
      match position (fun m => path == m.1) st.mods with
      | some id => some (st, .ok id)
      | none =>
        if st.opened.contains path then some (st, .error circularMsg)
        else
          let st1 := { st with opened := st.opened ++ [path] }
          match mapSrc (fun st' s' => find read fuel path st' s') src st1 with
          | none => none
          | some (st2, defs) =>
            let st3 := { st2 with opened := st2.opened.dropLast }
            some ({ st3 with mods := st3.mods ++ [(path, defs)] }, .ok st3.mods.length)

/-- result of `Loader::load` -/
inductive LoadRes (P S B : Type) where
  /-- `Ok(Modules { deps, main })`; `deps[0]` is the prelude -/
  | ok (deps : List (P × Module S B)) (main : P × Module S B)
  /-- `Err(errs)`: main first (if it failed), then failed modules in `mods` order -/
  | err (errs : List (P × ModErr S))

def collectOk {P S B : Type} : List (P × ModRes S B) → List (P × Module S B)
  | [] => []
  | (p, .ok m) :: r => (p, m) :: collectOk r
  | (_, .error _) :: r => collectOk r

def collectErr {P S B : Type} : List (P × ModRes S B) → List (P × ModErr S)
  | [] => []
  | (_, .ok _) :: r => collectErr r
  | (p, .error e) :: r => (p, e) :: collectErr r

/-- initial loader state: the prelude occupies index 0 under the default path (`File::default()`) -/
def initState {P S B : Type} (dflt : P) (prelude : B) : LState P S B :=
  { mods := [(dflt, .ok { mods := [], vars := [], body := prelude })], opened := [], trace := [] }

/-- `Loader::load`: returns the final state (for the trace) and the result -/
def load {P S B : Type} [BEq P] (read : Reader P S B) (fuel : Nat) (dflt : P) (prelude : B)
    (mainPath : P) (mainSrc : Src S B) : Option (LState P S B × LoadRes P S B) :=
  match mapSrc (fun st s => find read fuel mainPath st s) mainSrc (initState dflt prelude) with
  | none => none
  | some (st, res) =>
    let errs := (match res with | .error e => [(mainPath, e)] | .ok _ => []) ++ collectErr st.mods
    match res with
    | .ok m => if errs.isEmpty then some (st, .ok (collectOk st.mods) (mainPath, m)) else some (st, .err errs)
    | .error _ => some (st, .err errs)

/-- `Modules::file_vars` flattened as `Compiler::compile` / `import()` walk it:
    (module index, parent path, data path, `$name`), dependencies in load order, main last -/
def fileVars {P S B : Type} (deps : List (P × Module S B)) (main : P × Module S B) :
    List (Nat × P × S × String) :=
  let all := deps ++ [main]
  (all.zipIdx.map fun (pm, i) => pm.2.vars.map fun (s, x) => (i, pm.1, s, x)).flatten

end Jaq.C16
