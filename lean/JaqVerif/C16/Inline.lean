/-
C16 — name resolution across modules (`jaq-core/src/compile.rs`: `Compiler::compile`
(`imported_vars`), `open_module`, `module`, `call`, `call_mod`, `call_mod_id`, `var`;
`Locals::{push_parent, push_sibling, push_arg, call}`), the run-time variable vector
(`jaq/src/main.rs: real_main`, `Vars::new`), and the specification `inline`.

Part 1 — the look-up functions of the compiler on their own data (what the theorems are about):
  `lastPos` (= `MapVecLen.bound.get_last`), `varIndex` (= `Compiler::var`), `callModId`,
  `callIncluded` (the `included_mods` loop of `Compiler::call`), `callMod`.
Part 2 — a small term language ("probe language": string tags, arrays, variables, calls,
  qualified calls, `as` binders, labels, nested definitions with `$`/filter parameters) with
  (a) the static resolver of the compiler (`checkTm`: which symbol is undefined where) and
  (b) a name-level evaluator that resolves every call/variable in the order the compiler does.
Part 3 — `inline`: the single program that replaces every include/import by the definitions
  it brings in (imports prefixed `m__`, includes plain, data imports as `as` bindings).
-/
import JaqVerif.C16.Load

namespace Jaq.C16

/-! ## Part 1: look-up functions of the compiler -/

/-- `compile::Bind`: what occupies a slot of the local environment -/
inductive Bind where
  | var (x : String)      -- `$x` (binder or `$`-parameter)
  | label (x : String)    -- `label $x`
  | fn (x : String)       -- filter parameter
  deriving Repr, BEq, DecidableEq

/-- `MapVecLen`: the stack of local slots, **head = most recently pushed**.  The position
    recorded at push time (`total` after the push) is `tail.length + 1`. -/
abbrev Stack := List Bind

/-- `self.locals.vars.bound.get_last(&b)`: position recorded by the latest push of `b` -/
def lastPos (b : Bind) : Stack → Option Nat
  | [] => none
  | c :: r => if c = b then some (r.length + 1) else lastPos b r

/-- the `imported_vars` loop of `Compiler::var` over the *reversed* vector: `inl i` found at
    index `i`, `inr i` not found, counter now `i` -/
def scanImported (cur : Nat) (x : String) : List (String × Nat) → Nat → Nat ⊕ Nat
  | [], i => .inr i
  | (x', mid) :: r, i => if x = x' ∧ mid = cur then .inl i else scanImported cur x r (i + 1)

/-- the `global_vars` loop of `Compiler::var` over the reversed vector -/
def scanGlobals (x : String) : List String → Nat → Option Nat
  | [], _ => none
  | x' :: r, i => if x = x' then some i else scanGlobals x r (i + 1)

/-- `Compiler::var`: index of `$x` in the run-time environment, `none` = `Undefined::Var`.
    `imported` = `imported_vars` (all data imports of all modules in load order, with the index
    of their module), `cur` = `mod_map.len()` (index of the module being compiled),
    `globals` = `global_vars`. -/
def varIndex (stack : Stack) (imported : List (String × Nat)) (cur : Nat) (globals : List String)
    (x : String) : Option Nat :=
  match lastPos (.var x) stack with
  | some v => some (stack.length - v)
  | none =>
    match scanImported cur x imported.reverse stack.length with
    | .inl i => some i
    | .inr i => scanGlobals x globals.reverse i

/-- `Sig` of a module-level definition -/
structure Sig where
  name : String
  arity : Nat
  deriving Repr, BEq, DecidableEq

def Sig.matches (s : Sig) (name : String) (arity : Nat) : Bool := name = s.name ∧ arity = s.arity

/-- first match in the reversed list, as index into the original list -/
def findLastIdx {α : Type} (p : α → Bool) : List α → Option Nat
  | [] => none
  | a :: r =>
    match findLastIdx p r with
    | some k => some (k + 1)
    | none => if p a then some 0 else none

/-- `call_mod_id`: the **last** definition of the module with this name and arity -/
def callModId (defs : List Sig) (name : String) (arity : Nat) : Option Nat :=
  findLastIdx (fun s => s.matches name arity) defs

inductive Lookup where
  | found (mid k : Nat)        -- definition `k` of module `mid`
  | undefMod                   -- `Undefined::Mod`
  | undef                      -- `Undefined::Filter(arity)` (for `callIncluded`: go on with natives)
  | oob                        -- `self.mod_map[mid]` out of range (panic); proved unreachable after `load`
  deriving Repr, BEq, DecidableEq

/-- the `included_mods.iter().rev()` loop of `Compiler::call` (input already reversed) -/
def callIncludedRev (modMap : List (List Sig)) (name : String) (arity : Nat) : List Nat → Lookup
  | [] => .undef
  | mid :: r =>
    match modMap[mid]? with
    | none => .oob
    | some defs =>
      match callModId defs name arity with
      | some k => .found mid k
      | none => callIncludedRev modMap name arity r

def callIncluded (modMap : List (List Sig)) (included : List Nat) (name : String) (arity : Nat) : Lookup :=
  callIncludedRev modMap name arity included.reverse

/-- `call_mod`: the **last** import under that name, then only that module -/
def callMod (modMap : List (List Sig)) (imported : List (Nat × String)) (m name : String) (arity : Nat) :
    Lookup :=
  match imported.reverse.find? (fun e => m = e.2) with
  | none => .undefMod
  | some (mid, _) =>
    match modMap[mid]? with
    | none => .oob
    | some defs =>
      match callModId defs name arity with
      | some k => .found mid k
      | none => .undef

/-- `open_module`: split the header's `mods` into included and imported -/
def includedOf (mods : List (Nat × Option String)) : List Nat :=
  mods.filterMap fun (mid, a) => match a with | none => some mid | some _ => none

def importedOf (mods : List (Nat × Option String)) : List (Nat × String) :=
  mods.filterMap fun (mid, a) => match a with | none => none | some m => some (mid, m)

/-! ### specification side of the look-ups -/

/-- run-time environment as a list, index 0 first: local slots (innermost first), then the data
    imports of all modules from the far end, then the global variables from the far end
    (`Vars::new(globals ++ imported)`, binders consed in front) -/
def envOf {V : Type} (locals : List (Bind × V)) (imp : List ((String × Nat) × V)) (glob : List (String × V)) : List V :=
  locals.map (·.2) ++ ((imp.map (·.2)).reverse ++ (glob.map (·.2)).reverse)

/-- what `$x` means in module `cur`: innermost local binder, else the latest data import of this
    module under that name, else the latest global of that name -/
def specVar {V : Type} (locals : List (Bind × V)) (imp : List ((String × Nat) × V)) (cur : Nat)
    (glob : List (String × V)) (x : String) : Option V :=
  match locals.find? (fun e => e.1 = .var x) with
  | some e => some e.2
  | none =>
    match imp.reverse.find? (fun e => x = e.1.1 ∧ e.1.2 = cur) with
    | some e => some e.2
    | none => (glob.reverse.find? (fun e => x = e.1)).map (·.2)


/-! ### the run-time vector of the command line (`jaq/src/main.rs`: `binds`, `real_main`) -/

/-- the variable options of the command line, each kind in command-line order, and the values
    of `$ARGS` and `$ENV` -/
structure CliVars (V : Type) where
  arg : List (String × V)          -- `--arg k s`
  rawfile : List (String × V)      -- `--rawfile k file`
  slurpfile : List (String × V)    -- `--slurpfile k file`
  argjson : List (String × V)      -- `--argjson k json`
  args : V
  env : V

/-- `binds`: `arg.chain(rawfile).chain(slurpfile).chain(argjson)` (grouped by kind, NOT in
    command-line order), then `ARGS`, then `ENV` -/
def binds {V : Type} (c : CliVars V) : List (String × V) :=
  c.arg ++ c.rawfile ++ c.slurpfile ++ c.argjson ++ [("ARGS", c.args), ("ENV", c.env)]

/-- `real_main`: `!input_filename` is pushed after the bindings; `parse_compile` prefixes every
    name with `$` and hands the names to `Compiler::with_global_vars` -/
def cliGlobals {V : Type} (c : CliVars V) (fname : V) : List (String × V) :=
  (binds c ++ [("!input_filename", fname)]).map fun e => ("$" ++ e.1, e.2)

/-- `Vars::new(v)` = `RcList::new().extend(v)`: the LAST element of the vector gets index 0 -/
def varsNew {V : Type} (l : List V) : List V := l.reverse

/-- the environment a filter runs in under `real_main`: the vector is
    `[named…, ARGS, ENV, input_filename]`, then `vars.extend(var_vals)` appends the values of the
    data imports (in `import()` order), `Vars::new` turns it around, binders cons in front -/
def realMainEnv {V : Type} (c : CliVars V) (fname : V) (locals : List (Bind × V)) (imp : List ((String × Nat) × V)) :
    List V :=
  locals.map (·.2) ++ varsNew ((cliGlobals c fname).map (·.2) ++ imp.map (·.2))

/-- the module-level definitions a list of includes brings in, in the textual order of the
    inlined program: (module, index in the module, signature) -/
def block (mid : Nat) (defs : List Sig) : List (Nat × Nat × Sig) :=
  defs.zipIdx.map fun (s, k) => (mid, k, s)

def broughtIn (mm : List (List Sig)) (inc : List Nat) : List (Nat × Nat × Sig) :=
  (inc.map fun mid => block mid (mm[mid]?.getD [])).flatten

def lookupOf : Option (Nat × Nat) → Lookup
  | some (mid, k) => .found mid k
  | none => .undef

/-- ordinary lexical look-up in one flat list of definitions: the latest one wins -/
def lexical (scope : List (Nat × Nat × Sig)) (name : String) (ar : Nat) : Option (Nat × Nat) :=
  (scope.reverse.find? fun e => e.2.2.matches name ar).map fun e => (e.1, e.2.1)


/-! ## Part 2: probe language -/

inductive Param where
  | var (x : String)      -- `$x`
  | fn (f : String)       -- `f`
  deriving Repr, BEq, DecidableEq

mutual
inductive Tm where
  | tag (t : String)                              -- "t"
  | var (x : String)                              -- $x
  | call (f : String) (args : List Tm)            -- f(a; b)
  | qcall (m f : String) (args : List Tm)         -- m::f(a; b)
  | bind (v : Tm) (x : String) (body : Tm)        -- (v as $x | body)
  | lbl (l : String) (body : Tm)                  -- (label $l | body)
  | defs (ds : List Def) (body : Tm)              -- (def …; body)
  | arr (ts : List Tm)                            -- [a, b]
inductive Def where
  | mk (name : String) (params : List Param) (body : Tm)
end

def Def.name : Def → String | .mk n _ _ => n
def Def.params : Def → List Param | .mk _ p _ => p
def Def.body : Def → Tm | .mk _ _ b => b
def Def.sig (d : Def) : Sig := ⟨d.name, d.params.length⟩

/-- body of a source file: definitions, and for the main module the main term -/
structure Body where
  defs : List Def
  main : Option Tm

/-- a loaded program: modules in load order (index 0 = prelude), main last; global variable
    names (`with_global_vars`) -/
structure Graph (S : Type) where
  mods : List (Module S Body)          -- deps ++ [main]
  globals : List String

def Graph.cur {S} (g : Graph S) : Nat := g.mods.length - 1

def Graph.modMap {S} (g : Graph S) : List (List Sig) := g.mods.map fun m => m.body.defs.map Def.sig

/-- `imported_vars` of `Compiler::compile` -/
def Graph.importedVars {S} (g : Graph S) : List (String × Nat) :=
  (g.mods.zipIdx.map fun (m, i) => m.vars.map fun (_, x) => (x, i)).flatten

inductive Undef where
  | mod | var | filter (arity : Nat)
  deriving Repr, BEq, DecidableEq

/-- static scope of the compiler (`Locals`): head = latest -/
inductive SEntry where
  | slot (b : Bind)                      -- variable / label / filter parameter (occupies a slot)
  | fn (name : String) (arity : Nat)     -- sibling or parent definition
  deriving Repr, BEq, DecidableEq

def SEntry.isFun (name : String) (arity : Nat) : SEntry → Bool
  | .slot (.fn f) => f = name ∧ arity = 0
  | .fn n a => n = name ∧ a = arity
  | _ => false

def scopeStack : List SEntry → Stack
  | [] => []
  | .slot b :: r => b :: scopeStack r
  | .fn _ _ :: r => scopeStack r

def paramEntries (ps : List Param) : List SEntry :=
  (ps.map fun p => match p with | .var x => SEntry.slot (.var x) | .fn f => SEntry.slot (.fn f)).reverse

/-- natives and prelude definitions that probe programs may use (lowest priority).  On input
    `null`: `type` → "null", `length` → 0, `not` → true. -/
def builtins : List (String × Nat × String) :=
  [("type", 0, "\"null\""), ("length", 0, "0"), ("not", 0, "true")]

def builtin? (name : String) (arity : Nat) : Option String :=
  (builtins.find? fun b => b.1 = name ∧ b.2.1 = arity).map (·.2.2)

def defName : Def → String | .mk n _ _ => n
def defArity : Def → Nat | .mk _ ps _ => ps.length
/-- scope entries pushed by a list of sibling definitions (head = latest) -/
def defsScope (ds : List Def) : List SEntry := (ds.map fun d => SEntry.fn (defName d) (defArity d)).reverse

mutual
/-- undefined symbols in the order `Compiler::term` reports them; `mid` = module being compiled -/
def checkTm {S} (g : Graph S) (mid : Nat) (sc : List SEntry) : Tm → List (String × Undef)
  | .tag _ => []
  | .var x =>
    match varIndex (scopeStack sc) g.importedVars mid g.globals x with
    | some _ => []
    | none => [(x, .var)]
  | .call f args =>
    checkTms g mid sc args ++
    (if sc.any (SEntry.isFun f args.length) then []
     else match callIncluded g.modMap (includedOf (g.mods[mid]?.map (·.mods) |>.getD [])) f args.length with
       | .found _ _ => []
       | _ => if (builtin? f args.length).isSome then [] else [(f, .filter args.length)])
  | .qcall m f args =>
    checkTms g mid sc args ++
    (match callMod g.modMap (importedOf (g.mods[mid]?.map (·.mods) |>.getD [])) m f args.length with
     | .found _ _ => []
     | .undefMod => [(m, .mod)]
     | _ => [(f, .filter args.length)])
  | .bind v x body => checkTm g mid sc v ++ checkTm g mid (.slot (.var x) :: sc) body
  | .lbl l body => checkTm g mid (.slot (.label l) :: sc) body
  | .defs ds body => checkDefs g mid sc ds ++ checkTm g mid (defsScope ds ++ sc) body
  | .arr ts => checkTms g mid sc ts
def checkTms {S} (g : Graph S) (mid : Nat) (sc : List SEntry) : List Tm → List (String × Undef)
  | [] => []
  | t :: ts => checkTm g mid sc t ++ checkTms g mid sc ts
/-- a definition sees its parameters, itself and what was in scope before it -/
def checkDef {S} (g : Graph S) (mid : Nat) (sc : List SEntry) : Def → List (String × Undef)
  | .mk n ps b => checkTm g mid (.fn n ps.length :: (paramEntries ps ++ sc)) b
/-- `Def(defs, t)` / `Compiler::module`: each definition sees the earlier ones -/
def checkDefs {S} (g : Graph S) (mid : Nat) (sc : List SEntry) : List Def → List (String × Undef)
  | [] => []
  | d :: ds => checkDef g mid sc d ++ checkDefs g mid (.fn (defName d) (defArity d) :: sc) ds
end


/-- compile errors per module index (only modules with errors), as `Compiler::compile` -/
def compileErrors {S} (g : Graph S) : List (Nat × List (String × Undef)) :=
  g.mods.zipIdx.filterMap fun (m, i) =>
    let e := checkDefs g i [] m.body.defs ++
      (match m.body.main with | some t => checkTm g i (defsScope m.body.defs) t | none => [])
    if e.isEmpty then none else some (i, e)

/-! ### evaluator -/

inductive V where
  | tag (s : String)
  | raw (json : String)
  | arr (vs : List V)

partial def V.json : V → String
  | .tag s => "\"" ++ s ++ "\""
  | .raw j => j
  | .arr vs => "[" ++ ",".intercalate (vs.map V.json) ++ "]"

inductive Entry where
  | val (x : String) (v : V)
  | lbl (x : String)
  | clo (f : String) (t : Tm) (env : List Entry) (mid : Nat)      -- filter argument
  | ldef (d : Def) (env : List Entry) (mid : Nat)                 -- nested definition
  | mdef (mid k : Nat)                                            -- module-level definition

/-- run-time values of data imports (parallel to `importedVars`) and globals -/
structure VarVals where
  imported : List V
  globals : List V

def lookupVar {S} (g : Graph S) (vv : VarVals) (mid : Nat) (x : String) : List Entry → Option V
  | .val y v :: r => if x = y then some v else lookupVar g vv mid x r
  | _ :: r => lookupVar g vv mid x r
  | [] =>
    match ((g.importedVars.zip vv.imported).reverse.find? fun e => x = e.1.1 ∧ e.1.2 = mid) with
    | some e => some e.2
    | none => ((g.globals.zip vv.globals).reverse.find? fun e => x = e.1).map (·.2)

/-- `[mdef mid (k-1), …, mdef mid 0]`: the first `k` definitions of module `mid`, latest first -/
def mdefsBelow (mid : Nat) : Nat → List Entry
  | 0 => []
  | k + 1 => Entry.mdef mid k :: mdefsBelow mid k

/-- what definition `k` of module `mid` sees of its own module: itself and the earlier ones -/
def mdefEntries (mid k : Nat) : List Entry := mdefsBelow mid (k + 1)

def defsOf {S} (g : Graph S) (mid : Nat) : List Def := (g.mods[mid]?.map (·.body.defs)).getD []

def modDef {S} (g : Graph S) (mid k : Nat) : Option Def := g.mods[mid]?.bind fun mo => mo.body.defs[k]?

def headerOf {S} (g : Graph S) (mid : Nat) : List (Nat × Option String) := (g.mods[mid]?.map (·.mods)).getD []

/-- what a call refers to -/
inductive Target where
  | clo (t : Tm) (env : List Entry) (mid : Nat)        -- filter argument: run `t` where it was written
  | fn (d : Def) (env : List Entry) (mid : Nat)        -- definition: bind the parameters on top of `env`, run the body in module `mid`
  | builtin (json : String)
  | oob
  | undef

/-- unqualified call among the local entries (parameters, nested definitions, the module's own
    earlier definitions and the definition itself) -/
def findFn {S} (g : Graph S) (f : String) (n : Nat) : List Entry → Option Target
  | [] => none
  | .clo f' t' cenv cmid :: r => if f' = f ∧ n = 0 then some (.clo t' cenv cmid) else findFn g f n r
  | .ldef d denv dmid :: r =>
    if d.name = f ∧ d.params.length = n then some (.fn d (.ldef d denv dmid :: denv) dmid) else findFn g f n r
  | .mdef m k :: r =>
    match modDef g m k with
    | some d => if d.name = f ∧ d.params.length = n then some (.fn d (mdefEntries m k) m) else findFn g f n r
    | none => findFn g f n r
  | .val _ _ :: r => findFn g f n r
  | .lbl _ :: r => findFn g f n r

def lookupTarget {S} (g : Graph S) : Lookup → Target
  | .found im k => match modDef g im k with | some d => .fn d (mdefEntries im k) im | none => .oob
  | .oob => .oob
  | _ => .undef

/-- Resolution order of unqualified calls: local entries, included modules latest first (the
    `included_mods` loop), natives. -/
def resolveCall {S} (g : Graph S) (mid : Nat) (env : List Entry) (f : String) (n : Nat) : Target :=
  match findFn g f n env with
  | some t => t
  | none =>
    match callIncluded g.modMap (includedOf (headerOf g mid)) f n with
    | .found im k => lookupTarget g (.found im k)
    | _ => match builtin? f n with
      | some j => .builtin j
      | none => .undef

/-- qualified call: the last import of that name, then only that module -/
def resolveQCall {S} (g : Graph S) (mid : Nat) (m f : String) (n : Nat) : Target :=
  lookupTarget g (callMod g.modMap (importedOf (headerOf g mid)) m f n)

/-- arguments are bound left to right on top of `acc`: `$`-parameters are evaluated at the call
    site, filter parameters become closures over the call site -/
def bindArgs (ev : Tm → Except String V) (env : List Entry) (mid : Nat) :
    List Param → List Tm → List Entry → Except String (List Entry)
  | .var x :: ps, a :: as, acc =>
    match ev a with
    | .ok v => bindArgs ev env mid ps as (Entry.val x v :: acc)
    | .error e => .error e
  | .fn f :: ps, a :: as, acc => bindArgs ev env mid ps as (Entry.clo f a env mid :: acc)
  | _, _, acc => .ok acc

def evalList (ev : Tm → Except String V) : List Tm → Except String (List V)
  | [] => .ok []
  | t :: ts =>
    match ev t with
    | .ok v => match evalList ev ts with
      | .ok vs => .ok (v :: vs)
      | .error e => .error e
    | .error e => .error e

/-- `def …; def …; body`: each definition sees the earlier ones (and itself, see `findFn`) -/
def pushDefs (mid : Nat) (env : List Entry) (ds : List Def) : List Entry :=
  ds.foldl (fun e d => Entry.ldef d e mid :: e) env

/-- run what a call refers to; `ev` = the evaluator with less fuel -/
def runTarget (ev : Nat → List Entry → Tm → Except String V) (env : List Entry) (mid : Nat)
    (tg : Target) (args : List Tm) (what : String) : Except String V :=
  match tg with
  | .clo t' cenv cmid => ev cmid cenv t'
  | .fn d denv dmid =>
    match bindArgs (ev mid env) env mid d.params args denv with
    | .ok env' => ev dmid env' d.body
    | .error e => .error e
  | .builtin j => .ok (.raw j)
  | .oob => .error "oob"
  | .undef => .error ("undefined " ++ what)

/-- Big-step evaluation on input `null`; every probe term has exactly one output.
    `env` head = innermost, `mid` = the module whose text is being run. -/
def eval {S} (g : Graph S) (vv : VarVals) : Nat → Nat → List Entry → Tm → Except String V
  | 0, _, _, _ => .error "fuel"
  | fuel + 1, mid, env, t =>
    match t with
    | .tag s => .ok (.tag s)
    | .var x => match lookupVar g vv mid x env with | some v => .ok v | none => .error ("undefined $" ++ x)
    | .arr ts => match evalList (eval g vv fuel mid env) ts with | .ok vs => .ok (.arr vs) | .error e => .error e
    | .bind v x b =>
      match eval g vv fuel mid env v with
      | .ok a => eval g vv fuel mid (.val x a :: env) b
      | .error e => .error e
    | .lbl l b => eval g vv fuel mid (.lbl l :: env) b
    | .defs ds b => eval g vv fuel mid (pushDefs mid env ds) b
    | .qcall m f args => runTarget (eval g vv fuel) env mid (resolveQCall g mid m f args.length) args (m ++ "::" ++ f)
    | .call f args => runTarget (eval g vv fuel) env mid (resolveCall g mid env f args.length) args f

def evalFuel : Nat := 4000

/-- run the main term of the graph -/
def runGraph {S} (g : Graph S) (vv : VarVals) : Except String V :=
  match g.mods.getLast? with
  | none => .error "no main"
  | some m =>
    match m.body.main with
    | none => .error "no main"
    | some t => eval g vv evalFuel g.cur (mdefsBelow g.cur m.body.defs.length) t

/-! ## Part 3: the inlined program -/

def freshParam (i : Nat) : Param → Param
  | .var _ => .var ("$__a" ++ toString i)
  | .fn _ => .fn ("__a" ++ toString i)

def paramArg : Param → Tm
  | .var x => .var x
  | .fn f => .call f []

mutual
/-- rewrite `m::f(…)` to `m__f(…)` -/
def unqualify : Tm → Tm
  | .tag t => .tag t
  | .var x => .var x
  | .call f args => .call f (unqualifyL args)
  | .qcall m f args => .call (m ++ "__" ++ f) (unqualifyL args)
  | .bind v x b => .bind (unqualify v) x (unqualify b)
  | .lbl l b => .lbl l (unqualify b)
  | .defs ds b => .defs (unqualifyD ds) (unqualify b)
  | .arr ts => .arr (unqualifyL ts)
def unqualifyL : List Tm → List Tm
  | [] => []
  | t :: ts => unqualify t :: unqualifyL ts
def unqualifyDef : Def → Def
  | .mk n ps b => .mk n ps (unqualify b)
def unqualifyD : List Def → List Def
  | [] => []
  | d :: ds => unqualifyDef d :: unqualifyD ds
end

/-- bind the data imports of a module around a term: `(DATA as $x | …)`, first import outermost -/
def bindData (vars : List (String × Tm)) (t : Tm) : Tm :=
  vars.foldr (fun (x, v) acc => Tm.bind v x acc) t

def wrapperName (mid k : Nat) : String := "__w" ++ toString mid ++ "_" ++ toString k

/-- what a module exports under a prefix: `def PREFIXf(__a0; $__a1): __wMID_K(__a0; $__a1);` per
    definition, in definition order (so that later ones shadow earlier ones) -/
def aliases {S} (g : Graph S) (mid : Nat) (pre : String) : List Def :=
  match g.mods[mid]? with
  | none => []
  | some m =>
    m.body.defs.zipIdx.map fun (d, k) =>
      let ps := d.params.zipIdx.map fun (p, i) => freshParam i p
      Def.mk (pre ++ d.name) ps (.call (wrapperName mid k) (ps.map paramArg))

/-- The definitions of module `mid`, each one closed under a fresh name: definition `k` named
    `f` becomes

      def __wMID_K(__a0; $__a1):
        ( def __w…; …            -- closed definitions of the modules `mid` includes/imports
          def g: __w…; def m__h: __w…;  -- their names: plain for includes, `m__` for `import … as m`
          DATA as $x |           -- the data imports of `mid`
          def d_0 …; def d_k …;  -- the definitions of `mid` up to and including `f`
          f(__a0; $__a1) )

    so that `f` sees exactly what it sees in its module and nothing of the place it is inlined
    at (the fresh names are never mentioned by module code).  `dataOf i` = the bindings
    (name, value term) of module `i`.  `fuel` bounds the depth of the module DAG (indices
    strictly decrease after `load`). -/
def wrappers {S} (g : Graph S) (dataOf : Nat → List (String × Tm)) : Nat → Nat → List Def
  | 0, _ => []
  | fuel + 1, mid =>
    match g.mods[mid]? with
    | none => []
    | some m =>
      let deps := m.mods.filter fun (j, _) => j ≠ 0
      let preamble : List Def :=
        (deps.map fun (j, _) => wrappers g dataOf fuel j).flatten ++
        (deps.map fun (j, a) => aliases g j (match a with | none => "" | some al => al ++ "__")).flatten
      let own := m.body.defs.map unqualifyDef
      own.zipIdx.map fun (d, k) =>
        let ps := d.params.zipIdx.map fun (p, i) => freshParam i p
        Def.mk (wrapperName mid k) ps
          (.defs preamble (bindData (dataOf mid) (.defs (own.take (k + 1)) (.call d.name (ps.map paramArg)))))

/-- the whole program as one term without directives: every `include`/`import` of the main
    module is replaced by the (closed) definitions it brings in -/
def inline {S} (g : Graph S) (dataOf : Nat → List (String × Tm)) : Tm :=
  match g.mods[g.cur]? with
  | none => .tag "no main"
  | some m =>
    let deps := m.mods.filter fun (j, _) => j ≠ 0
    let preamble : List Def :=
      (deps.map fun (j, _) => wrappers g dataOf g.mods.length j).flatten ++
      (deps.map fun (j, a) => aliases g j (match a with | none => "" | some al => al ++ "__")).flatten
    .defs preamble (bindData (dataOf g.cur)
      (.defs (m.body.defs.map unqualifyDef) ((m.body.main.map unqualify).getD (.tag "no main"))))

end Jaq.C16
