/-
C16 — the inlined program as a single lexically scoped program.

`evalL` is the evaluator of the probe language for ONE program: there are no modules, no module
tables and no module index; the only scoping rule is "the innermost entry of the environment
with that name (and arity) wins".  Definitions are closures over the scope they were written in.

`baseL`/`scopeL` build the scope in which the text of a module is read when every
`include`/`import`/data import of its header is *replaced by what it brings in*:

    scope of module `mid`  =  for each directive of the header, latest first:
                                 `include "j"`     the definitions of `j`, last one first, plain
                                 `import "j" as m` the definitions of `j`, last one first, as `m::f`
                                 (each definition closed over the scope of ITS OWN file `j`, built
                                  the same way, so nothing of `mid` is visible in it)
                              then the data imports of `mid` itself (`… as $x`), latest first
                              then the command-line variables, latest first

`runLexical` runs the main term in the scope of the main module.  `Props/C16.lean`
(`run_modules_eq_run_inlined`) proves that the modular evaluator `eval` (module tables,
`callIncluded`/`callMod`/`callModId`, variables looked up by module index) computes the same.
-/
import JaqVerif.C16.Inline

namespace Jaq.C16

/-- environment entry of the single program -/
inductive LEntry where
  | val (x : String) (v : V)
  | lbl (x : String)
  | clo (f : String) (t : Tm) (env : List LEntry)                 -- filter argument
  /-- definition written in scope `env`; `q = some m`: it was brought in by `import … as m`
      and is called `m::name` here -/
  | ldef (q : Option String) (d : Def) (env : List LEntry)

inductive TargetL where
  | clo (t : Tm) (env : List LEntry)
  | fn (d : Def) (env : List LEntry)
  | builtin (json : String)
  | undef

def lookupVarL (x : String) : List LEntry → Option V
  | [] => none
  | .val y v :: r => if x = y then some v else lookupVarL x r
  | .lbl _ :: r => lookupVarL x r
  | .clo _ _ _ :: r => lookupVarL x r
  | .ldef _ _ _ :: r => lookupVarL x r

/-- innermost entry called `f`/`n` (`q = none`) or `m::f`/`n` (`q = some m`); a definition is
    run in its own scope extended by itself (recursion) -/
def findFnL (q : Option String) (f : String) (n : Nat) : List LEntry → Option TargetL
  | [] => none
  | .clo f' t' cenv :: r => if q = none ∧ f' = f ∧ n = 0 then some (.clo t' cenv) else findFnL q f n r
  | .ldef q' d denv :: r =>
    if q' = q ∧ d.name = f ∧ d.params.length = n then some (.fn d (.ldef none d denv :: denv)) else findFnL q f n r
  | .val _ _ :: r => findFnL q f n r
  | .lbl _ :: r => findFnL q f n r

def resolveCallL (env : List LEntry) (f : String) (n : Nat) : TargetL :=
  match findFnL none f n env with
  | some t => t
  | none => match builtin? f n with
    | some j => .builtin j
    | none => .undef

def resolveQCallL (env : List LEntry) (m f : String) (n : Nat) : TargetL :=
  match findFnL (some m) f n env with
  | some t => t
  | none => .undef

def bindArgsL (ev : Tm → Except String V) (env : List LEntry) :
    List Param → List Tm → List LEntry → Except String (List LEntry)
  | .var x :: ps, a :: as, acc =>
    match ev a with
    | .ok v => bindArgsL ev env ps as (LEntry.val x v :: acc)
    | .error e => .error e
  | .fn f :: ps, a :: as, acc => bindArgsL ev env ps as (LEntry.clo f a env :: acc)
  | _, _, acc => .ok acc

def pushDefsL (env : List LEntry) (ds : List Def) : List LEntry :=
  ds.foldl (fun e d => LEntry.ldef none d e :: e) env

def runTargetL (ev : List LEntry → Tm → Except String V) (env : List LEntry)
    (tg : TargetL) (args : List Tm) (what : String) : Except String V :=
  match tg with
  | .clo t' cenv => ev cenv t'
  | .fn d denv =>
    match bindArgsL (ev env) env d.params args denv with
    | .ok env' => ev env' d.body
    | .error e => .error e
  | .builtin j => .ok (.raw j)
  | .undef => .error ("undefined " ++ what)

/-- evaluation of a single program: lexical scoping only -/
def evalL : Nat → List LEntry → Tm → Except String V
  | 0, _, _ => .error "fuel"
  | fuel + 1, env, t =>
    match t with
    | .tag s => .ok (.tag s)
    | .var x => match lookupVarL x env with | some v => .ok v | none => .error ("undefined $" ++ x)
    | .arr ts => match evalList (evalL fuel env) ts with | .ok vs => .ok (.arr vs) | .error e => .error e
    | .bind v x b =>
      match evalL fuel env v with
      | .ok a => evalL fuel (.val x a :: env) b
      | .error e => .error e
    | .lbl l b => evalL fuel (.lbl l :: env) b
    | .defs ds b => evalL fuel (pushDefsL env ds) b
    | .qcall m f args => runTargetL (evalL fuel) env (resolveQCallL env m f args.length) args (m ++ "::" ++ f)
    | .call f args => runTargetL (evalL fuel) env (resolveCallL env f args.length) args f

/-! ## the scope that replaces the header of a module -/

/-- the definitions `ds` of a file whose scope (before its first definition) is `own`, as seen
    from a file that includes (`q = none`) or imports (`q = some m`) it: last definition first;
    definition `k` is closed over `own` + the definitions before it -/
def exportsL (q : Option String) : List LEntry → List Def → List LEntry
  | _, [] => []
  | own, d :: r => exportsL q (LEntry.ldef none d own :: own) r ++ [LEntry.ldef q d own]

/-- the data imports of module `mid` (values parallel to `importedVars`), latest first -/
def dataEntries {S} (g : Graph S) (vv : VarVals) (mid : Nat) : List LEntry :=
  (((g.importedVars.zip vv.imported).reverse).filter fun e => e.1.2 = mid).map fun e => LEntry.val e.1.1 e.2

/-- the command-line variables, latest first -/
def globalEntries {S} (g : Graph S) (vv : VarVals) : List LEntry :=
  ((g.globals.zip vv.globals).reverse).map fun e => LEntry.val e.1 e.2

/-- scope of module `mid` before its first definition: its header replaced by what it brings
    in.  `fuel` bounds the depth of the module graph (indices strictly decrease after `load`,
    so `fuel > mid` is enough). -/
def baseL {S} (g : Graph S) (vv : VarVals) : Nat → Nat → List LEntry
  | 0, _ => []
  | fuel + 1, mid =>
    ((headerOf g mid).reverse.map fun e => exportsL e.2 (baseL g vv fuel e.1) (defsOf g e.1)).flatten ++
      (dataEntries g vv mid ++ globalEntries g vv)

/-- scope of module `mid` after its first `k` definitions -/
def scopeL {S} (g : Graph S) (vv : VarVals) (fuel mid k : Nat) : List LEntry :=
  pushDefsL (baseL g vv fuel mid) ((defsOf g mid).take k)

/-- the whole program as one lexically scoped program: the main term in the scope that
    replaces the main module's header, after the main module's own definitions -/
def runLexical {S} (g : Graph S) (vv : VarVals) : Except String V :=
  match g.mods.getLast? with
  | none => .error "no main"
  | some m =>
    match m.body.main with
    | none => .error "no main"
    | some t => evalL evalFuel (scopeL g vv g.mods.length g.cur m.body.defs.length) t

/-- a loaded module graph is acyclic: every header refers to smaller indices only
    (`loaded_graph_is_acyclic`) -/
def Acyclic {S} (g : Graph S) : Prop := ∀ mid, ∀ e ∈ headerOf g mid, e.1 < mid

/-- the graph the compiler receives from a successful `load` (`deps[0]` = prelude, main last) -/
def graphOf {P S : Type} (deps : List (P × Module S Body)) (main : P × Module S Body) (globals : List String) :
    Graph S :=
  { mods := (deps ++ [main]).map (·.2), globals := globals }

/-- a single program text (no directives) with command-line variables -/
def runSingle (globals : List String) (vals : List V) (t : Tm) : Except String V :=
  evalL evalFuel (((globals.zip vals).reverse).map fun e => LEntry.val e.1 e.2) t

end Jaq.C16
