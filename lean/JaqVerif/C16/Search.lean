/-
C16 — model of the search for module and data files (`jaq-core/src/load/mod.rs`:
`Import::find`, `meta_paths` (its result enters as a list), `expand_prefix`; `jaq/src/filter.rs`:
`parse_compile` default library paths) over an abstract file system.

Paths are modelled as Rust's `Path::components()` sees them on Unix (`parsePath`): an optional
root, a leading `.`, `..`, and normal components; repeated `/` and inner `.` vanish.  File
names are lists of characters so that `set_extension` (std: `Path::set_extension`,
`rsplit_file_at_dot`) can be reasoned about.

The file system is a function from absolute, normalised paths to `none | file | dir` (no
symbolic links: assumption recorded by the check); `canon` is `std::fs::canonicalize` on it
(every prefix must exist, `..` and `x/` need a directory), resolved against `cwd`.
-/
namespace Jaq.C16

abbrev FName := List Char

inductive Comp where
  | root | cur | parent
  | normal (n : FName)
  deriving Repr, BEq, DecidableEq

abbrev RPath := List Comp

/-- split at `/` -/
def splitSlash : List Char → List (List Char)
  | [] => [[]]
  | c :: cs =>
    match splitSlash cs with
    | [] => [[]]            -- unreachable
    | p :: ps => if c = '/' then [] :: p :: ps else (c :: p) :: ps

def pieceComp (first : Bool) (p : List Char) : Option Comp :=
  if p = [] then none
  else if p = ['.'] then (if first then some .cur else none)
  else if p = ['.', '.'] then some .parent
  else some (.normal p)

/-- `Path::new(s).components()` (Unix) -/
def parsePath (s : List Char) : RPath :=
  match s with
  | '/' :: _ => .root :: (splitSlash s).filterMap (pieceComp false)
  | _ =>
    match splitSlash s with
    | [] => []
    | p :: ps => (pieceComp true p).toList ++ ps.filterMap (pieceComp false)

def RPath.isAbs (p : RPath) : Bool :=
  match p with
  | .root :: _ => true
  | _ => false

/-- `Path::join` / `PathBuf::push`: an absolute right side replaces the left -/
def RPath.join (a b : RPath) : RPath :=
  if RPath.isAbs b then b
  else if a = [] then b
  else a ++ (match b with | .cur :: r => r | r => r)

/-- `Path::parent` -/
def RPath.parentOf (p : RPath) : Option RPath :=
  match p.getLast? with
  | none => none
  | some .root => none
  | some _ => some p.dropLast

/-- `Path::strip_prefix(pre)` for a one-component prefix (`~`, `$ORIGIN`) -/
def RPath.stripPrefix1 (p : RPath) (pre : FName) : Option RPath :=
  match p with
  | .normal n :: rest => if n = pre then some rest else none
  | _ => none

/-- `expand_prefix` -/
def expandPrefix (p : RPath) (pre : FName) (f : Option RPath) : Option RPath :=
  match RPath.stripPrefix1 p pre with
  | none => none
  | some rest =>
    match f with
    | none => none
    | some repl => some (RPath.join repl rest)

/-- SWITCH (finding F-16, `design/fixes/C16-extension.diff`).
    `false` = jaq as it is: `rel.set_extension(ext)` always (a given extension is replaced);
    `true`  = after the fix: the extension is added only when the path has none.
    The integrator flips this one definition when the fix is applied to /repo. -/
def extFixApplied : Bool := true

structure SearchEnv where
  home : Option RPath          -- `$HOME`
  origin : Option RPath        -- directory of the running executable
  cwd : List FName             -- absolute working directory
  /-- which extension rule applies (see `extFixApplied`) -/
  extOnlyWhenMissing : Bool := extFixApplied

/-- the closure `expand` of `Import::find` -/
def expand (env : SearchEnv) (p : RPath) : RPath :=
  match expandPrefix p "~".toList env.home with
  | some q => q
  | none =>
    match expandPrefix p "$ORIGIN".toList env.origin with
    | some q => q
    | none => p

/-! ### `set_extension` -/

/-- `(before, after)` around the last `.` of a file name, if there is one -/
def splitLastDot (n : FName) : Option (FName × FName) :=
  let (afterRev, rest) := n.reverse.span (· ≠ '.')
  match rest with
  | [] => none
  | _ :: beforeRev => some (beforeRev.reverse, afterRev.reverse)

/-- `Path::extension` of a file name -/
def extensionOf (n : FName) : Option FName :=
  match splitLastDot n with
  | none => none
  | some (before, after) => if before = [] then none else some after

/-- `Path::file_stem` of a file name -/
def stemOf (n : FName) : FName :=
  match splitLastDot n with
  | none => n
  | some (before, _) => if before = [] then n else before

/-- `set_extension(ext)` on a file name (`ext` non-empty) -/
def setExtName (n ext : FName) : FName := stemOf n ++ '.' :: ext

/-- `PathBuf::set_extension`: acts on the last component if it is a normal one, else nothing -/
def setExtension (p : RPath) (ext : FName) : RPath :=
  match p.getLast? with
  | some (.normal n) => p.dropLast ++ [.normal (setExtName n ext)]
  | _ => p

/-- the proposed repair: `if rel.extension().is_none() { rel.set_extension(ext); }` -/
def setExtensionIfMissing (p : RPath) (ext : FName) : RPath :=
  match p.getLast? with
  | some (.normal n) => if (extensionOf n).isNone then p.dropLast ++ [.normal (setExtName n ext)] else p
  | _ => p

def applyExt (env : SearchEnv) (p : RPath) (ext : FName) : RPath :=
  if env.extOnlyWhenMissing then setExtensionIfMissing p ext else setExtension p ext

/-! ### file system -/

inductive Kind where
  | file | dir
  deriving Repr, BEq, DecidableEq

abbrev FS := List FName → Option Kind

/-- one component of `realpath` -/
def canonStep (fs : FS) (acc : Option (List FName)) (c : Comp) : Option (List FName) :=
  match acc with
  | none => none
  | some a =>
    match c with
    | .root => some []
    | .cur => some a
    | .parent => if fs a = some .dir then some a.dropLast else none
    | .normal n => if fs a = some .dir ∧ (fs (a ++ [n])).isSome then some (a ++ [n]) else none

/-- `Path::canonicalize` relative to `cwd`; the empty path does not exist -/
def canon (fs : FS) (cwd : List FName) (p : RPath) : Option (List FName) :=
  if p = [] then none
  else p.foldl (canonStep fs) (some cwd)

/-- `path.canonicalize().ok()` then `is_file()` -/
def hit (fs : FS) (cwd : List FName) (p : RPath) : Option (List FName) :=
  match canon fs cwd p with
  | some q => if fs q = some .file then some q else none
  | none => none

/-- directory that `search` metadata is relative to: `Path::new(parent).parent().unwrap_or(".")` -/
def parentDir (parentFile : RPath) : RPath := (RPath.parentOf parentFile).getD [.cur]

/-- the candidate files of `Import::find`, in the order they are tried -/
def candidates (env : SearchEnv) (parentFile : RPath) (rel : RPath) (metaPaths libPaths : List RPath)
    (ext : FName) : List RPath :=
  let rel' := applyExt env rel ext
  ((metaPaths.map fun p => RPath.join (parentDir parentFile) (expand env p)) ++ libPaths.map (expand env)).map
    fun d => RPath.join d rel'

def nonRelativeMsg : String := "non-relative path"
def notFoundMsg : String := "file not found"

/-- `Import::find` -/
def findFile (env : SearchEnv) (fs : FS) (parentFile : RPath) (rel : RPath) (metaPaths libPaths : List RPath)
    (ext : FName) : Except String (List FName) :=
  if RPath.isAbs rel then .error nonRelativeMsg
  else
    match (candidates env parentFile rel metaPaths libPaths ext).findSome? (hit fs env.cwd) with
    | some q => .ok q
    | none => .error notFoundMsg

/-- `parse_compile`: default library paths when no `-L` is given -/
def defaultLibs : List RPath :=
  [parsePath "~/.jq".toList, parsePath "$ORIGIN/../lib/jq".toList, parsePath "$ORIGIN/../lib".toList]

def libsOf (cli : List RPath) : List RPath := if cli.isEmpty then defaultLibs else cli

end Jaq.C16
