/-
C19 — hand-audited allow-list of state-carrying constructs in the core crates
(jaq-core, jaq-std, jaq-json, jaq-fmts, jaq-all).

`Gen/C19Shared.lean` is regenerated from the source on every run of the check; the theorem
`shared_state_allowlisted` (Props/C19.lean) demands that it is a sub-list of `allowed`.  An entry
is (crate, file, kind, path as written in the source, number of occurrences in that file); a new
occurrence of an allowed construct in an allowed file changes the count and must be re-audited.

Audit (why each entry cannot carry state from one execution of a filter to another, nor between
threads that share a `Filter`):

* jaq-core src/rc_lazy_list.rs, `once_cell::unsync::Lazy` (5 entries) — the memoising lazy list
  used by `reduce`/`foreach`/`limit`-style terms and `recurse_update`; it is created by
  `rc_lazy_list::List::from_iter` DURING a run (filter.rs: `fold`, `Fold` arms of `run`, `paths`,
  `update`), owned by that run's iterator chain and dropped with it.  It is `unsync` (not `Sync`)
  and sits behind `alloc::rc::Rc` (not `Send`): the compile-time fact `Filter<_>: Send + Sync`
  (harness-c19/src/main.rs) therefore proves it is not reachable from a `Filter`/`Lut`.
* jaq-std src/input.rs, `core::cell::RefCell` (2 entries) — `RcIter`, the cursor over the input
  stream.  It is per-run data (`Data { inputs: &RcIter<…> }` is built by the caller for each
  execution, jaq-all/src/data.rs `run`), excepted by the property ("filters reading … the input
  stream aside"), and `!Sync`, so it cannot be part of a shared `Filter` either.
* jaq-core src/into_iter.rs, jaq-std src/regex.rs, `core::iter::Once` — the iterator returned by
  `core::iter::once`, not `std::sync::Once`; no state.
* jaq-json src/funs.rs, `self_cell::self_cell!` — `BytesValRs`, an iterator that owns the `Bytes`
  it parses (self-referential struct); created per call of `bytes_valrs`, owned by the run.
* jaq-fmts src/read/mod.rs, `unsafe` — `memmap2::Mmap::map(&file)` in `load_file`: reading an input
  file; not on the path of compiling or running a filter on values.  (jaq-fmts and jaq-all do not
  carry `#![forbid(unsafe_code)]`; this is their only `unsafe`.)

There is no `static`, `static mut`, `thread_local!`, `lazy_static!`, `Mutex`, `RwLock`, `Atomic*`,
`OnceLock`, `LazyLock`, `OnceCell`, `Cell` or `UnsafeCell` in the five crates.
-/
namespace Jaq.C19

structure SharedItem where
  crate : String
  file : String
  kind : String
  path : String
  count : Nat
deriving DecidableEq, Repr

def allowed : List SharedItem := [
  ⟨"jaq-core", "src/rc_lazy_list.rs", "Lazy", "once_cell::unsync::Lazy", 1⟩,
  ⟨"jaq-core", "src/rc_lazy_list.rs", "Lazy", "Lazy", 1⟩,
  ⟨"jaq-core", "src/rc_lazy_list.rs", "Lazy", "Lazy::get_mut", 1⟩,
  ⟨"jaq-core", "src/rc_lazy_list.rs", "Lazy", "Lazy::new", 1⟩,
  ⟨"jaq-core", "src/rc_lazy_list.rs", "Lazy", "Lazy::force", 1⟩,
  ⟨"jaq-std", "src/input.rs", "RefCell", "core::cell::RefCell", 1⟩,
  ⟨"jaq-std", "src/input.rs", "RefCell", "core::cell::RefCell::new", 1⟩,
  ⟨"jaq-core", "src/into_iter.rs", "Once", "core::iter::Once", 1⟩,
  ⟨"jaq-std", "src/regex.rs", "Once", "core::iter::Once", 1⟩,
  ⟨"jaq-json", "src/funs.rs", "self_cell", "self_cell::self_cell!", 1⟩,
  ⟨"jaq-fmts", "src/read/mod.rs", "unsafe", "unsafe", 1⟩
]

/-- crates whose `lib.rs` must carry `#![forbid(unsafe_code)]` -/
def mustForbidUnsafe : List String := ["jaq-core", "jaq-std", "jaq-json"]

end Jaq.C19
