/-
C19 — copy-on-write heap of reference-counted cells (DESIGN §6 C19, `Sys/Cow`).

Models what jaq values do with `Rc`/`Arc` (jaq-json/src/lib.rs: `Val::Arr(Rc<Vec<Val>>)`,
`Val::Obj(Rc<Map>)`, `Num::BigInt(Rc<BigInt>)`; jaq-core/src/rc_list.rs: `List(Rc<Node>)`):

  Rust                                   model
  `Rc::new(v)`                           `Heap.alloc`
  `Rc::clone(&h)`                        `Heap.incr` (same address, count + 1)
  `drop(h)`                              `Heap.decr` (count − 1; the cell is freed at 0)
  `Rc::make_mut(&mut h)` + write         `rcMakeMut`: IN PLACE iff count = 1, else the content is
                                         copied into a fresh cell and the old count decremented
  `Rc::try_unwrap(h).unwrap_or_else(|h| (*h).clone())`  (`rc_unwrap_or_clone`, `List::pop`)
                                         `rcUnwrapOrClone`: the value; count − 1 (freed at 0)
  `**h`                                  `Heap.val`

Handles are addresses.  Several threads own handles into ONE heap (values shared between
threads in the `sync` build, where `Rc` is `Arc`); every operation is executed atomically by one
thread (that is what `Arc`'s atomic counter and `make_mut`'s uniqueness test provide — the
memory-model argument itself is outside the model).
-/
namespace Jaq.C19

/-- Heap of reference-counted cells; `rc a = 0` means "not allocated / freed". -/
structure Heap (α : Type) where
  val : Nat → Option α
  rc : Nat → Nat
  next : Nat

variable {α : Type}

def Heap.empty : Heap α := ⟨fun _ => none, fun _ => 0, 0⟩

def Heap.incr (H : Heap α) (a : Nat) : Heap α :=
  { H with rc := fun b => if b = a then H.rc a + 1 else H.rc b }

/-- decrement; the last owner frees the cell (its content is gone) -/
def Heap.decr (H : Heap α) (a : Nat) : Heap α :=
  if H.rc a = 1 then
    { H with rc := fun b => if b = a then 0 else H.rc b,
             val := fun b => if b = a then none else H.val b }
  else
    { H with rc := fun b => if b = a then H.rc a - 1 else H.rc b }

def Heap.setVal (H : Heap α) (a : Nat) (v : α) : Heap α :=
  { H with val := fun b => if b = a then some v else H.val b }

/-- `Rc::new` -/
def Heap.alloc (H : Heap α) (v : α) : Heap α × Nat :=
  ({ val := fun b => if b = H.next then some v else H.val b,
     rc := fun b => if b = H.next then 1 else H.rc b,
     next := H.next + 1 }, H.next)

/-- `Rc::make_mut(&mut h)` followed by the write `f`: returns the heap and the (possibly new)
address held by `h`. -/
def rcMakeMut (H : Heap α) (a : Nat) (f : α → α) : Heap α × Nat :=
  match H.val a with
  | none => (H, a)   -- dangling handle: does not occur in well-formed states (`Inv`)
  | some v => if H.rc a = 1 then (H.setVal a (f v), a) else (H.decr a).alloc (f v)

/-- `rc_unwrap_or_clone(h)` / `Rc::try_unwrap(h).unwrap_or_else(clone)`: `h` is consumed. -/
def rcUnwrapOrClone (H : Heap α) (a : Nat) : Heap α × Option α := (H.decr a, H.val a)

/-- split a list at position `i`: `(before, element, after)` -/
def pick {β : Type} : List β → Nat → Option (List β × β × List β)
  | [], _ => none
  | x :: xs, 0 => some ([], x, xs)
  | x :: xs, i + 1 =>
    match pick xs i with
    | none => none
    | some (p, y, q) => some (x :: p, y, q)

/-- Operations a thread performs on ITS OWN handles (addressed by position in its handle list;
a position that does not exist is a no-op on both sides: safe Rust cannot name a handle it does
not own). -/
inductive Op (α : Type) where
  | new (v : α)                   -- `Rc::new(v)`
  | clone (i : Nat)               -- `h_i.clone()`, the new handle is appended
  | drop (i : Nat)                -- `drop(h_i)`
  | mutate (i : Nat) (f : α → α)  -- `let r = Rc::make_mut(&mut h_i); *r = f(*r)`
  | take (i : Nat)                -- `rc_unwrap_or_clone(h_i)`: the owned value is output
  | read (i : Nat)                -- `(*h_i).clone()` is output

/-- concrete thread: handles and outputs so far -/
structure CThread (α : Type) where
  hs : List Nat
  out : List α

/-- abstract ("value semantics") thread: it simply owns values -/
structure AThread (α : Type) where
  vals : List α
  out : List α

def cstepLocal (H : Heap α) (c : CThread α) : Op α → Heap α × CThread α
  | .new v => ((H.alloc v).1, ⟨c.hs ++ [(H.alloc v).2], c.out⟩)
  | .clone i =>
    match pick c.hs i with
    | none => (H, c)
    | some (_, a, _) => (H.incr a, ⟨c.hs ++ [a], c.out⟩)
  | .drop i =>
    match pick c.hs i with
    | none => (H, c)
    | some (p, a, q) => (H.decr a, ⟨p ++ q, c.out⟩)
  | .mutate i f =>
    match pick c.hs i with
    | none => (H, c)
    | some (p, a, q) => ((rcMakeMut H a f).1, ⟨p ++ (rcMakeMut H a f).2 :: q, c.out⟩)
  | .take i =>
    match pick c.hs i with
    | none => (H, c)
    | some (p, a, q) =>
      match (rcUnwrapOrClone H a).2 with
      | none => (H, c)
      | some v => ((rcUnwrapOrClone H a).1, ⟨p ++ q, c.out ++ [v]⟩)
  | .read i =>
    match pick c.hs i with
    | none => (H, c)
    | some (_, a, _) =>
      match H.val a with
      | none => (H, c)
      | some v => (H, ⟨c.hs, c.out ++ [v]⟩)

def astepLocal (a : AThread α) : Op α → AThread α
  | .new v => ⟨a.vals ++ [v], a.out⟩
  | .clone i =>
    match pick a.vals i with
    | none => a
    | some (_, v, _) => ⟨a.vals ++ [v], a.out⟩
  | .drop i =>
    match pick a.vals i with
    | none => a
    | some (p, _, q) => ⟨p ++ q, a.out⟩
  | .mutate i f =>
    match pick a.vals i with
    | none => a
    | some (p, v, q) => ⟨p ++ f v :: q, a.out⟩
  | .take i =>
    match pick a.vals i with
    | none => a
    | some (p, v, q) => ⟨p ++ q, a.out ++ [v]⟩
  | .read i =>
    match pick a.vals i with
    | none => a
    | some (_, v, _) => ⟨a.vals, a.out ++ [v]⟩

/-- pointwise update -/
def upd {β : Type} (f : Nat → β) (i : Nat) (x : β) : Nat → β := fun j => if j = i then x else f j

/-- concrete system: one heap, `n` threads -/
structure CSys (α : Type) where
  heap : Heap α
  n : Nat
  thr : Nat → CThread α

/-- thread `t` performs `op` (thread ids ≥ n do not exist: no-op) -/
def cstep (s : CSys α) (e : Nat × Op α) : CSys α :=
  if e.1 < s.n then
    { heap := (cstepLocal s.heap (s.thr e.1) e.2).1, n := s.n,
      thr := upd s.thr e.1 (cstepLocal s.heap (s.thr e.1) e.2).2 }
  else s

def crun : List (Nat × Op α) → CSys α → CSys α
  | [], s => s
  | e :: es, s => crun es (cstep s e)

def astep (n : Nat) (A : Nat → AThread α) (e : Nat × Op α) : Nat → AThread α :=
  if e.1 < n then upd A e.1 (astepLocal (A e.1) e.2) else A

def arun (n : Nat) : List (Nat × Op α) → (Nat → AThread α) → (Nat → AThread α)
  | [], A => A
  | e :: es, A => arun n es (astep n A e)

/-- the isolated run of one abstract thread on its own operations -/
def alocal : List (Op α) → AThread α → AThread α
  | [], a => a
  | op :: ops, a => alocal ops (astepLocal a op)

/-- the operations of thread `u` in a schedule -/
def opsOf (u : Nat) : List (Nat × Op α) → List (Op α)
  | [] => []
  | (t, op) :: es => if t = u then op :: opsOf u es else opsOf u es

/-- total number of handles to address `a` held by threads `0 … n-1` -/
def total (a : Nat) (L : Nat → List Nat) : Nat → Nat
  | 0 => 0
  | n + 1 => total a L n + (L n).count a

/-- Well-formedness: every count is exactly the number of handles, live cells have content and lie
below the allocation pointer. -/
structure Inv (s : CSys α) : Prop where
  count : ∀ a, s.heap.rc a = total a (fun u => (s.thr u).hs) s.n
  live : ∀ a, 0 < s.heap.rc a → a < s.heap.next ∧ (s.heap.val a).isSome = true

/-- what thread `u` observes through its handles -/
def CSys.view (s : CSys α) (u : Nat) : List (Option α) := (s.thr u).hs.map s.heap.val

/-- the concrete system implements the abstract one -/
structure Rel (s : CSys α) (A : Nat → AThread α) : Prop where
  inv : Inv s
  vals : ∀ u, u < s.n → s.view u = (A u).vals.map some
  out : ∀ u, u < s.n → (s.thr u).out = (A u).out

/-- A start state in which every value is shared by ALL `n` threads (each cell has count `n`):
thread `u` holds one handle to each of the cells `0 … vs.length-1`.  This is what the harness
builds when it hands clones of the same `Arc`'d inputs to every thread. -/
def initShared (vs : List α) (n : Nat) : CSys α :=
  { heap := { val := fun a => vs[a]?, rc := fun a => if a < vs.length then n else 0, next := vs.length },
    n := n,
    thr := fun _ => ⟨List.range vs.length, []⟩ }

/-- what the driver / harness print for a state: per thread and handle the observed value, the
count of the cell and the identity class of the cell (cells numbered by first occurrence) -/
def CSys.addrs (s : CSys α) : List Nat := (List.range s.n).flatMap fun u => (s.thr u).hs

end Jaq.C19
