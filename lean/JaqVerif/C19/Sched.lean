/-
C19 — a compiled filter is immutable shared data (DESIGN §6 C19).

`Sched`: T threads, each with a PRIVATE deterministic machine state `σ` (in jaq: the per-run
context `Ctx { data, vars, labels }` of jaq-core/src/filter.rs plus the iterator stack of the run
and the per-run input cursor `RcIter`), all stepping over ONE shared table `tab : Tab`
(`Lut { terms : Vec<Term>, funs : Vec<Native> }` of jaq-core/src/compile.rs, reached through
`&'a Lut`).  A step reads the table and the thread's own state and produces the thread's next
state and possibly an output.  A schedule is ANY list of thread ids (any interleaving; a thread
may be starved, run alone, or be absent).

What the shape of `step` assumes about the real code — and what the check re-establishes from
the source on every run (see Gen/C19Shared.lean and harness-c19):
  * a step cannot write the table: no interior mutability (`Cell`, `RefCell`, `Mutex`,
    `Atomic*`, `OnceCell`, …) is reachable from `Lut`, and the crates forbid `unsafe`;
  * a step cannot communicate through anything else: the core crates contain no `static`,
    `thread_local!` or other process-wide mutable item;
  * `Filter`/`Lut` are `Send + Sync`, so `&Lut` can be handed to other threads at all.
The contrast model `Leaky` below shows what goes wrong when the first assumption fails.
-/
namespace Jaq.C19

/-- A deterministic machine over a shared read-only table. -/
structure Machine (Tab σ Out : Type) where
  step : Tab → σ → σ × Option Out

/-- State of one thread: private machine state and the outputs it has produced so far. -/
structure Thread (σ Out : Type) where
  st : σ
  out : List Out

/-- The whole system: the shared table and the threads (indexed by thread id). -/
structure Sys (Tab σ Out : Type) where
  tab : Tab
  thr : Nat → Thread σ Out

variable {Tab σ Out : Type}

/-- One step of one thread, run alone. -/
def Machine.stepThread (m : Machine Tab σ Out) (tab : Tab) (t : Thread σ Out) : Thread σ Out :=
  match m.step tab t.st with
  | (s', none) => ⟨s', t.out⟩
  | (s', some o) => ⟨s', t.out ++ [o]⟩

/-- The isolated run: `n` steps of one thread, nothing else in the world. -/
def Machine.isolated (m : Machine Tab σ Out) (tab : Tab) : Nat → Thread σ Out → Thread σ Out
  | 0, t => t
  | n + 1, t => m.isolated tab n (m.stepThread tab t)

/-- Pointwise update of the thread map. -/
def setThr (f : Nat → Thread σ Out) (i : Nat) (t : Thread σ Out) : Nat → Thread σ Out :=
  fun j => if j = i then t else f j

/-- The system steps thread `i`: the table is passed along untouched (the machine has no way to
return a new one), only thread `i`'s slot changes. -/
def Machine.sysStep (m : Machine Tab σ Out) (s : Sys Tab σ Out) (i : Nat) : Sys Tab σ Out :=
  { tab := s.tab, thr := setThr s.thr i (m.stepThread s.tab (s.thr i)) }

/-- Run a whole schedule (a list of thread ids, in the order the scheduler picked them). -/
def Machine.run (m : Machine Tab σ Out) : List Nat → Sys Tab σ Out → Sys Tab σ Out
  | [], s => s
  | i :: rest, s => m.run rest (m.sysStep s i)

/-! ### Contrast: a machine whose step may write the shared table (a cache, a counter). -/

/-- A machine with interior mutability in the shared table. -/
structure Leaky (Tab σ Out : Type) where
  step : Tab → σ → Tab × σ × Option Out

def Leaky.sysStep (m : Leaky Tab σ Out) (s : Sys Tab σ Out) (i : Nat) : Sys Tab σ Out :=
  match m.step s.tab (s.thr i).st with
  | (tab', s', none) => { tab := tab', thr := setThr s.thr i ⟨s', (s.thr i).out⟩ }
  | (tab', s', some o) => { tab := tab', thr := setThr s.thr i ⟨s', (s.thr i).out ++ [o]⟩ }

def Leaky.run (m : Leaky Tab σ Out) : List Nat → Sys Tab σ Out → Sys Tab σ Out
  | [], s => s
  | i :: rest, s => m.run rest (m.sysStep s i)

/-- "fresh label from a shared counter": the output is the counter, which every step bumps. -/
def leakyCounter : Leaky Nat Unit Nat := ⟨fun c _ => (c + 1, (), some c)⟩

/-! ### Compile-then-run sessions

`Compiler` of compile.rs is consumed by `compile(self, …)`: a compilation owns its state `κ`
(`lut`, `mod_map`, `locals`, `errs`), reads the definitions/natives it was given (`Env`) and
ends in a table.  Afterwards the thread runs the table it built.  -/

/-- One compiler step: either continue with a new private compiler state or finish with a table. -/
structure CompileRun (Env κ Tab σ Out : Type) where
  cstep : Env → κ → Sum κ Tab
  boot : Tab → σ
  mach : Machine Tab σ Out

inductive Phase (κ Tab σ : Type) where
  | compiling : κ → Phase κ Tab σ
  | running : Tab → σ → Phase κ Tab σ

variable {Env κ : Type}

/-- A compile-then-run thread is itself a machine over the shared immutable `Env`. -/
def CompileRun.machine (c : CompileRun Env κ Tab σ Out) : Machine Env (Phase κ Tab σ) Out :=
  ⟨fun env ph =>
    match ph with
    | .compiling k =>
      match c.cstep env k with
      | .inl k' => (.compiling k', none)
      | .inr tab => (.running tab (c.boot tab), none)
    | .running tab s =>
      match c.mach.step tab s with
      | (s', o) => (.running tab s', o)⟩

/-- The table a thread has finished compiling, if any. -/
def Phase.table : Phase κ Tab σ → Option Tab
  | .compiling _ => none
  | .running tab _ => some tab

end Jaq.C19
