import JaqVerif.Lemmas.C07Num
import JaqVerif.C07.Canon
namespace Jaq.C07

/-!
  Facts about the executable model `ryuModel` of `ryu::Buffer::format_finite` (C07/Write.lean).

  Tier A (`ryuModel_lit : RyuLit Cfg.model`): for EVERY bit pattern the text is consumed entirely by
  the number lexer, ends in a digit and has a fraction or an exponent.
  Tier B (`shortestDigits_roundtrip_partial`): if one of the 18 attempts of the digit search succeeds
  (`ryuFound`), the decimal `(m, k)` returned by `shortestDigits` rounds back to the float
  (`decRound m k = a`); uses `roundRat_scale` (scaling invariance of `F64.roundRat`).
  `ryuDigits_signed_roundtrip_partial` adds the sign (`roundRat_neg`).
  Not proved here: `ryuFound a` for every positive finite `a`, and the step from `(m, k)` to
  `F64.parseDecChars` of the text.  Helpers live in `Jaq.C07.Ryu`.
-/

/-! ## Tier A: `ryuModel` always writes a complete non-integer number literal -/

namespace Ryu

/-- the lexer consumes `t` entirely from state `s`, ending in state `sf` -/
def Run (s : NumSt) (t : Bytes) (sf : NumSt) : Prop := numLex s t = (t, [], sf)

theorem Run.nil (s : NumSt) : Run s [] s := rfl

theorem Run.cons {s s' sf : NumSt} {c : UInt8} {t : Bytes} (hp : numPart s c = some s')
    (h : Run s' t sf) : Run s (c :: t) sf := by
  unfold Run at h ⊢
  simp only [numLex, hp, h]

theorem Run.append : ∀ (a : Bytes) {s s1 s2 : NumSt} {b : Bytes},
    Run s a s1 → Run s1 b s2 → Run s (a ++ b) s2 := by
  intro a
  induction a with
  | nil =>
    intro s s1 s2 b h1 h2
    unfold Run at h1
    simp only [numLex] at h1
    cases h1
    exact h2
  | cons c a ih =>
    intro s s1 s2 b h1 h2
    unfold Run at h1
    simp only [numLex] at h1
    cases hp : numPart s c with
    | none => simp [hp] at h1
    | some s' =>
      simp only [hp] at h1
      cases hl : numLex s' a with
      | mk t' x =>
        obtain ⟨rest', sf'⟩ := x
        simp only [hl] at h1
        cases h1
        exact Run.cons hp (ih hl h2)

theorem Run.read_digit {s sf : NumSt} {t : Bytes} (h : Run s t sf) (hd : endsWithDigit t = true) :
    isDigit sf.read = true := by
  unfold endsWithDigit at hd
  cases hl : t.getLast? with
  | none => simp [hl] at hd
  | some l =>
    simp only [hl] at hd
    rw [numLex_final_read t s sf h l hl]; exact hd

theorem endsWithDigit_append (a b : Bytes) (hb : b ≠ []) : endsWithDigit (a ++ b) = endsWithDigit b := by
  have : (a ++ b).getLast? = b.getLast? := by
    rw [List.getLast?_append]
    cases h : b.getLast? with
    | none => rw [List.getLast?_eq_none_iff] at h; exact absurd h hb
    | some x => simp
  unfold endsWithDigit
  rw [this]

/-- digits after a dot or an exponent mark are accepted whatever the leading-zero flag is -/
theorem run_digits_de : ∀ (ds : Bytes), (∀ c ∈ ds, isDigit c = true) → ∀ s : NumSt,
    (s.dot || s.exp) = true → ∃ sf, Run s ds sf ∧ sf.dot = s.dot ∧ sf.exp = s.exp := by
  intro ds
  induction ds with
  | nil => intro _ s _; exact ⟨s, Run.nil s, rfl, rfl⟩
  | cons c ds ih =>
    intro hall s hde
    have hc : isDigit c = true := hall c (by simp)
    obtain ⟨c0, cm, _⟩ := isDigit_ne c hc
    have hp : numPart s c = some { s with read := c } := by
      cases hd : s.dot <;> cases he : s.exp <;> simp [hd, he] at hde <;> simp [numPart, hc, cm, hd, he]
    obtain ⟨sf, h1, h2, h3⟩ := ih (fun x hx => hall x (by simp [hx])) { s with read := c } hde
    exact ⟨sf, Run.cons hp h1, h2, h3⟩

/-- the state at the start of the integer part: the initial one, or the one after `-` -/
def SignSt (s : NumSt) : Prop := s = NumSt.init ∨ s = { NumSt.init with read := 0x2d }

/-- an integer part without superfluous leading zero -/
def IntPart (ip : Bytes) : Prop :=
  (∀ c ∈ ip, isDigit c = true) ∧ (ip = [0x30] ∨ ∃ c t, ip = c :: t ∧ c ≠ 0x30)

theorem run_ip (s0 : NumSt) (hs : SignSt s0) (ip : Bytes) (h : IntPart ip) :
    ∃ s1, Run s0 ip s1 ∧ isDigit s1.read = true ∧ s1.dot = false ∧ s1.exp = false := by
  obtain ⟨hall, h | ⟨c, t, e, hc⟩⟩ := h
  · subst h
    rcases hs with rfl | rfl
    · exact ⟨{ NumSt.init with read := 0x30 }, Run.cons (by decide) (Run.nil _), by decide, rfl, rfl⟩
    · exact ⟨{ read := 0x30, zero := true, dot := false, exp := false },
        Run.cons (by decide) (Run.nil _), by decide, rfl, rfl⟩
  · subst e
    have hcd : isDigit c = true := hall c (by simp)
    obtain ⟨c0, cm, _⟩ := isDigit_ne c hcd
    have hc30 : (c == 0x30) = false := by simp [hc]
    have hp : numPart s0 c = some { s0 with read := c } := by
      rcases hs with rfl | rfl <;> simp [numPart, NumSt.init, hc30, hcd]
    have hz : ({ s0 with read := c } : NumSt).zero = false := by
      rcases hs with rfl | rfl <;> rfl
    obtain ⟨sf, h1, _, h3, h4, _⟩ := numLex_digits t (fun x hx => hall x (by simp [hx]))
      { s0 with read := c } hz c0 cm
    have hr : Run s0 (c :: t) sf := Run.cons hp h1
    refine ⟨sf, hr, hr.read_digit (endsWithDigit_of_all _ (by simp) hall), ?_, ?_⟩
    · rw [h3]; rcases hs with rfl | rfl <;> rfl
    · rw [h4]; rcases hs with rfl | rfl <;> rfl

theorem run_frac (s1 : NumSt) (hr : isDigit s1.read = true) (hd : s1.dot = false) (he : s1.exp = false)
    (fp : Bytes) (hall : ∀ c ∈ fp, isDigit c = true) (hne : fp ≠ []) :
    ∃ s2, Run s1 (0x2e :: fp) s2 ∧ isDigit s2.read = true ∧ s2.dot = true ∧ s2.exp = false := by
  obtain ⟨a0, a1, _, _, _, _⟩ := isDigit_ne s1.read hr
  have hp : numPart s1 0x2e = some { s1 with read := 0x2e, dot := true } := by
    have h1 : isDigit 0x2e = false := by decide
    simp [numPart, hr, hd, he, h1]
  obtain ⟨sf, h1, h2, h3⟩ := run_digits_de fp hall { s1 with read := 0x2e, dot := true } (by simp)
  have hrun : Run s1 (0x2e :: fp) sf := Run.cons hp h1
  refine ⟨sf, hrun, hrun.read_digit ?_, by rw [h2], by rw [h3]; exact he⟩
  rw [endsWithDigit_cons _ _ hne]
  exact endsWithDigit_of_all _ hne hall

theorem endsWithDigit_intText (x : Int) : endsWithDigit (intText x) = true := by
  obtain ⟨sf, hl, _, _⟩ := lexes_intText x
  exact hl.digit

theorem intText_ne_nil (x : Int) : intText x ≠ [] := by
  unfold intText
  split
  · simp
  · exact natDigits_ne_nil _

theorem run_exp (s : NumSt) (hr : isDigit s.read = true) (he : s.exp = false) (x : Int) :
    ∃ s3, Run s (0x65 :: intText x) s3 ∧ s3.exp = true := by
  obtain ⟨a0, a1, _, _, _, _⟩ := isDigit_ne s.read hr
  have hp : numPart s 0x65 = some { s with read := 0x65, exp := true } := by
    have h1 : isDigit 0x65 = false := by decide
    have h2 : isE 0x65 = true := by decide
    simp [numPart, hr, he, h1, h2]
  unfold intText
  by_cases hx : x < 0
  · simp only [hx, if_true]
    have hp2 : numPart { s with read := 0x65, exp := true } 0x2d =
        some { s with read := 0x2d, exp := true } := by
      have h1 : isDigit 0x2d = false := by decide
      have h2 : isE 0x65 = true := by decide
      have h3 : isSign 0x2d = true := by decide
      have h4 : isDigit 0x65 = false := by decide
      have h5 : isE 0x2d = false := by decide
      simp [numPart, h1, h2, h3, h4, h5]
    obtain ⟨sf, h1, _, h3⟩ := run_digits_de _ (natDigits_all_digit x.natAbs)
      { s with read := 0x2d, exp := true } (by simp)
    exact ⟨sf, Run.cons hp (Run.cons hp2 h1), by rw [h3]⟩
  · simp only [hx, if_false]
    obtain ⟨sf, h1, _, h3⟩ := run_digits_de _ (natDigits_all_digit x.natAbs)
      { s with read := 0x65, exp := true } (by simp)
    exact ⟨sf, Run.cons hp h1, by rw [h3]⟩

theorem endsWithDigit_exp (a : Bytes) (x : Int) : endsWithDigit (a ++ 0x65 :: intText x) = true := by
  rw [endsWithDigit_append _ _ (by simp), endsWithDigit_cons _ _ (intText_ne_nil x)]
  exact endsWithDigit_intText x

/-- `ip . fp` -/
theorem run_ip_frac (s0 : NumSt) (hs : SignSt s0) (ip fp : Bytes) (hip : IntPart ip)
    (hall : ∀ c ∈ fp, isDigit c = true) (hne : fp ≠ []) :
    ∃ sf, Run s0 (ip ++ 0x2e :: fp) sf ∧ endsWithDigit (ip ++ 0x2e :: fp) = true ∧
      (sf.dot || sf.exp) = true := by
  obtain ⟨s1, r1, d1, e1, f1⟩ := run_ip s0 hs ip hip
  obtain ⟨s2, r2, d2, e2, f2⟩ := run_frac s1 d1 e1 f1 fp hall hne
  refine ⟨s2, Run.append ip r1 r2, ?_, by simp [e2]⟩
  rw [endsWithDigit_append _ _ (by simp), endsWithDigit_cons _ _ hne]
  exact endsWithDigit_of_all _ hne hall

/-- `ip e x` -/
theorem run_ip_exp (s0 : NumSt) (hs : SignSt s0) (ip : Bytes) (hip : IntPart ip) (x : Int) :
    ∃ sf, Run s0 (ip ++ 0x65 :: intText x) sf ∧ endsWithDigit (ip ++ 0x65 :: intText x) = true ∧
      (sf.dot || sf.exp) = true := by
  obtain ⟨s1, r1, d1, e1, f1⟩ := run_ip s0 hs ip hip
  obtain ⟨s3, r3, e3⟩ := run_exp s1 d1 f1 x
  exact ⟨s3, Run.append ip r1 r3, endsWithDigit_exp _ _, by simp [e3]⟩

/-- `ip . fp e x` -/
theorem run_ip_frac_exp (s0 : NumSt) (hs : SignSt s0) (ip fp : Bytes) (hip : IntPart ip)
    (hall : ∀ c ∈ fp, isDigit c = true) (hne : fp ≠ []) (x : Int) :
    ∃ sf, Run s0 (ip ++ (0x2e :: fp ++ 0x65 :: intText x)) sf ∧
      endsWithDigit (ip ++ (0x2e :: fp ++ 0x65 :: intText x)) = true ∧ (sf.dot || sf.exp) = true := by
  obtain ⟨s1, r1, d1, e1, f1⟩ := run_ip s0 hs ip hip
  obtain ⟨s2, r2, d2, e2, f2⟩ := run_frac s1 d1 e1 f1 fp hall hne
  obtain ⟨s3, r3, e3⟩ := run_exp s2 d2 f2 x
  refine ⟨s3, Run.append ip r1 (Run.append _ r2 r3), ?_, by simp [e3]⟩
  rw [← List.append_assoc]
  exact endsWithDigit_exp _ _


end Ryu
open Ryu

/-! ### the layout rules -/

/-- the layout part of `ryuModel` for the decimal `(m, k)` -/
def ryuLayout (m : Nat) (k : Int) : Bytes :=
  let ds := natDigits m
  let len : Int := Int.ofNat ds.length
  let kk : Int := len + k
  let expo : Bytes := intText (kk - 1)
  if 0 ≤ k && kk ≤ 16 then ds ++ zeros k.toNat ++ [0x2e, 0x30]
  else if 0 < kk && kk ≤ 16 then ds.take kk.toNat ++ [0x2e] ++ ds.drop kk.toNat
  else if -5 < kk && kk ≤ 0 then [0x30, 0x2e] ++ zeros (-kk).toNat ++ ds
  else if ds.length == 1 then ds ++ [0x65] ++ expo
  else ds.take 1 ++ [0x2e] ++ ds.drop 1 ++ [0x65] ++ expo

theorem ryuModel_eq (f : UInt64) : ryuModel f =
    (if F64.signBit f then [0x2d] else []) ++
      (if F64.isZero f then [0x30, 0x2e, 0x30]
       else ryuLayout (shortestDigits (F64.abs f)).1 (shortestDigits (F64.abs f)).2) := by
  unfold ryuModel
  by_cases hz : F64.isZero f = true
  · simp only [hz, if_true]
  · simp only [hz]
    generalize shortestDigits (F64.abs f) = r
    obtain ⟨m, k⟩ := r
    rfl

namespace Ryu

theorem zeros_all_digit (n : Nat) : ∀ c ∈ zeros n, isDigit c = true := by
  intro c hc
  simp only [zeros, List.mem_replicate] at hc
  rw [hc.2]; decide

theorem natDigits_zero : natDigits 0 = [0x30] := by
  rw [natDigits_lt 0 (by omega)]; rfl

theorem intPart_natDigits (m : Nat) : IntPart (natDigits m) := by
  refine ⟨natDigits_all_digit m, ?_⟩
  by_cases hm : m = 0
  · subst hm; exact Or.inl natDigits_zero
  · exact Or.inr (natDigits_head m (by omega))

/-- a non-empty prefix of an integer part followed by digits is an integer part, unless the
prefix is the single digit `0` followed by something -/
theorem intPart_natDigits_append (m : Nat) (hm : m ≠ 0) (z : Bytes) (hz : ∀ c ∈ z, isDigit c = true) :
    IntPart (natDigits m ++ z) := by
  obtain ⟨c, t, e, hc⟩ := natDigits_head m (by omega)
  refine ⟨?_, Or.inr ⟨c, t ++ z, by rw [e]; rfl, hc⟩⟩
  intro x hx
  rw [List.mem_append] at hx
  rcases hx with hx | hx
  · exact natDigits_all_digit m x hx
  · exact hz x hx

theorem intPart_take (ip : Bytes) (h : IntPart ip) (n : Nat) (hn : 0 < n) : IntPart (ip.take n) := by
  obtain ⟨hall, h | ⟨c, t, e, hc⟩⟩ := h
  · subst h
    refine ⟨fun c hc => hall c (List.mem_of_mem_take hc), Or.inl ?_⟩
    cases n with
    | zero => omega
    | succ n => simp
  · subst e
    refine ⟨fun c hc => hall c (List.mem_of_mem_take hc), Or.inr ?_⟩
    cases n with
    | zero => omega
    | succ n => exact ⟨c, t.take n, by simp, hc⟩

theorem run_layout (s0 : NumSt) (hs : SignSt s0) (m : Nat) (k : Int) (hmk : m = 0 → k = 0) :
    ∃ sf, Run s0 (ryuLayout m k) sf ∧ endsWithDigit (ryuLayout m k) = true ∧ (sf.dot || sf.exp) = true := by
  have hall := natDigits_all_digit m
  have hne := natDigits_ne_nil m
  have hlen : 0 < (natDigits m).length := List.length_pos_iff.mpr hne
  unfold ryuLayout
  simp only [Int.ofNat_eq_natCast]
  split
  · -- digits, zeros, `.0`
    have hip : IntPart (natDigits m ++ zeros k.toNat) := by
      by_cases hm : m = 0
      · have hk := hmk hm
        subst hm; subst hk
        simpa [zeros] using intPart_natDigits 0
      · exact intPart_natDigits_append m hm _ (zeros_all_digit _)
    exact run_ip_frac s0 hs _ [0x30] hip (by decide) (by simp)
  · split
    · -- point inside the digits
      rename_i h1 h2
      simp only [Bool.and_eq_true, decide_eq_true_eq, not_and, Int.not_le] at h1 h2
      have hk : k < 0 := by
        by_cases h : 0 ≤ k
        · have := h1 h; omega
        · omega
      have hn : 0 < ((natDigits m).length + k).toNat := by omega
      have hlt : ((natDigits m).length + k).toNat < (natDigits m).length := by omega
      rw [List.append_assoc, List.singleton_append]
      refine run_ip_frac s0 hs _ _ (intPart_take _ (intPart_natDigits m) _ hn)
        (fun c hc => hall c (List.mem_of_mem_drop hc)) ?_
      intro h
      rw [List.drop_eq_nil_iff] at h
      omega
    · split
      · -- `0.`, zeros, digits
        have : [0x30, 0x2e] ++ zeros (-((natDigits m).length + k : Int)).toNat ++ natDigits m =
            [0x30] ++ 0x2e :: (zeros (-((natDigits m).length + k : Int)).toNat ++ natDigits m) := rfl
        rw [this]
        refine run_ip_frac s0 hs [0x30] _ ⟨by decide, Or.inl rfl⟩ ?_ (by simp [hne])
        intro c hc
        rw [List.mem_append] at hc
        rcases hc with hc | hc
        · exact zeros_all_digit _ c hc
        · exact hall c hc
      · split
        · -- one digit and an exponent
          rw [List.append_assoc, List.singleton_append]
          exact run_ip_exp s0 hs _ (intPart_natDigits m) _
        · -- `d.ddd` and an exponent
          rename_i h5
          simp only [beq_iff_eq] at h5
          have : List.take 1 (natDigits m) ++ [0x2e] ++ List.drop 1 (natDigits m) ++ [0x65] ++
              intText ((natDigits m).length + k - 1) =
              List.take 1 (natDigits m) ++ (0x2e :: List.drop 1 (natDigits m) ++ 0x65 ::
                intText ((natDigits m).length + k - 1)) := by simp
          rw [this]
          refine run_ip_frac_exp s0 hs _ _ (intPart_take _ (intPart_natDigits m) 1 (by omega))
            (fun c hc => hall c (List.mem_of_mem_drop hc)) ?_ _
          intro h
          rw [List.drop_eq_nil_iff] at h
          omega

end Ryu


/-! ### the digits of a nonzero float are nonzero -/

/-- the float that the decimal `m * 10^k` is read as (`str::parse::<f64>`: round to nearest even,
as `F64.parseDecChars` does for a positive literal with mantissa `m` and exponent `k`) -/
def decRound (m : Nat) (k : Int) : UInt64 :=
  if k ≥ 0 then F64.roundRat false (m * 10 ^ k.toNat) 1 else F64.roundRat false m (10 ^ (-k).toNat)

namespace Ryu

/-- the selection logic of `ryuAttempt` over an abstract acceptance test -/
def attemptCore (back : Nat → Bool) (num den : Nat) (k : Int) : Option (Nat × Int) :=
  let lo := num / den
  let rem := num % den
  let okLo := back lo
  let okHi := back (lo + 1)
  if rem == 0 && okLo then some (lo, k)
  else if okLo && okHi then
    (if 2 * rem < den then some (lo, k)
     else if 2 * rem > den then some (lo + 1, k)
     else if lo % 2 == 0 then some (lo, k) else some (lo + 1, k))
  else if okLo then some (lo, k)
  else if okHi then some (lo + 1, k)
  else none

theorem attemptCore_some (back : Nat → Bool) (num den : Nat) (k : Int) (m : Nat) (k' : Int)
    (h : attemptCore back num den k = some (m, k')) : k' = k ∧ back m = true := by
  unfold attemptCore at h
  simp only [] at h
  generalize num / den = lo at h
  generalize num % den = rem at h
  repeat' split at h
  all_goals (cases h <;> simp_all)

def ryuNumDen (u : Nat) (k : Int) : Nat × Nat :=
  if k ≥ 0 then (u, 2 ^ 1074 * 10 ^ k.toNat) else (u * 10 ^ (-k).toNat, 2 ^ 1074)

end Ryu

theorem ryuAttempt_eq (bits : UInt64) (u : Nat) (e10 : Int) (n : Nat) :
    ryuAttempt bits u e10 n =
      attemptCore (fun c => decRound c (e10 - (Int.ofNat n - 1)) == bits)
        (ryuNumDen u (e10 - (Int.ofNat n - 1))).1 (ryuNumDen u (e10 - (Int.ofNat n - 1))).2
        (e10 - (Int.ofNat n - 1)) := by
  unfold ryuAttempt
  rfl

theorem ryuAttempt_back (bits : UInt64) (u : Nat) (e10 : Int) (n m : Nat) (k : Int)
    (h : ryuAttempt bits u e10 n = some (m, k)) : decRound m k = bits := by
  rw [ryuAttempt_eq] at h
  obtain ⟨hk, hb⟩ := attemptCore_some _ _ _ _ _ _ h
  subst hk
  simpa using hb

namespace Ryu

theorem roundRat_zero (d : Nat) : F64.roundRat false 0 d = 0 := by
  simp [F64.roundRat, F64.zero, F64.posZero]

end Ryu

theorem decRound_zero (k : Int) : decRound 0 k = 0 := by
  unfold decRound
  split
  · rw [Nat.zero_mul]; exact roundRat_zero 1
  · exact roundRat_zero _

/-- candidates for a nonzero float have nonzero digits -/
theorem ryuAttempt_ne_zero (bits : UInt64) (hb : bits ≠ 0) (u : Nat) (e10 : Int) (n m : Nat) (k : Int)
    (h : ryuAttempt bits u e10 n = some (m, k)) : m ≠ 0 := by
  intro hm
  subst hm
  have := ryuAttempt_back bits u e10 n 0 k h
  rw [decRound_zero] at this
  exact hb this.symm

theorem ryuSearch_zero (bits : UInt64) (hb : bits ≠ 0) (u : Nat) (e10 : Int) :
    ∀ fuel n, (ryuSearch bits u e10 fuel n).1 = 0 → (ryuSearch bits u e10 fuel n).2 = 0 := by
  intro fuel
  induction fuel with
  | zero => intro n _; rfl
  | succ fuel ih =>
    intro n
    rw [ryuSearch]
    cases h : ryuAttempt bits u e10 n with
    | none => exact ih (n + 1)
    | some r =>
      obtain ⟨m, k⟩ := r
      intro hm
      exact absurd hm (ryuAttempt_ne_zero bits hb u e10 n m k h)

theorem stripZeros_zero : ∀ (fuel m : Nat) (k : Int), (m = 0 → k = 0) →
    (stripZeros fuel m k).1 = 0 → (stripZeros fuel m k).2 = 0 := by
  intro fuel
  induction fuel with
  | zero => intro m k h; exact h
  | succ fuel ih =>
    intro m k h
    rw [stripZeros]
    split
    · rename_i hc
      simp only [Bool.and_eq_true, bne_iff_ne, ne_eq, beq_iff_eq] at hc
      exact ih (m / 10) (k + 1) (by omega)
    · exact h

/-- the decimal exponent estimate of `shortestDigits` -/
def ryuE10 (bits : UInt64) : Int :=
  if F64.magUnits bits ≥ 2 ^ 1074 then Int.ofNat (numDigits (F64.magUnits bits / 2 ^ 1074)) - 1
  else -(Int.ofNat (scaleUp (F64.magUnits bits) (2 ^ 1074) 400 0))

/-- the digits found by the search, before trailing zeros are stripped -/
def rawDigits (bits : UInt64) : Nat × Int := ryuSearch bits (F64.magUnits bits) (ryuE10 bits) 18 1

theorem shortestDigits_eq (a : UInt64) :
    shortestDigits a = stripZeros 20 (rawDigits a).1 (rawDigits a).2 := by
  unfold shortestDigits rawDigits ryuE10
  dsimp only []

theorem shortestDigits_zero (a : UInt64) (ha : a ≠ 0) :
    (shortestDigits a).1 = 0 → (shortestDigits a).2 = 0 := by
  rw [shortestDigits_eq]
  exact stripZeros_zero 20 _ _ (ryuSearch_zero a ha _ _ 18 1)

namespace Ryu

theorem abs_ne_zero (f : UInt64) (h : F64.isZero f = false) : F64.abs f ≠ 0 := by
  unfold F64.isZero at h
  unfold F64.abs
  intro e
  have := congrArg UInt64.toNat e
  simp at this
  simp at h
  omega

end Ryu

/-! ### Tier A, final statement -/

/-- what `ryuModel` writes is, for EVERY bit pattern, a complete number literal of the reader's
grammar with a fraction or an exponent -/
theorem ryuModel_lexes (f : UInt64) : ∃ sf, numLex NumSt.init (ryuModel f) = (ryuModel f, [], sf) ∧
    endsWithDigit (ryuModel f) = true ∧ (sf.dot || sf.exp) = true := by
  -- the part after the sign, from either start state
  have body : ∀ s0, SignSt s0 → ∃ sf,
      Run s0 (if F64.isZero f then [0x30, 0x2e, 0x30]
        else ryuLayout (shortestDigits (F64.abs f)).1 (shortestDigits (F64.abs f)).2) sf ∧
      endsWithDigit (if F64.isZero f then [0x30, 0x2e, 0x30]
        else ryuLayout (shortestDigits (F64.abs f)).1 (shortestDigits (F64.abs f)).2) = true ∧
      (sf.dot || sf.exp) = true := by
    intro s0 hs
    cases hz : F64.isZero f with
    | true =>
      simp only [if_true]
      exact run_ip_frac s0 hs [0x30] [0x30] ⟨by decide, Or.inl rfl⟩ (by decide) (by simp)
    | false =>
      simp only [Bool.false_eq_true, if_false]
      exact run_layout s0 hs _ _ (shortestDigits_zero _ (abs_ne_zero f hz))
  rw [ryuModel_eq]
  cases hsb : F64.signBit f with
  | false =>
    simp only [Bool.false_eq_true, if_false, List.nil_append]
    exact body NumSt.init (Or.inl rfl)
  | true =>
    simp only [if_true, List.singleton_append]
    obtain ⟨sf, h1, h2, h3⟩ := body { NumSt.init with read := 0x2d } (Or.inr rfl)
    refine ⟨sf, Run.cons (by decide) h1, ?_, h3⟩
    rw [endsWithDigit_cons _ _ ?_]
    · exact h2
    · intro e; rw [e] at h2; simp [endsWithDigit] at h2

theorem ryuModel_lit : RyuLit Cfg.model := fun f _ => ryuModel_lexes f

theorem ryuModel_validDec (f : UInt64) : ValidDec (ryuModel f) := by
  obtain ⟨sf, h1, h2, h3⟩ := ryuModel_lexes f
  exact ⟨sf, ⟨h1, h2⟩, h3⟩


/-! ## Tier B: the digit search returns digits that round back to the float -/

/-- some attempt `n, n+1, …` (at most `fuel` of them) of `ryuSearch` succeeds -/
def ryuFoundAux (bits : UInt64) (u : Nat) (e10 : Int) : Nat → Nat → Bool
  | 0, _ => false
  | fuel + 1, n => (ryuAttempt bits u e10 n).isSome || ryuFoundAux bits u e10 fuel (n + 1)

/-- some attempt with 1..18 digits of the search inside `shortestDigits a` succeeds -/
def ryuFound (a : UInt64) : Bool := ryuFoundAux a (F64.magUnits a) (ryuE10 a) 18 1

theorem ryuSearch_back_aux (bits : UInt64) (u : Nat) (e10 : Int) : ∀ fuel n,
    ryuFoundAux bits u e10 fuel n = true →
    decRound (ryuSearch bits u e10 fuel n).1 (ryuSearch bits u e10 fuel n).2 = bits := by
  intro fuel
  induction fuel with
  | zero => intro n h; simp [ryuFoundAux] at h
  | succ fuel ih =>
    intro n h
    rw [ryuFoundAux] at h
    rw [ryuSearch]
    cases ha : ryuAttempt bits u e10 n with
    | none =>
      simp only [ha, Option.isSome_none, Bool.false_or] at h
      exact ih (n + 1) h
    | some r =>
      obtain ⟨m, k⟩ := r
      exact ryuAttempt_back bits u e10 n m k ha

/-- whatever the exponent estimate `e10`: if some attempt succeeds, the result of the search
rounds back to the float -/
theorem ryuSearch_back (a : UInt64) (e10 : Int) (h : ryuFoundAux a (F64.magUnits a) e10 18 1 = true) :
    let r := ryuSearch a (F64.magUnits a) e10 18 1
    decRound r.1 r.2 = a :=
  ryuSearch_back_aux a (F64.magUnits a) e10 18 1 h

theorem rawDigits_roundtrip (a : UInt64) (h : ryuFound a = true) :
    decRound (rawDigits a).1 (rawDigits a).2 = a :=
  ryuSearch_back_aux a (F64.magUnits a) (ryuE10 a) 18 1 h


/-! ### `roundRat` is invariant under scaling of numerator and denominator -/

namespace Ryu

/-- `floor (log2 (num / den))` as computed in `F64.roundRat` -/
def fl2 (num den : Nat) : Int :=
  let lb : Int := Int.ofNat num.log2 - Int.ofNat den.log2
  let ge : Bool := if lb ≥ 0 then num ≥ den * 2 ^ lb.toNat else num * 2 ^ (-lb).toNat ≥ den
  if ge then lb else lb - 1

/-- round-to-nearest-even quotient -/
def rne (n' d' : Nat) : Nat :=
  let q := n' / d'
  let r := n' % d'
  let up : Bool := 2 * r > d' || (2 * r == d' && q % 2 == 1)
  if up then q + 1 else q

/-- the fraction `num / den / 2^E` -/
def ndE (num den : Nat) (E : Int) : Nat × Nat :=
  if E ≥ 0 then (num, den * 2 ^ E.toNat) else (num * 2 ^ (-E).toNat, den)

/-- `F64.roundRat` after the binary exponent `L` has been determined -/
def roundL (neg : Bool) (num den : Nat) (L : Int) : UInt64 :=
  let E : Int := if L - 52 < -1074 then -1074 else L - 52
  let q := rne (ndE num den E).1 (ndE num den E).2
  let bits := (E + 1074).toNat * 2 ^ 52 + q
  if bits ≥ 2047 * 2 ^ 52 then F64.inf neg
  else UInt64.ofNat (bits + (if neg then 2 ^ 63 else 0))

theorem roundRat_eq (neg : Bool) (num den : Nat) : F64.roundRat neg num den =
    if num == 0 || den == 0 then F64.zero neg else roundL neg num den (fl2 num den) := by
  unfold F64.roundRat roundL fl2 rne ndE
  dsimp only []

theorem rne_scale (n d c : Nat) (hc : 0 < c) : rne (n * c) (d * c) = rne n d := by
  unfold rne
  dsimp only []
  rw [Nat.mul_div_mul_right _ _ hc, Nat.mul_mod_mul_right]
  generalize n / d = q
  generalize n % d = r
  have h1 : decide (2 * (r * c) > d * c) = decide (2 * r > d) := by
    rw [← Nat.mul_assoc]; exact decide_eq_decide.mpr (Nat.mul_lt_mul_right hc)
  have h2 : (2 * (r * c) == d * c) = (2 * r == d) := by
    rw [Bool.eq_iff_iff]; simp only [beq_iff_eq]; rw [← Nat.mul_assoc]
    exact Nat.mul_right_cancel_iff hc
  rw [h1, h2]

theorem rne_ndE_scale (n d c : Nat) (hc : 0 < c) (E : Int) :
    rne (ndE (n * c) (d * c) E).1 (ndE (n * c) (d * c) E).2 = rne (ndE n d E).1 (ndE n d E).2 := by
  unfold ndE
  split
  · dsimp only []
    rw [Nat.mul_right_comm d c, rne_scale _ _ _ hc]
  · dsimp only []
    rw [Nat.mul_right_comm n c, rne_scale _ _ _ hc]

theorem roundL_scale (neg : Bool) (n d c : Nat) (hc : 0 < c) (L : Int) :
    roundL neg (n * c) (d * c) L = roundL neg n d L := by
  unfold roundL
  dsimp only []
  rw [rne_ndE_scale n d c hc]

/-- `2^z ≤ n / d`, cross-multiplied -/
def LE2 (n d : Nat) (z : Int) : Prop := d * 2 ^ z.toNat ≤ n * 2 ^ (-z).toNat

instance (n d : Nat) (z : Int) : Decidable (LE2 n d z) := by unfold LE2; infer_instance

theorem LE2_scale (n d c : Nat) (hc : 0 < c) (z : Int) : LE2 (n * c) (d * c) z ↔ LE2 n d z := by
  unfold LE2
  rw [Nat.mul_right_comm d, Nat.mul_right_comm n]
  exact Nat.mul_le_mul_right_iff hc

theorem LE2_pred (n d : Nat) (z : Int) (h : LE2 n d (z + 1)) : LE2 n d z := by
  unfold LE2 at h ⊢
  by_cases hz : 0 ≤ z
  · have e1 : (z + 1).toNat = z.toNat + 1 := by omega
    have e2 : (-(z + 1)).toNat = 0 := by omega
    have e3 : (-z).toNat = 0 := by omega
    rw [e1, e2, Nat.pow_succ, ← Nat.mul_assoc] at h
    rw [e3]
    omega
  · have e1 : (z + 1).toNat = 0 := by omega
    have e2 : z.toNat = 0 := by omega
    have e3 : (-z).toNat = (-(z + 1)).toNat + 1 := by omega
    rw [e1] at h
    rw [e2, e3, Nat.pow_succ, ← Nat.mul_assoc]
    omega

theorem LE2_mono (n d : Nat) (z : Int) : ∀ k : Nat, LE2 n d (z + k) → LE2 n d z := by
  intro k
  induction k with
  | zero => intro h; simpa using h
  | succ k ih =>
    intro h
    apply ih
    apply LE2_pred
    have : z + (k : Int) + 1 = z + ((k + 1 : Nat) : Int) := by omega
    rw [this]; exact h

theorem LE2_unique (n d : Nat) (L L' : Int) (h1 : LE2 n d L) (h2 : ¬ LE2 n d (L + 1))
    (h1' : LE2 n d L') (h2' : ¬ LE2 n d (L' + 1)) : L = L' := by
  by_cases hlt : L < L'
  · exfalso; apply h2
    apply LE2_mono n d (L + 1) (L' - (L + 1)).toNat
    have : L + 1 + ((L' - (L + 1)).toNat : Int) = L' := by omega
    rw [this]; exact h1'
  · by_cases hgt : L' < L
    · exfalso; apply h2'
      apply LE2_mono n d (L' + 1) (L - (L' + 1)).toNat
      have : L' + 1 + ((L - (L' + 1)).toNat : Int) = L := by omega
      rw [this]; exact h1
    · omega

theorem le_of_logs (n d a b p q : Nat) (ha : 2 ^ a ≤ n) (hb : d < 2 ^ (b + 1))
    (h : p + b + 1 ≤ q + a) : d * 2 ^ p ≤ n * 2 ^ q := by
  have h1 : d * 2 ^ p < 2 ^ (b + 1) * 2 ^ p := Nat.mul_lt_mul_of_pos_right hb (Nat.pow_pos (by omega))
  have h2 : 2 ^ (b + 1) * 2 ^ p = 2 ^ (b + 1 + p) := (Nat.pow_add _ _ _).symm
  have h3 : 2 ^ (b + 1 + p) ≤ 2 ^ (a + q) := Nat.pow_le_pow_right (by omega) (by omega)
  have h4 : 2 ^ (a + q) = 2 ^ a * 2 ^ q := Nat.pow_add _ _ _
  have h5 : 2 ^ a * 2 ^ q ≤ n * 2 ^ q := Nat.mul_le_mul_right _ ha
  omega

theorem not_le_of_logs (n d a b p q : Nat) (ha : n < 2 ^ (a + 1)) (hb : 2 ^ b ≤ d)
    (h : q + a + 1 ≤ p + b) : ¬ d * 2 ^ p ≤ n * 2 ^ q := by
  have h1 : n * 2 ^ q < 2 ^ (a + 1) * 2 ^ q := Nat.mul_lt_mul_of_pos_right ha (Nat.pow_pos (by omega))
  have h2 : 2 ^ (a + 1) * 2 ^ q = 2 ^ (a + 1 + q) := (Nat.pow_add _ _ _).symm
  have h3 : 2 ^ (a + 1 + q) ≤ 2 ^ (b + p) := Nat.pow_le_pow_right (by omega) (by omega)
  have h4 : 2 ^ (b + p) = 2 ^ b * 2 ^ p := Nat.pow_add _ _ _
  have h5 : 2 ^ b * 2 ^ p ≤ d * 2 ^ p := Nat.mul_le_mul_right _ hb
  omega

theorem fl2_spec (n d : Nat) (hn : n ≠ 0) (hd : d ≠ 0) :
    LE2 n d (fl2 n d) ∧ ¬ LE2 n d (fl2 n d + 1) := by
  have ha1 := Nat.log2_self_le hn
  have ha2 := @Nat.lt_log2_self n
  have hb1 := Nat.log2_self_le hd
  have hb2 := @Nat.lt_log2_self d
  unfold fl2
  simp only [Int.ofNat_eq_natCast]
  generalize n.log2 = a at *
  generalize d.log2 = b at *
  -- the comparison in `fl2` is `LE2` at `lb`
  have hge : (if (a : Int) - b ≥ 0 then decide (n ≥ d * 2 ^ ((a : Int) - b).toNat)
      else decide (n * 2 ^ (-((a : Int) - b)).toNat ≥ d)) = decide (LE2 n d ((a : Int) - b)) := by
    split
    · have e : (-((a : Int) - b)).toNat = 0 := by omega
      rw [decide_eq_decide]; unfold LE2; rw [e]; simp
    · have e : ((a : Int) - b).toNat = 0 := by omega
      rw [decide_eq_decide]; unfold LE2; rw [e]; simp
  rw [hge]
  have hlo : LE2 n d ((a : Int) - b - 1) := le_of_logs n d a b _ _ ha1 hb2 (by omega)
  have hhi : ¬ LE2 n d ((a : Int) - b + 1) := not_le_of_logs n d a b _ _ ha2 hb1 (by omega)
  by_cases h : LE2 n d ((a : Int) - b)
  · simp only [decide_eq_true h, if_true]
    exact ⟨h, hhi⟩
  · simp only [decide_eq_false h, Bool.false_eq_true, if_false]
    refine ⟨hlo, ?_⟩
    have : (a : Int) - b - 1 + 1 = (a : Int) - b := by omega
    rw [this]; exact h

theorem fl2_scale (n d c : Nat) (hn : n ≠ 0) (hd : d ≠ 0) (hc : 0 < c) :
    fl2 (n * c) (d * c) = fl2 n d := by
  have hc' : c ≠ 0 := by omega
  obtain ⟨s1, s2⟩ := fl2_spec (n * c) (d * c) (Nat.mul_ne_zero hn hc') (Nat.mul_ne_zero hd hc')
  obtain ⟨t1, t2⟩ := fl2_spec n d hn hd
  rw [LE2_scale n d c hc] at s1 s2
  exact LE2_unique n d _ _ s1 s2 t1 t2

end Ryu

theorem roundRat_scale (neg : Bool) (n d c : Nat) (hc : 0 < c) :
    F64.roundRat neg (n * c) (d * c) = F64.roundRat neg n d := by
  rw [roundRat_eq, roundRat_eq]
  by_cases hn : n = 0
  · subst hn; simp
  · by_cases hd : d = 0
    · subst hd; simp
    · have hc' : c ≠ 0 := by omega
      have e1 : (n * c == 0 || d * c == 0) = false := by simp [Nat.mul_eq_zero, hn, hd, hc']
      have e2 : (n == 0 || d == 0) = false := by simp [hn, hd]
      rw [e1, e2]
      simp only [Bool.false_eq_true, if_false]
      rw [fl2_scale n d c hn hd hc, roundL_scale neg n d c hc]


/-! ### stripping trailing zeros keeps the value -/

theorem decRound_strip (m : Nat) (k : Int) (hm : m % 10 = 0) :
    decRound (m / 10) (k + 1) = decRound m k := by
  have e : m = m / 10 * 10 := by omega
  generalize m / 10 = m' at e
  subst e
  unfold decRound
  by_cases h0 : k ≥ 0
  · have h1 : k + 1 ≥ 0 := by omega
    have e1 : (k + 1).toNat = k.toNat + 1 := by omega
    rw [if_pos h0, if_pos h1, e1, Nat.pow_succ, Nat.mul_comm (10 ^ k.toNat) 10, Nat.mul_assoc]
  · rw [if_neg h0]
    by_cases h1 : k + 1 ≥ 0
    · have e1 : (k + 1).toNat = 0 := by omega
      have e2 : (-k).toNat = 1 := by omega
      rw [if_pos h1, e1, e2, Nat.pow_zero, Nat.mul_one, Nat.pow_one]
      exact (roundRat_scale false m' 1 10 (by omega)).symm
    · have e2 : (-k).toNat = (-(k + 1)).toNat + 1 := by omega
      rw [if_neg h1, e2, Nat.pow_succ]
      exact (roundRat_scale false m' _ 10 (by omega)).symm

theorem stripZeros_decRound : ∀ (fuel m : Nat) (k : Int),
    decRound (stripZeros fuel m k).1 (stripZeros fuel m k).2 = decRound m k := by
  intro fuel
  induction fuel with
  | zero => intro m k; rfl
  | succ fuel ih =>
    intro m k
    rw [stripZeros]
    split
    · rename_i hc
      simp only [Bool.and_eq_true, bne_iff_ne, ne_eq, beq_iff_eq] at hc
      rw [ih, decRound_strip m k hc.2]
    · rfl

/-- Tier B: when one of the 18 attempts of the digit search succeeds, the decimal `m * 10^k`
returned by `shortestDigits` rounds (nearest-even, `F64.roundRat`) back to the float -/
theorem shortestDigits_roundtrip_partial (a : UInt64) (h : ryuFound a = true) :
    decRound (shortestDigits a).1 (shortestDigits a).2 = a := by
  rw [shortestDigits_eq, stripZeros_decRound]
  exact rawDigits_roundtrip a h

/-! ## towards the text level: the sign -/

theorem Ryu.pack_neg (B : Nat) :
    (if B ≥ 2047 * 2 ^ 52 then F64.inf true else UInt64.ofNat (B + (if true = true then 2 ^ 63 else 0))) =
    F64.neg (if B ≥ 2047 * 2 ^ 52 then F64.inf false
      else UInt64.ofNat (B + (if false = true then 2 ^ 63 else 0))) := by
  split
  · decide
  · rename_i h
    simp only [if_true, Bool.false_eq_true, if_false, Nat.add_zero]
    unfold F64.neg
    apply UInt64.toNat_inj.mp
    simp only [UInt64.toNat_ofNat']
    omega

/-- rounding to a negative float is rounding to the positive one with the sign bit set -/
theorem roundRat_neg (n d : Nat) : F64.roundRat true n d = F64.neg (F64.roundRat false n d) := by
  rw [roundRat_eq, roundRat_eq]
  split
  · decide
  · unfold roundL
    dsimp only []
    exact pack_neg _

theorem abs_sign (f : UInt64) : f = if F64.signBit f then F64.neg (F64.abs f) else F64.abs f := by
  unfold F64.signBit F64.neg F64.abs
  apply UInt64.toNat_inj.mp
  have := f.toNat_lt
  split
  · rename_i h
    simp only [decide_eq_true_eq] at h
    simp only [UInt64.toNat_ofNat']
    omega
  · rename_i h
    simp only [decide_eq_true_eq] at h
    simp only [UInt64.toNat_ofNat']
    omega


/-- `decRound` with a sign: what `F64.parseDecChars` computes for the literal `±m·10^k` (without
its guards for astronomically large exponents) -/
def decRoundS (neg : Bool) (m : Nat) (k : Int) : UInt64 :=
  if k ≥ 0 then F64.roundRat neg (m * 10 ^ k.toNat) 1 else F64.roundRat neg m (10 ^ (-k).toNat)

theorem decRoundS_eq (neg : Bool) (m : Nat) (k : Int) :
    decRoundS neg m k = if neg then F64.neg (decRound m k) else decRound m k := by
  unfold decRoundS decRound
  cases neg with
  | false => simp only [Bool.false_eq_true, if_false]
  | true =>
    simp only [if_true]
    split <;> exact roundRat_neg _ _

/-- Tier B with the sign: the digits written for `f` (those of `|f|`), read with the sign of `f`,
give `f` — when the digit search for `|f|` succeeds -/
theorem ryuDigits_signed_roundtrip_partial (f : UInt64) (h : ryuFound (F64.abs f) = true) :
    decRoundS (F64.signBit f) (shortestDigits (F64.abs f)).1 (shortestDigits (F64.abs f)).2 = f := by
  rw [decRoundS_eq, shortestDigits_roundtrip_partial _ h]
  exact (abs_sign f).symm

end Jaq.C07
