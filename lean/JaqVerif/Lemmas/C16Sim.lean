/- C16: simulation between the modular evaluator `eval` (module tables) and the single lexically
   scoped program `evalL` over the scope built by `baseL` (helper lemmas for Props/C16.lean). -/
import JaqVerif.C16.Lexical
import JaqVerif.Lemmas.C16Resolve

namespace Jaq.C16

/-! ## lists of entries of one kind -/

def AllFn (l : List LEntry) : Prop := ∀ e ∈ l, ∃ q d env, e = LEntry.ldef q d env
def AllVal (l : List LEntry) : Prop := ∀ e ∈ l, ∃ x v, e = LEntry.val x v

theorem AllFn.append {a b : List LEntry} (ha : AllFn a) (hb : AllFn b) : AllFn (a ++ b) := by
  intro e he
  rcases List.mem_append.mp he with h | h
  · exact ha e h
  · exact hb e h

theorem allFn_exportsL (q : Option String) : ∀ (ds : List Def) (own : List LEntry), AllFn (exportsL q own ds)
  | [], _ => by intro e he; simp [exportsL] at he
  | d :: r, own => by
    simp only [exportsL]
    refine (allFn_exportsL q r _).append ?_
    intro e he
    simp only [List.mem_singleton] at he
    exact ⟨q, d, own, he⟩

theorem allFn_flatten {ls : List (List LEntry)} (h : ∀ l ∈ ls, AllFn l) : AllFn ls.flatten := by
  intro e he
  obtain ⟨l, hl, hel⟩ := List.mem_flatten.mp he
  exact h l hl e hel

theorem lookupVarL_allFn (x : String) : ∀ (a b : List LEntry), AllFn a → lookupVarL x (a ++ b) = lookupVarL x b
  | [], _, _ => rfl
  | e :: a, b, h => by
    obtain ⟨q, d, env, rfl⟩ := h e (by simp)
    simp only [List.cons_append, lookupVarL]
    exact lookupVarL_allFn x a b (fun e' he' => h e' (List.mem_cons_of_mem _ he'))

theorem findFnL_allVal (q : Option String) (f : String) (n : Nat) :
    ∀ (a b : List LEntry), AllVal a → findFnL q f n (a ++ b) = findFnL q f n b
  | [], _, _ => rfl
  | e :: a, b, h => by
    obtain ⟨x, v, rfl⟩ := h e (by simp)
    simp only [List.cons_append, findFnL]
    exact findFnL_allVal q f n a b (fun e' he' => h e' (List.mem_cons_of_mem _ he'))

theorem lookupVarL_pushDefsL (x : String) : ∀ (ds : List Def) (env : List LEntry),
    lookupVarL x (pushDefsL env ds) = lookupVarL x env
  | [], _ => rfl
  | d :: r, env => by
    show lookupVarL x (pushDefsL (LEntry.ldef none d env :: env) r) = _
    rw [lookupVarL_pushDefsL x r]
    rfl

theorem lookupVarL_append (x : String) : ∀ (a b : List LEntry),
    lookupVarL x (a ++ b) = (lookupVarL x a).or (lookupVarL x b)
  | [], _ => by simp [lookupVarL]
  | .val y v :: a, b => by
    simp only [List.cons_append, lookupVarL]
    split
    · simp
    · exact lookupVarL_append x a b
  | .lbl _ :: a, b => by simp only [List.cons_append, lookupVarL]; exact lookupVarL_append x a b
  | .clo _ _ _ :: a, b => by simp only [List.cons_append, lookupVarL]; exact lookupVarL_append x a b
  | .ldef _ _ _ :: a, b => by simp only [List.cons_append, lookupVarL]; exact lookupVarL_append x a b

theorem lookupVarL_map {α : Type} (x : String) (k : α → String) (w : α → V) : ∀ (l : List α),
    lookupVarL x (l.map fun e => LEntry.val (k e) (w e)) = (l.find? fun e => x = k e).map w
  | [] => rfl
  | a :: r => by
    simp only [List.map_cons, lookupVarL, List.find?_cons]
    by_cases h : x = k a
    · simp [h]
    · simp [h, lookupVarL_map x k w r]

/-! ## the relation between the two kinds of environment -/

/-- `REnv g vv mid env lenv`: the module-indexed environment `env` (text of module `mid`) and the
    lexical environment `lenv` denote the same scope: equal local entries on top of the first
    `k` definitions of module `mid`, which correspond to the scope that replaces its header -/
inductive REnv {S : Type} (g : Graph S) (vv : VarVals) : Nat → List Entry → List LEntry → Prop
  | base (mid k fuel : Nat) : mid < fuel → REnv g vv mid (mdefsBelow mid k) (scopeL g vv fuel mid k)
  | val (mid : Nat) (x : String) (v : V) (e : List Entry) (l : List LEntry) :
      REnv g vv mid e l → REnv g vv mid (.val x v :: e) (.val x v :: l)
  | lbl (mid : Nat) (x : String) (e : List Entry) (l : List LEntry) :
      REnv g vv mid e l → REnv g vv mid (.lbl x :: e) (.lbl x :: l)
  | clo (mid : Nat) (f : String) (t : Tm) (cmid : Nat) (ce : List Entry) (cl : List LEntry)
      (e : List Entry) (l : List LEntry) :
      REnv g vv cmid ce cl → REnv g vv mid e l → REnv g vv mid (.clo f t ce cmid :: e) (.clo f t cl :: l)
  | ldef (mid : Nat) (d : Def) (dmid : Nat) (de : List Entry) (dl : List LEntry)
      (e : List Entry) (l : List LEntry) :
      REnv g vv dmid de dl → REnv g vv mid e l → REnv g vv mid (.ldef d de dmid :: e) (.ldef none d dl :: l)

variable {S : Type}

theorem lookupVar_mdefsBelow (g : Graph S) (vv : VarVals) (mid : Nat) (x : String) :
    ∀ k, lookupVar g vv mid x (mdefsBelow mid k) = lookupVar g vv mid x []
  | 0 => rfl
  | k + 1 => by simp only [mdefsBelow, lookupVar]; exact lookupVar_mdefsBelow g vv mid x k

theorem allVal_data (g : Graph S) (vv : VarVals) (mid : Nat) : AllVal (dataEntries g vv mid ++ globalEntries g vv) := by
  intro e he
  simp only [dataEntries, globalEntries, List.mem_append, List.mem_map] at he
  rcases he with ⟨a, _, rfl⟩ | ⟨a, _, rfl⟩ <;> exact ⟨_, _, rfl⟩

theorem allFn_exportsRegion (g : Graph S) (vv : VarVals) (fuel : Nat) (H : List (Nat × Option String)) :
    AllFn (H.map fun e => exportsL e.2 (baseL g vv fuel e.1) (defsOf g e.1)).flatten := by
  apply allFn_flatten
  intro l hl
  obtain ⟨e, _, rfl⟩ := List.mem_map.mp hl
  exact allFn_exportsL _ _ _

/-- variables: the data imports of this module, then the command-line variables -/
theorem lookupVarL_baseL (g : Graph S) (vv : VarVals) (fuel mid : Nat) (x : String) :
    lookupVarL x (baseL g vv (fuel + 1) mid) = lookupVar g vv mid x [] := by
  simp only [baseL]
  rw [lookupVarL_allFn x _ _ (allFn_exportsRegion g vv fuel _), lookupVarL_append]
  simp only [dataEntries, globalEntries, lookupVar]
  rw [lookupVarL_map x (fun e : (String × Nat) × V => e.1.1) (fun e => e.2),
    lookupVarL_map x (fun e : String × V => e.1) (fun e => e.2), List.find?_filter]
  have hc : ∀ (L : List ((String × Nat) × V)),
      List.find? (fun a => decide (decide (a.1.2 = mid) = true ∧ decide (x = a.1.1) = true)) L =
      List.find? (fun e => decide (x = e.1.1 ∧ e.1.2 = mid)) L := by
    intro L
    congr 1
    funext a
    by_cases h1 : a.1.2 = mid <;> by_cases h2 : x = a.1.1 <;> simp [h1, h2]
  rw [hc]
  cases List.find? (fun e => decide (x = e.1.1 ∧ e.1.2 = mid)) (g.importedVars.zip vv.imported).reverse <;> rfl

theorem lookupVar_sim (g : Graph S) (vv : VarVals) (x : String) {mid : Nat} {e : List Entry} {l : List LEntry}
    (h : REnv g vv mid e l) : lookupVar g vv mid x e = lookupVarL x l := by
  induction h with
  | base mid k fuel hf =>
    rw [lookupVar_mdefsBelow, scopeL, lookupVarL_pushDefsL]
    cases fuel with
    | zero => omega
    | succ f => rw [lookupVarL_baseL]
  | val mid y v e l _ ih => simp only [lookupVar, lookupVarL, ih]
  | lbl mid y e l _ ih => simp only [lookupVar, lookupVarL, ih]
  | clo mid f t cmid ce cl e l _ _ _ ih => simp only [lookupVar, lookupVarL, ih]
  | ldef mid d dmid de dl e l _ _ _ ih => simp only [lookupVar, lookupVarL, ih]

/-! ## definitions -/

def defMatches (f : String) (n : Nat) (d : Def) : Bool := decide (d.name = f ∧ d.params.length = n)

theorem findLastIdx_map {α β : Type} (h : α → β) (p : β → Bool) : ∀ (l : List α),
    findLastIdx p (l.map h) = findLastIdx (fun a => p (h a)) l
  | [] => rfl
  | a :: r => by simp only [List.map_cons, findLastIdx, findLastIdx_map h p r]

theorem callModId_sigs (ds : List Def) (f : String) (n : Nat) :
    callModId (ds.map Def.sig) f n = findLastIdx (defMatches f n) ds := by
  unfold callModId
  rw [findLastIdx_map]
  congr 1
  funext d
  show d.sig.matches f n = defMatches f n d
  unfold Sig.matches Def.sig defMatches
  by_cases h1 : d.name = f
  · by_cases h2 : d.params.length = n
    · simp [h1, h2]
    · have : ¬ n = d.params.length := fun h => h2 h.symm
      simp [h2, this]
  · have : ¬ f = d.name := fun h => h1 h.symm
    simp [h1, this]

theorem modDef_eq (g : Graph S) (j k : Nat) : modDef g j k = (defsOf g j)[k]? := by
  unfold modDef defsOf
  cases g.mods[j]? <;> simp

theorem modMap_get (g : Graph S) (j : Nat) (defs : List Sig) (h : g.modMap[j]? = some defs) :
    defs = (defsOf g j).map Def.sig := by
  unfold Graph.modMap at h
  rw [List.getElem?_map] at h
  unfold defsOf
  cases hm : g.mods[j]? with
  | none => simp [hm] at h
  | some m => simp [hm] at h; simp [h]

theorem modMap_get_lt (g : Graph S) (j : Nat) (h : j < g.mods.length) :
    g.modMap[j]? = some ((defsOf g j).map Def.sig) := by
  unfold Graph.modMap defsOf
  rw [List.getElem?_map, List.getElem?_eq_getElem h]
  rfl

theorem pushDefsL_append (env : List LEntry) (a b : List Def) :
    pushDefsL env (a ++ b) = pushDefsL (pushDefsL env a) b := by
  simp [pushDefsL, List.foldl_append]

theorem scopeL_succ (g : Graph S) (vv : VarVals) (fuel mid k : Nat) :
    scopeL g vv fuel mid (k + 1) =
      match (defsOf g mid)[k]? with
      | some d => LEntry.ldef none d (scopeL g vv fuel mid k) :: scopeL g vv fuel mid k
      | none => scopeL g vv fuel mid k := by
  unfold scopeL
  rw [List.take_add_one, pushDefsL_append]
  cases (defsOf g mid)[k]? <;> rfl

/-- look-up through the definitions a directive brings in -/
theorem findFnL_exports (q : Option String) (f : String) (n : Nat) (q' : Option String) :
    ∀ (ds : List Def) (own rest : List LEntry),
      (q' ≠ q → findFnL q f n (exportsL q' own ds ++ rest) = findFnL q f n rest) ∧
      (findLastIdx (defMatches f n) ds = none → findFnL q f n (exportsL q' own ds ++ rest) = findFnL q f n rest) ∧
      (∀ k, q' = q → findLastIdx (defMatches f n) ds = some k →
         ∃ d, ds[k]? = some d ∧
           findFnL q f n (exportsL q' own ds ++ rest) = some (.fn d (pushDefsL own (ds.take (k + 1)))))
  | [], own, rest => by
    refine ⟨fun _ => rfl, fun _ => rfl, ?_⟩
    intro k _ h; simp [findLastIdx] at h
  | d :: r, own, rest => by
    have ih := findFnL_exports q f n q' r (LEntry.ldef none d own :: own) (LEntry.ldef q' d own :: rest)
    simp only [exportsL, List.append_assoc, List.singleton_append]
    refine ⟨?_, ?_, ?_⟩
    · intro hq
      rw [ih.1 hq]
      simp only [findFnL]
      rw [if_neg (fun h => hq h.1)]
    · intro hn
      simp only [findLastIdx] at hn
      split at hn
      · cases hn
      · rename_i hr
        split at hn
        · cases hn
        · rename_i hp
          rw [ih.2.1 hr]
          simp only [findFnL]
          rw [if_neg]
          intro h
          apply hp
          simp only [defMatches, decide_eq_true_eq]
          exact h.2
    · intro k hq hk
      simp only [findLastIdx] at hk
      split at hk
      · rename_i k' hr
        cases hk
        obtain ⟨d', hd', hf⟩ := ih.2.2 k' hq hr
        exact ⟨d', by simpa using hd', hf⟩
      · rename_i hr
        split at hk
        · rename_i hp
          cases hk
          refine ⟨d, rfl, ?_⟩
          rw [ih.2.1 hr]
          simp only [findFnL]
          simp only [defMatches, decide_eq_true_eq] at hp
          rw [if_pos ⟨hq, hp⟩]
          rfl
        · cases hk

theorem findFnL_allVal_nil (q : Option String) (f : String) (n : Nat) (a : List LEntry) (h : AllVal a) :
    findFnL q f n a = none := by
  have := findFnL_allVal q f n a [] h
  simpa [findFnL] using this

/-- `included_mods` loop ≙ lexical look-up in the region of brought-in definitions -/
theorem included_sim (g : Graph S) (vv : VarVals) (f : String) (n fuel : Nat) (tail : List LEntry) (ht : AllVal tail) :
    ∀ (H : List (Nat × Option String)), (∀ e ∈ H, e.1 < g.mods.length) →
      match callIncludedRev g.modMap f n (includedOf H) with
      | .found im k => (im, none) ∈ H ∧ ∃ d, modDef g im k = some d ∧
          findFnL none f n ((H.map fun e => exportsL e.2 (baseL g vv fuel e.1) (defsOf g e.1)).flatten ++ tail)
            = some (.fn d (scopeL g vv fuel im (k + 1)))
      | .undef =>
          findFnL none f n ((H.map fun e => exportsL e.2 (baseL g vv fuel e.1) (defsOf g e.1)).flatten ++ tail) = none
      | _ => False
  | [], _ => by
    simp only [includedOf, List.filterMap_nil, callIncludedRev, List.map_nil, List.flatten_nil, List.nil_append]
    exact findFnL_allVal_nil _ _ _ _ ht
  | (j, a) :: H, hr => by
    have ih := included_sim g vv f n fuel tail ht H (fun e he => hr e (List.mem_cons_of_mem _ he))
    have hj : j < g.mods.length := hr (j, a) (by simp)
    have hx := findFnL_exports none f n a (defsOf g j) (baseL g vv fuel j)
      ((H.map fun e => exportsL e.2 (baseL g vv fuel e.1) (defsOf g e.1)).flatten ++ tail)
    simp only [List.map_cons, List.flatten_cons, List.append_assoc]
    cases a with
    | some al =>
      have : includedOf ((j, some al) :: H) = includedOf H := by simp [includedOf]
      rw [this, hx.1 (by simp)]
      revert ih
      cases callIncludedRev g.modMap f n (includedOf H) with
      | found im k => intro ih; exact ⟨List.mem_cons_of_mem _ ih.1, ih.2⟩
      | undef => exact id
      | undefMod => exact id
      | oob => exact id
    | none =>
      have : includedOf ((j, none) :: H) = j :: includedOf H := by simp [includedOf]
      rw [this]
      simp only [callIncludedRev, modMap_get_lt g j hj, callModId_sigs]
      cases hk : findLastIdx (defMatches f n) (defsOf g j) with
      | some k =>
        obtain ⟨d, hd, hf⟩ := hx.2.2 k rfl hk
        exact ⟨by simp, d, by rw [modDef_eq]; exact hd, hf⟩
      | none =>
        simp only
        rw [hx.2.1 hk]
        revert ih
        cases callIncludedRev g.modMap f n (includedOf H) with
        | found im k => intro ih; exact ⟨List.mem_cons_of_mem _ ih.1, ih.2⟩
        | undef => exact id
        | undefMod => exact id
        | oob => exact id

/-- `callMod` on the reversed import list -/
def callModRev (mm : List (List Sig)) (l : List (Nat × String)) (m name : String) (ar : Nat) : Lookup :=
  match l.find? (fun e => m = e.2) with
  | none => .undefMod
  | some (mid, _) =>
    match mm[mid]? with
    | none => .oob
    | some defs =>
      match callModId defs name ar with
      | some k => .found mid k
      | none => .undef

theorem callMod_eq_rev (mm : List (List Sig)) (imp : List (Nat × String)) (m name : String) (ar : Nat) :
    callMod mm imp m name ar = callModRev mm imp.reverse m name ar := rfl

/-- `call_mod` ≙ lexical look-up of `m::f` in the region of brought-in definitions -/
theorem imported_sim (g : Graph S) (vv : VarVals) (m f : String) (n fuel : Nat) (tail : List LEntry) :
    ∀ (H : List (Nat × Option String)), (∀ e ∈ H, e.1 < g.mods.length) →
      ∀ im k, callModRev g.modMap (importedOf H) m f n = .found im k →
        (im, some m) ∈ H ∧ ∃ d, modDef g im k = some d ∧
          findFnL (some m) f n ((H.map fun e => exportsL e.2 (baseL g vv fuel e.1) (defsOf g e.1)).flatten ++ tail)
            = some (.fn d (scopeL g vv fuel im (k + 1)))
  | [], _, im, k, h => by simp [importedOf, callModRev] at h
  | (j, a) :: H, hr, im, k, h => by
    have ih := imported_sim g vv m f n fuel tail H (fun e he => hr e (List.mem_cons_of_mem _ he)) im k
    have hj : j < g.mods.length := hr (j, a) (by simp)
    have hx := findFnL_exports (some m) f n a (defsOf g j) (baseL g vv fuel j)
      ((H.map fun e => exportsL e.2 (baseL g vv fuel e.1) (defsOf g e.1)).flatten ++ tail)
    simp only [List.map_cons, List.flatten_cons, List.append_assoc]
    cases a with
    | none =>
      have : importedOf ((j, none) :: H) = importedOf H := by simp [importedOf]
      rw [this] at h
      rw [hx.1 (by simp)]
      obtain ⟨h1, h2⟩ := ih h
      exact ⟨List.mem_cons_of_mem _ h1, h2⟩
    | some al =>
      have : importedOf ((j, some al) :: H) = (j, al) :: importedOf H := by simp [importedOf]
      rw [this] at h
      by_cases hm : m = al
      · subst hm
        simp only [callModRev, List.find?_cons, decide_true, modMap_get_lt g j hj, callModId_sigs] at h
        cases hk : findLastIdx (defMatches f n) (defsOf g j) with
        | none => simp [hk] at h
        | some k' =>
          simp only [hk, Lookup.found.injEq] at h
          obtain ⟨rfl, rfl⟩ := h
          obtain ⟨d, hd, hf⟩ := hx.2.2 k' rfl hk
          exact ⟨by simp, d, by rw [modDef_eq]; exact hd, hf⟩
      · have hne : decide (m = al) = false := by simpa using hm
        have h' : callModRev g.modMap (importedOf H) m f n = .found im k := by
          simpa only [callModRev, List.find?_cons, hne] using h
        rw [hx.1 (by intro hc; apply hm; cases hc; rfl)]
        obtain ⟨h1, h2⟩ := ih h'
        exact ⟨List.mem_cons_of_mem _ h1, h2⟩

/-- what the relation says about two resolved targets (nothing when the modular side fails) -/
inductive TRel (g : Graph S) (vv : VarVals) : Target → TargetL → Prop
  | clo (t : Tm) (ce : List Entry) (cmid : Nat) (cl : List LEntry) :
      REnv g vv cmid ce cl → TRel g vv (.clo t ce cmid) (.clo t cl)
  | fn (d : Def) (de : List Entry) (dmid : Nat) (dl : List LEntry) :
      REnv g vv dmid de dl → TRel g vv (.fn d de dmid) (.fn d dl)
  | builtin (j : String) : TRel g vv (.builtin j) (.builtin j)
  | oob (tl : TargetL) : TRel g vv .oob tl
  | undef (tl : TargetL) : TRel g vv .undef tl

theorem findFnL_scopeL_q (g : Graph S) (vv : VarVals) (m f : String) (n fuel mid : Nat) :
    ∀ k, findFnL (some m) f n (scopeL g vv fuel mid k) = findFnL (some m) f n (baseL g vv fuel mid)
  | 0 => rfl
  | k + 1 => by
    rw [scopeL_succ]
    cases (defsOf g mid)[k]? with
    | none => exact findFnL_scopeL_q g vv m f n fuel mid k
    | some d =>
      simp only [findFnL]
      rw [if_neg (by simp)]
      exact findFnL_scopeL_q g vv m f n fuel mid k

/-- the module's own definitions -/
theorem findFn_base (g : Graph S) (vv : VarVals) (f : String) (n fuel mid : Nat) :
    ∀ k, match findFn g f n (mdefsBelow mid k) with
      | some t => ∃ d k', t = .fn d (mdefsBelow mid (k' + 1)) mid ∧
          findFnL none f n (scopeL g vv fuel mid k) = some (.fn d (scopeL g vv fuel mid (k' + 1)))
      | none => findFnL none f n (scopeL g vv fuel mid k) = findFnL none f n (baseL g vv fuel mid)
  | 0 => rfl
  | k + 1 => by
    have ih := findFn_base g vv f n fuel mid k
    simp only [mdefsBelow, findFn, modDef_eq]
    rw [scopeL_succ]
    cases hd : (defsOf g mid)[k]? with
    | none => exact ih
    | some d =>
      simp only [findFnL]
      by_cases hm : d.name = f ∧ d.params.length = n
      · rw [if_pos hm, if_pos ⟨trivial, hm⟩]
        refine ⟨d, k, rfl, ?_⟩
        rw [scopeL_succ, hd]
      · rw [if_neg hm, if_neg (fun h => hm h.2)]
        exact ih

theorem findFn_sim (g : Graph S) (vv : VarVals) (f : String) (n : Nat) {mid : Nat} {e : List Entry} {l : List LEntry}
    (h : REnv g vv mid e l) :
    ∃ fuel, mid < fuel ∧
      (∀ m, findFnL (some m) f n l = findFnL (some m) f n (baseL g vv fuel mid)) ∧
      (match findFn g f n e with
       | some t => ∃ tl, findFnL none f n l = some tl ∧ TRel g vv t tl
       | none => findFnL none f n l = findFnL none f n (baseL g vv fuel mid)) := by
  induction h with
  | base mid k fuel hf =>
    refine ⟨fuel, hf, fun m => findFnL_scopeL_q g vv m f n fuel mid k, ?_⟩
    have hb := findFn_base g vv f n fuel mid k
    revert hb
    cases findFn g f n (mdefsBelow mid k) with
    | none => exact id
    | some t =>
      rintro ⟨d, k', rfl, hl⟩
      exact ⟨_, hl, TRel.fn _ _ _ _ (REnv.base mid (k' + 1) fuel hf)⟩
  | val mid y v e l _ ih => simpa only [findFn, findFnL] using ih
  | lbl mid y e l _ ih => simpa only [findFn, findFnL] using ih
  | clo mid f' t cmid ce cl e l hc _ _ ih =>
    obtain ⟨fuel, hf, hq, hn⟩ := ih
    refine ⟨fuel, hf, ?_, ?_⟩
    · intro m
      simp only [findFnL]
      rw [if_neg (by simp)]
      exact hq m
    · simp only [findFn, findFnL]
      by_cases hm : f' = f ∧ n = 0
      · rw [if_pos hm, if_pos ⟨trivial, hm⟩]
        exact ⟨_, rfl, TRel.clo _ _ _ _ hc⟩
      · rw [if_neg hm, if_neg (fun h => hm h.2)]
        exact hn
  | ldef mid d dmid de dl e l hd _ _ ih =>
    obtain ⟨fuel, hf, hq, hn⟩ := ih
    refine ⟨fuel, hf, ?_, ?_⟩
    · intro m
      simp only [findFnL]
      rw [if_neg (by simp)]
      exact hq m
    · simp only [findFn, findFnL]
      by_cases hm : d.name = f ∧ d.params.length = n
      · rw [if_pos hm, if_pos ⟨trivial, hm⟩]
        exact ⟨_, rfl, TRel.fn _ _ _ _ (REnv.ldef dmid d dmid de dl de dl hd hd)⟩
      · rw [if_neg hm, if_neg (fun h => hm h.2)]
        exact hn

theorem headerOf_lt (g : Graph S) (hac : Acyclic g) (mid : Nat) :
    ∀ e ∈ headerOf g mid, e.1 < mid ∧ e.1 < g.mods.length := by
  intro e he
  have h1 := hac mid e he
  refine ⟨h1, ?_⟩
  by_cases hm : mid < g.mods.length
  · omega
  · have : g.mods[mid]? = none := List.getElem?_eq_none (by omega)
    simp [headerOf, this] at he

theorem includedOf_reverse (H : List (Nat × Option String)) : (includedOf H).reverse = includedOf H.reverse := by
  simp [includedOf, List.filterMap_reverse]

theorem importedOf_reverse (H : List (Nat × Option String)) : (importedOf H).reverse = importedOf H.reverse := by
  simp [importedOf, List.filterMap_reverse]

/-- unqualified calls resolve to the same definition -/
theorem resolveCall_sim (g : Graph S) (vv : VarVals) (hac : Acyclic g) (f : String) (n : Nat)
    {mid : Nat} {e : List Entry} {l : List LEntry} (h : REnv g vv mid e l) :
    TRel g vv (resolveCall g mid e f n) (resolveCallL l f n) := by
  obtain ⟨fuel, hf, _, hn⟩ := findFn_sim g vv f n h
  unfold resolveCall resolveCallL
  cases hfn : findFn g f n e with
  | some t =>
    rw [hfn] at hn
    obtain ⟨tl, h1, h2⟩ := hn
    rw [h1]
    exact h2
  | none =>
    rw [hfn] at hn
    simp only at hn ⊢
    rw [hn]
    cases fuel with
    | zero => omega
    | succ f' =>
      have hinc := included_sim g vv f n f' (dataEntries g vv mid ++ globalEntries g vv) (allVal_data g vv mid)
        (headerOf g mid).reverse (fun e he => (headerOf_lt g hac mid e (List.mem_reverse.mp he)).2)
      unfold callIncluded
      rw [includedOf_reverse]
      rw [show baseL g vv (f' + 1) mid =
        ((headerOf g mid).reverse.map fun e => exportsL e.2 (baseL g vv f' e.1) (defsOf g e.1)).flatten ++
          (dataEntries g vv mid ++ globalEntries g vv) from rfl]
      revert hinc
      cases callIncludedRev g.modMap f n (includedOf (headerOf g mid).reverse) with
      | found im k =>
        rintro ⟨hmem, d, hd, hfL⟩
        rw [hfL]
        simp only [lookupTarget, hd]
        have := (headerOf_lt g hac mid _ (List.mem_reverse.mp hmem)).1
        exact TRel.fn _ _ _ _ (REnv.base im (k + 1) f' (by simp only at this; omega))
      | undef =>
        intro hL
        rw [hL]
        simp only
        cases builtin? f n with
        | some j => exact TRel.builtin j
        | none => exact TRel.undef _
      | undefMod => intro h; exact h.elim
      | oob => intro h; exact h.elim

/-- qualified calls resolve to the same definition -/
theorem resolveQCall_sim (g : Graph S) (vv : VarVals) (hac : Acyclic g) (m f : String) (n : Nat)
    {mid : Nat} {e : List Entry} {l : List LEntry} (h : REnv g vv mid e l) :
    TRel g vv (resolveQCall g mid m f n) (resolveQCallL l m f n) := by
  obtain ⟨fuel, hf, hq, _⟩ := findFn_sim g vv f n h
  unfold resolveQCall resolveQCallL
  rw [callMod_eq_rev, importedOf_reverse, hq m]
  cases hcm : callModRev g.modMap (importedOf (headerOf g mid).reverse) m f n with
  | found im k =>
    cases fuel with
    | zero => omega
    | succ f' =>
      obtain ⟨hmem, d, hd, hfL⟩ := imported_sim g vv m f n f' (dataEntries g vv mid ++ globalEntries g vv)
        (headerOf g mid).reverse (fun e he => (headerOf_lt g hac mid e (List.mem_reverse.mp he)).2) im k hcm
      rw [show baseL g vv (f' + 1) mid =
        ((headerOf g mid).reverse.map fun e => exportsL e.2 (baseL g vv f' e.1) (defsOf g e.1)).flatten ++
          (dataEntries g vv mid ++ globalEntries g vv) from rfl]
      rw [hfL]
      simp only [lookupTarget, hd]
      have := (headerOf_lt g hac mid _ (List.mem_reverse.mp hmem)).1
      exact TRel.fn _ _ _ _ (REnv.base im (k + 1) f' (by simp only at this; omega))
  | undef => exact TRel.undef _
  | undefMod => exact TRel.undef _
  | oob => exact TRel.oob _

theorem pushDefs_sim (g : Graph S) (vv : VarVals) (mid : Nat) : ∀ (ds : List Def) (e : List Entry) (l : List LEntry),
    REnv g vv mid e l → REnv g vv mid (pushDefs mid e ds) (pushDefsL l ds)
  | [], _, _, h => h
  | d :: r, e, l, h => pushDefs_sim g vv mid r _ _ (REnv.ldef mid d mid e l e l h h)

theorem evalList_sim (ev evL : Tm → Except String V) (hev : ∀ a v, ev a = .ok v → evL a = .ok v) :
    ∀ (ts : List Tm) (vs : List V), evalList ev ts = .ok vs → evalList evL ts = .ok vs
  | [], vs, h => by simpa [evalList] using h
  | t :: ts, vs, h => by
    simp only [evalList] at h ⊢
    cases h1 : ev t with
    | error e => simp [h1] at h
    | ok v =>
      rw [h1] at h
      rw [hev t v h1]
      cases h2 : evalList ev ts with
      | error e => simp [h2] at h
      | ok vs' =>
        rw [h2] at h
        rw [evalList_sim ev evL hev ts vs' h2]
        exact h

theorem bindArgs_sim (g : Graph S) (vv : VarVals) (ev evL : Tm → Except String V)
    (hev : ∀ a v, ev a = .ok v → evL a = .ok v) {mid : Nat} {env : List Entry} {lenv : List LEntry}
    (henv : REnv g vv mid env lenv) (dmid : Nat) :
    ∀ (ps : List Param) (args : List Tm) (acc : List Entry) (lacc : List LEntry) (r : List Entry),
      REnv g vv dmid acc lacc → bindArgs ev env mid ps args acc = .ok r →
      ∃ lr, bindArgsL evL lenv ps args lacc = .ok lr ∧ REnv g vv dmid r lr
  | [], args, acc, lacc, r, ha, h => by
    unfold bindArgs at h; unfold bindArgsL
    cases h; exact ⟨lacc, rfl, ha⟩
  | p :: ps, [], acc, lacc, r, ha, h => by
    unfold bindArgs at h; unfold bindArgsL
    cases p <;> (cases h; exact ⟨lacc, rfl, ha⟩)
  | .var x :: ps, a :: as, acc, lacc, r, ha, h => by
    unfold bindArgs at h; unfold bindArgsL
    cases h1 : ev a with
    | error e => simp [h1] at h
    | ok v =>
      rw [h1] at h
      rw [hev a v h1]
      exact bindArgs_sim g vv ev evL hev henv dmid ps as _ _ r (REnv.val dmid x v acc lacc ha) h
  | .fn f :: ps, a :: as, acc, lacc, r, ha, h => by
    unfold bindArgs at h; unfold bindArgsL
    exact bindArgs_sim g vv ev evL hev henv dmid ps as _ _ r (REnv.clo dmid f a mid env lenv acc lacc henv ha) h

theorem runTarget_sim (g : Graph S) (vv : VarVals) (fuel : Nat)
    (ih : ∀ mid env lenv t v, REnv g vv mid env lenv → eval g vv fuel mid env t = .ok v → evalL fuel lenv t = .ok v)
    {mid : Nat} {env : List Entry} {lenv : List LEntry} (hr : REnv g vv mid env lenv)
    {tg : Target} {tl : TargetL} (ht : TRel g vv tg tl) (args : List Tm) (what : String) (v : V)
    (h : runTarget (eval g vv fuel) env mid tg args what = .ok v) :
    runTargetL (evalL fuel) lenv tl args what = .ok v := by
  cases ht with
  | clo t ce cmid cl hc => exact ih cmid ce cl t v hc h
  | fn d de dmid dl hd =>
    simp only [runTarget] at h
    simp only [runTargetL]
    cases hb : bindArgs (eval g vv fuel mid env) env mid d.params args de with
    | error e => simp [hb] at h
    | ok env' =>
      rw [hb] at h
      obtain ⟨lr, h1, h2⟩ := bindArgs_sim g vv _ (evalL fuel lenv) (fun a v => ih mid env lenv a v hr) hr dmid
        d.params args de dl env' hd hb
      rw [h1]
      exact ih dmid env' lr d.body v h2 h
  | builtin j => exact h
  | oob tl => simp [runTarget] at h
  | undef tl => simp [runTarget] at h

/-- the simulation: whatever the modular evaluator computes, the single lexically scoped
    program computes (same fuel) -/
theorem eval_sim (g : Graph S) (vv : VarVals) (hac : Acyclic g) :
    ∀ (fuel mid : Nat) (env : List Entry) (lenv : List LEntry) (t : Tm) (v : V),
      REnv g vv mid env lenv → eval g vv fuel mid env t = .ok v → evalL fuel lenv t = .ok v
  | 0, _, _, _, _, _, _, h => by simp [eval] at h
  | fuel + 1, mid, env, lenv, t, v, hr, h => by
    have ih := eval_sim g vv hac fuel
    cases t with
    | tag s => simpa [eval, evalL] using h
    | var x =>
      simp only [eval] at h
      simp only [evalL]
      rw [← lookupVar_sim g vv x hr]
      exact h
    | arr ts =>
      simp only [eval] at h
      simp only [evalL]
      cases h1 : evalList (eval g vv fuel mid env) ts with
      | error e => simp [h1] at h
      | ok vs =>
        rw [h1] at h
        rw [evalList_sim _ (evalL fuel lenv) (fun a v => ih mid env lenv a v hr) ts vs h1]
        exact h
    | bind a x b =>
      simp only [eval] at h
      simp only [evalL]
      cases h1 : eval g vv fuel mid env a with
      | error e => simp [h1] at h
      | ok va =>
        rw [h1] at h
        rw [ih mid env lenv a va hr h1]
        exact ih mid _ _ b v (REnv.val mid x va env lenv hr) h
    | lbl l b =>
      simp only [eval] at h
      simp only [evalL]
      exact ih mid _ _ b v (REnv.lbl mid l env lenv hr) h
    | defs ds b =>
      simp only [eval] at h
      simp only [evalL]
      exact ih mid _ _ b v (pushDefs_sim g vv mid ds env lenv hr) h
    | qcall m f args =>
      simp only [eval] at h
      simp only [evalL]
      exact runTarget_sim g vv fuel ih hr (resolveQCall_sim g vv hac m f args.length hr) args _ v h
    | call f args =>
      simp only [eval] at h
      simp only [evalL]
      exact runTarget_sim g vv fuel ih hr (resolveCall_sim g vv hac f args.length hr) args _ v h

end Jaq.C16
