/- ROUND 2: format strings `@fmt "…\(f)…"` with any interleaving of literal and interpolated parts. -/
import JaqVerif.Lemmas.C13Sh
import JaqVerif.Lemmas.C13Codec
import JaqVerif.Lemmas.C13Scan
import JaqVerif.C13.Filters
import JaqVerif.C13.Readers

namespace Jaq.C13
open Jaq

/-! ## the compile.rs rule: literal parts are copied, interpolated parts go through the formatter -/

/-- the bytes a part contributes when every interpolation succeeds -/
def FmtPart.out (name : String) : FmtPart → Option Bytes
  | .lit s => some s
  | .interp v => match fmtRun name v with | .ok (.tstr a) => some a | _ => none

theorem fmtStringN_ok (name : String) : ∀ (parts : List FmtPart) (outs : List Bytes),
    parts.map (FmtPart.out name) = outs.map some → fmtStringN name parts = okStr outs.flatten := by
  intro parts
  induction parts with
  | nil => intro outs h; cases outs with | nil => rfl | cons _ _ => simp at h
  | cons p ps ih =>
    intro outs h
    cases outs with
    | nil => simp at h
    | cons o os =>
      simp only [List.map_cons, List.cons.injEq] at h
      have ih' := ih os h.2
      simp only [fmtStringN] at ih' ⊢
      simp only [List.map_cons, fmtSum, ih', List.flatten_cons]
      cases p with
      | lit s =>
        simp only [FmtPart.out, Option.some.injEq] at h
        simp [fmtPartRun, okStr, h.1]
      | interp v =>
        simp only [FmtPart.out] at h
        simp only [fmtPartRun]
        generalize fmtRun name v = r at h
        cases r with
        | ok x =>
          cases x with
          | tstr a => simp only [Option.some.injEq] at h; simp [okStr, h.1]
          | _ => simp at h
        | err => simp at h
        | unsupported => simp at h

/-! ## `@sh "…\(f)…"`: command templates -/

/-- a command template as the shell will read it: bytes written by the programmer, and arguments
that come from interpolated data -/
inductive ShTok where
  | byte (b : UInt8)
  | arg (x : ShArg)

/-- what jaq prints for the template -/
def shRender : List ShTok → Bytes
  | [] => []
  | .byte b :: r => b :: shRender r
  | .arg x :: r => shArg x ++ shRender r

/-- the INTENDED reading of a template: the programmer's bytes are lexed by the POSIX rules of
`shLex`; an argument contributes exactly its data bytes to the word in progress.  The template is
refused (`none`) when an argument stands inside the programmer's own single quotes or directly
after the programmer's backslash — there `@sh` cannot protect it. -/
def shLexT : Bool → Option Bytes → List ShTok → Option (List Bytes)
  | false, cur, [] => some (endWord cur)
  | true, _, [] => none
  | true, _, .arg _ :: _ => none
  | true, cur, .byte b :: r =>
    if b = 39 then shLexT false cur r else shLexT true (some (cur.getD [] ++ [b])) r
  | false, cur, .arg x :: r => shLexT false (some (cur.getD [] ++ x.text)) r
  | false, cur, .byte b :: r =>
    if b = 32 ∨ b = 9 then (shLexT false none r).map (pushWord cur)
    else if b = 39 then shLexT true (some (cur.getD [])) r
    else if b = 92 then
      match r with
      | .byte c :: r' => if c = 10 then none else shLexT false (some (cur.getD [] ++ [c])) r'
      | _ => none
    else if isPlain b then shLexT false (some (cur.getD [] ++ [b])) r
    else none

theorem shLexT_false_byte (cur : Option Bytes) (b : UInt8) (r : List ShTok) :
    shLexT false cur (.byte b :: r) =
      if b = 32 ∨ b = 9 then (shLexT false none r).map (pushWord cur)
      else if b = 39 then shLexT true (some (cur.getD [])) r
      else if b = 92 then
        match r with
        | .byte c :: r' => if c = 10 then none else shLexT false (some (cur.getD [] ++ [c])) r'
        | _ => none
      else if isPlain b then shLexT false (some (cur.getD [] ++ [b])) r
      else none := by
  rw [shLexT.eq_def]

theorem shLexT_true_byte (cur : Option Bytes) (b : UInt8) (r : List ShTok) :
    shLexT true cur (.byte b :: r) = if b = 39 then shLexT false cur r else shLexT true (some (cur.getD [] ++ [b])) r := by
  rw [shLexT.eq_def]

theorem shLexT_false_arg (cur : Option Bytes) (x : ShArg) (r : List ShTok) :
    shLexT false cur (.arg x :: r) = shLexT false (some (cur.getD [] ++ x.text)) r := by
  rw [shLexT.eq_def]

theorem shLexT_true_arg (cur : Option Bytes) (x : ShArg) (r : List ShTok) : shLexT true cur (.arg x :: r) = none := by
  rw [shLexT.eq_def]

theorem shLexT_false_nil (cur : Option Bytes) : shLexT false cur [] = some (endWord cur) := by rw [shLexT.eq_def]
theorem shLexT_true_nil (cur : Option Bytes) : shLexT true cur [] = none := by rw [shLexT.eq_def]

/-- **`@sh` is safe inside format strings, for every interleaving**: whenever the template is
well-formed in the sense of `shLexT`, a POSIX shell reading jaq's output gets exactly the words of
the template with every interpolated argument contributing exactly its original bytes — no byte of
the data is interpreted, whatever it contains -/
theorem shLex_render_len : ∀ (n : Nat) (toks : List ShTok), toks.length ≤ n → ∀ (q : Bool) (cur : Option Bytes) (ws : List Bytes),
    (∀ x, ShTok.arg x ∈ toks → x.ok = true) →
    shLexT q cur toks = some ws → shLex q cur (shRender toks) = some ws := by
  intro n
  induction n with
  | zero =>
    intro toks hlen q cur ws _ h
    have : toks = [] := List.eq_nil_of_length_eq_zero (by omega)
    subst this
    cases q
    · rw [shLexT_false_nil] at h; simpa [shRender, shLex_false_nil] using h
    · rw [shLexT_true_nil] at h; simp at h
  | succ n ih =>
    intro toks hlen q cur ws hok h
    cases toks with
    | nil =>
      cases q
      · rw [shLexT_false_nil] at h; simpa [shRender, shLex_false_nil] using h
      · rw [shLexT_true_nil] at h; simp at h
    | cons t r =>
      have hlr : r.length ≤ n := by simp only [List.length_cons] at hlen; omega
      have hokr : ∀ x, ShTok.arg x ∈ r → x.ok = true := fun x hx => hok x (by simp [hx])
      cases t with
      | arg x =>
        cases q
        · rw [shLexT_false_arg] at h
          simp only [shRender]
          rw [shLex_arg x (hok x (by simp)) cur]
          exact ih r hlr false _ ws hokr h
        · rw [shLexT_true_arg] at h; simp at h
      | byte b =>
        cases q
        · rw [shLexT_false_byte] at h
          simp only [shRender]
          rw [shLex_false_cons]
          by_cases h1 : b = 32 ∨ b = 9
          · rw [if_pos h1] at h ⊢
            simp only [Option.map_eq_some_iff] at h ⊢
            obtain ⟨w, hw, hp⟩ := h
            exact ⟨w, ih r hlr false none w hokr hw, hp⟩
          · rw [if_neg h1] at h ⊢
            by_cases h2 : b = 39
            · rw [if_pos h2] at h ⊢
              exact ih r hlr true _ ws hokr h
            · rw [if_neg h2] at h ⊢
              by_cases h3 : b = 92
              · rw [if_pos h3] at h ⊢
                cases r with
                | nil => simp at h
                | cons t2 r2 =>
                  cases t2 with
                  | arg _ => simp at h
                  | byte c =>
                    simp only at h
                    simp only [shRender]
                    by_cases h4 : c = 10
                    · simp [h4] at h
                    · rw [if_neg h4] at h
                      simp only [h4, if_false]
                      have hokr2 : ∀ x, ShTok.arg x ∈ r2 → x.ok = true := fun x hx => hokr x (by simp [hx])
                      exact ih r2 (by simp only [List.length_cons] at hlr; omega) false _ ws hokr2 h
              · rw [if_neg h3] at h ⊢
                by_cases h5 : isPlain b = true
                · rw [if_pos h5] at h ⊢
                  exact ih r hlr false _ ws hokr h
                · rw [if_neg h5] at h; simp at h
        · rw [shLexT_true_byte] at h
          simp only [shRender]
          rw [shLex_true_cons]
          by_cases h2 : b = 39
          · rw [if_pos h2] at h ⊢
            exact ih r hlr false _ ws hokr h
          · rw [if_neg h2] at h ⊢
            exact ih r hlr true _ ws hokr h

theorem shLex_render (toks : List ShTok) (q : Bool) (cur : Option Bytes) (ws : List Bytes)
    (hok : ∀ x, ShTok.arg x ∈ toks → x.ok = true) (h : shLexT q cur toks = some ws) :
    shLex q cur (shRender toks) = some ws :=
  shLex_render_len toks.length toks (Nat.le_refl _) q cur ws hok h

/-! ### from format-string parts to templates -/

/-- a part of `@sh "…"` after the argument rule of `@sh`: literal text, or the arguments of one
interpolation (one for a scalar, several for an array) -/
inductive ShPart where
  | lit (s : Bytes)
  | interp (xs : List ShArg)

/-- the arguments of one interpolation, blank-separated as `@sh` prints them -/
def shArgToks : List ShArg → List ShTok
  | [] => []
  | [x] => [.arg x]
  | x :: y :: r => .arg x :: .byte 32 :: shArgToks (y :: r)

def ShPart.toks : ShPart → List ShTok
  | .lit s => s.map ShTok.byte
  | .interp xs => shArgToks xs

/-- what jaq prints for the part -/
def ShPart.out : ShPart → Bytes
  | .lit s => s
  | .interp xs => sh xs

theorem shRender_append (a b : List ShTok) : shRender (a ++ b) = shRender a ++ shRender b := by
  induction a with
  | nil => rfl
  | cons t r ih => cases t <;> simp [shRender, ih]

theorem shRender_bytes (s : Bytes) : shRender (s.map ShTok.byte) = s := by
  induction s with
  | nil => rfl
  | cons b r ih => simp [shRender, ih]

theorem shRender_args : ∀ xs : List ShArg, shRender (shArgToks xs) = sh xs := by
  intro xs
  induction xs with
  | nil => rfl
  | cons x t ih =>
    cases t with
    | nil => simp [shArgToks, shRender, sh, joinWith]
    | cons y r =>
      simp only [shArgToks, shRender, sh, List.map_cons, joinWith] at ih ⊢
      rw [ih]; simp

theorem shRender_parts (ps : List ShPart) : shRender (ps.flatMap ShPart.toks) = (ps.map ShPart.out).flatten := by
  induction ps with
  | nil => rfl
  | cons p r ih =>
    rw [List.flatMap_cons, shRender_append, ih]
    cases p with
    | lit s => simp [ShPart.toks, ShPart.out, shRender_bytes]
    | interp xs => simp [ShPart.toks, ShPart.out, shRender_args]

theorem mem_shArgToks {x : ShArg} : ∀ {xs : List ShArg}, ShTok.arg x ∈ shArgToks xs → x ∈ xs := by
  intro xs
  induction xs with
  | nil => intro h; simp [shArgToks] at h
  | cons y t ih =>
    intro h
    cases t with
    | nil => simp [shArgToks] at h; simp [h]
    | cons z r =>
      simp only [shArgToks, List.mem_cons, ShTok.arg.injEq, reduceCtorEq, false_or] at h
      rcases h with rfl | h
      · simp
      · have := ih h; simp only [List.mem_cons] at this ⊢; right; exact this

/-- the Val-level rule of `@sh` on one interpolated value gives these arguments -/
def shPartOf : FmtPart → Option ShPart
  | .lit s => some (.lit s)
  | .interp v =>
    match shArgsOf (shArgList v) with
    | some (some xs) => some (.interp xs)
    | _ => none

theorem shPartOf_out (p : FmtPart) (sp : ShPart) (h : shPartOf p = some sp) : FmtPart.out "sh" p = some sp.out := by
  cases p with
  | lit s => unfold shPartOf at h; simp only [Option.some.injEq] at h; subst h; rfl
  | interp v =>
    unfold shPartOf at h
    simp only [FmtPart.out, fmtRun, shFmt]
    cases hr : shArgsOf (shArgList v) with
    | none => simp [hr] at h
    | some o =>
      cases o with
      | none => simp [hr] at h
      | some xs =>
        simp only [hr, Option.some.injEq] at h
        subst h
        rfl

/-! ## scan-based consumers (`@html`, `@uri`) inside format strings -/

/-- a literal is CLOSED for a scanner when scanning never looks past its end in a way that matters -/
def Closed (step : Bytes → Bytes × Nat) (l : Bytes) : Prop := ∀ X, scan step (l ++ X) = scan step l ++ scan step X

theorem closed_nil (step : Bytes → Bytes × Nat) : Closed step [] := by intro X; simp [scan_nil]

/-- a literal without the scanner's trigger byte (`&` resp. `%`) is closed and decodes to itself -/
theorem closed_of_no_trigger (step : Bytes → Bytes × Nat) (trig : UInt8)
    (hstep : ∀ b r, b ≠ trig → step (b :: r) = ([b], 1)) :
    ∀ l : Bytes, trig ∉ l → Closed step l ∧ scan step l = l := by
  intro l
  induction l with
  | nil => intro _; exact ⟨closed_nil step, scan_nil step⟩
  | cons b r ih =>
    intro h
    simp only [List.mem_cons, not_or] at h
    obtain ⟨ihc, ihs⟩ := ih h.2
    have hb : b ≠ trig := fun e => h.1 e.symm
    constructor
    · intro X
      rw [List.cons_append, scan_cons, scan_cons, hstep b _ hb, hstep b _ hb]
      simp only [Nat.max_self, List.drop_succ_cons, List.drop_zero, List.cons_append, List.nil_append, List.cons.injEq, true_and]
      exact ihc X
    · rw [scan_cons, hstep b _ hb]
      simp only [Nat.max_self, List.drop_succ_cons, List.drop_zero, List.cons_append, List.nil_append, List.cons.injEq, true_and]
      exact ihs

/-- a part of a byte-wise formatted string: literal text or interpolated data -/
inductive EncPart where
  | lit (l : Bytes)
  | data (s : Bytes)
  deriving DecidableEq

def EncPart.out (enc : UInt8 → Bytes) : EncPart → Bytes
  | .lit l => l
  | .data s => s.flatMap enc

def EncPart.meaning (step : Bytes → Bytes × Nat) : EncPart → Bytes
  | .lit l => scan step l
  | .data s => s

/-- for ANY interleaving of closed literals and interpolated data, the consumer's decoding of the
whole output is the concatenation of the decoded literals and the ORIGINAL data -/
theorem scan_parts (step : Bytes → Bytes × Nat) (enc : UInt8 → Bytes)
    (hne : ∀ b, enc b ≠ []) (h : ∀ b rest, step (enc b ++ rest) = ([b], (enc b).length)) :
    ∀ ps : List EncPart, (∀ l, EncPart.lit l ∈ ps → Closed step l) →
      scan step (ps.map (EncPart.out enc)).flatten = (ps.map (EncPart.meaning step)).flatten := by
  intro ps
  induction ps with
  | nil => intro _; rfl
  | cons p r ih =>
    intro hc
    have ihr := ih (fun l hl => hc l (by simp [hl]))
    simp only [List.map_cons, List.flatten_cons]
    cases p with
    | lit l =>
      simp only [EncPart.out, EncPart.meaning]
      rw [hc l (by simp), ihr]
    | data s =>
      simp only [EncPart.out, EncPart.meaning]
      rw [scan_flatMap step enc hne h s, ihr]


/-! ## from format-string parts to the byte-wise view -/

theorem map_opt_transfer {α β γ : Type} (f : α → Option β) (g : α → Option γ) (k : β → γ)
    (hfg : ∀ a b, f a = some b → g a = some (k b)) : ∀ (as : List α) (bs : List β),
    as.map f = bs.map some → as.map g = (bs.map k).map some := by
  intro as
  induction as with
  | nil => intro bs h; cases bs with | nil => rfl | cons _ _ => simp at h
  | cons a r ih =>
    intro bs h
    cases bs with
    | nil => simp at h
    | cons b bs' =>
      simp only [List.map_cons, List.cons.injEq] at h ⊢
      exact ⟨hfg a b h.1, ih bs' h.2⟩

/-- `tostring` of an interpolated value (what `@html`, `@uri`, … are applied to) -/
def encPartOf : FmtPart → Option EncPart
  | .lit l => some (.lit l)
  | .interp v => (textOf v).map EncPart.data

theorem encPartOf_out (name : String) (enc : UInt8 → Bytes)
    (hname : ∀ v, fmtRun name v = onText v fun b => okStr (b.flatMap enc))
    (p : FmtPart) (e : EncPart) (h : encPartOf p = some e) : FmtPart.out name p = some (e.out enc) := by
  cases p with
  | lit l => simp only [encPartOf, Option.some.injEq] at h; subst h; rfl
  | interp v =>
    simp only [encPartOf, Option.map_eq_some_iff] at h
    obtain ⟨b, hb, rfl⟩ := h
    simp [FmtPart.out, hname, onText, hb, okStr, EncPart.out]

theorem htmlDecodeStep_other (b : UInt8) (r : Bytes) (h : b ≠ 38) : htmlDecodeStep (b :: r) = ([b], 1) := by
  simp [htmlDecodeStep, h]

theorem percentStep_other (b : UInt8) (r : Bytes) (h : b ≠ 37) : percentStep (b :: r) = ([b], 1) := by
  simp [percentStep, h]

end Jaq.C13
