import JaqVerif.Lemmas.C18Monitor
set_option linter.unusedSimpArgs false
namespace Jaq.C18

/-! ### static part: the names the automaton lets through are well-formed -/

def Job.key (j : Job) : Path × Path := (j.path, j.tmp)

structure KeysWF (ks : List (Path × Path)) : Prop where
  p_nodup : (ks.map Prod.fst).Nodup
  t_nodup : (ks.map Prod.snd).Nodup
  t_ne_p : ∀ k ∈ ks, ∀ k' ∈ ks, k.2 ≠ k'.1
  dir : ∀ k ∈ ks, k.2.dir = k.1.dir

theorem staticWF_of_keys {jobs : List Job} (h : KeysWF (jobs.map Job.key)) : StaticWF jobs where
  paths_nodup := by have := h.p_nodup; simpa [List.map_map, Function.comp_def, Job.key] using this
  tmps_nodup := by have := h.t_nodup; simpa [List.map_map, Function.comp_def, Job.key] using this
  tmp_ne_path := fun a ha b hb =>
    h.t_ne_p a.key (List.mem_map_of_mem ha) b.key (List.mem_map_of_mem hb)
  same_dir := fun a ha => h.dir a.key (List.mem_map_of_mem ha)

theorem KeysWF.snoc {ks : List (Path × Path)} {p t : Path} (h : KeysWF ks)
    (hp : p ∉ ks.map Prod.fst) (ht : t ∉ ks.map Prod.snd) (hne : t ≠ p)
    (h1 : ∀ k ∈ ks, k.2 ≠ p) (h2 : ∀ k ∈ ks, t ≠ k.1) (hd : t.dir = p.dir) : KeysWF (ks ++ [(p, t)]) where
  p_nodup := by
    rw [List.map_append, List.nodup_append]
    refine ⟨h.p_nodup, by simp, fun a ha b hb => ?_⟩
    simp at hb; subst hb; intro he; subst he; exact hp ha
  t_nodup := by
    rw [List.map_append, List.nodup_append]
    refine ⟨h.t_nodup, by simp, fun a ha b hb => ?_⟩
    simp at hb; subst hb; intro he; subst he; exact ht ha
  t_ne_p := by
    intro k hk k' hk'
    rcases List.mem_append.mp hk with hk | hk <;> rcases List.mem_append.mp hk' with hk' | hk'
    · exact h.t_ne_p k hk k' hk'
    · simp at hk'; subst hk'; exact h1 k hk
    · simp at hk; subst hk; exact h2 k' hk'
    · simp at hk hk'; subst hk; subst hk'; exact hne
  dir := by
    intro k hk
    rcases List.mem_append.mp hk with hk | hk
    · exact h.dir k hk
    · simp at hk; subst hk; exact hd

theorem le_maxLen {l : List Path} {q : Path} (h : q ∈ l) : q.name.length ≤ maxLen l := by
  induction l with
  | nil => cases h
  | cons a l ih =>
    simp only [maxLen]
    rcases List.mem_cons.mp h with rfl | h
    · exact Nat.le_max_left _ _
    · exact Nat.le_trans (ih h) (Nat.le_max_right _ _)

theorem freshPath_not_mem (d : String) (l : List Path) : freshPath d l ∉ l := by
  intro h
  have := le_maxLen h
  simp [freshPath] at this
  omega

def Phase.key? : Phase → Option (Path × Path)
  | .writing p t _ => some (p, t)
  | .statted p t _ _ => some (p, t)
  | .renamed p t _ _ => some (p, t)
  | _ => none

def Mon.keys (s : Mon) : List (Path × Path) := s.done.map Job.key ++ s.phase.key?.toList

structure StatInv (s : Mon) : Prop where
  kwf : KeysWF s.keys
  mem : ∀ k ∈ s.keys, k.1 ∈ s.paths ∧ k.2 ∈ s.temps
  loaded : ∀ p, s.phase = .loaded p → p ∈ s.paths ∧ p ∉ s.temps ∧ p ∉ s.keys.map Prod.fst

theorem StatInv.init : StatInv Mon.init :=
  ⟨⟨by simp [Mon.keys, Mon.init, Phase.key?], by simp [Mon.keys, Mon.init, Phase.key?],
    by simp [Mon.keys, Mon.init, Phase.key?], by simp [Mon.keys, Mon.init, Phase.key?]⟩,
   by simp [Mon.keys, Mon.init, Phase.key?], by simp [Mon.init]⟩

theorem StatInv.step {s s' : Mon} {op : Op} (inv : StatInv s) (h : s.step op = some s') : StatInv s' := by
  obtain ⟨kwf, mem, loaded⟩ := inv
  rcases s with ⟨phase, done, paths, temps⟩
  cases phase <;> cases op <;> simp [Mon.step] at h
  all_goals (obtain ⟨hc, rfl⟩ := h)
  case idle.load p =>
    refine ⟨kwf, fun k hk => ⟨List.mem_cons_of_mem _ (mem k hk).1, (mem k hk).2⟩, ?_⟩
    intro q hq
    simp only [Phase.loaded.injEq] at hq
    subst hq
    refine ⟨List.mem_cons_self, hc.2, ?_⟩
    intro hm
    obtain ⟨k, hk, rfl⟩ := List.mem_map.mp hm
    exact hc.1 (mem k hk).1
  case loaded.mkTemp p t =>
    obtain ⟨lp, lt, lk⟩ := loaded p rfl
    have hkeys : Mon.keys { phase := Phase.writing p t [], done := done, paths := paths, temps := t :: temps }
        = Mon.keys { phase := Phase.loaded p, done := done, paths := paths, temps := temps } ++ [(p, t)] := by
      simp [Mon.keys, Phase.key?]
    refine ⟨?_, ?_, by simp⟩
    · rw [hkeys]
      refine kwf.snoc lk ?_ ?_ ?_ ?_ hc.2.2
      · intro hm
        obtain ⟨k, hk, rfl⟩ := List.mem_map.mp hm
        exact hc.2.1 (mem k hk).2
      · intro he; subst he; exact hc.1 lp
      · intro k hk he; exact lt (he ▸ (mem k hk).2)
      · intro k hk he; exact hc.1 (he ▸ (mem k hk).1)
    · rw [hkeys]
      intro k hk
      rcases List.mem_append.mp hk with hk | hk
      · exact ⟨(mem k hk).1, List.mem_cons_of_mem _ (mem k hk).2⟩
      · simp at hk; subst hk; exact ⟨lp, List.mem_cons_self⟩
  all_goals
    refine ⟨?_, ?_, by simp⟩
    · simpa [Mon.keys, Phase.key?, Job.key, okJob] using kwf
    · simpa [Mon.keys, Phase.key?, Job.key, okJob] using mem

theorem StatInv.run (ops : List Op) : ∀ {s s' : Mon}, StatInv s → s.run ops = some s' → StatInv s' := by
  induction ops with
  | nil => intro s s' inv h; simp only [Mon.run, Option.some.injEq] at h; subst h; exact inv
  | cons op ops ih =>
    intro s s' inv h
    simp only [Mon.run] at h
    cases hs : s.step op with
    | none => simp [hs] at h
    | some s1 => simp only [hs] at h; exact ih (inv.step hs) h

/-- the decoded scenario of a monitor state is statically well-formed -/
theorem StatInv.staticWF {s : Mon} (inv : StatInv s) : StaticWF s.jobs := by
  obtain ⟨kwf, mem, loaded⟩ := inv
  rcases s with ⟨phase, done, paths, temps⟩
  apply staticWF_of_keys
  cases phase
  case loaded p =>
    obtain ⟨lp, lt, lk⟩ := loaded p rfl
    have hk : (Mon.jobs { phase := Phase.loaded p, done := done, paths := paths, temps := temps }).map Job.key
        = Mon.keys { phase := Phase.loaded p, done := done, paths := paths, temps := temps }
          ++ [(p, freshPath p.dir (paths ++ temps))] := by
      simp [Mon.jobs, Mon.keys, Phase.key?, Job.key, okJob]
    rw [hk]
    have hfresh := freshPath_not_mem p.dir (paths ++ temps)
    refine kwf.snoc lk ?_ ?_ ?_ ?_ rfl
    · intro hm
      obtain ⟨k, hk, he⟩ := List.mem_map.mp hm
      exact hfresh (he ▸ List.mem_append_right _ (mem k hk).2)
    · intro he; rw [he] at hfresh; exact hfresh (List.mem_append_left _ lp)
    · intro k hk he; exact lt (he ▸ (mem k hk).2)
    · intro k hk he; exact hfresh (he ▸ List.mem_append_left _ (mem k hk).1)
  all_goals simpa [Mon.jobs, Mon.keys, Phase.key?, Job.key, okJob] using kwf

theorem staticWF_complete {jobs : List Job} (h : StaticWF jobs) : staticWF jobs = true := by
  simp only [staticWF, Bool.and_eq_true, decide_eq_true_eq, List.all_eq_true]
  exact ⟨⟨⟨h.paths_nodup, h.tmps_nodup⟩, fun a ha b hb => h.tmp_ne_path a ha b hb⟩, fun a ha => h.same_dir a ha⟩

/-- **The automaton alone suffices**: whatever trace it lets through, the decoded scenario is
    statically well-formed and the trace is a prefix of its protocol. -/
theorem monitor_validates {ops : List Op} {s : Mon} (h : Mon.init.run ops = some s) :
    staticWF s.jobs = true ∧ ops <+: protocol s.jobs := by
  have h1 := ShapeInv.run ops ShapeInv.init h
  have h2 := StatInv.run ops StatInv.init h
  simp only [List.nil_append] at h1
  exact ⟨staticWF_complete h2.staticWF, h1.prefix⟩

theorem monitor_complete_run {ops : List Op} {s : Mon} (h : Mon.init.run ops = some s)
    (hp : match s.phase with | .writing .. => False | .statted .. => False | _ => True) :
    ops = protocol s.jobs := by
  have h1 := ShapeInv.run ops ShapeInv.init h
  simp only [List.nil_append] at h1
  exact h1.complete hp

end Jaq.C18
