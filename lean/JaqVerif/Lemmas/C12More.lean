/-
  C12 helper lemmas: `transpose` (maximum of the row lengths through `max_by`), `contains`
  (fuel independence, substring), integer comparison.
-/
import JaqVerif.Lemmas.C12Flat

namespace Jaq.Coll


theorem cmp_vInt (a b : Int) : Val.cmp (vInt a) (vInt b) = compare a b := by
  unfold Val.cmp vInt
  simp [Val.size, Val.cmpF, Num.cmp, Num.undec]

theorem cmpInt_lt {a b : Int} : compare a b = .lt ↔ a < b := by
  simp only [compare, compareOfLessAndEq]
  split
  · simp [*]
  · split <;> simp [*]

/-- the `max_by(.)` fold over integer values computes the maximum -/
def decN (n : Nat) : List Val × Val := ([vInt (n : Int)], vInt (n : Int))

theorem foldl_max_vInt : ∀ (rest : List Nat) (m : Nat),
    List.foldl (cmpStep (maxReplace Val.cmp)) (decN m) (rest.map decN) = decN (rest.foldl max m)
  | [], m => rfl
  | n :: rest, m => by
    rw [List.map_cons, List.foldl_cons, List.foldl_cons]
    have hstep : cmpStep (maxReplace Val.cmp) (decN m) (decN n) = decN (max m n) := by
      unfold cmpStep maxReplace decN
      simp only [lexCmp_cons_cons, cmp_vInt]
      by_cases h : n < m
      · have : compare (n : Int) (m : Int) = .lt := cmpInt_lt.2 (by omega)
        simp [this, Nat.max_eq_left (Nat.le_of_lt h)]
      · have hne : compare (n : Int) (m : Int) ≠ .lt := fun hh => h (by have := cmpInt_lt.1 hh; omega)
        have hmax : max m n = n := Nat.max_eq_right (by omega)
        rw [hmax]
        cases hc : compare (n : Int) (m : Int) with
        | lt => exact absurd hc hne
        | eq => simp [lexCmp]
        | gt => simp
    rw [hstep]
    exact foldl_max_vInt rest (max m n)


theorem rowLens_ok : ∀ rows : List (List Val),
    mapM' rowLenV (rows.map Val.arr) =
      .ok (rows.map fun r => vInt (r.length : Int))
  | [] => rfl
  | r :: rows => by
    rw [List.map_cons, mapM'_cons, rowLens_ok rows]
    rfl



theorem get_mem {o : Obj.Entries} {k v : Val} (h : Obj.get o k = some v) : ∃ k', (k', v) ∈ o := by
  unfold Obj.get at h
  cases hf : o.find? (fun x => match x with | (k', _) => Obj.sameKey k k') with
  | none => rw [hf] at h; cases h
  | some p =>
    rw [hf] at h
    simp at h
    exact ⟨p.1, by rw [← h]; exact List.mem_of_find?_eq_some hf⟩

theorem all_congr_mem {α : Type} {p q : α → Bool} : ∀ {l : List α}, (∀ a ∈ l, p a = q a) → l.all p = l.all q
  | [], _ => rfl
  | x :: xs, h => by
    rw [List.all_cons, List.all_cons, h x (List.mem_cons_self ..), all_congr_mem (fun a ha => h a (List.mem_cons_of_mem _ ha))]

theorem any_congr_mem {α : Type} {p q : α → Bool} : ∀ {l : List α}, (∀ a ∈ l, p a = q a) → l.any p = l.any q
  | [], _ => rfl
  | x :: xs, h => by
    rw [List.any_cons, List.any_cons, h x (List.mem_cons_self ..), any_congr_mem (fun a ha => h a (List.mem_cons_of_mem _ ha))]

theorem containsF_succ_arr (n : Nat) (l r : List Val) :
    containsF (n + 1) (.arr l) (.arr r) = r.all fun rv => l.any fun lv => containsF n lv rv := rfl
theorem containsF_succ_obj (n : Nat) (l r : Obj.Entries) :
    containsF (n + 1) (.obj l) (.obj r) = r.all fun (k, rv) =>
      match Obj.get l k with
      | some lv => containsF n lv rv
      | none => false := rfl

theorem containsF_mono : ∀ (n m : Nat) (a b : Val), a.size + b.size ≤ n → a.size + b.size ≤ m →
    containsF n a b = containsF m a b
  | 0, _, a, b, h, _ => by have := Val.size_pos a; omega
  | _, 0, a, b, _, h => by have := Val.size_pos a; omega
  | n + 1, m + 1, a, b, hn, hm => by
    cases a <;> cases b <;> try rfl
    · next l r =>
      rw [containsF_succ_arr, containsF_succ_arr]
      apply all_congr_mem
      intro rv hrv
      apply any_congr_mem
      intro lv hlv
      have h1 := Val.size_lt_of_mem hrv
      have h2 := Val.size_lt_of_mem hlv
      simp only [Val.size] at hn hm
      exact containsF_mono n m lv rv (by omega) (by omega)
    · next l r =>
      rw [containsF_succ_obj, containsF_succ_obj]
      apply all_congr_mem
      intro p hp
      obtain ⟨k, rv⟩ := p
      simp only
      cases hg : Obj.get l k with
      | none => rfl
      | some lv =>
        simp only
        obtain ⟨k', hk'⟩ := get_mem hg
        have h1 := Val.size_entry_of_mem hp
        have h2 := Val.size_entry_of_mem hk'
        simp only [Val.size] at hn hm
        exact containsF_mono n m lv rv (by omega) (by omega)


theorem isInfixB_iff (pat : List UInt8) : ∀ s : List UInt8, isInfixB pat s = true ↔ ∃ pre post, s = pre ++ pat ++ post
  | [] => by
    simp only [isInfixB, List.isEmpty_iff]
    constructor
    · rintro rfl; exact ⟨[], [], rfl⟩
    · rintro ⟨pre, post, h⟩
      have := congrArg List.length h
      simp at this
      exact List.eq_nil_of_length_eq_zero (by omega)
  | b :: s => by
    simp only [isInfixB, Bool.or_eq_true, isPrefixOf_iff_append, isInfixB_iff pat s]
    constructor
    · rintro (⟨r, hr⟩ | ⟨pre, post, hs⟩)
      · exact ⟨[], r, by simpa using hr⟩
      · exact ⟨b :: pre, post, by simp [hs]⟩
    · rintro ⟨pre, post, h⟩
      cases pre with
      | nil => left; exact ⟨post, by simpa using h⟩
      | cons c pre =>
        right
        simp at h
        exact ⟨pre, post, by simp [h.2]⟩


/-! ### `compare` on `Int` satisfies the order laws (used for the examples of the property file) -/

theorem cmpInt_gt {a b : Int} : compare a b = .gt ↔ b < a := by
  simp only [compare, compareOfLessAndEq]
  split
  · simp; omega
  · split
    · simp; omega
    · simp; omega

theorem cmpInt_eq {a b : Int} : compare a b = .eq ↔ a = b := by
  simp only [compare, compareOfLessAndEq]
  split
  · simp; omega
  · split <;> simp [*]

theorem intLaws : OrderLaws (fun a b : Int => compare a b) (fun a b => a == b) where
  refl a := cmpInt_eq.2 rfl
  swap a b := by
    cases h : compare a b
    · have := cmpInt_lt.1 h; exact cmpInt_gt.2 this
    · have := cmpInt_eq.1 h; exact cmpInt_eq.2 this.symm
    · have := cmpInt_gt.1 h; exact cmpInt_lt.2 this
  trans_le a b d h1 h2 := by
    intro h3
    have := cmpInt_gt.1 h3
    have : ¬ b < a := fun h => h1 (cmpInt_gt.2 h)
    have : ¬ d < b := fun h => h2 (cmpInt_gt.2 h)
    omega
  eq_iff a b := by simp [cmpInt_eq]

end Jaq.Coll
