/-
  C03 helper lemmas, part 4: the simulation proof, one case lemma per adapter (`chainCase`,
  `flatInitCase`, `flatRunCase`, `wrapCase`, `appDeadCase`, `idxSCase`) and construction
  (`flatB`, `wrapB`).  Part 5 (`C03Fold`) has the cases of round 2, part 6 (`C03Main`) the induction.
-/
import JaqVerif.Lemmas.C03Sim
namespace Jaq.C03
variable {D : List T}

theorem nextR_flat_cur_done {cur w c' w1 src k res} (h : NextR D cur w (none, c', w1))
    (hn : NextR D (.flat src k .nil) w1 res) : NextR D (.flat src k cur) w res := by
  obtain ⟨m1, h⟩ := h; obtain ⟨m3, hn⟩ := hn
  refine ⟨m1 + m3 + 1 + 1, ?_⟩
  have hn' := next_mono_le hn (by omega : m3 ≤ m1 + m3 + 1 + 1)
  rw [next_succ] at hn' ⊢
  have hnil : next D (m1 + m3 + 1) .nil w1 = some (none, .nil, w1) :=
    next_mono_le (n := 1) (m := m1 + m3 + 1) rfl (by omega)
  simp only [nextStep, hnil] at hn'
  simp only [nextStep, next_mono_le h (by omega : m1 ≤ m1 + m3 + 1)]
  exact hn'

theorem mkR_call_none {i c v w} (hb : D[i]? = none) : MkR D (.call i) c v w (.nil, w) :=
  ⟨1, by rw [mk_succ]; simp only [mkStep, hb]⟩
theorem mkR_tcall (i : Nat) (c : Ctx) (v : Val) (w : World) :
    MkR D (.tcall i) c v w (.chain .nil (.call i) c v, w) := ⟨1, by rw [mk_succ]; rfl⟩
theorem mkR_leaf {t c v w res} (h : mkStep D (mk D 0) (next D 0) t c v w = some res) : MkR D t c v w res :=
  ⟨1, by rw [mk_succ]; exact h⟩

theorem B.run {n : Nat} (hB : B D n) {t c v w r} (hp : (Th.run t c v).pureIdx = true)
    (h : force D n (.run t c v) w = some r) : ∃ it w', MkR D t c v w (it, w') ∧ Matches D r it w' := by
  simp only [Th.pureIdx, Bool.and_eq_true] at hp
  exact hB _ _ _ _ _ hp.1 hp.2 h

theorem run_pure {t : T} {c : Ctx} {v : Val} (ht : t.pureIdx = true) (hc : c.pure = true) :
    (Th.run t c v).pureIdx = true := by simp [Th.pureIdx, ht, hc]

/-! ### the head of a compound residual is forced first -/

syntax "head_tac" : tactic
set_option hygiene false in
macro_rules
  | `(tactic| head_tac) => `(tactic|
      (cases n with
       | zero => simp [force] at h
       | succ n =>
         rw [force_succ] at h
         simp only [forceStep] at h
         cases h1 : force D n a w with
         | none => simp [h1] at h
         | some r1 => exact ⟨r1, force_mono D _ _ _ _ h1⟩))

theorem force_app_head {n a b w r} (h : force D n (.app a b) w = some r) : ∃ r1, force D n a w = some r1 := by
  head_tac
theorem force_bind_head {n a k w r} (h : force D n (.bind a k) w = some r) : ∃ r1, force D n a w = some r1 := by
  head_tac
theorem force_one_head {n a w r} (h : force D n (.one a) w = some r) : ∃ r1, force D n a w = some r1 := by
  head_tac
theorem force_orElse_head {n a t c v w r} (h : force D n (.orElse a t c v) w = some r) :
    ∃ r1, force D n a w = some r1 := by
  head_tac
theorem force_wrapC_head {n s a w r} (hs : s.ready = true) (h : force D n (.wrapC s a) w = some r) :
    ∃ r1, force D n a w = some r1 := by
  cases n with
  | zero => simp [force] at h
  | succ n =>
    rw [force_succ] at h
    simp only [forceStep, hs, if_true] at h
    cases h1 : force D n a w with
    | none => simp [h1] at h
    | some r1 => exact ⟨r1, force_mono D _ _ _ _ h1⟩

/-! ### one step of the simulation per adapter, given the induction hypotheses at fuel `n` -/

theorem chainCase {n : Nat} (hA : A D n) (hB : B D n) {a wa a' wa' t c v r}
    (hrel : Rel D a wa a' wa') (hp : (Th.app a' (.run t c v)).pureIdx = true)
    (hf : force D (n + 1) (.app a' (.run t c v)) wa' = some r) : Matches D r (.chain a t c v) wa := by
  simp only [Th.pureIdx, Bool.and_eq_true] at hp
  rw [force_succ] at hf
  simp only [forceStep] at hf
  split at hf
  · simp at hf
  · rename_i w1 heq
    obtain ⟨a2, hn⟩ := hA _ _ _ _ _ hrel hp.1 heq
    obtain ⟨b, w2, hmk, hmb⟩ := hB _ _ _ _ _ hp.2.1 hp.2.2 hf
    exact Matches.transfer (fun res h3 => nextR_chain_done hn hmk h3) hmb
  · rename_i x a'' w1 heq
    obtain ⟨a2, hn, hs⟩ := hA _ _ _ _ _ hrel hp.1 heq
    simp only [Option.some.injEq] at hf
    subst hf
    exact ⟨.chain a2 t c v, nextR_chain_yield t c v hn, SyncG.chain hs⟩

theorem appDeadCase {n : Nat} (hA : A D n) {it wi th ws rest r}
    (hrel : Rel D it wi th ws) (hd : Dead D rest) (hp : (Th.app th rest).pureIdx = true)
    (hf : force D (n + 1) (.app th rest) ws = some r) : Matches D r it wi := by
  simp only [Th.pureIdx, Bool.and_eq_true] at hp
  rw [force_succ] at hf
  simp only [forceStep] at hf
  split at hf
  · simp at hf
  · rename_i w1 heq
    have hm := hA _ _ _ _ _ hrel hp.1 heq
    obtain ⟨k, hk⟩ := hd w1
    have := force_det hf hk
    subst this
    exact hm
  · rename_i x t1 w1 heq
    obtain ⟨it', hn, hs⟩ := hA _ _ _ _ _ hrel hp.1 heq
    simp only [Option.some.injEq] at hf
    subst hf
    exact ⟨it', hn, SyncG.appDead hs hd⟩

theorem wrapCase (hD : DPure D) {n : Nat} (hA : A D n) (hB : B D n) {s : Wr} {a wa a' wa' r} (hs : s.ready = true)
    (hrel : Rel D a wa a' wa') (hp : (Th.wrapC s a').pureIdx = true)
    (hf : force D (n + 1) (.wrapC s a') wa' = some r) : Matches D r (.wrap s a) wa := by
  simp only [Th.pureIdx, Bool.and_eq_true] at hp
  rw [force_succ] at hf
  simp only [forceStep, hs, if_true] at hf
  split at hf
  · simp at hf
  · rename_i w1 heq
    obtain ⟨a2, hn⟩ := hA _ _ _ _ _ hrel hp.2 heq
    cases he : s.atEnd with
    | none =>
      simp only [he, Option.some.injEq] at hf
      subst hf
      exact ⟨_, nextR_wrap_none hs he hn⟩
    | some xe =>
      simp only [he, Option.some.injEq] at hf
      subst hf
      exact ⟨.nil, nextR_wrap_atEnd hs he hn, SyncG.nil⟩
  · rename_i x a'' w1 heq
    obtain ⟨a2, hn, hsy⟩ := hA _ _ _ _ _ hrel hp.2 heq
    have hq := force_pure hD n _ _ _ _ _ hp.2 heq
    have hsp := step_pure hp.1 x
    split at hf
    · rename_i x' s' hst
      simp only [Option.some.injEq] at hf
      subst hf
      exact ⟨_, nextR_wrap_emit hs hn hst, SyncG.wrap s' hsy⟩
    · rename_i s' hst
      rw [hst] at hsp
      have hsp' : s'.pureIdx = true := hsp
      have hm := hA _ _ _ _ _ (Rel.sync w1 (SyncG.wrap s' hsy)) (by simp [Th.pureIdx, hsp', hq]) hf
      exact Matches.transfer (fun res h3 => nextR_wrap_drop hs hn hst h3) hm
    · simp only [Option.some.injEq] at hf
      subst hf
      rename_i hst
      exact ⟨_, nextR_wrap_stop hs hn hst⟩
    · rename_i c ctx e hst
      rw [hst] at hsp
      have hsp' : c.pureIdx = true ∧ ctx.pure = true := hsp
      obtain ⟨b, w2, hmk, hmb⟩ := hB _ _ _ _ _ hsp'.1 hsp'.2 hf
      exact Matches.transfer (fun res h3 => nextR_wrap_handler hs hn hst hmk h3) hmb


theorem krel_pure {k k' : K} (hk : KRel k k') (hp : k'.pureIdx = true) : k.pureIdx = true := by
  cases hk with
  | refl => exact hp
  | idx _ _ => rfl

theorem krel_mk {n : Nat} (hB : B D n) {k k' : K} (hk : KRel k k') (hkp : k'.pureIdx = true) {y w1 r2}
    (h2 : force D n (k'.th y) w1 = some r2) :
    ∃ c w3, MkR D (k.app y).1 (k.app y).2.1 (k.app y).2.2 w1 (c, w3) ∧ Rel D c w3 (k'.th y) w1 := by
  cases hk with
  | refl =>
    obtain ⟨c, w3, hmk, _⟩ := hB.run (K.th_pure hkp y) h2
    exact ⟨c, w3, hmk, Rel.mk hmk⟩
  | idx hs hv => exact ⟨_, w1, mkR_ret _ _ _ _, Rel.idxS y w1 hs hv⟩

theorem force_simple {i : T} {c v x} (hi : i.simple = true) (hv : simpleVal i c v = some x) (m : Nat) (w : World) :
    force D (m + 1) (.run i c v) w = some (.yield x .nil, w) := by
  rw [force_succ]
  cases i <;> simp [T.simple] at hi
  · simp only [simpleVal, Option.some.injEq] at hv; subst hv; rfl
  · simp only [simpleVal, Option.some.injEq] at hv; subst hv; rfl
  · simp only [simpleVal] at hv
    simp only [forceStep, hv]

theorem idxSCase {n : Nat} {i c v x y w r} (hi : i.simple = true) (hv : simpleVal i c v = some x)
    (hf : force D n (.run (.pipe i (.idxOf y)) c v) w = some r) : Matches D r (.once (indexItem y x)) w := by
  have h2 := force_simple (D := D) hi hv 1 w
  cases x with
  | ok j =>
    have : force D 4 (.run (.pipe i (.idxOf y)) c v) w =
        some (.yield (indexVal y j) (.app .nil (.bind .nil (.pipe (.idxOf y) c))), w) := by
      rw [force_succ]; simp only [forceStep]
      rw [force_succ]; simp only [forceStep, h2, Item.val?]
      rw [force_succ]; simp only [forceStep, K.th, K.app]
      rfl
    have := force_det hf this
    subst this
    exact ⟨.nil, nextR_once _ _, SyncG.dead (dead_app dead_nil (dead_bind _ dead_nil))⟩
  | err e =>
    have : force D 4 (.run (.pipe i (.idxOf y)) c v) w = some (.yield (.err e) (.bind .nil (.pipe (.idxOf y) c)), w) := by
      rw [force_succ]; simp only [forceStep]
      rw [force_succ]; simp only [forceStep, h2, Item.val?]
    have := force_det hf this
    subst this
    exact ⟨.nil, nextR_once _ _, SyncG.dead (dead_bind _ dead_nil)⟩
  | brk l =>
    have : force D 4 (.run (.pipe i (.idxOf y)) c v) w = some (.yield (.brk l) (.bind .nil (.pipe (.idxOf y) c)), w) := by
      rw [force_succ]; simp only [forceStep]
      rw [force_succ]; simp only [forceStep, h2, Item.val?]
    have := force_det hf this
    subst this
    exact ⟨.nil, nextR_once _ _, SyncG.dead (dead_bind _ dead_nil)⟩
  | halt l =>
    have : force D 4 (.run (.pipe i (.idxOf y)) c v) w = some (.yield (.halt l) (.bind .nil (.pipe (.idxOf y) c)), w) := by
      rw [force_succ]; simp only [forceStep]
      rw [force_succ]; simp only [forceStep, h2, Item.val?]
    have := force_det hf this
    subst this
    exact ⟨.nil, nextR_once _ _, SyncG.dead (dead_bind _ dead_nil)⟩

theorem flatInitCase (hD : DPure D) {n : Nat} (hA : A D n) (hB : B D n) {a wa a' wa' k k' r} (hk : KRel k k')
    (hrel : Rel D a wa a' wa') (hp : (Th.bind a' k').pureIdx = true)
    (hf : force D (n + 1) (.bind a' k') wa' = some r) : Matches D r (.flat a k .nil) wa := by
  simp only [Th.pureIdx, Bool.and_eq_true] at hp
  rw [force_succ] at hf
  simp only [forceStep] at hf
  split at hf
  · simp at hf
  · rename_i w1 heq
    obtain ⟨a2, hn⟩ := hA _ _ _ _ _ hrel hp.1 heq
    simp only [Option.some.injEq] at hf
    subst hf
    exact ⟨.nil, nextR_flat_srcdone k (nextR_nil wa) hn⟩
  · rename_i x a'' w1 heq
    obtain ⟨a2, hn, hs⟩ := hA _ _ _ _ _ hrel hp.1 heq
    have hq := force_pure hD n _ _ _ _ _ hp.1 heq
    split at hf
    · rename_i y hx
      obtain ⟨r2, h2⟩ := force_app_head hf
      obtain ⟨c, w3, hmk, hrelc⟩ := krel_mk hB hk hp.2 h2
      have hm := hA _ _ _ _ _ (Rel.flatRun hk hs hrelc)
        (by simp [Th.pureIdx, K.th_pure hp.2 y, hq, hp.2]) hf
      exact Matches.transfer (fun res h3 => nextR_flat_srcok (nextR_nil wa) hn hx hmk h3) hm
    · rename_i hx
      simp only [Option.some.injEq] at hf
      subst hf
      exact ⟨_, nextR_flat_srcexn k (nextR_nil wa) hn hx, SyncG.flat0 hk hs⟩

theorem flatRunCase {n : Nat} (hA : A D n) {src src' cur wc cur' wc' k k' r} (hk : KRel k k')
    (hsrc : Sync D src src') (hcur : Rel D cur wc cur' wc') (hp : (Th.app cur' (.bind src' k')).pureIdx = true)
    (hf : force D (n + 1) (.app cur' (.bind src' k')) wc' = some r) : Matches D r (.flat src k cur) wc := by
  simp only [Th.pureIdx, Bool.and_eq_true] at hp
  rw [force_succ] at hf
  simp only [forceStep] at hf
  split at hf
  · simp at hf
  · rename_i w1 heq
    obtain ⟨cur2, hn⟩ := hA _ _ _ _ _ hcur hp.1 heq
    have hm := hA _ _ _ _ _ (Rel.flatInit hk (Rel.sync w1 hsrc)) (by simp [Th.pureIdx, hp.2]) hf
    exact Matches.transfer (fun res h3 => nextR_flat_cur_done hn h3) hm
  · rename_i x c'' w1 heq
    obtain ⟨cur2, hn, hs⟩ := hA _ _ _ _ _ hcur hp.1 heq
    simp only [Option.some.injEq] at hf
    subst hf
    exact ⟨_, nextR_flat_yield src k hn, SyncG.flat hk hsrc hs⟩


/-- `flat_map_then_with` at construction: fast path (`next_if_one`) or `FlatMap` -/
theorem flatB (hD : DPure D) {n : Nat} (hA : A D n) (hB : B D n) {l c v w k k' res} (hk : KRel k k')
    (hl : l.pureIdx = true) (hc : c.pure = true) (hkp : k'.pureIdx = true)
    (hf : force D n (.bind (.run l c v) k') w = some res) :
    ∃ a w1 it w', MkR D l c v w (a, w1) ∧ MkFlatR D a k w1 (it, w') ∧ Matches D res it w' := by
  obtain ⟨⟨s1, w1s⟩, h1⟩ := force_bind_head hf
  obtain ⟨a, w1, hmk, hma⟩ := hB _ _ _ _ _ hl hc h1
  have hpb : (Th.bind (.run l c v) k').pureIdx = true := by simp [Th.pureIdx, hl, hc, hkp]
  by_cases hu : a.upper = some 1
  · cases n with
    | zero => simp [force] at hf
    | succ n' =>
      have hf0 := hf
      rw [force_succ] at hf
      simp only [forceStep] at hf
      cases h1' : force D n' (.run l c v) w with
      | none => simp [h1'] at hf
      | some r1' =>
        have := force_det (force_mono D _ _ _ _ h1') h1
        subst this
        rw [h1'] at hf
        cases s1 with
        | done =>
          simp only [Option.some.injEq] at hf
          subst hf
          obtain ⟨a2, hn⟩ := hma
          exact ⟨a, w1, .nil, w1s, hmk, mkFlatR_none hu hn, .nil, nextR_nil _⟩
        | yield x th' =>
          obtain ⟨a2, hn, hs⟩ := hma
          have hdead : Dead D th' := by
            obtain ⟨m, hnm⟩ := hn
            obtain ⟨u', hu', hlt⟩ := upper_dec m hnm hu
            have : u' = 0 := by omega
            subst this
            exact sync_upper0_dead hs hu'
          have hq := force_pure hD _ (.run l c v) _ _ _ _ (run_pure hl hc) h1'
          simp only at hf
          split at hf
          · rename_i y hx
            obtain ⟨r2, h2⟩ := force_app_head hf
            obtain ⟨it, w', hmk2, hrel2⟩ := krel_mk hB hk hkp (force_mono D _ _ _ _ h2)
            refine ⟨a, w1, it, w', hmk, mkFlatR_ok hu hn hx hmk2, ?_⟩
            exact hA _ _ _ _ _ (Rel.appDead hrel2 (dead_bind k' hdead))
              (by simp [Th.pureIdx, K.th_pure hkp y, hq, hkp]) (force_mono D _ _ _ _ hf)
          · rename_i hx
            simp only [Option.some.injEq] at hf
            subst hf
            exact ⟨a, w1, .once x, w1s, hmk, mkFlatR_exn hu hn hx, .nil, nextR_once _ _,
              SyncG.dead (dead_bind k' hdead)⟩
  · refine ⟨a, w1, .flat a k .nil, w1, hmk, mkFlatR_slow k w1 hu, ?_⟩
    cases n with
    | zero => simp [force] at hf
    | succ n' =>
      -- `A` at fuel n'+1 is not available: use the step lemma at n' with the hypotheses lowered
      exact flatInitCase hD (lowerA hA) (lowerB hB) hk (Rel.mk hmk) hpb hf

/-- a unary adapter around a freshly built iterator -/
theorem wrapB (hD : DPure D) {n : Nat} (hA : A D n) (hB : B D n) {s : Wr} {f c' v w res} (hs : s.ready = true)
    (hf' : f.pureIdx = true) (hc : c'.pure = true) (hsp : s.pureIdx = true)
    (hf : force D n (.wrapC s (.run f c' v)) w = some res) :
    ∃ a w1, MkR D f c' v w (a, w1) ∧ Matches D res (.wrap s a) w1 := by
  obtain ⟨r1, h1⟩ := force_wrapC_head hs hf
  obtain ⟨a, w1, hmk, _⟩ := hB _ _ _ _ _ hf' hc h1
  refine ⟨a, w1, hmk, ?_⟩
  cases n with
  | zero => simp [force] at hf
  | succ n' =>
    exact wrapCase hD (lowerA hA) (lowerB hB) hs (Rel.mk hmk) (by simp [Th.pureIdx, hsp, hf', hc]) hf

end Jaq.C03
