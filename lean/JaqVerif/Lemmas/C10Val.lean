/-
  C10 helper lemmas, part 4: from `Val` positions to integers; `range_int`; object lookups.
-/
import JaqVerif.Lemmas.C10Splice

namespace Jaq
namespace C10
open Spec

/-- an index value and the integer it denotes (machine or big representation, any magnitude) -/
inductive IsPos : Val → Int → Prop
  | int (i : Int) : IsPos (.num (.int i)) i
  | big (i : Int) : IsPos (.num (.big i)) i

/-- a slice bound (absent, `null`, or an integer within ±(2^64-1)) and the position it denotes -/
inductive IsBound : Option Val → Option Int → Prop
  | absent : IsBound none none
  | null : IsBound (some .null) none
  | int (i : Int) : IsBound (some (.num (.int i))) (some i)
  | big (i : Int) (h : i.natAbs ≤ usizeMaxN) : IsBound (some (.num (.big i))) (some i)

theorem rangeBound_of {b : Option Val} {i : Option Int} (h : IsBound b i) :
    rangeBound b = .ok (i.map puOfInt) := by
  cases h with
  | absent => rfl
  | null => rfl
  | int i => simp [rangeBound, asPosUsize, asPosUsize_int, Except.map]
  | big i h => simp [rangeBound, asPosUsize, asPosUsize_big i h, Except.map]

theorem rangeInt_of {bi bj : Option Val} {i j : Option Int} (h1 : IsBound bi i) (h2 : IsBound bj j) :
    rangeInt (bi, bj) = .ok (puRange i j) := by
  simp [rangeInt, rangeBound_of h1, rangeBound_of h2, puRange]

/-- the array/byte-string arm of `index_opt` on an integer index -/
theorem absIndex_of_pos {idx : Val} {k : Int} (h : IsPos idx k) (len : Nat) (hlen : len < usizeMaxN) :
    ∃ n, idx = .num n ∧ n.isInt = true ∧
      ((numAsPosUsize n).bind fun p => absIndex p len) = if inside len k then some (pos len k) else none := by
  cases h with
  | int => exact ⟨_, rfl, rfl, by simp [asPosUsize_int, absIndex_puOfInt]⟩
  | big =>
    refine ⟨_, rfl, rfl, ?_⟩
    by_cases hb : k.natAbs ≤ usizeMaxN
    · simp [asPosUsize_big k hb, absIndex_puOfInt]
    · have : ¬ inside len k := by unfold inside; omega
      rw [asPosUsize_big_beyond k (by omega)]
      cases fixBigintBound
      · simp [this]
      · simp [this, absIndex_saturated _ len hlen]

theorem findIdx?_get {o : Obj.Entries} {k : Val} :
    Obj.get o k = (objFindIdx o k).bind fun i => o[i]?.map (·.2) := by
  unfold Obj.get objFindIdx
  have hf : (fun (x : Val × Val) => match x with | (k', _) => Obj.sameKey k k')
      = fun e => Obj.sameKey k e.1 := by
    funext ⟨a, b⟩; rfl
  rw [hf]
  generalize (fun (e : Val × Val) => Obj.sameKey k e.1) = p
  induction o with
  | nil => rfl
  | cons e o ih =>
    simp only [List.find?_cons, List.findIdx?_cons]
    cases hp : p e with
    | true => simp
    | false =>
      simp only [Bool.false_eq_true, if_false]
      rw [ih]
      cases List.findIdx? p o <;> simp

end C10
end Jaq
