/- base64: decode ∘ encode = id on all byte strings, and the decoder accepts exactly the
   encoder's image (so nothing malformed is accepted, truncated or partially ignored). -/
import JaqVerif.Lemmas.C13Tables

namespace Jaq.C13

theorem b64Val_sym (v : Nat) (h : v < 64) : b64Val (b64Sym v) = some v := b64_val_sym ⟨v, h⟩

theorem b64Sym_ne_pad (v : Nat) (h : v < 64) : (b64Sym v == b64Pad) = false := b64_sym_not_pad ⟨v, h⟩

theorem b64Val_some {c : UInt8} {v : Nat} (h : b64Val c = some v) : v < 64 ∧ b64Sym v = c := by
  unfold b64Val at h
  simp only at h
  have h1 := List.find?_some h
  have h2 := List.mem_of_find?_eq_some h
  exact ⟨List.mem_range.mp h2, by simpa using h1⟩

theorem u8_of_toNat' {b : UInt8} {n : Nat} (h : n = b.toNat) : UInt8.ofNat n = b := by
  subst h; simp

theorem u8_toNat_ofNat {n : Nat} (h : n < 256) : (UInt8.ofNat n).toNat = n := by
  simp [UInt8.toNat_ofNat']
  omega

/-! ### equations -/

theorem b64Decode_last4 (p q r s : UInt8) : b64Decode [p, q, r, s] = b64Last p q r s := by
  rw [b64Decode]; simp

theorem b64Decode_more (p q r s : UInt8) (rest hd tl : Bytes) (hne : rest ≠ [])
    (hf : b64Full p q r s = some hd) (ht : b64Decode rest = some tl) :
    b64Decode (p :: q :: r :: s :: rest) = some (hd ++ tl) := by
  rw [b64Decode]
  have : rest.isEmpty = false := by cases rest with | nil => exact absurd rfl hne | cons _ _ => rfl
  simp [this, hf, ht]

theorem b64Decode_more_inv (p q r s : UInt8) (rest out : Bytes) (hne : rest ≠ [])
    (h : b64Decode (p :: q :: r :: s :: rest) = some out) :
    ∃ hd tl, b64Full p q r s = some hd ∧ b64Decode rest = some tl ∧ out = hd ++ tl := by
  rw [b64Decode] at h
  have : rest.isEmpty = false := by cases rest with | nil => exact absurd rfl hne | cons _ _ => rfl
  simp only [this, Bool.false_eq_true, if_false] at h
  cases hf : b64Full p q r s with
  | none => simp [hf] at h
  | some hd =>
    cases ht : b64Decode rest with
    | none => simp [hf, ht] at h
    | some tl =>
      simp only [hf, ht, Option.some.injEq] at h
      exact ⟨hd, tl, rfl, rfl, h.symm⟩

theorem b64Encode_cons3 (a b c : UInt8) (rest : Bytes) :
    b64Encode (a :: b :: c :: rest) =
      b64Sym (a.toNat / 4) :: b64Sym (a.toNat % 4 * 16 + b.toNat / 16)
        :: b64Sym (b.toNat % 16 * 4 + c.toNat / 64) :: b64Sym (c.toNat % 64) :: b64Encode rest := by
  rw [b64Encode]

theorem b64Encode_eq_nil {s : Bytes} (h : b64Encode s = []) : s = [] := by
  match s, h with
  | [], _ => rfl
  | [_], h => simp [b64Encode] at h
  | [_, _], h => simp [b64Encode] at h
  | _ :: _ :: _ :: _, h => simp [b64Encode] at h

theorem b64Full_enc (a b c : UInt8) :
    b64Full (b64Sym (a.toNat / 4)) (b64Sym (a.toNat % 4 * 16 + b.toNat / 16))
      (b64Sym (b.toNat % 16 * 4 + c.toNat / 64)) (b64Sym (c.toNat % 64)) = some [a, b, c] := by
  have ha := a.toNat_lt; have hb := b.toNat_lt; have hc := c.toNat_lt
  unfold b64Full
  rw [b64Val_sym _ (by omega), b64Val_sym _ (by omega), b64Val_sym _ (by omega), b64Val_sym _ (by omega)]
  simp only [Option.some.injEq]
  congr 1
  · exact u8_of_toNat' (by omega)
  · congr 1
    · exact u8_of_toNat' (by omega)
    · congr 1
      exact u8_of_toNat' (by omega)

/-! ### decode ∘ encode -/

theorem b64_decode_encode : ∀ (n : Nat) (s : Bytes), s.length ≤ n → b64Decode (b64Encode s) = some s := by
  intro n
  induction n with
  | zero =>
    intro s h
    have : s = [] := List.eq_nil_of_length_eq_zero (by omega)
    subst this; rfl
  | succ n ih =>
    intro s h
    match s, h with
    | [], _ => rfl
    | [a], _ =>
      have ha := a.toNat_lt
      simp only [b64Encode]
      rw [b64Decode_last4]
      simp only [b64Last, beq_self_eq_true, if_true]
      rw [b64Val_sym _ (by omega), b64Val_sym _ (by omega)]
      have : a.toNat % 4 * 16 % 16 = 0 := by omega
      simp only [this, if_true, Option.some.injEq]
      congr 1
      exact u8_of_toNat' (by omega)
    | [a, b], _ =>
      have ha := a.toNat_lt; have hb := b.toNat_lt
      simp only [b64Encode]
      rw [b64Decode_last4]
      simp only [b64Last, beq_self_eq_true, if_true]
      rw [b64Sym_ne_pad _ (by omega)]
      simp only [Bool.false_eq_true, if_false]
      rw [b64Val_sym _ (by omega), b64Val_sym _ (by omega), b64Val_sym _ (by omega)]
      have : b.toNat % 16 * 4 % 4 = 0 := by omega
      simp only [this, if_true, Option.some.injEq]
      congr 1
      · exact u8_of_toNat' (by omega)
      · congr 1
        exact u8_of_toNat' (by omega)
    | a :: b :: c :: rest, h =>
      have hc := c.toNat_lt
      rw [b64Encode_cons3]
      by_cases hr : rest = []
      · subst hr
        simp only [b64Encode]
        rw [b64Decode_last4]
        simp only [b64Last]
        rw [b64Sym_ne_pad _ (by omega)]
        simp only [Bool.false_eq_true, if_false]
        exact b64Full_enc a b c
      · have hne : b64Encode rest ≠ [] := fun he => hr (b64Encode_eq_nil he)
        rw [b64Decode_more _ _ _ _ _ _ _ hne (b64Full_enc a b c) (ih rest (by simp only [List.length_cons] at h; omega))]
        rfl

theorem b64Decode_encode (s : Bytes) : b64Decode (b64Encode s) = some s :=
  b64_decode_encode s.length s (Nat.le_refl _)

/-! ### the decoder accepts only encodings -/

theorem b64Full_some {p q r s : UInt8} {out : Bytes} (h : b64Full p q r s = some out) :
    ∃ a b c : UInt8, out = [a, b, c] ∧ [p, q, r, s] = b64Encode [a, b, c] := by
  unfold b64Full at h
  cases hp : b64Val p with
  | none => simp [hp] at h
  | some x =>
  cases hq : b64Val q with
  | none => simp [hp, hq] at h
  | some y =>
  cases hr : b64Val r with
  | none => simp [hp, hq, hr] at h
  | some z =>
  cases hs : b64Val s with
  | none => simp [hp, hq, hr, hs] at h
  | some w =>
    simp only [hp, hq, hr, hs, Option.some.injEq] at h
    obtain ⟨hx, rfl⟩ := b64Val_some hp
    obtain ⟨hy, rfl⟩ := b64Val_some hq
    obtain ⟨hz, rfl⟩ := b64Val_some hr
    obtain ⟨hw, rfl⟩ := b64Val_some hs
    refine ⟨_, _, _, h.symm, ?_⟩
    rw [b64Encode_cons3]
    simp only [b64Encode]
    rw [u8_toNat_ofNat (by omega), u8_toNat_ofNat (by omega), u8_toNat_ofNat (by omega)]
    have e1 : (x * 4 + y / 16) / 4 = x := by omega
    have e2 : (x * 4 + y / 16) % 4 * 16 + (y % 16 * 16 + z / 4) / 16 = y := by omega
    have e3 : (y % 16 * 16 + z / 4) % 16 * 4 + (z % 4 * 64 + w) / 64 = z := by omega
    have e4 : (z % 4 * 64 + w) % 64 = w := by omega
    rw [e1, e2, e3, e4]

theorem b64Last_some {p q r s : UInt8} {out : Bytes} (h : b64Last p q r s = some out) :
    [p, q, r, s] = b64Encode out := by
  unfold b64Last at h
  by_cases hs : (s == b64Pad) = true
  · rw [if_pos hs] at h
    have hs' : s = b64Pad := by simpa using hs
    by_cases hr : (r == b64Pad) = true
    · rw [if_pos hr] at h
      have hr' : r = b64Pad := by simpa using hr
      cases hp : b64Val p with
      | none => simp [hp] at h
      | some x =>
      cases hq : b64Val q with
      | none => simp [hp, hq] at h
      | some y =>
        simp only [hp, hq] at h
        by_cases hy0 : y % 16 = 0
        · rw [if_pos hy0] at h
          injection h with h
          obtain ⟨hx, rfl⟩ := b64Val_some hp
          obtain ⟨hy, rfl⟩ := b64Val_some hq
          subst h
          simp only [b64Encode]
          rw [u8_toNat_ofNat (by omega)]
          have e1 : (x * 4 + y / 16) / 4 = x := by omega
          have e2 : (x * 4 + y / 16) % 4 * 16 = y := by omega
          rw [e1, e2, hr', hs']
        · rw [if_neg hy0] at h; cases h
    · rw [if_neg hr] at h
      cases hp : b64Val p with
      | none => simp [hp] at h
      | some x =>
      cases hq : b64Val q with
      | none => simp [hp, hq] at h
      | some y =>
      cases hz : b64Val r with
      | none => simp [hp, hq, hz] at h
      | some z =>
        simp only [hp, hq, hz] at h
        by_cases hz0 : z % 4 = 0
        · rw [if_pos hz0] at h
          injection h with h
          obtain ⟨hx, rfl⟩ := b64Val_some hp
          obtain ⟨hy, rfl⟩ := b64Val_some hq
          obtain ⟨hzz, rfl⟩ := b64Val_some hz
          subst h
          simp only [b64Encode]
          rw [u8_toNat_ofNat (by omega), u8_toNat_ofNat (by omega)]
          have e1 : (x * 4 + y / 16) / 4 = x := by omega
          have e2 : (x * 4 + y / 16) % 4 * 16 + (y % 16 * 16 + z / 4) / 16 = y := by omega
          have e3 : (y % 16 * 16 + z / 4) % 16 * 4 = z := by omega
          rw [e1, e2, e3, hs']
        · rw [if_neg hz0] at h; cases h
  · rw [if_neg hs] at h
    obtain ⟨a, b, c, rfl, he⟩ := b64Full_some h
    exact he

theorem b64_decode_only_encodings : ∀ (n : Nat) (t s : Bytes), t.length ≤ n → b64Decode t = some s → t = b64Encode s := by
  intro n
  induction n with
  | zero =>
    intro t s h hd
    have : t = [] := List.eq_nil_of_length_eq_zero (by omega)
    subst this
    simp [b64Decode] at hd
    subst hd; rfl
  | succ n ih =>
    intro t s h hd
    match t, h, hd with
    | [], _, hd => simp [b64Decode] at hd; subst hd; rfl
    | [_], _, hd => simp [b64Decode] at hd
    | [_, _], _, hd => simp [b64Decode] at hd
    | [_, _, _], _, hd => simp [b64Decode] at hd
    | p :: q :: r :: s' :: rest, h, hd =>
      by_cases hr : rest = []
      · subst hr
        rw [b64Decode_last4] at hd
        exact b64Last_some hd
      · obtain ⟨hdb, tl, hf, ht, hd⟩ := b64Decode_more_inv p q r s' rest s hr hd
        · obtain ⟨a, b, c, rfl, he⟩ := b64Full_some hf
          · have hrest := ih rest tl (by simp only [List.length_cons] at h; omega) ht
            subst hd
            simp only [List.cons_append, List.nil_append]
            rw [b64Encode_cons3, ← hrest]
            rw [b64Encode_cons3] at he
            simp only [b64Encode] at he
            simp only [List.cons.injEq, and_true] at he
            obtain ⟨h1, h2, h3, h4⟩ := he
            rw [h1, h2, h3, h4]

theorem b64Decode_only_encodings {t s : Bytes} (h : b64Decode t = some s) : t = b64Encode s :=
  b64_decode_only_encodings t.length t s (Nat.le_refl _) h

end Jaq.C13
